/-
Property theorems for JobShop.  Only statements (proofs live in Env/JobShop/Lemmas.lean).

`Inv cfg s` = shapes ∧ every op names a machine of the shop ∧ `Feasible` (the hard constraints,
recomputed from `scheduled_times`/`ops_durations`/`ops_machine_ids`) ∧ `Bookkeeping` (`ops_mask`,
`machines_remaining_times`, `machines_job_ids` agree with the schedule).  It holds after `reset`
(`jobshop_reset_feasible`) and is preserved by every legal action (`jobshop_step_feasible`), so it
holds on every state of mask-respecting play; `s.amask = maskOf cfg s` (the cached mask is fresh)
holds after `reset` and after every `step` (`jobshop_cached_mask_*`).
-/
import JumanjiModel.Env.JobShop.Lemmas
import JumanjiModel.Env.JobShop.Bounds
import JumanjiModel.Env.JobShop.CompletionLemmas
import JumanjiModel.Env.JobShop.SpecLemmas
import JumanjiModel.Env.JobShop.GenLemmas
import JumanjiModel.Env.JobShop.SpecValid
open Jm JobShop

/-- a concrete mid-episode state (2 jobs, 2 machines, 2 ops; job 0's first op runs on machine 0
since time 0 for 2 steps, the clock shows 1) used to show that the hypotheses are satisfiable -/
def JobShop.exCfg : Cfg := ⟨2, 2, 2, 2⟩
def JobShop.exState : State :=
  { mid := [[0, 1], [0, -1]], dur := [[2, 1], [1, -1]], opsMask := [[false, true], [true, false]],
    mjob := [0, 2], mrem := [1, 0], amask := [[false, false, true], [false, false, true]],
    stepCount := 1, sched := [[0, -1], [-1, -1]] }

namespace Props.C01
/-- `reset` (either generator; ANY instance arrays of shape `J × O` with machine ids in `[-1, M-1]` and durations
in `[-1, D]`): every leaf of the observation lies in the interval `obsBounds cfg` lists for it
(ops_machine_ids ∈ [-1, M-1], ops_durations ∈ [-1, D], machines_job_ids ∈ [0, J],
machines_remaining_times ∈ [0, D-1] (`[0, 0]` when `D = 0`), ops_mask, action_mask ∈ {0, 1}) -/
theorem jobshop_reset_obs_in_bounds (cfg : Cfg) (mid dur : List (List Int)) (h : validDraw cfg mid dur) :
    Jm.OB.InBounds (obsBounds cfg) (obsLeaves (reset cfg mid dur).2.obs) :=
  JobShop.reset_obs_in_bounds cfg mid dur h

/-- every step — all sizes, ANY state satisfying the bounds invariant (no shape or feasibility assumption), any
action whose entries for the machines are job ids or the no-op (`0 ≤ a[m] ≤ J`, i.e. every action of the action
spec), valid or not, terminal step included -/
theorem jobshop_step_obs_in_bounds (cfg : Cfg) (s : State) (a : List Int) (h : BInv cfg s) (ha : ActIn cfg a) :
    Jm.OB.InBounds (obsBounds cfg) (obsLeaves (step cfg s a).2.obs) :=
  JobShop.step_obs_in_bounds cfg s a h ha

/-- the invariant `BInv` (instance arrays, `machines_job_ids`, `machines_remaining_times` inside their intervals)
is established by `reset` and preserved by every such step, so the bounds hold along every episode -/
theorem jobshop_reset_binv (cfg : Cfg) (mid dur : List (List Int)) (h : validDraw cfg mid dur) :
    BInv cfg (reset cfg mid dur).1 := JobShop.reset_binv cfg mid dur h
theorem jobshop_step_binv (cfg : Cfg) (s : State) (a : List Int) (h : BInv cfg s) (ha : ActIn cfg a) :
    BInv cfg (step cfg s a).1 := JobShop.step_binv cfg s a h ha

/-- every action of the action spec satisfies the action hypothesis -/
theorem jobshop_inspec_actin (cfg : Cfg) (a : List Int) (h : InSpec cfg a) : ActIn cfg a :=
  JobShop.actIn_of_inSpec cfg a h

example : validDraw exCfg exState.mid exState.dur := by decide
example : BInv exCfg exState := by decide
example : ActIn exCfg [1, 2] := by decide

/-! NOTE on what the membership theorems of this section do and do not cover (audits r4 #6, r5 #6, r6 #8): the dtype tag of every leaf
is written by `toNValue` (by construction) — a wrong dtype in the real code cannot falsify `….valid (toNValue …) = true`; dtypes and
field order of the real observations are compared by the `job_shop.state` op (`nvalue`: field order, shape, dtype, data; harness/spec_wave3.py,
wave3_routing.py) and `jax.eval_shape` in the sweeps.  Shapes are READ OFF the value by `toNValue` (widths off the first row): see
`…_obs_valid_only`. -/

/-! #### (wave 3) membership in the DECLARED specs: structure, shapes, dtypes and bounds -/
open Sp PzS PkS

/-- the model's `obsSpec` / `actionSpec` / reward and discount specs ARE the specs generated from the real spec objects
(Gen/Specs.lean) for the catalogue configuration `JobShop(RandomGenerator(3, 3, 3, 3))`
SPEC-ONLY second configuration `JobShop(RandomGenerator(num_jobs=4, num_machines=3, max_num_ops=6, max_op_duration=7))`: jobs 4,
`jobs + 1 = 5`, machines 3, operations 6 and duration 7 are pairwise distinct, so a spec with two of them exchanged (which the
configuration ⟨3, 3, 3, 3⟩ cannot see — audit r5 #2) fails here -/
theorem jobshop_obsSpec_generated :
    prefixed "observation_spec." (obsSpec ⟨3, 3, 3, 3⟩) = declared "jobshop-3x3" "observation_spec." ∧
    [("action_spec", actionSpec ⟨3, 3, 3, 3⟩)] = declared "jobshop-3x3" "action_spec" ∧
    [("reward_spec", rewardSpec)] = declared "jobshop-3x3" "reward_spec" ∧
    [("discount_spec", discountSpec)] = declared "jobshop-3x3" "discount_spec" ∧
    prefixed "observation_spec." (obsSpec ⟨4, 3, 6, 7⟩) = declared "spec-only-jobshop-4x3x6x7" "observation_spec." ∧
    [("action_spec", actionSpec ⟨4, 3, 6, 7⟩)] = declared "spec-only-jobshop-4x3x6x7" "action_spec" ∧
    [("reward_spec", rewardSpec)] = declared "spec-only-jobshop-4x3x6x7" "reward_spec" ∧
    [("discount_spec", discountSpec)] = declared "spec-only-jobshop-4x3x6x7" "discount_spec" := by
  refine ⟨by decide +kernel, by decide +kernel, by decide +kernel, by decide +kernel, by decide +kernel, by decide +kernel,
    by decide +kernel, by decide +kernel⟩

/-- the `reset` observation of EVERY valid instance (`validDraw`: shape `J × O`, machine ids in `[-1, M-1]`, durations in
`[-1, D]`; every output of `RandomGenerator` is one: `jobshop_generate_validDraw`) of every configuration with at least one
job and one machine is accepted by `observation_spec.validate`: six fields, shapes `(J, O)` ×3, `(M,)` ×2, `(M, J+1)`, dtypes
int32 / bool, bounds as declared (`machines_remaining_times` ≤ D) -/
theorem jobshop_reset_obs_valid (cfg : Cfg) (hJ : 0 < cfg.J) (hM : 0 < cfg.M) (mid dur : List (List Int))
    (h : validDraw cfg mid dur) : (obsSpec cfg).valid (toNValue (reset cfg mid dur).2.obs) = true :=
  JobShop.reset_obs_valid cfg hJ hM mid dur h

/-- the same for the observation of EVERY `step` with an action whose entries are job ids or the no-op (every action of the
action spec) — legal or not, MID or LAST — from every state satisfying the spec invariant `SInv` (= `BInv` + shapes of the
two instance arrays) -/
theorem jobshop_step_obs_valid (cfg : Cfg) (hJ : 0 < cfg.J) (hM : 0 < cfg.M) (s : State) (a : List Int)
    (h : SInv cfg s) (ha : ActIn cfg a) : (obsSpec cfg).valid (toNValue (step cfg s a).2.obs) = true :=
  JobShop.step_obs_valid cfg hJ hM s a h ha

/-- `SInv` is established by `reset` and preserved by every such step -/
theorem jobshop_sinv_invariant (cfg : Cfg) :
    (∀ mid dur, validDraw cfg mid dur → SInv cfg (reset cfg mid dur).1) ∧
    (∀ (s : State) (a : List Int), SInv cfg s → ActIn cfg a → SInv cfg (step cfg s a).1) :=
  ⟨JobShop.reset_sinv cfg, fun s a h ha => JobShop.step_sinv cfg s a h ha⟩

/-- WHOLE EPISODES: every observation of the rollout (`Ep.rollout` = the L1 step iterated, through the first LAST and
beyond) of ANY in-spec actions from the `reset` state of any valid instance is a member of the spec -/
theorem jobshop_rollout_obs_valid (cfg : Cfg) (hJ : 0 < cfg.J) (hM : 0 < cfg.M) (mid dur : List (List Int))
    (h : validDraw cfg mid dur) (as : List (List Int)) (has : ∀ a ∈ as, ActIn cfg a) (j : Nat)
    (e : State × TimeStep Obs) (he : (Ep.rollout (step cfg) (reset cfg mid dur).1 as)[j]? = some e) :
    (obsSpec cfg).valid (toNValue e.2.obs) = true := JobShop.rollout_obs_valid cfg hJ hM mid dur h as has j e he

/-- the transliterated `RandomGenerator` produces valid instances for every valid draw, and its reset state is `reset` of them -/
theorem jobshop_generate_validDraw (cfg : Cfg) (midDraw durDraw : List (List Int)) (numOps : List Int)
    (h : validGenDraw cfg midDraw durDraw numOps) :
    validDraw cfg (genPad cfg midDraw numOps) (genPad cfg durDraw numOps) ∧
    generate cfg midDraw durDraw numOps = (reset cfg (genPad cfg midDraw numOps) (genPad cfg durDraw numOps)).1 :=
  ⟨JobShop.generate_validDraw cfg midDraw durDraw numOps h, rfl⟩

/-- what membership means (so the theorems above are not hollow)  CAVEAT (audits r4 #7, r5 #5, r6 #5): for every field that is a nested list, `toNValue` reads the widths off the FIRST row of the
nested list, so the shape conjuncts here mean "row count, length of the first row, total number of cells" — a ragged value with the right total can be a
member, and nothing is concluded about the later rows.  Rectangularity is part of the invariant (`SpecInv` / `Shaped` / `Rect…`) under which the
forward theorems (`…_reset_obs_valid`, `…_step_obs_valid`, `…_along`) are proved, i.e. it holds of every EMITTED observation. -/
theorem jobshop_obs_valid_only (cfg : Cfg) (o : Obs) (h : (obsSpec cfg).valid (toNValue o) = true) :
    shape2 o.mid = [cfg.J, cfg.O] ∧ (∀ v ∈ o.mid.flatten, -1 ≤ v ∧ v ≤ (cfg.M : Int) - 1) ∧
    shape2 o.dur = [cfg.J, cfg.O] ∧ (∀ v ∈ o.dur.flatten, -1 ≤ v ∧ v ≤ (cfg.D : Int)) ∧
    shape2 o.opsMask = [cfg.J, cfg.O] ∧
    o.mjob.length = cfg.M ∧ (∀ v ∈ o.mjob, 0 ≤ v ∧ v ≤ (cfg.J : Int)) ∧
    o.mrem.length = cfg.M ∧ (∀ v ∈ o.mrem, 0 ≤ v ∧ v ≤ (cfg.D : Int)) ∧
    shape2 o.amask = [cfg.M, cfg.J + 1] := JobShop.obs_valid_only cfg o h

example : SInv exCfg exState ∧ (obsSpec exCfg).valid (toNValue (step exCfg exState [2, 2]).2.obs) = true ∧
    (obsSpec exCfg).valid (toNValue { (step exCfg exState [2, 2]).2.obs with mjob := [3, 2] }) = false ∧
    (obsSpec ⟨2, 3, 2, 2⟩).valid (toNValue (step exCfg exState [2, 2]).2.obs) = false := by
  refine ⟨⟨by decide, ⟨rfl, by decide⟩, ⟨rfl, by decide⟩⟩, by decide +kernel, by decide +kernel, by decide +kernel⟩

/-- reward and discount of every `step` (ALL states, ALL action values) and of `reset` are accepted by `reward_spec`
(Array((), float)) and `discount_spec` (BoundedArray((), float, 0, 1)) -/
theorem jobshop_reward_discount_valid (cfg : Cfg) (s : State) (a : List Int) (mid dur : List (List Int)) :
    rewardSpec.valid (scalarArr (step cfg s a).2.reward) = true ∧
    discountSpec.valid (scalarArr (step cfg s a).2.discount) = true ∧
    rewardSpec.valid (scalarArr (reset cfg mid dur).2.reward) = true ∧
    discountSpec.valid (scalarArr (reset cfg mid dur).2.discount) = true :=
  ⟨(JobShop.step_reward_discount_valid cfg s a).1, (JobShop.step_reward_discount_valid cfg s a).2,
   (JobShop.reset_reward_discount_valid cfg mid dur).1, (JobShop.reset_reward_discount_valid cfg mid dur).2⟩

/-- `action_spec.generate_value()` = job 0 on every machine: the action spec is well-formed, the generated value is a member
(membership in `action_spec` is exactly `InSpec`), and `step` answers it in every state with a protocol-conform timestep -/
theorem jobshop_accepts_generate_value (cfg : Cfg) (hbig : cfg.J < 2147483648) (s : State) :
    (actionSpec cfg).WF = true ∧ (actionSpec cfg).valid (actionSpec cfg).generate = true ∧
    (actionSpec cfg).generate = actionArr cfg (List.replicate cfg.M 0) ∧ InSpec cfg (List.replicate cfg.M 0) ∧
    StepOK none false (step cfg s (List.replicate cfg.M 0)).2 = true :=
  ⟨JobShop.actionSpec_WF cfg hbig, Leaf.generate_valid _ (JobShop.actionSpec_WF cfg hbig), JobShop.actionSpec_generate cfg,
   JobShop.generate_inSpec cfg, JobShop.step_protocol cfg s _⟩

theorem jobshop_action_spec_iff (cfg : Cfg) (a : List Int) :
    (actionSpec cfg).valid (actionArr cfg a) = true ↔ InSpec cfg a := JobShop.actionSpec_valid_iff cfg a
end Props.C01

namespace Props.C04
/-- on every state satisfying the invariant, the mask entry (machine `m`, choice `c`) is set exactly
when the rules — stated from the schedule alone — allow machine `m` to take choice `c` -/
theorem jobshop_mask_iff_legal (cfg : Cfg) (s : State) (hI : Inv cfg s) {m c : Nat} (hm : m < cfg.M)
    (hc : c ≤ cfg.J) : at2 (maskOf cfg s) false m c = true ↔ legal cfg s m c :=
  JobShop.mask_iff_legal cfg s hI hm hc

/-- the mask cached in the state (the one `step` tests the action against and the observation shows)
is the mask of the current state: after `reset` and after every `step` -/
theorem jobshop_cached_mask_step (cfg : Cfg) (s : State) (a : List Int) :
    (step cfg s a).1.amask = maskOf cfg (step cfg s a).1 := JobShop.cached_mask_step cfg s a
theorem jobshop_cached_mask_reset (cfg : Cfg) (mid dur : List (List Int)) :
    (initState cfg mid dur).amask = maskOf cfg (initState cfg mid dur) :=
  JobShop.cached_mask_init cfg mid dur

/-- the environment's own validity test accepts exactly the legal joint actions -/
theorem jobshop_step_agrees (cfg : Cfg) (s : State) (a : List Int) (hI : Inv cfg s)
    (hC : s.amask = maskOf cfg s) (hA : InSpec cfg a) : invalid cfg s a = false ↔ legalAction cfg s a :=
  JobShop.invalid_iff cfg s a hI hC hA

/-- (wave 3, audit) `jobshop_step_agrees` speaks of `invalid`, the test inside `step`; this one is about what `step`
RETURNS: on a state of legal play, for every in-spec joint action, the emitted timestep is LAST exactly when the rules
forbid the action, or all machines are idle afterwards, or the schedule is finished.  So an episode that is neither finished
nor idle is ended exactly for illegal actions: legal ↔ the step did not treat the action as invalid.  (The reward cannot be
used to tell: for `J·O·D = 1` the penalty equals the ordinary step reward −1.) -/
theorem jobshop_step_last_iff_rules (cfg : Cfg) (s : State) (a : List Int) (hI : Inv cfg s)
    (hC : s.amask = maskOf cfg s) (hA : InSpec cfg a) :
    (step cfg s a).2.stepType = .last ↔
      (¬ legalAction cfg s a ∨ allIdle cfg (next cfg s a) = true ∨ finished cfg (next cfg s a) = true) :=
  JobShop.step_last_iff_rules cfg s a hI hC hA

/-- the same with BOTH other causes at the level of the RULES (audit r5 #4; `allIdle` / `finished` above are the L1 flags): LAST
exactly when the rules forbid the action, or no machine worked in the time unit just played and none has work left (`idleSpec`),
or the action was legal and every real operation is scheduled and completed by the clock (`completeSpec`) -/
theorem jobshop_step_last_iff_rules' (cfg : Cfg) (s : State) (a : List Int) (hI : Inv cfg s)
    (hC : s.amask = maskOf cfg s) (hA : InSpec cfg a) :
    (step cfg s a).2.stepType = .last ↔
      (¬ legalAction cfg s a ∨ idleSpec cfg (step cfg s a).1 ∨
        (legalAction cfg s a ∧ completeSpec cfg (step cfg s a).1)) :=
  JobShop.step_last_iff_rules' cfg s a hI hC hA

theorem jobshop_step_reaction (cfg : Cfg) (s : State) (a : List Int) (hI : Inv cfg s)
    (hC : s.amask = maskOf cfg s) (hA : InSpec cfg a) (hidle : allIdle cfg (next cfg s a) = false)
    (hfin : finished cfg (next cfg s a) = false) :
    (step cfg s a).2.stepType = .last ↔ ¬ legalAction cfg s a := by
  rw [JobShop.step_last_iff_rules cfg s a hI hC hA, hidle, hfin]; simp

theorem jobshop_penalty_eq_step_reward_witness : penalty ⟨1, 1, 1, 1⟩ = -1 := by decide +kernel

example : Inv exCfg exState ∧ exState.amask = maskOf exCfg exState := by decide +kernel
-- both cases of `jobshop_step_reaction` occur on `exState`: [2, 2] (wait) is legal and MID, [1, 2] is illegal and LAST
example : InSpec exCfg [2, 2] ∧ InSpec exCfg [1, 2] ∧ (step exCfg exState [2, 2]).2.stepType = .mid ∧
    (step exCfg exState [1, 2]).2.stepType = .last ∧ allIdle exCfg (next exCfg exState [1, 2]) = false ∧
    finished exCfg (next exCfg exState [1, 2]) = false := by decide +kernel
example : legalAction exCfg exState [2, 2] ∧ ¬ legalAction exCfg exState [1, 2] ∧
    legal exCfg ⟨[[1, 0], [0, -1]], [[2, 1], [1, -1]], [[true, true], [true, false]], [2, 2], [0, 0],
      [[false, true, true], [true, false, true]], 0, [[-1, -1], [-1, -1]]⟩ 1 0 := by decide +kernel
end Props.C04

namespace Props.C05
/-- an in-spec action that the rules forbid ends the episode at once (LAST, discount 0) with the
documented penalty −num_jobs·max_num_ops·max_op_duration -/
theorem jobshop_illegal_terminates (cfg : Cfg) (s : State) (a : List Int) (hI : Inv cfg s)
    (hC : s.amask = maskOf cfg s) (hA : InSpec cfg a) (h : ¬ legalAction cfg s a) :
    (step cfg s a).2.stepType = .last ∧ (step cfg s a).2.reward = [penalty cfg] ∧
    (step cfg s a).2.discount = [0] := JobShop.illegal_terminates cfg s a hI hC hA h

/-- the other documented penalty: all machines idle after the step -/
theorem jobshop_idle_terminates (cfg : Cfg) (s : State) (a : List Int)
    (hidle : allIdle cfg (next cfg s a) = true) :
    (step cfg s a).2.stepType = .last ∧ (step cfg s a).2.reward = [penalty cfg] :=
  JobShop.idle_terminates cfg s a hidle
end Props.C05

namespace Props.C06
/-- the state built by `reset` satisfies the invariant for every instance of the configured shape
whose ops name machines of the shop -/
theorem jobshop_reset_feasible (cfg : Cfg) (mid dur : List (List Int))
    (hmid : mid.length = cfg.J ∧ ∀ j, j < cfg.J → (mid.getD j []).length = cfg.O)
    (hdur : dur.length = cfg.J ∧ ∀ j, j < cfg.J → (dur.getD j []).length = cfg.O)
    (hM : MachinesOK cfg (initState cfg mid dur)) : Inv cfg (initState cfg mid dur) :=
  JobShop.init_inv cfg mid dur hmid hdur hM

/-- a legal action keeps the schedule feasible (start times in the past, job order respected, no
overlap within a job or on a machine) and the machine/op bookkeeping consistent with it -/
theorem jobshop_step_feasible (cfg : Cfg) (s : State) (a : List Int) (hI : Inv cfg s)
    (hL : legalAction cfg s a) : Inv cfg (step cfg s a).1 := JobShop.inv_next cfg s a hI hL

/-- when legal play reaches a finished schedule, the state is a complete feasible solution: every
op is scheduled and has run to completion -/
theorem jobshop_complete_is_solution (cfg : Cfg) (s : State) (a : List Int) (hI : Inv cfg s)
    (hL : legalAction cfg s a) (hD : DurationsOK cfg s) (hnf : finished cfg s = false)
    (hf : finished cfg (step cfg s a).1 = true) : IsSolution cfg (step cfg s a).1 :=
  (JobShop.completion_at_makespan cfg s a hI hL hD hnf hf).2

example : Inv exCfg exState ∧ legalAction exCfg exState [2, 2] := by decide +kernel
/-- whole episodes from ANY state satisfying the invariant along ANY sequence of joint actions each legal at its
turn: after every prefix the invariant holds, in particular the hard constraints `Feasible` (start times in the
past, job order respected, no two ops overlap within a job or on a machine) -/
theorem jobshop_feasible_along_from (cfg : Cfg) (s : State) (as : List (List Int)) (hI : Inv cfg s)
    (hal : AllLegal cfg s as) (k : Nat) :
    Inv cfg (play cfg s (as.take k)).1 ∧ Feasible cfg (play cfg s (as.take k)).1 :=
  ⟨JobShop.feasible_along cfg s as hI hal k, (JobShop.feasible_along cfg s as hI hal k).2.2.1⟩

/-- whole episodes from ANY generated instance (any configuration, any valid draws of `RandomGenerator`) along ANY
mask-respecting sequence (`AllMasked`: in-spec joint actions each of whose per-machine choices has its bit set in
the action mask of the observation current at its turn): after every prefix the schedule satisfies the hard
constraints -/
theorem jobshop_feasible_along (cfg : Cfg) (midDraw durDraw : List (List Int)) (numOps : List Int)
    (hd : validGenDraw cfg midDraw durDraw numOps) (as : List (List Int))
    (hm : AllMasked cfg (generate cfg midDraw durDraw numOps) as) (k : Nat) :
    Feasible cfg (play cfg (generate cfg midDraw durDraw numOps) (as.take k)).1 ∧
    Inv cfg (play cfg (generate cfg midDraw durDraw numOps) (as.take k)).1 := by
  have hc := JobShop.cert_state cfg _ (JobShop.generate_cert cfg midDraw durDraw numOps hd)
  have hal := JobShop.allMasked_allLegal cfg as _ hc.2.1 hc.2.2 hm
  have := JobShop.feasible_along cfg _ as hc.2.1 hal k
  exact ⟨this.2.2.1, this⟩

/-- the same from the toy instance -/
theorem jobshop_feasible_along_toy (as : List (List Int)) (hm : AllMasked toyCfg toyState as) (k : Nat) :
    Feasible toyCfg (play toyCfg toyState (as.take k)).1 := by
  have hI : Inv toyCfg toyState := by decide +kernel
  have hC : toyState.amask = maskOf toyCfg toyState := rfl
  exact (JobShop.feasible_along toyCfg _ as hI (JobShop.allMasked_allLegal toyCfg as _ hI hC hm) k).2.2.1

-- a mask-respecting sequence on a generated 2-job instance (job 0: two ops, job 1: one op)
example : validGenDraw exCfg [[0, 1], [0, 1]] [[2, 1], [1, 2]] [2, 1] ∧
    AllMasked exCfg (generate exCfg [[0, 1], [0, 1]] [[2, 1], [1, 2]] [2, 1]) [[0, 2], [2, 2], [1, 0]] := by
  refine ⟨by decide +kernel, ?_⟩
  simp only [AllMasked, Masked]; decide +kernel
end Props.C06

namespace Props.C08
/-- a valid step that does not leave all machines idle has reward −1, advances the clock by one,
and is LAST exactly when the schedule is finished -/
theorem jobshop_valid_step_reward (cfg : Cfg) (s : State) (a : List Int) (hv : invalid cfg s a = false)
    (hidle : allIdle cfg (next cfg s a) = false) :
    (step cfg s a).2.reward = [-1] ∧ (step cfg s a).1.stepCount = s.stepCount + 1 ∧
    ((step cfg s a).2.stepType = .last ↔ finished cfg (next cfg s a) = true) :=
  JobShop.valid_step_reward cfg s a hv hidle

/-- completion is detected at the makespan: the first finished state of legal play has
clock = max (scheduled_time + duration) -/
theorem jobshop_completion_at_makespan (cfg : Cfg) (s : State) (a : List Int) (hI : Inv cfg s)
    (hL : legalAction cfg s a) (hD : DurationsOK cfg s) (hnf : finished cfg s = false)
    (hf : finished cfg (next cfg s a) = true) :
    makespan cfg (next cfg s a) = (next cfg s a).stepCount :=
  (JobShop.completion_at_makespan cfg s a hI hL hD hnf hf).1

/-- whole episodes: from a fresh instance (clock 0), a legal episode that ends by completion
(never all machines idle) has return = −makespan of the final schedule -/
theorem jobshop_return_eq_neg_makespan (cfg : Cfg) (s : State) (as : List (List Int)) (hI : Inv cfg s)
    (hC : s.amask = maskOf cfg s) (hD : DurationsOK cfg s) (h0 : s.stepCount = 0)
    (hcb : CompletesBy cfg s as) : (play cfg s as).2 = objective cfg (play cfg s as).1 :=
  JobShop.return_eq_objective cfg s as hI hC hD h0 hcb

/-- a 1-job instance played to completion: CompletesBy is satisfiable, the return is −2 -/
example : CompletesBy ⟨1, 1, 1, 2⟩ (initState ⟨1, 1, 1, 2⟩ [[0]] [[2]]) [[0], [1]] ∧
    (play ⟨1, 1, 1, 2⟩ (initState ⟨1, 1, 1, 2⟩ [[0]] [[2]]) [[0], [1]]).2 = -2 := by
  refine ⟨?_, ?_⟩
  · simp only [CompletesBy]; decide +kernel
  · decide +kernel

/-- the interaction of the two end conditions: under a legal action from an unfinished state, a finished
successor never has all machines idle (the machine that ran the last op keeps its job id), so the completing
step is rewarded −1, never the idle penalty, and is LAST.  No assumption on durations. -/
theorem jobshop_finished_not_idle (cfg : Cfg) (s : State) (a : List Int) (hI : Inv cfg s)
    (hL : legalAction cfg s a) (hnf : finished cfg s = false) (hf : finished cfg (next cfg s a) = true) :
    allIdle cfg (next cfg s a) = false := JobShop.finished_not_idle cfg s a hI hL hnf hf

theorem jobshop_completing_step (cfg : Cfg) (s : State) (a : List Int) (hI : Inv cfg s)
    (hC : s.amask = maskOf cfg s) (hL : legalAction cfg s a) (hnf : finished cfg s = false)
    (hf : finished cfg (next cfg s a) = true) :
    (step cfg s a).2.reward = [-1] ∧ (step cfg s a).2.stepType = .last :=
  JobShop.completing_step cfg s a hI hC hL hnf hf

/-- `CompletesBy` (which ASSUMES "not all machines idle" also at the completing step) follows from the episode as
the environment sees it: `EndsByCompletion` = every action legal, every timestep before the last is not LAST,
the schedule is finished after the last action -/
theorem jobshop_completesBy_of_ends (cfg : Cfg) (s : State) (as : List (List Int)) (hI : Inv cfg s)
    (hnf : finished cfg s = false) (he : EndsByCompletion cfg s as) : CompletesBy cfg s as :=
  JobShop.completesBy_of_ends cfg as s hI hnf he

/-- whole episodes, leftover hypothesis discharged: from a fresh unfinished instance (clock 0) a legal episode that
runs (no LAST before its end) until the schedule is finished has return = −makespan of the final schedule, and the
final state is a complete feasible solution.  (`finished cfg s = false` is needed: on an instance without any op
the first step leaves all machines idle and is penalised.) -/
theorem jobshop_return_eq_neg_makespan' (cfg : Cfg) (s : State) (as : List (List Int)) (hI : Inv cfg s)
    (hC : s.amask = maskOf cfg s) (hD : DurationsOK cfg s) (h0 : s.stepCount = 0)
    (hnf : finished cfg s = false) (he : EndsByCompletion cfg s as) :
    (play cfg s as).2 = objective cfg (play cfg s as).1 ∧ IsSolution cfg (play cfg s as).1 :=
  JobShop.return_eq_objective' cfg s as hI hC hD h0 hnf he

/-- (wave 3) the same from `reset` of the transliterated `RandomGenerator`: for EVERY configuration with at least one job,
EVERY valid draw and every legal episode that runs until the schedule is finished, the return is −makespan of the final
schedule, which is a complete feasible solution (all hypotheses on the start state discharged from the generator) -/
theorem jobshop_return_from_generated (cfg : Cfg) (hJ : 0 < cfg.J) (midDraw durDraw : List (List Int)) (numOps : List Int)
    (hd : validGenDraw cfg midDraw durDraw numOps) (as : List (List Int))
    (he : EndsByCompletion cfg (generate cfg midDraw durDraw numOps) as) :
    (play cfg (generate cfg midDraw durDraw numOps) as).2 = objective cfg (play cfg (generate cfg midDraw durDraw numOps) as).1 ∧
    IsSolution cfg (play cfg (generate cfg midDraw durDraw numOps) as).1 := by
  have hg := JobShop.generate_cert cfg midDraw durDraw numOps hd
  have hc := JobShop.cert_state cfg _ hg
  exact JobShop.return_eq_objective' cfg _ as hc.2.1 hc.2.2 (JobShop.cert_instance cfg _ hg).2.1 hg.2.2.2.2.2.1
    (JobShop.generated_unfinished cfg hJ _ hg) he

/-- the hypotheses are satisfiable: the 1-job instance above, played to completion -/
example : Inv ⟨1, 1, 1, 2⟩ (initState ⟨1, 1, 1, 2⟩ [[0]] [[2]]) ∧
    finished ⟨1, 1, 1, 2⟩ (initState ⟨1, 1, 1, 2⟩ [[0]] [[2]]) = false ∧
    DurationsOK ⟨1, 1, 1, 2⟩ (initState ⟨1, 1, 1, 2⟩ [[0]] [[2]]) ∧
    EndsByCompletion ⟨1, 1, 1, 2⟩ (initState ⟨1, 1, 1, 2⟩ [[0]] [[2]]) [[0], [1]] := by
  refine ⟨by decide +kernel, by decide +kernel, by decide +kernel, ?_⟩
  simp only [EndsByCompletion]; decide +kernel

/-- the empty instance shows why `finished cfg s = false` is assumed: all machines idle after the first step,
penalty instead of −makespan = 0 -/
example : (step ⟨1, 1, 1, 2⟩ (initState ⟨1, 1, 1, 2⟩ [[-1]] [[-1]]) [1]).2.reward = [penalty ⟨1, 1, 1, 2⟩] ∧
    finished ⟨1, 1, 1, 2⟩ (initState ⟨1, 1, 1, 2⟩ [[-1]] [[-1]]) = true := by decide +kernel
end Props.C08

namespace Props.C09
/-- the clock: every step advances `step_count` by one and leaves the instance untouched -/
theorem jobshop_clock (cfg : Cfg) (s : State) (a : List Int) :
    (step cfg s a).1.stepCount = s.stepCount + 1 ∧ (step cfg s a).1.mid = s.mid ∧
    (step cfg s a).1.dur = s.dur := ⟨rfl, rfl, rfl⟩

/-- L1 = L2 on the schedule: under a legal action the ops that get a start time are exactly the next
ops of the chosen jobs (`Hit`), they start now, and all other start times are unchanged -/
theorem jobshop_schedule_eq (cfg : Cfg) (s : State) (a : List Int) (hI : Inv cfg s)
    (hL : legalAction cfg s a) {j k : Nat} (hj : j < cfg.J) (hk : k < cfg.O) :
    (step cfg s a).1.schedAt j k = if Hit cfg s a j k then s.stepCount else s.schedAt j k :=
  JobShop.schedAt_next cfg s a hI hL hj hk

/-- L1 = L2 on the machines: after a legal action `machines_remaining_times` is again the time until
the machine's last op completes and `ops_mask` again marks the real unscheduled ops -/
theorem jobshop_clock_eq (cfg : Cfg) (s : State) (a : List Int) (hI : Inv cfg s)
    (hL : legalAction cfg s a) : Bookkeeping cfg (step cfg s a).1 :=
  (JobShop.inv_next cfg s a hI hL).2.2.2

/-- L1 = L2 for the whole step (refinement): on every state of legal play (the invariant `Inv`, fresh
cached mask) and for every legal joint action, the transliterated `step` equals `stepSpec`
(Env/JobShop/Spec.lean), the step written from the published rules in terms of the schedule alone:
instance unchanged, clock + 1; an op gets the current clock as start time exactly when a machine's choice
starts it as the next op of its job (`Hit`); `ops_mask` = real and unscheduled in the new schedule;
`machines_remaining_times[m]` = time from the new clock until the last op scheduled on `m` completes
(0 if none is running); `machines_job_ids[m]` = the job whose op occupied `m` during the time unit just
played, the no-op id `J` if `m` was unoccupied; `action_mask` = the legality table of the rules in the
new schedule; timestep = penalty and LAST when all machines are idle, otherwise reward −1 and LAST
(discount 0) exactly when every real op is scheduled and has completed by the new clock, else MID
(discount 1); observation = the six fields of the successor.  The equation covers all eight state
fields and the whole timestep. -/
theorem jobshop_step_eq_spec (cfg : Cfg) (s : State) (a : List Int) (hI : Inv cfg s)
    (hC : s.amask = maskOf cfg s) (hL : legalAction cfg s a) : step cfg s a = stepSpec cfg s a :=
  JobShop.step_eq_spec cfg s a hI hC hL

/-- for an in-spec action the rules forbid only the timestep is claimed: implementation and rule-level
step both end the episode (LAST, discount 0) with the penalty.  (`step` mutates the state also then,
with gather semantics that are not rule-level.) -/
theorem jobshop_step_illegal_spec (cfg : Cfg) (s : State) (a : List Int) (hI : Inv cfg s)
    (hC : s.amask = maskOf cfg s) (hA : InSpec cfg a) (h : ¬ legalAction cfg s a) :
    ((step cfg s a).2.stepType = .last ∧ (step cfg s a).2.reward = [penalty cfg] ∧
      (step cfg s a).2.discount = [0]) ∧
    ((stepSpec cfg s a).2.stepType = .last ∧ (stepSpec cfg s a).2.reward = [penalty cfg] ∧
      (stepSpec cfg s a).2.discount = [0]) :=
  JobShop.step_illegal_spec cfg s a hI hC hA h

/-- with durations ≥ 1 (`DurationsOK`) "occupied machine `m` during `[t, t+1)`" is `start ≤ t < end` -/
theorem jobshop_occupies_iff (cfg : Cfg) (s : State) (hD : DurationsOK cfg s) {m j k : Nat}
    (hj : j < cfg.J) (hk : k < cfg.O) (t : Int) :
    occupies s m j k t ↔
      (isSched s j k ∧ s.midAt j k = (m : Int) ∧ s.schedAt j k ≤ t ∧ t < endTime s j k) :=
  JobShop.occupies_iff_of_durations cfg s hD hj hk t

/-- the hypotheses are satisfiable: on `exState` (machine 0 busy) the all-no-op action is legal; one step
later (clock 2, both machines free) the action `[1, 0]` is legal and starts two ops -/
example : Inv exCfg exState ∧ exState.amask = maskOf exCfg exState ∧ legalAction exCfg exState [2, 2] := by
  decide +kernel
example : Inv exCfg (next exCfg exState [2, 2]) ∧
    (next exCfg exState [2, 2]).amask = maskOf exCfg (next exCfg exState [2, 2]) ∧
    legalAction exCfg (next exCfg exState [2, 2]) [1, 0] ∧
    Hit exCfg (next exCfg exState [2, 2]) [1, 0] 1 0 ∧ Hit exCfg (next exCfg exState [2, 2]) [1, 0] 0 1 := by
  decide +kernel

/-- sanity checks by evaluation, independent of the proof (`TimeStep` has no `DecidableEq`, so the
timestep is compared field by field): a waiting step, a step that starts two ops and completes the
schedule, a legal step that leaves all machines idle (penalty), and a first step -/
example : (step exCfg exState [2, 2]).1 = (stepSpec exCfg exState [2, 2]).1 ∧
    (step exCfg exState [2, 2]).2.stepType = (stepSpec exCfg exState [2, 2]).2.stepType ∧
    (step exCfg exState [2, 2]).2.reward = (stepSpec exCfg exState [2, 2]).2.reward ∧
    (step exCfg exState [2, 2]).2.discount = (stepSpec exCfg exState [2, 2]).2.discount ∧
    (step exCfg exState [2, 2]).2.obs = (stepSpec exCfg exState [2, 2]).2.obs := by decide +kernel
example : (step exCfg (next exCfg exState [2, 2]) [1, 0]).1 = (stepSpec exCfg (next exCfg exState [2, 2]) [1, 0]).1 ∧
    (step exCfg (next exCfg exState [2, 2]) [1, 0]).2.stepType = .last ∧
    (stepSpec exCfg (next exCfg exState [2, 2]) [1, 0]).2.stepType = .last ∧
    (stepSpec exCfg (next exCfg exState [2, 2]) [1, 0]).2.reward = [-1] ∧
    (step exCfg (next exCfg exState [2, 2]) [1, 0]).2.reward = (stepSpec exCfg (next exCfg exState [2, 2]) [1, 0]).2.reward ∧
    (step exCfg (next exCfg exState [2, 2]) [1, 0]).2.discount = (stepSpec exCfg (next exCfg exState [2, 2]) [1, 0]).2.discount ∧
    (step exCfg (next exCfg exState [2, 2]) [1, 0]).2.obs = (stepSpec exCfg (next exCfg exState [2, 2]) [1, 0]).2.obs ∧
    (stepSpec exCfg (next exCfg exState [2, 2]) [1, 0]).1.sched = [[0, 2], [2, -1]] ∧
    (stepSpec exCfg (next exCfg exState [2, 2]) [1, 0]).1.mjob = [1, 0] := by decide +kernel
example : legalAction exCfg (next exCfg exState [2, 2]) [2, 2] ∧
    (stepSpec exCfg (next exCfg exState [2, 2]) [2, 2]).1 = (step exCfg (next exCfg exState [2, 2]) [2, 2]).1 ∧
    (stepSpec exCfg (next exCfg exState [2, 2]) [2, 2]).2.stepType = .last ∧
    (stepSpec exCfg (next exCfg exState [2, 2]) [2, 2]).2.reward = [penalty exCfg] ∧
    (step exCfg (next exCfg exState [2, 2]) [2, 2]).2.reward = [penalty exCfg] := by decide +kernel
example : (step exCfg (initState exCfg [[0, 1], [0, -1]] [[2, 1], [1, -1]]) [0, 2]).1 =
      (stepSpec exCfg (initState exCfg [[0, 1], [0, -1]] [[2, 1], [1, -1]]) [0, 2]).1 ∧
    (stepSpec exCfg (initState exCfg [[0, 1], [0, -1]] [[2, 1], [1, -1]]) [0, 2]).2.stepType = .mid ∧
    (stepSpec exCfg (initState exCfg [[0, 1], [0, -1]] [[2, 1], [1, -1]]) [0, 2]).2.reward = [-1] ∧
    (stepSpec exCfg (initState exCfg [[0, 1], [0, -1]] [[2, 1], [1, -1]]) [0, 2]).2.discount = [1] := by
  decide +kernel
end Props.C09

namespace Props.C10
/-- `RandomGenerator`, transliterated with its three `randint` arrays as parameters (`generate cfg midDraw durDraw
numOps` = `jnp.where(arange(O) < num_ops[:, None], draw, -1)` for machine ids and durations, the fresh machine /
schedule fields, and the action mask `reset` adds): for EVERY configuration and EVERY valid draw (machine ids in
`[0, M)`, durations in `[1, D]`, ops per job in `[1, O]`) the reset state satisfies the certificate `GenCert`:
every job has between 1 and `max_num_ops` real ops followed by padding (−1), durations of real ops in
`[1, max_op_duration]`, machine ids in `[0, num_machines)`, `ops_mask` true exactly on the real ops,
`machines_job_ids` all no-op, remaining times 0, `scheduled_times` all −1, `step_count` 0, and the reset action mask
equals the legality table of the rules.  `job_shop.instance` evaluates `GenCert` on the implementation's reset
states (key `generate_cert`). -/
theorem jobshop_generate_cert (cfg : Cfg) (midDraw durDraw : List (List Int)) (numOps : List Int)
    (h : validGenDraw cfg midDraw durDraw numOps) : GenCert cfg (generate cfg midDraw durDraw numOps) :=
  JobShop.generate_cert cfg midDraw durDraw numOps h

/-- certificate ⇒ advertised invariants: machine ids valid, durations in range, padding consistent, every job has
an op; the state is exactly the fresh state around its instance arrays; it satisfies the invariant of legal play
(so C04/C06/C09 apply from it) and its cached mask is fresh -/
theorem jobshop_cert_sound (cfg : Cfg) (s : State) (h : GenCert cfg s) :
    MachinesOK cfg s ∧ DurationsOK cfg s ∧ PaddingOK cfg s ∧ (∀ j, j < cfg.J → isOp s j 0 ∧ 0 < cfg.O) ∧
    s = initState cfg s.mid s.dur ∧ Inv cfg s ∧ s.amask = maskOf cfg s :=
  ⟨(JobShop.cert_instance cfg s h).1, (JobShop.cert_instance cfg s h).2.1, (JobShop.cert_instance cfg s h).2.2.1,
   (JobShop.cert_instance cfg s h).2.2.2, JobShop.cert_state cfg s h⟩

example : validGenDraw exCfg [[0, 1], [0, 1]] [[2, 1], [1, 2]] [2, 1] ∧
    (generate exCfg [[0, 1], [0, 1]] [[2, 1], [1, 2]] [2, 1]).mid = [[0, 1], [0, -1]] := by decide +kernel

/-- `ToyGenerator` (a closed term): the reset state satisfies the same certificate, the invariant, and is not
finished -/
theorem jobshop_toy_ok : GenCert toyCfg toyState ∧ Inv toyCfg toyState ∧ DurationsOK toyCfg toyState ∧
    PaddingOK toyCfg toyState ∧ finished toyCfg toyState = false := by decide +kernel

/-- the documented makespan 8 of the toy instance is achieved by the action sequence of the repository's own test
(`test_job_shop__toy_generator_reward`): the episode is legal, ends by completion at the 8th step, its return is −8,
the final schedule is a complete feasible solution of makespan 8 -/
theorem jobshop_toy_makespan_achieved :
    EndsByCompletion toyCfg toyState toyActions ∧ (play toyCfg toyState toyActions).2 = -8 ∧
    makespan toyCfg (play toyCfg toyState toyActions).1 = 8 ∧
    IsSolution toyCfg (play toyCfg toyState toyActions).1 := by
  refine ⟨?_, by decide +kernel, by decide +kernel, by decide +kernel⟩
  simp only [toyActions, EndsByCompletion]; decide +kernel

/-- … and 8 is optimal: in EVERY feasible schedule of the toy instance in which every real op is scheduled, every
common bound on the completion times is at least 8 (machine 0 alone has 8 units of work) -/
theorem jobshop_toy_makespan_optimal (s : State) (hm : s.mid = toyMid) (hd : s.dur = toyDur)
    (hF : Feasible toyCfg s) (hall : ∀ j, j < 5 → ∀ k, k < 4 → isOp s j k → isSched s j k) (T : Int)
    (hT : ∀ j, j < 5 → ∀ k, k < 4 → isSched s j k → endTime s j k ≤ T) : 8 ≤ T :=
  JobShop.toy_lower_bound s hm hd hF hall T hT

/-- in particular no complete solution of the toy instance is reached before the clock shows 8 -/
theorem jobshop_toy_solution_clock (s : State) (hm : s.mid = toyMid) (hd : s.dur = toyDur)
    (h : IsSolution toyCfg s) : 8 ≤ s.stepCount :=
  JobShop.toy_lower_bound s hm hd h.1 (fun j hj k hk hop => (h.2.2 j hj k hk hop).1) s.stepCount
    (fun j hj k hk hs => (h.2.2 j hj k hk hs.1).2)
end Props.C10

namespace Props.C11
/-- progress: a legal step that does not leave all machines idle (i.e. is not penalised) consumes at
least one unit of the operation time still to be spent (`timeLeft` = durations of the unscheduled
ops + remaining parts of the running ones) -/
theorem jobshop_progress (cfg : Cfg) (s : State) (a : List Int) (hI : Inv cfg s)
    (hL : legalAction cfg s a) (hD : DurationsOK cfg s) (hidle : allIdle cfg (next cfg s a) = false) :
    timeLeft cfg (step cfg s a).1 + 1 ≤ timeLeft cfg s :=
  JobShop.timeLeft_decreases cfg s a hI hL hD hidle

/-- horizon: legal, never-penalised play lasts at most `timeLeft` steps; an illegal action or all
machines idle ends the episode at once (C05), so an episode has at most `timeLeft s₀ + 1` steps -/
theorem jobshop_horizon (cfg : Cfg) (s : State) (as : List (List Int)) (hI : Inv cfg s)
    (hD : DurationsOK cfg s) (h : Survives cfg s as) : (as.length : Int) ≤ timeLeft cfg s :=
  JobShop.horizon cfg as s hI hD h

/-- at the start (nothing scheduled) `timeLeft ≤ J·O·D`, hence episodes last ≤ J·O·D + 1 steps -/
theorem jobshop_horizon_bound (cfg : Cfg) (s : State) (hD : DurationsOK cfg s)
    (hns : ∀ j, j < cfg.J → ∀ k, k < cfg.O → ¬ isSched s j k) :
    timeLeft cfg s ≤ ((cfg.J * cfg.O * cfg.D : Nat) : Int) := JobShop.timeLeft_init_le cfg s hD hns

/-- (wave 3) EPISODE level, all hypotheses discharged: from the reset state of ANY generated instance (`GenCert`, which holds
for every valid draw of `RandomGenerator` and for `ToyGenerator`), ANY play of in-spec joint actions — legal or not — none of
whose timesteps is LAST so far has at most `J·O·D` steps.  Hence every episode, whatever is played, ends (LAST) within its
structural horizon of `num_jobs · max_num_ops · max_op_duration + 1` steps. -/
theorem jobshop_episode_horizon (cfg : Cfg) (s : State) (hg : GenCert cfg s) (as : List (List Int))
    (hin : ∀ a ∈ as, InSpec cfg a) (hnl : ∀ e ∈ Ep.rollout (step cfg) s as, e.2.stepType ≠ .last) :
    as.length ≤ cfg.J * cfg.O * cfg.D := JobShop.episode_horizon cfg s hg as hin hnl

theorem jobshop_episode_horizon_generated (cfg : Cfg) (midDraw durDraw : List (List Int)) (numOps : List Int)
    (hd : validGenDraw cfg midDraw durDraw numOps) (as : List (List Int)) (hin : ∀ a ∈ as, InSpec cfg a)
    (hnl : ∀ e ∈ Ep.rollout (step cfg) (generate cfg midDraw durDraw numOps) as, e.2.stepType ≠ .last) :
    as.length ≤ cfg.J * cfg.O * cfg.D :=
  JobShop.episode_horizon cfg _ (JobShop.generate_cert cfg midDraw durDraw numOps hd) as hin hnl

-- seven non-LAST steps of the repository's own action sequence on the toy instance (J·O·D = 80)
example : GenCert toyCfg toyState ∧ (∀ a ∈ toyActions.take 7, InSpec toyCfg a) ∧
    (∀ e ∈ Ep.rollout (step toyCfg) toyState (toyActions.take 7), e.2.stepType ≠ .last) := by
  refine ⟨by decide +kernel, by decide, ?_⟩
  simp only [toyActions, List.take, Ep.rollout]
  decide +kernel

example : Survives exCfg exState [[2, 2]] ∧ DurationsOK exCfg exState ∧ timeLeft exCfg exState = 3 := by
  refine ⟨?_, ?_, ?_⟩
  · simp only [Survives]; decide +kernel
  · decide +kernel
  · decide +kernel
end Props.C11

namespace Props.C12
/-- the observation is the documented function of the successor state (six copied fields, the mask
being the mask of the successor's own machine/op status) -/
theorem jobshop_obs_faithful (cfg : Cfg) (s : State) (a : List Int) :
    (step cfg s a).2.obs = observe cfg (step cfg s a).1 := JobShop.obs_faithful cfg s a

/-- (wave 3) the same for the observation `reset` returns, for every instance -/
theorem jobshop_reset_obs_faithful (cfg : Cfg) (mid dur : List (List Int)) :
    (reset cfg mid dur).2.obs = observe cfg (reset cfg mid dur).1 := JobShop.reset_obs_faithful cfg mid dur

/-- (wave 3) and on every state of legal play the mask shown is the legality table of the rules (not only the recomputed L1
mask): `observe … .amask = legalTable` -/
theorem jobshop_obs_mask_is_legal (cfg : Cfg) (s : State) (hI : Inv cfg s) :
    (observe cfg s).amask = legalTable cfg s := JobShop.maskOf_eq_legalTable cfg s hI
end Props.C12

