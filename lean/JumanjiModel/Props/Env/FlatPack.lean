/-
Property theorems for FlatPack.  Only statements; the proofs live in Env/FlatPack/*Lemmas.lean.
`act b k r c` is the action (block, rotation, row, column) as `step` receives it; `inSpec` says it belongs to the
action space.  `Inv cfg s` (feasible ∧ the cached mask is the set of legal moves) is an invariant of every step.
-/
import JumanjiModel.Env.FlatPack.Lemmas
import JumanjiModel.Env.FlatPack.MaskLemmas
import JumanjiModel.Env.FlatPack.FeasLemmas
import JumanjiModel.Env.FlatPack.SpecLemmas
import JumanjiModel.Env.FlatPack.InvLemmas
import JumanjiModel.Env.FlatPack.CoverLemmas
import JumanjiModel.Env.FlatPack.BoundsLemmas
import JumanjiModel.Env.FlatPack.Episode
import JumanjiModel.Env.FlatPack.SpecValid
open Jm FlatPack

namespace Props.C04
/-- the mask entry the implementation computes for an action of the action space equals the legality of that
action under the rules (block not yet placed, every cell of the pose on an empty cell), for every grid -/
theorem flatpack_mask_iff_legal (cfg : Cfg) (s : State)
    (hg : Jx.Grid.shaped s.grid cfg.numRows cfg.numCols = true)
    (hb : s.blocks.length = cfg.numBlocks) (hp : s.placed.length = cfg.numBlocks)
    (h3 : ∀ blk ∈ s.blocks, Jx.Grid.shaped blk 3 3 = true)
    (b k r c : Nat) (hin : inSpec cfg b k r c = true) :
    maskAt (makeActionMask cfg s.grid s.blocks s.placed) (act b k r c) = true ↔ legal cfg s b k r c := by
  have h := FlatPack.mask_entry_eq_legal cfg s hg hb hp h3 b k r c hin
  unfold act legal; rw [h]

/-- … hence the whole mask is the table of legal moves -/
theorem flatpack_mask_eq_legalMask (cfg : Cfg) (s : State)
    (hg : Jx.Grid.shaped s.grid cfg.numRows cfg.numCols = true)
    (hb : s.blocks.length = cfg.numBlocks) (hp : s.placed.length = cfg.numBlocks)
    (h3 : ∀ blk ∈ s.blocks, Jx.Grid.shaped blk 3 3 = true) :
    makeActionMask cfg s.grid s.blocks s.placed = legalMask cfg s :=
  FlatPack.makeActionMask_eq_legalMask cfg s hg hb hp h3

/-- the mask cached in the successor state is computed from the successor's grid and placed flags (not stale) -/
theorem flatpack_cached_mask (rnd : Rat → Rat) (cfg : Cfg) (s : State) (a : Action) :
    (step rnd cfg s a).1.actionMask =
      makeActionMask cfg (step rnd cfg s a).1.grid (step rnd cfg s a).1.blocks (step rnd cfg s a).1.placed :=
  FlatPack.cached_mask rnd cfg s a

/-- the environment's own validity test (the cached mask at the action) agrees with the rules -/
theorem flatpack_step_agrees (cfg : Cfg) (s : State) (hi : Inv cfg s) (b k r c : Nat)
    (hin : inSpec cfg b k r c = true) :
    maskAt s.actionMask (act b k r c) = true ↔ legal cfg s b k r c := FlatPack.valid_iff_legal cfg s hi.2 hin

example : legal ⟨3, 3, 1, true⟩ ⟨Jx.Grid.mk 3 3 0, 1, [[[1,1,0],[1,1,1],[0,0,1]]], [], [false], 0⟩ 0 1 0 0 := by decide

/-- (wave 3, audit) `flatpack_step_agrees` speaks of the mask lookup inside `step`; this one is about what `step` RETURNS: on
every state satisfying the episode invariant, for every action of the action space, the environment executes the action
(the placed flags change: block `b` becomes placed, and it was not placed before) exactly when the rules allow it, and
otherwise leaves grid and placed flags as they are: legal ↔ the step did not treat the action as invalid -/
theorem flatpack_step_reaction (rnd : Rat → Rat) (cfg : Cfg) (s : State) (hi : Inv cfg s) (b k r c : Nat)
    (hin : inSpec cfg b k r c = true) :
    ((step rnd cfg s (act b k r c)).1.placed ≠ s.placed ↔ legal cfg s b k r c) ∧
    (legal cfg s b k r c → (step rnd cfg s (act b k r c)).1.placed = s.placed.set b true ∧ s.placed.getD b true = false) ∧
    (¬ legal cfg s b k r c → (step rnd cfg s (act b k r c)).1.grid = s.grid ∧
      (step rnd cfg s (act b k r c)).1.placed = s.placed) :=
  FlatPack.step_executes_iff_legal rnd cfg s hi b k r c hin
end Props.C04

namespace Props.C05
/-- an illegal action of the action space is ignored: grid, blocks and placed flags are unchanged, only the step
counter advances, the reward is 0, and the step is LAST only because the horizon is reached -/
theorem flatpack_illegal_ignored (rnd : Rat → Rat) (cfg : Cfg) (s : State) (hi : Inv cfg s) (b k r c : Nat)
    (hin : inSpec cfg b k r c = true) (h : ¬ legal cfg s b k r c) :
    (step rnd cfg s (act b k r c)).1.grid = s.grid ∧ (step rnd cfg s (act b k r c)).1.placed = s.placed ∧
    (step rnd cfg s (act b k r c)).1.blocks = s.blocks ∧
    (step rnd cfg s (act b k r c)).1.stepCount = s.stepCount + 1 ∧
    (step rnd cfg s (act b k r c)).2.reward = [0] ∧
    ((step rnd cfg s (act b k r c)).2.stepType = .last → s.numBlocks ≤ s.stepCount + 1) :=
  FlatPack.illegal_step rnd cfg s hi.2 hin h
end Props.C05

namespace Props.C06
/-- the freshly generated instance (empty grid, nothing placed, well-formed blocks) is feasible -/
theorem flatpack_reset_feasible (cfg : Cfg) (s : State) (hb : blocksOK cfg s = true)
    (hg : s.grid = Jx.Grid.mk cfg.numRows cfg.numCols 0) (hp : s.placed = List.replicate cfg.numBlocks false) :
    Feasible cfg s := FlatPack.fresh_feasible cfg s hb hg hp

/-- a legal placement keeps the grid the disjoint union of the placed blocks, each inside the grid -/
theorem flatpack_step_feasible (rnd : Rat → Rat) (cfg : Cfg) (s : State) (b k r c : Nat)
    (hf : Feasible cfg s) (hm : s.actionMask = legalMask cfg s) (hl : legal cfg s b k r c) :
    Feasible cfg (step rnd cfg s (act b k r c)).1 := FlatPack.step_feasible rnd cfg s b k r c hf hm hl

/-- feasibility together with "the cached mask is the set of legal moves" is an invariant of EVERY step with an
action of the action space (legal or not), so it holds along whole episodes from a fresh instance -/
theorem flatpack_step_inv (rnd : Rat → Rat) (cfg : Cfg) (s : State) (b k r c : Nat) (hi : Inv cfg s)
    (hin : inSpec cfg b k r c = true) : Inv cfg (step rnd cfg s (act b k r c)).1 :=
  FlatPack.step_inv rnd cfg s b k r c hi hin

theorem flatpack_fresh_inv (cfg : Cfg) (s : State) (hb : blocksOK cfg s = true)
    (hg : s.grid = Jx.Grid.mk cfg.numRows cfg.numCols 0) (hp : s.placed = List.replicate cfg.numBlocks false)
    (hm : s.actionMask = legalMask cfg s) : Inv cfg s := FlatPack.fresh_inv cfg s hb hg hp hm

/-- completion: a feasible state in which every block is placed (the blocks having as many cells as the grid, as
the instance certificate `fresh` checks) is a complete solution — no empty cell is left -/
theorem flatpack_complete_is_solution (cfg : Cfg) (s : State) (hf : Feasible cfg s) (hall : s.placed.all id = true)
    (hsum : (s.blocks.map countNonzero).foldl (· + ·) 0 = cfg.numRows * cfg.numCols) : IsSolution cfg s :=
  FlatPack.complete_is_solution cfg s hf hall hsum

example : Feasible ⟨3, 3, 1, true⟩ ⟨[[1,1,0],[1,1,1],[0,0,1]], 1, [[[1,1,0],[1,1,1],[0,0,1]]], [], [true], 1⟩ := by decide

/-- (wave 3, audit) completion THROUGH `step`: a step with any action of the action space from a state of play of a generated
instance (`Inv`; the blocks have as many cells as the grid, as `freshOK` certifies) after which every block is placed yields
a complete solution — feasible, every block placed, no empty cell -/
theorem flatpack_step_complete_is_solution (rnd : Rat → Rat) (cfg : Cfg) (s : State) (hi : Inv cfg s) (b k r c : Nat)
    (hin : inSpec cfg b k r c = true)
    (hsum : (s.blocks.map countNonzero).foldl (· + ·) 0 = cfg.numRows * cfg.numCols)
    (hall : (step rnd cfg s (act b k r c)).1.placed.all id = true) :
    IsSolution cfg (step rnd cfg s (act b k r c)).1 :=
  FlatPack.step_complete_is_solution rnd cfg s hi b k r c hin hsum hall

/-- (wave 3; "OF CERTIFICATE", audit r5 #3: proved for the toy generators in `flatpack_toy_feasible_along`) WHOLE PLAYS from an
instance satisfying the certificates (`blocksOK`, `freshOK`, evaluated by `flat_pack.instance` on
every real reset state): after ANY sequence of actions of the action space — legal or ignored, through LAST or not
(`runAll` does not stop) — the state is feasible and its cached mask is the set of legal moves; in particular at the first
LAST (`endState`) -/
theorem flatpack_feasible_along (rnd : Rat → Rat) (cfg : Cfg) (s : State) (hb : blocksOK cfg s = true)
    (h : freshOK cfg s = true) (as : List Act4) (hin : InSpecAll cfg as) (n : Nat) :
    Inv cfg (runAll rnd cfg s (as.take n)) ∧ Feasible cfg (runAll rnd cfg s (as.take n)) ∧
    Inv cfg (endState rnd cfg s as) := by
  have h0 := FlatPack.fresh_inv' cfg s hb h
  have h1 := (FlatPack.runAll_inv rnd cfg s (as.take n) h0 (fun a ha => hin a (List.mem_of_mem_take ha))).1
  exact ⟨h1, h1.1, FlatPack.endState_inv rnd cfg s as h0 hin⟩

example : InSpecAll ⟨5, 3, 2, true⟩ [(0, 0, 0, 0), (0, 0, 0, 0), (1, 0, 2, 0)] ∧
    (runAll id ⟨5, 3, 2, true⟩
      (let t : State := { grid := Jx.Grid.mk 5 3 0, numBlocks := 2,
                          blocks := [[[1,1,1],[1,1,1],[1,0,0]], [[0,2,2],[2,2,2],[2,2,2]]],
                          actionMask := [], placed := [false, false], stepCount := 0 }
       { t with actionMask := legalMask ⟨5, 3, 2, true⟩ t })
      [(0, 0, 0, 0), (0, 0, 0, 0), (1, 0, 2, 0)]).placed = [true, true] := by decide +kernel
end Props.C06

namespace Props.C08
/-- cell-dense reward: the covered fraction of the grid grows by exactly the reward of a legal placement (ℚ) -/
theorem flatpack_cell_telescopes (cfg : Cfg) (s : State) (b k r c : Nat)
    (hg : Jx.Grid.shaped s.grid cfg.numRows cfg.numCols = true) (hbl : s.blocks.length = cfg.numBlocks)
    (hm : s.actionMask = legalMask cfg s) (hl : legal cfg s b k r c) (hcd : cfg.cellDense = true) :
    coveredFraction cfg (step id cfg s (act b k r c)).1 =
      coveredFraction cfg s + ((step id cfg s (act b k r c)).2.reward).sum :=
  FlatPack.cellDense_telescopes cfg s b k r c hg hbl hm hl hcd

/-- block-dense reward: the fraction of placed blocks grows by exactly the reward of a legal placement (ℚ) -/
theorem flatpack_block_telescopes (cfg : Cfg) (s : State) (b k r c : Nat)
    (hm : s.actionMask = legalMask cfg s) (hl : legal cfg s b k r c) (hcd : cfg.cellDense = false) :
    placedFraction (step id cfg s (act b k r c)).1 =
      placedFraction s + ((step id cfg s (act b k r c)).2.reward).sum :=
  FlatPack.blockDense_telescopes cfg s b k r c hm hl hcd

/-- for ANY action of the action space (legal or ignored) the objective of the successor is the objective before
plus the reward: summed over an episode from the empty grid, return = objective of the final state -/
theorem flatpack_objective_step (cfg : Cfg) (s : State) (b k r c : Nat) (hi : Inv cfg s)
    (hin : inSpec cfg b k r c = true) :
    objective cfg (step id cfg s (act b k r c)).1 =
      objective cfg s + ((step id cfg s (act b k r c)).2.reward).sum :=
  FlatPack.objective_step cfg s b k r c hi hin

/-! whole episodes (`returnOf`, `endState`, `InSpecAll`, `LegalEpisode` in Env/FlatPack/Episode.lean): a list of
actions `(block, rotation, row, column)` is played until the first LAST timestep (after `num_blocks` steps); exact
arithmetic (`rnd = id`: the float32 rounding of each quotient is outside the theorem).  `blocksOK` and `freshOK` are
the generator certificates the C10 sweep evaluates on the implementation's reset states.
reward.py offers `CellDenseReward` and `BlockDenseReward` only; the "sparse: 1 if the grid is completely filled"
reward of the class docstring does not exist in the code (reported as a documentation finding). -/

/-- ANY sequence of actions of the action space from ANY state satisfying the invariant (legal actions are executed,
the others ignored; finished or not): the rewards add up to the gain of the objective, recomputed from the grid
(cell-dense: covered cells / all cells) or the placed flags (block-dense: placed / all blocks) of the last state -/
theorem flatpack_episode_return_from (cfg : Cfg) (s : State) (as : List Act4) (hi : Inv cfg s)
    (hin : InSpecAll cfg as) :
    returnOf id cfg s as = objective cfg (endState id cfg s as) - objective cfg s :=
  FlatPack.return_any cfg s as hi hin

/-- cell-dense reward, from a generated instance: return = covered fraction of the final grid -/
theorem flatpack_cell_return (cfg : Cfg) (s : State) (as : List Act4) (hcd : cfg.cellDense = true)
    (hb : blocksOK cfg s = true) (h : freshOK cfg s = true) (hin : InSpecAll cfg as) :
    returnOf id cfg s as = coveredFraction cfg (endState id cfg s as) :=
  FlatPack.cell_return cfg s as hcd hb h hin

/-- block-dense reward, from a generated instance: return = fraction of blocks placed in the final state -/
theorem flatpack_block_return (cfg : Cfg) (s : State) (as : List Act4) (hcd : cfg.cellDense = false)
    (hb : blocksOK cfg s = true) (h : freshOK cfg s = true) (hin : InSpecAll cfg as) :
    returnOf id cfg s as = placedFraction (endState id cfg s as) :=
  FlatPack.block_return cfg s as hcd hb h hin

/-- the two reward functions on the SAME action sequence (the trajectory does not depend on the reward function):
when the episode ends with every block placed, both return 1 = the covered fraction of the (then full) grid -/
theorem flatpack_complete_returns (cfg : Cfg) (s : State) (as : List Act4) (hb : blocksOK cfg s = true)
    (h : freshOK cfg s = true) (hin : InSpecAll cfg as) (hall : (endState id cfg s as).placed.all id = true)
    (hpos : 0 < cfg.numRows * cfg.numCols) (hnb : 0 < cfg.numBlocks) :
    returnOf id { cfg with cellDense := true } s as = 1 ∧ returnOf id { cfg with cellDense := false } s as = 1 ∧
    endState id { cfg with cellDense := true } s as = endState id { cfg with cellDense := false } s as ∧
    IsSolution cfg (endState id cfg s as) := by
  have h12 := FlatPack.complete_both_one cfg s as hb h hin hall hpos hnb
  refine ⟨h12.1, h12.2, ?_, ?_⟩
  · exact (FlatPack.endState_reward_irrel id cfg true s as).trans (FlatPack.endState_reward_irrel id cfg false s as).symm
  · have hi := FlatPack.endState_inv id cfg s as (FlatPack.fresh_inv' cfg s hb h) hin
    have hsum := (FlatPack.freshOK_fields cfg s h).2.2.2.2
    rw [← FlatPack.endState_blocks id cfg s as] at hsum
    exact FlatPack.complete_is_solution cfg _ hi.1 hall hsum

/-- every complete episode of LEGAL actions from a generated instance places every block, hence cell-dense return =
block-dense return = 1 on all legal trajectories run to termination -/
theorem flatpack_legal_episode_returns (cfg : Cfg) (s : State) (as : List Act4) (hb : blocksOK cfg s = true)
    (h : freshOK cfg s = true) (hep : LegalEpisode id cfg s as)
    (hpos : 0 < cfg.numRows * cfg.numCols) (hnb : 0 < cfg.numBlocks) :
    returnOf id { cfg with cellDense := true } s as = 1 ∧ returnOf id { cfg with cellDense := false } s as = 1 :=
  FlatPack.complete_both_one cfg s as hb h (FlatPack.legalEpisode_inSpec id cfg s as hep)
    (FlatPack.legalEpisode_complete id cfg s as hb h hep) hpos hnb

/-- a 5 × 3 instance of two interlocking blocks (7 and 8 cells) as the generator produces them -/
def flatpackTwoBlocks : State :=
  let t : State := { grid := Jx.Grid.mk 5 3 0, numBlocks := 2,
                     blocks := [[[1,1,1],[1,1,1],[1,0,0]], [[0,2,2],[2,2,2],[2,2,2]]],
                     actionMask := [], placed := [false, false], stepCount := 0 }
  { t with actionMask := legalMask ⟨5, 3, 2, true⟩ t }

/-- the trajectory class on which the two reward functions differ: episodes containing an ignored action.  Block 0
is put down, then chosen again (ignored; the episode ends after `num_blocks` = 2 steps): the cell-dense return is the
covered fraction 7/15, the block-dense return is the placed fraction 1/2 -/
theorem flatpack_cell_ne_block_witness :
    blocksOK ⟨5, 3, 2, true⟩ flatpackTwoBlocks = true ∧ freshOK ⟨5, 3, 2, true⟩ flatpackTwoBlocks = true ∧
    InSpecAll ⟨5, 3, 2, true⟩ [(0, 0, 0, 0), (0, 0, 0, 0)] ∧
    returnOf id ⟨5, 3, 2, true⟩ flatpackTwoBlocks [(0, 0, 0, 0), (0, 0, 0, 0)] = 7/15 ∧
    returnOf id ⟨5, 3, 2, false⟩ flatpackTwoBlocks [(0, 0, 0, 0), (0, 0, 0, 0)] = 1/2 := by decide +kernel

/-- … and a complete legal episode on the same instance -/
example : LegalEpisode id ⟨5, 3, 2, true⟩ flatpackTwoBlocks [(0, 0, 0, 0), (1, 0, 2, 0)] := by decide +kernel
example : returnOf id ⟨5, 3, 2, true⟩ flatpackTwoBlocks [(0, 0, 0, 0), (1, 0, 2, 0)] = 1 := by decide +kernel
end Props.C08

namespace Props.C09
/-- placement follows the rules: a legal action writes the block's number into exactly the cells of the chosen
pose, leaves every other cell untouched and marks exactly that block as placed -/
theorem flatpack_legal_step_cells (rnd : Rat → Rat) (cfg : Cfg) (s : State) (b k r c : Nat)
    (hf : Feasible cfg s) (hm : s.actionMask = legalMask cfg s) (hl : legal cfg s b k r c)
    (p : Nat × Nat) (hi : p.1 < cfg.numRows) (hj : p.2 < cfg.numCols) :
    Jx.Grid.get (step rnd cfg s (act b k r c)).1.grid 0 p.1 p.2 =
      (if p ∈ poseCells (s.blocks.getD b []) k r c then blockValue (s.blocks.getD b [])
       else Jx.Grid.get s.grid 0 p.1 p.2) ∧
    (step rnd cfg s (act b k r c)).1.placed = s.placed.set b true ∧
    (step rnd cfg s (act b k r c)).1.blocks = s.blocks :=
  FlatPack.legal_step_cells rnd cfg s b k r c hf hm hl p hi hj

/-- L1 = L2: on every state satisfying the episode invariant (`Inv`: feasible, cached mask = legal moves; kept by
every step, `flatpack_step_inv`) in which no more blocks are placed than steps were taken (kept by every step,
`flatpack_step_count_inv`), and for every action of the action space, the transliterated `step` returns exactly what
the documented rules (`stepL2`, Env/FlatPack/Model.lean) prescribe: the chosen block, rotated, is written at the
chosen position iff it is not yet placed, fits inside the grid and overlaps no occupied cell — otherwise grid, blocks
and placed flags stay as they are; the step is counted; reward = cells of the block / cells of the grid
(resp. 1 / num_blocks) for a placement, 0 otherwise; LAST iff all blocks are placed or `num_blocks` steps were taken.
Successor state (cached mask included), reward, step type, discount and observation; any float rounding `rnd`. -/
theorem flatpack_step_eq_spec (rnd : Rat → Rat) (cfg : Cfg) (s : State) (b k r c : Nat) (hi : Inv cfg s)
    (hc : Jx.countTrue s.placed ≤ s.stepCount) (hin : inSpec cfg b k r c = true) :
    step rnd cfg s (act b k r c) = stepL2 rnd cfg s b k r c :=
  FlatPack.step_eq_spec rnd cfg s b k r c hi hc hin

/-- the second hypothesis of `flatpack_step_eq_spec` is an invariant of every step and holds in a fresh instance -/
theorem flatpack_step_count_inv (rnd : Rat → Rat) (cfg : Cfg) (s : State) (b k r c : Nat) (hi : Inv cfg s)
    (hc : Jx.countTrue s.placed ≤ s.stepCount) (hin : inSpec cfg b k r c = true) :
    Jx.countTrue (step rnd cfg s (act b k r c)).1.placed ≤ (step rnd cfg s (act b k r c)).1.stepCount :=
  FlatPack.step_count_inv rnd cfg s b k r c hi hc hin

/-- the documented end of an episode ("all blocks placed" or "`num_blocks` steps taken") is the code's
`step_count >= num_blocks` -/
theorem flatpack_last_iff_doc (rnd : Rat → Rat) (cfg : Cfg) (s : State) (b k r c : Nat) (hi : Inv cfg s)
    (hc : Jx.countTrue s.placed ≤ s.stepCount) (hin : inSpec cfg b k r c = true) :
    (step rnd cfg s (act b k r c)).2.stepType = .last ↔
      ((step rnd cfg s (act b k r c)).1.placed.all id = true ∨
        (step rnd cfg s (act b k r c)).1.numBlocks ≤ (step rnd cfg s (act b k r c)).1.stepCount) :=
  FlatPack.last_iff_doc rnd cfg s b k r c hi hc hin

/-- the hypotheses hold in the generated 5 × 3 instance of `Props.C08` -/
example : Inv ⟨5, 3, 2, true⟩ Props.C08.flatpackTwoBlocks :=
  FlatPack.fresh_inv' _ _ Props.C08.flatpack_cell_ne_block_witness.1 Props.C08.flatpack_cell_ne_block_witness.2.1
example : Jx.countTrue Props.C08.flatpackTwoBlocks.placed ≤ Props.C08.flatpackTwoBlocks.stepCount := by decide
end Props.C09

namespace Props.C10
/-- certificate ⇒ invariant: when the exact-cover search run by the driver on a generated instance answers
`true`, there really is a choice of one orientation and position per block such that the chosen cell sets lie
inside the grid, are pairwise disjoint and cover every cell (the blocks tile the grid) -/
theorem flatpack_blocks_tile (cfg : Cfg) (s : State) (h : tilesFree cfg s = true) :
    ∃ choice, IsTiling cfg.numRows cfg.numCols
      (s.blocks.map (fun b => (List.range 4).flatMap (fun k => (List.range cfg.numRows).flatMap (fun r =>
        (List.range cfg.numCols).map (fun c => freeCells b k r c))))) choice :=
  FlatPack.tilesFree_sound cfg s h

/-- the same for the poses of the action space (3 × 3 box inside the grid): certificate `solvable_by_actions` -/
theorem flatpack_solvable_by_actions (cfg : Cfg) (s : State) (h : tilesByActions cfg s = true) :
    ∃ choice, IsTiling cfg.numRows cfg.numCols
      (s.blocks.map (fun b => (poses cfg).map (fun p => poseCells b p.1 p.2.1 p.2.2))) choice :=
  FlatPack.tilesByActions_sound cfg s h

/-! #### audit r5 #3: the certificates PROVED for the two toy generators (the random generator's instances are covered "of
certificate" only: `blocksOK`, `freshOK`, `BlocksBounded`, `tilesByActions` are evaluated on every real reset state by the
harness, not derived from a transliteration of `RandomFlatPackGenerator`) -/

/-- both toy generators (either reward function): the emitted state is well formed (`blocksOK`: four 3 × 3 blocks, each of one
positive number, numbers pairwise different), fresh (`freshOK`: empty grid, nothing placed, counter 0, the block cells add up to
the 25 grid cells, and the literal all-ones mask `jnp.ones((4,4,3,3))` IS the set of legal moves on the empty grid), bounded
(`BlocksBounded`), and SOLVABLE by actions of the action space (`tilesByActions`, hence `flatpack_solvable_by_actions`) -/
theorem flatpack_toy_cert (cd : Bool) :
    (blocksOK (toyCfg cd) toyGenerateRot = true ∧ freshOK (toyCfg cd) toyGenerateRot = true ∧
      BlocksBounded (toyCfg cd) toyGenerateRot.blocks ∧ tilesByActions (toyCfg cd) toyGenerateRot = true ∧
      tilesFree (toyCfg cd) toyGenerateRot = true ∧ legalMask (toyCfg cd) toyGenerateRot = toyOnesMask) ∧
    (blocksOK (toyCfg cd) toyGenerateNoRot = true ∧ freshOK (toyCfg cd) toyGenerateNoRot = true ∧
      BlocksBounded (toyCfg cd) toyGenerateNoRot.blocks ∧ tilesByActions (toyCfg cd) toyGenerateNoRot = true ∧
      tilesFree (toyCfg cd) toyGenerateNoRot = true ∧ legalMask (toyCfg cd) toyGenerateNoRot = toyOnesMask) := by
  cases cd <;>
  exact ⟨⟨by decide +kernel, by decide +kernel, by decide +kernel, by decide +kernel, by decide +kernel, by decide +kernel⟩,
         ⟨by decide +kernel, by decide +kernel, by decide +kernel, by decide +kernel, by decide +kernel, by decide +kernel⟩⟩
end Props.C10

namespace Props.C06
/-- C06 for the toy generators without certificate hypotheses: after ANY sequence of actions of the action space the state is
feasible and its cached mask is the set of legal moves -/
theorem flatpack_toy_feasible_along (rnd : Rat → Rat) (cd : Bool) (s : State) (hs : s = toyGenerateRot ∨ s = toyGenerateNoRot)
    (as : List Act4) (hin : InSpecAll (toyCfg cd) as) (n : Nat) :
    Inv (toyCfg cd) (runAll rnd (toyCfg cd) s (as.take n)) ∧ Feasible (toyCfg cd) (runAll rnd (toyCfg cd) s (as.take n)) ∧
    Inv (toyCfg cd) (endState rnd (toyCfg cd) s as) := by
  have hc := Props.C10.flatpack_toy_cert cd
  rcases hs with rfl | rfl
  · exact Props.C06.flatpack_feasible_along rnd _ _ hc.1.1 hc.1.2.1 as hin n
  · exact Props.C06.flatpack_feasible_along rnd _ _ hc.2.1 hc.2.2.1 as hin n
end Props.C06

namespace Props.C11
/-- an episode lasts exactly `num_blocks` steps: the step counter grows by one per step, the number of blocks is
constant, and a step is LAST exactly when the counter reaches the number of blocks -/
theorem flatpack_last_iff (rnd : Rat → Rat) (cfg : Cfg) (s : State) (a : Action) :
    (step rnd cfg s a).2.stepType = .last ↔ s.numBlocks ≤ s.stepCount + 1 := FlatPack.last_iff rnd cfg s a

theorem flatpack_step_count (rnd : Rat → Rat) (cfg : Cfg) (s : State) (a : Action) :
    (step rnd cfg s a).1.stepCount = s.stepCount + 1 ∧ (step rnd cfg s a).1.numBlocks = s.numBlocks :=
  ⟨FlatPack.step_count rnd cfg s a, (FlatPack.step_numBlocks rnd cfg s a).1⟩
end Props.C11

namespace Props.C12
/-- the observation is the documented view (grid, blocks, mask) of the successor state -/
theorem flatpack_obs_faithful (rnd : Rat → Rat) (cfg : Cfg) (s : State) (a : Action) :
    (step rnd cfg s a).2.obs = observe (step rnd cfg s a).1 := FlatPack.obs_faithful rnd cfg s a

/-- (wave 3) the same for the observation `reset` returns -/
theorem flatpack_reset_obs_faithful (s : State) : (resetTimeStep s).obs = observe s := rfl

/-- (wave 3, audit) `observe` copies the CACHED mask; on every state of play — the generated state and the successor of every
step with an action of the action space, terminal step included — what the agent is shown as mask is the table of legal moves
of the rules for the grid and placed flags it is shown -/
theorem flatpack_obs_documented (rnd : Rat → Rat) (cfg : Cfg) (s : State) (hi : Inv cfg s) (b k r c : Nat)
    (hin : inSpec cfg b k r c = true) :
    observe s = { grid := s.grid, blocks := s.blocks, actionMask := legalMask cfg s } ∧
    (step rnd cfg s (act b k r c)).2.obs =
      { grid := (step rnd cfg s (act b k r c)).1.grid, blocks := s.blocks,
        actionMask := legalMask cfg (step rnd cfg s (act b k r c)).1 } := by
  refine ⟨FlatPack.observe_documented cfg s hi, ?_⟩
  rw [FlatPack.obs_faithful, FlatPack.observe_documented cfg _ (FlatPack.step_inv rnd cfg s b k r c hi hin)]
  have : (step rnd cfg s (act b k r c)).1.blocks = s.blocks := by simp [step]
  rw [this]
end Props.C12

namespace Props.C01
open PzB
/-- the observation returned by `reset` on a generated state (blocks well-formed: `blocksOK`; empty grid; nothing placed)
whose blocks are numbered within 1 … num_blocks (`BlocksBounded`): every leaf listed in `obsBounds cfg` is present and
within its interval: `grid`, `blocks` ∈ [0, num_blocks], `action_mask` ∈ [0,1] -/
theorem flat_pack_reset_obs_in_bounds (cfg : Cfg) (s : State) (hbo : blocksOK cfg s = true)
    (hg : s.grid = Jx.Grid.mk cfg.numRows cfg.numCols 0) (hp : s.placed = List.replicate cfg.numBlocks false)
    (hb : BlocksBounded cfg s.blocks) : ObsInBounds (obsBounds cfg) (obsLeaves (resetTimeStep s).obs) :=
  FlatPack.reset_obs_in_bounds cfg s hbo hg hp hb

/-- the same for `step`, for every state satisfying the invariant `Inv` of C06 (feasible + cached mask = legal moves;
preserved by every in-spec step: `flatpack_step_inv`) with bounded blocks, every action of the action space (legal or
not), any float rounding, terminal step included.  The grid bound needs feasibility: placed blocks do not overlap, so no
cell is the sum of two block numbers. -/
theorem flat_pack_step_obs_in_bounds (rnd : Rat → Rat) (cfg : Cfg) (s : State) (b k r c : Nat) (hi : Inv cfg s)
    (hin : inSpec cfg b k r c = true) (hb : BlocksBounded cfg s.blocks) :
    ObsInBounds (obsBounds cfg) (obsLeaves (step rnd cfg s (act b k r c)).2.obs) :=
  FlatPack.step_obs_in_bounds rnd cfg s b k r c hi hin hb

/-- `BlocksBounded` is preserved trivially (the blocks never change) -/
theorem flatpack_blocks_unchanged (rnd : Rat → Rat) (cfg : Cfg) (s : State) (a : Action) :
    (step rnd cfg s a).1.blocks = s.blocks := by simp [step]

/-! NOTE on what the membership theorems of this section do and do not cover (audits r4 #6, r5 #6, r6 #8): the dtype tag of every leaf
is written by `toNValue` (by construction) — a wrong dtype in the real code cannot falsify `….valid (toNValue …) = true`; dtypes and
field order of the real observations are compared by the `flat_pack.state` op (`nvalue`: field order, shape, dtype, data; harness/spec_wave3.py,
wave3_routing.py) and `jax.eval_shape` in the sweeps.  Shapes are READ OFF the value by `toNValue` (widths off the first row): see
`…_obs_valid_only`. -/

/-! #### (wave 3) membership in the DECLARED specs: structure, shapes, dtypes and bounds -/
open Sp PzS PkS

/-- the model's `obsSpec` / `actionSpec` / reward and discount specs ARE the specs generated from the real spec objects
(Gen/Specs.lean) for the catalogue configuration `FlatPack(RandomFlatPackGenerator(2, 2))` (5 × 5 grid, 4 blocks)
SPEC-ONLY second configuration `FlatPack(RandomFlatPackGenerator(2, 4))`: 5 × 9 grid, 8 blocks, mask `(8, 4, 3, 7)` — rows, columns,
blocks, rotations, `R − 2` and `C − 2` pairwise distinct (audit r5 #2) -/
theorem flatpack_obsSpec_generated :
    prefixed "observation_spec." (obsSpec ⟨5, 5, 4, true⟩) = declared "flatpack-2x2" "observation_spec." ∧
    [("action_spec", actionSpec ⟨5, 5, 4, true⟩)] = declared "flatpack-2x2" "action_spec" ∧
    [("reward_spec", rewardSpec)] = declared "flatpack-2x2" "reward_spec" ∧
    [("discount_spec", discountSpec)] = declared "flatpack-2x2" "discount_spec" ∧
    prefixed "observation_spec." (obsSpec ⟨5, 9, 8, true⟩) = declared "spec-only-flatpack-2x4" "observation_spec." ∧
    [("action_spec", actionSpec ⟨5, 9, 8, true⟩)] = declared "spec-only-flatpack-2x4" "action_spec" ∧
    [("reward_spec", rewardSpec)] = declared "spec-only-flatpack-2x4" "reward_spec" ∧
    [("discount_spec", discountSpec)] = declared "spec-only-flatpack-2x4" "discount_spec" := by
  refine ⟨by decide +kernel, by decide +kernel, by decide +kernel, by decide +kernel, by decide +kernel, by decide +kernel,
    by decide +kernel, by decide +kernel⟩

/-- ("OF CERTIFICATE", audit r5 #3: the model has no transliteration of `RandomFlatPackGenerator`; the hypotheses are discharged in
Lean only for the two toy generators — `flatpack_toy_obs_valid` — and otherwise by the harness.)  The `reset` observation of every
state satisfying the generator certificates (`blocksOK`, `freshOK`, `BlocksBounded` — all three
evaluated by `flat_pack.instance` on the implementation's reset states) is accepted by `observation_spec.validate`: fields
`grid`, `blocks`, `action_mask`; shapes `(R, C)`, `(num_blocks, 3, 3)`, `(num_blocks, 4, R − 2, C − 2)`; dtypes int32, int32,
bool; bounds [0, num_blocks] ×2, [0, 1] -/
theorem flatpack_reset_obs_valid (cfg : Cfg) (hR : 3 ≤ cfg.numRows) (hB : 0 < cfg.numBlocks) (s : State)
    (hbo : blocksOK cfg s = true) (hf : freshOK cfg s = true) (hb : BlocksBounded cfg s.blocks) :
    (obsSpec cfg).valid (toNValue (resetTimeStep s).obs) = true := FlatPack.reset_obs_valid cfg hR hB s hbo hf hb

/-- the same for the observation of EVERY `step` with an action of the action space — placed or ignored, MID or LAST, any
float rounding — from every state satisfying the episode invariant `Inv` (kept by every such step: `flatpack_step_inv`) -/
theorem flatpack_step_obs_valid (rnd : Rat → Rat) (cfg : Cfg) (hR : 3 ≤ cfg.numRows) (hB : 0 < cfg.numBlocks) (s : State)
    (b k r c : Nat) (hi : Inv cfg s) (hin : inSpec cfg b k r c = true) (hb : BlocksBounded cfg s.blocks) :
    (obsSpec cfg).valid (toNValue (step rnd cfg s (act b k r c)).2.obs) = true :=
  FlatPack.step_obs_valid rnd cfg hR hB s b k r c hi hin hb

/-- WHOLE EPISODES ("of certificate"): every observation of the rollout (`Ep.rollout` = the L1 step iterated, through the first LAST and
beyond) of ANY actions of the action space from a state satisfying the generator certificates is a member of the spec.
The dtype tag of every leaf is written by `toNValue` (by construction); dtypes and field order of the real observations are compared by
the `flat_pack.state` op (`nvalue`) and `jax.eval_shape` in the sweeps. -/
theorem flatpack_rollout_obs_valid (rnd : Rat → Rat) (cfg : Cfg) (hR : 3 ≤ cfg.numRows) (hB : 0 < cfg.numBlocks) (s : State)
    (hbo : blocksOK cfg s = true) (hf : freshOK cfg s = true) (hb : BlocksBounded cfg s.blocks) (as : List Act4)
    (hin : InSpecAll cfg as) (j : Nat) (e : State × TimeStep Obs)
    (he : (Ep.rollout (stepA rnd cfg) s as)[j]? = some e) : (obsSpec cfg).valid (toNValue e.2.obs) = true :=
  FlatPack.rollout_obs_valid rnd cfg hR hB s hbo hf hb as hin j e he

/-- what membership means (so the theorems above are not hollow)  CAVEAT (audits r4 #7, r5 #5, r6 #5): for every field that is a nested list, `toNValue` reads the widths off the FIRST row of the
nested list, so the shape conjuncts here mean "row count, length of the first row, total number of cells" — a ragged value with the right total can be a
member, and nothing is concluded about the later rows.  Rectangularity is part of the invariant (`SpecInv` / `Shaped` / `Rect…`) under which the
forward theorems (`…_reset_obs_valid`, `…_step_obs_valid`, `…_along`) are proved, i.e. it holds of every EMITTED observation. -/
theorem flatpack_obs_valid_only (cfg : Cfg) (o : Obs) (h : (obsSpec cfg).valid (toNValue o) = true) :
    shape2 o.grid = [cfg.numRows, cfg.numCols] ∧ (∀ v ∈ o.grid.flatten, v ≤ cfg.numBlocks) ∧
    shape3 o.blocks = [cfg.numBlocks, 3, 3] ∧ (∀ v ∈ o.blocks.flatten.flatten, v ≤ cfg.numBlocks) ∧
    shape4 o.actionMask = [cfg.numBlocks, 4, cfg.numRows - 2, cfg.numCols - 2] := FlatPack.obs_valid_only cfg o h

example : blocksOK ⟨5, 3, 2, true⟩ Props.C08.flatpackTwoBlocks = true ∧ freshOK ⟨5, 3, 2, true⟩ Props.C08.flatpackTwoBlocks = true ∧
    BlocksBounded ⟨5, 3, 2, true⟩ Props.C08.flatpackTwoBlocks.blocks ∧
    (obsSpec ⟨5, 3, 2, true⟩).valid (toNValue (resetTimeStep Props.C08.flatpackTwoBlocks).obs) = true ∧
    (obsSpec ⟨5, 3, 1, true⟩).valid (toNValue (resetTimeStep Props.C08.flatpackTwoBlocks).obs) = false := by
  decide +kernel

/-- reward and discount of every `step` (ALL states, ALL action values, any rounding) and of `reset` are accepted by
`reward_spec` (Array((), float)) and `discount_spec` (BoundedArray((), float, 0, 1)) -/
theorem flatpack_reward_discount_valid (rnd : Rat → Rat) (cfg : Cfg) (s : State) (a : Action) :
    rewardSpec.valid (scalarArr (step rnd cfg s a).2.reward) = true ∧
    discountSpec.valid (scalarArr (step rnd cfg s a).2.discount) = true ∧
    rewardSpec.valid (scalarArr (resetTimeStep s).reward) = true ∧
    discountSpec.valid (scalarArr (resetTimeStep s).discount) = true :=
  ⟨(FlatPack.step_reward_discount_valid rnd cfg s a).1, (FlatPack.step_reward_discount_valid rnd cfg s a).2,
   (FlatPack.reset_reward_discount_valid s).1, (FlatPack.reset_reward_discount_valid s).2⟩

/-- `action_spec.generate_value()` = (0, 0, 0, 0): for every grid of at least 3 × 3 with at least one block the action spec
is well-formed, the generated value is a member (membership in `action_spec` is exactly `inSpec`), and `step` answers it in
every state with a protocol-conform timestep -/
theorem flatpack_accepts_generate_value (rnd : Rat → Rat) (cfg : Cfg) (hR : 3 ≤ cfg.numRows) (hC : 3 ≤ cfg.numCols)
    (hB : 0 < cfg.numBlocks)
    (hbig : cfg.numBlocks ≤ 2147483648 ∧ cfg.numRows ≤ 2147483648 ∧ cfg.numCols ≤ 2147483648) (s : State) :
    (actionSpec cfg).WF = true ∧ (actionSpec cfg).valid (actionSpec cfg).generate = true ∧
    (actionSpec cfg).generate = actionArr (act 0 0 0 0) ∧ inSpec cfg 0 0 0 0 = true ∧
    StepOK none false (step rnd cfg s (act 0 0 0 0)).2 = true := by
  have hw := FlatPack.actionSpec_WF cfg hR hC hB hbig
  refine ⟨hw, Leaf.generate_valid _ hw, FlatPack.actionSpec_generate cfg, ?_, FlatPack.step_protocol rnd cfg s _⟩
  simp [inSpec]; omega

theorem flatpack_action_spec_iff (cfg : Cfg) (b k r c : Nat) :
    (actionSpec cfg).valid (actionArr (act b k r c)) = true ↔ inSpec cfg b k r c = true :=
  FlatPack.actionSpec_valid_iff cfg b k r c
end Props.C01

namespace Props.C01
open Sp PzS PkS in
/-- C01 for the toy generators WITHOUT certificate hypotheses (audit r5 #3): the reset observation, and every observation of the
rollout of ANY actions of the action space (any rounding, either reward function), is a member of the declared spec -/
theorem flatpack_toy_obs_valid (rnd : Rat → Rat) (cd : Bool) (s : State) (hs : s = toyGenerateRot ∨ s = toyGenerateNoRot) :
    (obsSpec (toyCfg cd)).valid (toNValue (resetTimeStep s).obs) = true ∧
    ∀ (as : List Act4), InSpecAll (toyCfg cd) as → ∀ (j : Nat) (e : State × TimeStep Obs),
      (Ep.rollout (stepA rnd (toyCfg cd)) s as)[j]? = some e → (obsSpec (toyCfg cd)).valid (toNValue e.2.obs) = true := by
  have hc := Props.C10.flatpack_toy_cert cd
  have hR : 3 ≤ (toyCfg cd).numRows := by show 3 ≤ 5; omega
  have hB : 0 < (toyCfg cd).numBlocks := by show 0 < 4; omega
  rcases hs with rfl | rfl
  · exact ⟨Props.C01.flatpack_reset_obs_valid _ hR hB _ hc.1.1 hc.1.2.1 hc.1.2.2.1,
      fun as hin j e he => Props.C01.flatpack_rollout_obs_valid rnd _ hR hB _ hc.1.1 hc.1.2.1 hc.1.2.2.1 as hin j e he⟩
  · exact ⟨Props.C01.flatpack_reset_obs_valid _ hR hB _ hc.2.1 hc.2.2.1 hc.2.2.2.1,
      fun as hin j e he => Props.C01.flatpack_rollout_obs_valid rnd _ hR hB _ hc.2.1 hc.2.2.1 hc.2.2.2.1 as hin j e he⟩
end Props.C01
