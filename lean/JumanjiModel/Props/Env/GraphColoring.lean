/-
Property theorems for GraphColoring (model of the CURRENT tree, i.e. after the fix that computes the next
mask from the updated colours).  Helper lemmas and proofs: Env/GraphColoring/Lemmas.lean.
`n` = num_nodes = number of colours.  `WF n s` = shapes and ranges, `Inv n s` = `WF` + the cached mask is
the mask of the current node (both hold on every state reached from `reset`, see
`graph_coloring_reachable_invariants`).
-/
import JumanjiModel.Env.GraphColoring.Lemmas
import JumanjiModel.Env.GraphColoring.Bounds
import JumanjiModel.Env.GraphColoring.EpisodeLemmas
import JumanjiModel.Env.GraphColoring.GenLemmas
import JumanjiModel.Env.GraphColoring.SpecLemmas
open Jm GraphColoring

namespace Props.C04
/-- the mask computed by `_get_valid_actions` (sentinel trick `valid_actions.at[-1]` included) for the
current node is exactly the set of colours the rules allow -/
theorem graph_coloring_mask_iff_legal (n : Nat) (s : State) (a : Nat) (h : WF n s) :
    (validActions n s.cur s.adj s.colors).getD a false = true ↔ legal n s a :=
  GraphColoring.mask_iff_legal n s a h

/-- cached mask: the mask stored in the state / shown in the observation after ANY step is exactly the set
of legal colours of the next node in the NEW state (this is the statement the stale-colours defect broke) -/
theorem graph_coloring_cached_mask (n : Nat) (s : State) (a : Int) (b : Nat) (h : WF n s) (ha : -1 ≤ a) :
    (step n s a).1.mask.getD b false = true ↔ legal n (step n s a).1 b :=
  GraphColoring.step_mask_iff_legal n s a b h ha

/-- the same for the reset state -/
theorem graph_coloring_reset_inv (n : Nat) (adj : List (List Bool)) (hn : 0 < n) (hadj : adj.length = n)
    (hrows : ∀ row ∈ adj, row.length = n) : Inv n (reset n adj).1 :=
  GraphColoring.reset_Inv n adj hn hadj hrows

/-- the environment's own reaction: it treats colour `a` as invalid iff the rules forbid it -/
theorem graph_coloring_step_agrees (n : Nat) (s : State) (a : Nat) (h : Inv n s) (ha : a < n) :
    (!(Jx.getWC s.mask false (a : Int))) = true ↔ ¬ legal n s a :=
  GraphColoring.invalid_iff_not_legal n s a h ha

/-- (wave 3; the statement above is about the L1 flag `invalid_action_taken`, not about what `step` returns) the reaction of
`step` ITSELF, on every state with the invariant and every colour of the action space: an illegal colour gives LAST with
reward `−num_nodes`; a legal one gives reward 0 and MID, or — exactly when it completes the colouring — LAST with minus the
number of colours used; hence, unless the step completes the colouring, it is LAST IFF the colour was illegal.  (On the
completing step the two cases cannot be told apart from the timestep alone when all `n` colours are in use — e.g. the
complete graph —: both give LAST with reward `−n`; `graph_coloring_legal_iff_step_feasible` below separates them by the
successor state.) -/
theorem graph_coloring_step_reaction (n : Nat) (s : State) (a : Nat) (h : Inv n s) (ha : a < n) :
    (¬ legal n s a → (step n s a).2.stepType = .last ∧ (step n s a).2.reward = [-((n : Nat) : Rat)]) ∧
    (legal n s a →
      ((step n s a).2.stepType = .last ↔ ∀ c ∈ (step n s a).1.colors, 0 ≤ c) ∧
      (step n s a).2.reward = [if ∀ c ∈ (step n s a).1.colors, 0 ≤ c then objective (step n s a).1 else 0]) ∧
    ((∃ c ∈ (step n s a).1.colors, c < 0) → ((step n s a).2.stepType = .last ↔ ¬ legal n s a)) :=
  GraphColoring.step_reaction n s a h ha

/-- … and by the successor state, in every case: in a proper partial colouring of a generated (symmetric, loop-free) graph
the rules allow colour `a` for the current node IFF the successor state of `step` is again a proper colouring -/
theorem graph_coloring_legal_iff_step_feasible (n : Nat) (s : State) (a : Nat) (h : Inv n s) (hg : GraphOK n s.adj)
    (hf : Feasible n s) (ha : a < n) : legal n s a ↔ Feasible n (step n s a).1 :=
  GraphColoring.legal_iff_step_feasible n s a h hg hf ha

/-- the invariant is preserved by every step (any in-spec action) -/
theorem graph_coloring_inv_step (n : Nat) (s : State) (a : Int) (h : WF n s) (ha : -1 ≤ a) :
    Inv n (step n s a).1 := GraphColoring.step_Inv n s a h ha

-- a triangle with nodes 0,1 coloured 0,1: node 2 may only take colour 2
example : Inv 3 ⟨[[false, true, true], [true, false, true], [true, true, false]], [0, 1, -1], 2,
    [false, false, true]⟩ := by decide
example : legal 3 ⟨[[false, true, true], [true, false, true], [true, true, false]], [0, 1, -1], 2,
    [false, false, true]⟩ 2 := by decide
end Props.C04

namespace Props.C05
/-- an illegal colour ends the episode with the documented penalty `-num_nodes`; the graph and the colours
of all other nodes are untouched.  (The documentation does not promise an untouched state, and indeed the
rejected colour is written to the current node of the terminal state.) -/
theorem graph_coloring_illegal_terminates (n : Nat) (s : State) (a : Nat) (h : Inv n s) (ha : a < n)
    (hl : ¬ legal n s a) :
    (step n s a).2.stepType = .last ∧ (step n s a).2.reward = [-((n : Nat) : Rat)] ∧
    (step n s a).2.discount = [0] ∧ (step n s a).1.adj = s.adj ∧
    ∀ j, j ≠ s.cur.toNat → colour (step n s a).1 j = colour s j :=
  GraphColoring.illegal_terminates n s a h ha hl
end Props.C05

namespace Props.C06
/-- the reset state is a proper (empty) partial colouring -/
theorem graph_coloring_reset_feasible (n : Nat) (adj : List (List Bool)) : Feasible n (reset n adj).1 :=
  GraphColoring.reset_feasible n adj

/-- a legal colour keeps the partial colouring proper (graph symmetric and loop-free, as generated) -/
theorem graph_coloring_step_feasible (n : Nat) (s : State) (a : Nat) (hw : WF n s) (hg : GraphOK n s.adj)
    (hf : Feasible n s) (hl : legal n s a) : Feasible n (step n s a).1 :=
  GraphColoring.step_feasible n s a hw hg hf hl

/-- every state reached from `reset` by legal play is a proper partial colouring, satisfies `Inv`, has all
nodes before the current one coloured and the original graph -/
theorem graph_coloring_reachable_invariants (n : Nat) (adj : List (List Bool)) (hn : 0 < n)
    (hg : GraphOK n adj) (s : State) (hr : LegalReach n adj s) :
    Feasible n s ∧ Inv n s ∧ PrefixColoured s ∧ s.adj = adj :=
  GraphColoring.legalReach_invariants n adj hn hg s hr

/-- an episode that ends with an accepted move ends in a complete proper colouring -/
theorem graph_coloring_complete_is_solution (n : Nat) (s : State) (a : Int) (hw : WF n s)
    (hf : Feasible n (step n s a).1) (hv : Jx.getWC s.mask false a = true)
    (hlast : (step n s a).2.stepType = .last) : IsSolution n (step n s a).1 :=
  GraphColoring.complete_is_solution n s a hw hf hv hlast

/-- (wave 3; the statement above ASSUMES the successor proper) completion THROUGH `step`: in a proper partial colouring of a
symmetric loop-free graph (both hold in every state of mask-respecting play from `reset`:
`graph_coloring_reachable_invariants`), a LEGAL colour whose step is LAST produces a complete proper colouring -/
theorem graph_coloring_step_complete_is_solution (n : Nat) (s : State) (a : Nat) (h : Inv n s) (hg : GraphOK n s.adj)
    (hf : Feasible n s) (hl : legal n s a) (hlast : (step n s a).2.stepType = .last) :
    IsSolution n (step n s a).1 := GraphColoring.step_complete_is_solution n s a h hg hf hl hlast

example : GraphOK 3 [[false, true, true], [true, false, true], [true, true, false]] := by decide
example : Feasible 3 ⟨[[false, true, true], [true, false, true], [true, true, false]], [0, 1, -1], 2,
    [false, false, true]⟩ := by decide
example : (step 3 ⟨[[false, true, true], [true, false, true], [true, true, false]], [0, 1, -1], 2,
    [false, false, true]⟩ 2).2.stepType = .last := by decide +kernel
/-- whole episodes from ANY well-formed state with a symmetric loop-free graph and a proper partial colouring,
along ANY sequence of colours each legal at its turn: the colouring is proper after every prefix (also past the end
of the episode, where the current node wraps around and nodes are re-coloured) -/
theorem graph_coloring_feasible_along_from (n : Nat) (s : State) (as : List Nat) (hi : Inv n s)
    (hg : GraphOK n s.adj) (hf : Feasible n s) (hal : AllLegal n s as) (k : Nat) :
    Feasible n (runState n s (as.take k)) := GraphColoring.feasible_along n s as hi hg hf hal k

/-- whole episodes from ANY generated instance (any `n > 0`, any thresholded draw `B` of the generator) along ANY
mask-respecting sequence (`AllMasked`: each colour has its bit set in the action mask of the observation current at
its turn): after every prefix no edge joins two nodes of the same colour -/
theorem graph_coloring_feasible_along (n : Nat) (hn : 0 < n) (B : List (List Bool)) (as : List Nat)
    (hm : AllMasked n (reset n (generate n B)).1 as) (k : Nat) :
    Feasible n (runState n (reset n (generate n B)).1 (as.take k)) := by
  have hg := GraphColoring.generate_ok n B
  have hi := GraphColoring.reset_Inv n (generate n B) hn hg.1 hg.2.1
  exact GraphColoring.feasible_along n _ as hi hg (GraphColoring.reset_feasible n _)
    (GraphColoring.allMasked_allLegal n as _ hi hm) k

-- a mask-respecting complete episode on the generated triangle
example : AllMasked 3 (reset 3 (generate 3 [[true, true, true], [true, true, true], [true, true, true]])).1 [0, 1, 2] := by
  simp only [AllMasked]; decide +kernel
end Props.C06

namespace Props.C08
/-- accepted moves earn 0 until the colouring is complete; the completing move earns minus the number of
different colours in the final state (`jnp.unique(…, size=n, fill_value=-1)` counted correctly) and ends
the episode.  Hence the return of a legal episode is `objective` of its final state. -/
theorem graph_coloring_reward (n : Nat) (s : State) (a : Int) (hw : WF n s)
    (hv : Jx.getWC s.mask false a = true) :
    let all := (step n s a).1.colors.all (fun c => decide (0 ≤ c))
    (step n s a).2.reward = [if all then objective (step n s a).1 else 0] ∧
    ((step n s a).2.stepType = .last ↔ all = true) :=
  GraphColoring.reward_valid n s a hw hv

/-- the L1 colour count equals the number of distinct non-negative colours -/
theorem graph_coloring_numUnique (n : Nat) (colors : List Int) (h : colors.length ≤ n) :
    numUnique n colors = usedColours colors := GraphColoring.numUnique_eq n colors h

/-- whole episodes, from any state satisfying the invariant (`WF` + cached mask fresh): a list of colours that
is a legal episode run to completion (`legalEpisode`: each colour legal when played, the last step LAST, no
earlier one) has return = objective of the final state = −(number of distinct colours in the final colouring),
and in the final state every node is coloured -/
theorem graph_coloring_episode_return_from (n : Nat) (s : State) (as : List Nat) (h : Inv n s)
    (he : legalEpisode n s as) :
    runReturn n s as = -((usedColours (runState n s as).colors : Nat) : Rat) ∧
    ∀ c ∈ (runState n s as).colors, 0 ≤ c :=
  GraphColoring.episode_return_from n s as h he

/-- whole episodes from `reset`, every `n`, every `n × n` adjacency matrix (only the shape is needed), every
legal episode run to completion: return = −(number of distinct colours in the final colouring), all nodes
coloured -/
theorem graph_coloring_episode_return (n : Nat) (adj : List (List Bool)) (hadj : adj.length = n)
    (hrows : ∀ row ∈ adj, row.length = n) (as : List Nat) (he : legalEpisode n (reset n adj).1 as) :
    runReturn n (reset n adj).1 as = -((usedColours (runState n (reset n adj).1 as).colors : Nat) : Rat) ∧
    ∀ c ∈ (runState n (reset n adj).1 as).colors, 0 ≤ c :=
  GraphColoring.episode_return n adj hadj hrows as he

/-- on a generated graph (symmetric, loop-free) the final state of a legal episode from `reset` is a complete
PROPER colouring, so the return is minus the number of colours of a solution -/
theorem graph_coloring_episode_solution (n : Nat) (adj : List (List Bool)) (hg : GraphOK n adj) (as : List Nat)
    (he : legalEpisode n (reset n adj).1 as) : IsSolution n (runState n (reset n adj).1 as) :=
  GraphColoring.episode_solution n adj hg as he

/-- the same from any state with the invariant that carries a proper partial colouring -/
theorem graph_coloring_episode_solution_from (n : Nat) (s : State) (as : List Nat) (h : Inv n s)
    (hg : GraphOK n s.adj) (hf : Feasible n s) (he : legalEpisode n s as) : IsSolution n (runState n s as) :=
  GraphColoring.episode_solution_from n s as h hg hf he

/-- the hypotheses are satisfiable: the triangle, coloured 0, 1, 2 -/
example : GraphOK 3 [[false, true, true], [true, false, true], [true, true, false]] ∧
    legalEpisode 3 (reset 3 [[false, true, true], [true, false, true], [true, true, false]]).1 [0, 1, 2] := by
  decide
/-- its return is −3; the path 0 — 1 — 2 coloured 0, 1, 0 has return −2 -/
example : runReturn 3 (reset 3 [[false, true, true], [true, false, true], [true, true, false]]).1 [0, 1, 2] = -3 := by
  decide +kernel
example : legalEpisode 3 (reset 3 [[false, true, false], [true, false, true], [false, true, false]]).1 [0, 1, 0] ∧
    runReturn 3 (reset 3 [[false, true, false], [true, false, true], [false, true, false]]).1 [0, 1, 0] = -2 := by
  decide +kernel
/-- not a legal episode: node 1 may not take the colour of its neighbour 0; nor is a proper prefix of one -/
example : ¬ legalEpisode 3 (reset 3 [[false, true, true], [true, false, true], [true, true, false]]).1 [0, 0, 2] ∧
    ¬ legalEpisode 3 (reset 3 [[false, true, true], [true, false, true], [true, true, false]]).1 [0, 1] := by
  decide +kernel
end Props.C08

namespace Props.C09
/-- refinement: on every state satisfying the invariant and for every action of the action space, the
transliterated `step` (L1) equals the directly written rules `stepSpec` (L2): successor state, reward,
discount, step type and observation -/
theorem graph_coloring_step_eq_spec (n : Nat) (s : State) (a : Nat) (h : Inv n s) (ha : a < n) :
    step n s (a : Int) = stepSpec n s a := GraphColoring.step_eq_spec n s a h ha
end Props.C09

namespace Props.C10
/-- for every thresholded random matrix `B` the generated adjacency matrix is `n × n`, symmetric and
without self-loops -/
theorem graph_coloring_generate_ok (n : Nat) (B : List (List Bool)) : GraphOK n (generate n B) :=
  GraphColoring.generate_ok n B
/-- the same with the uniform draw itself as parameter (`generateU n p U` = threshold `U < edge_probability`, then
`tril(·,-1)` plus transpose): for EVERY `n`, EVERY threshold and EVERY draw `U` (in particular every valid one) the
adjacency matrix is `n × n`, symmetric and loop-free.  Symmetry does not depend on the draw at all: the upper
triangle is a copy of the lower one. -/
theorem graph_coloring_generate_cert (n : Nat) (p : Rat) (U : List (List Rat)) (_h : validUniform n U) :
    GraphOK n (generateU n p U) := GraphColoring.generateU_ok n p U

/-- what the generator guarantees about the NUMBER of edges (`edge_probability` is documented as "the percentage of
connections in the graph compared to a fully connected graph"): the edge count equals the number of entries of the
strict lower triangle of the draw that fall below the threshold — a Binomial(n(n−1)/2, p) count, not a configured
number — and is at most `n(n−1)/2` -/
theorem graph_coloring_num_edges (n : Nat) (p : Rat) (U : List (List Rat)) :
    numEdges (generateU n p U) n = lowerTrue (threshold p U) n ∧
    numEdges (generateU n p U) n * 2 + n ≤ n * n :=
  ⟨GraphColoring.numEdges_generate n _ n (Nat.le_refl n), GraphColoring.numEdges_le _ n⟩

/-- the edge count is not fixed by `edge_probability`: for every `n` and every `0 < p < 1` both the complete graph
(draw constant 0) and the empty graph (draw constant `p`) are outputs for valid draws -/
theorem graph_coloring_num_edges_not_configured (n : Nat) (p : Rat) (hp0 : 0 < p) (hp1 : p < 1) :
    validUniform n (List.replicate n (List.replicate n 0)) ∧
    validUniform n (List.replicate n (List.replicate n p)) ∧
    (∀ i j, i < n → j < n → edge (generateU n p (List.replicate n (List.replicate n 0))) i j = decide (i ≠ j)) ∧
    (∀ i j, i < n → j < n → edge (generateU n p (List.replicate n (List.replicate n p))) i j = false) :=
  ⟨GraphColoring.validUniform_const n 0 (by decide) (by decide),
   GraphColoring.validUniform_const n p (Rat.le_of_lt hp0) hp1,
   fun i j hi hj => GraphColoring.generateU_complete n p hp0 i j hi hj,
   fun i j hi hj => GraphColoring.generateU_empty n p i j hi hj⟩

example : validUniform 2 [[1/2, 0], [1/10, 9/10]] ∧ numEdges (generateU 2 (1/2) [[1/2, 0], [1/10, 9/10]]) 2 = 1 := by
  decide +kernel
end Props.C10

namespace Props.C11
/-- a step that does not end the episode advances to the next node, which exists (`cur + 1 < n`), and keeps
"all earlier nodes coloured".  From `reset` (`cur = 0`) there are therefore at most `n − 1` non-final steps:
an episode lasts at most `n` steps (exactly `n` under legal play). -/
theorem graph_coloring_progress (n : Nat) (s : State) (a : Int) (hw : WF n s) (hp : PrefixColoured s)
    (ha : 0 ≤ a) (hnl : (step n s a).2.stepType ≠ .last) :
    (step n s a).1.cur = s.cur + 1 ∧ s.cur + 1 < n ∧ PrefixColoured (step n s a).1 :=
  GraphColoring.progress n s a hw hp ha hnl

open Ep in
/-- (wave 3) EPISODE level, never later: from `reset` on ANY `n × n` adjacency matrix (`n ≥ 1`), whatever non-negative action
values are played — legal or not, in the action space or beyond — (at least `n` of them; `rollout` = the L1 `step` iterated
without stopping at LAST, `firstLastTS` = 1-based index of the first LAST timestep, as the harness measures it), the first
LAST timestep comes at some step `k` with `0 < k ≤ num_nodes` -/
theorem graph_coloring_episode_ends_within_n (n : Nat) (hn : 0 < n) (adj : List (List Bool)) (hadj : adj.length = n)
    (hrows : ∀ row ∈ adj, row.length = n) (as : List Int) (hpos : ∀ a ∈ as, 0 ≤ a) (hlen : n ≤ as.length) :
    ∃ k, firstLastTS ((rollout (step n) (reset n adj).1 as).map (·.2)) = some k ∧ 0 < k ∧ k ≤ n :=
  GraphColoring.ends_within n n _ as (GraphColoring.reset_Inv n adj hn hadj hrows).1
    (GraphColoring.reset_prefixColoured n adj) (by simp [reset]) hn hpos hlen

open Ep in
/-- never earlier: under LEGAL play (each colour legal at its turn — equivalently mask-respecting, `allMasked_allLegal`) the
first LAST timestep is number `num_nodes` EXACTLY: the structural horizon is attained -/
theorem graph_coloring_legal_episode_ends_exactly_at_n (n : Nat) (hn : 0 < n) (adj : List (List Bool))
    (hadj : adj.length = n) (hrows : ∀ row ∈ adj, row.length = n) (as : List Nat)
    (hal : AllLegal n (reset n adj).1 as) (hlen : n ≤ as.length) :
    firstLastTS ((rollout (step n) (reset n adj).1 (as.map (fun (a : Nat) => (a : Int)))).map (·.2)) = some n :=
  GraphColoring.legal_ends_exactly n n _ as (GraphColoring.reset_Inv n adj hn hadj hrows)
    (GraphColoring.reset_prefixColoured n adj) (GraphColoring.reset_fresh n adj) (by simp [reset]) hn hal hlen

example : AllLegal 3 (reset 3 [[false, true, true], [true, false, true], [true, true, false]]).1 [0, 1, 2] := by
  simp only [AllLegal]; decide +kernel
end Props.C11

namespace Props.C12
/-- the observation returned by `step` is the documented view of the new state: graph, colours, current
node, and as action mask exactly the colours legal for the current node -/
theorem graph_coloring_obs_faithful (n : Nat) (s : State) (a : Int) (h : WF n s) (ha : -1 ≤ a) :
    (step n s a).2.obs = observe n (step n s a).1 := GraphColoring.obs_faithful n s a h ha

theorem graph_coloring_reset_obs_faithful (n : Nat) (adj : List (List Bool)) (hn : 0 < n)
    (hadj : adj.length = n) (hrows : ∀ row ∈ adj, row.length = n) :
    (reset n adj).2.obs = observe n (reset n adj).1 :=
  GraphColoring.reset_obs_faithful n adj hn hadj hrows
end Props.C12

namespace Props.C01
open PzB
/-- the observation returned by `reset` on any graph with `n ≥ 1` nodes: every leaf listed in `obsBounds n` is present
and within its interval: `adj_matrix`, `action_mask` ∈ [0,1], `colors` ∈ [-1, n-1], `current_node_index` ∈ [0, n-1] -/
theorem graph_coloring_reset_obs_in_bounds (n : Nat) (adj : List (List Bool)) (hn : 0 < n) :
    ObsInBounds (obsBounds n) (obsLeaves (reset n adj).2.obs) := GraphColoring.reset_obs_in_bounds n adj hn

/-- the same for `step`, for every state in which colours and current node are in range (`InRange`, an invariant: see
below) and every colour of the action space (`0 ≤ a < n`; `-1` is harmless too), legal or not, terminal step included -/
theorem graph_coloring_step_obs_in_bounds (n : Nat) (s : State) (a : Int) (h : InRange n s)
    (ha : -1 ≤ a ∧ a < n) : ObsInBounds (obsBounds n) (obsLeaves (step n s a).2.obs) :=
  GraphColoring.step_obs_in_bounds n s a h ha

/-- `InRange` holds after `reset` and is preserved by every step with an in-spec colour -/
theorem graph_coloring_inRange_invariant (n : Nat) :
    (∀ adj, 0 < n → InRange n (reset n adj).1) ∧
    (∀ (s : State) (a : Int), InRange n s → (-1 ≤ a ∧ a < n) → InRange n (step n s a).1) :=
  ⟨fun adj hn => GraphColoring.reset_inRange n adj hn, fun s a h ha => GraphColoring.step_inRange n s a h ha⟩

/-- an out-of-spec colour is written to the board unchecked: the hypothesis on the action is needed -/
example : ¬ InRange 3 (step 3 ⟨[[false, true, true], [true, false, true], [true, true, false]], [0, 1, -1], 2,
    [false, false, true]⟩ 7).1 := by decide
example : InRange 3 ⟨[[false, true, true], [true, false, true], [true, true, false]], [0, 1, -1], 2,
    [false, false, true]⟩ := by decide

/-! NOTE on what the membership theorems of this section do and do not cover (audits r4 #6, r5 #6, r6 #8): the dtype tag of every leaf
is written by `toNValue` (by construction) — a wrong dtype in the real code cannot falsify `….valid (toNValue …) = true`; dtypes and
field order of the real observations are compared by the `graph_coloring.spec` / `graph_coloring.state` ops (`nvalue`: field order, shape, dtype, data) and
`jax.eval_shape` in the sweeps.  Shapes are READ OFF the value by `toNValue` (widths off the first row): see `…_obs_valid_only`. -/

/-! #### (wave 3) membership in the DECLARED specs: structure, shapes, dtypes and bounds -/
open Sp PzS PzS3

/-- the model's `obsSpec` / `actionSpec` / reward and discount specs ARE the specs generated from the real spec objects
(Gen/Specs.lean) for the catalogue configuration of GraphColoring (8 nodes) and the spec-only configuration with 5 nodes (two
sizes: a spec that ignores `n`, or has `n + c` for `2 * n`, fails one of them) -/
theorem graph_coloring_obsSpec_generated :
    prefixed "observation_spec." (obsSpec 8) = declared "graphcoloring-8" "observation_spec." ∧
    [("action_spec", actionSpec 8)] = declared "graphcoloring-8" "action_spec" ∧
    [("reward_spec", rewardSpec)] = declared "graphcoloring-8" "reward_spec" ∧
    [("discount_spec", discountSpec)] = declared "graphcoloring-8" "discount_spec" ∧
    prefixed "observation_spec." (obsSpec 5) = declared "spec-only-graphcoloring-5" "observation_spec." ∧
    [("action_spec", actionSpec 5)] = declared "spec-only-graphcoloring-5" "action_spec" ∧
    [("reward_spec", rewardSpec)] = declared "spec-only-graphcoloring-5" "reward_spec" ∧
    [("discount_spec", discountSpec)] = declared "spec-only-graphcoloring-5" "discount_spec" := by
  refine ⟨by decide +kernel, by decide +kernel, by decide +kernel, by decide +kernel,
    by decide +kernel, by decide +kernel, by decide +kernel, by decide +kernel⟩

/-- the `reset` observation — every `n ≥ 1`, EVERY thresholded draw `B` of the generator — is accepted by
`observation_spec.validate`: fields `adj_matrix`, `action_mask`, `colors`, `current_node_index`; shapes `(n, n)`, `(n,)`,
`(n,)`, `()`; dtypes bool, bool, int32, int32; bounds [0,1], [0,1], [−1, n−1], [0, n−1] -/
theorem graph_coloring_reset_obs_valid (n : Nat) (hn : 0 < n) (B : List (List Bool)) :
    (obsSpec n).valid (toNValue (reset n (generate n B)).2.obs) = true :=
  GraphColoring.reset_obs_valid n _ hn (GraphColoring.generate_ok n B).1 (GraphColoring.generate_ok n B).2.1

/-- the same for every `step` observation from a state satisfying `SpecInv` (shapes, colours in [−1, n−1], current node in
[0, n−1], `n` mask entries) and every colour of the action space, legal or not, the terminal step included -/
theorem graph_coloring_step_obs_valid (n : Nat) (s : State) (a : Int) (h : SpecInv n s) (ha : 0 ≤ a ∧ a < n) :
    (obsSpec n).valid (toNValue (step n s a).2.obs) = true :=
  GraphColoring.step_obs_valid n s a h ⟨by omega, ha.2⟩

/-- `SpecInv` holds after `reset` on every generated graph, is preserved by every in-spec step, and therefore holds in
EVERY state of EVERY play of colours of the action space from `reset` (also after LAST, where the current node wraps round) -/
theorem graph_coloring_specInv_invariant (n : Nat) (hn : 0 < n) (B : List (List Bool)) :
    SpecInv n (reset n (generate n B)).1 ∧
    (∀ (s : State) (a : Int), SpecInv n s → (0 ≤ a ∧ a < n) → SpecInv n (step n s a).1) ∧
    (∀ as : List Nat, (∀ a ∈ as, a < n) → SpecInv n (runState n (reset n (generate n B)).1 as)) := by
  have h0 := GraphColoring.reset_specInv n _ hn (GraphColoring.generate_ok n B).1 (GraphColoring.generate_ok n B).2.1
  exact ⟨h0, fun s a h ha => GraphColoring.step_specInv n s a h ⟨by omega, ha.2⟩,
    fun as ha => GraphColoring.runState_specInv n _ as h0 ha⟩

/-- … so every observation of every such episode is a member of the spec -/
theorem graph_coloring_episode_obs_valid (n : Nat) (hn : 0 < n) (B : List (List Bool)) (as : List Nat)
    (has : ∀ a ∈ as, a < n) (a : Nat) (ha : a < n) :
    (obsSpec n).valid (toNValue (step n (runState n (reset n (generate n B)).1 as) (a : Int)).2.obs) = true :=
  GraphColoring.step_obs_valid n _ _ ((graph_coloring_specInv_invariant n hn B).2.2 as has) ⟨by omega, by omega⟩

/-- what membership means: `validate` accepts ONLY observations with an `(n, n)` matrix, `n` mask entries, `n` colours in
[−1, n−1] and a current node in [0, n−1]  CAVEAT (audits r4 #7, r5 #5, r6 #5): for every field that is a nested list, `toNValue` reads the widths off the FIRST row of the
nested list, so the shape conjuncts here mean "row count, length of the first row, total number of cells" — a ragged value with the right total can be a
member, and nothing is concluded about the later rows.  Rectangularity is part of the invariant (`SpecInv` / `Shaped` / `Rect…`) under which the
forward theorems (`…_reset_obs_valid`, `…_step_obs_valid`, `…_along`) are proved, i.e. it holds of every EMITTED observation. -/
theorem graph_coloring_obs_valid_only (n : Nat) (o : Obs) (h : (obsSpec n).valid (toNValue o) = true) :
    gridShape o.adj = [n, n] ∧ o.mask.length = n ∧ o.colors.length = n ∧
    (∀ c ∈ o.colors, -1 ≤ c ∧ c ≤ ((n : Nat) : Int) - 1) ∧ 0 ≤ o.cur ∧ o.cur ≤ ((n : Nat) : Int) - 1 :=
  GraphColoring.obs_valid_only n o h

example : SpecInv 3 ⟨[[false, true, true], [true, false, true], [true, true, false]], [0, 1, -1], 2, [false, false, true]⟩ ∧
    (obsSpec 3).valid (toNValue (step 3 ⟨[[false, true, true], [true, false, true], [true, true, false]], [0, 1, -1], 2,
      [false, false, true]⟩ 7).2.obs) = false := by
  refine ⟨by decide, by decide +kernel⟩

/-- reward and discount of every `step` (ALL states, ALL action values) and of `reset` are accepted by `reward_spec`
(Array((), float)) and `discount_spec` (BoundedArray((), float, 0, 1)) -/
theorem graph_coloring_reward_discount_valid (n : Nat) (s : State) (a : Int) (adj : List (List Bool)) :
    rewardSpec.valid (scalarArr (step n s a).2.reward) = true ∧
    discountSpec.valid (scalarArr (step n s a).2.discount) = true ∧
    rewardSpec.valid (scalarArr (reset n adj).2.reward) = true ∧
    discountSpec.valid (scalarArr (reset n adj).2.discount) = true :=
  ⟨(GraphColoring.step_reward_discount_valid n s a).1, (GraphColoring.step_reward_discount_valid n s a).2,
   (restart_reward_discount_valid _).1, (restart_reward_discount_valid _).2⟩

/-- `action_spec.generate_value()` = colour 0: for every `n ≥ 1` the action spec is well-formed, the generated value is a
member of it, and `step` answers it in every state satisfying `SpecInv` with a protocol-conform timestep whose observation
is a member of `observation_spec` -/
theorem graph_coloring_accepts_generate_value (n : Nat) (hn : 0 < n) (hbig : n ≤ 2147483648) (s : State)
    (h : SpecInv n s) :
    (actionSpec n).WF = true ∧ (actionSpec n).valid (actionSpec n).generate = true ∧
    (actionSpec n).generate = actionArr 0 ∧ StepOK none false (step n s 0).2 = true ∧
    (obsSpec n).valid (toNValue (step n s 0).2.obs) = true := GraphColoring.accepts_generate_value n hn hbig s h
end Props.C01
