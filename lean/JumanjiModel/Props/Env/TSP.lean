/-
Property theorems for TSP.  Helper lemmas and proofs: Env/TSP/Lemmas.lean.
`n` = num_cities; `D` = the matrix of pairwise distances (any matrix: no metric property is needed);
`pen` = the invalid-move penalty (−n·√2 in the code, kept symbolic).  `Feasible n s` is the invariant of
reachable states (route without repeats, visited mask = set of the route, position = last city, …).
-/
import JumanjiModel.Env.TSP.Lemmas
import JumanjiModel.Env.TSP.Bounds
import JumanjiModel.Env.TSP.SmallLemmas
import JumanjiModel.Env.TSP.GenLemmas
import JumanjiModel.Env.TSP.Spec
open Jm TSP

namespace Props.C01
/-- `reset` (any `n`, any sampled coordinates of the unit square): coordinates ∈ [0,1], trajectory ∈ [−1, n−1],
action_mask ∈ {0,1} — every leaf listed in `obsBounds n` -/
theorem tsp_reset_obs_in_bounds (n : Nat) (coords : List (List Rat)) (h : validDraw n coords) :
    Jm.OB.InBounds (obsBounds n) (obsLeaves (reset n coords).2.obs) := TSP.reset_obs_in_bounds n coords h

/-- every step with an action of the action spec (`0 ≤ a < n`, valid or not, terminal step included), any
distance matrix, penalty and reward function, from a state satisfying `ObsInv n` -/
theorem tsp_step_obs_in_bounds (n : Nat) (D : Dist) (pen : Rat) (dense : Bool) (s : State) (a : Int)
    (ha : 0 ≤ a ∧ a < n) (h : ObsInv n s) :
    Jm.OB.InBounds (obsBounds n) (obsLeaves (step n D pen dense s a).2.obs) :=
  TSP.step_obs_in_bounds n D pen dense s a ha h

/-- `ObsInv n` is established by `reset`, preserved by every step, and implied by `Feasible n` -/
theorem tsp_reset_obsInv (n : Nat) (coords : List (List Rat)) (h : validDraw n coords) :
    ObsInv n (reset n coords).1 := TSP.reset_obsInv n coords h
theorem tsp_step_obsInv (n : Nat) (D : Dist) (pen : Rat) (dense : Bool) (s : State) (a : Int)
    (ha : 0 ≤ a ∧ a < n) (h : ObsInv n s) : ObsInv n (step n D pen dense s a).1 :=
  TSP.step_obsInv n D pen dense s a ha h
theorem tsp_feasible_obsInv (n : Nat) (s : State) (hf : Feasible n s)
    (hc : ∀ p ∈ s.coords, ∀ x ∈ p, 0 ≤ x ∧ x ≤ 1) : ObsInv n s := TSP.feasible_obsInv n s hf hc

/-- the leaf `position` (not in `obsBounds`: finding F5): [−1, n−1] on every observation … -/
theorem tsp_reset_position_in_bounds (n : Nat) (coords : List (List Rat)) (h : validDraw n coords) :
    Jm.OB.InBounds (positionBounds n) (obsLeaves (reset n coords).2.obs) :=
  TSP.reset_position_in_bounds n coords h
theorem tsp_step_position_in_bounds (n : Nat) (D : Dist) (pen : Rat) (dense : Bool) (s : State) (a : Int)
    (ha : 0 ≤ a ∧ a < n) (h : ObsInv n s) :
    Jm.OB.InBounds (positionBounds n) (obsLeaves (step n D pen dense s a).2.obs) :=
  TSP.step_position_in_bounds n D pen dense s a ha h
/-- … inside the declared `DiscreteArray(num_cities)` = [0, n−1] on every observation returned by `step` from a
feasible state, and equal to −1 (outside it) on every reset observation -/
theorem tsp_step_position_declared (n : Nat) (D : Dist) (pen : Rat) (dense : Bool) (s : State) (a : Nat)
    (hf : Feasible n s) (ha : a < n) :
    0 ≤ (step n D pen dense s a).2.obs.position ∧ (step n D pen dense s a).2.obs.position < n :=
  TSP.step_position_declared n D pen dense s a hf ha
theorem tsp_reset_position_outside_declared (n : Nat) (coords : List (List Rat)) :
    (reset n coords).2.obs.position = -1 := TSP.reset_position n coords

example : validDraw 3 [[0, 0], [1, 0], [1/2, 1]] := by decide +kernel
example : ObsInv 3 ⟨[[0, 0], [1, 0], [1, 1]], 1, [false, true, false], [1, -1, -1], 1⟩ := by decide +kernel

/-! NOTE on what the membership theorems of this section do and do not cover (audits r4 #6, r5 #6, r6 #8): the dtype tag of every leaf
is written by `toNValue` (by construction) — a wrong dtype in the real code cannot falsify `….valid (toNValue …) = true`; dtypes and
field order of the real observations are compared by the `tsp.state` op (`nvalue`: field order, shape, dtype, data; harness/spec_wave3.py,
wave3_routing.py) and `jax.eval_shape` in the sweeps.  Shapes are READ OFF the value by `toNValue` (widths off the first row): see
`…_obs_valid_only`. -/

/-! #### full spec membership (structure, shapes, dtypes, bounds) — Env/TSP/Spec.lean

`obsSpec n` / `actionSpec n` are the declared `observation_spec` / `action_spec` of a `num_cities = n` environment as
values of the spec algebra (Spec/Spec.lean); `toNValue o` is the model observation as the four arrays the implementation
emits, every shape read off the value; `Nested.valid` is the transliteration of `validate`. -/

open Sp PzS in
/-- the symbolic specs ARE the specs generated from the real spec objects (Gen/Specs.lean) for the catalogue
configuration `tsp-6` and the spec-only configuration with 4 cities (two sizes), reward and discount specs included -/
theorem tsp_obsSpec_generated :
    prefixed "observation_spec." (obsSpec 6) = declared "tsp-6" "observation_spec." ∧
    [("action_spec", actionSpec 6)] = declared "tsp-6" "action_spec" ∧
    [("reward_spec", rewardSpec)] = declared "tsp-6" "reward_spec" ∧
    [("discount_spec", discountSpec)] = declared "tsp-6" "discount_spec" ∧
    prefixed "observation_spec." (obsSpec 4) = declared "spec-only-tsp-4" "observation_spec." ∧
    [("action_spec", actionSpec 4)] = declared "spec-only-tsp-4" "action_spec" ∧
    [("reward_spec", rewardSpec)] = declared "spec-only-tsp-4" "reward_spec" ∧
    [("discount_spec", discountSpec)] = declared "spec-only-tsp-4" "discount_spec" := by
  refine ⟨by decide +kernel, by decide +kernel, by decide +kernel, by decide +kernel,
    by decide +kernel, by decide +kernel, by decide +kernel, by decide +kernel⟩

/-- the observation of every `step` with an action of the action spec (`a < n`, legal or not, terminal step included;
any distance matrix, penalty, reward function) from a state satisfying `SpecInv n` is accepted by
`observation_spec.validate`: coordinates `(n, 2)` float32 in [0, 1]; position `()` int32 in [0, n−1]; trajectory `(n,)`
int32 in [−1, n−1]; action_mask `(n,)` bool -/
theorem tsp_step_obs_valid (n : Nat) (D : Dist) (pen : Rat) (dense : Bool) (s : State) (a : Nat) (ha : a < n)
    (h : SpecInv n s) : (obsSpec n).valid (toNValue (step n D pen dense s a).2.obs) = true :=
  TSP.step_obs_valid n D pen dense s a ha h

/-- `SpecInv n` (feasible partial tour over `n` cities of the unit square) is established by `reset` for every valid
draw, preserved by every in-spec step, hence holds in every state of every in-spec play from `reset` -/
theorem tsp_reset_specInv (n : Nat) (coords : List (List Rat)) (h : validDraw n coords) :
    SpecInv n (reset n coords).1 := TSP.reset_specInv n coords h
theorem tsp_step_specInv (n : Nat) (D : Dist) (pen : Rat) (dense : Bool) (s : State) (a : Nat) (ha : a < n)
    (h : SpecInv n s) : SpecInv n (step n D pen dense s a).1 := TSP.step_specInv n D pen dense s a ha h
theorem tsp_obs_valid_along (n : Nat) (D : Dist) (pen : Rat) (dense : Bool) (coords : List (List Rat))
    (h : validDraw n coords) (as : List Nat) (hok : ∀ a ∈ as, a < n) (a : Nat) (ha : a < n) :
    (obsSpec n).valid (toNValue (step n D pen dense
      ((Ep.ofStep (fun s (a : Nat) => step n D pen dense s (a : Int)) (·.numVisited)).run (reset n coords).1 as) a).2.obs) =
      true :=
  TSP.step_obs_valid n D pen dense _ a ha
    (TSP.specInv_along n D pen dense _ as hok (TSP.reset_specInv n coords h))

/-- finding F5 as a theorem about the model (the real code agrees: known_findings.json F5): for EVERY `n` and EVERY
coordinates `observation_spec.validate` REJECTS the reset observation, because `position = −1` is outside
`DiscreteArray(num_cities)` … -/
theorem tsp_reset_obs_not_valid (n : Nat) (coords : List (List Rat)) :
    (obsSpec n).valid (toNValue (reset n coords).2.obs) = false := TSP.reset_obs_not_valid n coords

/-- … and `position` is the ONLY offending leaf: the reset observation of every valid draw is a member of the spec whose
position leaf is `BoundedArray((), int32, −1, n−1)` (all other leaves as declared) -/
theorem tsp_reset_obs_valid_wide (n : Nat) (hn : 0 < n) (coords : List (List Rat)) (h : validDraw n coords) :
    (obsSpecWide n).valid (toNValue (reset n coords).2.obs) = true := TSP.reset_obs_valid_wide n hn coords h

/-- what membership means (so the theorems above are not hollow)  CAVEAT (audits r4 #7, r5 #5, r6 #5): for every field that is a nested list, `toNValue` reads the widths off the FIRST row of the
nested list, so the shape conjuncts here mean "row count, length of the first row, total number of cells" — a ragged value with the right total can be a
member, and nothing is concluded about the later rows.  Rectangularity is part of the invariant (`SpecInv` / `Shaped` / `Rect…`) under which the
forward theorems (`…_reset_obs_valid`, `…_step_obs_valid`, `…_along`) are proved, i.e. it holds of every EMITTED observation. -/
theorem tsp_obs_valid_only (n : Nat) (o : Obs) (h : (obsSpec n).valid (toNValue o) = true) :
    o.coords.length = n ∧ (∀ x ∈ o.coords.flatten, 0 ≤ x ∧ x ≤ 1) ∧ (0 ≤ o.position ∧ o.position < n) ∧
    o.trajectory.length = n ∧ (∀ c ∈ o.trajectory, -1 ≤ c ∧ c < n) ∧ o.mask.length = n := TSP.obs_valid_only n o h

/-- `action_spec.generate_value()` (= city 0) is a member of `action_spec` (every `n ≥ 1`) and is accepted by `step` in
every state of the invariant: the answer is a MID or LAST timestep whose observation is a member of `observation_spec`
(reward and discount: `tsp_step_reward_discount_in_spec`, Props/C01.lean) -/
theorem tsp_step_accepts_generate (n : Nat) (hn : 0 < n) (D : Dist) (pen : Rat) (dense : Bool) (s : State)
    (h : SpecInv n s) :
    (actionSpec n).generate = ⟨[], .int32, [0]⟩ ∧ (actionSpec n).valid (actionSpec n).generate = true ∧
    (obsSpec n).valid (toNValue (step n D pen dense s ((0 : Nat) : Int)).2.obs) = true ∧
    ((step n D pen dense s ((0 : Nat) : Int)).2.stepType = .mid ∨
     (step n D pen dense s ((0 : Nat) : Int)).2.stepType = .last) := TSP.step_accepts_generate n hn D pen dense s h

example : SpecInv 3 ⟨[[0, 0], [1, 0], [1, 1]], 1, [false, true, false], [1, -1, -1], 1⟩ := by decide +kernel
example : (obsSpec 3).valid (toNValue ⟨[[0, 0], [1, 0], [1, 1]], 1, [1, -1, -1], [true, false, true]⟩) = true ∧
    (obsSpec 3).valid (toNValue ⟨[[0, 0], [1, 0], [1, 1]], 3, [1, -1, -1], [true, false, true]⟩) = false ∧
    (obsSpec 3).valid (toNValue ⟨[[0, 0], [1, 0], [1, 1]], 1, [1, 3, -1], [true, false, true]⟩) = false ∧
    (obsSpec 3).valid (toNValue ⟨[[0, 0], [1, 0]], 1, [1, -1, -1], [true, false, true]⟩) = false := by decide +kernel
end Props.C01

namespace Props.C04
/-- the observed mask bit of city `a` is set exactly when the rules allow visiting it -/
theorem tsp_mask_iff_legal (s : State) (a : Nat) : (obsOf s).mask.getD a false = true ↔ legal s a :=
  TSP.mask_iff_legal s a

/-- the environment's own validity test agrees with the rules -/
theorem tsp_step_agrees (s : State) (a : Nat) (ha : a < s.visited.length) :
    isValid s (a : Int) = true ↔ legal s a := TSP.isValid_iff_legal s a ha

/-- the same stated about `step` itself (audit: `tsp_step_agrees` speaks of the auxiliary `isValid` only): on a feasible
state and an in-range city, a legal move is carried out (the successor is `visit s a`: position, visited flag, route,
counter), an illegal one changes nothing and ends the episode (with the penalty: `tsp_illegal_terminates`, C05); hence the
move is counted iff it was legal — a masked-in city (`tsp_mask_iff_legal`) is never treated as invalid, no legal city is refused -/
theorem tsp_step_agrees_step (n : Nat) (D : Dist) (pen : Rat) (dense : Bool) (s : State) (a : Nat) (hf : Feasible n s)
    (ha : a < n) :
    (legal s a → (step n D pen dense s a).1 = visit s a) ∧
    (¬ legal s a → (step n D pen dense s a).1 = s ∧ (step n D pen dense s a).2.stepType = .last) ∧
    (legal s a ↔ (step n D pen dense s a).1.numVisited = s.numVisited + 1) :=
  TSP.step_agrees_step n D pen dense s a hf ha

example : legal ⟨[[0, 0], [1, 0], [1, 1]], 1, [false, true, false], [1, -1, -1], 1⟩ 2 := by decide
example : ¬ legal ⟨[[0, 0], [1, 0], [1, 1]], 1, [false, true, false], [1, -1, -1], 1⟩ 1 := by decide
end Props.C04

namespace Props.C05
/-- revisiting a city (while cities remain) ends the episode with the penalty, zero discount, and leaves
the state untouched — for both reward functions -/
theorem tsp_illegal_terminates (n : Nat) (D : Dist) (pen : Rat) (dense : Bool) (s : State) (a : Nat)
    (hf : Feasible n s) (hrun : s.numVisited < n) (ha : a < n) (hl : ¬ legal s a) :
    (step n D pen dense s a).1 = s ∧ (step n D pen dense s a).2.stepType = .last ∧
    (step n D pen dense s a).2.reward = [pen] ∧ (step n D pen dense s a).2.discount = [0] :=
  TSP.illegal_step n D pen dense s a hf hrun ha hl

example : Feasible 3 ⟨[[0, 0], [1, 0], [1, 1]], 1, [false, true, false], [1, -1, -1], 1⟩ := by decide
end Props.C05

namespace Props.C06
/-- the fresh state is feasible -/
theorem tsp_reset_feasible (n : Nat) (coords : List (List Rat)) : Feasible n (reset n coords).1 :=
  TSP.reset_feasible n coords

/-- visiting an unvisited city keeps the partial tour feasible: no city twice, visited mask = set of the
route, rest of the trajectory unfilled, position = last city, counter = route length -/
theorem tsp_step_feasible (n : Nat) (D : Dist) (pen : Rat) (dense : Bool) (s : State) (a : Nat)
    (hf : Feasible n s) (hl : legal s a) : Feasible n (step n D pen dense s a).1 :=
  TSP.step_feasible n D pen dense s a hf hl

/-- an episode that ends with an accepted move ends with a complete tour (every city exactly once) -/
theorem tsp_complete_is_solution (n : Nat) (D : Dist) (pen : Rat) (dense : Bool) (s : State) (a : Nat)
    (hf : Feasible n s) (hl : legal s a) (hlast : (step n D pen dense s a).2.stepType = .last) :
    IsSolution n (step n D pen dense s a).1 :=
  TSP.complete_is_solution n D pen dense s a hf hl hlast
/-- whole episodes: from ANY feasible state, along ANY sequence of cities each of which is legal when its turn
comes, the state after every prefix is feasible — in particular no city is on the route twice -/
theorem tsp_feasible_along_from (n : Nat) (D : Dist) (pen : Rat) (dense : Bool) (s : State) (as : List Nat)
    (hf : Feasible n s) (hal : AllLegal n D pen dense s as) (k : Nat) :
    Feasible n (play n D pen dense s (as.take k)).1 := TSP.feasible_along n D pen dense s as hf hal k

/-- whole episodes from ANY generated instance (any `n`, any draw `u` of the generator — no condition on the
coordinates is needed), along ANY mask-respecting sequence (`AllMasked`: each city has its bit set in the action
mask of the observation current at its turn): after every prefix the state is feasible, no city has been served
twice, and exactly as many cities are served as moves were made -/
theorem tsp_feasible_along (n : Nat) (D : Dist) (pen : Rat) (dense : Bool) (u : List (List Rat)) (as : List Nat)
    (hm : AllMasked n D pen dense (generate n u) as) (k : Nat) :
    Feasible n (play n D pen dense (generate n u) (as.take k)).1 ∧
    (route (play n D pen dense (generate n u) (as.take k)).1).Nodup ∧
    (play n D pen dense (generate n u) (as.take k)).1.numVisited = (as.take k).length := by
  have hal := (TSP.allMasked_iff n D pen dense as _).1 hm
  have hf0 : Feasible n (generate n u) := TSP.reset_feasible n u
  have hf := TSP.feasible_along n D pen dense _ as hf0 hal k
  refine ⟨hf, hf.2.2.2.2.1, ?_⟩
  rw [TSP.play_numVisited n D pen dense _ _ hf0 (TSP.allLegal_take n D pen dense as _ k hal)]
  simp [generate]

/-- mask-respecting = legal at every turn -/
theorem tsp_allMasked_iff_allLegal (n : Nat) (D : Dist) (pen : Rat) (dense : Bool) (s : State) (as : List Nat) :
    AllMasked n D pen dense s as ↔ AllLegal n D pen dense s as := TSP.allMasked_iff n D pen dense as s

/-- whole episodes, completion: a mask-respecting episode of `n` moves from ANY generated instance ends in a complete
tour — feasible, and every one of the `n` cities visited exactly once -/
theorem tsp_episode_complete_is_solution (n : Nat) (D : Dist) (pen : Rat) (dense : Bool) (u : List (List Rat))
    (as : List Nat) (hm : AllMasked n D pen dense (generate n u) as) (hlen : as.length = n) :
    IsSolution n (play n D pen dense (generate n u) as).1 :=
  TSP.episode_complete_is_solution n D pen dense u as hm hlen

-- a mask-respecting complete episode on a generated 3-city instance
example : AllMasked 3 [[0, 1, 2], [1, 0, 1], [2, 1, 0]] (-5) true (generate 3 [[0, 0], [1/2, 0], [3/4, 0]]) [1, 0, 2] := by
  simp only [AllMasked]; decide +kernel
end Props.C06

namespace Props.C08
/-- dense reward of an accepted move = minus the increase of the distance travelled (closing leg included
when the tour completes) -/
theorem tsp_dense_telescopes (n : Nat) (D : Dist) (pen : Rat) (s : State) (a : Nat) (hn : 2 ≤ n)
    (hf : Feasible n s) (hl : legal s a) :
    (step n D pen true s a).2.reward = [travelled n D s - travelled n D (step n D pen true s a).1] :=
  TSP.dense_telescopes n D pen s a hn hf hl

/-- sparse reward of an accepted move: 0 until the tour is complete, then minus the closed tour length -/
theorem tsp_sparse_reward (n : Nat) (D : Dist) (pen : Rat) (s : State) (a : Nat)
    (hf : Feasible n s) (hl : legal s a) :
    (step n D pen false s a).2.reward =
      [if (step n D pen false s a).1.numVisited = (n : Int)
       then -(tourLen D (step n D pen false s a).1.trajectory) else 0] :=
  TSP.sparse_reward n D pen s a hf hl

/-- `compute_tour_length` (gather, roll, sum) is the length of the closed tour -/
theorem tsp_tourLength_eq (D : Dist) (l : List Int) : tourLength D l = tourLen D l := TSP.tourLength_eq D l

/-- whole episodes, dense: the return along legal moves telescopes -/
theorem tsp_dense_return (n : Nat) (D : Dist) (pen : Rat) (hn : 2 ≤ n) (as : List Nat) (s : State)
    (hf : Feasible n s) (hal : AllLegal n D pen true s as) :
    (play n D pen true s as).2 = travelled n D s - travelled n D (play n D pen true s as).1 ∧
    Feasible n (play n D pen true s as).1 := TSP.dense_return n D pen hn as s hf hal

/-- whole episodes: on every complete legal episode from a fresh state the dense return equals the
objective −(closed tour length of the final trajectory), and the sparse return equals the dense return -/
theorem tsp_dense_eq_sparse (n : Nat) (D : Dist) (pen : Rat) (hn : 2 ≤ n) (coords : List (List Rat))
    (as : List Nat) (hal : AllLegal n D pen true (reset n coords).1 as)
    (hc : (play n D pen true (reset n coords).1 as).1.numVisited = (n : Int)) :
    (play n D pen true (reset n coords).1 as).2 = objective D (play n D pen true (reset n coords).1 as).1 ∧
    (play n D pen false (reset n coords).1 as).2 = (play n D pen true (reset n coords).1 as).2 :=
  TSP.dense_eq_sparse n D pen hn coords as hal hc

-- the hypotheses are satisfiable: a complete legal episode on 3 cities
example : AllLegal 3 [[0, 1, 2], [1, 0, 1], [2, 1, 0]] (-5) true (reset 3 [[0, 0], [1, 0], [2, 0]]).1 [1, 0, 2] := by
  decide +kernel
example : (play 3 [[0, 1, 2], [1, 0, 1], [2, 1, 0]] (-5) true (reset 3 [[0, 0], [1, 0], [2, 0]]).1 [1, 0, 2]).2 = -4 := by
  decide +kernel

/-! #### every `n` (no `2 ≤ n`)

`WrapOK n D` := `n = 1 → dist D 0 (−1) = dist D 0 0`: for a single city the closing leg of `DenseReward` gathers
`coordinates[trajectory[0]]` with the stale `trajectory[0] = −1`; JAX wraps `−1` to city `n − 1 = 0`, so every
table with `n` columns (`tsp_wrapOK_of_rows`, in particular `DistOK n D`) satisfies it.  No condition for `n ≠ 1`. -/

theorem tsp_wrapOK_of_rows (n : Nat) (D : Dist) (h : ∀ row ∈ D, row.length = n) : WrapOK n D :=
  TSP.wrapOK_of_rows n D h
theorem tsp_wrapOK_of_distOK (n : Nat) (D : Dist) (h : DistOK n D) : WrapOK n D := TSP.wrapOK_of_distOK n D h

/-- exact behaviour of the single-city instance, ANY table `D`: the one legal move ends the episode and is
rewarded `−dist(city 0, city gathered by index −1)` (dense) resp. `−dist(city 0, city 0)` (sparse) -/
theorem tsp_n1_exact (D : Dist) (pen : Rat) (s : State) (a : Nat) (hf : Feasible 1 s) (hl : legal s a) :
    (step 1 D pen true s a).2.reward = [-(dist D 0 (-1))] ∧ (step 1 D pen false s a).2.reward = [-(dist D 0 0)] ∧
    (step 1 D pen true s a).2.stepType = .last ∧ (step 1 D pen true s a).1.numVisited = 1 :=
  ⟨(TSP.dense_n1_exact D pen s a hf hl).1, TSP.sparse_n1_exact D pen s a hf hl,
   (TSP.dense_n1_exact D pen s a hf hl).2.1, (TSP.dense_n1_exact D pen s a hf hl).2.2⟩

/-- `tsp_dense_telescopes` for every `n` -/
theorem tsp_dense_telescopes_all (n : Nat) (D : Dist) (pen : Rat) (s : State) (a : Nat) (hw : WrapOK n D)
    (hf : Feasible n s) (hl : legal s a) :
    (step n D pen true s a).2.reward = [travelled n D s - travelled n D (step n D pen true s a).1] :=
  TSP.dense_telescopes_all n D pen s a hw hf hl

/-- `tsp_dense_return` for every `n` -/
theorem tsp_dense_return_all (n : Nat) (D : Dist) (pen : Rat) (hw : WrapOK n D) (as : List Nat) (s : State)
    (hf : Feasible n s) (hal : AllLegal n D pen true s as) :
    (play n D pen true s as).2 = travelled n D s - travelled n D (play n D pen true s as).1 ∧
    Feasible n (play n D pen true s as).1 := TSP.dense_return_all n D pen hw as s hf hal

/-- `tsp_dense_eq_sparse` for every `n` (`n = 0`: only the empty episode; `n = 1`: the one-move episode) -/
theorem tsp_dense_eq_sparse_all (n : Nat) (D : Dist) (pen : Rat) (hw : WrapOK n D) (coords : List (List Rat))
    (as : List Nat) (hal : AllLegal n D pen true (reset n coords).1 as)
    (hc : (play n D pen true (reset n coords).1 as).1.numVisited = (n : Int)) :
    (play n D pen true (reset n coords).1 as).2 = objective D (play n D pen true (reset n coords).1 as).1 ∧
    (play n D pen false (reset n coords).1 as).2 = (play n D pen true (reset n coords).1 as).2 :=
  TSP.dense_eq_sparse_all n D pen hw coords as hal hc

/-- the hypothesis `WrapOK` cannot be dropped: on the malformed 1 × 2 table `[[0, 5]]` the single move is rewarded
`−5` while nothing is travelled (model-level: the code's table always has `n` columns) -/
theorem tsp_n1_needs_shape :
    Feasible 1 (reset 1 [[0, 0]]).1 ∧ legal (reset 1 [[0, 0]]).1 0 ∧
    (step 1 [[0, 5]] (-2) true (reset 1 [[0, 0]]).1 0).2.reward = [-5] ∧
    travelled 1 [[0, 5]] (reset 1 [[0, 0]]).1 -
      travelled 1 [[0, 5]] (step 1 [[0, 5]] (-2) true (reset 1 [[0, 0]]).1 0).1 = 0 := TSP.dense_n1_needs_shape

-- the hypotheses are satisfiable for n = 1: the complete one-move episode, return −D[0][0] = 0
example : WrapOK 1 [[0]] ∧ AllLegal 1 [[0]] (-2) true (reset 1 [[1/2, 1/2]]).1 [0] ∧
    (play 1 [[0]] (-2) true (reset 1 [[1/2, 1/2]]).1 [0]).1.numVisited = 1 := by decide +kernel
end Props.C08

namespace Props.C09
/-- refinement: on every feasible state with cities left and for every action of the action space, the
transliterated `step` (L1, with its gathers `coordinates[position]`, `trajectory[0]`, the stale-state
reads of `DenseReward` and `compute_tour_length`) equals the directly written rules `stepSpec` (L2):
successor state, reward, discount, step type and observation, for both reward functions -/
theorem tsp_step_eq_spec (n : Nat) (D : Dist) (pen : Rat) (dense : Bool) (s : State) (a : Nat) (hn : 2 ≤ n)
    (hf : Feasible n s) (hrun : s.numVisited < n) (ha : a < n) :
    step n D pen dense s (a : Int) = stepSpec n D pen dense s a :=
  TSP.step_eq_spec n D pen dense s a hn hf hrun ha

/-- the same for every `n` (for `n = 1` under `WrapOK`, see C08) -/
theorem tsp_step_eq_spec_all (n : Nat) (D : Dist) (pen : Rat) (dense : Bool) (s : State) (a : Nat)
    (hw : WrapOK n D) (hf : Feasible n s) (hrun : s.numVisited < n) (ha : a < n) :
    step n D pen dense s (a : Int) = stepSpec n D pen dense s a :=
  TSP.step_eq_spec_all n D pen dense s a hw hf hrun ha
end Props.C09

namespace Props.C10
/-- `UniformGenerator`, transliterated with its draw as parameter (`generate n u`, `u` = the array
`jax.random.uniform` returned): for EVERY `n` and EVERY valid draw (`n` rows of 2 numbers with `0 ≤ x < 1`) the
generated state satisfies the certificate `GenCert`: `n` rows of 2 coordinates in `[0, 1)`, nothing visited,
position −1, trajectory all −1, `num_visited` 0.  `tsp.instance` evaluates `GenCert` on the implementation's reset
states (key `generate_cert`). -/
theorem tsp_generate_cert (n : Nat) (u : List (List Rat)) (h : validUniform n u) : GenCert n (generate n u) :=
  TSP.generate_cert n u h

/-- `reset` returns the generated state unchanged -/
theorem tsp_reset_eq_generate (n : Nat) (u : List (List Rat)) : (reset n u).1 = generate n u := rfl

/-- certificate ⇒ advertised invariants: the state IS `generate n` of a valid draw; its coordinates lie in the
declared box; it is the documented fresh state (`InstanceOK`) and a feasible empty tour -/
theorem tsp_cert_sound (n : Nat) (s : State) (h : GenCert n s) :
    s = generate n s.coords ∧ validUniform n s.coords ∧ validDraw n s.coords ∧ InstanceOK n s ∧ Feasible n s :=
  ⟨TSP.cert_eq_generate n s h, TSP.cert_sound n s h⟩

example : validUniform 3 [[0, 0], [1/2, 0], [3/4, 999/1000]] := by decide +kernel
/-- the bound is strict: a coordinate equal to 1 is not a valid draw -/
example : ¬ validUniform 1 [[0, 1]] := by decide +kernel
end Props.C10

namespace Props.C11
/-- a step that does not end the episode visits one more city and leaves cities to visit; with
`0 ≤ num_visited ≤ n` (`Feasible`) an episode lasts at most `n` steps -/
theorem tsp_progress (n : Nat) (D : Dist) (pen : Rat) (dense : Bool) (s : State) (a : Int)
    (hnl : (step n D pen dense s a).2.stepType ≠ .last) :
    (step n D pen dense s a).1.numVisited = s.numVisited + 1 ∧
    (step n D pen dense s a).1.numVisited ≠ n := TSP.progress n D pen dense s a hnl

/-- whole episodes (audit: `tsp_progress` is a single step): from EVERY reset state (any `n ≥ 1`, any coordinates), EVERY
list of at least `n` actions of the action spec (`a < n`) — legal or not — contains a LAST timestep, and the first one has
(1-based) index ≤ `n`: no episode outlasts the structural horizon `num_cities`.  `Ep.rollout` iterates the L1 `step`,
`Ep.firstLastTS` is what harness/props/c11.py measures (Core/Episode.lean). -/
theorem tsp_ends_within_horizon (n : Nat) (hn : 0 < n) (D : Dist) (pen : Rat) (dense : Bool) (coords : List (List Rat))
    (as : List Nat) (hok : ∀ a ∈ as, a < n) (hlen : n ≤ as.length) :
    ∃ k, Ep.firstLastTS ((Ep.rollout (fun s (a : Nat) => step n D pen dense s (a : Int)) (reset n coords).1 as).map
      (·.2)) = some k ∧ 0 < k ∧ k ≤ n := TSP.ends_within_horizon n hn D pen dense coords as hok hlen

/-- the horizon is attained (a legal tour of 3 cities ends at step 3) and undercut by an illegal move (step 2) -/
example : Ep.firstLastTS ((Ep.rollout (fun s (a : Nat) => step 3 [[0, 1, 2], [1, 0, 1], [2, 1, 0]] (-5) true s (a : Int))
      (reset 3 [[0, 0], [1, 0], [2, 0]]).1 [1, 0, 2]).map (·.2)) = some 3 ∧
    Ep.firstLastTS ((Ep.rollout (fun s (a : Nat) => step 3 [[0, 1, 2], [1, 0, 1], [2, 1, 0]] (-5) true s (a : Int))
      (reset 3 [[0, 0], [1, 0], [2, 0]]).1 [1, 1, 2]).map (·.2)) = some 2 := by decide +kernel
end Props.C11

namespace Props.C12
/-- the observation returned by `step` is the documented view of the new state: coordinates, last visited
city (read off the route), trajectory, and as mask exactly the unvisited cities -/
theorem tsp_obs_faithful (n : Nat) (D : Dist) (pen : Rat) (dense : Bool) (s : State) (a : Nat)
    (hf : Feasible n s) (ha : a < n) :
    (step n D pen dense s a).2.obs = observe (step n D pen dense s a).1 :=
  TSP.obs_faithful n D pen dense s a hf ha

/-- the same for `reset` (position −1 = "no city yet", the known out-of-spec value) -/
theorem tsp_reset_obs_faithful (n : Nat) (coords : List (List Rat)) :
    (reset n coords).2.obs = observe (reset n coords).1 :=
  TSP.feasible_obs n _ (TSP.reset_feasible n coords)
end Props.C12
