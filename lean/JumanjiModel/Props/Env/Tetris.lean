/-
Property theorems for Tetris.  Only statements; the proofs live in Env/Tetris/*Lemmas.lean.
The action is (rotation, column); the piece drawn for the next step is the draw `d` (`validDraw d ↔ d < 7`).
`Consistent cfg s`: grid shaped with empty padding, no full line standing, piece index < 7 and the piece shown is
that piece, the cached mask is the table of legal moves, step count within the time limit.
-/
import JumanjiModel.Env.Tetris.Lemmas
import JumanjiModel.Env.Tetris.MaskLemmas
import JumanjiModel.Env.Tetris.DropLemmas
import JumanjiModel.Env.Tetris.ClearLemmas
import JumanjiModel.Env.Tetris.StepLemmas
import JumanjiModel.Env.Tetris.Bounds
import JumanjiModel.Env.Tetris.EpisodeLemmas
import JumanjiModel.Env.Tetris.SpecValid
open Jm Tetris

namespace Props.C04
/-- the mask bit the implementation computes (`tetromino_action_mask` on the clipped grid) equals legality under
the rules — the piece, coming from above in column `x`, reaches the position where its box is inside the grid
without touching anything and lies within the columns — for every grid, every piece and rotation -/
theorem tetris_mask_iff_legal (cfg : Cfg) (gp : G) (idx rot x : Nat)
    (hs : Jx.Grid.shaped gp (cfg.numRows + 3) (cfg.numCols + 3) = true)
    (hp : paddingEmpty cfg gp = true) (hR : 4 ≤ cfg.numRows) (hC : 4 ≤ cfg.numCols)
    (hi : idx < 7) (hr : rot < 4) (hx : x < cfg.numCols) :
    ((calcActionMask (clip1 gp) (idx : Int)).getD rot []).getD x false = legalB cfg gp idx rot x :=
  Tetris.mask_entry_eq_legal cfg gp idx rot x hs hp hR hC hi hr hx

/-- the mask cached in the successor state is the mask of the successor's grid and of the NEW piece (not stale) -/
theorem tetris_cached_mask (cfg : Cfg) (s : State) (rot x : Int) (d : Nat) :
    (step cfg s rot x d).1.actionMask =
      calcActionMask (clip1 (step cfg s rot x d).1.gridPadded) ((step cfg s rot x d).1.tetrominoIndex : Int) :=
  Tetris.cached_mask cfg s rot x d

/-- the environment's own validity test agrees with the rules in every consistent state -/
theorem tetris_step_agrees (cfg : Cfg) (s : State) (hc : Consistent cfg s) {rot x : Nat}
    (hr : rot < 4) (hx : x < cfg.numCols) : isValid s (rot : Int) (x : Int) = true ↔ legal cfg s rot x := by
  rw [Tetris.isValid_eq_legal cfg s hc.2.2.2.2.2.1 hr hx]; rfl

/-- a legal action is never treated as invalid: if the step is LAST, no move is left or the time is up -/
theorem tetris_legal_not_punished (cfg : Cfg) (s : State) (hc : Consistent cfg s) {rot x : Nat}
    (hr : rot < 4) (hx : x < cfg.numCols) (d : Nat) (h : legal cfg s rot x)
    (hl : (step cfg s (rot : Int) (x : Int) d).2.stepType = .last) :
    (step cfg s (rot : Int) (x : Int) d).1.actionMask.any (fun r => r.any id) = false ∨
      cfg.timeLimit ≤ (step cfg s (rot : Int) (x : Int) d).1.stepCount :=
  Tetris.legal_step cfg s hc.2.2.2.2.2.1 hr hx d h hl

example : legal ⟨4, 4, 10⟩ (reset ⟨4, 4, 10⟩ 0).1 1 0 ∧ ¬ legal ⟨4, 4, 10⟩ (reset ⟨4, 4, 10⟩ 0).1 1 1 := by decide

/-- (wave 3, audit) `tetris_step_agrees` speaks of `isValid`, the test inside `step`; this one is about what `step` RETURNS: in
a consistent state, for every action of the action space and every draw, the emitted timestep is LAST exactly when the rules
forbid the action, or no move is left for the next piece, or the time is up -/
theorem tetris_step_last_iff_rules (cfg : Cfg) (s : State) (hc : Consistent cfg s) {rot x : Nat} (hr : rot < 4)
    (hx : x < cfg.numCols) (d : Nat) :
    (step cfg s (rot : Int) (x : Int) d).2.stepType = .last ↔
      (¬ legal cfg s rot x ∨ (step cfg s (rot : Int) (x : Int) d).1.actionMask.any (fun r => r.any id) = false ∨
        cfg.timeLimit ≤ s.stepCount + 1) := Tetris.step_last_iff_rules cfg s hc hr hx d

/-- the same with the middle disjunct at the level of the RULES (audit r5 #4; `tetris_step_last_iff_rules` reads the CACHED
`action_mask` of the successor): on a board of at least 4 × 4, in a consistent state, for every action of the action space and every
valid draw of the next piece, the timestep is LAST exactly when the rules forbid the action, or NO placement (rotation, column) of the
next piece is legal on the successor board, or the time is up -/
theorem tetris_step_last_iff_rules' (cfg : Cfg) (s : State) (hc : Consistent cfg s) (hR : 4 ≤ cfg.numRows)
    (hC : 4 ≤ cfg.numCols) {rot x : Nat} (hr : rot < 4) (hx : x < cfg.numCols) (d : Nat) (hd : validDraw d) :
    (step cfg s (rot : Int) (x : Int) d).2.stepType = .last ↔
      (¬ legal cfg s rot x ∨
       (∀ rot' x', rot' < 4 → x' < cfg.numCols → ¬ legal cfg (step cfg s (rot : Int) (x : Int) d).1 rot' x') ∨
        cfg.timeLimit ≤ s.stepCount + 1) := Tetris.step_last_iff_rules' cfg s hc hR hC hr hx d hd

/-- … and after every LEGAL drop — LAST or not — the mask cached in the successor IS the legality table of the successor -/
theorem tetris_step_mask_is_legal (cfg : Cfg) (s : State) (hc : Consistent cfg s) (hR : 4 ≤ cfg.numRows)
    (hC : 4 ≤ cfg.numCols) (rot x d : Nat) (hr : rot < 4) (hx : x < cfg.numCols) (hd : validDraw d)
    (hl : legal cfg s rot x) :
    (step cfg s (rot : Int) (x : Int) d).1.actionMask = legalMask cfg (step cfg s (rot : Int) (x : Int) d).1 :=
  Tetris.step_mask_legalMask cfg s hc hR hC rot x d hr hx hd hl

/-- … hence, when a move is left afterwards and the time is not up, the environment treats the action as invalid (ends the
episode) exactly when it is illegal: legal ↔ the step did not treat it as invalid -/
theorem tetris_step_reaction (cfg : Cfg) (s : State) (hc : Consistent cfg s) {rot x : Nat} (hr : rot < 4)
    (hx : x < cfg.numCols) (d : Nat)
    (hmove : (step cfg s (rot : Int) (x : Int) d).1.actionMask.any (fun r => r.any id) = true)
    (htime : s.stepCount + 1 < cfg.timeLimit) :
    (step cfg s (rot : Int) (x : Int) d).2.stepType = .last ↔ ¬ legal cfg s rot x :=
  Tetris.step_treated_invalid_iff cfg s hc hr hx d hmove htime

-- both cases occur on the reset state of the 4 × 4 field (I piece): flat in column 0 is legal and the step is MID, flat in
-- column 1 is illegal and the step is LAST, although moves are left and the time is not up
example : Consistent ⟨4, 4, 10⟩ (reset ⟨4, 4, 10⟩ 0).1 ∧
    (step ⟨4, 4, 10⟩ (reset ⟨4, 4, 10⟩ 0).1 1 0 3).2.stepType = .mid ∧
    (step ⟨4, 4, 10⟩ (reset ⟨4, 4, 10⟩ 0).1 1 1 3).2.stepType = .last ∧
    (step ⟨4, 4, 10⟩ (reset ⟨4, 4, 10⟩ 0).1 1 1 3).1.actionMask.any (fun r => r.any id) = true := by decide +kernel
end Props.C04

namespace Props.C03
/-- `step` on ANY state with ANY action values and any draw returns a protocol-conform timestep: MID with discount 1 or LAST
with discount 0, scalar reward -/
theorem tetris_step_protocol_explicit (cfg : Cfg) (s : State) (rot x : Int) (d : Nat) :
    StepOK none false (step cfg s rot x d).2 = true ∧
    ((step cfg s rot x d).2.stepType = .last → (step cfg s rot x d).2.discount = [0]) := by
  refine ⟨Tetris.step_protocol cfg s rot x d, ?_⟩
  unfold step
  simp only [condLast]
  split <;> simp [termination, transition, zerosR, RShape.size]
end Props.C03

namespace Props.C05
/-- an illegal action ends the episode with reward 0 (the piece is still dropped: the documents promise no more) -/
theorem tetris_illegal_terminates (cfg : Cfg) (s : State) (hc : Consistent cfg s) {rot x : Nat}
    (hr : rot < 4) (hx : x < cfg.numCols) (d : Nat) (h : ¬ legal cfg s rot x) :
    (step cfg s (rot : Int) (x : Int) d).2.stepType = .last ∧ (step cfg s (rot : Int) (x : Int) d).2.reward = [0] :=
  Tetris.illegal_step cfg s hc.2.2.2.2.2.1 hr hx d h

/-- (wave 3) … with discount 0, and the score kept in the state does not change -/
theorem tetris_illegal_no_score (cfg : Cfg) (s : State) (hc : Consistent cfg s) {rot x : Nat}
    (hr : rot < 4) (hx : x < cfg.numCols) (d : Nat) (h : ¬ legal cfg s rot x) :
    (step cfg s (rot : Int) (x : Int) d).1.score = s.score ∧ (step cfg s (rot : Int) (x : Int) d).2.discount = [0] := by
  have hi := Tetris.illegal_step cfg s hc.2.2.2.2.2.1 hr hx d h
  refine ⟨?_, ?_⟩
  · rw [Tetris.step_score, hi.2]; simp [Rat.add_zero]
  · have := (Props.C03.tetris_step_protocol_explicit cfg s (rot : Int) (x : Int) d).2 hi.1
    exact this
end Props.C05

namespace Props.C07
/-- the reset state is consistent -/
theorem tetris_reset_consistent (cfg : Cfg) (hR : 4 ≤ cfg.numRows) (hC : 4 ≤ cfg.numCols) (d : Nat)
    (hd : validDraw d) : Consistent cfg (reset cfg d).1 := Tetris.reset_consistent cfg hR hC d hd

/-- every step from which the episode continues leads from a consistent state to a consistent state, whatever
in-spec action was played -/
theorem tetris_step_consistent (cfg : Cfg) (s : State) (hc : Consistent cfg s) (hR : 4 ≤ cfg.numRows)
    (hC : 4 ≤ cfg.numCols) (rot x d : Nat) (hr : rot < 4) (hx : x < cfg.numCols) (hd : validDraw d)
    (hn : (step cfg s (rot : Int) (x : Int) d).2.stepType ≠ .last) :
    Consistent cfg (step cfg s (rot : Int) (x : Int) d).1 :=
  Tetris.step_consistent cfg s hc hR hC rot x d hr hx hd hn

/-- conservation: a legal drop adds four cells and every cleared line removes `numCols` cells -/
theorem tetris_step_conserved (cfg : Cfg) (s : State) (hc : Consistent cfg s) (hR : 4 ≤ cfg.numRows)
    (hC : 4 ≤ cfg.numCols) (rot x d : Nat) (hr : rot < 4) (hx : x < cfg.numCols) (hd : validDraw d)
    (hl : legal cfg s rot x) :
    cells cfg (step cfg s (rot : Int) (x : Int) d).1.gridPadded +
        cfg.numCols * Jx.countTrue (step cfg s (rot : Int) (x : Int) d).1.fullLines =
      cells cfg s.gridPadded + 4 := Tetris.step_conserved cfg s hc hR hC rot x d hr hx hd hl

/-- at most four lines are cleared by one piece (so the reward table is never indexed out of range) -/
theorem tetris_cleared_le (cfg : Cfg) (s : State) (hc : Consistent cfg s) (rot x : Nat) :
    (dropSpec cfg s.gridPadded s.tetrominoIndex rot x).2 ≤ 4 := Tetris.step_cleared_le cfg s hc rot x

example : Consistent ⟨4, 4, 10⟩ (step ⟨4, 4, 10⟩ (reset ⟨4, 4, 10⟩ 0).1 0 0 3).1 := by decide +kernel

/-- (wave 3) WHOLE EPISODES: from `reset` (every size ≥ 4 × 4, every first piece), for ALL in-spec (rotation, column) actions
— legal or not — and ALL next-piece draws, EVERY non-terminal state of the episode (`liveStates` = the successor of every step
whose timestep is not LAST, up to the first LAST) is consistent -/
theorem tetris_consistent_along (cfg : Cfg) (hR : 4 ≤ cfg.numRows) (hC : 4 ≤ cfg.numCols) (d0 : Nat) (hd0 : validDraw d0)
    (as : List (Nat × Nat × Nat)) (hin : InSpec cfg as) :
    Consistent cfg (reset cfg d0).1 ∧ ∀ s' ∈ liveStates cfg (reset cfg d0).1 as, Consistent cfg s' :=
  ⟨Tetris.reset_consistent cfg hR hC d0 hd0,
   Tetris.consistent_along cfg hR hC _ (Tetris.reset_consistent cfg hR hC d0 hd0) as hin⟩

/-- the same from any consistent state -/
theorem tetris_consistent_along_from (cfg : Cfg) (hR : 4 ≤ cfg.numRows) (hC : 4 ≤ cfg.numCols) (s : State)
    (hc : Consistent cfg s) (as : List (Nat × Nat × Nat)) (hin : InSpec cfg as) :
    ∀ s' ∈ liveStates cfg s as, Consistent cfg s' := Tetris.consistent_along cfg hR hC s hc as hin

example : (liveStates ⟨4, 4, 30⟩ (reset ⟨4, 4, 30⟩ 0).1 [(1, 0, 0), (1, 0, 0), (1, 1, 2), (0, 0, 0)]).length = 2 := by
  decide +kernel
end Props.C07

namespace Props.C09
/-- the drop: for a legal action `place_tetromino` paints the piece at the row where free fall from the top
stops (including the wrap-around of `y = -1` for a flat I piece that reaches the floor) … -/
theorem tetris_place_row (cfg : Cfg) (gp : G) (idx rot x : Nat)
    (hs : Jx.Grid.shaped gp (cfg.numRows + 3) (cfg.numCols + 3) = true) (hp : paddingEmpty cfg gp = true)
    (hR : 4 ≤ cfg.numRows) (hC : 4 ≤ cfg.numCols) (hi : idx < 7) (hr : rot < 4) (hx : x < cfg.numCols)
    (hl : legalB cfg gp idx rot x = true) :
    dsStart (cfg.numRows + 3) 4 (placeTetromino gp (pieceAt idx rot) (x : Int)).2 = dropY cfg gp (pieceAt idx rot) x :=
  Tetris.place_row cfg gp idx rot x hs hp hR hC hi hr hx hl

/-- … and the visible field afterwards is the old field with the cells of the piece at that row recoloured -/
theorem tetris_place_eq_drop (cfg : Cfg) (gp : G) (idx rot x : Nat)
    (hs : Jx.Grid.shaped gp (cfg.numRows + 3) (cfg.numCols + 3) = true) (hp : paddingEmpty cfg gp = true)
    (hR : 4 ≤ cfg.numRows) (hC : 4 ≤ cfg.numCols) (hi : idx < 7) (hr : rot < 4) (hx : x < cfg.numCols)
    (hl : legalB cfg gp idx rot x = true) :
    field cfg (placeTetromino gp (pieceAt idx rot) (x : Int)).1 =
      landed (field cfg gp) (pieceAt idx rot) (gridMax gp + 1) (dropY cfg gp (pieceAt idx rot) x) x :=
  Tetris.place_field cfg gp idx rot x hs hp hR hC hi hr hx hl

/-- line clearing: `clean_lines` (stable argsort + zeroing) = the full rows become empty rows on top, the other
rows keep their order below them … -/
theorem tetris_clean_lines_eq (numCols : Nat) (g : G) :
    cleanLines g (fullLinesOf numCols g) =
      List.map (fun r => List.map (fun _ => 0) r) (g.filter (fun r => (r.take numCols).all (fun v => v != 0))) ++
        g.filter (fun r => !((r.take numCols).all (fun v => v != 0))) := Tetris.cleanLines_fullLines numCols g

/-- … which on the visible field is: remove the full lines, shift the rest down, empty lines enter at the top -/
theorem tetris_field_clean_lines (cfg : Cfg) (g : G)
    (hs : Jx.Grid.shaped g (cfg.numRows + 3) (cfg.numCols + 3) = true) (hp : paddingEmpty cfg g = true)
    (hc : 0 < cfg.numCols) :
    field cfg (cleanLines g (fullLinesOf cfg.numCols g)) = clearLines (field cfg g) :=
  Tetris.field_cleanLines cfg g hs hp hc

/-- the whole step of a legal action in a consistent state follows the rules: new field = drop, land, clear;
the number of lines flagged full = number of lines cleared; the reward is the table entry of that number -/
theorem tetris_step_eq_spec (cfg : Cfg) (s : State) (hc : Consistent cfg s) (hR : 4 ≤ cfg.numRows)
    (hC : 4 ≤ cfg.numCols) (rot x d : Nat) (hr : rot < 4) (hx : x < cfg.numCols) (hd : validDraw d)
    (hl : legal cfg s rot x) :
    field cfg (step cfg s (rot : Int) (x : Int) d).1.gridPadded = (dropSpec cfg s.gridPadded s.tetrominoIndex rot x).1 ∧
    Jx.countTrue (step cfg s (rot : Int) (x : Int) d).1.fullLines = (dropSpec cfg s.gridPadded s.tetrominoIndex rot x).2 ∧
    (step cfg s (rot : Int) (x : Int) d).2.reward =
      [rewardList.getD (dropSpec cfg s.gridPadded s.tetrominoIndex rot x).2 0] :=
  Tetris.step_eq_spec cfg s hc hR hC rot x d hr hx hd hl
/-- the reward of a legal step is the documented function `REWARD_LIST[k]` of the number `k` of lines the piece clears
(computed by the rules: land the piece, count the full lines), `k` is at most 4 and equals the number of lines the
implementation flags as full -/
theorem tetris_step_reward_eq_lines (cfg : Cfg) (s : State) (hc : Consistent cfg s) (hR : 4 ≤ cfg.numRows)
    (hC : 4 ≤ cfg.numCols) (rot x d : Nat) (hr : rot < 4) (hx : x < cfg.numCols) (hd : validDraw d)
    (hl : legal cfg s rot x) :
    (step cfg s (rot : Int) (x : Int) d).2.reward =
      [lineReward (dropSpec cfg s.gridPadded s.tetrominoIndex rot x).2] ∧
    (dropSpec cfg s.gridPadded s.tetrominoIndex rot x).2 ≤ 4 ∧
    Jx.countTrue (step cfg s (rot : Int) (x : Int) d).1.fullLines =
      (dropSpec cfg s.gridPadded s.tetrominoIndex rot x).2 :=
  Tetris.step_reward_eq_lines cfg s hc hR hC rot x d hr hx hd hl

/-- the documented function: 0, 40, 100, 300, 1200 for 0..4 lines, with increasing increments ("convex") -/
theorem tetris_lineReward_table : lineReward 0 = 0 ∧ lineReward 1 = 40 ∧ lineReward 2 = 100 ∧ lineReward 3 = 300 ∧
    lineReward 4 = 1200 ∧
    ∀ k, k < 3 → lineReward (k + 1) - lineReward k ≤ lineReward (k + 2) - lineReward (k + 1) :=
  ⟨Tetris.lineReward_values.1, Tetris.lineReward_values.2.1, Tetris.lineReward_values.2.2.1,
    Tetris.lineReward_values.2.2.2.1, Tetris.lineReward_values.2.2.2.2, Tetris.lineReward_convex⟩

/-- WHOLE EPISODE from any consistent state, for ALL in-spec (rotation, column) actions and ALL next-piece draws,
played with the L1 `step` until the first LAST time step (`play`; the episode may end because no move is left, the
time is up, or an illegal action was chosen): the return is the sum over the placed pieces of the documented function
of the number of lines each cleared (an illegal terminal action pays nothing), and the score is the running sum -/
theorem tetris_episode_return (cfg : Cfg) (hR : 4 ≤ cfg.numRows) (hC : 4 ≤ cfg.numCols) (s : State)
    (hc : Consistent cfg s) (as : List (Nat × Nat × Nat)) (hin : InSpec cfg as) :
    (play cfg s as).ret = ((play cfg s as).lines.map lineReward).sum ∧
    (∀ k ∈ (play cfg s as).lines, k ≤ 4) ∧
    (play cfg s as).final.score = s.score + (play cfg s as).ret :=
  ⟨(Tetris.play_accounting cfg hR hC s hc as hin).1, (Tetris.play_accounting cfg hR hC s hc as hin).2.1,
    (Tetris.play_accounting cfg hR hC s hc as hin).2.2.1⟩

/-- WHOLE EPISODE cell accounting (`final` = the state after the last legal step):
filled cells at the end + numCols × lines cleared = filled cells at the start + 4 × pieces placed -/
theorem tetris_cells_accounting (cfg : Cfg) (hR : 4 ≤ cfg.numRows) (hC : 4 ≤ cfg.numCols) (s : State)
    (hc : Consistent cfg s) (as : List (Nat × Nat × Nat)) (hin : InSpec cfg as) :
    cells cfg (play cfg s as).final.gridPadded + cfg.numCols * (play cfg s as).lines.sum =
      cells cfg s.gridPadded + 4 * (play cfg s as).lines.length :=
  (Tetris.play_accounting cfg hR hC s hc as hin).2.2.2

/-- … from `reset` (any first piece): filled cells at the end = 4 × pieces placed − numCols × lines cleared, and the
final score is the return -/
theorem tetris_cells_accounting_from_reset (cfg : Cfg) (hR : 4 ≤ cfg.numRows) (hC : 4 ≤ cfg.numCols) (d0 : Nat)
    (hd0 : validDraw d0) (as : List (Nat × Nat × Nat)) (hin : InSpec cfg as) :
    cells cfg (play cfg (reset cfg d0).1 as).final.gridPadded + cfg.numCols * (play cfg (reset cfg d0).1 as).lines.sum =
      4 * (play cfg (reset cfg d0).1 as).lines.length ∧
    (play cfg (reset cfg d0).1 as).final.score = (play cfg (reset cfg d0).1 as).ret ∧
    (play cfg (reset cfg d0).1 as).ret = ((play cfg (reset cfg d0).1 as).lines.map lineReward).sum := by
  have h := Tetris.play_accounting cfg hR hC _ (Tetris.reset_consistent cfg hR hC d0 hd0) as hin
  refine ⟨?_, ?_, h.1⟩
  · have e : cells cfg (reset cfg d0).1.gridPadded = 0 := Tetris.cells_empty cfg
    rw [h.2.2.2, e, Nat.zero_add]
  · rw [h.2.2.1]
    show (0 : Rat) + _ = _
    exact Rat.zero_add _

-- 4×4 field: four flat I pieces (rotation 1, column 0) fill and clear a line each: return 4·40, the field ends empty;
-- a fifth action in column 1 is illegal for the flat I piece: the play ends there and pays nothing more
example :
    let as : List (Nat × Nat × Nat) := [(1, 0, 0), (1, 0, 0), (1, 0, 3), (0, 0, 0), (1, 1, 2)]
    InSpec ⟨4, 4, 30⟩ as ∧ (play ⟨4, 4, 30⟩ (reset ⟨4, 4, 30⟩ 0).1 as).lines = [1, 1, 1, 0] ∧
    (play ⟨4, 4, 30⟩ (reset ⟨4, 4, 30⟩ 0).1 as).ret = 120 ∧
    (play ⟨4, 4, 30⟩ (reset ⟨4, 4, 30⟩ 0).1 as).ending = .illegal ∧
    cells ⟨4, 4, 30⟩ (play ⟨4, 4, 30⟩ (reset ⟨4, 4, 30⟩ 0).1 as).final.gridPadded = 4 := by
  refine ⟨?_, ?_⟩
  · intro a ha
    simp only [List.mem_cons, List.not_mem_nil, or_false] at ha
    rcases ha with rfl | rfl | rfl | rfl | rfl <;> decide
  · decide +kernel
end Props.C09

namespace Props.C10
/-- the reset state for EVERY grid size ≥ 4 × 4 and EVERY drawn piece index (`jax.random.randint(key, (), 0, 7)`):
the padded grid is empty and of the configured size, the piece index is below 7, the stored `new_tetromino` (and
`old_tetromino_rotated`) is rotation 0 of the table entry, the action mask equals the L2 legality of the reset state
and is not empty, score / reward / step count are 0 — and the state is a consistent start state.
`tetris.instance` evaluates `InstanceOK` and replays `reset` on every real reset state. -/
theorem tetris_reset_cert (cfg : Cfg) (hR : 4 ≤ cfg.numRows) (hC : 4 ≤ cfg.numCols) (d : Nat) (hd : validDraw d) :
    (reset cfg d).1.gridPadded = Jx.Grid.mk (cfg.numRows + 3) (cfg.numCols + 3) 0 ∧
    (reset cfg d).1.tetrominoIndex = d ∧ (reset cfg d).1.tetrominoIndex < 7 ∧
    (reset cfg d).1.newTetromino = pieceAt d 0 ∧ (reset cfg d).2.obs.tetromino = pieceAt d 0 ∧
    (reset cfg d).1.actionMask = legalMask cfg (reset cfg d).1 ∧
    (reset cfg d).2.obs.actionMask = legalMask cfg (reset cfg d).1 ∧
    (reset cfg d).1.actionMask.any (fun r => r.any id) = true ∧
    legal cfg (reset cfg d).1 0 0 ∧
    (reset cfg d).1.score = 0 ∧ (reset cfg d).1.stepCount = 0 ∧
    InstanceOK cfg (reset cfg d).1 ∧ Consistent cfg (reset cfg d).1 := by
  have h := Tetris.reset_instanceOK cfg hR hC d hd
  refine ⟨rfl, rfl, hd, h.2.2.2.1, h.2.2.2.1, h.2.2.2.2.2.1, h.2.2.2.2.2.1, h.2.2.2.2.2.2.1, ?_, rfl, rfl, h,
    Tetris.reset_consistent cfg hR hC d hd⟩
  exact Tetris.legal_on_empty cfg hR hC d

/-- the certificate evaluated on real reset states is exactly the range of the transliterated `reset`, and gives a
consistent start state -/
theorem tetris_instance_cert (cfg : Cfg) (hR : 4 ≤ cfg.numRows) (hC : 4 ≤ cfg.numCols) (s : State) :
    InstanceOK cfg s ↔ ∃ d, validDraw d ∧ (reset cfg d).1 = s :=
  ⟨fun h => ⟨s.tetrominoIndex, h.2.2.1, Tetris.instance_is_reset cfg hR hC s h⟩,
   fun ⟨d, hd, e⟩ => e ▸ Tetris.reset_instanceOK cfg hR hC d hd⟩

theorem tetris_instance_consistent (cfg : Cfg) (hR : 4 ≤ cfg.numRows) (hC : 4 ≤ cfg.numCols) (s : State)
    (h : InstanceOK cfg s) : Consistent cfg s := Tetris.instance_consistent cfg hR hC s h

example : InstanceOK ⟨4, 5, 10⟩ (reset ⟨4, 5, 10⟩ 6).1 ∧
    (reset ⟨4, 5, 10⟩ 6).1.actionMask = [[true, true, true, true, false], [true, true, true, false, false],
      [true, true, true, true, false], [true, true, true, false, false]] := by decide +kernel
end Props.C10

namespace Props.C11
/-- the step counter grows by one per step and a step is LAST exactly when the action was masked out, no action
is left, or the counter has reached the time limit (so an episode ends at step `time_limit` at the latest, and
exactly there when nothing else ends it) -/
theorem tetris_last_iff (cfg : Cfg) (s : State) (rot x : Int) (d : Nat) :
    (step cfg s rot x d).2.stepType = .last ↔
      (isValid s rot x = false ∨ (step cfg s rot x d).1.actionMask.any (fun r => r.any id) = false ∨
        cfg.timeLimit ≤ (step cfg s rot x d).1.stepCount) := Tetris.last_iff cfg s rot x d

theorem tetris_step_count (cfg : Cfg) (s : State) (rot x : Int) (d : Nat) :
    (step cfg s rot x d).1.stepCount = s.stepCount + 1 := Tetris.step_count cfg s rot x d
end Props.C11

namespace Props.C12
/-- the observation shows the occupied cells of the field of the successor state as 0/1, the piece that the
next step will drop, the cached mask and the current step count -/
theorem tetris_obs_faithful (cfg : Cfg) (s : State) (rot x : Int) (d : Nat) (hd : validDraw d) :
    (step cfg s rot x d).2.obs = observe cfg (step cfg s rot x d).1 := Tetris.obs_faithful cfg s rot x d hd

theorem tetris_reset_obs_faithful (cfg : Cfg) (d : Nat) (hd : validDraw d) :
    (reset cfg d).2.obs = observe cfg (reset cfg d).1 := Tetris.reset_obs_faithful cfg d hd

/-- (wave 3) `observe` copies the CACHED mask; on every non-terminal state of play it is the table of legal moves of the
state the agent is in (for the piece the agent has to place), so the agent is not shown a stale mask: `reset` and every
non-LAST step from a consistent state -/
theorem tetris_obs_mask_is_legal (cfg : Cfg) (hR : 4 ≤ cfg.numRows) (hC : 4 ≤ cfg.numCols) (s : State)
    (hc : Consistent cfg s) (rot x d : Nat) (hr : rot < 4) (hx : x < cfg.numCols) (hd : validDraw d)
    (hn : (step cfg s (rot : Int) (x : Int) d).2.stepType ≠ .last) :
    (step cfg s (rot : Int) (x : Int) d).2.obs.actionMask = legalMask cfg (step cfg s (rot : Int) (x : Int) d).1 ∧
    (step cfg s (rot : Int) (x : Int) d).2.obs.tetromino = pieceAt d 0 ∧
    (step cfg s (rot : Int) (x : Int) d).2.obs.stepCount = s.stepCount + 1 := by
  have hc' := Tetris.step_consistent cfg s hc hR hC rot x d hr hx hd hn
  rw [Tetris.obs_faithful cfg s _ _ d hd]
  refine ⟨hc'.2.2.2.2.2.1, ?_, ?_⟩
  · show pieceAt (step cfg s (rot : Int) (x : Int) d).1.tetrominoIndex 0 = _
    rw [Tetris.step_index]
  · show (step cfg s (rot : Int) (x : Int) d).1.stepCount = _
    rw [Tetris.step_count]
end Props.C12

namespace Props.C01
open PzB
/-- the observation returned by `reset` (any sizes, any first piece index — the gather clamps): every leaf listed in
`obsBounds cfg` is present and all its values lie in the listed interval: `grid`, `tetromino` ∈ [0,1],
`action_mask` ∈ [0,1], `step_count` ∈ [0, time_limit].  No hypothesis. -/
theorem tetris_reset_obs_in_bounds (cfg : Cfg) (d : Nat) :
    ObsInBounds (obsBounds cfg) (obsLeaves (reset cfg d).2.obs) := Tetris.reset_obs_in_bounds cfg d

/-- the same for `step`, for every state, action (any integers) and draw, including the terminal step.  Only hypothesis:
the episode has not ended by the time limit before this step (`step_count < time_limit`, which `Consistent` and
"not LAST yet" give); then the emitted `step_count = s.step_count + 1 ≤ time_limit`. -/
theorem tetris_step_obs_in_bounds (cfg : Cfg) (s : State) (rot x : Int) (d : Nat)
    (hlim : s.stepCount < cfg.timeLimit) :
    ObsInBounds (obsBounds cfg) (obsLeaves (step cfg s rot x d).2.obs) :=
  Tetris.step_obs_in_bounds cfg s rot x d hlim

/-! NOTE on what the membership theorems of this section do and do not cover (audits r4 #6, r5 #6, r6 #8): the dtype tag of every leaf
is written by `toNValue` (by construction) — a wrong dtype in the real code cannot falsify `….valid (toNValue …) = true`; dtypes and
field order of the real observations are compared by the `tetris.state` op (`nvalue`: field order, shape, dtype, data; harness/spec_wave3.py,
wave3_routing.py) and `jax.eval_shape` in the sweeps.  Shapes are READ OFF the value by `toNValue` (widths off the first row): see
`…_obs_valid_only`. -/

/-! #### (wave 3) membership in the DECLARED specs: structure, shapes, dtypes and bounds -/
open Sp PzS PkS

/-- the model's `obsSpec` / `actionSpec` / reward and discount specs ARE the specs generated from the real spec objects
(Gen/Specs.lean) for the catalogue configuration `Tetris(num_rows=6, num_cols=5, time_limit=9)`
SPEC-ONLY second configuration `Tetris(num_rows=7, num_cols=5, time_limit=11)` -/
theorem tetris_obsSpec_generated :
    prefixed "observation_spec." (obsSpec ⟨6, 5, 9⟩) = declared "tetris-6x5" "observation_spec." ∧
    [("action_spec", actionSpec ⟨6, 5, 9⟩)] = declared "tetris-6x5" "action_spec" ∧
    [("reward_spec", rewardSpec)] = declared "tetris-6x5" "reward_spec" ∧
    [("discount_spec", discountSpec)] = declared "tetris-6x5" "discount_spec" ∧
    prefixed "observation_spec." (obsSpec ⟨7, 5, 11⟩) = declared "spec-only-tetris-7x5" "observation_spec." ∧
    [("action_spec", actionSpec ⟨7, 5, 11⟩)] = declared "spec-only-tetris-7x5" "action_spec" ∧
    [("reward_spec", rewardSpec)] = declared "spec-only-tetris-7x5" "reward_spec" ∧
    [("discount_spec", discountSpec)] = declared "spec-only-tetris-7x5" "discount_spec" := by
  refine ⟨by decide +kernel, by decide +kernel, by decide +kernel, by decide +kernel, by decide +kernel, by decide +kernel,
    by decide +kernel, by decide +kernel⟩

/-- the `reset` observation (ALL sizes with at least one row and three columns — the constructor demands 4 × 4 —, every valid
first piece) is accepted by `observation_spec.validate`: fields `grid`, `tetromino`, `action_mask`, `step_count`; shapes
`(R, C)`, `(4, 4)`, `(4, C)`, `()`; dtypes int32, int32, bool, int32; bounds [0, 1], [0, 1], [0, 1], {0 … T} -/
theorem tetris_reset_obs_valid (cfg : Cfg) (hR : 0 < cfg.numRows) (hC : 3 ≤ cfg.numCols) (d : Nat) (hd : validDraw d) :
    (obsSpec cfg).valid (toNValue (reset cfg d).2.obs) = true := Tetris.reset_obs_valid cfg hR hC d hd

/-- the same for the observation of EVERY `step` — any integers as action (in the action space or not, legal or not), every
valid draw, MID or LAST — from every state whose padded grid has its shape and whose counter has not reached the limit -/
theorem tetris_step_obs_valid (cfg : Cfg) (hR : 0 < cfg.numRows) (hC : 3 ≤ cfg.numCols) (s : State)
    (hs : GridShaped cfg s) (hlim : s.stepCount < cfg.timeLimit) (rot x : Int) (d : Nat) (hd : validDraw d) :
    (obsSpec cfg).valid (toNValue (step cfg s rot x d).2.obs) = true :=
  Tetris.step_obs_valid cfg hR hC s hs hlim rot x d hd

/-- the hypothesis `GridShaped` holds after `reset` and is preserved by EVERY step (also an illegal or terminal one, which
may paint into the padding) -/
theorem tetris_gridShaped_invariant (cfg : Cfg) :
    (∀ d, GridShaped cfg (reset cfg d).1) ∧
    (∀ (s : State) (rot x : Int) (d : Nat), GridShaped cfg s → GridShaped cfg (step cfg s rot x d).1) :=
  ⟨Tetris.reset_gridShaped cfg, fun s rot x d h => Tetris.step_gridShaped cfg s h rot x d⟩

/-- WHOLE EPISODES: along the rollout (`Ep.rollout` = the L1 step iterated) of ANY actions and valid draws from `reset`,
every observation emitted by one of the first `time_limit` steps is a member of the spec; the first LAST timestep is among
them (`tetris_rollout_ends_by_limit`: it comes at a step `k ≤ time_limit`), so this covers every observation of every episode
up to and including the terminal one -/
theorem tetris_rollout_obs_valid (cfg : Cfg) (hR : 0 < cfg.numRows) (hC : 3 ≤ cfg.numCols) (d0 : Nat)
    (as : List (Int × Int × Nat)) (has : ∀ a ∈ as, validDraw a.2.2) (j : Nat) (hj : j < cfg.timeLimit)
    (e : State × TimeStep Obs)
    (he : (Ep.rollout (fun s (a : Int × Int × Nat) => step cfg s a.1 a.2.1 a.2.2) (reset cfg d0).1 as)[j]? = some e) :
    (obsSpec cfg).valid (toNValue e.2.obs) = true := Tetris.rollout_obs_valid cfg hR hC d0 as has j hj e he

/-- what membership means (so the theorems above are not hollow): `validate` accepts an observation ONLY IF grid, piece and
mask have the declared shapes, all cells are 0/1 and the counter is at most the time limit  CAVEAT (audits r4 #7, r5 #5, r6 #5): for every field that is a nested list, `toNValue` reads the widths off the FIRST row of the
nested list, so the shape conjuncts here mean "row count, length of the first row, total number of cells" — a ragged value with the right total can be a
member, and nothing is concluded about the later rows.  Rectangularity is part of the invariant (`SpecInv` / `Shaped` / `Rect…`) under which the
forward theorems (`…_reset_obs_valid`, `…_step_obs_valid`, `…_along`) are proved, i.e. it holds of every EMITTED observation. -/
theorem tetris_obs_valid_only (cfg : Cfg) (o : Obs) (h : (obsSpec cfg).valid (toNValue o) = true) :
    shape2 o.grid = [cfg.numRows, cfg.numCols] ∧ (∀ v ∈ o.grid.flatten, v ≤ 1) ∧
    shape2 o.tetromino = [4, 4] ∧ (∀ v ∈ o.tetromino.flatten, v ≤ 1) ∧
    shape2 o.actionMask = [4, cfg.numCols] ∧ o.stepCount ≤ cfg.timeLimit := Tetris.obs_valid_only cfg o h

example : (obsSpec ⟨4, 4, 10⟩).valid (toNValue (reset ⟨4, 4, 10⟩ 0).2.obs) = true ∧
    (obsSpec ⟨4, 4, 10⟩).valid (toNValue { (reset ⟨4, 4, 10⟩ 0).2.obs with stepCount := 11 }) = false ∧
    (obsSpec ⟨4, 5, 10⟩).valid (toNValue (reset ⟨4, 4, 10⟩ 0).2.obs) = false := by decide +kernel

/-- reward and discount of every `step` (ALL states, ALL action values, all draws) and of `reset` are accepted by
`reward_spec` (Array((), float)) and `discount_spec` (BoundedArray((), float, 0, 1)) -/
theorem tetris_reward_discount_valid (cfg : Cfg) (s : State) (rot x : Int) (d d0 : Nat) :
    rewardSpec.valid (scalarArr (step cfg s rot x d).2.reward) = true ∧
    discountSpec.valid (scalarArr (step cfg s rot x d).2.discount) = true ∧
    rewardSpec.valid (scalarArr (reset cfg d0).2.reward) = true ∧
    discountSpec.valid (scalarArr (reset cfg d0).2.discount) = true :=
  ⟨(Tetris.step_reward_discount_valid cfg s rot x d).1, (Tetris.step_reward_discount_valid cfg s rot x d).2,
   (Tetris.reset_reward_discount_valid cfg d0).1, (Tetris.reset_reward_discount_valid cfg d0).2⟩

/-- `action_spec.generate_value()` = (0, 0): the action spec is well-formed, the generated value is a member, and `step`
answers it in every state with a protocol-conform timestep; membership in `action_spec` is "rotation < 4, column < num_cols" -/
theorem tetris_accepts_generate_value (cfg : Cfg) (hC : 0 < cfg.numCols) (hbig : cfg.numCols ≤ 2147483648) (s : State)
    (d : Nat) :
    (actionSpec cfg).WF = true ∧ (actionSpec cfg).valid (actionSpec cfg).generate = true ∧
    (actionSpec cfg).generate = actionArr 0 0 ∧ StepOK none false (step cfg s 0 0 d).2 = true :=
  Tetris.accepts_generate_value cfg hC hbig s d

theorem tetris_action_spec_iff (cfg : Cfg) (rot x : Nat) :
    (actionSpec cfg).valid (actionArr (rot : Int) (x : Int)) = true ↔ rot < 4 ∧ x < cfg.numCols :=
  Tetris.actionSpec_valid_iff cfg rot x
end Props.C01
