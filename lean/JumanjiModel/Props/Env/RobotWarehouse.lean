/-
Property theorems for RobotWarehouse (R model: the resampled request ids are a draw `d`; every
theorem holds for ALL draws).  Proofs in Env/RobotWarehouse/{Lemmas,PictureLemmas,MaskLemmas,StepLemmas,
QueueLemmas,ConsistentLemmas,NoopLemmas,ObsLemmas}.lean.
-/
import JumanjiModel.Env.RobotWarehouse.Lemmas
import JumanjiModel.Env.RobotWarehouse.Bounds
import JumanjiModel.Env.RobotWarehouse.MaskLemmas
import JumanjiModel.Env.RobotWarehouse.NoopLemmas
import JumanjiModel.Env.RobotWarehouse.ConsistentLemmas
import JumanjiModel.Env.RobotWarehouse.ObsLemmas
open Jm RobotWarehouse

namespace Props.C04
/-- the environment's own reaction: an action whose (cached) mask bit is off is replaced by the
no-op, every other action is played as given — per agent -/
theorem rware_step_agrees (row : List Bool) (rows : List (List Bool)) (a : Int) (as : List Int) :
    validActions (row :: rows) (a :: as) =
      (if Jx.getWC row false a then a else 0) :: validActions rows as :=
  RobotWarehouse.validActions_cons row rows a as

/-- a 1×3 floor: the agent (facing right, carrying shelf 1, on a non-highway cell) has shelf 2 in front -/
def rwareWit : State :=
  { shelfGrid := [[1, 2, 0]], agentGrid := [[1, 0, 0]], agents := [⟨0, 0, 1, true⟩],
    shelves := [⟨0, 0, 1⟩, ⟨0, 1, 0⟩], queue := [0], stepCount := 0,
    mask := [[true, false, true, true, true]] }
def rwareWitCfg : Cfg := { timeLimit := 10, sensorRange := 1, highways := [[false, false, true]], goals := [] }

/-- on the witness the L1 mask, the cached mask and the rules agree: only FORWARD is illegal -/
example : computeMask rwareWit.shelfGrid rwareWit.agents = rwareWit.mask ∧ legalMask rwareWit = rwareWit.mask ∧ ¬ legal rwareWit 0 1 := by decide
example : Consistent rwareWitCfg rwareWit := by decide

/-- C04 (full strength, all states / sizes / agents): under `Consistent`, for every agent and every action
the L1 `compute_action_mask` bit equals L2 `legal` read from the entity tables -/
theorem rware_mask_iff_legal (cfg : Cfg) (s : State) (hc : Consistent cfg s) (i a : Nat)
    (hi : i < s.agents.length) (ha : a < 5) :
    ((computeMask s.shelfGrid s.agents).getD i []).getD a false = true ↔ legal s i a :=
  RobotWarehouse.mask_iff_legal hc hi ha

/-- the same as one equation between the two `(num_agents, 5)` tables -/
theorem rware_mask_eq_legalMask (cfg : Cfg) (s : State) (hc : Consistent cfg s) :
    computeMask s.shelfGrid s.agents = legalMask s := RobotWarehouse.mask_eq_legalMask hc

/-- … and hence for the cached `action_mask` carried in the state (and copied into the observation) -/
theorem rware_cached_mask_iff_legal (cfg : Cfg) (s : State) (hc : Consistent cfg s) (i a : Nat)
    (hi : i < s.agents.length) (ha : a < 5) :
    ((s.mask).getD i []).getD a false = true ↔ legal s i a := by
  rw [((consistent_iff_good cfg s).1 hc).mask]
  exact RobotWarehouse.mask_iff_legal hc hi ha

/-- a 2×3 floor with two agents: agent 0 carries the requested shelf 0 and has the goal cell in front -/
def rwareWit2 : State :=
  { shelfGrid := [[1, 0, 0], [0, 0, 2]], agentGrid := [[1, 0, 0], [2, 0, 0]],
    agents := [⟨0, 0, 1, true⟩, ⟨1, 0, 0, false⟩], shelves := [⟨0, 0, 1⟩, ⟨1, 2, 0⟩], queue := [0],
    stepCount := 0, mask := [[true, true, true, true, true], [true, true, true, true, true]] }
def rwareWit2Cfg : Cfg :=
  { timeLimit := 10, sensorRange := 1, highways := [[false, true, false], [true, true, false]], goals := [(1, 0)] }
example : Consistent rwareWit2Cfg rwareWit2 := by decide
end Props.C04

namespace Props.C05
/-- a masked-out action (= no-op) never moves or turns the agent and never touches the floor
channels or the shelf table; its only possible effect is to clear the agent's `is_carrying` -/
theorem rware_illegal_is_noop_partial (hw : List (List Bool)) (w : World) (i : Nat) :
    (updateAgent hw w 0 i).shelfGrid = w.shelfGrid ∧ (updateAgent hw w 0 i).agentGrid = w.agentGrid ∧
    (updateAgent hw w 0 i).shelves = w.shelves ∧
    ((updateAgent hw w 0 i).agents = w.agents ∨
     (updateAgent hw w 0 i).agents =
       Jx.setWD w.agents (i : Int) { Jx.getWC w.agents default (i : Int) with carrying := false }) :=
  RobotWarehouse.noop_effect hw w i

/-- DEFECT (holds of the transliterated code, contradicts "the acting entity keeps its holdings"):
an illegal FORWARD played by a carrying agent on a non-highway cell makes it drop its shelf -/
theorem rware_illegal_drops_shelf_witness :
    ¬ legal Props.C04.rwareWit 0 1 ∧
    ((step Props.C04.rwareWitCfg Props.C04.rwareWit [1] []).1.agents.map (·.carrying)) = [false] ∧
    (step Props.C04.rwareWitCfg Props.C04.rwareWit [1] []).2.stepType = .mid := by decide

/-- C05 (strengthening of `rware_illegal_is_noop_partial`, all worlds): the no-op played for agent `i`
leaves both floor channels, the shelf table and every other agent untouched; agent `i` keeps cell and
direction, and its flag becomes exactly `is_carrying && on_highway(cell)` -/
theorem rware_illegal_is_noop (hw : List (List Bool)) (w : World) (i : Nat) (ag : Agent)
    (hi : w.agents[i]? = some ag) :
    (updateAgent hw w 0 i).shelfGrid = w.shelfGrid ∧ (updateAgent hw w 0 i).agentGrid = w.agentGrid ∧
    (updateAgent hw w 0 i).shelves = w.shelves ∧
    (∀ (j : Nat), j ≠ i → (updateAgent hw w 0 i).agents[j]? = w.agents[j]?) ∧
    (updateAgent hw w 0 i).agents[i]? =
      some { ag with carrying := ag.carrying && Jx.Grid.getWC hw false ag.x ag.y } :=
  RobotWarehouse.noop_agent hw w hi

/-- RW1 characterised exactly: the no-op changes `is_carrying` iff the agent carries a shelf and does NOT
stand on a highway cell (then the shelf is offloaded) -/
theorem rware_noop_drops_iff (hw : List (List Bool)) (w : World) (i : Nat) (ag : Agent)
    (hi : w.agents[i]? = some ag) :
    (((updateAgent hw w 0 i).agents.getD i default).carrying ≠ ag.carrying) ↔
      (ag.carrying = true ∧ Jx.Grid.getWC hw false ag.x ag.y = false) :=
  RobotWarehouse.noop_drops_iff hw w hi

/-- in all other cases (not carrying, or standing on a highway cell) the holdings are kept: the whole agent
table is unchanged -/
theorem rware_noop_keeps (hw : List (List Bool)) (w : World) (i : Nat) (ag : Agent)
    (hi : w.agents[i]? = some ag)
    (h : ag.carrying = false ∨ Jx.Grid.getWC hw false ag.x ag.y = true) :
    (updateAgent hw w 0 i).agents = w.agents := RobotWarehouse.noop_keeps hw w hi h

/-- the same through the whole `step` (ALL states, joint actions, draws): an agent whose action is masked
out by the cached mask ends the step on its cell, facing the same way, with
`is_carrying' = is_carrying && on_highway(cell)` — whatever the other agents do -/
theorem rware_masked_step_agent (cfg : Cfg) (s : State) (actions draws : List Int) (i : Nat) (ag : Agent)
    (a : Int) (row : List Bool) (hi : s.agents[i]? = some ag) (ha : actions[i]? = some a)
    (hrow : s.mask[i]? = some row) (hm : Jx.getWC row false a = false) :
    (step cfg s actions draws).1.agents[i]? =
      some { ag with carrying := ag.carrying && Jx.Grid.getWC cfg.highways false ag.x ag.y } :=
  RobotWarehouse.step_masked_agent cfg s actions draws hi ha hrow hm

/-- under `Consistent`, for an action that is illegal by the RULES (L2): it is a FORWARD of a carrying
agent, the agent is frozen, and it still carries after the step iff its cell is a highway cell -/
theorem rware_illegal_step_agent (cfg : Cfg) (s : State) (hc : Consistent cfg s) (actions draws : List Int)
    (i a : Nat) (ag : Agent) (hi : s.agents[i]? = some ag) (ha : actions[i]? = some (a : Int)) (ha5 : a < 5)
    (hill : ¬ legal s i a) :
    ag.carrying = true ∧ a = 1 ∧
    (step cfg s actions draws).1.agents[i]? =
      some { ag with carrying := Jx.Grid.getWC cfg.highways false ag.x ag.y } :=
  RobotWarehouse.step_illegal_agent hc actions draws hi ha ha5 hill

/-- the hypotheses are satisfiable, in both branches: on the witness (cell not a highway) the shelf is
dropped, with the agent's cell made a highway cell it is kept -/
example : Consistent Props.C04.rwareWitCfg Props.C04.rwareWit ∧ ¬ legal Props.C04.rwareWit 0 1 ∧
    (step Props.C04.rwareWitCfg Props.C04.rwareWit [1] []).1.agents = [⟨0, 0, 1, false⟩] ∧
    (step { Props.C04.rwareWitCfg with highways := [[true, false, true]] } Props.C04.rwareWit [1] []).1.agents
      = [⟨0, 0, 1, true⟩] := by decide
end Props.C05

namespace Props.C07
/-- conserved for ALL states, actions and draws: the number of shelves, of agents and of request
slots (unconditional part; the floor-picture count is `rware_conserved` / `rware_floor_counts` below) -/
theorem rware_conserved_partial (cfg : Cfg) (s : State) (a d : List Int) :
    (step cfg s a d).1.shelves.length = s.shelves.length ∧
    (step cfg s a d).1.agents.length = s.agents.length ∧
    (step cfg s a d).1.queue.length = s.queue.length := RobotWarehouse.step_lengths cfg s a d

/-- the draw `d` lies in the support of the request-queue resampling for the joint action `a` in state `s`
(exactly the test the driver's `step` op applies): whenever a goal fires, the new id is a shelf id that
is not in the queue -/
def rwareValidDraw (cfg : Cfg) (s : State) (a d : List Int) : Prop :=
  validDraws (scanAgents cfg.highways s.world (validActions s.mask a) 0).shelfGrid
    ⟨s.queue, (scanAgents cfg.highways s.world (validActions s.mask a) 0).shelves, 0⟩ cfg.goals d = true

instance (cfg : Cfg) (s : State) (a d : List Int) : Decidable (rwareValidDraw cfg s a d) := by
  unfold rwareValidDraw; infer_instance

/-- C07 (full strength): from a `Consistent` state, ANY joint action `a` (any integers, any length — masked-out
entries are played as NOOP by `step` itself) and any draw in the support lead to a `Consistent` state,
unless the step is LAST (collision, or time limit reached) -/
theorem rware_step_consistent (cfg : Cfg) (s : State) (a d : List Int) (hc : Consistent cfg s)
    (hv : rwareValidDraw cfg s a d) (hn : (step cfg s a d).2.stepType ≠ .last) :
    Consistent cfg (step cfg s a d).1 := RobotWarehouse.step_consistent hc a d hv hn

/-- the floor picture of a `Consistent` state shows exactly as many shelves as the shelf table holds, and
exactly as many agents as the agent table holds -/
theorem rware_floor_counts (cfg : Cfg) (s : State) (hc : Consistent cfg s) :
    shelfCount s.shelfGrid = s.shelves.length ∧
    Jx.Grid.count (fun v => decide (v ≠ 0)) s.agentGrid = s.agents.length :=
  RobotWarehouse.consistent_counts hc

/-- C07 (conserved, floor-picture level): across such a step the predicate `Conserved` evaluated by the
driver holds (shelf table length, number of shelves ON THE FLOOR PICTURE, agent table length, queue
length), and the number of agents on the floor picture is unchanged too -/
theorem rware_conserved (cfg : Cfg) (s : State) (a d : List Int) (hc : Consistent cfg s)
    (hv : rwareValidDraw cfg s a d) (hn : (step cfg s a d).2.stepType ≠ .last) :
    Conserved s (step cfg s a d).1 ∧
    Jx.Grid.count (fun v => decide (v ≠ 0)) (step cfg s a d).1.agentGrid =
      Jx.Grid.count (fun v => decide (v ≠ 0)) s.agentGrid :=
  RobotWarehouse.step_conserved hc a d hv hn

/-- the hypotheses are satisfiable by a step that does something: agent 0 carries shelf 0 onto the goal
(delivery, shelf 1 becomes the new request), agent 1 turns -/
example : Consistent Props.C04.rwareWit2Cfg Props.C04.rwareWit2 ∧
    rwareValidDraw Props.C04.rwareWit2Cfg Props.C04.rwareWit2 [1, 2] [1] ∧
    (step Props.C04.rwareWit2Cfg Props.C04.rwareWit2 [1, 2] [1]).2.stepType ≠ .last ∧
    (step Props.C04.rwareWit2Cfg Props.C04.rwareWit2 [1, 2] [1]).1.queue = [1] ∧
    (step Props.C04.rwareWit2Cfg Props.C04.rwareWit2 [1, 2] [1]).1.shelfGrid = [[0, 1, 0], [0, 0, 2]] := by
  decide
end Props.C07

namespace Props.C11
theorem rware_time_limit (cfg : Cfg) (s : State) (a d : List Int) :
    (step cfg s a d).1.stepCount = s.stepCount + 1 ∧
    (s.stepCount + 1 ≥ cfg.timeLimit → (step cfg s a d).2.stepType = .last) :=
  RobotWarehouse.time_limit cfg s a d
end Props.C11

namespace Props.C12
/-- (partial: copied fields) the observation carries the successor's own mask and step count, the
cached mask is recomputed from the successor's floor, and the sensor vectors are computed from
the successor (not the predecessor) world.  `makeObservations = observe` (L1 = L2 sensors) on every
consistent state is `rware_obs_faithful` below (and is also evaluated by the driver on every consistent
implementation state). -/
theorem rware_obs_copied_partial (cfg : Cfg) (s : State) (a d : List Int) :
    (step cfg s a d).2.obs.mask = (step cfg s a d).1.mask ∧
    (step cfg s a d).2.obs.stepCount = (step cfg s a d).1.stepCount ∧
    (step cfg s a d).1.mask = computeMask (step cfg s a d).1.shelfGrid (step cfg s a d).1.agents ∧
    (step cfg s a d).2.obs.view = makeObservations cfg (step cfg s a d).1.world :=
  RobotWarehouse.obs_copied cfg s a d

/-- on the witness state the L1 sensor vector equals the documented (table-based) one -/
example : makeObservations Props.C04.rwareWitCfg Props.C04.rwareWit.world =
    (observe Props.C04.rwareWitCfg Props.C04.rwareWit).view := by decide

/-- C12 (full strength, all sizes and sensor ranges): on every `Consistent` state the L1 sensor vectors
(`make_agent_observation`, with the clamping of `dynamic_update_slice` and the clamped windows of the
padded channels) equal the documented table-based ones: an entity is reported iff it lies inside the
agent's sensor window, at the slot of its shifted position -/
theorem rware_obs_faithful (cfg : Cfg) (s : State) (hc : Consistent cfg s) :
    makeObservations cfg s.world = (observe cfg s).view := RobotWarehouse.obs_faithful hc

/-- reset: the whole observation built from a consistent generated state is the documented one -/
theorem rware_reset_obs_faithful (cfg : Cfg) (s : State) (hc : Consistent cfg s) :
    resetObs cfg s = observe cfg s := by
  unfold resetObs observe
  rw [RobotWarehouse.obs_faithful hc, ((consistent_iff_good cfg s).1 hc).mask,
    RobotWarehouse.mask_eq_legalMask hc]
  rfl

/-- step: the whole observation emitted by a non-LAST step from a consistent state (any joint action, any
draw in the support) is the documented observation of the successor state.  (On a LAST step caused by
a collision this is false: known finding RW2.) -/
theorem rware_step_obs_faithful (cfg : Cfg) (s : State) (a d : List Int) (hc : Consistent cfg s)
    (hv : Props.C07.rwareValidDraw cfg s a d) (hn : (step cfg s a d).2.stepType ≠ .last) :
    (step cfg s a d).2.obs = observe cfg (step cfg s a d).1 := by
  have hc' := RobotWarehouse.step_consistent hc a d hv hn
  have h := RobotWarehouse.obs_copied cfg s a d
  have h1 := RobotWarehouse.obs_faithful hc'
  have h2 := RobotWarehouse.mask_eq_legalMask hc'
  generalize (step cfg s a d).2.obs = o at h
  generalize (step cfg s a d).1 = s' at h h1 h2
  obtain ⟨v, m, c⟩ := o
  obtain ⟨e1, e2, e3, e4⟩ := h
  simp only [] at e1 e2 e4
  unfold observe
  rw [e1, e2, e4, e3, h1, h2]
  rfl
end Props.C12

namespace Props.C01
/-- reset: the observation built from a generated state (step count 0) has `action_mask ∈ [0, 1]` and
`step_count ∈ [0, time_limit]`; `agents_view` is declared unbounded (`specs.Array`) and listed as such -/
theorem robot_warehouse_reset_obs_in_bounds (cfg : Cfg) (s : State) (hs : s.stepCount = 0) (hT : 0 ≤ cfg.timeLimit) :
    ObsInBounds (obsBounds cfg) (resetObs cfg s) := RobotWarehouse.reset_obs_in_bounds cfg s hs hT

/-- step: for EVERY state whose step count lies in `[0, time_limit)` (the step that reaches `time_limit`, and a
step ended by a collision, included), every joint action and every draw of the resampled requests, every leaf
of the observation is inside its interval of `obsBounds cfg` -/
theorem robot_warehouse_step_obs_in_bounds (cfg : Cfg) (s : State) (a d : List Int) (h0 : 0 ≤ s.stepCount)
    (hT : s.stepCount < cfg.timeLimit) :
    ObsInBounds (obsBounds cfg) (step cfg s a d).2.obs := RobotWarehouse.step_obs_in_bounds cfg s a d h0 hT

/-- the bounds list covers every leaf of the observation -/
theorem robot_warehouse_obs_bounds_cover (cfg : Cfg) (o : Obs) :
    (obsLeaves o).map (·.1) = (obsBounds cfg).map (·.1) := RobotWarehouse.obsBounds_cover cfg o

/-- the bound is attained: with `time_limit = 1` the first step emits `step_count = 1` -/
example : (step { Props.C04.rwareWitCfg with timeLimit := 1 } Props.C04.rwareWit [0] []).2.obs.stepCount = 1 := by decide
end Props.C01
