/-
Property theorems for RobotWarehouse (R model: the resampled request ids are a draw `d`; every
theorem holds for ALL draws).  Proofs in Env/RobotWarehouse/{Lemmas,PictureLemmas,MaskLemmas,StepLemmas,
QueueLemmas,ConsistentLemmas,NoopLemmas,ObsLemmas,ShelfLemmas,RewardLemmas,ResetLemmas,EpisodeLemmas}.lean.
-/
import JumanjiModel.Env.RobotWarehouse.Lemmas
import JumanjiModel.Env.RobotWarehouse.Bounds
import JumanjiModel.Env.RobotWarehouse.MaskLemmas
import JumanjiModel.Env.RobotWarehouse.NoopLemmas
import JumanjiModel.Env.RobotWarehouse.ConsistentLemmas
import JumanjiModel.Env.RobotWarehouse.ObsLemmas
import JumanjiModel.Env.RobotWarehouse.ShelfLemmas
import JumanjiModel.Env.RobotWarehouse.RewardLemmas
import JumanjiModel.Env.RobotWarehouse.ResetLemmas
import JumanjiModel.Env.RobotWarehouse.EpisodeLemmas
import JumanjiModel.Env.RobotWarehouse.SpecValid
open Jm RobotWarehouse

namespace Props.C04
/-- a 1×3 floor: the agent (facing right, carrying shelf 1, on a non-highway cell) has shelf 2 in front -/
def rwareWit : State :=
  { shelfGrid := [[1, 2, 0]], agentGrid := [[1, 0, 0]], agents := [⟨0, 0, 1, true⟩],
    shelves := [⟨0, 0, 1⟩, ⟨0, 1, 0⟩], queue := [0], stepCount := 0,
    mask := [[true, false, true, true, true]] }
def rwareWitCfg : Cfg := { timeLimit := 10, sensorRange := 1, highways := [[false, false, true]], goals := [] }

/-- on the witness the L1 mask, the cached mask and the rules agree: only FORWARD is illegal -/
example : computeMask rwareWit.shelfGrid rwareWit.agents = rwareWit.mask ∧ legalMask rwareWit = rwareWit.mask ∧ ¬ legal rwareWit 0 1 := by decide
example : Consistent rwareWitCfg rwareWit := by decide

/-- C04 (full strength, all states / sizes / agents): under `Consistent`, for every agent and every action
the L1 `compute_action_mask` bit equals L2 `legal` read from the entity tables -/
theorem rware_mask_iff_legal (cfg : Cfg) (s : State) (hc : Consistent cfg s) (i a : Nat)
    (hi : i < s.agents.length) (ha : a < 5) :
    ((computeMask s.shelfGrid s.agents).getD i []).getD a false = true ↔ legal s i a :=
  RobotWarehouse.mask_iff_legal hc hi ha

/-- the same as one equation between the two `(num_agents, 5)` tables -/
theorem rware_mask_eq_legalMask (cfg : Cfg) (s : State) (hc : Consistent cfg s) :
    computeMask s.shelfGrid s.agents = legalMask s := RobotWarehouse.mask_eq_legalMask hc

/-- … and hence for the cached `action_mask` carried in the state (and copied into the observation) -/
theorem rware_cached_mask_iff_legal (cfg : Cfg) (s : State) (hc : Consistent cfg s) (i a : Nat)
    (hi : i < s.agents.length) (ha : a < 5) :
    ((s.mask).getD i []).getD a false = true ↔ legal s i a := by
  rw [((consistent_iff_good cfg s).1 hc).mask]
  exact RobotWarehouse.mask_iff_legal hc hi ha

/-- C04 (the environment's own reaction agrees with the rules; all consistent states, all joint actions, every
agent): the action `step` actually executes for agent `i` (`get_valid_actions` applied to the cached mask; this
list is what the per-agent scan of `step` consumes) is the in-spec action `a` the agent submitted if the RULES
(`legal`, read from the entity tables) allow it, and the no-op otherwise -/
theorem rware_step_agrees (cfg : Cfg) (s : State) (hc : Consistent cfg s) (actions : List Int) (i a : Nat)
    (hi : i < s.agents.length) (ha : actions[i]? = some (a : Int)) (ha5 : a < 5) :
    (validActions s.mask actions)[i]? = some (if legal s i a then (a : Int) else 0) :=
  RobotWarehouse.validActions_legal hc actions hi ha ha5

/-- … so the WHOLE step in which agent `i` submits an action that is illegal by the rules is the step in which it
submits the no-op instead (same successor state, same timestep) -/
theorem rware_illegal_step_eq_noop (cfg : Cfg) (s : State) (hc : Consistent cfg s) (actions draws : List Int)
    (i a : Nat) (hi : i < s.agents.length) (ha : actions[i]? = some (a : Int)) (ha5 : a < 5)
    (hill : ¬ legal s i a) :
    step cfg s actions draws = step cfg s (actions.set i 0) draws :=
  RobotWarehouse.step_illegal_eq_noop hc actions draws hi ha ha5 hill

/-- what `step` DOES with a legal FORWARD (audit r6 #6; `rware_step_agrees` is about `validActions s.mask`, the list the scan
consumes): from a consistent state, whatever the other agents submit and whatever the draws, an agent whose FORWARD is legal by the
rules ends the step on the cell in front of it (`newPos`: one cell in its direction, clamped at the border of the floor), direction
and carrying flag unchanged — the move IS executed.  (Whether the step is then reported as a collision is another matter:
`Props.C07.rware_follow_terminates_witness`.) -/
theorem rware_legal_forward_executes (cfg : Cfg) (s : State) (hc : Consistent cfg s) (actions draws : List Int)
    (i : Nat) (ag : Agent) (hi : s.agents[i]? = some ag) (ha : actions[i]? = some 1) (hl : legal s i 1) :
    (step cfg s actions draws).1.agents[i]? =
      some { ag with x := (newPos (gRows s.shelfGrid) (gCols s.shelfGrid) ag.x ag.y ag.dir).1,
                     y := (newPos (gRows s.shelfGrid) (gCols s.shelfGrid) ag.x ag.y ag.dir).2 } :=
  RobotWarehouse.legal_forward_executes cfg s hc actions draws i ag hi ha hl

/-- the hypotheses are satisfiable, and both branches occur: on the witness FORWARD (illegal) is played as the
no-op, TOGGLE_LOAD (legal) as itself -/
example : Consistent rwareWitCfg rwareWit ∧ ¬ legal rwareWit 0 1 ∧ legal rwareWit 0 4 ∧
    validActions rwareWit.mask [1] = [0] ∧ validActions rwareWit.mask [4] = [4] := by decide

/-- a 2×3 floor with two agents: agent 0 carries the requested shelf 0 and has the goal cell in front -/
def rwareWit2 : State :=
  { shelfGrid := [[1, 0, 0], [0, 0, 2]], agentGrid := [[1, 0, 0], [2, 0, 0]],
    agents := [⟨0, 0, 1, true⟩, ⟨1, 0, 0, false⟩], shelves := [⟨0, 0, 1⟩, ⟨1, 2, 0⟩], queue := [0],
    stepCount := 0, mask := [[true, true, true, true, true], [true, true, true, true, true]] }
def rwareWit2Cfg : Cfg :=
  { timeLimit := 10, sensorRange := 1, highways := [[false, true, false], [true, true, false]], goals := [(1, 0)] }
example : Consistent rwareWit2Cfg rwareWit2 := by decide
end Props.C04

namespace Props.C05
/-- a masked-out action (= no-op) never moves or turns the agent and never touches the floor
channels or the shelf table; its only possible effect is to clear the agent's `is_carrying` -/
theorem rware_noop_effect_partial (hw : List (List Bool)) (w : World) (i : Nat) :
    (updateAgent hw w 0 i).shelfGrid = w.shelfGrid ∧ (updateAgent hw w 0 i).agentGrid = w.agentGrid ∧
    (updateAgent hw w 0 i).shelves = w.shelves ∧
    ((updateAgent hw w 0 i).agents = w.agents ∨
     (updateAgent hw w 0 i).agents =
       Jx.setWD w.agents (i : Int) { Jx.getWC w.agents default (i : Int) with carrying := false }) :=
  RobotWarehouse.noop_effect hw w i

/-- DEFECT (holds of the transliterated code, contradicts "the acting entity keeps its holdings"):
an illegal FORWARD played by a carrying agent on a non-highway cell makes it drop its shelf -/
theorem rware_illegal_drops_shelf_witness :
    ¬ legal Props.C04.rwareWit 0 1 ∧
    ((step Props.C04.rwareWitCfg Props.C04.rwareWit [1] []).1.agents.map (·.carrying)) = [false] ∧
    (step Props.C04.rwareWitCfg Props.C04.rwareWit [1] []).2.stepType = .mid := by decide

/-- C05 (strengthening of `rware_noop_effect_partial`, all worlds; about the NO-OP `updateAgent … 0 i` — that an
illegal action is played as the no-op is `Props.C04.rware_step_agrees` / `rware_masked_step_agent` below): the
no-op played for agent `i`
leaves both floor channels, the shelf table and every other agent untouched; agent `i` keeps cell and
direction, and its flag becomes exactly `is_carrying && on_highway(cell)` -/
theorem rware_noop_agent (hw : List (List Bool)) (w : World) (i : Nat) (ag : Agent)
    (hi : w.agents[i]? = some ag) :
    (updateAgent hw w 0 i).shelfGrid = w.shelfGrid ∧ (updateAgent hw w 0 i).agentGrid = w.agentGrid ∧
    (updateAgent hw w 0 i).shelves = w.shelves ∧
    (∀ (j : Nat), j ≠ i → (updateAgent hw w 0 i).agents[j]? = w.agents[j]?) ∧
    (updateAgent hw w 0 i).agents[i]? =
      some { ag with carrying := ag.carrying && Jx.Grid.getWC hw false ag.x ag.y } :=
  RobotWarehouse.noop_agent hw w hi

/-- RW1 characterised exactly: the no-op changes `is_carrying` iff the agent carries a shelf and does NOT
stand on a highway cell (then the shelf is offloaded) -/
theorem rware_noop_drops_iff (hw : List (List Bool)) (w : World) (i : Nat) (ag : Agent)
    (hi : w.agents[i]? = some ag) :
    (((updateAgent hw w 0 i).agents.getD i default).carrying ≠ ag.carrying) ↔
      (ag.carrying = true ∧ Jx.Grid.getWC hw false ag.x ag.y = false) :=
  RobotWarehouse.noop_drops_iff hw w hi

/-- in all other cases (not carrying, or standing on a highway cell) the holdings are kept: the whole agent
table is unchanged -/
theorem rware_noop_keeps (hw : List (List Bool)) (w : World) (i : Nat) (ag : Agent)
    (hi : w.agents[i]? = some ag)
    (h : ag.carrying = false ∨ Jx.Grid.getWC hw false ag.x ag.y = true) :
    (updateAgent hw w 0 i).agents = w.agents := RobotWarehouse.noop_keeps hw w hi h

/-- the same through the whole `step` (ALL states, joint actions, draws): an agent whose action is masked
out by the cached mask ends the step on its cell, facing the same way, with
`is_carrying' = is_carrying && on_highway(cell)` — whatever the other agents do -/
theorem rware_masked_step_agent (cfg : Cfg) (s : State) (actions draws : List Int) (i : Nat) (ag : Agent)
    (a : Int) (row : List Bool) (hi : s.agents[i]? = some ag) (ha : actions[i]? = some a)
    (hrow : s.mask[i]? = some row) (hm : Jx.getWC row false a = false) :
    (step cfg s actions draws).1.agents[i]? =
      some { ag with carrying := ag.carrying && Jx.Grid.getWC cfg.highways false ag.x ag.y } :=
  RobotWarehouse.step_masked_agent cfg s actions draws hi ha hrow hm

/-- under `Consistent`, for an action that is illegal by the RULES (L2): it is a FORWARD of a carrying
agent, the agent is frozen, and it still carries after the step iff its cell is a highway cell -/
theorem rware_illegal_step_agent (cfg : Cfg) (s : State) (hc : Consistent cfg s) (actions draws : List Int)
    (i a : Nat) (ag : Agent) (hi : s.agents[i]? = some ag) (ha : actions[i]? = some (a : Int)) (ha5 : a < 5)
    (hill : ¬ legal s i a) :
    ag.carrying = true ∧ a = 1 ∧
    (step cfg s actions draws).1.agents[i]? =
      some { ag with carrying := Jx.Grid.getWC cfg.highways false ag.x ag.y } :=
  RobotWarehouse.step_illegal_agent hc actions draws hi ha ha5 hill

/-- the hypotheses are satisfiable, in both branches: on the witness (cell not a highway) the shelf is
dropped, with the agent's cell made a highway cell it is kept -/
example : Consistent Props.C04.rwareWitCfg Props.C04.rwareWit ∧ ¬ legal Props.C04.rwareWit 0 1 ∧
    (step Props.C04.rwareWitCfg Props.C04.rwareWit [1] []).1.agents = [⟨0, 0, 1, false⟩] ∧
    (step { Props.C04.rwareWitCfg with highways := [[true, false, true]] } Props.C04.rwareWit [1] []).1.agents
      = [⟨0, 0, 1, true⟩] := by decide

/-- C05, the SHELF side of `frozen` (the predicate the driver's `judge` op evaluates): for an action that is
illegal by the rules, agent `i` is `frozen` — same cell, same direction, and the shelf it stands on (if any)
is still on that cell after the step.  ALL consistent states, all joint actions of the other agents, all
draws (valid or not), LAST steps included. -/
theorem rware_illegal_frozen (cfg : Cfg) (s : State) (hc : Consistent cfg s) (actions draws : List Int)
    (i a : Nat) (ag : Agent) (hi : s.agents[i]? = some ag) (ha : actions[i]? = some (a : Int)) (ha5 : a < 5)
    (hill : ¬ legal s i a) :
    frozen s (step cfg s actions draws).1 i = true :=
  RobotWarehouse.step_illegal_frozen hc actions draws hi ha ha5 hill

/-- the same for an action masked out by the cached mask (whatever the integer played) -/
theorem rware_masked_frozen (cfg : Cfg) (s : State) (hc : Consistent cfg s) (actions draws : List Int) (i : Nat)
    (ag : Agent) (a : Int) (row : List Bool) (hi : s.agents[i]? = some ag) (ha : actions[i]? = some a)
    (hrow : s.mask[i]? = some row) (hm : Jx.getWC row false a = false) :
    frozen s (step cfg s actions draws).1 i = true :=
  RobotWarehouse.step_masked_frozen hc actions draws hi ha hrow hm

/-- more generally: ANY agent that ends the step on its cell facing the same way (no-op, load/unload,
masked FORWARD, FORWARD against the border) is `frozen`: the shelf under it has not been moved by anybody -/
theorem rware_frozen_of_agent_unmoved (cfg : Cfg) (s : State) (hc : Consistent cfg s) (actions draws : List Int)
    (i : Nat) (ag ag' : Agent) (hi : s.agents[i]? = some ag)
    (hi' : (step cfg s actions draws).1.agents[i]? = some ag') (hx : ag'.x = ag.x) (hy : ag'.y = ag.y)
    (hd : ag'.dir = ag.dir) :
    frozen s (step cfg s actions draws).1 i = true :=
  RobotWarehouse.step_frozen_of_agent hc actions draws hi hi' hx hy hd

/-- on the witness: the illegal FORWARD leaves agent 0 frozen (shelf 0 still under it), although it drops it -/
example : frozen Props.C04.rwareWit (step Props.C04.rwareWitCfg Props.C04.rwareWit [1] []).1 0 = true ∧
    holdingsKept Props.C04.rwareWit (step Props.C04.rwareWitCfg Props.C04.rwareWit [1] []).1 0 = false := by decide
end Props.C05

namespace Props.C07
/-- conserved for ALL states, actions and draws: the number of shelves, of agents and of request
slots (unconditional part; the floor-picture count is `rware_conserved` / `rware_floor_counts` below) -/
theorem rware_conserved_partial (cfg : Cfg) (s : State) (a d : List Int) :
    (step cfg s a d).1.shelves.length = s.shelves.length ∧
    (step cfg s a d).1.agents.length = s.agents.length ∧
    (step cfg s a d).1.queue.length = s.queue.length := RobotWarehouse.step_lengths cfg s a d

/-- the draw `d` lies in the support of the request-queue resampling for the joint action `a` in state `s`
(exactly the test the driver's `step` op applies): whenever a goal fires, the new id is a shelf id that
is not in the queue -/
def rwareValidDraw (cfg : Cfg) (s : State) (a d : List Int) : Prop :=
  validDraws (scanAgents cfg.highways s.world (validActions s.mask a) 0).shelfGrid
    ⟨s.queue, (scanAgents cfg.highways s.world (validActions s.mask a) 0).shelves, 0⟩ cfg.goals d = true

instance (cfg : Cfg) (s : State) (a d : List Int) : Decidable (rwareValidDraw cfg s a d) := by
  unfold rwareValidDraw; infer_instance

/-- C07 (full strength): from a `Consistent` state, ANY joint action `a` (any integers, any length — masked-out
entries are played as NOOP by `step` itself) and any draw in the support lead to a `Consistent` state,
unless the step is LAST (collision, or time limit reached) -/
theorem rware_step_consistent (cfg : Cfg) (s : State) (a d : List Int) (hc : Consistent cfg s)
    (hv : rwareValidDraw cfg s a d) (hn : (step cfg s a d).2.stepType ≠ .last) :
    Consistent cfg (step cfg s a d).1 := RobotWarehouse.step_consistent hc a d hv hn

/-- the floor picture of a `Consistent` state shows exactly as many shelves as the shelf table holds, and
exactly as many agents as the agent table holds -/
theorem rware_floor_counts (cfg : Cfg) (s : State) (hc : Consistent cfg s) :
    shelfCount s.shelfGrid = s.shelves.length ∧
    Jx.Grid.count (fun v => decide (v ≠ 0)) s.agentGrid = s.agents.length :=
  RobotWarehouse.consistent_counts hc

/-- C07 (conserved, floor-picture level): across such a step the predicate `Conserved` evaluated by the
driver holds (shelf table length, number of shelves ON THE FLOOR PICTURE, agent table length, queue
length), and the number of agents on the floor picture is unchanged too -/
theorem rware_conserved (cfg : Cfg) (s : State) (a d : List Int) (hc : Consistent cfg s)
    (hv : rwareValidDraw cfg s a d) (hn : (step cfg s a d).2.stepType ≠ .last) :
    Conserved s (step cfg s a d).1 ∧
    Jx.Grid.count (fun v => decide (v ≠ 0)) (step cfg s a d).1.agentGrid =
      Jx.Grid.count (fun v => decide (v ≠ 0)) s.agentGrid :=
  RobotWarehouse.step_conserved hc a d hv hn

/-- the hypotheses are satisfiable by a step that does something: agent 0 carries shelf 0 onto the goal
(delivery, shelf 1 becomes the new request), agent 1 turns -/
example : Consistent Props.C04.rwareWit2Cfg Props.C04.rwareWit2 ∧
    rwareValidDraw Props.C04.rwareWit2Cfg Props.C04.rwareWit2 [1, 2] [1] ∧
    (step Props.C04.rwareWit2Cfg Props.C04.rwareWit2 [1, 2] [1]).2.stepType ≠ .last ∧
    (step Props.C04.rwareWit2Cfg Props.C04.rwareWit2 [1, 2] [1]).1.queue = [1] ∧
    (step Props.C04.rwareWit2Cfg Props.C04.rwareWit2 [1, 2] [1]).1.shelfGrid = [[0, 1, 0], [0, 0, 2]] := by
  decide

/-! #### the shelf side of a step (every step: LAST or not, any joint action, any draw, valid or not) -/

/-- C07: a shelf on whose cell no carrying agent stands keeps its cell through the step -/
theorem rware_step_free_shelf_stays (cfg : Cfg) (s : State) (a d : List Int) (hc : Consistent cfg s) (k : Nat)
    (sh : Shelf) (hk : s.shelves[k]? = some sh)
    (hfree : ∀ ag ∈ s.agents, ag.carrying = true → (ag.x, ag.y) ≠ (sh.x, sh.y)) :
    ∃ sh', (step cfg s a d).1.shelves[k]? = some sh' ∧ sh'.x = sh.x ∧ sh'.y = sh.y := by
  have := RobotWarehouse.step_shelf_free hc a d hk hfree
  obtain ⟨sh', h1, h2⟩ := Option.map_eq_some_iff.1 this
  exact ⟨sh', h1, (RobotWarehouse.spos_eq h2).1, (RobotWarehouse.spos_eq h2).2⟩

/-- C07: a carried shelf (agent `j` stands on its cell with `is_carrying`) ends the step on the cell on which
its carrier ends the step — whether the carrier moved, was masked out, turned, or dropped it -/
theorem rware_step_carried_shelf_follows (cfg : Cfg) (s : State) (a d : List Int) (hc : Consistent cfg s)
    (k j : Nat) (sh : Shelf) (ag : Agent) (hk : s.shelves[k]? = some sh) (hj : s.agents[j]? = some ag)
    (hcar : ag.carrying = true) (hx : ag.x = sh.x) (hy : ag.y = sh.y) :
    ∃ sh' ag', (step cfg s a d).1.shelves[k]? = some sh' ∧ (step cfg s a d).1.agents[j]? = some ag' ∧
      sh'.x = ag'.x ∧ sh'.y = ag'.y := by
  have hp : RobotWarehouse.apos ag = RobotWarehouse.spos sh := by
    unfold RobotWarehouse.apos RobotWarehouse.spos; rw [hx, hy]
  obtain ⟨sh', ag', h1, h2, h3⟩ := RobotWarehouse.step_shelf_carried hc a d hk hj hcar hp
  exact ⟨sh', ag', h1, h2, congrArg Prod.fst h3, congrArg Prod.snd h3⟩

/-- the two cases are exhaustive and both occur on the witness step: shelf 0 is carried by agent 0 and
follows it to `(0, 1)`, shelf 1 is carried by nobody and stays on `(1, 2)` -/
example : (step Props.C04.rwareWit2Cfg Props.C04.rwareWit2 [1, 2] [1]).1.shelves = [⟨0, 1, 0⟩, ⟨1, 2, 1⟩] ∧
    (step Props.C04.rwareWit2Cfg Props.C04.rwareWit2 [1, 2] [1]).1.agents = [⟨0, 1, 1, true⟩, ⟨1, 0, 3, false⟩] := by
  decide

/-! #### "not LAST" weakened to "no collision": the step that reaches the time limit included -/

/-- `is_collision` reports nothing after the joint action `a` (decidable; evaluated on the world after the
per-agent scan, as `step` does) -/
def rwareNoCollision (cfg : Cfg) (s : State) (a : List Int) : Prop := RobotWarehouse.NoCollision cfg s a

instance (cfg : Cfg) (s : State) (a : List Int) : Decidable (rwareNoCollision cfg s a) := by
  unfold rwareNoCollision; infer_instance

/-- a step that is not LAST had no collision -/
theorem rware_not_last_no_collision (cfg : Cfg) (s : State) (a d : List Int)
    (hn : (step cfg s a d).2.stepType ≠ .last) : rwareNoCollision cfg s a :=
  RobotWarehouse.noCollision_of_not_last hn

/-- C07 (strengthening of `rware_step_consistent`): the successor is `Consistent` after every step without
a collision — in particular after the LAST step of an episode that ends by the time limit -/
theorem rware_step_consistent_no_collision (cfg : Cfg) (s : State) (a d : List Int) (hc : Consistent cfg s)
    (hv : rwareValidDraw cfg s a d) (hcol : rwareNoCollision cfg s a) :
    Consistent cfg (step cfg s a d).1 := RobotWarehouse.step_consistent_nocoll hc a d hv hcol

/-- what `Consistent` says, part by part (the "full invariant"): agents inside the floor on pairwise
different cells; shelves inside the floor on pairwise different cells (shelves never overlap); both floor
channels are exactly the pictures of their tables; the request queue consists of pairwise different shelf
ids; and the shelf a carrying agent carries IS the shelf under it: the id `forward` reads off the shelf
channel at the agent's cell is the index of the (unique) shelf the table has on that cell -/
theorem rware_consistent_parts (cfg : Cfg) (s : State) (hc : Consistent cfg s) :
    (∀ ag ∈ s.agents, inGrid (gRows s.shelfGrid) (gCols s.shelfGrid) ag.x ag.y) ∧
    (s.agents.map (fun ag => (ag.x, ag.y))).Nodup ∧
    (∀ sh ∈ s.shelves, inGrid (gRows s.shelfGrid) (gCols s.shelfGrid) sh.x sh.y) ∧
    (s.shelves.map (fun sh => (sh.x, sh.y))).Nodup ∧
    (∀ c ∈ allCells (gRows s.shelfGrid) (gCols s.shelfGrid),
      Jx.Grid.getWC s.agentGrid 0 c.1 c.2 = tableAt (fun a : Agent => (a.x, a.y)) s.agents c ∧
      Jx.Grid.getWC s.shelfGrid 0 c.1 c.2 = tableAt (fun a : Shelf => (a.x, a.y)) s.shelves c) ∧
    s.queue.Nodup ∧ (∀ q ∈ s.queue, 0 ≤ q ∧ q < (s.shelves.length : Int)) ∧
    (∀ ag ∈ s.agents, ag.carrying = true → ∃ (k : Nat) (sh : Shelf), s.shelves[k]? = some sh ∧
      sh.x = ag.x ∧ sh.y = ag.y ∧ Jx.Grid.getWC s.shelfGrid 0 ag.x ag.y = (k : Int) + 1) := by
  have hg := (consistent_iff_good cfg s).1 hc
  obtain ⟨_, _, _, _, _, h6, h7, h8, h9, h10, _, h12, h13, _, _⟩ := hc
  refine ⟨fun ag h => (h6 ag h).1, of_decide_eq_true h8, fun sh h => (h7 sh h).1, of_decide_eq_true h9, h10,
    h12, h13, ?_⟩
  intro ag hag hcar
  have hin := (h6 ag hag).1
  have hne := (RobotWarehouse.shelf_cell_ne_zero_iff hg.shShown hg.shBacked hin).2 (hg.carry ag hag hcar)
  obtain ⟨k, sh, hk, hv, hp⟩ := hg.shBacked ag.x ag.y hin hne
  exact ⟨k, sh, hk, (RobotWarehouse.spos_eq hp).1, (RobotWarehouse.spos_eq hp).2, hv⟩

/-- C07: after every step without a collision (any in-spec or out-of-spec joint action, any draw in the
support) shelves do not overlap and the shelf layer of the grid agrees with the shelf table -/
theorem rware_step_shelves_consistent (cfg : Cfg) (s : State) (a d : List Int) (hc : Consistent cfg s)
    (hv : rwareValidDraw cfg s a d) (hcol : rwareNoCollision cfg s a) :
    ((step cfg s a d).1.shelves.map (fun sh => (sh.x, sh.y))).Nodup ∧
    (∀ c ∈ allCells (gRows (step cfg s a d).1.shelfGrid) (gCols (step cfg s a d).1.shelfGrid),
      Jx.Grid.getWC (step cfg s a d).1.shelfGrid 0 c.1 c.2 =
        tableAt (fun a : Shelf => (a.x, a.y)) (step cfg s a d).1.shelves c) ∧
    gRows (step cfg s a d).1.shelfGrid = gRows s.shelfGrid ∧ gCols (step cfg s a d).1.shelfGrid = gCols s.shelfGrid := by
  have hc' := RobotWarehouse.step_consistent_nocoll hc a d hv hcol
  have hp := rware_consistent_parts cfg _ hc'
  have h1 := (consistent_iff_good cfg s).1 hc
  have h2 := (consistent_iff_good cfg _).1 hc'
  have d1 := RobotWarehouse.shaped_dims h1.shH h1.hR
  have d2 := RobotWarehouse.shaped_dims h2.shH h2.hR
  exact ⟨hp.2.2.2.1, fun c hcm => (hp.2.2.2.2.1 c hcm).2, d2.1.symm.trans d1.1, d2.2.symm.trans d1.2⟩

/-- C07 (reset): the state `RandomGenerator.__call__` builds (`genState`: agents with `is_carrying = 0`,
`is_requested = zeros.at[queue].set(1)`, both channels by `place_entities_on_grid` from a zero grid, mask
computed, step count 0) from sampled values satisfying the generator certificate — agent cells inside the
floor and pairwise different, directions in `0..3`, shelf cells inside the floor and pairwise different, queue
of pairwise different shelf ids — is `Consistent`.  Any floor size, number of agents, shelves, queue length. -/
theorem rware_reset_consistent (cfg : Cfg) (R C : Nat) (hR : 0 < R) (hC : 0 < C)
    (hH : Jx.Grid.shaped cfg.highways R C = true)
    (agentCells : List (Int × Int)) (dirs : List Int) (shelfCells : List (Int × Int)) (queue : List Int)
    (hlen : agentCells.length ≤ dirs.length)
    (haIn : ∀ c ∈ agentCells, inGrid R C c.1 c.2) (haNd : agentCells.Nodup)
    (hdir : ∀ d ∈ dirs, 0 ≤ d ∧ d < 4)
    (hsIn : ∀ c ∈ shelfCells, inGrid R C c.1 c.2) (hsNd : shelfCells.Nodup)
    (hqNd : queue.Nodup) (hqR : ∀ q ∈ queue, 0 ≤ q ∧ q < (shelfCells.length : Int)) :
    Consistent cfg (genState R C agentCells dirs shelfCells queue) :=
  RobotWarehouse.gen_consistent cfg hR hC hH agentCells dirs shelfCells queue hlen haIn haNd hdir hsIn hsNd hqNd hqR

/-- the hypotheses are satisfiable: a 2×3 floor, two agents, two shelves, one request -/
example : (0 < 2 ∧ 0 < 3) ∧ Jx.Grid.shaped Props.C04.rwareWit2Cfg.highways 2 3 = true ∧
    ([(0, 0), (1, 0)] : List (Int × Int)).length ≤ ([1, 0] : List Int).length ∧
    (∀ c ∈ ([(0, 0), (1, 0)] : List (Int × Int)), inGrid 2 3 c.1 c.2) ∧ ([(0, 0), (1, 0)] : List (Int × Int)).Nodup ∧
    (∀ d ∈ ([1, 0] : List Int), 0 ≤ d ∧ d < 4) ∧
    (∀ c ∈ ([(0, 0), (1, 2)] : List (Int × Int)), inGrid 2 3 c.1 c.2) ∧ ([(0, 0), (1, 2)] : List (Int × Int)).Nodup ∧
    ([0] : List Int).Nodup ∧ (∀ q ∈ ([0] : List Int), 0 ≤ q ∧ q < (([(0, 0), (1, 2)] : List (Int × Int)).length : Int)) := by
  decide
example : genState 2 3 [(0, 0), (1, 0)] [1, 0] [(0, 0), (1, 2)] [0] =
    { Props.C04.rwareWit2 with agents := [⟨0, 0, 1, false⟩, ⟨1, 0, 0, false⟩] } := by decide
/-! #### audit r6 #1 (candidate finding RW3): `rwareNoCollision` is the L1 test `is_collision`
(`grid[_AGENTS, x, y] != id + 1` after the per-agent scan), NOT "two agents on one cell".  It is SOUND
(`rware_phys_collision_reported`: a physical collision is always reported) but it OVER-reports: an agent that
moves onto the cell a HIGHER-numbered agent vacates in the same step has its fresh mark zeroed by that agent's
`forward`, so a legal move of two agents to two different cells is reported as a collision and ends the episode;
with the two ids exchanged the same physical move is MID.  Real code (reproduction in the report):
`RobotWarehouse(RandomGenerator(1,3,2,num_agents=2,…))`, agents at (0,0),(0,1) facing right, action `[1,1]`:
`step_type = 2`, positions (0,1),(0,2); agents at (0,1),(0,0): `step_type = 1`. -/

def rwareFollowS : State :=
  { shelfGrid := [[0, 0, 0]], agentGrid := [[1, 2, 0]], agents := [⟨0, 0, 1, false⟩, ⟨0, 1, 1, false⟩],
    shelves := [], queue := [], stepCount := 0,
    mask := [[true, true, true, true, true], [true, true, true, true, true]] }
/-- the same two robots with the ids exchanged -/
def rwareFollowS' : State :=
  { rwareFollowS with agentGrid := [[2, 1, 0]], agents := [⟨0, 1, 1, false⟩, ⟨0, 0, 1, false⟩] }
def rwareFollowCfg : Cfg := { timeLimit := 10, sensorRange := 1, highways := [[true, true, true]], goals := [] }

/-- WITNESS (the converse of `rware_phys_collision_reported` FAILS, and `rware_last_iff`'s "collision" is not a
physical one): 1×3 floor, agent 0 at (0,0), agent 1 at (0,1), both facing right, both FORWARD.  The state is
`Consistent`, both actions are legal by the rules, the agents end on the DIFFERENT cells (0,1) and (0,2), yet
`is_collision` reports and the step is LAST (step 1 of 10); with the ids exchanged the same move is MID. -/
theorem rware_follow_terminates_witness :
    Consistent rwareFollowCfg rwareFollowS ∧ legal rwareFollowS 0 1 ∧ legal rwareFollowS 1 1 ∧
    (step rwareFollowCfg rwareFollowS [1, 1] []).1.agents = [⟨0, 1, 1, false⟩, ⟨0, 2, 1, false⟩] ∧
    ((step rwareFollowCfg rwareFollowS [1, 1] []).1.agents.map apos).Nodup ∧
    ¬ rwareNoCollision rwareFollowCfg rwareFollowS [1, 1] ∧
    (step rwareFollowCfg rwareFollowS [1, 1] []).2.stepType = .last ∧
    Consistent rwareFollowCfg rwareFollowS' ∧ (step rwareFollowCfg rwareFollowS' [1, 1] []).2.stepType = .mid ∧
    (step rwareFollowCfg rwareFollowS' [1, 1] []).1.agents = [⟨0, 2, 1, false⟩, ⟨0, 1, 1, false⟩] := by
  decide

/-- `Props.C04.rware_legal_forward_executes` on the two-agent witness: agent 0 (carrying, facing right, free cell ahead) moves -/
example : Consistent Props.C04.rwareWit2Cfg Props.C04.rwareWit2 ∧ legal Props.C04.rwareWit2 0 1 ∧
    (step Props.C04.rwareWit2Cfg Props.C04.rwareWit2 [1, 2] [1]).1.agents[0]? =
      some { (⟨0, 0, 1, true⟩ : Agent) with x := (newPos 2 3 0 0 1).1, y := (newPos 2 3 0 0 1).2 } := by decide

/-- the SOUND direction (all states, all joint actions): if two different agents stand on one cell after the
moves of the step, `is_collision` reports it (so by `Props.C11.rware_last_iff` the step is LAST) -/
theorem rware_phys_collision_reported (cfg : Cfg) (s : State) (a : List Int) (i j : Nat)
    (hij : i < j) (hj : j < s.agents.length)
    (h : apos ((afterMoves cfg s a).agents.getD i default) = apos ((afterMoves cfg s a).agents.getD j default)) :
    ¬ rwareNoCollision cfg s a := RobotWarehouse.phys_collision_reported cfg s a i j hij hj h

/-- … stated on `step`: a step after which two different agents share a cell is LAST -/
theorem rware_phys_collision_last (cfg : Cfg) (s : State) (a d : List Int) (i j : Nat)
    (hij : i < j) (hj : j < s.agents.length)
    (h : apos ((step cfg s a d).1.agents.getD i default) = apos ((step cfg s a d).1.agents.getD j default)) :
    (step cfg s a d).2.stepType = .last := by
  by_cases hl : (step cfg s a d).2.stepType = .last
  · exact hl
  · exact absurd (RobotWarehouse.noCollision_of_not_last hl)
      (RobotWarehouse.phys_collision_reported cfg s a i j hij hj h)
end Props.C07

namespace Props.C05
/-- C05 ("an illegal or masked action ALONE never ends the episode"): from a consistent state, when agent `i`
submits an action that is illegal by the rules, the step is LAST exactly when the same joint action with the
NO-OP in place of the illegal action leads to a collision (caused by the other agents' moves), or the time limit
is reached; in particular, without such a collision and before the limit the step is MID.  ("Collision" = the L1 test
`is_collision`, which also fires when an agent follows a higher-numbered one: `Props.C07.rware_follow_terminates_witness`.) -/
theorem rware_illegal_alone_never_last (cfg : Cfg) (s : State) (hc : Consistent cfg s) (actions draws : List Int)
    (i a : Nat) (hi : i < s.agents.length) (ha : actions[i]? = some (a : Int)) (ha5 : a < 5)
    (hill : ¬ legal s i a) :
    ((step cfg s actions draws).2.stepType = .last ↔
      (¬ Props.C07.rwareNoCollision cfg s (actions.set i 0) ∨ s.stepCount + 1 ≥ cfg.timeLimit)) ∧
    (Props.C07.rwareNoCollision cfg s (actions.set i 0) → s.stepCount + 1 < cfg.timeLimit →
      (step cfg s actions draws).2.stepType = .mid) := by
  rw [RobotWarehouse.step_illegal_eq_noop hc actions draws hi ha ha5 hill]
  exact ⟨RobotWarehouse.last_iff cfg s _ draws, fun h1 h2 => (RobotWarehouse.mid_iff cfg s _ draws).2 ⟨h1, h2⟩⟩

/-- the same for an action masked out by the cached mask, on ANY state (no consistency needed, any integer) -/
theorem rware_masked_alone_never_last (cfg : Cfg) (s : State) (actions draws : List Int) (i : Nat) (a : Int)
    (row : List Bool) (ha : actions[i]? = some a) (hrow : s.mask[i]? = some row)
    (hm : Jx.getWC row false a = false) :
    step cfg s actions draws = step cfg s (actions.set i 0) draws ∧
    ((step cfg s actions draws).2.stepType = .last ↔
      (¬ Props.C07.rwareNoCollision cfg s (actions.set i 0) ∨ s.stepCount + 1 ≥ cfg.timeLimit)) := by
  have h := RobotWarehouse.step_masked_eq_noop cfg s actions draws hrow ha hm
  refine ⟨h, ?_⟩
  rw [h]
  exact RobotWarehouse.last_iff cfg s _ draws

/-- on the witness: the illegal FORWARD of the only agent is a MID step -/
example : Consistent Props.C04.rwareWitCfg Props.C04.rwareWit ∧ ¬ legal Props.C04.rwareWit 0 1 ∧
    Props.C07.rwareNoCollision Props.C04.rwareWitCfg Props.C04.rwareWit ([1].set 0 0) ∧
    Props.C04.rwareWit.stepCount + 1 < Props.C04.rwareWitCfg.timeLimit := by decide
end Props.C05

namespace Props.C11
theorem rware_time_limit (cfg : Cfg) (s : State) (a d : List Int) :
    (step cfg s a d).1.stepCount = s.stepCount + 1 ∧
    (s.stepCount + 1 ≥ cfg.timeLimit → (step cfg s a d).2.stepType = .last) :=
  RobotWarehouse.time_limit cfg s a d

/-- C11 / C05 (both directions, ALL states, joint actions and draws): a step is LAST exactly when `is_collision`
reports a collision after the moves or the incremented step count reaches the time limit — there is no other
cause of termination (in particular not an illegal or masked action, not a delivery).  "Collision" here is the L1
test `is_collision` (`rwareNoCollision`), which is implied by, but NOT equivalent to, two agents on one cell: see
`Props.C07.rware_phys_collision_reported` and the witness `Props.C07.rware_follow_terminates_witness` (audit r6 #1) -/
theorem rware_last_iff (cfg : Cfg) (s : State) (a d : List Int) :
    (step cfg s a d).2.stepType = .last ↔
      (¬ Props.C07.rwareNoCollision cfg s a ∨ s.stepCount + 1 ≥ cfg.timeLimit) :=
  RobotWarehouse.last_iff cfg s a d

/-- … and MID exactly in the complementary case (`step` never emits FIRST) -/
theorem rware_mid_iff (cfg : Cfg) (s : State) (a d : List Int) :
    (step cfg s a d).2.stepType = .mid ↔
      (Props.C07.rwareNoCollision cfg s a ∧ s.stepCount + 1 < cfg.timeLimit) :=
  RobotWarehouse.mid_iff cfg s a d

/-! #### episode level: `run cfg s ps` iterates the L1 `step` over the (joint action, draw) pairs `ps`;
`stateAt cfg s ps k` is the state in which step number `k + 1` is taken -/

/-- C11 (any start state, any play): step number `k + 1` of the play brings the counter to `step_count + k + 1` and is
LAST exactly when a collision is reported in it or that count reaches the time limit -/
theorem rware_run_step (cfg : Cfg) (s : State) (ps : List (List Int × List Int)) (k : Nat)
    (p : List Int × List Int) (r : State × TimeStep Obs) (hp : ps[k]? = some p)
    (hr : (run cfg s ps)[k]? = some r) :
    r.1.stepCount = s.stepCount + (k : Int) + 1 ∧
    (r.2.stepType = .last ↔
      (¬ Props.C07.rwareNoCollision cfg (stateAt cfg s ps k) p.1 ∨ s.stepCount + (k : Int) + 1 ≥ cfg.timeLimit)) :=
  RobotWarehouse.run_step cfg s ps k p r hp hr

/-- index (step number − 1) of the first LAST timestep of a run -/
def rwareFirstLast (l : List (State × TimeStep Obs)) : Option Nat := RobotWarehouse.firstLast l

/-- C11, "in any case there is a LAST at or before step `time_limit`": from a state with step count 0 (a reset
state), every play of at least `time_limit ≥ 1` steps — any joint actions, any draws, collisions or not — has a first
LAST timestep, and its step number is at most `time_limit` -/
theorem rware_episode_last_by_limit (cfg : Cfg) (s : State) (ps : List (List Int × List Int)) (h0 : s.stepCount = 0)
    (T : Nat) (hT : cfg.timeLimit = (T : Int)) (hpos : 0 < T) (hlen : T ≤ ps.length) :
    ∃ k, rwareFirstLast (run cfg s ps) = some k ∧ k + 1 ≤ T :=
  RobotWarehouse.episode_last_by_limit cfg s ps h0 T hT hpos hlen

/-- C11, "if no other cause of termination occurs, the first LAST timestep is exactly at step `time_limit`": from a
state with step count 0, in a play in which no step reports a collision (the only other cause: `rware_last_iff`),
step number `k + 1` is LAST iff `time_limit ≤ k + 1` — every earlier step is not LAST —, and for a play of at least
`time_limit ≥ 1` steps the first LAST timestep is step number `time_limit` exactly -/
theorem rware_episode_first_last (cfg : Cfg) (s : State) (ps : List (List Int × List Int)) (h0 : s.stepCount = 0)
    (hcol : ∀ k p, ps[k]? = some p → Props.C07.rwareNoCollision cfg (stateAt cfg s ps k) p.1) :
    (∀ (k : Nat) (r : State × TimeStep Obs), (run cfg s ps)[k]? = some r →
      (r.2.stepType = .last ↔ cfg.timeLimit ≤ (k : Int) + 1)) ∧
    (∀ T : Nat, cfg.timeLimit = (T : Int) → 0 < T → T ≤ ps.length →
      rwareFirstLast (run cfg s ps) = some (T - 1)) :=
  RobotWarehouse.episode_first_last cfg s ps h0 hcol

/-- … in particular from EVERY generated reset state (`generate cfg d`, any sampled values `d`: its step count is 0):
a play of at least `time_limit ≥ 1` steps has its first LAST at or before step `time_limit` -/
theorem rware_generated_episode_last_by_limit (cfg : Cfg) (d : SpawnDraw) (ps : List (List Int × List Int))
    (T : Nat) (hT : cfg.timeLimit = (T : Int)) (hpos : 0 < T) (hlen : T ≤ ps.length) :
    ∃ k, rwareFirstLast (run cfg (generate cfg d) ps) = some k ∧ k + 1 ≤ T :=
  RobotWarehouse.episode_last_by_limit cfg (generate cfg d) ps rfl T hT hpos hlen

/-- the hypotheses are satisfiable: with `time_limit = 2` the two-step delivery play of the witness has no collision
and its first LAST timestep is step number 2; the play in which both agents of `rwareCollWit`-like position collide
ends earlier (see `Props.C08.rware_collision_step_reward_witness`: LAST at step 1 of 10) -/
example : Props.C04.rwareWit2.stepCount = 0 ∧
    (∀ k p, ([([1, 2], [1]), ([2, 1], [0])] : List (List Int × List Int))[k]? = some p →
      k < 2) ∧
    Props.C07.rwareNoCollision { Props.C04.rwareWit2Cfg with timeLimit := 2 } Props.C04.rwareWit2 [1, 2] ∧
    Props.C07.rwareNoCollision { Props.C04.rwareWit2Cfg with timeLimit := 2 }
      (stateAt { Props.C04.rwareWit2Cfg with timeLimit := 2 } Props.C04.rwareWit2 [([1, 2], [1]), ([2, 1], [0])] 1) [2, 1] ∧
    rwareFirstLast (run { Props.C04.rwareWit2Cfg with timeLimit := 2 } Props.C04.rwareWit2
      [([1, 2], [1]), ([2, 1], [0])]) = some 1 := by
  refine ⟨by decide, ?_, by decide, by decide, by decide⟩
  intro k p h
  rcases Nat.lt_or_ge k 2 with h' | h'
  · exact h'
  · rw [List.getElem?_eq_none (by simpa using h')] at h; cases h
end Props.C11

namespace Props.C12
/-- (partial: copied fields) the observation carries the successor's own mask and step count, the
cached mask is recomputed from the successor's floor, and the sensor vectors are computed from
the successor (not the predecessor) world.  `makeObservations = observe` (L1 = L2 sensors) on every
consistent state is `rware_obs_faithful` below (and is also evaluated by the driver on every consistent
implementation state). -/
theorem rware_obs_copied_partial (cfg : Cfg) (s : State) (a d : List Int) :
    (step cfg s a d).2.obs.mask = (step cfg s a d).1.mask ∧
    (step cfg s a d).2.obs.stepCount = (step cfg s a d).1.stepCount ∧
    (step cfg s a d).1.mask = computeMask (step cfg s a d).1.shelfGrid (step cfg s a d).1.agents ∧
    (step cfg s a d).2.obs.view = makeObservations cfg (step cfg s a d).1.world :=
  RobotWarehouse.obs_copied cfg s a d

/-- on the witness state the L1 sensor vector equals the documented (table-based) one -/
example : makeObservations Props.C04.rwareWitCfg Props.C04.rwareWit.world =
    (observe Props.C04.rwareWitCfg Props.C04.rwareWit).view := by decide

/-- C12 (full strength, all sizes and sensor ranges): on every `Consistent` state the L1 sensor vectors
(`make_agent_observation`, with the clamping of `dynamic_update_slice` and the clamped windows of the
padded channels) equal the documented table-based ones: an entity is reported iff it lies inside the
agent's sensor window, at the slot of its shifted position -/
theorem rware_obs_faithful (cfg : Cfg) (s : State) (hc : Consistent cfg s) :
    makeObservations cfg s.world = (observe cfg s).view := RobotWarehouse.obs_faithful hc

/-- reset: the whole observation built from a consistent generated state is the documented one -/
theorem rware_reset_obs_faithful (cfg : Cfg) (s : State) (hc : Consistent cfg s) :
    resetObs cfg s = observe cfg s := by
  unfold resetObs observe
  rw [RobotWarehouse.obs_faithful hc, ((consistent_iff_good cfg s).1 hc).mask,
    RobotWarehouse.mask_eq_legalMask hc]
  rfl

/-- step: the whole observation emitted by EVERY step without a collision from a consistent state (any joint
action, any draw in the support) — the LAST step of an episode that ends by the time limit included — is the
documented observation of the successor state.  (On a LAST step caused by a collision this is false: known
finding RW2.) -/
theorem rware_step_obs_faithful (cfg : Cfg) (s : State) (a d : List Int) (hc : Consistent cfg s)
    (hv : Props.C07.rwareValidDraw cfg s a d) (hcol : Props.C07.rwareNoCollision cfg s a) :
    (step cfg s a d).2.obs = observe cfg (step cfg s a d).1 :=
  RobotWarehouse.step_obs_faithful_nocoll hc a d hv hcol

/-- the hypotheses are satisfiable by a time-limit terminal step: with `time_limit = 1` the delivery step of the
witness is LAST, has no collision, and its observation is the documented one -/
example : Consistent { Props.C04.rwareWit2Cfg with timeLimit := 1 } Props.C04.rwareWit2 ∧
    Props.C07.rwareValidDraw { Props.C04.rwareWit2Cfg with timeLimit := 1 } Props.C04.rwareWit2 [1, 2] [1] ∧
    Props.C07.rwareNoCollision { Props.C04.rwareWit2Cfg with timeLimit := 1 } Props.C04.rwareWit2 [1, 2] ∧
    (step { Props.C04.rwareWit2Cfg with timeLimit := 1 } Props.C04.rwareWit2 [1, 2] [1]).2.stepType = .last := by
  decide
end Props.C12

namespace Props.C01
/-- reset: the observation built from a generated state (step count 0) has `action_mask ∈ [0, 1]` and
`step_count ∈ [0, time_limit]`; `agents_view` is declared unbounded (`specs.Array`) and listed as such -/
theorem robot_warehouse_reset_obs_in_bounds (cfg : Cfg) (s : State) (hs : s.stepCount = 0) (hT : 0 ≤ cfg.timeLimit) :
    ObsInBounds (obsBounds cfg) (resetObs cfg s) := RobotWarehouse.reset_obs_in_bounds cfg s hs hT

/-- step: for EVERY state whose step count lies in `[0, time_limit)` (the step that reaches `time_limit`, and a
step ended by a collision, included), every joint action and every draw of the resampled requests, every leaf
of the observation is inside its interval of `obsBounds cfg` -/
theorem robot_warehouse_step_obs_in_bounds (cfg : Cfg) (s : State) (a d : List Int) (h0 : 0 ≤ s.stepCount)
    (hT : s.stepCount < cfg.timeLimit) :
    ObsInBounds (obsBounds cfg) (step cfg s a d).2.obs := RobotWarehouse.step_obs_in_bounds cfg s a d h0 hT

/-- the bounds list covers every leaf of the observation -/
theorem robot_warehouse_obs_bounds_cover (cfg : Cfg) (o : Obs) :
    (obsLeaves o).map (·.1) = (obsBounds cfg).map (·.1) := RobotWarehouse.obsBounds_cover cfg o

/-- the bound is attained: with `time_limit = 1` the first step emits `step_count = 1` -/
example : (step { Props.C04.rwareWitCfg with timeLimit := 1 } Props.C04.rwareWit [0] []).2.obs.stepCount = 1 := by decide
/-! NOTE on what the membership theorems of this section do and do not cover (audits r4 #6, r5 #6, r6 #8): the dtype tag of every leaf
is written by `toNValue` (by construction) — a wrong dtype in the real code cannot falsify `….valid (toNValue …) = true`; dtypes and
field order of the real observations are compared by the `robot_warehouse.spec` / `robot_warehouse.state` ops (`nvalue`: field order, shape, dtype, data) and
`jax.eval_shape` in the sweeps.  Shapes are READ OFF the value by `toNValue` (widths off the first row): see `…_obs_valid_only`. -/

/-! #### (wave 4) membership in the DECLARED specs: structure, shapes, dtypes and bounds -/
open Sp PzS PkS MaS

/-- the model's `obsSpec` / `actionSpec` / reward and discount specs ARE the specs generated from the real spec objects
(Gen/Specs.lean) for the catalogue configuration `RobotWarehouse(RandomGenerator(1, 3, 2, num_agents=2, sensor_range=1, 2),
time_limit=9)`: fields `agents_view`, `action_mask`, `step_count`; shapes `(A, num_obs_features) = (2, 66)`, `(A, 5)`, `()`;
dtypes int32, bool, int32; `agents_view` UNBOUNDED (`specs.Array`), mask `[0, 1]`, counter `[0, time_limit]`
SPEC-ONLY second configuration (audit r6 #7): 3 agents, `sensor_range = 2` (`num_obs_features = 8 + 5·24 + 2·25 = 178`; the leaf has
534 elements, but an unbounded `specs.Array` is one row of the table whatever its size), time limit 11 -/
theorem robot_warehouse_obsSpec_generated :
    prefixed "observation_spec." (obsSpec ⟨9, 1, [], []⟩ 2) = declared "robotwarehouse-small" "observation_spec." ∧
    [("action_spec", actionSpec 2)] = declared "robotwarehouse-small" "action_spec" ∧
    [("reward_spec", PzS.rewardSpec)] = declared "robotwarehouse-small" "reward_spec" ∧
    [("discount_spec", PzS.discountSpec)] = declared "robotwarehouse-small" "discount_spec" ∧
    prefixed "observation_spec." (obsSpec ⟨11, 2, [], []⟩ 3) = declared "spec-only-robotwarehouse-3a-r2" "observation_spec." ∧
    [("action_spec", actionSpec 3)] = declared "spec-only-robotwarehouse-3a-r2" "action_spec" ∧
    [("reward_spec", PzS.rewardSpec)] = declared "spec-only-robotwarehouse-3a-r2" "reward_spec" ∧
    [("discount_spec", PzS.discountSpec)] = declared "spec-only-robotwarehouse-3a-r2" "discount_spec" := by
  refine ⟨by decide +kernel, by decide +kernel, by decide +kernel, by decide +kernel, by decide +kernel, by decide +kernel,
    by decide +kernel, by decide +kernel⟩

/-- the invariant behind the membership theorems (`A` agents, a cached `(A, 5)` mask, counter ≥ 0) is established by the
generator for EVERY draw in the support of `spawn_random_entities` and preserved by EVERY step: any integers as joint action
(any length, in the action space or not, masked or not), any integers as draw, MID or LAST, collision or not -/
theorem robot_warehouse_specInv_invariant (cfg : Cfg) (A : Nat) :
    (∀ q d, validSpawn A q cfg.highways d = true → SpecInv A (generate cfg d)) ∧
    (∀ (s : State) (a d : List Int), SpecInv A s → SpecInv A (step cfg s a d).1) :=
  ⟨fun q d hd => RobotWarehouse.generate_specInv cfg A q d hd, fun s a d h => RobotWarehouse.step_specInv cfg A s h a d⟩

/-- every sensor vector has exactly `num_obs_features = 8 + 5·((2r+1)² − 1) + 2·(2r+1)²` entries, for EVERY world and agent index
(each `dynamic_update_slice` keeps the length) -/
theorem robot_warehouse_agentObs_length (cfg : Cfg) (w : World) (i : Nat) :
    (agentObs cfg w i).length = numFeatures cfg.sensorRange := RobotWarehouse.agentObs_length cfg w i

/-- the `reset` observation is accepted by `observation_spec.validate` for EVERY draw of the generator (`A ≥ 1` agents,
`time_limit ≥ 0`, any floor).  NOTE (audit r6 #2): `0 ≤ time_limit` suffices for the RESET observation only; every step theorem
below needs `step_count < time_limit`, i.e. `0 < time_limit` (the constructor accepts `time_limit = 0`; there the first step has
`step_count = 1` outside `[0, 0]`, as for Snake / Connector: `Props.C01.snake_time_limit_zero_witness`).
The dtype tag of every leaf is written by `toNValue` (by construction); dtypes and field order of the real observations are
compared by the `robot_warehouse.spec` / `state` ops and `jax.eval_shape` in the sweeps. -/
theorem robot_warehouse_reset_obs_valid (cfg : Cfg) (A q : Nat) (hA : 0 < A) (hT : 0 ≤ cfg.timeLimit) (d : SpawnDraw)
    (hd : validSpawn A q cfg.highways d = true) :
    (obsSpec cfg A).valid (toNValue (resetTs cfg (generate cfg d)).obs) = true :=
  RobotWarehouse.reset_obs_valid cfg A hA hT _ (RobotWarehouse.generate_specInv cfg A q d hd) rfl

/-- … and on any state satisfying the invariant with counter 0 -/
theorem robot_warehouse_reset_obs_valid_of_inv (cfg : Cfg) (A : Nat) (hA : 0 < A) (hT : 0 ≤ cfg.timeLimit) (s : State)
    (h : SpecInv A s) (h0 : s.stepCount = 0) : (obsSpec cfg A).valid (toNValue (resetTs cfg s).obs) = true :=
  RobotWarehouse.reset_obs_valid cfg A hA hT s h h0

/-- the observation of EVERY `step` — any integers as joint action, any integers as draw, MID or LAST — from every state with
the invariant whose counter has not reached the limit -/
theorem robot_warehouse_step_obs_valid (cfg : Cfg) (A : Nat) (hA : 0 < A) (s : State) (h : SpecInv A s)
    (hlim : s.stepCount < cfg.timeLimit) (a d : List Int) :
    (obsSpec cfg A).valid (toNValue (step cfg s a d).2.obs) = true :=
  RobotWarehouse.step_obs_valid cfg A hA s h hlim a d

example : SpecInv 1 Props.C04.rwareWit := by decide

/-- WHOLE PLAYS: along `run` (the L1 step iterated over ANY (joint action, draw) pairs) from the reset state of ANY draw of the
generator, every observation emitted by one of the first `time_limit` steps is a member of the spec; step `time_limit` is LAST
(`Props.C11.rware_generated_episode_last_by_limit`; composed: `robot_warehouse_episode_obs_valid` below), so this covers every
observation of every episode incl. the terminal one -/
theorem robot_warehouse_obs_valid_along (cfg : Cfg) (A q : Nat) (hA : 0 < A) (d : SpawnDraw)
    (hd : validSpawn A q cfg.highways d = true) (ps : List (List Int × List Int)) (j : Nat)
    (hj : (j : Int) < cfg.timeLimit) (e : State × TimeStep Obs) (he : (run cfg (generate cfg d) ps)[j]? = some e) :
    (obsSpec cfg A).valid (toNValue e.2.obs) = true :=
  RobotWarehouse.run_obs_valid cfg A hA ps _ 0 (RobotWarehouse.generate_specInv cfg A q d hd) rfl j (by simpa using hj) e he

theorem robot_warehouse_run_obs_valid (cfg : Cfg) (A : Nat) (hA : 0 < A) (s : State) (h : SpecInv A s)
    (h0 : s.stepCount = 0) (ps : List (List Int × List Int)) (j : Nat) (hj : (j : Int) < cfg.timeLimit)
    (e : State × TimeStep Obs) (he : (run cfg s ps)[j]? = some e) : (obsSpec cfg A).valid (toNValue e.2.obs) = true :=
  RobotWarehouse.run_obs_valid cfg A hA ps s 0 h (by simpa using h0) j (by simpa using hj) e he

/-- what membership means: `validate` accepts an observation ONLY IF there are `A` sensor vectors with `A · num_obs_features`
entries in all, the mask is `(A, 5)` and the counter lies in `[0, time_limit]` (the sensor VALUES are unconstrained: the leaf is
an unbounded `Array`).  CAVEAT (audit r6 #5): `shape2` reads the width off the FIRST row — a ragged value with the right total is a
member; rectangularity (`Rect2`) is part of `SpecInv` / `ObsOK` and exported for every emitted observation by
`robot_warehouse_step_obs_rect` below. -/
theorem robot_warehouse_obs_valid_only (cfg : Cfg) (A : Nat) (o : Obs) (h : (obsSpec cfg A).valid (toNValue o) = true) :
    shape2 o.view = [A, numFeatures cfg.sensorRange] ∧ o.view.flatten.length = A * numFeatures cfg.sensorRange ∧
    shape2 o.mask = [A, 5] ∧ o.mask.flatten.length = A * 5 ∧ 0 ≤ o.stepCount ∧ o.stepCount ≤ cfg.timeLimit :=
  RobotWarehouse.obs_valid_only cfg A o h

/-- the rectangular facts `valid ∘ toNValue` does not imply (audit r6 #5), for every step observation from a state with the invariant:
`A` sensor vectors EACH of length `num_obs_features`, `A` mask rows EACH of length 5, the counter in `[0, time_limit]` -/
theorem robot_warehouse_step_obs_rect (cfg : Cfg) (A : Nat) (s : State) (h : SpecInv A s)
    (hlim : s.stepCount < cfg.timeLimit) (a d : List Int) :
    Rect2 (step cfg s a d).2.obs.view A (numFeatures cfg.sensorRange) ∧ Rect2 (step cfg s a d).2.obs.mask A 5 ∧
    0 ≤ (step cfg s a d).2.obs.stepCount ∧ (step cfg s a d).2.obs.stepCount ≤ cfg.timeLimit :=
  RobotWarehouse.step_obs_ok cfg A s h hlim a d

/-- ONE statement for whole episodes (audit r6 #9): from the reset state of EVERY draw of the generator, for ANY play of at least
`time_limit ≥ 1` (joint action, draw) pairs: the reset observation is a member of the declared spec, there IS a first LAST
timestep, its 0-based index `k` satisfies `k + 1 ≤ time_limit`, and the observation of every step up to and including it is a
member -/
theorem robot_warehouse_episode_obs_valid (cfg : Cfg) (A q : Nat) (hA : 0 < A) (d : SpawnDraw)
    (hd : validSpawn A q cfg.highways d = true) (T : Nat) (hT : cfg.timeLimit = (T : Int)) (hpos : 0 < T)
    (ps : List (List Int × List Int)) (hlen : T ≤ ps.length) :
    (obsSpec cfg A).valid (toNValue (resetTs cfg (generate cfg d)).obs) = true ∧
    ∃ k, Props.C11.rwareFirstLast (run cfg (generate cfg d) ps) = some k ∧ k + 1 ≤ T ∧
      ∀ j e, j ≤ k → (run cfg (generate cfg d) ps)[j]? = some e → (obsSpec cfg A).valid (toNValue e.2.obs) = true := by
  refine ⟨robot_warehouse_reset_obs_valid cfg A q hA (by omega) d hd, ?_⟩
  obtain ⟨k, hk1, hk2⟩ := Props.C11.rware_generated_episode_last_by_limit cfg d ps T hT hpos hlen
  exact ⟨k, hk1, hk2, fun j e hj he => robot_warehouse_obs_valid_along cfg A q hA d hd ps j (by omega) e he⟩

/-- positive: the reset observation and the observation after a step of the witness; negative: a counter beyond the limit, the
spec of two agents, the spec of another sensor range, a sensor vector one entry short -/
example :
    let cfg := Props.C04.rwareWitCfg
    let s := Props.C04.rwareWit
    (obsSpec cfg 1).valid (toNValue (resetTs cfg s).obs) = true ∧
    (obsSpec cfg 1).valid (toNValue (step cfg s [4] []).2.obs) = true ∧
    (obsSpec cfg 1).valid (toNValue { (resetTs cfg s).obs with stepCount := 11 }) = false ∧
    (obsSpec cfg 2).valid (toNValue (resetTs cfg s).obs) = false ∧
    (obsSpec { cfg with sensorRange := 2 } 1).valid (toNValue (resetTs cfg s).obs) = false ∧
    (obsSpec cfg 1).valid (toNValue { (resetTs cfg s).obs with view := [((resetTs cfg s).obs.view.headD []).drop 1] }) = false := by
  decide +kernel

/-- reward and discount of EVERY step (all states, all actions, all draws) and of `reset` are accepted by `reward_spec`
(Array((), float)) and `discount_spec` (BoundedArray((), float, 0, 1)) -/
theorem robot_warehouse_reward_discount_valid (cfg : Cfg) (s : State) (a d : List Int) (s0 : State) :
    PzS.rewardSpec.valid (scalarArr (step cfg s a d).2.reward) = true ∧
    PzS.discountSpec.valid (scalarArr (step cfg s a d).2.discount) = true ∧
    PzS.rewardSpec.valid (scalarArr (resetTs cfg s0).reward) = true ∧
    PzS.discountSpec.valid (scalarArr (resetTs cfg s0).discount) = true :=
  ⟨(RobotWarehouse.step_reward_discount_valid cfg s a d).1, (RobotWarehouse.step_reward_discount_valid cfg s a d).2,
   (RobotWarehouse.reset_reward_discount_valid cfg s0).1, (RobotWarehouse.reset_reward_discount_valid cfg s0).2⟩

/-- `action_spec.generate_value()` = the all-no-op joint action: the action spec is well-formed, the generated value is a
member, and `step` answers it from every state with the invariant (counter below the limit, any draw) with a protocol-conform
timestep whose observation is a member of the spec -/
theorem robot_warehouse_accepts_generate_value (cfg : Cfg) (A : Nat) (hA : 0 < A) (s : State) (h : SpecInv A s)
    (hlim : s.stepCount < cfg.timeLimit) (d : List Int) :
    (actionSpec A).WF = true ∧ (actionSpec A).valid (actionSpec A).generate = true ∧
    (actionSpec A).generate = actionArr (List.replicate A 0) ∧
    StepOK none false (step cfg s (List.replicate A 0) d).2 = true ∧
    (obsSpec cfg A).valid (toNValue (step cfg s (List.replicate A 0) d).2.obs) = true :=
  RobotWarehouse.accepts_generate_value cfg A hA s h hlim d

/-- membership in `action_spec` is "one entry per agent, each one of 0 … 4" -/
theorem robot_warehouse_action_spec_iff (A : Nat) (as : List Int) :
    (actionSpec A).valid (actionArr as) = true ↔ as.length = A ∧ ∀ a ∈ as, 0 ≤ a ∧ a < 5 :=
  actionSpecN_valid_iff A 5 as
end Props.C01

namespace Props.C08
/-- every goal `(y, x)` of the configuration is a cell of the floor -/
def rwareGoalsInside (cfg : Cfg) : Prop := RobotWarehouse.GoalsInside cfg
instance (cfg : Cfg) : Decidable (rwareGoalsInside cfg) := by unfold rwareGoalsInside; infer_instance

/-- C08, one step.  L2 `deliveries shelves queue goals draws`: go through the goal cells in order; if the
shelf standing on the goal cell (by the shelf TABLE) is in the request queue it is delivered, and its queue
slot is refilled with the drawn id.  From a `Consistent` state, for any joint action without collision and any
draw in the support: the reward of the step is the number of deliveries (positions taken from the successor's
shelf table, queue from the predecessor), and the successor's queue is the L2 queue. -/
theorem rware_step_reward_is_deliveries (cfg : Cfg) (s : State) (a d : List Int) (hc : Consistent cfg s)
    (hg : rwareGoalsInside cfg) (hv : Props.C07.rwareValidDraw cfg s a d) (hcol : Props.C07.rwareNoCollision cfg s a) :
    (step cfg s a d).2.reward =
      [(((deliveries (step cfg s a d).1.shelves s.queue cfg.goals d).1.length : Nat) : Rat)] ∧
    (step cfg s a d).1.queue = (deliveries (step cfg s a d).1.shelves s.queue cfg.goals d).2 :=
  RobotWarehouse.step_reward_deliveries hc hg a d hv hcol


/-- C08, one step, NO hypotheses (any state, any joint action, any draw; the step ended by a collision
included): the reward is a single number, the count of goals that fire in the L1 scan over the goals (`firedCount`
counts the `goalFires` tests of `scanGoals` itself — an L1 quantity; the statement in terms of the RULES is
`rware_step_reward_is_deliveries`), hence a natural number not larger than the number of goals -/
theorem rware_step_reward_l1_count (cfg : Cfg) (s : State) (a d : List Int) :
    (step cfg s a d).2.reward = [((firedCount (afterMoves cfg s a).shelfGrid
      ⟨s.queue, (afterMoves cfg s a).shelves, 0⟩ cfg.goals d : Nat) : Rat)] ∧
    firedCount (afterMoves cfg s a).shelfGrid ⟨s.queue, (afterMoves cfg s a).shelves, 0⟩ cfg.goals d
      ≤ cfg.goals.length := RobotWarehouse.step_reward_fired cfg s a d

/-- a 1×3 floor with the goal in the middle: agent 0 (left, facing right) carries the REQUESTED shelf 0, agent 1
(right, facing left) carries the unrequested shelf 1 -/
def rwareCollWit : State :=
  { shelfGrid := [[1, 0, 2]], agentGrid := [[1, 0, 2]], agents := [⟨0, 0, 1, true⟩, ⟨0, 2, 3, true⟩],
    shelves := [⟨0, 0, 1⟩, ⟨0, 2, 0⟩], queue := [0], stepCount := 0,
    mask := [[true, true, true, true, true], [true, true, true, true, true]] }
def rwareCollCfg : Cfg := { timeLimit := 10, sensorRange := 1, highways := [[false, true, false]], goals := [(1, 0)] }

/-- the hypothesis "no collision" of `rware_step_reward_is_deliveries` cannot be dropped: both agents step onto
the goal cell; the later write of `forward` overwrites the shelf channel there (it shows shelf 1), so the
requested shelf 0 — which the shelf table also has on the goal cell — is NOT counted: reward 0 on this (LAST)
step, one delivery by the tables -/
theorem rware_collision_step_reward_witness :
    Consistent rwareCollCfg rwareCollWit ∧ rwareGoalsInside rwareCollCfg ∧
    Props.C07.rwareValidDraw rwareCollCfg rwareCollWit [1, 1] [1] ∧
    ¬ Props.C07.rwareNoCollision rwareCollCfg rwareCollWit [1, 1] ∧
    (step rwareCollCfg rwareCollWit [1, 1] [1]).2.stepType = .last ∧
    (step rwareCollCfg rwareCollWit [1, 1] [1]).1.shelves = [⟨0, 1, 1⟩, ⟨0, 1, 0⟩] ∧
    (step rwareCollCfg rwareCollWit [1, 1] [1]).1.shelfGrid = [[0, 2, 0]] ∧
    (deliveries (step rwareCollCfg rwareCollWit [1, 1] [1]).1.shelves rwareCollWit.queue rwareCollCfg.goals [1]).1 = [0] ∧
    firedCount (afterMoves rwareCollCfg rwareCollWit [1, 1]).shelfGrid
      ⟨rwareCollWit.queue, (afterMoves rwareCollCfg rwareCollWit [1, 1]).shelves, 0⟩ rwareCollCfg.goals [1] = 0 := by
  decide

/-- each goal cell delivers at most once per step -/
theorem rware_deliveries_at_most_goals (P : List Shelf) (gs : List (Int × Int)) (q ds : List Int) :
    (deliveries P q gs ds).1.length ≤ gs.length := RobotWarehouse.deliveries_length_le P gs q ds

/-- every delivered shelf stands on a goal cell and was requested: its id was in the request queue at the
beginning of the step, or is one of the ids drawn (requested) during the step -/
theorem rware_deliveries_sound (P : List Shelf) (gs : List (Int × Int)) (q ds : List Int) (k : Nat)
    (hl : gs.length ≤ ds.length) (hk : k ∈ (deliveries P q gs ds).1) :
    (∃ g ∈ gs, shelfIdxAt P (g.2, g.1) = some k) ∧ ((k : Int) ∈ q ∨ (k : Int) ∈ ds) :=
  RobotWarehouse.deliveries_sound P gs q ds k hl hk

/-- the draws of every step lie in the support and no step has a collision (the play may run on past the
time limit; a play of an episode satisfies this up to and excluding a step ended by a collision) -/
def rwareValidRun (cfg : Cfg) (s : State) (ps : List (List Int × List Int)) : Prop := RobotWarehouse.ValidRun cfg s ps
instance (cfg : Cfg) (s : State) (ps : List (List Int × List Int)) : Decidable (rwareValidRun cfg s ps) := by
  unfold rwareValidRun; infer_instance

/-- every state of such a run is `Consistent` -/
theorem rware_run_consistent (cfg : Cfg) (s : State) (ps : List (List Int × List Int)) (hc : Consistent cfg s)
    (hv : rwareValidRun cfg s ps) : Consistent cfg (runState cfg s ps) := RobotWarehouse.run_consistent ps s hc hv

/-- C08, whole episode (telescoping over ANY sequence of joint actions and draws): the return is the number
of deliveries of the play (`runDeliveries` = the list of (step, shelf id) pairs, each delivery at a goal cell
listed once) -/
theorem rware_episode_return (cfg : Cfg) (s : State) (ps : List (List Int × List Int)) (hc : Consistent cfg s)
    (hg : rwareGoalsInside cfg) (hv : rwareValidRun cfg s ps) :
    runReturn cfg s ps = (((runDeliveries cfg s ps 0).length : Nat) : Rat) :=
  RobotWarehouse.run_return hg ps s 0 hc hv

/-- the hypotheses are satisfiable by a play with a delivery: agent 0 carries the requested shelf 0 onto the
goal (shelf 1 becomes the request), then turns while agent 1 walks: return 1 = one delivery, (step 0, shelf 0) -/
example : Consistent Props.C04.rwareWit2Cfg Props.C04.rwareWit2 ∧ rwareGoalsInside Props.C04.rwareWit2Cfg ∧
    rwareValidRun Props.C04.rwareWit2Cfg Props.C04.rwareWit2 [([1, 2], [1]), ([2, 1], [0])] ∧
    runDeliveries Props.C04.rwareWit2Cfg Props.C04.rwareWit2 [([1, 2], [1]), ([2, 1], [0])] 0 = [(0, 0)] := by
  decide
example : runReturn Props.C04.rwareWit2Cfg Props.C04.rwareWit2 [([1, 2], [1]), ([2, 1], [0])] = 1 := by
  decide +kernel
end Props.C08

namespace Props.C10
/-- C10: the generator's construction from sampled values satisfying the certificate (as in
`Props.C07.rware_reset_consistent`, plus: every shelf cell is off the highways) passes the spawn certificate
`SpawnOK` evaluated by the driver: consistent, step count 0, nobody carries, no shelf on a highway -/
theorem rware_reset_spawn_ok (cfg : Cfg) (R C : Nat) (hR : 0 < R) (hC : 0 < C)
    (hH : Jx.Grid.shaped cfg.highways R C = true)
    (agentCells : List (Int × Int)) (dirs : List Int) (shelfCells : List (Int × Int)) (queue : List Int)
    (hlen : agentCells.length ≤ dirs.length)
    (haIn : ∀ c ∈ agentCells, inGrid R C c.1 c.2) (haNd : agentCells.Nodup)
    (hdir : ∀ d ∈ dirs, 0 ≤ d ∧ d < 4)
    (hsIn : ∀ c ∈ shelfCells, inGrid R C c.1 c.2) (hsNd : shelfCells.Nodup)
    (hqNd : queue.Nodup) (hqR : ∀ q ∈ queue, 0 ≤ q ∧ q < (shelfCells.length : Int))
    (hoff : ∀ c ∈ shelfCells, Jx.Grid.getWC cfg.highways true c.1 c.2 = false) :
    SpawnOK cfg (genState R C agentCells dirs shelfCells queue) :=
  RobotWarehouse.gen_spawnOK cfg hR hC hH agentCells dirs shelfCells queue hlen haIn haNd hdir hsIn hsNd hqNd hqR hoff

/-- the hypotheses of `rware_reset_spawn_ok` are satisfiable (same instance as for `rware_reset_consistent`; the
shelf cells `(0, 0)`, `(1, 2)` are the non-highway cells of the witness configuration) -/
example : (∀ c ∈ ([(0, 0), (1, 2)] : List (Int × Int)), Jx.Grid.getWC Props.C04.rwareWit2Cfg.highways true c.1 c.2 = false) ∧
    shelfCells Props.C04.rwareWit2Cfg.highways = [(0, 0), (0, 2), (1, 2)] := by decide

/-- the draw `d` lies in the support of `spawn_random_entities` for `numAgents` agents and a request queue of
`queueSize`: the agent cells are `numAgents` PAIRWISE DIFFERENT flat indices of the floor
(`choice(..., replace=False)`), one direction in `0..3` per agent, the queue consists of `queueSize` pairwise
different shelf ids (exactly the test the driver's `instance` op applies to every reset state) -/
def rwareValidSpawn (cfg : Cfg) (numAgents queueSize : Nat) (d : SpawnDraw) : Prop :=
  validSpawn numAgents queueSize cfg.highways d = true
instance (cfg : Cfg) (na q : Nat) (d : SpawnDraw) : Decidable (rwareValidSpawn cfg na q d) := by
  unfold rwareValidSpawn; infer_instance

/-- C10 (ALL draws in the support, any floor): `generate cfg d` — `RandomGenerator.__call__` with the sampled
values `d`: agents on the unravelled cells, shelves on the non-highway cells (`argwhere`), `is_requested` by
scatter, both channels by `place_entities_on_grid`, mask computed, step count 0 — passes the spawn certificate
`SpawnOK` (consistent: agents on pairwise different cells inside the floor, …; step count 0; nobody carries; no shelf
on a highway) and has the advertised numbers of agents, requests and shelves.  The distinctness of the agent
cells is DERIVED from the sampling without replacement (injectivity of `unravel_index`), not assumed. -/
theorem rware_generate_spawn_ok (cfg : Cfg) (R C : Nat) (hR : 0 < R) (hC : 0 < C)
    (hH : Jx.Grid.shaped cfg.highways R C = true) (numAgents queueSize : Nat) (d : SpawnDraw)
    (hv : rwareValidSpawn cfg numAgents queueSize d) :
    SpawnOK cfg (generate cfg d) ∧ (generate cfg d).agents.length = numAgents ∧
    (generate cfg d).queue.length = queueSize ∧
    (generate cfg d).shelves.length = (shelfCells cfg.highways).length :=
  RobotWarehouse.generate_spawnOK cfg hR hC hH numAgents queueSize d hv

/-- the hypotheses are satisfiable: two agents on the flat cells 0 and 3 of the 2×3 witness floor, one request -/
example : rwareValidSpawn Props.C04.rwareWit2Cfg 2 1 ⟨[0, 3], [1, 0], [0]⟩ ∧
    Jx.Grid.shaped Props.C04.rwareWit2Cfg.highways 2 3 = true ∧
    (generate Props.C04.rwareWit2Cfg ⟨[0, 3], [1, 0], [0]⟩).agents = [⟨0, 0, 1, false⟩, ⟨1, 0, 0, false⟩] ∧
    (generate Props.C04.rwareWit2Cfg ⟨[0, 3], [1, 0], [0]⟩).shelves = [⟨0, 0, 1⟩, ⟨0, 2, 0⟩, ⟨1, 2, 0⟩] := by decide

/-- sampling WITH replacement would break it: the same flat cell twice is outside the support, and the state built
from it is not consistent (the second agent overwrites the first on the agents channel) -/
theorem rware_generate_replacement_witness :
    ¬ rwareValidSpawn Props.C04.rwareWit2Cfg 2 1 ⟨[3, 3], [1, 0], [0]⟩ ∧
    ¬ Consistent Props.C04.rwareWit2Cfg (generate Props.C04.rwareWit2Cfg ⟨[3, 3], [1, 0], [0]⟩) := by decide

/-- C10, the floor `_make_warehouse` lays out (ALL `shelf_rows`, `shelf_columns ≥ 1`, `column_height`): the highway
table is a `rows × cols` grid with `rows, cols > 0`, both goal cells lie inside it — on highway cells (the delivery
row), so no shelf is ever spawned on a goal — which discharges the hypotheses `shaped` / `rwareGoalsInside` of the
C07/C08/C10 theorems for every generated configuration -/
theorem rware_layout_ok (l : Layout) (h : 1 ≤ l.shelfColumns) (timeLimit : Int) (sensorRange : Nat) :
    Jx.Grid.shaped l.highways l.rows l.cols = true ∧ 0 < l.rows ∧ 0 < l.cols ∧
    Props.C08.rwareGoalsInside ⟨timeLimit, sensorRange, l.highways, l.goals⟩ ∧
    (∀ g ∈ l.goals, Jx.Grid.getWC l.highways false g.2 g.1 = true) :=
  ⟨RobotWarehouse.layout_shaped l, (RobotWarehouse.layout_pos l).1, (RobotWarehouse.layout_pos l).2,
   RobotWarehouse.layout_goals_inside l h timeLimit sensorRange, RobotWarehouse.layout_goals_on_highway l h⟩

/-- C10 → C07/C11: every generated reset state (any layout, any draw in the support) is `Consistent` with step
count 0, so the step / episode theorems (`rware_step_consistent_no_collision`, `rware_episode_first_last`, …)
apply to it -/
theorem rware_generated_reset (l : Layout) (timeLimit : Int) (sensorRange numAgents queueSize : Nat) (d : SpawnDraw)
    (hv : rwareValidSpawn ⟨timeLimit, sensorRange, l.highways, l.goals⟩ numAgents queueSize d) :
    Consistent ⟨timeLimit, sensorRange, l.highways, l.goals⟩ (generate ⟨timeLimit, sensorRange, l.highways, l.goals⟩ d) ∧
    (generate ⟨timeLimit, sensorRange, l.highways, l.goals⟩ d).stepCount = 0 :=
  ⟨(RobotWarehouse.generate_spawnOK _ (RobotWarehouse.layout_pos l).1 (RobotWarehouse.layout_pos l).2
      (RobotWarehouse.layout_shaped l) numAgents queueSize d hv).1.1, rfl⟩

/-- the smallest layout of the test catalogue (`shelf_rows = 2, shelf_columns = 1, column_height = 2`): 8 × 4 floor -/
example : (Layout.mk 2 1 2).rows = 8 ∧ (Layout.mk 2 1 2).cols = 4 ∧ (Layout.mk 2 1 2).goals = [(1, 7), (2, 7)] ∧
    (shelfCells (Layout.mk 2 1 2).highways) = [(1, 1), (1, 2), (2, 1), (2, 2)] ∧
    rwareValidSpawn ⟨7, 1, (Layout.mk 2 1 2).highways, (Layout.mk 2 1 2).goals⟩ 2 1 ⟨[5, 30], [0, 3], [3]⟩ := by decide
end Props.C10
