/-
Property theorems for RobotWarehouse (R model: the resampled request ids are a draw `d`; every
theorem holds for ALL draws).  Proofs in Env/RobotWarehouse/Lemmas.lean.
-/
import JumanjiModel.Env.RobotWarehouse.Lemmas
import JumanjiModel.Env.RobotWarehouse.Bounds
open Jm RobotWarehouse

namespace Props.C04
/-- the environment's own reaction: an action whose (cached) mask bit is off is replaced by the
no-op, every other action is played as given — per agent -/
theorem rware_step_agrees (row : List Bool) (rows : List (List Bool)) (a : Int) (as : List Int) :
    validActions (row :: rows) (a :: as) =
      (if Jx.getWC row false a then a else 0) :: validActions rows as :=
  RobotWarehouse.validActions_cons row rows a as

/-- a 1×3 floor: the agent (facing right, carrying shelf 1, on a non-highway cell) has shelf 2 in front -/
def rwareWit : State :=
  { shelfGrid := [[1, 2, 0]], agentGrid := [[1, 0, 0]], agents := [⟨0, 0, 1, true⟩],
    shelves := [⟨0, 0, 1⟩, ⟨0, 1, 0⟩], queue := [0], stepCount := 0,
    mask := [[true, false, true, true, true]] }
def rwareWitCfg : Cfg := { timeLimit := 10, sensorRange := 1, highways := [[false, false, true]], goals := [] }

/-- on the witness the L1 mask, the cached mask and the rules agree: only FORWARD is illegal -/
example : computeMask rwareWit.shelfGrid rwareWit.agents = rwareWit.mask ∧ legalMask rwareWit = rwareWit.mask ∧ ¬ legal rwareWit 0 1 := by decide
example : Consistent rwareWitCfg rwareWit := by decide
end Props.C04

namespace Props.C05
/-- a masked-out action (= no-op) never moves or turns the agent and never touches the floor
channels or the shelf table; its only possible effect is to clear the agent's `is_carrying` -/
theorem rware_illegal_is_noop_partial (hw : List (List Bool)) (w : World) (i : Nat) :
    (updateAgent hw w 0 i).shelfGrid = w.shelfGrid ∧ (updateAgent hw w 0 i).agentGrid = w.agentGrid ∧
    (updateAgent hw w 0 i).shelves = w.shelves ∧
    ((updateAgent hw w 0 i).agents = w.agents ∨
     (updateAgent hw w 0 i).agents =
       Jx.setWD w.agents (i : Int) { Jx.getWC w.agents default (i : Int) with carrying := false }) :=
  RobotWarehouse.noop_effect hw w i

/-- DEFECT (holds of the transliterated code, contradicts "the acting entity keeps its holdings"):
an illegal FORWARD played by a carrying agent on a non-highway cell makes it drop its shelf -/
theorem rware_illegal_drops_shelf_witness :
    ¬ legal Props.C04.rwareWit 0 1 ∧
    ((step Props.C04.rwareWitCfg Props.C04.rwareWit [1] []).1.agents.map (·.carrying)) = [false] ∧
    (step Props.C04.rwareWitCfg Props.C04.rwareWit [1] []).2.stepType = .mid := by decide
end Props.C05

namespace Props.C07
/-- conserved for ALL states, actions and draws: the number of shelves, of agents and of request
slots (the floor-picture count is checked on implementation states by `Conserved`) -/
theorem rware_conserved_partial (cfg : Cfg) (s : State) (a d : List Int) :
    (step cfg s a d).1.shelves.length = s.shelves.length ∧
    (step cfg s a d).1.agents.length = s.agents.length ∧
    (step cfg s a d).1.queue.length = s.queue.length := RobotWarehouse.step_lengths cfg s a d
end Props.C07

namespace Props.C11
theorem rware_time_limit (cfg : Cfg) (s : State) (a d : List Int) :
    (step cfg s a d).1.stepCount = s.stepCount + 1 ∧
    (s.stepCount + 1 ≥ cfg.timeLimit → (step cfg s a d).2.stepType = .last) :=
  RobotWarehouse.time_limit cfg s a d
end Props.C11

namespace Props.C12
/-- (partial: copied fields) the observation carries the successor's own mask and step count, the
cached mask is recomputed from the successor's floor, and the sensor vectors are computed from
the successor (not the predecessor) world.  `makeObservations = observe` (L1 = L2 sensors) is
checked by the driver on every consistent implementation state, not proved. -/
theorem rware_obs_copied_partial (cfg : Cfg) (s : State) (a d : List Int) :
    (step cfg s a d).2.obs.mask = (step cfg s a d).1.mask ∧
    (step cfg s a d).2.obs.stepCount = (step cfg s a d).1.stepCount ∧
    (step cfg s a d).1.mask = computeMask (step cfg s a d).1.shelfGrid (step cfg s a d).1.agents ∧
    (step cfg s a d).2.obs.view = makeObservations cfg (step cfg s a d).1.world :=
  RobotWarehouse.obs_copied cfg s a d

/-- on the witness state the L1 sensor vector equals the documented (table-based) one -/
example : makeObservations Props.C04.rwareWitCfg Props.C04.rwareWit.world =
    (observe Props.C04.rwareWitCfg Props.C04.rwareWit).view := by decide
end Props.C12

namespace Props.C01
/-- reset: the observation built from a generated state (step count 0) has `action_mask ∈ [0, 1]` and
`step_count ∈ [0, time_limit]`; `agents_view` is declared unbounded (`specs.Array`) and listed as such -/
theorem robot_warehouse_reset_obs_in_bounds (cfg : Cfg) (s : State) (hs : s.stepCount = 0) (hT : 0 ≤ cfg.timeLimit) :
    ObsInBounds (obsBounds cfg) (resetObs cfg s) := RobotWarehouse.reset_obs_in_bounds cfg s hs hT

/-- step: for EVERY state whose step count lies in `[0, time_limit)` (the step that reaches `time_limit`, and a
step ended by a collision, included), every joint action and every draw of the resampled requests, every leaf
of the observation is inside its interval of `obsBounds cfg` -/
theorem robot_warehouse_step_obs_in_bounds (cfg : Cfg) (s : State) (a d : List Int) (h0 : 0 ≤ s.stepCount)
    (hT : s.stepCount < cfg.timeLimit) :
    ObsInBounds (obsBounds cfg) (step cfg s a d).2.obs := RobotWarehouse.step_obs_in_bounds cfg s a d h0 hT

/-- the bounds list covers every leaf of the observation -/
theorem robot_warehouse_obs_bounds_cover (cfg : Cfg) (o : Obs) :
    (obsLeaves o).map (·.1) = (obsBounds cfg).map (·.1) := RobotWarehouse.obsBounds_cover cfg o

/-- the bound is attained: with `time_limit = 1` the first step emits `step_count = 1` -/
example : (step { Props.C04.rwareWitCfg with timeLimit := 1 } Props.C04.rwareWit [0] []).2.obs.stepCount = 1 := by decide
end Props.C01
