/-
Property theorems for RubiksCube, ALL cube sizes `n`, all colourings.  Proofs live in
Env/RubiksCube/Lemmas.lean (physical model, group laws, conservation, solvability, solved test, encodings,
colour-blindness of the L1 moves), Env/RubiksCube/General.lean (the L1 index manipulation of utils.py IS the
physical move, for every `n`) and Env/RubiksCube/Tables.lean (independent kernel evaluation of the same fact for
the sizes 2 … 7 named by the property, `decide +kernel` on List-encoded permutations).

Two layers.  The rule level (L2) is the physical cube: stickers are points of ℤ³ (`emb`), a move turns the points
of one layer by a quarter/half turn about the face normal (`physTurn`), `applyMove`/`move` is that turn read on
the `(6, n, n)` array.  L1 is the transliteration of utils.py / env.py (`rotateCube`: the six index tables,
`rot90`, gather, `roll`, scatter, `lax.switch`; `flattenAction`; `isSolved` by max/min; `step`).
Wave 2 (audit r3): Env/RubiksCube/Episode.lean (declared specs `obsSpec` / `actionSpec` as `Sp` values and membership of what
`reset` / `step` emit, the step protocol for all states, `reset`, whole episodes `run`, reachability along plays, the solved test
for all sizes) on top of Env/PuzzleSpecValid.lean (scalar-bounded `validate`) and Env/EpisodeLimit.lean (generic episode theorem).
A `Move` ⟨face, depth, amt⟩ is `legal n` iff it lies in the action space `[6, n / 2, 3]`; `m.act` is its integer
action; direction 0 = clockwise, 1 = anticlockwise, 2 = half turn.
-/
import JumanjiModel.Env.RubiksCube.General
import JumanjiModel.Env.RubiksCube.Tables
import JumanjiModel.Env.RubiksCube.BoundsLemmas
import JumanjiModel.Env.RubiksCube.Episode
open Jm Jx RubiksCube

namespace Props.C17

/-! #### every action is the physical move (all sizes) -/

/-- `emb` (array position ↦ centre of the sticker in space) is injective on the array: `unemb` inverts it -/
theorem rubik_unemb_emb (n : Nat) (p : Pos) (h : p.Valid n) : unemb n (emb n p) = p := unemb_emb h

/-- rule level only (the claim about the IMPLEMENTATION's index tables is `rubik_l1_move_is_physical` below): the physical
turn maps the surface of the cube to itself — the sticker at `p` goes to the position `dstPos p` of the array whose centre is
the centre of `p` turned about the normal of face `f` (if it lies in layer `d`) -/
theorem rubik_physTurn_stays_on_surface (n f d amt : Nat) (p : Pos) (h : p.Valid n) :
    (dstPos n f d amt p).Valid n ∧ emb n (dstPos n f d amt p) = physTurn n f d amt (emb n p) :=
  ⟨dstPos_valid f d amt h, emb_dstPos f d amt h⟩

/-- the colouring after the move: position `p` shows the sticker that was at `srcPos p`, the position from which
the physical move brings a sticker to `p` -/
theorem rubik_move_sticker {α : Type} [Inhabited α] (n f d amt : Nat) (c : Cube α) (p : Pos) (h : p.Valid n) :
    getP default (applyMove n f d amt c) p = getP default c (srcPos n f d amt p) ∧
    dstPos n f d amt (srcPos n f d amt p) = p ∧ srcPos n f d amt (dstPos n f d amt p) = p :=
  ⟨getP_applyMove n f d amt c h, dst_src f d amt h, src_dst f d amt h⟩

/-- stickers outside the turned layer stay where they are -/
theorem rubik_outside_layer_fixed (n f d amt : Nat) (p : Pos) (h : p.Valid n) (ho : ¬ inLayer n f d (emb n p)) :
    srcPos n f d amt p = p := srcPos_outside f d amt h ho

/-- a move is a bijection of the positions: a fixed permutation that does not depend on the colouring -/
theorem rubik_move_bijective (n f d amt : Nat) : ((allPos n).map (srcPos n f d amt)).Perm (allPos n) :=
  perm_map_srcPos n f d amt

/-- every move conserves the multiset of stickers -/
theorem rubik_conserves_multiset {α : Type} [Inhabited α] (n f d amt : Nat) (c : Cube α) (hc : Shaped n c) :
    (applyMove n f d amt c).flatten.flatten.Perm c.flatten.flatten := applyMove_perm f d amt hc

/-! #### group laws (all sizes, all colourings; direction 0 = clockwise, 1 = anticlockwise, 2 = half turn) -/

theorem rubik_cw_ccw_id {α : Type} [Inhabited α] (n f d : Nat) (c : Cube α) (hc : Shaped n c) :
    applyMove n f d 1 (applyMove n f d 0 c) = c ∧ applyMove n f d 0 (applyMove n f d 1 c) = c :=
  ⟨applyMove_cw_ccw f d hc, applyMove_ccw_cw f d hc⟩

theorem rubik_half_eq_cw_cw {α : Type} [Inhabited α] (n f d : Nat) (c : Cube α) :
    applyMove n f d 2 c = applyMove n f d 0 (applyMove n f d 0 c) ∧
    applyMove n f d 2 c = applyMove n f d 1 (applyMove n f d 1 c) :=
  ⟨(applyMove_half_eq n f d c).symm, (applyMove_half_eq' n f d c).symm⟩

theorem rubik_cw_four_id {α : Type} [Inhabited α] (n f d : Nat) (c : Cube α) (hc : Shaped n c) :
    applyMove n f d 0 (applyMove n f d 0 (applyMove n f d 0 (applyMove n f d 0 c))) = c :=
  applyMove_cw_four f d hc

theorem rubik_half_half_id {α : Type} [Inhabited α] (n f d : Nat) (c : Cube α) (hc : Shaped n c) :
    applyMove n f d 2 (applyMove n f d 2 c) = c := applyMove_half_half f d hc

/-- every move is undone by the opposite move, every move sequence by the reversed sequence of opposites -/
theorem rubik_inverse_sequence {α : Type} [Inhabited α] (n : Nat) (c : Cube α) (hc : Shaped n c) (ms : List Move) :
    playMoves n (playMoves n c ms) (invMoves ms) = c := playMoves_inv hc ms

/-! #### the implementation's index manipulation (L1) -/

/-- `rotate_cube` does not look at the colours (all sizes): recolouring by any `g` commutes with every move -/
theorem rubik_l1_colour_blind {α β : Type} (g : α → β) (c : Cube α) (flat : Int) :
    rotateCube (mapC g c) flat = mapC g (rotateCube c flat) := rotateCube_mapC g c flat

/-- ALL sizes: the L1 move selected by `flatten_action` of an action of the action space is the physical
move, on every colouring -/
theorem rubik_l1_move_is_physical {α : Type} [Inhabited α] (n : Nat) (c : Cube α)
    (hc : Shaped n c) (m : Move) (hm : legal n m) : rotateCube c (flattenAction n m.act) = move n c m :=
  rotateCube_eq_move_of_table (tableOK_all _) hc hm

/-- the same fact for the sizes 2 … 7 by kernel evaluation of all 18·⌊n/2⌋ L1 moves on the position-labelled cube
(independent of General.lean) -/
theorem rubik_l1_tables_2_to_7 (n : Nat) (hn : 2 ≤ n ∧ n ≤ 7) : tableOK n = true := tableOK_of_size hn

/-- hence L1 plays are rule-level plays, conserve the stickers and are undone by the inverse sequence -/
theorem rubik_l1_play {α : Type} [Inhabited α] (n : Nat) (c : Cube α) (hc : Shaped n c)
    (ms : List Move) (hl : ∀ m ∈ ms, legal n m) :
    (ms.map (fun m => flattenAction n m.act)).foldl rotateCube c = playMoves n c ms ∧
    (playMoves n c ms).flatten.flatten.Perm c.flatten.flatten :=
  ⟨foldl_rotateCube_eq_playMoves (tableOK_all _) hc hl, playMoves_perm hc ms⟩

example : legal 3 ⟨4, 0, 2⟩ ∧ Shaped 3 (goal 3) := ⟨by decide, shaped_goal 3⟩

/-! #### encodings -/

/-- flat ↔ (face, depth, direction) are mutually inverse on the action space (all sizes) -/
theorem rubik_unflatten_flatten (n : Nat) (m : Move) (h : legal n m) :
    Move.ofFlat n (Move.flat n m) = m ∧ Move.flat n m < 18 * (n / 2) := ⟨ofFlat_flat h, flat_lt h⟩

theorem rubik_flatten_unflatten (n i : Nat) (h : i < 18 * (n / 2)) :
    Move.flat n (Move.ofFlat n i) = i ∧ legal n (Move.ofFlat n i) := ⟨flat_ofFlat i, legal_ofFlat h⟩

/-- the integer functions `flatten_action` / `unflatten_action` of utils.py are these encodings -/
theorem rubik_l1_encodings (n : Nat) (m : Move) (i : Nat) :
    flattenAction n m.act = ((Move.flat n m : Nat) : Int) ∧ unflattenAction n (i : Int) = (Move.ofFlat n i).act :=
  ⟨flattenAction_cast n m, unflattenAction_cast n i⟩

/-! #### solved test and solvability -/

/-- `is_solved` accepts exactly the cubes whose six faces are each of one colour (all sizes) -/
theorem rubik_solved_iff (n : Nat) (c : Cube Int) (hc : Shaped n c) : isSolved c = true ↔ Monochrome n c :=
  isSolved_iff hc

/-- the same for ALL sizes (even and odd) in closed form: `is_solved` accepts exactly the cubes `uniformCube n k` = face `f`
entirely of colour `k f`, for ANY six colours `k` (not only `k f = f`, not only permutations of the six colours) -/
theorem rubik_solved_iff_uniform (n : Nat) (c : Cube Int) (hc : Shaped n c) :
    isSolved c = true ↔ ∃ k : Nat → Int, c = uniformCube n k := isSolved_iff_uniform hc

/-- `make_solved_cube` is the goal (face `f` of colour `f`) and passes the test -/
theorem rubik_goal (n : Nat) : solvedCube n = goal n ∧ Monochrome n (goal n) ∧ isSolved (solvedCube n) = true :=
  ⟨solvedCube_eq_goal n, monochrome_goal n, isSolved_solvedCube n⟩

/-- odd `n`: no action of the action space moves a centre sticker … -/
theorem rubik_centres_fixed (n : Nat) (hodd : n % 2 = 1) (m : Move) (hm : legal n m) (f : Nat) (hf : f < 6) :
    srcPos n m.face m.depth m.amt (centre n f) = centre n f := srcPos_centre hodd hm hf

/-- … so for odd `n` the solved test accepts, among the cubes reachable from the goal, exactly the goal (for even
`n` a reachable cube with six one-coloured faces is the goal up to a rotation of the whole cube, e.g. U then D' on
the 2×2×2) -/
theorem rubik_solved_reachable_is_goal (n : Nat) (hodd : n % 2 = 1) (c : Cube Int) (hr : Reachable n c) :
    isSolved c = true ↔ c = goal n := by
  have hc : Shaped n c := by obtain ⟨ms, _, e⟩ := hr; rw [← e]; exact shaped_playMoves (shaped_goal n) ms
  constructor
  · intro h; exact reachable_monochrome_eq_goal hodd hr ((isSolved_iff hc).1 h)
  · intro h; rw [h, ← solvedCube_eq_goal]; exact isSolved_solvedCube n

example : Reachable 3 (playMoves 3 (goal 3) [⟨0, 0, 0⟩, ⟨2, 0, 1⟩]) ∧ 3 % 2 = 1 :=
  ⟨⟨[⟨0, 0, 0⟩, ⟨2, 0, 1⟩], by decide, rfl⟩, rfl⟩

/-- even `n`: the statement above is FALSE — U followed by D' on the 2×2×2 is reachable, passes `is_solved` (reward 1, LAST)
and is not the goal (it is the goal turned as a whole about the vertical axis).  What holds for even `n` is
`rubik_solved_iff_uniform` (six uniform faces); that a REACHABLE uniform cube of even size is one of the 24 rotations of the
goal is NOT proved here (open: needs the invariant that every corner cubie is moved rigidly, see the report). -/
theorem rubik_even_solved_not_goal_witness :
    Reachable 2 (playMoves 2 (goal 2) [⟨0, 0, 0⟩, ⟨5, 0, 1⟩]) ∧
    isSolved (playMoves 2 (goal 2) [⟨0, 0, 0⟩, ⟨5, 0, 1⟩]) = true ∧
    playMoves 2 (goal 2) [⟨0, 0, 0⟩, ⟨5, 0, 1⟩] ≠ goal 2 ∧
    playMoves 2 (goal 2) [⟨0, 0, 0⟩, ⟨5, 0, 1⟩] = uniformCube 2 (fun f => [0, 2, 3, 4, 1, 5].getD f 0) :=
  ⟨⟨[⟨0, 0, 0⟩, ⟨5, 0, 1⟩], by decide, rfl⟩, by decide, by decide, by decide⟩

/-- whatever is reachable from the goal by moves of the action space is solvable back to it, and stays reachable
under further play (all sizes, rule level) -/
theorem rubik_reachable_solvable (n : Nat) (c : Cube Int) (h : Reachable n c) (ms : List Move)
    (hl : ∀ m ∈ ms, legal n m) : Solvable n c ∧ Reachable n (playMoves n c ms) ∧ Solvable n (playMoves n c ms) :=
  ⟨reachable_solvable h, reachable_play h hl, reachable_solvable (reachable_play h hl)⟩

/-- ALL sizes: every state produced by `reset` (scramble of any number of legal flat actions from the solved cube) and then by
ANY play of `env.step` with actions of the action space (any length, through LAST or not) is reachable from the goal and
solvable: the reset state, every state listed by `run`, and the final state -/
theorem rubik_reset_and_play_solvable (cfg : Cfg) (scr : List Move) (hs : ∀ m ∈ scr, legal cfg.n m)
    (ms : List Move) (hm : ∀ m ∈ ms, legal cfg.n m) :
    let s0 := (reset cfg (scr.map (fun m => flattenAction cfg.n m.act))).1
    Reachable cfg.n s0.cube ∧ Solvable cfg.n s0.cube ∧
    (∀ r ∈ run cfg s0 (ms.map Move.act), Reachable cfg.n r.1.cube ∧ Solvable cfg.n r.1.cube) ∧
    Reachable cfg.n (ms.foldl (fun s m => (step cfg s m.act).1) s0).cube ∧
    Solvable cfg.n (ms.foldl (fun s m => (step cfg s m.act).1) s0).cube := by
  intro s0
  have r0 : Reachable cfg.n s0.cube := scramble_reachable (tableOK_all cfg.n) hs
  have rf := foldl_step_reachable cfg s0 r0 ms hm
  exact ⟨r0, reachable_solvable r0, run_reachable cfg s0 r0 ms hm, rf, reachable_solvable rf⟩

example : legal 3 ⟨0, 0, 0⟩ ∧ legal 3 ⟨3, 0, 2⟩ ∧ (run ⟨3, 5⟩ (reset ⟨3, 5⟩ [0, 7]).1 [(0, 0, 0), (3, 0, 2)]).length = 2 :=
  ⟨by decide, by decide, by rw [run_length]; rfl⟩

/-- … and along whole episodes: reachability is an invariant of `step` -/
theorem rubik_step_keeps_reachable (cfg : Cfg) (s : State) (hr : Reachable cfg.n s.cube)
    (m : Move) (hm : legal cfg.n m) : Reachable cfg.n (step cfg s m.act).1.cube :=
  step_reachable (tableOK_all _) cfg rfl hr hm
end Props.C17

namespace Props.C10
/-- ALL sizes: the scramble of the generator (any number of draws, each an action of the action space) is a
play of physical moves from the goal; it is solvable and has every colour exactly as often as the goal -/
theorem rubik_scramble_solvable (n : Nat) (scr : List Move) (hs : ∀ m ∈ scr, legal n m) :
    let c := scramble n (scr.map (fun m => flattenAction n m.act))
    c = playMoves n (goal n) scr ∧ Solvable n c ∧ c.flatten.flatten.Perm (goal n).flatten.flatten := by
  intro c
  have e : c = playMoves n (goal n) scr := scramble_eq_playMoves (tableOK_all _) hs
  refine ⟨e, reachable_solvable (scramble_reachable (tableOK_all _) hs), ?_⟩
  rw [e]; exact playMoves_perm (shaped_goal n) scr

/-- all sizes, rule level: a scramble is solved by the reversed sequence of opposite moves -/
theorem rubik_scramble_undone (n : Nat) (scr : List Move) :
    playMoves n (playMoves n (goal n) scr) (invMoves scr) = goal n := playMoves_inv (shaped_goal n) scr
end Props.C10

namespace Props.C08
/-- sparse reward: 1 exactly when the new cube passes the solved test, else 0 (all sizes) -/
theorem rubik_sparse_reward (cfg : Cfg) (s : State) (a : Int × Int × Int) :
    (step cfg s a).2.reward = [if isSolved (step cfg s a).1.cube = true then 1 else 0] := step_reward cfg s a

/-- a non-zero reward is 1, is given on a solved cube and ends the episode: so the return of an episode is its
last reward, 1 iff it ended on a solved cube -/
theorem rubik_reward_only_at_solved_end (cfg : Cfg) (s : State) (a : Int × Int × Int)
    (h : (step cfg s a).2.reward ≠ [0]) :
    (step cfg s a).2.reward = [1] ∧ isSolved (step cfg s a).1.cube = true ∧ (step cfg s a).2.stepType = .last :=
  step_reward_pos cfg s a h
end Props.C08

namespace Props.C09
/-- ALL sizes: the transliterated step (flatten_action, lax.switch over the index tables, max/min solved test,
reward, termination) equals the rule-level step (physical move; reward 1 and LAST iff every face is of one
colour; LAST at the time limit): state, step type, reward, discount and observation -/
theorem rubik_step_eq_rules (cfg : Cfg) (s : State) (hc : Shaped cfg.n s.cube) (m : Move)
    (hm : legal cfg.n m) : step cfg s m.act = stepL2 cfg s m :=
  step_eq_stepL2 (tableOK_all _) cfg rfl hc hm

/-- all sizes: the same, given only that the L1 move is the physical move on this cube -/
theorem rubik_step_eq_rules_of_move (cfg : Cfg) (s : State) (m : Move)
    (H : rotateCube s.cube (flattenAction cfg.n m.act) = move cfg.n s.cube m) : step cfg s m.act = stepL2 cfg s m :=
  step_eq_stepL2_of cfg s m H

/-- the shape is preserved, so the refinement applies along whole episodes -/
theorem rubik_shape_preserved (cfg : Cfg) (s : State) (m : Move) : Shaped cfg.n (stepL2 cfg s m).1.cube :=
  shaped_move cfg.n s.cube m
end Props.C09

namespace Props.C07
/-- ALL sizes: `step` conserves the multiset of stickers -/
theorem rubik_step_conserves (cfg : Cfg) (s : State) (hc : Shaped cfg.n s.cube) (m : Move)
    (hm : legal cfg.n m) : (step cfg s m.act).1.cube.flatten.flatten.Perm s.cube.flatten.flatten := by
  rw [step_cube]
  rw [show flattenAction cfg.n m.act = flattenAction cfg.n ((m.face : Int), (m.depth : Int), (m.amt : Int)) from rfl,
    rotateCube_eq_move_of_table (tableOK_all _) hc hm]
  exact applyMove_perm _ _ _ hc
end Props.C07

namespace Props.C11
/-- a step is LAST exactly when the step count reaches the time limit or the new cube is solved; the step
count grows by one per step -/
theorem rubik_last_iff (cfg : Cfg) (s : State) (a : Int × Int × Int) :
    (step cfg s a).2.stepType = .last ↔
      (cfg.timeLimit ≤ (step cfg s a).1.stepCount ∨ isSolved (step cfg s a).1.cube = true) := step_last_iff cfg s a

theorem rubik_step_count (cfg : Cfg) (s : State) (a : Int × Int × Int) :
    (step cfg s a).1.stepCount = s.stepCount + 1 := step_count cfg s a

/-- EPISODE level (`run` = the L1 `step` iterated, no auto-reset): from any state with step count 0 (every reset state), for
ANY action values (in the action space or not) and any time limit `T > 0`, if at least `T` actions are played then the first
LAST comes at a step `k` with `0 < k ≤ T` — never later; all steps before it are MID on unsolved cubes; and if none of the
first `T − 1` cubes is solved then `k = T` exactly — never earlier -/
theorem rubik_episode_ends_by_limit (cfg : Cfg) (T : Nat) (hT : cfg.timeLimit = (T : Int)) (hpos : 0 < T) (s0 : State)
    (h0 : s0.stepCount = 0) (as : List (Int × Int × Int)) (hlen : T ≤ as.length) :
    ∃ k, 0 < k ∧ k ≤ T ∧
      (∃ r, (run cfg s0 as)[k - 1]? = some r ∧ r.2.stepType = .last) ∧
      (∀ j, j < k - 1 → ∃ r, (run cfg s0 as)[j]? = some r ∧ r.2.stepType = .mid ∧ isSolved r.1.cube = false) ∧
      ((∀ j r, j < T - 1 → (run cfg s0 as)[j]? = some r → isSolved r.1.cube = false) → k = T) := by
  obtain ⟨k, h1, h2, ⟨e1, e2, _⟩, h4⟩ := episode_ends_by_limit cfg T hT hpos s0 h0 as hlen
  exact ⟨k, h1, h2, e1, e2, h4⟩

/-- `run` is nothing but the iteration of `step` -/
theorem rubik_run_unfold (cfg : Cfg) (s : State) (a : Int × Int × Int) (as : List (Int × Int × Int)) :
    run cfg s [] = [] ∧ run cfg s (a :: as) = step cfg s a :: run cfg (step cfg s a).1 as := ⟨rfl, rfl⟩

example : (reset ⟨3, 4⟩ [0, 7]).1.stepCount = 0 ∧ (4 : Nat) ≤ [(0, 0, 0), (1, 0, 1), (2, 0, 2), (3, 0, 0), (5, 0, 1)].length :=
  ⟨rfl, by decide⟩
end Props.C11

namespace Props.C12
/-- the observation returned by `step` is the observation function of the successor state, which is the
documented one: the cube and the step count, copied -/
theorem rubik_obs_faithful (cfg : Cfg) (s : State) (a : Int × Int × Int) :
    (step cfg s a).2.obs = observe (step cfg s a).1 ∧
    observe (step cfg s a).1 = ⟨(step cfg s a).1.cube, (step cfg s a).1.stepCount⟩ := ⟨step_obs cfg s a, rfl⟩

/-- the observation returned by `reset` is the same function of the reset state: the scrambled cube and step count 0 -/
theorem rubik_reset_obs_faithful (cfg : Cfg) (flats : List Int) :
    (reset cfg flats).2.obs = observe (reset cfg flats).1 ∧
    (reset cfg flats).2.obs = ⟨scramble cfg.n flats, 0⟩ ∧ (reset cfg flats).1 = genState cfg.n flats := reset_obs cfg flats
end Props.C12

namespace Props.C03
/-- `step` on ANY state (reachable or not, before or after LAST) with ANY action value (in the action space or not) returns a
protocol-conform timestep: never FIRST, scalar reward and discount, discount in [0, 1], MID never with zero discount, LAST
with zero discount (`StepOK none false` is the predicate the driver evaluates on the implementation's timesteps) -/
theorem rubik_step_protocol (cfg : Cfg) (s : State) (a : Int × Int × Int) :
    StepOK none false (step cfg s a).2 = true ∧
    (step cfg s a).2.stepType ≠ .first ∧ (step cfg s a).2.reward.length = 1 ∧
    ((step cfg s a).2.discount = [0] ∨ (step cfg s a).2.discount = [1]) ∧
    ((step cfg s a).2.stepType = .mid → (step cfg s a).2.discount = [1]) ∧
    ((step cfg s a).2.stepType = .last → (step cfg s a).2.discount = [0]) :=
  ⟨step_protocol cfg s a, step_protocol_explicit cfg s a⟩

/-- `reset` (any scramble) returns FIRST with reward 0 and discount 1 of the scalar shape -/
theorem rubik_reset_protocol (cfg : Cfg) (flats : List Int) :
    ResetOK none (reset cfg flats).2 = true ∧ (reset cfg flats).2.stepType = .first ∧
    (reset cfg flats).2.reward = [0] ∧ (reset cfg flats).2.discount = [1] := reset_protocol cfg flats

/-- `step` ends with the combinator `lax.cond(done, termination, transition, reward, obs)` -/
theorem rubik_step_uses (cfg : Cfg) (s : State) (a : Int × Int × Int) :
    (step cfg s a).2 = condLast (decide ((step cfg s a).1.stepCount ≥ cfg.timeLimit) || isSolved (step cfg s a).1.cube)
      [sparseReward (step cfg s a).1] (observe (step cfg s a).1) := rfl
end Props.C03

namespace Props.C01
open PzB
/-- the observation returned by `reset` (ALL cube sizes; the scramble is any sequence of draws of the action space; time
limit ≥ 0): every leaf listed in `obsBounds cfg` is present and within its interval: `cube` ∈ [0, 5],
`step_count` ∈ [0, time_limit] -/
theorem rubiks_cube_reset_obs_in_bounds (cfg : Cfg) (hT : 0 ≤ cfg.timeLimit) (scr : List Move)
    (hs : ∀ m ∈ scr, legal cfg.n m) :
    ObsInBounds (obsBounds cfg)
      (obsLeaves (observe (genState cfg.n (scr.map (fun m => flattenAction cfg.n m.act))))) :=
  RubiksCube.reset_obs_in_bounds cfg hT scr hs

/-- the same for `step` (ALL sizes), for every `(6, n, n)` cube whose stickers are colours 0..5 and every move of the action
space, including the terminal step; the time limit has not been reached before the step (`0 ≤ step_count < time_limit`).
Uses the conservation of the sticker multiset (C07). -/
theorem rubiks_cube_step_obs_in_bounds (cfg : Cfg) (s : State) (hc : Shaped cfg.n s.cube) (m : Move) (hm : legal cfg.n m)
    (h : ColoursInRange s.cube) (hs : 0 ≤ s.stepCount ∧ s.stepCount < cfg.timeLimit) :
    ObsInBounds (obsBounds cfg) (obsLeaves (step cfg s m.act).2.obs) :=
  RubiksCube.step_obs_in_bounds cfg s hc m hm h hs

/-- shape and colour range hold after `reset` and are preserved by every move of the action space -/
theorem rubik_coloursInRange_invariant (cfg : Cfg) :
    (∀ scr : List Move, (∀ m ∈ scr, legal cfg.n m) →
      ColoursInRange (genState cfg.n (scr.map (fun m => flattenAction cfg.n m.act))).cube ∧
      Shaped cfg.n (genState cfg.n (scr.map (fun m => flattenAction cfg.n m.act))).cube) ∧
    (∀ (s : State) (m : Move), Shaped cfg.n s.cube → legal cfg.n m → ColoursInRange s.cube →
      ColoursInRange (step cfg s m.act).1.cube ∧ Shaped cfg.n (step cfg s m.act).1.cube) :=
  ⟨fun scr hs => RubiksCube.scramble_ok cfg.n scr hs,
   fun s m hc hm h => ⟨RubiksCube.step_coloursInRange cfg s hc m hm h, RubiksCube.step_shaped cfg s hc m hm⟩⟩

example : ColoursInRange (goal 3) ∧ Shaped 3 (goal 3) := ⟨by decide, shaped_goal 3⟩

/-! NOTE on what the membership theorems of this section do and do not cover (audits r4 #6, r5 #6, r6 #8): the dtype tag of every leaf
is written by `toNValue` (by construction) — a wrong dtype in the real code cannot falsify `….valid (toNValue …) = true`; dtypes and
field order of the real observations are compared by the `rubiks_cube.spec` / `rubiks_cube.state` ops (`nvalue`: field order, shape, dtype, data) and
`jax.eval_shape` in the sweeps.  Shapes are READ OFF the value by `toNValue` (widths off the first row): see `…_obs_valid_only`. -/

/-! #### membership in the DECLARED specs (structure, shapes, dtypes and bounds; audit r3 entry 9) -/
open Sp PzS

/-- the model's `obsSpec` / `actionSpec` / reward and discount specs ARE the specs generated from the real spec objects
(Gen/Specs.lean) for the catalogue configurations of RubiksCube
SPEC-ONLY third configuration: cube size 4 (depth `4 / 2 = 2`, unlike sizes 2 and 3 where it is 1), time limit 11 -/
theorem rubik_obsSpec_generated :
    prefixed "observation_spec." (obsSpec ⟨3, 12⟩) = declared "rubikscube-3" "observation_spec." ∧
    prefixed "observation_spec." (obsSpec ⟨2, 7⟩) = declared "rubikscube-2" "observation_spec." ∧
    [("action_spec", actionSpec ⟨3, 12⟩)] = declared "rubikscube-3" "action_spec" ∧
    [("action_spec", actionSpec ⟨2, 7⟩)] = declared "rubikscube-2" "action_spec" ∧
    [("reward_spec", rewardSpec)] = declared "rubikscube-3" "reward_spec" ∧
    [("discount_spec", discountSpec)] = declared "rubikscube-3" "discount_spec" ∧
    [("reward_spec", rewardSpec)] = declared "rubikscube-2" "reward_spec" ∧
    [("discount_spec", discountSpec)] = declared "rubikscube-2" "discount_spec" ∧
    prefixed "observation_spec." (obsSpec ⟨4, 11⟩) = declared "spec-only-rubikscube-4" "observation_spec." ∧
    [("action_spec", actionSpec ⟨4, 11⟩)] = declared "spec-only-rubikscube-4" "action_spec" ∧
    [("reward_spec", rewardSpec)] = declared "spec-only-rubikscube-4" "reward_spec" ∧
    [("discount_spec", discountSpec)] = declared "spec-only-rubikscube-4" "discount_spec" := by
  refine ⟨by decide +kernel, by decide +kernel, by decide +kernel, by decide +kernel, by decide +kernel, by decide +kernel,
    by decide +kernel, by decide +kernel, by decide +kernel, by decide +kernel, by decide +kernel, by decide +kernel⟩

/-- the `reset` observation (ALL sizes, any scramble of actions of the action space, time limit ≥ 0) is accepted by
`observation_spec.validate`: fields `cube`, `step_count`; shapes `(6, n, n)`, `()`; dtypes int8, int32; bounds [0, 5], [0, T] -/
theorem rubik_reset_obs_valid (cfg : Cfg) (hT : 0 ≤ cfg.timeLimit) (scr : List Move) (hs : ∀ m ∈ scr, legal cfg.n m) :
    (obsSpec cfg).valid (toNValue (reset cfg (scr.map (fun m => flattenAction cfg.n m.act))).2.obs) = true :=
  reset_obs_valid cfg hT scr hs

/-- the same for every `step` observation up to and including the terminal one (hypotheses = the invariants of
`rubik_coloursInRange_invariant`; the time limit has not been reached before the step) -/
theorem rubik_step_obs_valid (cfg : Cfg) (s : State) (hc : Shaped cfg.n s.cube) (m : Move) (hm : legal cfg.n m)
    (h : ColoursInRange s.cube) (hs : 0 ≤ s.stepCount ∧ s.stepCount < cfg.timeLimit) :
    (obsSpec cfg).valid (toNValue (step cfg s m.act).2.obs) = true := step_obs_valid cfg s hc m hm h hs

/-- what membership means (so the two theorems above are not hollow): `validate` accepts an observation ONLY IF its cube has
shape `(6, n, n)`, all stickers are in [0, 5] and the step count is in [0, T]  CAVEAT (audits r4 #7, r5 #5, r6 #5): for every field that is a nested list, `toNValue` reads the widths off the FIRST row of the
nested list, so the shape conjuncts here mean "row count, length of the first row, total number of cells" — a ragged value with the right total can be a
member, and nothing is concluded about the later rows.  Rectangularity is part of the invariant (`SpecInv` / `Shaped` / `Rect…`) under which the
forward theorems (`…_reset_obs_valid`, `…_step_obs_valid`, `…_along`) are proved, i.e. it holds of every EMITTED observation. -/
theorem rubik_obs_valid_only (cfg : Cfg) (o : Obs) (h : (obsSpec cfg).valid (toNValue o) = true) :
    cubeShape o.cube = [6, cfg.n, cfg.n] ∧ ColoursInRange o.cube ∧ 0 ≤ o.stepCount ∧ o.stepCount ≤ cfg.timeLimit :=
  obs_valid_only cfg o h

example : (obsSpec ⟨2, 7⟩).valid (toNValue ⟨goal 2, 8⟩) = false ∧ (obsSpec ⟨2, 7⟩).valid (toNValue ⟨goal 3, 0⟩) = false ∧
    (obsSpec ⟨2, 7⟩).valid (toNValue ⟨goal 2, 7⟩) = true := by decide

/-- reward and discount of every `step` (ALL states, ALL action values) and of `reset` are accepted by `reward_spec`
(Array((), float)) and `discount_spec` (BoundedArray((), float, 0, 1)) -/
theorem rubik_reward_discount_valid (cfg : Cfg) (s : State) (a : Int × Int × Int) (flats : List Int) :
    rewardSpec.valid (scalarArr (step cfg s a).2.reward) = true ∧
    discountSpec.valid (scalarArr (step cfg s a).2.discount) = true ∧
    rewardSpec.valid (scalarArr (reset cfg flats).2.reward) = true ∧
    discountSpec.valid (scalarArr (reset cfg flats).2.discount) = true :=
  ⟨(step_reward_discount_valid cfg s a).1, (step_reward_discount_valid cfg s a).2,
   (reset_reward_discount_valid cfg flats).1, (reset_reward_discount_valid cfg flats).2⟩

/-- `action_spec.generate_value()` = (0, 0, 0): for every constructible size (`n ≥ 2`) the action spec is well-formed, the
generated value is a member of it (`hbig`: the number of depths fits the int32 dtype of the spec), it is the move ⟨UP, outer layer, clockwise⟩ of the action space, and `step` answers it in
every state with a protocol-conform timestep; membership in `action_spec` is exactly `legal` -/
theorem rubik_accepts_generate_value (cfg : Cfg) (hn : 2 ≤ cfg.n) (hbig : cfg.n / 2 ≤ 2147483648) (s : State) :
    (actionSpec cfg).WF = true ∧ (actionSpec cfg).valid (actionSpec cfg).generate = true ∧
    (actionSpec cfg).generate = actionArr (Move.act ⟨0, 0, 0⟩) ∧ legal cfg.n ⟨0, 0, 0⟩ ∧
    StepOK none false (step cfg s (Move.act ⟨0, 0, 0⟩)).2 = true := accepts_generate_value cfg hn hbig s

theorem rubik_action_spec_iff_legal (cfg : Cfg) (m : Move) :
    (actionSpec cfg).valid (actionArr m.act) = true ↔ legal cfg.n m := actionSpec_valid_iff cfg m

/-- (`n < 2`: the constructor of `MultiDiscreteArray` refuses `num_values = [6, 0, 3]`; `ScramblingGenerator` refuses such
sizes as well) -/
theorem rubik_action_spec_small (cfg : Cfg) (hn : cfg.n < 2) : (actionSpec cfg).WF = false := actionSpec_not_WF_small cfg hn

/-- the step count of every observation of an episode up to and including the terminal one lies in [0, time_limit] -/
theorem rubik_episode_step_count_in_bounds (cfg : Cfg) (T : Nat) (hT : cfg.timeLimit = (T : Int)) (hpos : 0 < T) (s0 : State)
    (h0 : s0.stepCount = 0) (as : List (Int × Int × Int)) (hlen : T ≤ as.length) :
    ∃ k, 0 < k ∧ k ≤ T ∧ (∃ r, (run cfg s0 as)[k - 1]? = some r ∧ r.2.stepType = .last) ∧
      ∀ j, j < k → ∃ r, (run cfg s0 as)[j]? = some r ∧ 0 ≤ r.2.obs.stepCount ∧ r.2.obs.stepCount ≤ cfg.timeLimit := by
  obtain ⟨k, h1, h2, ⟨e1, _, e3⟩, _⟩ := episode_ends_by_limit cfg T hT hpos s0 h0 as hlen
  refine ⟨k, h1, h2, e1, fun j hj => ?_⟩
  obtain ⟨r, hr, hb⟩ := e3 j hj
  refine ⟨r, hr, ?_⟩
  have hobs := run_obs_count cfg s0 as r (List.mem_of_getElem? hr)
  rw [hobs, hT]; exact hb
end Props.C01
