/-
Property theorems for RubiksCube, ALL cube sizes `n`, all colourings.  Proofs live in
Env/RubiksCube/Lemmas.lean (physical model, group laws, conservation, solvability, solved test, encodings,
colour-blindness of the L1 moves), Env/RubiksCube/General.lean (the L1 index manipulation of utils.py IS the
physical move, for every `n`) and Env/RubiksCube/Tables.lean (independent kernel evaluation of the same fact for
the sizes 2 … 7 named by the property, `decide +kernel` on List-encoded permutations).

Two layers.  The rule level (L2) is the physical cube: stickers are points of ℤ³ (`emb`), a move turns the points
of one layer by a quarter/half turn about the face normal (`physTurn`), `applyMove`/`move` is that turn read on
the `(6, n, n)` array.  L1 is the transliteration of utils.py / env.py (`rotateCube`: the six index tables,
`rot90`, gather, `roll`, scatter, `lax.switch`; `flattenAction`; `isSolved` by max/min; `step`).
A `Move` ⟨face, depth, amt⟩ is `legal n` iff it lies in the action space `[6, n / 2, 3]`; `m.act` is its integer
action; direction 0 = clockwise, 1 = anticlockwise, 2 = half turn.
-/
import JumanjiModel.Env.RubiksCube.General
import JumanjiModel.Env.RubiksCube.Tables
import JumanjiModel.Env.RubiksCube.BoundsLemmas
open Jm Jx RubiksCube

namespace Props.C17

/-! #### every action is the physical move (all sizes) -/

/-- `emb` (array position ↦ centre of the sticker in space) is injective on the array: `unemb` inverts it -/
theorem rubik_unemb_emb (n : Nat) (p : Pos) (h : p.Valid n) : unemb n (emb n p) = p := unemb_emb h

/-- the move of the array IS the physical move: the sticker at `p` goes to the position whose centre is the
centre of `p` turned about the normal of face `f` (if it lies in layer `d`), and the result is a position of the
array -/
theorem rubik_move_is_physical (n f d amt : Nat) (p : Pos) (h : p.Valid n) :
    (dstPos n f d amt p).Valid n ∧ emb n (dstPos n f d amt p) = physTurn n f d amt (emb n p) :=
  ⟨dstPos_valid f d amt h, emb_dstPos f d amt h⟩

/-- the colouring after the move: position `p` shows the sticker that was at `srcPos p`, the position from which
the physical move brings a sticker to `p` -/
theorem rubik_move_sticker {α : Type} [Inhabited α] (n f d amt : Nat) (c : Cube α) (p : Pos) (h : p.Valid n) :
    getP default (applyMove n f d amt c) p = getP default c (srcPos n f d amt p) ∧
    dstPos n f d amt (srcPos n f d amt p) = p ∧ srcPos n f d amt (dstPos n f d amt p) = p :=
  ⟨getP_applyMove n f d amt c h, dst_src f d amt h, src_dst f d amt h⟩

/-- stickers outside the turned layer stay where they are -/
theorem rubik_outside_layer_fixed (n f d amt : Nat) (p : Pos) (h : p.Valid n) (ho : ¬ inLayer n f d (emb n p)) :
    srcPos n f d amt p = p := srcPos_outside f d amt h ho

/-- a move is a bijection of the positions: a fixed permutation that does not depend on the colouring -/
theorem rubik_move_bijective (n f d amt : Nat) : ((allPos n).map (srcPos n f d amt)).Perm (allPos n) :=
  perm_map_srcPos n f d amt

/-- every move conserves the multiset of stickers -/
theorem rubik_conserves_multiset {α : Type} [Inhabited α] (n f d amt : Nat) (c : Cube α) (hc : Shaped n c) :
    (applyMove n f d amt c).flatten.flatten.Perm c.flatten.flatten := applyMove_perm f d amt hc

/-! #### group laws (all sizes, all colourings; direction 0 = clockwise, 1 = anticlockwise, 2 = half turn) -/

theorem rubik_cw_ccw_id {α : Type} [Inhabited α] (n f d : Nat) (c : Cube α) (hc : Shaped n c) :
    applyMove n f d 1 (applyMove n f d 0 c) = c ∧ applyMove n f d 0 (applyMove n f d 1 c) = c :=
  ⟨applyMove_cw_ccw f d hc, applyMove_ccw_cw f d hc⟩

theorem rubik_half_eq_cw_cw {α : Type} [Inhabited α] (n f d : Nat) (c : Cube α) :
    applyMove n f d 2 c = applyMove n f d 0 (applyMove n f d 0 c) ∧
    applyMove n f d 2 c = applyMove n f d 1 (applyMove n f d 1 c) :=
  ⟨(applyMove_half_eq n f d c).symm, (applyMove_half_eq' n f d c).symm⟩

theorem rubik_cw_four_id {α : Type} [Inhabited α] (n f d : Nat) (c : Cube α) (hc : Shaped n c) :
    applyMove n f d 0 (applyMove n f d 0 (applyMove n f d 0 (applyMove n f d 0 c))) = c :=
  applyMove_cw_four f d hc

theorem rubik_half_half_id {α : Type} [Inhabited α] (n f d : Nat) (c : Cube α) (hc : Shaped n c) :
    applyMove n f d 2 (applyMove n f d 2 c) = c := applyMove_half_half f d hc

/-- every move is undone by the opposite move, every move sequence by the reversed sequence of opposites -/
theorem rubik_inverse_sequence {α : Type} [Inhabited α] (n : Nat) (c : Cube α) (hc : Shaped n c) (ms : List Move) :
    playMoves n (playMoves n c ms) (invMoves ms) = c := playMoves_inv hc ms

/-! #### the implementation's index manipulation (L1) -/

/-- `rotate_cube` does not look at the colours (all sizes): recolouring by any `g` commutes with every move -/
theorem rubik_l1_colour_blind {α β : Type} (g : α → β) (c : Cube α) (flat : Int) :
    rotateCube (mapC g c) flat = mapC g (rotateCube c flat) := rotateCube_mapC g c flat

/-- ALL sizes: the L1 move selected by `flatten_action` of an action of the action space is the physical
move, on every colouring -/
theorem rubik_l1_move_is_physical {α : Type} [Inhabited α] (n : Nat) (c : Cube α)
    (hc : Shaped n c) (m : Move) (hm : legal n m) : rotateCube c (flattenAction n m.act) = move n c m :=
  rotateCube_eq_move_of_table (tableOK_all _) hc hm

/-- the same fact for the sizes 2 … 7 by kernel evaluation of all 18·⌊n/2⌋ L1 moves on the position-labelled cube
(independent of General.lean) -/
theorem rubik_l1_tables_2_to_7 (n : Nat) (hn : 2 ≤ n ∧ n ≤ 7) : tableOK n = true := tableOK_of_size hn

/-- hence L1 plays are rule-level plays, conserve the stickers and are undone by the inverse sequence -/
theorem rubik_l1_play {α : Type} [Inhabited α] (n : Nat) (c : Cube α) (hc : Shaped n c)
    (ms : List Move) (hl : ∀ m ∈ ms, legal n m) :
    (ms.map (fun m => flattenAction n m.act)).foldl rotateCube c = playMoves n c ms ∧
    (playMoves n c ms).flatten.flatten.Perm c.flatten.flatten :=
  ⟨foldl_rotateCube_eq_playMoves (tableOK_all _) hc hl, playMoves_perm hc ms⟩

example : legal 3 ⟨4, 0, 2⟩ ∧ Shaped 3 (goal 3) := ⟨by decide, shaped_goal 3⟩

/-! #### encodings -/

/-- flat ↔ (face, depth, direction) are mutually inverse on the action space (all sizes) -/
theorem rubik_unflatten_flatten (n : Nat) (m : Move) (h : legal n m) :
    Move.ofFlat n (Move.flat n m) = m ∧ Move.flat n m < 18 * (n / 2) := ⟨ofFlat_flat h, flat_lt h⟩

theorem rubik_flatten_unflatten (n i : Nat) (h : i < 18 * (n / 2)) :
    Move.flat n (Move.ofFlat n i) = i ∧ legal n (Move.ofFlat n i) := ⟨flat_ofFlat i, legal_ofFlat h⟩

/-- the integer functions `flatten_action` / `unflatten_action` of utils.py are these encodings -/
theorem rubik_l1_encodings (n : Nat) (m : Move) (i : Nat) :
    flattenAction n m.act = ((Move.flat n m : Nat) : Int) ∧ unflattenAction n (i : Int) = (Move.ofFlat n i).act :=
  ⟨flattenAction_cast n m, unflattenAction_cast n i⟩

/-! #### solved test and solvability -/

/-- `is_solved` accepts exactly the cubes whose six faces are each of one colour (all sizes) -/
theorem rubik_solved_iff (n : Nat) (c : Cube Int) (hc : Shaped n c) : isSolved c = true ↔ Monochrome n c :=
  isSolved_iff hc

/-- `make_solved_cube` is the goal (face `f` of colour `f`) and passes the test -/
theorem rubik_goal (n : Nat) : solvedCube n = goal n ∧ Monochrome n (goal n) ∧ isSolved (solvedCube n) = true :=
  ⟨solvedCube_eq_goal n, monochrome_goal n, isSolved_solvedCube n⟩

/-- odd `n`: no action of the action space moves a centre sticker … -/
theorem rubik_centres_fixed (n : Nat) (hodd : n % 2 = 1) (m : Move) (hm : legal n m) (f : Nat) (hf : f < 6) :
    srcPos n m.face m.depth m.amt (centre n f) = centre n f := srcPos_centre hodd hm hf

/-- … so for odd `n` the solved test accepts, among the cubes reachable from the goal, exactly the goal (for even
`n` a reachable cube with six one-coloured faces is the goal up to a rotation of the whole cube, e.g. U then D' on
the 2×2×2) -/
theorem rubik_solved_reachable_is_goal (n : Nat) (hodd : n % 2 = 1) (c : Cube Int) (hr : Reachable n c) :
    isSolved c = true ↔ c = goal n := by
  have hc : Shaped n c := by obtain ⟨ms, _, e⟩ := hr; rw [← e]; exact shaped_playMoves (shaped_goal n) ms
  constructor
  · intro h; exact reachable_monochrome_eq_goal hodd hr ((isSolved_iff hc).1 h)
  · intro h; rw [h, ← solvedCube_eq_goal]; exact isSolved_solvedCube n

example : Reachable 3 (playMoves 3 (goal 3) [⟨0, 0, 0⟩, ⟨2, 0, 1⟩]) ∧ 3 % 2 = 1 :=
  ⟨⟨[⟨0, 0, 0⟩, ⟨2, 0, 1⟩], by decide, rfl⟩, rfl⟩

/-- whatever is reachable from the goal by moves of the action space is solvable back to it, and stays reachable
under further play (all sizes, rule level) -/
theorem rubik_reachable_solvable (n : Nat) (c : Cube Int) (h : Reachable n c) (ms : List Move)
    (hl : ∀ m ∈ ms, legal n m) : Solvable n c ∧ Reachable n (playMoves n c ms) ∧ Solvable n (playMoves n c ms) :=
  ⟨reachable_solvable h, reachable_play h hl, reachable_solvable (reachable_play h hl)⟩

/-- ALL sizes: every state produced by reset (scramble of legal flat actions from the solved cube) and then by
any play of `env.step` is reachable from the goal and solvable -/
theorem rubik_reset_and_play_solvable (cfg : Cfg) (scr : List Move)
    (hs : ∀ m ∈ scr, legal cfg.n m) (m : Move) (hm : legal cfg.n m) :
    let s0 := genState cfg.n (scr.map (fun m => flattenAction cfg.n m.act))
    Reachable cfg.n s0.cube ∧ Solvable cfg.n s0.cube ∧
    Reachable cfg.n (step cfg s0 m.act).1.cube ∧ Solvable cfg.n (step cfg s0 m.act).1.cube := by
  intro s0
  have h := tableOK_all cfg.n
  have r0 : Reachable cfg.n s0.cube := scramble_reachable h hs
  have r1 := step_reachable h cfg rfl r0 hm
  exact ⟨r0, reachable_solvable r0, r1, reachable_solvable r1⟩

/-- … and along whole episodes: reachability is an invariant of `step` -/
theorem rubik_step_keeps_reachable (cfg : Cfg) (s : State) (hr : Reachable cfg.n s.cube)
    (m : Move) (hm : legal cfg.n m) : Reachable cfg.n (step cfg s m.act).1.cube :=
  step_reachable (tableOK_all _) cfg rfl hr hm
end Props.C17

namespace Props.C10
/-- ALL sizes: the scramble of the generator (any number of draws, each an action of the action space) is a
play of physical moves from the goal; it is solvable and has every colour exactly as often as the goal -/
theorem rubik_scramble_solvable (n : Nat) (scr : List Move) (hs : ∀ m ∈ scr, legal n m) :
    let c := scramble n (scr.map (fun m => flattenAction n m.act))
    c = playMoves n (goal n) scr ∧ Solvable n c ∧ c.flatten.flatten.Perm (goal n).flatten.flatten := by
  intro c
  have e : c = playMoves n (goal n) scr := scramble_eq_playMoves (tableOK_all _) hs
  refine ⟨e, reachable_solvable (scramble_reachable (tableOK_all _) hs), ?_⟩
  rw [e]; exact playMoves_perm (shaped_goal n) scr

/-- all sizes, rule level: a scramble is solved by the reversed sequence of opposite moves -/
theorem rubik_scramble_undone (n : Nat) (scr : List Move) :
    playMoves n (playMoves n (goal n) scr) (invMoves scr) = goal n := playMoves_inv (shaped_goal n) scr
end Props.C10

namespace Props.C08
/-- sparse reward: 1 exactly when the new cube passes the solved test, else 0 (all sizes) -/
theorem rubik_sparse_reward (cfg : Cfg) (s : State) (a : Int × Int × Int) :
    (step cfg s a).2.reward = [if isSolved (step cfg s a).1.cube = true then 1 else 0] := step_reward cfg s a

/-- a non-zero reward is 1, is given on a solved cube and ends the episode: so the return of an episode is its
last reward, 1 iff it ended on a solved cube -/
theorem rubik_reward_only_at_solved_end (cfg : Cfg) (s : State) (a : Int × Int × Int)
    (h : (step cfg s a).2.reward ≠ [0]) :
    (step cfg s a).2.reward = [1] ∧ isSolved (step cfg s a).1.cube = true ∧ (step cfg s a).2.stepType = .last :=
  step_reward_pos cfg s a h
end Props.C08

namespace Props.C09
/-- ALL sizes: the transliterated step (flatten_action, lax.switch over the index tables, max/min solved test,
reward, termination) equals the rule-level step (physical move; reward 1 and LAST iff every face is of one
colour; LAST at the time limit): state, step type, reward, discount and observation -/
theorem rubik_step_eq_rules (cfg : Cfg) (s : State) (hc : Shaped cfg.n s.cube) (m : Move)
    (hm : legal cfg.n m) : step cfg s m.act = stepL2 cfg s m :=
  step_eq_stepL2 (tableOK_all _) cfg rfl hc hm

/-- all sizes: the same, given only that the L1 move is the physical move on this cube -/
theorem rubik_step_eq_rules_of_move (cfg : Cfg) (s : State) (m : Move)
    (H : rotateCube s.cube (flattenAction cfg.n m.act) = move cfg.n s.cube m) : step cfg s m.act = stepL2 cfg s m :=
  step_eq_stepL2_of cfg s m H

/-- the shape is preserved, so the refinement applies along whole episodes -/
theorem rubik_shape_preserved (cfg : Cfg) (s : State) (m : Move) : Shaped cfg.n (stepL2 cfg s m).1.cube :=
  shaped_move cfg.n s.cube m
end Props.C09

namespace Props.C07
/-- ALL sizes: `step` conserves the multiset of stickers -/
theorem rubik_step_conserves (cfg : Cfg) (s : State) (hc : Shaped cfg.n s.cube) (m : Move)
    (hm : legal cfg.n m) : (step cfg s m.act).1.cube.flatten.flatten.Perm s.cube.flatten.flatten := by
  rw [step_cube]
  rw [show flattenAction cfg.n m.act = flattenAction cfg.n ((m.face : Int), (m.depth : Int), (m.amt : Int)) from rfl,
    rotateCube_eq_move_of_table (tableOK_all _) hc hm]
  exact applyMove_perm _ _ _ hc
end Props.C07

namespace Props.C11
/-- a step is LAST exactly when the step count reaches the time limit or the new cube is solved; the step
count grows by one per step -/
theorem rubik_last_iff (cfg : Cfg) (s : State) (a : Int × Int × Int) :
    (step cfg s a).2.stepType = .last ↔
      (cfg.timeLimit ≤ (step cfg s a).1.stepCount ∨ isSolved (step cfg s a).1.cube = true) := step_last_iff cfg s a

theorem rubik_step_count (cfg : Cfg) (s : State) (a : Int × Int × Int) :
    (step cfg s a).1.stepCount = s.stepCount + 1 := step_count cfg s a
end Props.C11

namespace Props.C12
/-- the observation returned by `step` is the observation function of the successor state, which is the
documented one: the cube and the step count, copied -/
theorem rubik_obs_faithful (cfg : Cfg) (s : State) (a : Int × Int × Int) :
    (step cfg s a).2.obs = observe (step cfg s a).1 ∧
    observe (step cfg s a).1 = ⟨(step cfg s a).1.cube, (step cfg s a).1.stepCount⟩ := ⟨step_obs cfg s a, rfl⟩
end Props.C12

namespace Props.C01
open PzB
/-- the observation returned by `reset` (ALL cube sizes; the scramble is any sequence of draws of the action space; time
limit ≥ 0): every leaf listed in `obsBounds cfg` is present and within its interval: `cube` ∈ [0, 5],
`step_count` ∈ [0, time_limit] -/
theorem rubiks_cube_reset_obs_in_bounds (cfg : Cfg) (hT : 0 ≤ cfg.timeLimit) (scr : List Move)
    (hs : ∀ m ∈ scr, legal cfg.n m) :
    ObsInBounds (obsBounds cfg)
      (obsLeaves (observe (genState cfg.n (scr.map (fun m => flattenAction cfg.n m.act))))) :=
  RubiksCube.reset_obs_in_bounds cfg hT scr hs

/-- the same for `step` (ALL sizes), for every `(6, n, n)` cube whose stickers are colours 0..5 and every move of the action
space, including the terminal step; the time limit has not been reached before the step (`0 ≤ step_count < time_limit`).
Uses the conservation of the sticker multiset (C07). -/
theorem rubiks_cube_step_obs_in_bounds (cfg : Cfg) (s : State) (hc : Shaped cfg.n s.cube) (m : Move) (hm : legal cfg.n m)
    (h : ColoursInRange s.cube) (hs : 0 ≤ s.stepCount ∧ s.stepCount < cfg.timeLimit) :
    ObsInBounds (obsBounds cfg) (obsLeaves (step cfg s m.act).2.obs) :=
  RubiksCube.step_obs_in_bounds cfg s hc m hm h hs

/-- shape and colour range hold after `reset` and are preserved by every move of the action space -/
theorem rubik_coloursInRange_invariant (cfg : Cfg) :
    (∀ scr : List Move, (∀ m ∈ scr, legal cfg.n m) →
      ColoursInRange (genState cfg.n (scr.map (fun m => flattenAction cfg.n m.act))).cube ∧
      Shaped cfg.n (genState cfg.n (scr.map (fun m => flattenAction cfg.n m.act))).cube) ∧
    (∀ (s : State) (m : Move), Shaped cfg.n s.cube → legal cfg.n m → ColoursInRange s.cube →
      ColoursInRange (step cfg s m.act).1.cube ∧ Shaped cfg.n (step cfg s m.act).1.cube) :=
  ⟨fun scr hs => RubiksCube.scramble_ok cfg.n scr hs,
   fun s m hc hm h => ⟨RubiksCube.step_coloursInRange cfg s hc m hm h, RubiksCube.step_shaped cfg s hc m hm⟩⟩

example : ColoursInRange (goal 3) ∧ Shaped 3 (goal 3) := ⟨by decide, shaped_goal 3⟩
end Props.C01
