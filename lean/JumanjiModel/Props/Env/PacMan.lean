/-
Property theorems for PacMan (R model: the ghost policy is a draw `d`, every theorem holds for ALL
draws).  Proofs in Env/PacMan/Lemmas.lean.
-/
import JumanjiModel.Env.PacMan.Lemmas
import JumanjiModel.Env.PacMan.BoundsLemmas
import JumanjiModel.Env.PacMan.ConsistentLemmas
import JumanjiModel.Env.PacMan.MazeLemmas
import JumanjiModel.Gen.PacManMaze
import JumanjiModel.Env.PacMan.SpecLemmas
open Jm PacMan

namespace Props.C04
/-- the mask bit of action `a` is set exactly when the rules (move into a non-wall cell, wrapping
around at the borders) allow it — for every rectangular 0/1 maze whose last row/column mirrors
the first (every tunnel has two open ends).  Without `BorderSymmetric` the statement is FALSE:
the mask clamps at the border where `step` wraps (see `pacman_mask_one_sided_witness`). -/
theorem pacman_mask_iff_legal (s : State) (a : Nat) (ha : a ≤ 4)
    (hs : Jx.Grid.shaped s.grid (xSize s.grid) (ySize s.grid) = true) (hp : Inside s)
    (hbin : Binary s.grid) (hb : BorderSymmetric s.grid) :
    (maskOf s).getD a false = true ↔ legal s a := PacMan.mask_iff_legal s a ha hs hp hbin hb

/-- the wall test `step` applies agrees with the rules: an action is legal iff the player moves -/
theorem pacman_step_agrees (s : State) (a : Nat) (ha : a ≤ 4)
    (hs : Jx.Grid.shaped s.grid (xSize s.grid) (ySize s.grid) = true) (hp : Inside s)
    (hX : 2 ≤ xSize s.grid) (hY : 2 ≤ ySize s.grid) :
    legal s a ↔ nextPlayer s (a : Int) ≠ s.player := PacMan.legal_iff_moves s a ha hs hp hX hY

/-- the same about the `step` function itself (wave 3; `pacman_step_agrees` speaks about the helper `nextPlayer`): for
every action 0..4, every time limit and every ghost draw, `step` moves the player exactly when the rules allow the
action, and leaves it on its cell (the environment treated the action as a no-op) exactly when they do not -/
theorem pacman_step_moves_iff_legal (tl : Int) (s : State) (a : Nat) (d : Draw) (ha : a ≤ 4)
    (hs : Jx.Grid.shaped s.grid (xSize s.grid) (ySize s.grid) = true) (hp : Inside s)
    (hX : 2 ≤ xSize s.grid) (hY : 2 ≤ ySize s.grid) :
    (legal s a ↔ (step tl s (a : Int) d).1.player ≠ s.player) ∧
    (¬ legal s a ↔ (step tl s (a : Int) d).1.player = s.player) := by
  rw [PacMan.step_player]
  have h := PacMan.legal_iff_moves s a ha hs hp hX hY
  exact ⟨h, by rw [h]; exact Decidable.not_not⟩

/-- whole episodes (wave 3): the hypotheses of `pacman_mask_iff_legal` hold in EVERY state of EVERY episode of the shipped
maze (start state = what the real `reset` returns; any actions, any time limit, admissible ghost draws), so there every
mask bit is set exactly when the rules allow the action: the shipped maze is rectangular, 0/1, its borders mirror each
other (checked by the kernel), it never changes, and the player stays inside it -/
theorem pacman_mask_iff_legal_along (tl : Int) (ads : List (Int × Draw))
    (hv : validRun tl (PacMan.reset Gen.PacManMaze.table.toState).1 ads = true) :
    ∀ s' ∈ trace tl (PacMan.reset Gen.PacManMaze.table.toState).1 ads, ∀ a : Nat, a ≤ 4 →
      ((maskOf s').getD a false = true ↔ legal s' a) := by
  have hok : MazeTableOK Gen.PacManMaze.table := PacMan.tableCheck_sound _ _ Gen.PacManMaze.table_ok
  have hb : BorderSymmetric Gen.PacManMaze.table.grid := by decide +kernel
  exact PacMan.mask_iff_legal_along tl ads _ (PacMan.reset_consistent _ hok).1 (PacMan.reset_consistent _ hok).2
    hok.binary hb hv

/-- the same for ANY maze table satisfying the C10 specification whose borders mirror each other — CONDITIONAL on `validRun`:
every ghost move of the episode is assumed to satisfy `ghostMoveOK` (stay, or move to a FREE neighbour).  The real ghost policy
satisfies this only on tables WITHOUT A DEAD END (`noDeadEndB`; the shipped maze has none:
`Props.C10.pacman_default_maze_no_dead_end`); on a table with a dead end the real ghosts walk into walls, the hypothesis is false
for real episodes and this theorem says nothing about them: `Props.C10.pacman_dead_end_ghost_witness` (audit r5 #1). -/
theorem pacman_mask_iff_legal_along_of_table (t : MazeTable) (h : MazeTableOK t) (hb : BorderSymmetric t.grid) (tl : Int)
    (ads : List (Int × Draw)) (hv : validRun tl (PacMan.reset t.toState).1 ads = true) :
    ∀ s' ∈ trace tl (PacMan.reset t.toState).1 ads, ∀ a : Nat, a ≤ 4 →
      ((maskOf s').getD a false = true ↔ legal s' a) :=
  PacMan.mask_iff_legal_along tl ads _ (PacMan.reset_consistent _ h).1 (PacMan.reset_consistent _ h).2 h.binary hb hv

def pacmanWit : State :=
  { grid := [[0, 0, 0], [0, 1, 1], [0, 0, 0]], pellets := 0, frightened := 0, pelletLocs := [], powerUps := [],
    player := (1, 2), ghosts := [], initGhosts := [], oldGhosts := [], ghostInitSteps := [], ghostActions := [],
    lastDirection := 0, dead := false, ghostStarts := [], stepCount := 0, ghostEaten := [], score := 0 }

/-- a tunnel with one open end: the mask offers "column+1" at the right border although `step`
(wrap-around) runs into the wall on the other side -/
theorem pacman_mask_one_sided_witness :
    (maskOf pacmanWit).getD 3 false = true ∧ ¬ legal pacmanWit 3 ∧ nextPlayer pacmanWit 3 = pacmanWit.player := by decide

example : legal pacmanWit 1 ∧ Jx.Grid.shaped pacmanWit.grid 3 3 = true := by decide
example : Inside pacmanWit := by unfold Inside; decide
end Props.C04

namespace Props.C05
/-- an illegal action is ignored: the player keeps its cell, the maze is untouched and only a
pellet / power-up lying on the player's own cell can disappear -/
theorem pacman_illegal_ignored (tl : Int) (s : State) (a : Nat) (d : Draw) (ha : a ≤ 4)
    (hs : Jx.Grid.shaped s.grid (xSize s.grid) (ySize s.grid) = true) (hp : Inside s)
    (hX : 2 ≤ xSize s.grid) (hY : 2 ≤ ySize s.grid) (hill : ¬ legal s a) :
    IllegalIgnored s (step tl s (a : Int) d).1 := PacMan.illegal_ignored tl s a d ha hs hp hX hY hill

/-- the same from the invariant that `reset` establishes and every step preserves (wave 3; `Consistent`:
`pacman_reset_consistent`, `pacman_trace_consistent`): in every consistent state of a maze with at least two rows and
columns, every illegal action 0..4 is ignored — hence in every state of every episode of the shipped maze -/
theorem pacman_illegal_ignored_of_consistent (tl : Int) (s : State) (a : Nat) (d : Draw) (ha : a ≤ 4)
    (hC : Consistent s) (hX : 2 ≤ xSize s.grid) (hY : 2 ≤ ySize s.grid) (hill : ¬ legal s a) :
    IllegalIgnored s (step tl s (a : Int) d).1 := PacMan.illegal_ignored_of_consistent tl s a d ha hC hX hY hill
end Props.C05

namespace Props.C07
/-- (partial: player only; the ghosts' cells are checked by the relation `ghostsRelOK` /
`Consistent` on implementation states, not derived) the player never enters a wall or leaves
the maze, whatever in-spec action is played and whatever the ghosts do -/
theorem pacman_player_stays_free_partial (tl : Int) (s : State) (a : Nat) (d : Draw) (ha : a ≤ 4)
    (hs : Jx.Grid.shaped s.grid (xSize s.grid) (ySize s.grid) = true)
    (hf : free s.grid s.player.1 s.player.2) :
    free (step tl s (a : Int) d).1.grid (step tl s (a : Int) d).1.player.1 (step tl s (a : Int) d).1.player.2 :=
  PacMan.player_stays_free tl s a d ha hs hf

/-- the maze and the ghosts' origins are never modified -/
theorem pacman_maze_fixed (tl : Int) (s : State) (a : Int) (d : Draw) :
    (step tl s a d).1.grid = s.grid ∧ (step tl s a d).1.initGhosts = s.initGhosts :=
  PacMan.maze_fixed tl s a d

/-- the consistency predicate (rectangular maze; player, the four ghosts and their origins on free cells
inside it; remaining pellets / power-ups on free cells; when cell (0,0) is a wall the pellet counter is the
number of remaining pellets) is preserved by EVERY step: all states, any action value, any time limit, any
admissible ghost draw (each ghost stays or moves to a walkable neighbour).  Extra hypothesis `hN`: no pellet
cell is listed twice — preserved as well, holds for every generated state (`pacman_reset_nodup`) and is
needed (`pacman_step_consistent_needs_nodup`). -/
theorem pacman_step_consistent (tl : Int) (s : State) (a : Int) (d : Draw) (hC : Consistent s)
    (hN : (nonzero s.pelletLocs).Nodup) (hd : validGhostDraw s d = true) :
    Consistent (step tl s a d).1 ∧ (nonzero (step tl s a d).1.pelletLocs).Nodup :=
  PacMan.step_consistent tl s a d hC hN hd

/-- the player part of the above for every action value (the `_partial` statement above restricted `a ≤ 4`) -/
theorem pacman_player_stays_free (tl : Int) (s : State) (a : Int) (d : Draw)
    (hs : Jx.Grid.shaped s.grid (xSize s.grid) (ySize s.grid) = true)
    (hx : 0 < xSize s.grid) (hy : 0 < ySize s.grid) (hf : free s.grid s.player.1 s.player.2) :
    free (step tl s a d).1.grid (step tl s a d).1.player.1 (step tl s a d).1.player.2 :=
  PacMan.nextPlayer_free s a hs hx hy hf

/-- a 3 × 4 maze with one corridor; the four ghosts share its right end -/
def pacmanCEx : State :=
  { grid := [[0, 0, 0, 0], [0, 1, 1, 1], [0, 0, 0, 0]], pellets := 2, frightened := 0,
    pelletLocs := [(1, 1), (2, 1), (0, 0)], powerUps := [(3, 1)], player := (1, 2),
    ghosts := [(3, 1), (3, 1), (3, 1), (3, 1)], initGhosts := [(3, 1), (3, 1), (3, 1), (3, 1)],
    oldGhosts := [(3, 1), (3, 1), (3, 1), (3, 1)], ghostInitSteps := [0, 0, 0, 0], ghostActions := [1, 1, 1, 1],
    lastDirection := 0, dead := false, ghostStarts := [0, 0, 0, 0], stepCount := 0,
    ghostEaten := [true, true, true, true], score := 0 }
/-- ghosts 0 and 1 move to the neighbouring free cell, ghosts 2 and 3 stay -/
def pacmanCDraw : Draw := { paths := [(2, 1), (2, 1), (3, 1), (3, 1)], actions := [1, 1, 4, 4] }

example : Consistent pacmanCEx ∧ (nonzero pacmanCEx.pelletLocs).Nodup ∧
    validGhostDraw pacmanCEx pacmanCDraw = true := by decide
example : Consistent (step 10 pacmanCEx 1 pacmanCDraw).1 ∧ (step 10 pacmanCEx 1 pacmanCDraw).1.pellets = 1 := by
  decide +kernel

/-- the same maze with the pellet cell (1,1) listed twice (counter 2) -/
def pacmanCDup : State := { pacmanCEx with pelletLocs := [(1, 1), (1, 1)] }
def pacmanCStay : Draw := { paths := pacmanCDup.ghosts, actions := [4, 4, 4, 4] }

/-- without `hN` the statement is false: with a pellet cell listed twice, eating it zeroes both entries but
decrements the counter once, so the successor state is not consistent (counter 1, no pellet left) -/
theorem pacman_step_consistent_needs_nodup :
    Consistent pacmanCDup ∧ validGhostDraw pacmanCDup pacmanCStay = true ∧
    Jx.Grid.get pacmanCDup.grid 1 0 0 = 0 ∧ ¬ (nonzero pacmanCDup.pelletLocs).Nodup ∧
    ¬ Consistent (step 10 pacmanCDup 1 pacmanCStay).1 := by decide +kernel

/-- the ASCII parser enumerates distinct cells -/
theorem pacman_cellsWith_nodup (maze : List (List Char)) (p : Char → Bool) : (cellsWith maze p).Nodup :=
  PacMan.cellsWith_nodup maze p

/-- every state the ASCII generator builds lists no pellet cell twice (hypothesis `hN` of
`pacman_step_consistent`) -/
theorem pacman_reset_nodup (maze : List (List Char)) (s : State) (h : resetState maze = some s) :
    (nonzero s.pelletLocs).Nodup := PacMan.resetState_nodup maze s h
end Props.C07

namespace Props.C10
/-- the executable checker of a maze table is sound, for EVERY table and certificate: if `tableCheck t dist` evaluates
to `true` then the maze is a non-empty rectangle of 0/1 cells, the player start and the four ghost starts lie inside
it on free cells, the player start is not a ghost start, all pellets / power-ups lie on free cells and are pairwise
distinct, the four scatter targets lie on free cells, and every free cell is reached from the player start by a
sequence of legal moves (4-connectivity with the tunnel wrap-around).  `dist` is only a hint (distances from the
start); nothing is assumed about it. -/
theorem pacman_table_check_sound (t : MazeTable) (dist : DistCert) (h : tableCheck t dist = true) : MazeTableOK t :=
  PacMan.tableCheck_sound t dist h

/-- the shipped maze: the table generated from the real `reset` of `PacMan()` (Gen/PacManMaze.lean) satisfies the
specification — the checker is evaluated on it by the kernel (`Gen.PacManMaze.table_ok`) -/
theorem pacman_default_maze_ok : MazeTableOK Gen.PacManMaze.table :=
  PacMan.tableCheck_sound _ _ Gen.PacManMaze.table_ok

/-- spelled out: every free cell of the shipped maze is reached from the player start (row 23, column 13) by legal
moves -/
theorem pacman_default_maze_connected (x y : Int) (hf : free Gen.PacManMaze.grid x y) :
    Reach Gen.PacManMaze.grid Gen.PacManMaze.table.player (x, y) := pacman_default_maze_ok.connected x y hf

/-- the generated table is what the model's transliteration of the ASCII parser / `AsciiGenerator.__call__`
(`resetState`, compared with the implementation by `pac_man.instance`) builds from `constants.DEFAULT_MAZE` -/
theorem pacman_default_maze_reset :
    resetState (Gen.PacManMaze.ascii.map String.toList) = some Gen.PacManMaze.table.toState := by
  rw [PacMan.resetState_eq_ofAscii, Gen.PacManMaze.ascii_table]; rfl

/-- for ANY maze table satisfying the specification, the state `reset` returns satisfies the consistency predicate
of C07 and lists no pellet cell twice (the two hypotheses of `pacman_step_consistent`).  (About the RESET state only; that the
ghosts stay on free cells afterwards is assumed by `validGhostDraw`, which real episodes meet only on tables without a dead
end: `pacman_dead_end_ghost_witness`.) -/
theorem pacman_reset_consistent (t : MazeTable) (h : MazeTableOK t) :
    Consistent (PacMan.reset t.toState).1 ∧ (nonzero (PacMan.reset t.toState).1.pelletLocs).Nodup :=
  PacMan.reset_consistent t h

/-- connectivity is realised by the L1 step function: for ANY maze table satisfying the specification and every free
cell there is a sequence of actions 0..3 which, played from `reset` through `step`, puts the player on that cell —
for every time limit and whatever the ghosts do (`step` as a state function: the step types of the episode, which
may end earlier by a ghost collision or the time limit, are not considered) -/
theorem pacman_all_cells_walkable (t : MazeTable) (h : MazeTableOK t) (x y : Int) (hf : free t.grid x y) :
    ∃ as : List Int, (∀ a ∈ as, 0 ≤ a ∧ a < 4) ∧
      ∀ (tl : Int) (ds : List Draw), ds.length = as.length →
        ∃ s', (trace tl (PacMan.reset t.toState).1 (as.zip ds)).getLast? = some s' ∧ s'.player = (x, y) :=
  PacMan.all_cells_walkable t h x y hf

/-- a 5 × 5 maze: a ring with a horizontal tunnel (row 1) -/
def pacmanRing : MazeTable :=
  { grid := [[0, 0, 0, 0, 0], [1, 1, 1, 1, 1], [0, 1, 0, 1, 0], [0, 1, 1, 1, 0], [0, 0, 0, 0, 0]],
    player := (1, 0), ghosts := [(1, 3), (2, 3), (3, 3), (3, 2)], pellets := [(0, 1), (1, 1), (4, 1), (2, 3)],
    powerUps := [(4, 1)], scatter := [(0, 1), (4, 1), (1, 3), (3, 3)] }
example : tableCheck pacmanRing (bfsDist pacmanRing.grid pacmanRing.player) = true := by decide +kernel
/-- the tunnel is used: (column 4, row 1) is one move away from the start (column 0, row 1) -/
example : bfsDist pacmanRing.grid pacmanRing.player =
    [[0, 0, 0, 0, 0], [0, 1, 2, 2, 1], [0, 2, 0, 3, 0], [0, 3, 4, 4, 0], [0, 0, 0, 0, 0]] := by decide +kernel
/-- the checker rejects the ring with the cell (row 3, column 2) replaced by a wall and (row 4, column 2) opened:
that cell is free but cut off -/
example : tableCheck { pacmanRing with grid := [[0, 0, 0, 0, 0], [1, 1, 1, 1, 1], [0, 1, 0, 1, 0], [0, 1, 0, 1, 0], [0, 0, 1, 0, 0]],
                                       ghosts := [(1, 3), (1, 3), (3, 3), (3, 2)], pellets := [(0, 1)] }
    (bfsDist [[0, 0, 0, 0, 0], [1, 1, 1, 1, 1], [0, 1, 0, 1, 0], [0, 1, 0, 1, 0], [0, 0, 1, 0, 0]] (1, 0)) = false := by decide +kernel

/-! #### audit r5 #1: dead ends.  `MazeTableOK` (the C10 specification) does NOT exclude dead ends; `ghostMoveOK` — the hypothesis
of every whole-episode C07 / C04 / C01 theorem — is what the real ghost policy does only on mazes without one. -/

/-- the shipped maze (and the ring example) have no dead end: every free cell has at least two free neighbours -/
theorem pacman_default_maze_no_dead_end :
    noDeadEndB Gen.PacManMaze.grid = true ∧ noDeadEndB pacmanRing.grid = true := by
  refine ⟨by decide +kernel, by decide +kernel⟩

/-- a 7 × 12 `AsciiGenerator` maze with one dead end (row 1, column 9): four ghosts, player, four scatter targets, all free cells
connected -/
def pacmanDeadEndAscii : List String := [
 "XXXXXXXXXXXX",
 "XG        XX",
 "X XXXXXXXXXX",
 "XGG G  TTTTX",
 "X XXXXXXXXXX",
 "XSSSSOOOOP X",
 "XXXXXXXXXXXX"]
def pacmanDeadEnd : MazeTable :=
  (MazeTable.ofAscii (pacmanDeadEndAscii.map String.toList)).getD ⟨[], (0, 0), [], [], [], []⟩

/-- WITNESS (candidate finding, C07): the dead-end maze is parsed, SATISFIES the C10 specification (`tableCheck`, hence
`MazeTableOK`) and has mirrored borders — all hypotheses on the table of the `_of_table` theorems — but has a dead end, and the
move the REAL code makes there (seed 0, step 10: ghost 0 from (column 9, row 1) into the WALL (column 9, row 0); 190 such
ghost-on-wall events over 6 seeds × 120 steps, reproduction in the report) is not admissible: `ghostMoveOK = false`, so
`validGhostDraw` fails for every draw containing it and `validRun` is false for the real episode — the `_of_table` theorems
are vacuous there, and the real environment violates C07 (a ghost on a wall cell). -/
theorem pacman_dead_end_ghost_witness :
    (MazeTable.ofAscii (pacmanDeadEndAscii.map String.toList)).isSome = true ∧
    tableCheck pacmanDeadEnd (bfsDist pacmanDeadEnd.grid pacmanDeadEnd.player) = true ∧
    BorderSymmetric pacmanDeadEnd.grid ∧
    noDeadEndB pacmanDeadEnd.grid = false ∧
    freeCR pacmanDeadEnd.grid (9, 1) ∧ ¬ freeCR pacmanDeadEnd.grid (9, 0) ∧
    ((neighbours pacmanDeadEnd.grid (9, 1)).filter (fun c => decide (freeCR pacmanDeadEnd.grid c))) = [(8, 1)] ∧
    ghostMoveOK pacmanDeadEnd.grid (9, 1) (9, 0) (-9) = false := by
  refine ⟨by decide +kernel, by decide +kernel, by decide +kernel, by decide +kernel, by decide +kernel, by decide +kernel,
    by decide +kernel, by decide +kernel⟩

/-- … and `MazeTableOK pacmanDeadEnd` holds, so the table is in the scope of `pacman_run_consistent_of_table` -/
theorem pacman_dead_end_table_ok : MazeTableOK pacmanDeadEnd :=
  PacMan.tableCheck_sound _ _ pacman_dead_end_ghost_witness.2.1

/-- consequence, stated on a state: for ANY state on that maze with ghost 0 at (column 9, row 1) (active: start counter ≤ 0) there
is no admissible draw whose first path is the wall cell the real policy picks -/
theorem pacman_dead_end_draw_not_valid (s : State) (d : Draw) (hg : s.grid = pacmanDeadEnd.grid)
    (gs : List CR) (hs : s.ghosts = (9, 1) :: gs) (ps : List CR) (hp : d.paths = (9, 0) :: ps)
    (st : Int) (sts : List Int) (hst : s.ghostStarts = st :: sts) (hst0 : st ≤ 0) :
    validGhostDraw s d = false := by
  have hmv : ghostMoveOK pacmanDeadEnd.grid (9, 1) (9, 0) st = false := by
    have h1 : ¬ freeCR pacmanDeadEnd.grid (9, 0) := pacman_dead_end_ghost_witness.2.2.2.2.2.1
    simp [ghostMoveOK, h1]
  unfold validGhostDraw
  rw [hs, hp, hst, hg]
  simp [hmv]
end Props.C10

namespace Props.C07
/-- whole episodes, generic: from a consistent state without duplicate pellet cells, every state of every episode
(any action values, any time limit, any length, ghost draws admissible where they are used) is consistent, lists no
pellet twice and has the maze of the start state — induction over the episode with `pacman_step_consistent`.  The ghost
conjunct ("ghosts on free cells") is what `validRun` / `ghostMoveOK` ASSUMES of every ghost move (audit r5 #9). -/
theorem pacman_trace_consistent (tl : Int) (s : State) (ads : List (Int × Draw)) (hC : Consistent s)
    (hN : (nonzero s.pelletLocs).Nodup) (hv : validRun tl s ads = true) :
    ∀ s' ∈ trace tl s ads, Consistent s' ∧ (nonzero s'.pelletLocs).Nodup ∧ s'.grid = s.grid :=
  PacMan.trace_consistent tl ads s hC hN hv

/-- whole episodes from `reset`, for ANY maze table satisfying the C10 specification — CONDITIONAL on `validRun`: the ghost
conjunct of `Consistent` (ghosts on free cells) is ASSUMED move by move through `ghostMoveOK`, not derived from the ghost policy
(audit r5 #9).  The real policy satisfies `ghostMoveOK` only on tables without a dead end (`noDeadEndB`); on a table WITH a dead
end — which `MazeTableOK` allows — real ghosts end on wall cells (C07 violated by the real code, candidate finding) and this
theorem is vacuous for such episodes: `Props.C10.pacman_dead_end_ghost_witness` (audit r5 #1). -/
theorem pacman_run_consistent_of_table (t : MazeTable) (h : MazeTableOK t) (tl : Int) (ads : List (Int × Draw))
    (hv : validRun tl (PacMan.reset t.toState).1 ads = true) :
    ∀ s' ∈ trace tl (PacMan.reset t.toState).1 ads, Consistent s' ∧ (nonzero s'.pelletLocs).Nodup ∧ s'.grid = t.grid :=
  PacMan.trace_consistent tl ads _ (PacMan.reset_consistent t h).1 (PacMan.reset_consistent t h).2 hv

/-- the shipped maze: every state of every episode of `PacMan()` (start state = the state the real `reset` returns,
Gen/PacManMaze.lean) is consistent: the player and the four ghosts stay inside the maze on free cells, the remaining
pellets / power-ups lie on free cells, the pellet counter is the number of remaining pellets (cell (0,0) of the
shipped maze is a wall), the maze never changes.  The GHOST conjunct is assumed via `ghostMoveOK` inside `validRun` (audit r5 #9);
the shipped maze has no dead end (`Props.C10.pacman_default_maze_no_dead_end`), which is when the real ghost policy meets it
(12 real seeds × up to 1000 steps: 0 ghost-on-wall events). -/
theorem pacman_run_consistent (tl : Int) (ads : List (Int × Draw))
    (hv : validRun tl (PacMan.reset Gen.PacManMaze.table.toState).1 ads = true) :
    ∀ s' ∈ trace tl (PacMan.reset Gen.PacManMaze.table.toState).1 ads,
      Consistent s' ∧ (nonzero s'.pelletLocs).Nodup ∧ s'.grid = Gen.PacManMaze.grid :=
  pacman_run_consistent_of_table _ Props.C10.pacman_default_maze_ok tl ads hv

/-- the hypothesis is satisfiable on the shipped maze: two steps with the ghosts staying put -/
example : validRun 1000 (PacMan.reset Gen.PacManMaze.table.toState).1
    [(1, ⟨Gen.PacManMaze.table.ghosts, [4, 4, 4, 4]⟩), (3, ⟨Gen.PacManMaze.table.ghosts, [4, 4, 4, 4]⟩)] = true := by
  decide +kernel
example : validRun 10 pacmanCEx [(1, pacmanCDraw)] = true := by decide +kernel
/-- the hypotheses of `Props.C05.pacman_illegal_ignored_of_consistent` are satisfiable: in the corridor example "row − 1"
(action 0) runs into a wall — illegal — and the state is consistent on a maze with ≥ 2 rows and columns -/
example : Consistent pacmanCEx ∧ ¬ legal pacmanCEx 0 ∧ 2 ≤ xSize pacmanCEx.grid ∧ 2 ≤ ySize pacmanCEx.grid := by decide
end Props.C07

namespace Props.C11
/-- the step counter advances by one and the timestep is LAST as soon as it reaches `time_limit` -/
theorem pacman_time_limit (tl : Int) (s : State) (a : Int) (d : Draw) :
    (step tl s a d).1.stepCount = s.stepCount + 1 ∧
    (s.stepCount + 1 ≥ tl → (step tl s a d).2.stepType = .last) := PacMan.time_limit tl s a d

/-- both directions (wave 3): `step` answers LAST exactly when the player is dead in the successor, or no pellet is
left, or the limit is reached — never earlier; any state, action value and ghost draw -/
theorem pacman_last_iff (tl : Int) (s : State) (a : Int) (d : Draw) :
    (step tl s a d).2.stepType = .last ↔
      (((step tl s a d).1.dead = true ∨ (step tl s a d).1.pellets = 0) ∨ tl ≤ s.stepCount + 1) :=
  PacMan.step_last_iff tl s a d

/-- the "other cause" `dead` of `pacman_last_iff` / `pacman_exact` at the level of the RULES (audit r5 #4), for ALL states, actions
and draws: the player is dead in the successor exactly when the ghosts are not frightened (`frightened_state_time ≤ 0`) and some
ghost `i` TOUCHES the player — its new cell is the player's new cell, or its new cell is the player's old cell, or its old cell
is the player's new cell (`touches`; `i` ranges over the common length of the four per-ghost lists, 4 in every consistent state) -/
theorem pacman_dead_iff (tl : Int) (s : State) (a : Int) (d : Draw) :
    (step tl s a d).1.dead = true ↔
      (s.frightened ≤ 0 ∧ ∃ (i : Nat) (p o q : CR) (e : Bool), d.paths[i]? = some p ∧ s.initGhosts[i]? = some o ∧
        s.oldGhosts[i]? = some q ∧ s.ghostEaten[i]? = some e ∧ touches s (nextPlayer s a) p q) :=
  PacMan.dead_iff tl s a d

/-- LAST with every cause at the level of the rules: a ghost touches the unprotected player, or the last pellet is eaten, or the
limit is reached -/
theorem pacman_last_iff_rules (tl : Int) (s : State) (a : Int) (d : Draw) :
    (step tl s a d).2.stepType = .last ↔
      (((s.frightened ≤ 0 ∧ ∃ (i : Nat) (p o q : CR) (e : Bool), d.paths[i]? = some p ∧ s.initGhosts[i]? = some o ∧
          s.oldGhosts[i]? = some q ∧ s.ghostEaten[i]? = some e ∧ touches s (nextPlayer s a) p q) ∨
        (step tl s a d).1.pellets = 0) ∨ tl ≤ s.stepCount + 1) := by
  rw [PacMan.step_last_iff, PacMan.dead_iff]

/-- a one-corridor example (player at (row 1, column 0) standing still, four ghosts): no ghost touches → alive; ghost 0 steps onto the
player's cell (column 0, row 1) → dead; the same while the ghosts are frightened → alive -/
def pacmanDeadEx : State :=
  { grid := [[0,0,0,0],[1,1,1,1],[0,0,0,0]], pellets := 0, frightened := 0, pelletLocs := [], powerUps := [], player := (1,0),
    ghosts := [(3,1),(3,1),(3,1),(3,1)], initGhosts := [(3,1),(3,1),(3,1),(3,1)], oldGhosts := [(3,1),(3,1),(3,1),(3,1)],
    ghostInitSteps := [0,0,0,0], ghostActions := [4,4,4,4], lastDirection := 0, dead := false, ghostStarts := [0,0,0,0],
    stepCount := 0, ghostEaten := [true,true,true,true], score := 0 }
example : (step 10 pacmanDeadEx 4 ⟨[(3,1),(3,1),(3,1),(3,1)],[4,4,4,4]⟩).1.dead = false ∧
    (step 10 pacmanDeadEx 4 ⟨[(0,1),(3,1),(3,1),(3,1)],[4,4,4,4]⟩).1.dead = true ∧
    (step 10 { pacmanDeadEx with frightened := 5 } 4 ⟨[(0,1),(3,1),(3,1),(3,1)],[4,4,4,4]⟩).1.dead = false := by
  refine ⟨by decide +kernel, by decide +kernel, by decide +kernel⟩

/-- PacMan as an abstract step system (Core/Episode.lean; the ghost draw is part of the action) with the two-sided
single-step law -/
theorem pacman_exact (tl : Int) :
    Ep.Exact (Ep.ofStep (fun (s : State) (ad : Int × Draw) => step tl s ad.1 ad.2) (·.stepCount)) (fun _ => True)
      (fun s ad => (step tl s ad.1 ad.2).1.dead = true ∨ (step tl s ad.1 ad.2).1.pellets = 0) .ge tl :=
  Ep.Exact.of_step (fun _ _ h => h) (fun s ad _ => (PacMan.time_limit tl s ad.1 ad.2).1)
    (fun s ad _ => PacMan.step_last_iff tl s ad.1 ad.2)

/-- whole episodes: from any state with counter 0, along ANY list of (action, ghost draw) pairs of length ≥ time_limit
on which no step before the limit kills the player or eats the last pellet, the first LAST timestep is emitted exactly
at step number `time_limit` -/
theorem pacman_episode_ends_exactly_at_limit (tl : Int) (hT : 0 < tl) (s : State) (h0 : s.stepCount = 0)
    (ads : List (Int × Draw)) (hlen : tl ≤ ads.length)
    (hno : ∀ (j : Nat) (ad : Int × Draw), (j : Int) + 1 < tl → ads[j]? = some ad →
      let sj := (Ep.ofStep (fun (s : State) (ad : Int × Draw) => step tl s ad.1 ad.2) (·.stepCount)).stateAt s ads j
      ¬ ((step tl sj ad.1 ad.2).1.dead = true ∨ (step tl sj ad.1 ad.2).1.pellets = 0)) :
    Ep.firstLastTS ((Ep.rollout (fun (s : State) (ad : Int × Draw) => step tl s ad.1 ad.2) s ads).map (·.2))
      = some tl.toNat :=
  Ep.rollout_ends_exactly_at_limit (pacman_exact tl) hT s trivial h0 ads hlen hno

-- three no-ops with limit 3 in the corridor example (the ghosts stay put, far from the player): MID, MID, LAST
example : Ep.firstLastTS ((Ep.rollout (fun (s : State) (ad : Int × Draw) => step 3 s ad.1 ad.2)
    { Props.C07.pacmanCEx with player := (1, 1), ghostStarts := [9, 9, 9, 9] }
    [(4, ⟨[(3, 1), (3, 1), (3, 1), (3, 1)], [4, 4, 4, 4]⟩), (4, ⟨[(3, 1), (3, 1), (3, 1), (3, 1)], [4, 4, 4, 4]⟩),
     (4, ⟨[(3, 1), (3, 1), (3, 1), (3, 1)], [4, 4, 4, 4]⟩)]).map (·.2)) = some 3 := by decide +kernel
end Props.C11

namespace Props.C12
/-- the observation is the documented function of the successor state (copied fields + mask) -/
theorem pacman_obs_faithful (tl : Int) (s : State) (a : Int) (d : Draw) :
    (step tl s a d).2.obs = observe (step tl s a d).1 := PacMan.obs_faithful tl s a d

/-- at the strength of the RULES (wave 3; `observe` computes the mask with the L1 function `maskOf`): the mask shown in the
observation emitted by `step` is exactly the set of moves the rules allow in the SUCCESSOR state — from every
consistent state without duplicate pellets on a 0/1 maze whose borders mirror each other (all of which `reset`
establishes for the shipped maze and every step preserves), any action value, any admissible ghost draw -/
theorem pacman_obs_mask_documented (tl : Int) (s : State) (a : Int) (d : Draw) (hC : Consistent s)
    (hN : (nonzero s.pelletLocs).Nodup) (hbin : BinaryCells s.grid) (hb : BorderSymmetric s.grid)
    (hd : validGhostDraw s d = true) (b : Nat) (hb4 : b ≤ 4) :
    ((step tl s a d).2.obs.mask.getD b false = true ↔ legal (step tl s a d).1 b) :=
  PacMan.obs_mask_documented tl s a d hC hN hbin hb hd b hb4

/-- the same at `reset` (wave 3): the FIRST timestep shows the documented function of the generated state (copied
fields and the mask computed for it), and the reset state IS the generated state -/
theorem pacman_reset_obs_faithful (g : State) :
    (PacMan.reset g).2.obs = observe (PacMan.reset g).1 ∧ (PacMan.reset g).2.stepType = .first ∧
    (PacMan.reset g).1 = g := PacMan.reset_obs_faithful g
end Props.C12

namespace Props.C01
/-- a 3 × 4 maze (3 rows = `x_size`, 4 columns = `y_size`) with the player on its last row -/
def pacmanBEx : State :=
  { grid := [[0, 0, 0, 0], [0, 1, 1, 0], [0, 1, 1, 1]], pellets := 1, frightened := -2, pelletLocs := [(1, 1), (0, 0)],
    powerUps := [(0, 0)], player := (2, 3), ghosts := [(1, 1), (2, 1), (1, 2), (2, 2)],
    initGhosts := [(1, 1), (1, 1), (1, 1), (1, 1)], oldGhosts := [(1, 1), (2, 1), (1, 2), (2, 2)],
    ghostInitSteps := [0, 0, 0, 0], ghostActions := [1, 1, 1, 1], lastDirection := 0, dead := false,
    ghostStarts := [0, 0, 0, 0], stepCount := 2, ghostEaten := [true, true, true, true], score := 10 }
def pacmanBCfg : BCfg := { xSize := 3, ySize := 4, timeLimit := 5 }

/-- the reset observation (`restart(observe g)` of the generator's state `g`) has every leaf inside the interval
`obsBounds cfg` lists for it.  Hypothesis: `g` satisfies the invariant `BoundsInv` (maze of the configured
extents with entries 0/1, player / ghosts / pellets / power-ups inside it, timer in `[−step_count, 30]`,
score ≥ 0) — see `pacman_boundsInv_of_consistent`. -/
theorem pac_man_reset_obs_in_bounds (cfg : BCfg) (g : State) (hi : BoundsInv cfg g)
    (h1 : g.stepCount ≤ cfg.timeLimit) : ObsInBounds cfg (PacMan.reset g).2.obs :=
  PacMan.reset_obs_in_bounds cfg g hi h1

/-- every step of a running episode (`step_count < time_limit`) from a state satisfying the invariant, for
EVERY action value and every admissible ghost draw (each ghost stays or moves to a walkable neighbour),
emits an observation inside `obsBounds cfg`, including the terminal step -/
theorem pac_man_step_obs_in_bounds (cfg : BCfg) (s : State) (a : Int) (d : Draw) (hi : BoundsInv cfg s)
    (hd : validGhostDraw s d = true) (h1 : s.stepCount < cfg.timeLimit) :
    ObsInBounds cfg (step cfg.timeLimit s a d).2.obs := PacMan.step_obs_in_bounds cfg s a d hi hd h1

/-- the invariant is preserved by every step (any action, any admissible ghost draw), so the bounds hold
along whole episodes -/
theorem pacman_step_boundsInv (cfg : BCfg) (tl : Int) (s : State) (a : Int) (d : Draw) (hi : BoundsInv cfg s)
    (hd : validGhostDraw s d = true) : BoundsInv cfg (step tl s a d).1 :=
  PacMan.step_boundsInv cfg tl s a d hi hd

/-- the invariant follows from the consistency predicate of C07 on a 0/1 maze of the configured extents -/
theorem pacman_boundsInv_of_consistent (cfg : BCfg) (s : State) (hC : Consistent s) (hbin : BinaryCells s.grid)
    (hx : xSize s.grid = cfg.xSize) (hy : ySize s.grid = cfg.ySize)
    (hf : -s.stepCount ≤ s.frightened ∧ s.frightened ≤ 30) (hsc : 0 ≤ s.score) (hst : 0 ≤ s.stepCount) :
    BoundsInv cfg s := PacMan.boundsInv_of_consistent cfg s hC hbin hx hy hf hsc hst

example : BoundsInv pacmanBCfg pacmanBEx ∧ Consistent pacmanBEx := by decide
/-- the bound of `player_locations.x` (the row) is attained: `x = x_size − 1`.  (The original tree declared
`x ≤ y_size − 1`, `y ≤ x_size − 1` — maxima swapped; on the default 31 × 28 maze the player reaches row 28 > 27.) -/
example : (observe pacmanBEx).player.1 = (pacmanBCfg.xSize : Int) - 1 := by decide

/-! NOTE on what the membership theorems of this section do and do not cover (audits r4 #6, r5 #6, r6 #8): the dtype tag of every leaf
is written by `toNValue` (by construction) — a wrong dtype in the real code cannot falsify `….valid (toNValue …) = true`; dtypes and
field order of the real observations are compared by the `pac_man.spec` / `pac_man.state` ops (`nvalue`: field order, shape, dtype, data) and
`jax.eval_shape` in the sweeps.  Shapes are READ OFF the value by `toNValue` (widths off the first row): see `…_obs_valid_only`. -/

/-! #### membership in the DECLARED spec (wave 3): structure, shapes, dtypes and bounds -/
open Sp PzS

/-- the model's specs against the table generated from the real spec objects of `PacMan()` (Gen/Specs.lean): every
leaf of the real spec is the model's, in the same order (the `pac_man.spec` op also compares them with the real objects on every
run, for every configuration of the adapter).
(audit r5 #2) The generated table now holds every leaf whose BOUNDS are small, so the observation conjunct is about the WHOLE
`obsSpec` — `grid` (31, 28) in `[0, 1]` and `pellet_locations` (318, 2) included; it used to be filtered to the leaves of at most 160
elements.  SPEC-ONLY second configuration: `PacMan()` with the default time limit 1000 (no spec depends on it) -/
theorem pacman_obsSpec_generated :
    prefixed "observation_spec." (obsSpec ⟨31, 28, 12⟩ Gen.PacManMaze.table.pellets.length) = declared "pacman" "observation_spec." ∧
    [("action_spec", actionSpec)] = declared "pacman" "action_spec" ∧
    [("reward_spec", PzS.rewardSpec)] = declared "pacman" "reward_spec" ∧
    [("discount_spec", discountSpec)] = declared "pacman" "discount_spec" ∧
    prefixed "observation_spec." (obsSpec ⟨31, 28, 1000⟩ Gen.PacManMaze.table.pellets.length) = declared "spec-only-pacman-default" "observation_spec." ∧
    [("action_spec", actionSpec)] = declared "spec-only-pacman-default" "action_spec" ∧
    [("reward_spec", PzS.rewardSpec)] = declared "spec-only-pacman-default" "reward_spec" ∧
    [("discount_spec", discountSpec)] = declared "spec-only-pacman-default" "discount_spec" := by
  refine ⟨by decide +kernel, by decide +kernel, by decide +kernel, by decide +kernel, by decide +kernel, by decide +kernel,
    by decide +kernel, by decide +kernel⟩

/-- `reset` establishes the invariant `SpecInv` (consistent, no duplicate pellet, bounds invariant, four power-up rows,
`nPellets` pellet rows) for EVERY maze table satisfying the C10 specification with four power-ups, and EVERY step — any
action value, any time limit, any admissible ghost draw — preserves it.  "Admissible" = `validGhostDraw` (`ghostMoveOK` per ghost);
the real policy produces admissible draws only on tables without a dead end (`noDeadEndB`, audit r5 #1; witness
`Props.C10.pacman_dead_end_ghost_witness`).  The dtype tag of every leaf is written by `toNValue` (by construction); dtypes and
field order of the real observations are compared by the `pac_man.spec` / `state` ops and `jax.eval_shape` in the sweeps. -/
theorem pacman_specInv_invariant :
    (∀ (t : MazeTable) (tl : Int), MazeTableOK t → t.powerUps.length = 4 →
      SpecInv ⟨xSize t.grid, ySize t.grid, tl⟩ t.pellets.length (PacMan.reset t.toState).1) ∧
    (∀ (cfg : BCfg) (nP : Nat) (tl : Int) (s : State) (a : Int) (d : Draw), SpecInv cfg nP s →
      validGhostDraw s d = true → SpecInv cfg nP (step tl s a d).1) :=
  ⟨fun t tl h h4 => PacMan.reset_specInv t h h4 tl, fun cfg nP tl s a d hI hd => PacMan.step_specInv cfg nP tl s a d hI hd⟩

/-- the `reset` observation is accepted by `observation_spec.validate` for EVERY admissible maze table with four
power-ups: fields and order as declared; shapes `(x, y)`, `()`, `()`, `(4, 2)`, `(4, 2)`, `()`, `(nPellets, 2)`, `(5,)`,
`()`; all int32 but the boolean mask; maze cells in [0, 1], player column in [0, y_size − 1], row in [0, x_size − 1] -/
theorem pacman_reset_obs_valid (t : MazeTable) (h : MazeTableOK t) (h4 : t.powerUps.length = 4) (tl : Int) :
    (obsSpec ⟨xSize t.grid, ySize t.grid, tl⟩ t.pellets.length).valid
      (toNValue ⟨xSize t.grid, ySize t.grid, tl⟩ (PacMan.reset t.toState).2.obs) = true :=
  PacMan.reset_obs_valid t h h4 tl

/-- every `step` observation from a state satisfying the invariant: any action value, any time limit, any admissible
ghost draw, up to and including the terminal step and beyond (no leaf of the declared spec depends on the counter) -/
theorem pacman_step_obs_valid (cfg : BCfg) (nP : Nat) (tl : Int) (s : State) (a : Int) (d : Draw)
    (hI : SpecInv cfg nP s) (hd : validGhostDraw s d = true) :
    (obsSpec cfg nP).valid (toNValue cfg (step tl s a d).2.obs) = true := PacMan.step_obs_valid cfg nP tl s a d hI hd

/-- composed, the shipped maze: every observation of every episode of `PacMan()` — start state = what the real `reset`
returns (Gen/PacManMaze.lean), any actions, any time limit, admissible ghost draws — is a member of the declared spec:
the reset observation and the observation emitted by any step from any state of the episode -/
theorem pacman_obs_valid_along (tl : Int) (ads : List (Int × Draw))
    (hv : validRun tl (PacMan.reset Gen.PacManMaze.table.toState).1 ads = true) :
    (obsSpec ⟨31, 28, tl⟩ Gen.PacManMaze.table.pellets.length).valid
      (toNValue ⟨31, 28, tl⟩ (PacMan.reset Gen.PacManMaze.table.toState).2.obs) = true ∧
    ∀ s' ∈ trace tl (PacMan.reset Gen.PacManMaze.table.toState).1 ads, ∀ (a : Int) (d : Draw),
      validGhostDraw s' d = true →
      (obsSpec ⟨31, 28, tl⟩ Gen.PacManMaze.table.pellets.length).valid (toNValue ⟨31, 28, tl⟩ (step tl s' a d).2.obs) = true := by
  have h4 : Gen.PacManMaze.table.powerUps.length = 4 := by decide
  have hI := PacMan.reset_specInv Gen.PacManMaze.table Props.C10.pacman_default_maze_ok h4 tl
  have hx : xSize Gen.PacManMaze.table.grid = 31 := by decide
  have hy : ySize Gen.PacManMaze.table.grid = 28 := by decide
  rw [hx, hy] at hI
  refine ⟨PacMan.obs_valid _ _ _ hI, ?_⟩
  intro s' hs' a d hd
  exact PacMan.step_obs_valid _ _ tl s' a d (PacMan.trace_specInv _ _ tl ads _ hI hv s' hs') hd

/-- what membership means: `validate` accepts an observation ONLY IF the maze has `x_size` rows and `x_size · y_size`
cells, all 0/1, the player's row is in [0, x_size − 1] and its column in [0, y_size − 1], and there are four ghost
rows, four power-up rows, `nPellets` pellet rows and five mask bits  CAVEAT (audits r4 #7, r5 #5, r6 #5): for every field that is a nested list, `toNValue` reads the widths off the FIRST row of the
nested list, so the shape conjuncts here mean "row count, length of the first row, total number of cells" — a ragged value with the right total can be a
member, and nothing is concluded about the later rows.  Rectangularity is part of the invariant (`SpecInv` / `Shaped` / `Rect…`) under which the
forward theorems (`…_reset_obs_valid`, `…_step_obs_valid`, `…_along`) are proved, i.e. it holds of every EMITTED observation. -/
theorem pacman_obs_valid_only (cfg : BCfg) (nP : Nat) (o : Obs) (h : (obsSpec cfg nP).valid (toNValue cfg o) = true) :
    List.length o.grid = cfg.xSize ∧ (List.flatten o.grid).length = cfg.xSize * cfg.ySize ∧
    (∀ v ∈ List.flatten o.grid, v = 0 ∨ v = 1) ∧
    (0 ≤ o.player.1 ∧ o.player.1 ≤ (cfg.xSize : Int) - 1) ∧ (0 ≤ o.player.2 ∧ o.player.2 ≤ (cfg.ySize : Int) - 1) ∧
    o.ghosts.length = 4 ∧ o.powerUps.length = 4 ∧ o.pelletLocs.length = nP ∧ o.mask.length = 5 :=
  PacMan.obs_valid_only cfg nP o h

/-- the corridor example (3 × 4, four ghosts, one power-up row short of four → padded here) satisfies the invariant and
its observation is accepted; with the player's row and column exchanged in the bounds (the defect of the original
tree: `x ≤ y_size − 1`, `y ≤ x_size − 1`) the observation of `pacmanBEx` — player on row 2 of a 3 × 4 maze, column 3 —
would be rejected: column 3 > x_size − 1 = 2 -/
example : SpecInv ⟨3, 4, 5⟩ 3 { Props.C07.pacmanCEx with powerUps := [(3, 1), (0, 0), (0, 0), (0, 0)] } ∧
    (obsSpec ⟨3, 4, 5⟩ 3).valid (toNValue ⟨3, 4, 5⟩
      (observe { Props.C07.pacmanCEx with powerUps := [(3, 1), (0, 0), (0, 0), (0, 0)] })) = true ∧
    (obsSpec ⟨3, 4, 5⟩ 2).valid (toNValue ⟨3, 4, 5⟩ (observe { pacmanBEx with powerUps := [(0, 0), (0, 0), (0, 0), (0, 0)] })) = true ∧
    (obsSpec ⟨4, 3, 5⟩ 2).valid (toNValue ⟨4, 3, 5⟩ (observe { pacmanBEx with powerUps := [(0, 0), (0, 0), (0, 0), (0, 0)] })) = false := by
  decide +kernel

/-- `action_spec.generate_value()` = 0 is a member of the well-formed `DiscreteArray(5)`, and `step` answers it in EVERY
state, for every time limit and ghost draw, with a protocol-conform timestep -/
theorem pacman_accepts_generate_value (tl : Int) (s : State) (d : Draw) :
    actionSpec.WF = true ∧ actionSpec.valid actionSpec.generate = true ∧
    actionSpec.generate = ⟨[], .int32, [0]⟩ ∧ StepOK none false (step tl s 0 d).2 = true :=
  PacMan.accepts_generate_value tl s d

/-- reward and discount of every `step` (ALL states, actions, draws) are accepted by `reward_spec` / `discount_spec` -/
theorem pacman_reward_discount_valid (tl : Int) (s : State) (a : Int) (d : Draw) :
    PzS.rewardSpec.valid (scalarArr (step tl s a d).2.reward) = true ∧
    discountSpec.valid (scalarArr (step tl s a d).2.discount) = true := by
  have hc : ∀ (b : Bool) (x : Rat) (o : Obs), StepOK none false (condLast b [x] o) = true := by
    intro b x o; cases b <;> rfl
  refine stepOK_reward_discount_valid false _ ?_
  unfold step
  exact hc _ _ _
end Props.C01
