/-
Property theorems for PacMan (R model: the ghost policy is a draw `d`, every theorem holds for ALL
draws).  Proofs in Env/PacMan/Lemmas.lean.
-/
import JumanjiModel.Env.PacMan.Lemmas
import JumanjiModel.Env.PacMan.BoundsLemmas
import JumanjiModel.Env.PacMan.ConsistentLemmas
import JumanjiModel.Env.PacMan.MazeLemmas
import JumanjiModel.Gen.PacManMaze
open Jm PacMan

namespace Props.C04
/-- the mask bit of action `a` is set exactly when the rules (move into a non-wall cell, wrapping
around at the borders) allow it — for every rectangular 0/1 maze whose last row/column mirrors
the first (every tunnel has two open ends).  Without `BorderSymmetric` the statement is FALSE:
the mask clamps at the border where `step` wraps (see `pacman_mask_one_sided_witness`). -/
theorem pacman_mask_iff_legal (s : State) (a : Nat) (ha : a ≤ 4)
    (hs : Jx.Grid.shaped s.grid (xSize s.grid) (ySize s.grid) = true) (hp : Inside s)
    (hbin : Binary s.grid) (hb : BorderSymmetric s.grid) :
    (maskOf s).getD a false = true ↔ legal s a := PacMan.mask_iff_legal s a ha hs hp hbin hb

/-- the wall test `step` applies agrees with the rules: an action is legal iff the player moves -/
theorem pacman_step_agrees (s : State) (a : Nat) (ha : a ≤ 4)
    (hs : Jx.Grid.shaped s.grid (xSize s.grid) (ySize s.grid) = true) (hp : Inside s)
    (hX : 2 ≤ xSize s.grid) (hY : 2 ≤ ySize s.grid) :
    legal s a ↔ nextPlayer s (a : Int) ≠ s.player := PacMan.legal_iff_moves s a ha hs hp hX hY

def pacmanWit : State :=
  { grid := [[0, 0, 0], [0, 1, 1], [0, 0, 0]], pellets := 0, frightened := 0, pelletLocs := [], powerUps := [],
    player := (1, 2), ghosts := [], initGhosts := [], oldGhosts := [], ghostInitSteps := [], ghostActions := [],
    lastDirection := 0, dead := false, ghostStarts := [], stepCount := 0, ghostEaten := [], score := 0 }

/-- a tunnel with one open end: the mask offers "column+1" at the right border although `step`
(wrap-around) runs into the wall on the other side -/
theorem pacman_mask_one_sided_witness :
    (maskOf pacmanWit).getD 3 false = true ∧ ¬ legal pacmanWit 3 ∧ nextPlayer pacmanWit 3 = pacmanWit.player := by decide

example : legal pacmanWit 1 ∧ Jx.Grid.shaped pacmanWit.grid 3 3 = true := by decide
example : Inside pacmanWit := by unfold Inside; decide
end Props.C04

namespace Props.C05
/-- an illegal action is ignored: the player keeps its cell, the maze is untouched and only a
pellet / power-up lying on the player's own cell can disappear -/
theorem pacman_illegal_ignored (tl : Int) (s : State) (a : Nat) (d : Draw) (ha : a ≤ 4)
    (hs : Jx.Grid.shaped s.grid (xSize s.grid) (ySize s.grid) = true) (hp : Inside s)
    (hX : 2 ≤ xSize s.grid) (hY : 2 ≤ ySize s.grid) (hill : ¬ legal s a) :
    IllegalIgnored s (step tl s (a : Int) d).1 := PacMan.illegal_ignored tl s a d ha hs hp hX hY hill
end Props.C05

namespace Props.C07
/-- (partial: player only; the ghosts' cells are checked by the relation `ghostsRelOK` /
`Consistent` on implementation states, not derived) the player never enters a wall or leaves
the maze, whatever in-spec action is played and whatever the ghosts do -/
theorem pacman_player_stays_free_partial (tl : Int) (s : State) (a : Nat) (d : Draw) (ha : a ≤ 4)
    (hs : Jx.Grid.shaped s.grid (xSize s.grid) (ySize s.grid) = true)
    (hf : free s.grid s.player.1 s.player.2) :
    free (step tl s (a : Int) d).1.grid (step tl s (a : Int) d).1.player.1 (step tl s (a : Int) d).1.player.2 :=
  PacMan.player_stays_free tl s a d ha hs hf

/-- the maze and the ghosts' origins are never modified -/
theorem pacman_maze_fixed (tl : Int) (s : State) (a : Int) (d : Draw) :
    (step tl s a d).1.grid = s.grid ∧ (step tl s a d).1.initGhosts = s.initGhosts :=
  PacMan.maze_fixed tl s a d

/-- the consistency predicate (rectangular maze; player, the four ghosts and their origins on free cells
inside it; remaining pellets / power-ups on free cells; when cell (0,0) is a wall the pellet counter is the
number of remaining pellets) is preserved by EVERY step: all states, any action value, any time limit, any
admissible ghost draw (each ghost stays or moves to a walkable neighbour).  Extra hypothesis `hN`: no pellet
cell is listed twice — preserved as well, holds for every generated state (`pacman_reset_nodup`) and is
needed (`pacman_step_consistent_needs_nodup`). -/
theorem pacman_step_consistent (tl : Int) (s : State) (a : Int) (d : Draw) (hC : Consistent s)
    (hN : (nonzero s.pelletLocs).Nodup) (hd : validGhostDraw s d = true) :
    Consistent (step tl s a d).1 ∧ (nonzero (step tl s a d).1.pelletLocs).Nodup :=
  PacMan.step_consistent tl s a d hC hN hd

/-- the player part of the above for every action value (the `_partial` statement above restricted `a ≤ 4`) -/
theorem pacman_player_stays_free (tl : Int) (s : State) (a : Int) (d : Draw)
    (hs : Jx.Grid.shaped s.grid (xSize s.grid) (ySize s.grid) = true)
    (hx : 0 < xSize s.grid) (hy : 0 < ySize s.grid) (hf : free s.grid s.player.1 s.player.2) :
    free (step tl s a d).1.grid (step tl s a d).1.player.1 (step tl s a d).1.player.2 :=
  PacMan.nextPlayer_free s a hs hx hy hf

/-- a 3 × 4 maze with one corridor; the four ghosts share its right end -/
def pacmanCEx : State :=
  { grid := [[0, 0, 0, 0], [0, 1, 1, 1], [0, 0, 0, 0]], pellets := 2, frightened := 0,
    pelletLocs := [(1, 1), (2, 1), (0, 0)], powerUps := [(3, 1)], player := (1, 2),
    ghosts := [(3, 1), (3, 1), (3, 1), (3, 1)], initGhosts := [(3, 1), (3, 1), (3, 1), (3, 1)],
    oldGhosts := [(3, 1), (3, 1), (3, 1), (3, 1)], ghostInitSteps := [0, 0, 0, 0], ghostActions := [1, 1, 1, 1],
    lastDirection := 0, dead := false, ghostStarts := [0, 0, 0, 0], stepCount := 0,
    ghostEaten := [true, true, true, true], score := 0 }
/-- ghosts 0 and 1 move to the neighbouring free cell, ghosts 2 and 3 stay -/
def pacmanCDraw : Draw := { paths := [(2, 1), (2, 1), (3, 1), (3, 1)], actions := [1, 1, 4, 4] }

example : Consistent pacmanCEx ∧ (nonzero pacmanCEx.pelletLocs).Nodup ∧
    validGhostDraw pacmanCEx pacmanCDraw = true := by decide
example : Consistent (step 10 pacmanCEx 1 pacmanCDraw).1 ∧ (step 10 pacmanCEx 1 pacmanCDraw).1.pellets = 1 := by
  decide +kernel

/-- the same maze with the pellet cell (1,1) listed twice (counter 2) -/
def pacmanCDup : State := { pacmanCEx with pelletLocs := [(1, 1), (1, 1)] }
def pacmanCStay : Draw := { paths := pacmanCDup.ghosts, actions := [4, 4, 4, 4] }

/-- without `hN` the statement is false: with a pellet cell listed twice, eating it zeroes both entries but
decrements the counter once, so the successor state is not consistent (counter 1, no pellet left) -/
theorem pacman_step_consistent_needs_nodup :
    Consistent pacmanCDup ∧ validGhostDraw pacmanCDup pacmanCStay = true ∧
    Jx.Grid.get pacmanCDup.grid 1 0 0 = 0 ∧ ¬ (nonzero pacmanCDup.pelletLocs).Nodup ∧
    ¬ Consistent (step 10 pacmanCDup 1 pacmanCStay).1 := by decide +kernel

/-- the ASCII parser enumerates distinct cells -/
theorem pacman_cellsWith_nodup (maze : List (List Char)) (p : Char → Bool) : (cellsWith maze p).Nodup :=
  PacMan.cellsWith_nodup maze p

/-- every state the ASCII generator builds lists no pellet cell twice (hypothesis `hN` of
`pacman_step_consistent`) -/
theorem pacman_reset_nodup (maze : List (List Char)) (s : State) (h : resetState maze = some s) :
    (nonzero s.pelletLocs).Nodup := PacMan.resetState_nodup maze s h
end Props.C07

namespace Props.C10
/-- the executable checker of a maze table is sound, for EVERY table and certificate: if `tableCheck t dist` evaluates
to `true` then the maze is a non-empty rectangle of 0/1 cells, the player start and the four ghost starts lie inside
it on free cells, the player start is not a ghost start, all pellets / power-ups lie on free cells and are pairwise
distinct, the four scatter targets lie on free cells, and every free cell is reached from the player start by a
sequence of legal moves (4-connectivity with the tunnel wrap-around).  `dist` is only a hint (distances from the
start); nothing is assumed about it. -/
theorem pacman_table_check_sound (t : MazeTable) (dist : DistCert) (h : tableCheck t dist = true) : MazeTableOK t :=
  PacMan.tableCheck_sound t dist h

/-- the shipped maze: the table generated from the real `reset` of `PacMan()` (Gen/PacManMaze.lean) satisfies the
specification — the checker is evaluated on it by the kernel (`Gen.PacManMaze.table_ok`) -/
theorem pacman_default_maze_ok : MazeTableOK Gen.PacManMaze.table :=
  PacMan.tableCheck_sound _ _ Gen.PacManMaze.table_ok

/-- spelled out: every free cell of the shipped maze is reached from the player start (row 23, column 13) by legal
moves -/
theorem pacman_default_maze_connected (x y : Int) (hf : free Gen.PacManMaze.grid x y) :
    Reach Gen.PacManMaze.grid Gen.PacManMaze.table.player (x, y) := pacman_default_maze_ok.connected x y hf

/-- the generated table is what the model's transliteration of the ASCII parser / `AsciiGenerator.__call__`
(`resetState`, compared with the implementation by `pac_man.instance`) builds from `constants.DEFAULT_MAZE` -/
theorem pacman_default_maze_reset :
    resetState (Gen.PacManMaze.ascii.map String.toList) = some Gen.PacManMaze.table.toState := by
  rw [PacMan.resetState_eq_ofAscii, Gen.PacManMaze.ascii_table]; rfl

/-- for ANY maze table satisfying the specification, the state `reset` returns satisfies the consistency predicate
of C07 and lists no pellet cell twice (the two hypotheses of `pacman_step_consistent`) -/
theorem pacman_reset_consistent (t : MazeTable) (h : MazeTableOK t) :
    Consistent (PacMan.reset t.toState).1 ∧ (nonzero (PacMan.reset t.toState).1.pelletLocs).Nodup :=
  PacMan.reset_consistent t h

/-- connectivity is realised by the L1 step function: for ANY maze table satisfying the specification and every free
cell there is a sequence of actions 0..3 which, played from `reset` through `step`, puts the player on that cell —
for every time limit and whatever the ghosts do (`step` as a state function: the step types of the episode, which
may end earlier by a ghost collision or the time limit, are not considered) -/
theorem pacman_all_cells_walkable (t : MazeTable) (h : MazeTableOK t) (x y : Int) (hf : free t.grid x y) :
    ∃ as : List Int, (∀ a ∈ as, 0 ≤ a ∧ a < 4) ∧
      ∀ (tl : Int) (ds : List Draw), ds.length = as.length →
        ∃ s', (trace tl (PacMan.reset t.toState).1 (as.zip ds)).getLast? = some s' ∧ s'.player = (x, y) :=
  PacMan.all_cells_walkable t h x y hf

/-- a 5 × 5 maze: a ring with a horizontal tunnel (row 1) -/
def pacmanRing : MazeTable :=
  { grid := [[0, 0, 0, 0, 0], [1, 1, 1, 1, 1], [0, 1, 0, 1, 0], [0, 1, 1, 1, 0], [0, 0, 0, 0, 0]],
    player := (1, 0), ghosts := [(1, 3), (2, 3), (3, 3), (3, 2)], pellets := [(0, 1), (1, 1), (4, 1), (2, 3)],
    powerUps := [(4, 1)], scatter := [(0, 1), (4, 1), (1, 3), (3, 3)] }
example : tableCheck pacmanRing (bfsDist pacmanRing.grid pacmanRing.player) = true := by decide +kernel
/-- the tunnel is used: (column 4, row 1) is one move away from the start (column 0, row 1) -/
example : bfsDist pacmanRing.grid pacmanRing.player =
    [[0, 0, 0, 0, 0], [0, 1, 2, 2, 1], [0, 2, 0, 3, 0], [0, 3, 4, 4, 0], [0, 0, 0, 0, 0]] := by decide +kernel
/-- the checker rejects the ring with the cell (row 3, column 2) replaced by a wall and (row 4, column 2) opened:
that cell is free but cut off -/
example : tableCheck { pacmanRing with grid := [[0, 0, 0, 0, 0], [1, 1, 1, 1, 1], [0, 1, 0, 1, 0], [0, 1, 0, 1, 0], [0, 0, 1, 0, 0]],
                                       ghosts := [(1, 3), (1, 3), (3, 3), (3, 2)], pellets := [(0, 1)] }
    (bfsDist [[0, 0, 0, 0, 0], [1, 1, 1, 1, 1], [0, 1, 0, 1, 0], [0, 1, 0, 1, 0], [0, 0, 1, 0, 0]] (1, 0)) = false := by decide +kernel
end Props.C10

namespace Props.C07
/-- whole episodes, generic: from a consistent state without duplicate pellet cells, every state of every episode
(any action values, any time limit, any length, ghost draws admissible where they are used) is consistent, lists no
pellet twice and has the maze of the start state — induction over the episode with `pacman_step_consistent` -/
theorem pacman_trace_consistent (tl : Int) (s : State) (ads : List (Int × Draw)) (hC : Consistent s)
    (hN : (nonzero s.pelletLocs).Nodup) (hv : validRun tl s ads = true) :
    ∀ s' ∈ trace tl s ads, Consistent s' ∧ (nonzero s'.pelletLocs).Nodup ∧ s'.grid = s.grid :=
  PacMan.trace_consistent tl ads s hC hN hv

/-- whole episodes from `reset`, for ANY maze table satisfying the C10 specification -/
theorem pacman_run_consistent_of_table (t : MazeTable) (h : MazeTableOK t) (tl : Int) (ads : List (Int × Draw))
    (hv : validRun tl (PacMan.reset t.toState).1 ads = true) :
    ∀ s' ∈ trace tl (PacMan.reset t.toState).1 ads, Consistent s' ∧ (nonzero s'.pelletLocs).Nodup ∧ s'.grid = t.grid :=
  PacMan.trace_consistent tl ads _ (PacMan.reset_consistent t h).1 (PacMan.reset_consistent t h).2 hv

/-- the shipped maze: every state of every episode of `PacMan()` (start state = the state the real `reset` returns,
Gen/PacManMaze.lean) is consistent: the player and the four ghosts stay inside the maze on free cells, the remaining
pellets / power-ups lie on free cells, the pellet counter is the number of remaining pellets (cell (0,0) of the
shipped maze is a wall), the maze never changes -/
theorem pacman_run_consistent (tl : Int) (ads : List (Int × Draw))
    (hv : validRun tl (PacMan.reset Gen.PacManMaze.table.toState).1 ads = true) :
    ∀ s' ∈ trace tl (PacMan.reset Gen.PacManMaze.table.toState).1 ads,
      Consistent s' ∧ (nonzero s'.pelletLocs).Nodup ∧ s'.grid = Gen.PacManMaze.grid :=
  pacman_run_consistent_of_table _ Props.C10.pacman_default_maze_ok tl ads hv

/-- the hypothesis is satisfiable on the shipped maze: two steps with the ghosts staying put -/
example : validRun 1000 (PacMan.reset Gen.PacManMaze.table.toState).1
    [(1, ⟨Gen.PacManMaze.table.ghosts, [4, 4, 4, 4]⟩), (3, ⟨Gen.PacManMaze.table.ghosts, [4, 4, 4, 4]⟩)] = true := by
  decide +kernel
example : validRun 10 pacmanCEx [(1, pacmanCDraw)] = true := by decide +kernel
end Props.C07

namespace Props.C11
/-- the step counter advances by one and the timestep is LAST as soon as it reaches `time_limit` -/
theorem pacman_time_limit (tl : Int) (s : State) (a : Int) (d : Draw) :
    (step tl s a d).1.stepCount = s.stepCount + 1 ∧
    (s.stepCount + 1 ≥ tl → (step tl s a d).2.stepType = .last) := PacMan.time_limit tl s a d
end Props.C11

namespace Props.C12
/-- the observation is the documented function of the successor state (copied fields + mask) -/
theorem pacman_obs_faithful (tl : Int) (s : State) (a : Int) (d : Draw) :
    (step tl s a d).2.obs = observe (step tl s a d).1 := PacMan.obs_faithful tl s a d
end Props.C12

namespace Props.C01
/-- a 3 × 4 maze (3 rows = `x_size`, 4 columns = `y_size`) with the player on its last row -/
def pacmanBEx : State :=
  { grid := [[0, 0, 0, 0], [0, 1, 1, 0], [0, 1, 1, 1]], pellets := 1, frightened := -2, pelletLocs := [(1, 1), (0, 0)],
    powerUps := [(0, 0)], player := (2, 3), ghosts := [(1, 1), (2, 1), (1, 2), (2, 2)],
    initGhosts := [(1, 1), (1, 1), (1, 1), (1, 1)], oldGhosts := [(1, 1), (2, 1), (1, 2), (2, 2)],
    ghostInitSteps := [0, 0, 0, 0], ghostActions := [1, 1, 1, 1], lastDirection := 0, dead := false,
    ghostStarts := [0, 0, 0, 0], stepCount := 2, ghostEaten := [true, true, true, true], score := 10 }
def pacmanBCfg : BCfg := { xSize := 3, ySize := 4, timeLimit := 5 }

/-- the reset observation (`restart(observe g)` of the generator's state `g`) has every leaf inside the interval
`obsBounds cfg` lists for it.  Hypothesis: `g` satisfies the invariant `BoundsInv` (maze of the configured
extents with entries 0/1, player / ghosts / pellets / power-ups inside it, timer in `[−step_count, 30]`,
score ≥ 0) — see `pacman_boundsInv_of_consistent`. -/
theorem pac_man_reset_obs_in_bounds (cfg : BCfg) (g : State) (hi : BoundsInv cfg g)
    (h1 : g.stepCount ≤ cfg.timeLimit) : ObsInBounds cfg (PacMan.reset g).2.obs :=
  PacMan.reset_obs_in_bounds cfg g hi h1

/-- every step of a running episode (`step_count < time_limit`) from a state satisfying the invariant, for
EVERY action value and every admissible ghost draw (each ghost stays or moves to a walkable neighbour),
emits an observation inside `obsBounds cfg`, including the terminal step -/
theorem pac_man_step_obs_in_bounds (cfg : BCfg) (s : State) (a : Int) (d : Draw) (hi : BoundsInv cfg s)
    (hd : validGhostDraw s d = true) (h1 : s.stepCount < cfg.timeLimit) :
    ObsInBounds cfg (step cfg.timeLimit s a d).2.obs := PacMan.step_obs_in_bounds cfg s a d hi hd h1

/-- the invariant is preserved by every step (any action, any admissible ghost draw), so the bounds hold
along whole episodes -/
theorem pacman_step_boundsInv (cfg : BCfg) (tl : Int) (s : State) (a : Int) (d : Draw) (hi : BoundsInv cfg s)
    (hd : validGhostDraw s d = true) : BoundsInv cfg (step tl s a d).1 :=
  PacMan.step_boundsInv cfg tl s a d hi hd

/-- the invariant follows from the consistency predicate of C07 on a 0/1 maze of the configured extents -/
theorem pacman_boundsInv_of_consistent (cfg : BCfg) (s : State) (hC : Consistent s) (hbin : BinaryCells s.grid)
    (hx : xSize s.grid = cfg.xSize) (hy : ySize s.grid = cfg.ySize)
    (hf : -s.stepCount ≤ s.frightened ∧ s.frightened ≤ 30) (hsc : 0 ≤ s.score) (hst : 0 ≤ s.stepCount) :
    BoundsInv cfg s := PacMan.boundsInv_of_consistent cfg s hC hbin hx hy hf hsc hst

example : BoundsInv pacmanBCfg pacmanBEx ∧ Consistent pacmanBEx := by decide
/-- the bound of `player_locations.x` (the row) is attained: `x = x_size − 1`.  (The original tree declared
`x ≤ y_size − 1`, `y ≤ x_size − 1` — maxima swapped; on the default 31 × 28 maze the player reaches row 28 > 27.) -/
example : (observe pacmanBEx).player.1 = (pacmanBCfg.xSize : Int) - 1 := by decide
end Props.C01
