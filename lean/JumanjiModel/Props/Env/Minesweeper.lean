/-
Property theorems for Minesweeper (helper lemmas and proofs: Env/Minesweeper/Lemmas.lean).
All theorems hold for every board size, mine table and state; `shaped s.board nr nc` says the board is
an `nr × nc` array, `∀ m ∈ s.mines, 0 ≤ m` that mine locations are non-negative flat indices (the
generator draws them from `range(rows*cols)`; a negative index would be wrapped by the JAX scatter).
-/
import JumanjiModel.Env.Minesweeper.Lemmas
import JumanjiModel.Env.Minesweeper.BoundsLemmas
open Jm Jx Minesweeper

namespace Props.C04
/-- the mask bit of square `(r, c)` (false outside the board) is set exactly when the rules allow
exploring it: it is on the board and not yet explored -/
theorem minesweeper_mask_iff_legal (cfg : Cfg) (s : State) (nr nc : Nat)
    (hs : Grid.shaped s.board nr nc = true) (r c : Nat) :
    Grid.get (observeL1 cfg s).mask false r c = true ↔ legal s r c :=
  Minesweeper.mask_iff_legal cfg s nr nc hs r c

/-- the validity test `step` applies agrees with the rules on every in-spec action -/
theorem minesweeper_step_agrees (s : State) (nr nc : Nat) (hs : Grid.shaped s.board nr nc = true)
    (r c : Nat) (hr : r < nr) (hc : c < nc) : isValid s r c = true ↔ legal s r c :=
  Minesweeper.isValid_iff_legal s nr nc hs r c hr hc

example : legal ⟨[[-1, 2], [0, -1]], 2, [1, 2]⟩ 0 0 ∧ ¬ legal ⟨[[-1, 2], [0, -1]], 2, [1, 2]⟩ 0 1 := by decide
end Props.C04

namespace Props.C05
/-- selecting an already explored square ends the episode with the invalid-action reward and leaves
the mines where they are -/
theorem minesweeper_illegal_terminates (cfg : Cfg) (s : State) (nr nc : Nat)
    (hs : Grid.shaped s.board nr nc = true) (hms : ∀ m ∈ s.mines, 0 ≤ m) (r c : Nat) (hr : r < nr)
    (hc : c < nc) (h : ¬ legal s r c) :
    (step cfg s r c).2.stepType = .last ∧ (step cfg s r c).2.reward = [cfg.rInvalid] ∧
    (step cfg s r c).1.mines = s.mines := Minesweeper.illegal_step cfg s nr nc hs hms r c hr hc h

/-- … and reveals nothing: on a board whose explored squares show their neighbour counts the board is
unchanged (only `step_count` advances) -/
theorem minesweeper_illegal_board_untouched (cfg : Cfg) (s : State) (nr nc : Nat)
    (hs : Grid.shaped s.board nr nc = true) (hms : ∀ m ∈ s.mines, 0 ≤ m) (hb : BoardOK s) (r c : Nat)
    (hr : r < nr) (hc : c < nc) (h : ¬ legal s r c) : (step cfg s r c).1.board = s.board :=
  Minesweeper.illegal_board cfg s nr nc hs hms hb r c hr hc h
end Props.C05

namespace Props.C07
/-- any in-spec action from a consistent state: if the episode continues, the successor is again
consistent (board shape, exactly `numMines` distinct mines on the board, every explored square shows
its number of adjacent mines, no explored square is a mine, `step_count` = explored squares) -/
theorem minesweeper_step_consistent (cfg : Cfg) (s : State) (hcs : Consistent cfg s) (r c : Nat)
    (hr : r < cfg.numRows) (hc : c < cfg.numCols) (hn : (step cfg s r c).2.stepType ≠ .last) :
    Consistent cfg (step cfg s r c).1 := Minesweeper.step_consistent cfg s hcs r c hr hc hn

/-- the mine table is never changed by a step (any action, any state) -/
theorem minesweeper_conserved (cfg : Cfg) (s : State) (r c : Int) : Conserved s (step cfg s r c).1 :=
  Minesweeper.conserved cfg s r c

/-- a freshly generated instance (all squares unexplored, mines as advertised) is consistent -/
theorem minesweeper_reset_consistent (cfg : Cfg) (s : State) (h : InstanceOK cfg s) : Consistent cfg s :=
  Minesweeper.reset_consistent cfg s h

example : Consistent ⟨2, 2, 2, 1, 0, 0⟩ ⟨[[-1, 2], [-1, -1]], 1, [0, 3]⟩ := by decide
end Props.C07

namespace Props.C08
/-- a legal move reveals exactly one more square; it pays `rEmpty` (default 1) when the square is
safe and `rMine` (default 0) together with LAST when it is mined.  Summed over an episode of legal
moves: return = `rEmpty` · (safe squares revealed) + `rMine` · (mine revealed) -/
theorem minesweeper_reward_telescopes (cfg : Cfg) (s : State) (nr nc : Nat)
    (hs : Grid.shaped s.board nr nc = true) (hms : ∀ m ∈ s.mines, 0 ≤ m) (r c : Nat) (hr : r < nr)
    (hc : c < nc) (hl : legal s r c) :
    explored (step cfg s r c).1.board = explored s.board + 1 ∧
    (isMine s r c = false → (step cfg s r c).2.reward = [cfg.rEmpty]) ∧
    (isMine s r c = true → (step cfg s r c).2.reward = [cfg.rMine] ∧ (step cfg s r c).2.stepType = .last) :=
  Minesweeper.reward_telescopes cfg s nr nc hs hms r c hr hc hl

/-- the counters from which the documented objective is recomputed (`objective cfg s = rEmpty ·
safeRevealed s + rMine · minesRevealed s`, the value the sweep compares with the return) move in
step with the reward: a legal move on a safe square adds one safe revealed square, on a mined square
one revealed mine -/
theorem minesweeper_objective_counters (cfg : Cfg) (s : State) (nr nc : Nat)
    (hs : Grid.shaped s.board nr nc = true) (hms : ∀ m ∈ s.mines, 0 ≤ m) (r c : Nat) (hr : r < nr)
    (hc : c < nc) (hl : legal s r c) :
    safeRevealed (step cfg s r c).1 = safeRevealed s + (if isMine s r c then 0 else 1) ∧
    minesRevealed (step cfg s r c).1 = minesRevealed s + (if isMine s r c then 1 else 0) :=
  Minesweeper.counters_step cfg s nr nc hs hms r c hr hc hl
end Props.C08

namespace Props.C09
/-- the transliterated `count_adjacent_mines` (scatter, reshape, pad, two dynamic slices, minus the
centre) is the number of mines among the 8 neighbours on the board -/
theorem minesweeper_count_eq (s : State) (hms : ∀ m ∈ s.mines, 0 ≤ m) (r c : Nat) (hr : r < nrows s)
    (hc : c < ncols s) : countAdjacentMines s r c = (adjMines s r c : Int) :=
  Minesweeper.count_eq s hms r c hr hc

/-- `explored_mine` is membership of the square's flat index in the mine table -/
theorem minesweeper_exploredMine_eq (s : State) (hms : ∀ m ∈ s.mines, 0 ≤ m) (r c : Nat)
    (hr : r < nrows s) (hc : c < ncols s) : exploredMine s r c = isMine s r c :=
  Minesweeper.exploredMine_eq s hms r c hr hc

/-- successor state = the rules' successor: the chosen square shows its adjacent-mine count -/
theorem minesweeper_step_state (cfg : Cfg) (s : State) (nr nc : Nat) (hs : Grid.shaped s.board nr nc = true)
    (hms : ∀ m ∈ s.mines, 0 ≤ m) (r c : Nat) (hr : r < nr) (hc : c < nc) :
    (step cfg s r c).1 = { board := reveal s r c, stepCount := s.stepCount + 1, mines := s.mines } :=
  Minesweeper.step_state cfg s nr nc hs hms r c hr hc

/-- reward = the documented three-way reward -/
theorem minesweeper_step_reward (cfg : Cfg) (s : State) (nr nc : Nat) (hs : Grid.shaped s.board nr nc = true)
    (hms : ∀ m ∈ s.mines, 0 ≤ m) (r c : Nat) (hr : r < nr) (hc : c < nc) :
    (step cfg s r c).2.reward = [rewardSpec cfg s r c] :=
  Minesweeper.step_reward cfg s nr nc hs hms r c hr hc

/-- the episode ends exactly on an invalid move, a mine, or when all safe squares are revealed -/
theorem minesweeper_step_last_iff (cfg : Cfg) (s : State) (nr nc : Nat) (hs : Grid.shaped s.board nr nc = true)
    (hms : ∀ m ∈ s.mines, 0 ≤ m) (r c : Nat) (hr : r < nr) (hc : c < nc) :
    (step cfg s r c).2.stepType = .last ↔ doneSpec s r c :=
  Minesweeper.step_last_iff cfg s nr nc hs hms r c hr hc
end Props.C09

namespace Props.C10
/-- the certificate the driver checks on every generated instance (`minesweeper.instance`) gives what
the generator advertises: exactly `numMines` distinct mines, all on the board, on a fresh board — and
the instance is a consistent start state for C07 -/
theorem minesweeper_instance_cert (cfg : Cfg) (s : State) (h : InstanceOK cfg s) :
    s.mines.length = cfg.numMines ∧ s.mines.Nodup ∧
    (∀ m ∈ s.mines, 0 ≤ m ∧ m < ((cfg.numRows * cfg.numCols : Nat) : Int)) ∧ Consistent cfg s :=
  ⟨h.2.2.2.1, h.2.2.2.2.1, h.2.2.2.2.2, Minesweeper.reset_consistent cfg s h⟩

example : InstanceOK ⟨2, 3, 2, 1, 0, 0⟩ ⟨[[-1, -1, -1], [-1, -1, -1]], 0, [5, 1]⟩ := by decide
end Props.C10

namespace Props.C11
/-- a step that does not end the episode reveals exactly one new square and does not reach
`cells − mines` explored squares; since the episode ends when that number is reached, an episode
lasts at most `cells − mines` steps -/
theorem minesweeper_progress (cfg : Cfg) (s : State) (nr nc : Nat) (hs : Grid.shaped s.board nr nc = true)
    (hms : ∀ m ∈ s.mines, 0 ≤ m) (r c : Nat) (hr : r < nr) (hc : c < nc)
    (hn : (step cfg s r c).2.stepType ≠ .last) :
    explored (step cfg s r c).1.board = explored s.board + 1 ∧
    ((explored (step cfg s r c).1.board : Nat) : Int) ≠ ((nr * nc : Nat) : Int) - (s.mines.length : Int) :=
  Minesweeper.progress cfg s nr nc hs hms r c hr hc hn
end Props.C11

namespace Props.C12
/-- the observation is the documented view of the successor state (board, unexplored squares, the
true number of mines, the step count) -/
theorem minesweeper_obs_faithful (cfg : Cfg) (s : State) (r c : Int) (hm : s.mines.length = cfg.numMines) :
    (step cfg s r c).2.obs = observe (step cfg s r c).1 := Minesweeper.obs_faithful cfg s r c hm
end Props.C12

namespace Props.C01
open PzB
/-- the observation returned by `reset` on a generated instance (`InstanceOK`: fresh board, `num_mines` distinct mine
locations on the board): every leaf listed in `obsBounds cfg` is present and within its interval: `board` ∈ [-1, 8],
`action_mask` ∈ [0,1], `num_mines` = the configured constant, `step_count` ∈ [0, rows*cols − num_mines]
(in particular the interval is non-empty: num_mines ≤ rows*cols) -/
theorem minesweeper_reset_obs_in_bounds (cfg : Cfg) (s : State) (h : InstanceOK cfg s) :
    ObsInBounds (obsBounds cfg) (obsLeaves (resetTimeStep cfg s).obs) := Minesweeper.reset_obs_in_bounds cfg s h

/-- the same for `step` from every `Consistent` state (the C07 invariant, preserved while the episode runs:
`minesweeper_step_consistent`) that is not yet solved (the episode has not ended), for every square of the action space —
unexplored or already explored, mined or not — including the terminal step.  `step_count ≤ rows*cols − num_mines` is the
counting argument `explored + mines ≤ squares` (explored squares are not mines while the episode runs). -/
theorem minesweeper_step_obs_in_bounds (cfg : Cfg) (s : State) (hcs : Consistent cfg s) (r c : Nat)
    (hr : r < cfg.numRows) (hc : c < cfg.numCols) (hns : isSolved s = false) :
    ObsInBounds (obsBounds cfg) (obsLeaves (step cfg s r c).2.obs) :=
  Minesweeper.step_obs_in_bounds cfg s hcs r c hr hc hns

/-- the counting fact behind the `step_count` bound -/
theorem minesweeper_explored_add_mines_le (cfg : Cfg) (s : State) (hcs : Consistent cfg s) :
    explored s.board + cfg.numMines ≤ cfg.numRows * cfg.numCols :=
  Minesweeper.explored_add_mines_le cfg s hcs.1 hcs.2.1 hcs.2.2.2.1

/-- without "not yet solved" the bound fails in the model: on a solved 1x2 board with one mine, exploring the mine gives
step_count = 2 > 1*2 − 1 (such a step is after LAST in the real environment) -/
example : Consistent ⟨1, 2, 1, 1, 0, 0⟩ ⟨[[1, -1]], 1, [1]⟩ ∧ isSolved ⟨[[1, -1]], 1, [1]⟩ = true ∧
    (step ⟨1, 2, 1, 1, 0, 0⟩ ⟨[[1, -1]], 1, [1]⟩ 0 1).2.obs.stepCount = 2 := by decide
end Props.C01
