/-
Property theorems for Minesweeper (helper lemmas and proofs: Env/Minesweeper/Lemmas.lean).
All theorems hold for every board size, mine table and state; `shaped s.board nr nc` says the board is
an `nr × nc` array, `∀ m ∈ s.mines, 0 ≤ m` that mine locations are non-negative flat indices (the
generator draws them from `range(rows*cols)`; a negative index would be wrapped by the JAX scatter).
-/
import JumanjiModel.Env.Minesweeper.Lemmas
import JumanjiModel.Env.Minesweeper.BoundsLemmas
import JumanjiModel.Env.Minesweeper.Episode
import JumanjiModel.Env.Minesweeper.SpecLemmas
open Jm Jx Minesweeper

namespace Props.C04
/-- the mask bit of square `(r, c)` (false outside the board) is set exactly when the rules allow
exploring it: it is on the board and not yet explored -/
theorem minesweeper_mask_iff_legal (cfg : Cfg) (s : State) (nr nc : Nat)
    (hs : Grid.shaped s.board nr nc = true) (r c : Nat) :
    Grid.get (observeL1 cfg s).mask false r c = true ↔ legal s r c :=
  Minesweeper.mask_iff_legal cfg s nr nc hs r c

/-- the validity test `step` applies agrees with the rules on every in-spec action -/
theorem minesweeper_step_agrees (s : State) (nr nc : Nat) (hs : Grid.shaped s.board nr nc = true)
    (r c : Nat) (hr : r < nr) (hc : c < nc) : isValid s r c = true ↔ legal s r c :=
  Minesweeper.isValid_iff_legal s nr nc hs r c hr hc

example : legal ⟨[[-1, 2], [0, -1]], 2, [1, 2]⟩ 0 0 ∧ ¬ legal ⟨[[-1, 2], [0, -1]], 2, [1, 2]⟩ 0 1 := by decide

/-- (wave 3; the statement above is about the test `is_valid_action`, not about what `step` does) the reaction of `step`
ITSELF: from every consistent state (every non-terminal state of every episode from a generated instance:
`minesweeper_consistent_along`) and for every square of the board, the rules allow exploring it IFF `step` revealed exactly
one more square; and `step` treated the action as invalid — LAST with nothing new revealed, which is how the harness reads
the reaction off a transition — IFF the rules forbid it -/
theorem minesweeper_step_reaction (cfg : Cfg) (s : State) (hcs : Consistent cfg s) (r c : Nat)
    (hr : r < cfg.numRows) (hc : c < cfg.numCols) :
    (legal s r c ↔ explored (step cfg s r c).1.board = explored s.board + 1) ∧
    (¬ legal s r c ↔ ((step cfg s r c).2.stepType = .last ∧ explored (step cfg s r c).1.board = explored s.board)) :=
  Minesweeper.step_reaction cfg s hcs r c hr hc

example : Consistent ⟨2, 2, 2, 1, 0, 0⟩ ⟨[[-1, 2], [-1, -1]], 1, [0, 3]⟩ ∧
    ¬ legal ⟨[[-1, 2], [-1, -1]], 1, [0, 3]⟩ 0 1 ∧ legal ⟨[[-1, 2], [-1, -1]], 1, [0, 3]⟩ 1 0 := by decide
end Props.C04

namespace Props.C05
/-- selecting an already explored square ends the episode with the invalid-action reward and leaves
the mines where they are -/
theorem minesweeper_illegal_terminates (cfg : Cfg) (s : State) (nr nc : Nat)
    (hs : Grid.shaped s.board nr nc = true) (hms : ∀ m ∈ s.mines, 0 ≤ m) (r c : Nat) (hr : r < nr)
    (hc : c < nc) (h : ¬ legal s r c) :
    (step cfg s r c).2.stepType = .last ∧ (step cfg s r c).2.reward = [cfg.rInvalid] ∧
    (step cfg s r c).1.mines = s.mines := Minesweeper.illegal_step cfg s nr nc hs hms r c hr hc h

/-- … and reveals nothing: on a board whose explored squares show their neighbour counts the board is
unchanged (only `step_count` advances) -/
theorem minesweeper_illegal_board_untouched (cfg : Cfg) (s : State) (nr nc : Nat)
    (hs : Grid.shaped s.board nr nc = true) (hms : ∀ m ∈ s.mines, 0 ≤ m) (hb : BoardOK s) (r c : Nat)
    (hr : r < nr) (hc : c < nc) (h : ¬ legal s r c) : (step cfg s r c).1.board = s.board :=
  Minesweeper.illegal_board cfg s nr nc hs hms hb r c hr hc h
end Props.C05

namespace Props.C07
/-- any in-spec action from a consistent state: if the episode continues, the successor is again
consistent (board shape, exactly `numMines` distinct mines on the board, every explored square shows
its number of adjacent mines, no explored square is a mine, `step_count` = explored squares) -/
theorem minesweeper_step_consistent (cfg : Cfg) (s : State) (hcs : Consistent cfg s) (r c : Nat)
    (hr : r < cfg.numRows) (hc : c < cfg.numCols) (hn : (step cfg s r c).2.stepType ≠ .last) :
    Consistent cfg (step cfg s r c).1 := Minesweeper.step_consistent cfg s hcs r c hr hc hn

/-- the mine table is never changed by a step (any action, any state) -/
theorem minesweeper_conserved (cfg : Cfg) (s : State) (r c : Int) : Conserved s (step cfg s r c).1 :=
  Minesweeper.conserved cfg s r c

/-- a freshly generated instance (all squares unexplored, mines as advertised) is consistent -/
theorem minesweeper_reset_consistent (cfg : Cfg) (s : State) (h : InstanceOK cfg s) : Consistent cfg s :=
  Minesweeper.reset_consistent cfg s h

example : Consistent ⟨2, 2, 2, 1, 0, 0⟩ ⟨[[-1, 2], [-1, -1]], 1, [0, 3]⟩ := by decide

/-- (wave 3) ALONG WHOLE EPISODES FROM THE GENERATOR: for every board size, every valid draw of the mine locations and
every sequence of in-spec actions (legal or not), EVERY state from which the episode continues — the final state of every
prefix that has not met a LAST step — is `Consistent` (board shape, exactly `num_mines` distinct mines on the board, every
explored square shows its number of adjacent mines, no explored square is a mine, `step_count` = explored squares = number
of actions played) -/
theorem minesweeper_consistent_along (cfg : Cfg) (d : List Nat) (hd : validDraw cfg d) (as : List (Nat × Nat))
    (hin : ∀ a ∈ as, a.1 < cfg.numRows ∧ a.2 < cfg.numCols) (k : Nat)
    (hrun : (play cfg (generate cfg d) (as.take k)).ending = .running) :
    Consistent cfg (play cfg (generate cfg d) (as.take k)).final ∧
    explored (play cfg (generate cfg d) (as.take k)).final.board = (as.take k).length := by
  have hcs := Minesweeper.reset_consistent cfg _ (Minesweeper.generate_instanceOK cfg d hd)
  obtain ⟨h1, h2, _⟩ := Minesweeper.play_running_explored cfg _ hcs (as.take k)
    (fun a ha => hin a (List.mem_of_mem_take ha)) hrun
  refine ⟨h2, ?_⟩
  have h0 : ((explored (generate cfg d).board : Nat) : Int) = 0 := by rw [← hcs.2.2.2.2]; rfl
  omega

/-- … and the mine table is the generated one in the final state of EVERY play: any state, any actions, any ending (also
the terminal states, also out-of-range squares) -/
theorem minesweeper_mines_conserved_along (cfg : Cfg) (s : State) (as : List (Nat × Nat)) :
    (play cfg s as).final.mines = s.mines := Minesweeper.play_mines cfg s as

example : validDraw ⟨2, 3, 2, 1, 0, 0⟩ [5, 1] ∧
    (play ⟨2, 3, 2, 1, 0, 0⟩ (generate ⟨2, 3, 2, 1, 0, 0⟩ [5, 1]) ([(0, 0), (1, 0), (0, 1)].take 2)).ending = .running := by
  decide +kernel
end Props.C07

namespace Props.C08
/-- a legal move reveals exactly one more square; it pays `rEmpty` (default 1) when the square is
safe and `rMine` (default 0) together with LAST when it is mined.  Summed over an episode of legal
moves: return = `rEmpty` · (safe squares revealed) + `rMine` · (mine revealed) -/
theorem minesweeper_reward_telescopes (cfg : Cfg) (s : State) (nr nc : Nat)
    (hs : Grid.shaped s.board nr nc = true) (hms : ∀ m ∈ s.mines, 0 ≤ m) (r c : Nat) (hr : r < nr)
    (hc : c < nc) (hl : legal s r c) :
    explored (step cfg s r c).1.board = explored s.board + 1 ∧
    (isMine s r c = false → (step cfg s r c).2.reward = [cfg.rEmpty]) ∧
    (isMine s r c = true → (step cfg s r c).2.reward = [cfg.rMine] ∧ (step cfg s r c).2.stepType = .last) :=
  Minesweeper.reward_telescopes cfg s nr nc hs hms r c hr hc hl

/-- the counters from which the documented objective is recomputed (`objective cfg s = rEmpty ·
safeRevealed s + rMine · minesRevealed s`, the value the sweep compares with the return) move in
step with the reward: a legal move on a safe square adds one safe revealed square, on a mined square
one revealed mine -/
theorem minesweeper_objective_counters (cfg : Cfg) (s : State) (nr nc : Nat)
    (hs : Grid.shaped s.board nr nc = true) (hms : ∀ m ∈ s.mines, 0 ≤ m) (r c : Nat) (hr : r < nr)
    (hc : c < nc) (hl : legal s r c) :
    safeRevealed (step cfg s r c).1 = safeRevealed s + (if isMine s r c then 0 else 1) ∧
    minesRevealed (step cfg s r c).1 = minesRevealed s + (if isMine s r c then 1 else 0) :=
  Minesweeper.counters_step cfg s nr nc hs hms r c hr hc hl
/-- WHOLE EPISODE, from any consistent state (C07 invariant) along ANY list of in-spec actions, played with the L1
`step` until the first LAST time step (`play`: the episode may end by revealing a mine, by an invalid action, by
clearing the board, or the action list may run out before that):
  return + rEmpty · (safe squares revealed at the start) = rEmpty · (safe squares revealed at the end) + terminal term,
terminal term = `rMine` if it ended on a mine, `rInvalid` if it ended on an already revealed square, 0 otherwise -/
theorem minesweeper_play_return (cfg : Cfg) (s : State) (hcs : Consistent cfg s) (as : List (Nat × Nat))
    (hin : ∀ a ∈ as, a.1 < cfg.numRows ∧ a.2 < cfg.numCols) :
    (play cfg s as).ret + cfg.rEmpty * (safeRevealed s : Rat) =
      cfg.rEmpty * (safeRevealed (play cfg s as).final : Rat) + terminalTerm cfg (play cfg s as).ending :=
  Minesweeper.play_return cfg s hcs as hin

/-- WHOLE EPISODE from a generated instance (all board sizes, all mine tables, all action sequences):
return = (number of safe squares revealed) × revealed_empty_square_reward + the terminal term (mine / invalid-action
reward), which is the documented objective recomputed from the final state (plus the invalid-action reward when
the episode ended that way) -/
theorem minesweeper_episode_return (cfg : Cfg) (s : State) (h : InstanceOK cfg s) (as : List (Nat × Nat))
    (hin : ∀ a ∈ as, a.1 < cfg.numRows ∧ a.2 < cfg.numCols) :
    (play cfg s as).ret =
      cfg.rEmpty * (safeRevealed (play cfg s as).final : Rat) + terminalTerm cfg (play cfg s as).ending ∧
    (play cfg s as).ret = objective cfg (play cfg s as).final +
      (if (play cfg s as).ending = .invalid then cfg.rInvalid else 0) :=
  Minesweeper.episode_return cfg s h as hin

/-- the same for the transliterated generator: every valid draw of mines, every action sequence -/
theorem minesweeper_episode_return_generated (cfg : Cfg) (d : List Nat) (hd : validDraw cfg d)
    (as : List (Nat × Nat)) (hin : ∀ a ∈ as, a.1 < cfg.numRows ∧ a.2 < cfg.numCols) :
    (play cfg (generate cfg d) as).ret =
      cfg.rEmpty * (safeRevealed (play cfg (generate cfg d) as).final : Rat) +
        terminalTerm cfg (play cfg (generate cfg d) as).ending :=
  (Minesweeper.episode_return cfg _ (Minesweeper.generate_instanceOK cfg d hd) as hin).1

/-- what the endings mean: `.cleared` = the final board is solved (all safe squares revealed); a mine is revealed
exactly when the episode ended on one (and then exactly one) -/
theorem minesweeper_episode_ending (cfg : Cfg) (s : State) (hcs : Consistent cfg s) (as : List (Nat × Nat))
    (hin : ∀ a ∈ as, a.1 < cfg.numRows ∧ a.2 < cfg.numCols) :
    ((play cfg s as).ending = .cleared → isSolved (play cfg s as).final = true) ∧
    minesRevealed (play cfg s as).final = (if (play cfg s as).ending = .mine then 1 else 0) :=
  Minesweeper.play_ending cfg s hcs as hin

/-- … and `.running` = no LAST step met: every action revealed one more safe square -/
theorem minesweeper_episode_running (cfg : Cfg) (s : State) (hcs : Consistent cfg s) (as : List (Nat × Nat))
    (hin : ∀ a ∈ as, a.1 < cfg.numRows ∧ a.2 < cfg.numCols) (hrun : (play cfg s as).ending = .running) :
    safeRevealed (play cfg s as).final = safeRevealed s + as.length ∧ Consistent cfg (play cfg s as).final :=
  Minesweeper.play_running cfg s hcs as hin hrun

/-- with revealed_empty_square_reward = 1 (the default) an episode that does not end on a mine or an invalid move
returns exactly the number of safe squares revealed, whatever the other two reward constants are -/
theorem minesweeper_return_eq_safe_revealed (cfg : Cfg) (s : State) (h : InstanceOK cfg s) (as : List (Nat × Nat))
    (hin : ∀ a ∈ as, a.1 < cfg.numRows ∧ a.2 < cfg.numCols) (h1 : cfg.rEmpty = 1)
    (hm : (play cfg s as).ending ≠ .mine) (hi : (play cfg s as).ending ≠ .invalid) :
    (play cfg s as).ret = (safeRevealed (play cfg s as).final : Rat) := by
  rw [(Minesweeper.episode_return cfg s h as hin).1, h1, Rat.one_mul]
  cases he : (play cfg s as).ending <;> simp_all [terminalTerm, Rat.add_zero]

/-- with all three default constants (1, 0, 0) this holds for EVERY ending -/
theorem minesweeper_default_return_eq_safe_revealed (cfg : Cfg) (s : State) (h : InstanceOK cfg s)
    (as : List (Nat × Nat)) (hin : ∀ a ∈ as, a.1 < cfg.numRows ∧ a.2 < cfg.numCols) (h1 : cfg.rEmpty = 1)
    (h2 : cfg.rMine = 0) (h3 : cfg.rInvalid = 0) :
    (play cfg s as).ret = (safeRevealed (play cfg s as).final : Rat) := by
  rw [(Minesweeper.episode_return cfg s h as hin).1, h1, Rat.one_mul]
  cases he : (play cfg s as).ending <;> simp [terminalTerm, Rat.add_zero, h2, h3]

-- 2×3 board, mines at flat 1 and 5, rewards (1/2, -1, -2): reveal (0,0), (1,0), then the mine (0,1): return 1/2+1/2-1;
-- reveal (0,0) twice: ends on the invalid move with 1/2-2; all four safe squares: cleared with return 2
example : InstanceOK ⟨2, 3, 2, 1/2, -1, -2⟩ (generate ⟨2, 3, 2, 1/2, -1, -2⟩ [5, 1]) ∧
    (play ⟨2, 3, 2, 1/2, -1, -2⟩ (generate ⟨2, 3, 2, 1/2, -1, -2⟩ [5, 1]) [(0, 0), (1, 0), (0, 1), (1, 1)]).ending = .mine ∧
    (play ⟨2, 3, 2, 1/2, -1, -2⟩ (generate ⟨2, 3, 2, 1/2, -1, -2⟩ [5, 1]) [(0, 0), (1, 0), (0, 1), (1, 1)]).ret = 0 ∧
    (play ⟨2, 3, 2, 1/2, -1, -2⟩ (generate ⟨2, 3, 2, 1/2, -1, -2⟩ [5, 1]) [(0, 0), (0, 0)]).ending = .invalid ∧
    (play ⟨2, 3, 2, 1/2, -1, -2⟩ (generate ⟨2, 3, 2, 1/2, -1, -2⟩ [5, 1]) [(0, 0), (0, 0)]).ret = -3/2 ∧
    (play ⟨2, 3, 2, 1/2, -1, -2⟩ (generate ⟨2, 3, 2, 1/2, -1, -2⟩ [5, 1]) [(0, 0), (1, 0), (0, 2), (1, 1), (0, 1)]).ending = .cleared ∧
    (play ⟨2, 3, 2, 1/2, -1, -2⟩ (generate ⟨2, 3, 2, 1/2, -1, -2⟩ [5, 1]) [(0, 0), (1, 0), (0, 2), (1, 1), (0, 1)]).ret = 2 := by
  decide +kernel
end Props.C08

namespace Props.C09
/-- the transliterated `count_adjacent_mines` (scatter, reshape, pad, two dynamic slices, minus the
centre) is the number of mines among the 8 neighbours on the board -/
theorem minesweeper_count_eq (s : State) (hms : ∀ m ∈ s.mines, 0 ≤ m) (r c : Nat) (hr : r < nrows s)
    (hc : c < ncols s) : countAdjacentMines s r c = (adjMines s r c : Int) :=
  Minesweeper.count_eq s hms r c hr hc

/-- `explored_mine` is membership of the square's flat index in the mine table -/
theorem minesweeper_exploredMine_eq (s : State) (hms : ∀ m ∈ s.mines, 0 ≤ m) (r c : Nat)
    (hr : r < nrows s) (hc : c < ncols s) : exploredMine s r c = isMine s r c :=
  Minesweeper.exploredMine_eq s hms r c hr hc

/-- successor state = the rules' successor: the chosen square shows its adjacent-mine count -/
theorem minesweeper_step_state (cfg : Cfg) (s : State) (nr nc : Nat) (hs : Grid.shaped s.board nr nc = true)
    (hms : ∀ m ∈ s.mines, 0 ≤ m) (r c : Nat) (hr : r < nr) (hc : c < nc) :
    (step cfg s r c).1 = { board := reveal s r c, stepCount := s.stepCount + 1, mines := s.mines } :=
  Minesweeper.step_state cfg s nr nc hs hms r c hr hc

/-- reward = the documented three-way reward -/
theorem minesweeper_step_reward (cfg : Cfg) (s : State) (nr nc : Nat) (hs : Grid.shaped s.board nr nc = true)
    (hms : ∀ m ∈ s.mines, 0 ≤ m) (r c : Nat) (hr : r < nr) (hc : c < nc) :
    (step cfg s r c).2.reward = [rewardSpec cfg s r c] :=
  Minesweeper.step_reward cfg s nr nc hs hms r c hr hc

/-- the episode ends exactly on an invalid move, a mine, or when all safe squares are revealed -/
theorem minesweeper_step_last_iff (cfg : Cfg) (s : State) (nr nc : Nat) (hs : Grid.shaped s.board nr nc = true)
    (hms : ∀ m ∈ s.mines, 0 ≤ m) (r c : Nat) (hr : r < nr) (hc : c < nc) :
    (step cfg s r c).2.stepType = .last ↔ doneSpec s r c :=
  Minesweeper.step_last_iff cfg s nr nc hs hms r c hr hc
end Props.C09

namespace Props.C10
/-- the certificate the driver checks on every generated instance (`minesweeper.instance`) gives what
the generator advertises: exactly `numMines` distinct mines, all on the board, on a fresh board — and
the instance is a consistent start state for C07 -/
theorem minesweeper_instance_cert (cfg : Cfg) (s : State) (h : InstanceOK cfg s) :
    s.mines.length = cfg.numMines ∧ s.mines.Nodup ∧
    (∀ m ∈ s.mines, 0 ≤ m ∧ m < ((cfg.numRows * cfg.numCols : Nat) : Int)) ∧ Consistent cfg s :=
  ⟨h.2.2.2.1, h.2.2.2.2.1, h.2.2.2.2.2, Minesweeper.reset_consistent cfg s h⟩

example : InstanceOK ⟨2, 3, 2, 1, 0, 0⟩ ⟨[[-1, -1, -1], [-1, -1, -1]], 0, [5, 1]⟩ := by decide
/-- the TRANSLITERATED generator (`Generator.__call__` + `create_flat_mine_locations` = `jax.random.choice(key,
rows*cols, (num_mines,), replace=False)`, the drawn locations being the parameter): for ALL sizes and ALL valid draws
(`num_mines` distinct flat indices below rows·cols) the generated state has exactly `num_mines` distinct mines, all on
the board, the board is `rows × cols` and entirely unexplored (all −1), step_count is 0 — and it is a consistent start
state.  `minesweeper.instance` replays `generate` on the draw read off every real reset state. -/
theorem minesweeper_generate_cert (cfg : Cfg) (d : List Nat) (hd : validDraw cfg d) :
    (generate cfg d).mines.length = cfg.numMines ∧ (generate cfg d).mines.Nodup ∧
    (∀ m ∈ (generate cfg d).mines, 0 ≤ m ∧ m < ((cfg.numRows * cfg.numCols : Nat) : Int)) ∧
    Grid.shaped (generate cfg d).board cfg.numRows cfg.numCols = true ∧
    Grid.all (fun v => v == -1) (generate cfg d).board = true ∧ (generate cfg d).stepCount = 0 ∧
    InstanceOK cfg (generate cfg d) ∧ Consistent cfg (generate cfg d) := by
  have h := Minesweeper.generate_instanceOK cfg d hd
  exact ⟨h.2.2.2.1, h.2.2.2.2.1, h.2.2.2.2.2, h.1, h.2.1, h.2.2.1, h, Minesweeper.reset_consistent cfg _ h⟩

/-- conversely the certificate `InstanceOK` is exactly the range of the generator: a state passes it iff it is
`generate cfg d` for a valid draw `d` (the one read off its mine table) -/
theorem minesweeper_instance_iff_generated (cfg : Cfg) (s : State) :
    InstanceOK cfg s ↔ ∃ d, validDraw cfg d ∧ generate cfg d = s :=
  ⟨fun h => ⟨drawOf s, Minesweeper.instanceOK_is_generated cfg s h⟩,
   fun ⟨d, hd, e⟩ => e ▸ Minesweeper.generate_instanceOK cfg d hd⟩

example : validDraw ⟨2, 3, 2, 1, 0, 0⟩ [5, 1] ∧
    generate ⟨2, 3, 2, 1, 0, 0⟩ [5, 1] = ⟨[[-1, -1, -1], [-1, -1, -1]], 0, [5, 1]⟩ ∧
    ¬ validDraw ⟨2, 3, 2, 1, 0, 0⟩ [5, 5] ∧ ¬ validDraw ⟨2, 3, 2, 1, 0, 0⟩ [6, 1] := by decide
end Props.C10

namespace Props.C11
/-- a step that does not end the episode reveals exactly one new square and does not reach
`cells − mines` explored squares; since the episode ends when that number is reached, an episode
lasts at most `cells − mines` steps -/
theorem minesweeper_progress (cfg : Cfg) (s : State) (nr nc : Nat) (hs : Grid.shaped s.board nr nc = true)
    (hms : ∀ m ∈ s.mines, 0 ≤ m) (r c : Nat) (hr : r < nr) (hc : c < nc)
    (hn : (step cfg s r c).2.stepType ≠ .last) :
    explored (step cfg s r c).1.board = explored s.board + 1 ∧
    ((explored (step cfg s r c).1.board : Nat) : Int) ≠ ((nr * nc : Nat) : Int) - (s.mines.length : Int) :=
  Minesweeper.progress cfg s nr nc hs hms r c hr hc hn

/-- (wave 3) EPISODE level, from the generator (all sizes, all valid mine draws, all in-spec action sequences; `play` = the L1
`step` iterated until the first LAST): an episode never lasts longer than its structural horizon `cells − mines` — a
non-empty action list that has not met LAST is strictly shorter than `cells − num_mines` (so LAST comes at step
`cells − num_mines` at the latest, and at step 1 if `num_mines ≥ cells − 1`) -/
theorem minesweeper_episode_within_horizon (cfg : Cfg) (d : List Nat) (hd : validDraw cfg d) (as : List (Nat × Nat))
    (hin : ∀ a ∈ as, a.1 < cfg.numRows ∧ a.2 < cfg.numCols) (hne : as ≠ [])
    (hrun : (play cfg (generate cfg d) as).ending = .running) :
    as.length + cfg.numMines < cfg.numRows * cfg.numCols := by
  have hcs := Minesweeper.reset_consistent cfg _ (Minesweeper.generate_instanceOK cfg d hd)
  have := Minesweeper.play_running_short cfg _ hcs as hin hrun hne
  omega

/-- … never earlier: an episode that ends for no other reason (no mine, no invalid move: it ends `.cleared`) ends exactly
when `step_count = cells − num_mines`, all those squares being explored -/
theorem minesweeper_cleared_exactly_at_horizon (cfg : Cfg) (d : List Nat) (hd : validDraw cfg d) (as : List (Nat × Nat))
    (hin : ∀ a ∈ as, a.1 < cfg.numRows ∧ a.2 < cfg.numCols)
    (hcl : (play cfg (generate cfg d) as).ending = .cleared) :
    (play cfg (generate cfg d) as).final.stepCount = ((cfg.numRows * cfg.numCols : Nat) : Int) - (cfg.numMines : Int) ∧
    ((explored (play cfg (generate cfg d) as).final.board : Nat) : Int) = (play cfg (generate cfg d) as).final.stepCount :=
  Minesweeper.play_cleared_count cfg _ (Minesweeper.reset_consistent cfg _ (Minesweeper.generate_instanceOK cfg d hd)) as hin hcl

-- 2×3 board with mines at 1 and 5: the four safe squares clear the board at step 4 = 6 − 2
example : (play ⟨2, 3, 2, 1, 0, 0⟩ (generate ⟨2, 3, 2, 1, 0, 0⟩ [5, 1]) [(0, 0), (1, 0), (0, 2), (1, 1)]).ending = .cleared ∧
    (play ⟨2, 3, 2, 1, 0, 0⟩ (generate ⟨2, 3, 2, 1, 0, 0⟩ [5, 1]) [(0, 0), (1, 0), (0, 2), (1, 1)]).final.stepCount = 4 := by
  decide +kernel
end Props.C11

namespace Props.C12
/-- the observation is the documented view of the successor state (board, unexplored squares, the
true number of mines, the step count) -/
theorem minesweeper_obs_faithful (cfg : Cfg) (s : State) (r c : Int) (hm : s.mines.length = cfg.numMines) :
    (step cfg s r c).2.obs = observe (step cfg s r c).1 := Minesweeper.obs_faithful cfg s r c hm

/-- (wave 3) the `reset` observation is the same documented function of the generated state, for every valid draw: the
board (all −1), every square selectable, the number of mines really placed, step count 0 -/
theorem minesweeper_reset_obs_faithful (cfg : Cfg) (d : List Nat) (hd : validDraw cfg d) :
    (resetTimeStep cfg (generate cfg d)).obs = observe (generate cfg d) ∧
    (resetTimeStep cfg (generate cfg d)).stepType = .first ∧
    (observe (generate cfg d)).numMines = cfg.numMines ∧ (observe (generate cfg d)).stepCount = 0 := by
  have hm : (generate cfg d).mines.length = cfg.numMines := by simp [generate, hd.1]
  refine ⟨Minesweeper.reset_obs_faithful cfg _ hm, rfl, ?_, rfl⟩
  show (((generate cfg d).mines.length : Nat) : Int) = _
  rw [hm]
end Props.C12

namespace Props.C01
open PzB
/-- the observation returned by `reset` on a generated instance (`InstanceOK`: fresh board, `num_mines` distinct mine
locations on the board): every leaf listed in `obsBounds cfg` is present and within its interval: `board` ∈ [-1, 8],
`action_mask` ∈ [0,1], `num_mines` = the configured constant, `step_count` ∈ [0, rows*cols − num_mines]
(in particular the interval is non-empty: num_mines ≤ rows*cols) -/
theorem minesweeper_reset_obs_in_bounds (cfg : Cfg) (s : State) (h : InstanceOK cfg s) :
    ObsInBounds (obsBounds cfg) (obsLeaves (resetTimeStep cfg s).obs) := Minesweeper.reset_obs_in_bounds cfg s h

/-- the same for `step` from every `Consistent` state (the C07 invariant, preserved while the episode runs:
`minesweeper_step_consistent`) that is not yet solved (the episode has not ended), for every square of the action space —
unexplored or already explored, mined or not — including the terminal step.  `step_count ≤ rows*cols − num_mines` is the
counting argument `explored + mines ≤ squares` (explored squares are not mines while the episode runs). -/
theorem minesweeper_step_obs_in_bounds (cfg : Cfg) (s : State) (hcs : Consistent cfg s) (r c : Nat)
    (hr : r < cfg.numRows) (hc : c < cfg.numCols) (hns : isSolved s = false) :
    ObsInBounds (obsBounds cfg) (obsLeaves (step cfg s r c).2.obs) :=
  Minesweeper.step_obs_in_bounds cfg s hcs r c hr hc hns

/-- the counting fact behind the `step_count` bound -/
theorem minesweeper_explored_add_mines_le (cfg : Cfg) (s : State) (hcs : Consistent cfg s) :
    explored s.board + cfg.numMines ≤ cfg.numRows * cfg.numCols :=
  Minesweeper.explored_add_mines_le cfg s hcs.1 hcs.2.1 hcs.2.2.2.1

/-- without "not yet solved" the bound fails in the model: on a solved 1x2 board with one mine, exploring the mine gives
step_count = 2 > 1*2 − 1 (such a step is after LAST in the real environment) -/
example : Consistent ⟨1, 2, 1, 1, 0, 0⟩ ⟨[[1, -1]], 1, [1]⟩ ∧ isSolved ⟨[[1, -1]], 1, [1]⟩ = true ∧
    (step ⟨1, 2, 1, 1, 0, 0⟩ ⟨[[1, -1]], 1, [1]⟩ 0 1).2.obs.stepCount = 2 := by decide

/-! NOTE on what the membership theorems of this section do and do not cover (audits r4 #6, r5 #6, r6 #8): the dtype tag of every leaf
is written by `toNValue` (by construction) — a wrong dtype in the real code cannot falsify `….valid (toNValue …) = true`; dtypes and
field order of the real observations are compared by the `minesweeper.spec` / `minesweeper.state` ops (`nvalue`: field order, shape, dtype, data) and
`jax.eval_shape` in the sweeps.  Shapes are READ OFF the value by `toNValue` (widths off the first row): see `…_obs_valid_only`. -/

/-! #### (wave 3) membership in the DECLARED specs: structure, shapes, dtypes and bounds -/
open Sp PzS PzS3

/-- the model's `obsSpec` / `actionSpec` / reward and discount specs ARE the specs generated from the real spec objects
(Gen/Specs.lean) for the catalogue configuration of Minesweeper (5 × 6 board, 4 mines)
SPEC-ONLY second configuration (3 × 4 board, 5 mines: rows, columns and mines pairwise distinct; `num_mines ≤ R·C − 1 = 11`,
`step_count ≤ R·C − mines = 7`), so that a spec with two parameters exchanged fails -/
theorem minesweeper_obsSpec_generated :
    prefixed "observation_spec." (obsSpec ⟨5, 6, 4, 1, 0, 0⟩) = declared "minesweeper-5x6" "observation_spec." ∧
    [("action_spec", actionSpec ⟨5, 6, 4, 1, 0, 0⟩)] = declared "minesweeper-5x6" "action_spec" ∧
    [("reward_spec", PzS.rewardSpec)] = declared "minesweeper-5x6" "reward_spec" ∧
    [("discount_spec", discountSpec)] = declared "minesweeper-5x6" "discount_spec" ∧
    prefixed "observation_spec." (obsSpec ⟨3, 4, 5, 1, 0, 0⟩) = declared "spec-only-minesweeper-3x4x5" "observation_spec." ∧
    [("action_spec", actionSpec ⟨3, 4, 5, 1, 0, 0⟩)] = declared "spec-only-minesweeper-3x4x5" "action_spec" ∧
    [("reward_spec", PzS.rewardSpec)] = declared "spec-only-minesweeper-3x4x5" "reward_spec" ∧
    [("discount_spec", discountSpec)] = declared "spec-only-minesweeper-3x4x5" "discount_spec" := by
  refine ⟨by decide +kernel, by decide +kernel, by decide +kernel, by decide +kernel, by decide +kernel, by decide +kernel,
    by decide +kernel, by decide +kernel⟩

/-- the `reset` observation of the TRANSLITERATED generator — all sizes, every valid draw of the mine locations; the
generator's constructor refuses `num_mines ≥ rows·cols` — is accepted by `observation_spec.validate`: fields `board`,
`action_mask`, `num_mines`, `step_count`; shapes `(R, C)`, `(R, C)`, `()`, `()`; dtypes int32, bool, int32, int32; bounds
[−1, 8], [0, 1], [0, R·C − 1], [0, R·C − num_mines] -/
theorem minesweeper_reset_obs_valid (cfg : Cfg) (d : List Nat) (hd : validDraw cfg d) (hM : cfg.numMines < cells cfg) :
    (obsSpec cfg).valid (toNValue (resetTimeStep cfg (generate cfg d)).obs) = true :=
  Minesweeper.generate_obs_valid cfg d hd hM

/-- the same for every `step` observation from a `Consistent`, not yet solved state (both established at reset and preserved
while the episode runs: `minesweeper_consistent_along`), for every square of the action space — unexplored or explored, mined
or not — up to and including the terminal step -/
theorem minesweeper_step_obs_valid (cfg : Cfg) (s : State) (hcs : Consistent cfg s) (r c : Nat)
    (hr : r < cfg.numRows) (hc : c < cfg.numCols) (hns : isSolved s = false) (hM : cfg.numMines < cells cfg) :
    (obsSpec cfg).valid (toNValue (step cfg s r c).2.obs) = true :=
  Minesweeper.step_obs_valid cfg s hcs r c hr hc hns hM

/-- … hence for EVERY observation of EVERY episode from the generator: after any prefix of in-spec actions that has not met
LAST, whatever square is chosen next (the terminal step included) -/
theorem minesweeper_episode_obs_valid (cfg : Cfg) (d : List Nat) (hd : validDraw cfg d) (hM : cfg.numMines < cells cfg)
    (as : List (Nat × Nat)) (hin : ∀ a ∈ as, a.1 < cfg.numRows ∧ a.2 < cfg.numCols)
    (hrun : (play cfg (generate cfg d) as).ending = .running) (r c : Nat) (hr : r < cfg.numRows) (hc : c < cfg.numCols) :
    (obsSpec cfg).valid (toNValue (step cfg (play cfg (generate cfg d) as).final r c).2.obs) = true :=
  Minesweeper.episode_obs_valid cfg d hd hM as hin hrun r c hr hc

/-- what membership means: `validate` accepts ONLY observations of shape `(R, C)` with cells in [−1, 8], `num_mines` in
[0, R·C − 1] and `step_count` in [0, R·C − num_mines]  CAVEAT (audits r4 #7, r5 #5, r6 #5): for every field that is a nested list, `toNValue` reads the widths off the FIRST row of the
nested list, so the shape conjuncts here mean "row count, length of the first row, total number of cells" — a ragged value with the right total can be a
member, and nothing is concluded about the later rows.  Rectangularity is part of the invariant (`SpecInv` / `Shaped` / `Rect…`) under which the
forward theorems (`…_reset_obs_valid`, `…_step_obs_valid`, `…_along`) are proved, i.e. it holds of every EMITTED observation. -/
theorem minesweeper_obs_valid_only (cfg : Cfg) (o : Obs) (h : (obsSpec cfg).valid (toNValue o) = true) :
    gridShape o.board = [cfg.numRows, cfg.numCols] ∧ gridShape o.mask = [cfg.numRows, cfg.numCols] ∧
    (∀ v ∈ List.flatten o.board, -1 ≤ v ∧ v ≤ 8) ∧
    (0 ≤ o.numMines ∧ o.numMines ≤ ((cells cfg : Nat) : Int) - 1) ∧
    (0 ≤ o.stepCount ∧ o.stepCount ≤ ((cells cfg : Nat) : Int) - (cfg.numMines : Int)) :=
  Minesweeper.obs_valid_only cfg o h

/-- the hypothesis `num_mines < rows·cols` is needed: with every square mined the observation's `num_mines` exceeds the
declared maximum `rows·cols − 1` (the real constructor raises for such a configuration); and the terminal step on the solved
board of the example above is rejected -/
example : validDraw ⟨1, 2, 2, 1, 0, 0⟩ [0, 1] ∧
    (obsSpec ⟨1, 2, 2, 1, 0, 0⟩).valid (toNValue (resetTimeStep ⟨1, 2, 2, 1, 0, 0⟩ (generate ⟨1, 2, 2, 1, 0, 0⟩ [0, 1])).obs) = false ∧
    (obsSpec ⟨1, 2, 1, 1, 0, 0⟩).valid (toNValue (step ⟨1, 2, 1, 1, 0, 0⟩ ⟨[[1, -1]], 1, [1]⟩ 0 1).2.obs) = false ∧
    (obsSpec ⟨1, 2, 1, 1, 0, 0⟩).valid (toNValue (step ⟨1, 2, 1, 1, 0, 0⟩ ⟨[[-1, -1]], 0, [1]⟩ 0 0).2.obs) = true := by
  decide +kernel

/-- reward and discount of every `step` (ALL states, ALL action values) and of `reset` are accepted by `reward_spec`
(Array((), float)) and `discount_spec` (BoundedArray((), float, 0, 1)) -/
theorem minesweeper_reward_discount_valid (cfg : Cfg) (s s0 : State) (r c : Int) :
    PzS.rewardSpec.valid (scalarArr (step cfg s r c).2.reward) = true ∧
    discountSpec.valid (scalarArr (step cfg s r c).2.discount) = true ∧
    PzS.rewardSpec.valid (scalarArr (resetTimeStep cfg s0).reward) = true ∧
    discountSpec.valid (scalarArr (resetTimeStep cfg s0).discount) = true :=
  ⟨(Minesweeper.step_reward_discount_valid cfg s r c).1, (Minesweeper.step_reward_discount_valid cfg s r c).2,
   (restart_reward_discount_valid _).1, (restart_reward_discount_valid _).2⟩

/-- `action_spec.generate_value()` = (0, 0): for every constructible board the action spec is well-formed, the generated
value is a member of it, and `step` answers it in every state with a protocol-conform timestep (its observation is a member
of `observation_spec` by the theorems above, (0, 0) being a square of the board) -/
theorem minesweeper_accepts_generate_value (cfg : Cfg) (hR : 0 < cfg.numRows) (hC : 0 < cfg.numCols)
    (hbig : cfg.numRows ≤ 2147483648 ∧ cfg.numCols ≤ 2147483648) (s : State) :
    (actionSpec cfg).WF = true ∧ (actionSpec cfg).valid (actionSpec cfg).generate = true ∧
    (actionSpec cfg).generate = actionArr 0 0 ∧ StepOK none false (step cfg s 0 0).2 = true :=
  Minesweeper.accepts_generate_value cfg hR hC hbig s

/-- … with the observation membership stated, not only referred to (audit r4 #8): from every `Consistent`, not yet solved state the
answer to `generate_value()` = (0, 0) is protocol-conform AND its observation is a member of `observation_spec` -/
theorem minesweeper_accepts_generate_value' (cfg : Cfg) (hR : 0 < cfg.numRows) (hC : 0 < cfg.numCols)
    (hbig : cfg.numRows ≤ 2147483648 ∧ cfg.numCols ≤ 2147483648) (hM : cfg.numMines < cells cfg)
    (s : State) (hcs : Consistent cfg s) (hns : isSolved s = false) :
    (actionSpec cfg).valid (actionSpec cfg).generate = true ∧ (actionSpec cfg).generate = actionArr 0 0 ∧
    StepOK none false (step cfg s 0 0).2 = true ∧ (obsSpec cfg).valid (toNValue (step cfg s 0 0).2.obs) = true := by
  obtain ⟨_, h2, h3, h4⟩ := minesweeper_accepts_generate_value cfg hR hC hbig s
  exact ⟨h2, h3, h4, minesweeper_step_obs_valid cfg s hcs 0 0 hR hC hns hM⟩
end Props.C01
