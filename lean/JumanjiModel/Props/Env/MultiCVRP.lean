/-
Property theorems for MultiCVRP.  Only statements (the proofs are in Env/MultiCVRP/Lemmas.lean and
Env/MultiCVRP/History.lean).
`rnd` is the float32 rounding applied after every float operation (any function; the executable
correspondence uses `Jx.roundF32`), `D` the distance matrix of the instance, `d0` the demands of the
instance as generated, `a` the joint action (one node index per vehicle).  Hypotheses `hl`/`hr` say
that the action has one entry per vehicle and every entry is a node index `≤ num_customers` (the
documented action range, docs/environments/multi_cvrp.md).  The DECLARED `action_spec` has maximum
`num_customers + 1`; for that in-spec value the conclusions are false (model and real code agree):
theorems that need `hr` are therefore named `…_partial`, and `multicvrp_spec_max_witness` (C05 section)
is the negation witness for the value `num_customers + 1`.
-/
import JumanjiModel.Env.MultiCVRP.Lemmas
import JumanjiModel.Env.MultiCVRP.History
import JumanjiModel.Env.MultiCVRP.Bounds
import JumanjiModel.Env.MultiCVRP.BoundsF32Lemmas
import JumanjiModel.Env.MultiCVRP.ReturnLemmas
import JumanjiModel.Env.MultiCVRP.Episode
import JumanjiModel.Env.MultiCVRP.Generator
import JumanjiModel.Env.MultiCVRP.Spec
open Jm MultiCVRP

/-- a non-trivial state (3 customers, 2 vehicles of capacity 5, after one step): vehicle 0 has served
customer 2 (demand 4), vehicle 1 waits at the depot; customer 1 (demand 2) fits only vehicle 1 -/
def MultiCVRP.exampleState : State :=
  { coords := [[0, 0], [1, 0], [0, 1], [1, 1]], demands := [0, 2, 0, 3],
    winStart := [0, 0, 0, 0], winEnd := [9, 9, 9, 9], coefEarly := [0, 1, 1, 1], coefLate := [0, 1, 1, 1],
    localTimes := [1, 0], positions := [2, 0], capacities := [1, 5], distances := [1, 0],
    timePenalties := [0, 0], order := [[0, 2, 0, 0, 0, 0], [0, 0, 0, 0, 0, 0]], stepCount := 2,
    mask := [[true, false, false, false], [true, true, false, true]] }

def MultiCVRP.exampleCfg : Cfg := { numCustomers := 3, maxCap := 5, dense := true }
/-- a distance matrix for `exampleState` (unit square, diagonal rounded to 7/5) -/
def MultiCVRP.exampleDist : Dist := [[0, 1, 1, 7/5], [1, 0, 7/5, 1], [1, 7/5, 0, 1], [7/5, 1, 1, 0]]

namespace Props.C01
/-- limits for the examples: unit box, demands ≤ 4, windows `[0, 9]`, coefficients ≤ 1, one travel
distance ≤ 3/2 (≥ √2) -/
def exampleLim : Lim :=
  { mapMax := 1, demandMax := 4, maxStart := 0, windowLen := 9, coefEarlyMax := 1, coefLateMax := 1, dmax := 3 / 2 }

/-- `reset` (any number of vehicles, any draw of the generator's ranges `validDrawB`): every numeric leaf of the
observation lies in the interval `obsBounds c L` lists for it — nodes.coordinates, vehicles.coordinates ∈ [0, mapMax];
nodes.demands ∈ [0, demandMax]; windows.start ∈ [0, maxStart]; windows.end ∈ [windowLen, maxStart + windowLen];
coeffs.early ∈ [0, coefEarlyMax]; coeffs.late ∈ [0, coefLateMax]; vehicles.local_times ∈ [0, 2·numCustomers·dmax];
vehicles.capacities ∈ [0, maxCap]; action_mask ∈ {0, 1} -/
theorem multicvrp_reset_obs_in_bounds (c : Cfg) (L : Lim) (nV : Nat) (d : Draw) (h : validDrawB c L d) :
    Jm.OB.InBounds (obsBounds c L) (obsLeaves (reset c nV L.demandMax L.windowLen d).2.obs) :=
  MultiCVRP.reset_obs_in_bounds c L nV d h

/-- every step in exact arithmetic (`rnd = id`), either reward function, ANY joint action (any list of naturals of
any length: in range or not, legal or not), terminal step included, taken from a state that satisfies the bounds
invariant `BInv` and has not timed out (`stepCount ≤ 2·numCustomers`: every state `step` is applied to in an
episode), with a distance matrix whose entries lie in `[0, dmax]` -/
theorem multicvrp_step_obs_in_bounds (c : Cfg) (L : Lim) (D : Dist) (s : State) (a : List Nat)
    (hD : DistOK L D) (h : BInv c L s) (hk : s.stepCount ≤ 2 * c.numCustomers) :
    Jm.OB.InBounds (obsBounds c L) (obsLeaves (step id c D s a).2.obs) :=
  MultiCVRP.step_obs_in_bounds c L D s a hD h hk

/-- all leaves but `vehicles.local_times`: EVERY rounding function (float32 included), every distance matrix, every
step count, any joint action, from a state satisfying `SInv` (the first half of `BInv`) -/
theorem multicvrp_step_obs_in_bounds_anyrnd (rnd : Rat → Rat) (c : Cfg) (L : Lim) (D : Dist) (s : State)
    (a : List Nat) (h : SInv c L s) :
    Jm.OB.InBounds (obsBoundsS c L) (obsLeaves (step rnd c D s a).2.obs) :=
  MultiCVRP.step_obs_in_boundsS rnd c L D s a h

/-- the invariant `BInv = SInv ∧ TInv` is established by `reset` and preserved by every step (so the bounds hold
along every episode, by induction); `SInv` alone is preserved for every rounding function -/
theorem multicvrp_reset_bInv (c : Cfg) (L : Lim) (nV : Nat) (d : Draw) (h : validDrawB c L d) :
    BInv c L (reset c nV L.demandMax L.windowLen d).1 := MultiCVRP.reset_bInv c L nV d h
theorem multicvrp_step_bInv (c : Cfg) (L : Lim) (D : Dist) (s : State) (a : List Nat) (hD : DistOK L D)
    (h : BInv c L s) : BInv c L (step id c D s a).1 := MultiCVRP.step_bInv c L D s a hD h
theorem multicvrp_step_sInv (rnd : Rat → Rat) (c : Cfg) (L : Lim) (D : Dist) (s : State) (a : List Nat)
    (h : SInv c L s) : SInv c L (step rnd c D s a).1 := MultiCVRP.step_sInv rnd c L D s a h

example : BInv MultiCVRP.exampleCfg exampleLim MultiCVRP.exampleState := by decide +kernel
example : MultiCVRP.exampleState.stepCount ≤ 2 * MultiCVRP.exampleCfg.numCustomers := by decide
example : DistOK exampleLim [[0, 1, 1, 7/5], [1, 0, 7/5, 1], [1, 7/5, 0, 1], [7/5, 1, 1, 0]] := by decide +kernel
example : validDrawB MultiCVRP.exampleCfg exampleLim
    { coords := [[0, 1/2], [1, 1], [1/3, 1/3], [1/5, 4/5]], scaled := [0, 7, 0, 3], winStart := [0, 0, 0, 0],
      coefEarly := [1/5, 1/10, 0, 1], coefLate := [1, 1/2, 1/3, 0] } := by decide +kernel

/-! #### `vehicles.local_times` under ROUNDED accumulation (float32 model), Env/MultiCVRP/BoundsF32Lemmas.lean -/

/-- every step with a rounding function that is monotone, fixes 0 and fixes the multiples `k · dmax`,
`k ≤ 2·numCustomers` (`RndOK`): ALL ten leaves, `vehicles.local_times ∈ [0, 2·numCustomers·dmax]` included;
other hypotheses as in `multicvrp_step_obs_in_bounds` (which is the case `rnd = id`) -/
theorem multicvrp_step_obs_in_bounds_rnd (rnd : Rat → Rat) (c : Cfg) (L : Lim) (D : Dist) (s : State)
    (a : List Nat) (hr : RndOK rnd L.dmax (2 * c.numCustomers)) (hD : DistOK L D) (h : BInv c L s)
    (hk : s.stepCount ≤ 2 * c.numCustomers) :
    Jm.OB.InBounds (obsBounds c L) (obsLeaves (step rnd c D s a).2.obs) :=
  MultiCVRP.step_obs_in_bounds_rnd rnd c L D s a hr hD h hk

/-- … and the invariant is preserved by such a step (so the bounds hold along every episode) -/
theorem multicvrp_step_bInv_rnd (rnd : Rat → Rat) (c : Cfg) (L : Lim) (D : Dist) (s : State) (a : List Nat)
    (K : Nat) (hr : RndOK rnd L.dmax K) (hk : s.stepCount ≤ K) (hD : DistOK L D) (h : BInv c L s) :
    BInv c L (step rnd c D s a).1 := MultiCVRP.step_bInv_rnd rnd c L D s a K hr hk hD h

/-- `Jx.roundF32` satisfies `RndOK` for every `dmax = j · 2^sh` whose multiples up to `K` are binary32 values
(`K · j < 2^24`, `sh ≥ −149`): monotonicity of `roundF32` + binary32 values are fixed points -/
theorem multicvrp_roundF32_rndOK (j : Nat) (sh : Int) (K : Nat) (hs : -149 ≤ sh) (hj : K * j < 16777216) :
    RndOK Jx.roundF32 ((j : Rat) * Jx.pow2 sh) K := MultiCVRP.roundF32_rndOK j sh K hs hj

/-- the float32 model (every accumulation `local_times + travel` rounded by `Jx.roundF32`): every step, any
joint action, from a state satisfying `BInv` that has not timed out, distances in `[0, dmax]`, where the bound
`dmax` on one travel distance is chosen with a short significand: `dmax = j · 2^sh`, `2·numCustomers·j < 2^24` -/
theorem multicvrp_step_obs_in_bounds_roundF32 (c : Cfg) (L : Lim) (D : Dist) (s : State) (a : List Nat)
    (j : Nat) (sh : Int) (hdm : L.dmax = (j : Rat) * Jx.pow2 sh) (hs : -149 ≤ sh)
    (hj : 2 * c.numCustomers * j < 16777216) (hD : DistOK L D) (h : BInv c L s)
    (hk : s.stepCount ≤ 2 * c.numCustomers) :
    Jm.OB.InBounds (obsBounds c L) (obsLeaves (step Jx.roundF32 c D s a).2.obs) :=
  MultiCVRP.step_obs_in_bounds_rnd Jx.roundF32 c L D s a (hdm ▸ MultiCVRP.roundF32_rndOK j sh _ hs hj) hD h hk

theorem multicvrp_step_bInv_roundF32 (c : Cfg) (L : Lim) (D : Dist) (s : State) (a : List Nat)
    (j : Nat) (sh : Int) (hdm : L.dmax = (j : Rat) * Jx.pow2 sh) (hs : -149 ≤ sh)
    (hj : 2 * c.numCustomers * j < 16777216) (hD : DistOK L D) (h : BInv c L s)
    (hk : s.stepCount ≤ 2 * c.numCustomers) : BInv c L (step Jx.roundF32 c D s a).1 :=
  MultiCVRP.step_bInv_rnd Jx.roundF32 c L D s a _ (hdm ▸ MultiCVRP.roundF32_rndOK j sh _ hs hj) hk hD h

/-- the hypotheses are satisfiable: `exampleLim.dmax = 3/2 = 3 · 2^-1` and `2 · 3 · 3 < 2^24` (with the
state, matrix and limits of the examples above) -/
example : exampleLim.dmax = ((3 : Nat) : Rat) * Jx.pow2 (-1) ∧ (-149 : Int) ≤ -1 ∧
    2 * MultiCVRP.exampleCfg.numCustomers * 3 < 16777216 := by decide +kernel

/-- the representability hypothesis cannot be dropped.  A 3-customer instance (`f32WitnessState`, one vehicle,
all depot–customer distances equal to `dmax = 1 + 3·2^-23`, a binary32 value) satisfies every hypothesis of the
exact-arithmetic theorem `multicvrp_step_obs_in_bounds`, yet in the float32 model the sixth leg of the route
1, depot, 2, depot, 3, depot gives `local_times = 6 + 5·2^-21 > 6·dmax`: the observation leaves `obsBounds` -/
theorem multicvrp_local_times_roundF32_counterexample :
    BInv f32WitnessCfg f32WitnessLim f32WitnessState ∧ DistOK f32WitnessLim f32WitnessDist ∧
    f32WitnessS5 = f32Run f32WitnessState [[1], [0], [2], [0], [3]] ∧
    f32WitnessS5.stepCount ≤ 2 * f32WitnessCfg.numCustomers ∧
    ¬ Jm.OB.InBounds (obsBounds f32WitnessCfg f32WitnessLim)
        (obsLeaves (step Jx.roundF32 f32WitnessCfg f32WitnessDist f32WitnessS5 [0]).2.obs) :=
  ⟨MultiCVRP.f32Witness_hyps.1, MultiCVRP.f32Witness_hyps.2.1, rfl, MultiCVRP.f32Witness_hyps.2.2.2,
   MultiCVRP.f32Witness_out_of_bounds⟩

/-- and `BInv` is not an invariant of the float32 step under `DistOK` alone -/
theorem multicvrp_step_bInv_roundF32_false :
    ¬ ∀ (c : Cfg) (L : Lim) (D : Dist) (s : State) (a : List Nat), DistOK L D → BInv c L s →
        BInv c L (step Jx.roundF32 c D s a).1 := MultiCVRP.step_bInv_roundF32_false
/-! NOTE on what the membership theorems of this section do and do not cover (audits r4 #6, r5 #6, r6 #8): the dtype tag of every leaf
is written by `toNValue` (by construction) — a wrong dtype in the real code cannot falsify `….valid (toNValue …) = true`; dtypes and
field order of the real observations are compared by the `multi_cvrp.spec` / `multi_cvrp.state` ops (`nvalue`: field order, shape, dtype, data) and
`jax.eval_shape` in the sweeps.  Shapes are READ OFF the value by `toNValue` (widths off the first row): see `…_obs_valid_only`. -/

/-! #### (wave 4) membership in the DECLARED specs: structure, shapes, dtypes and bounds -/
open Sp PzS PkS

/-- the generator's ranges of the catalogue configuration `multicvrp-6x2` (`UniformRandomGenerator(num_customers=6,
num_vehicles=2)`: the paper's scenario) and `dmax = 7241/512 ≥ 10·√2`, a bound on one travel distance with a short significand -/
def lim6x2 : Lim :=
  { mapMax := 10, demandMax := 10, maxStart := 10, windowLen := 20, coefEarlyMax := 1 / 5, coefLateMax := 1, dmax := 7241 / 512 }

/-- the generator's ranges of the spec-only configurations `UniformRandomGenerator(num_customers=20, num_vehicles=3)` and
`UniformRandomGenerator(num_customers=100, num_vehicles=3)` (the paper's scenarios, `get_init_settings`) -/
def lim20x3 : Lim :=
  { mapMax := 10, demandMax := 15, maxStart := 10, windowLen := 20, coefEarlyMax := 1 / 5, coefLateMax := 1, dmax := 7241 / 512 }
def lim100x3 : Lim :=
  { mapMax := 20, demandMax := 15, maxStart := 40, windowLen := 20, coefEarlyMax := 1 / 5, coefLateMax := 1, dmax := 7241 / 256 }

/-- the model's `obsSpec` / `actionSpec` / reward and discount specs ARE the specs generated from the real spec objects
(Gen/Specs.lean) for the catalogue configuration `multicvrp-6x2`: paths `nodes.{coordinates,demands}`, `windows.{start,end}`,
`coeffs.{early,late}`, `vehicles.{coordinates,local_times,capacities}`, `action_mask` in this order; shapes `(N+1, 2)`,
`(N+1,)` ×5, `(V, 2)`, `(V,)` ×2, `(V, N+1)`; dtypes float32 / int16 / bool; maxima `map_max`, `max_capacity`,
`max_end_window` (both window leaves), `late_coef_rand[-1]` (both coefficient leaves), `max_local_time` =
float32(2·map_max·√2·N) = 2780457/16384, `max_capacity`; the action spec with maximum `num_customers + 1`.  (All leaves are in
the generated table; every adapter configuration is compared at run time by the `multi_cvrp.spec` op.)
SPEC-ONLY configurations: `multicvrp-20x3` (20 customers, 3 vehicles, `max_capacity` 60, `max_local_time` = 4634095/8192) and
`multicvrp-100x3` (100 customers, 3 vehicles: `map_max` 20, `max_capacity` 300, `max_start_window` 40, so that the window maximum 60,
the map maximum 20 and the capacity differ — in the 6- and 20-customer scenarios `map_max = max_start_window = 10`;
`max_local_time` = float32(2·20·√2·100) = 5792619/1024) -/
theorem multicvrp_obsSpec_generated :
    prefixed "observation_spec." (obsSpec ⟨6, 20, true⟩ 2 lim6x2 (2780457 / 16384)) = declared "multicvrp-6x2" "observation_spec." ∧
    [("action_spec", actionSpec ⟨6, 20, true⟩ 2)] = declared "multicvrp-6x2" "action_spec" ∧
    [("reward_spec", rewardSpec)] = declared "multicvrp-6x2" "reward_spec" ∧
    [("discount_spec", discountSpec)] = declared "multicvrp-6x2" "discount_spec" ∧
    prefixed "observation_spec." (obsSpec ⟨20, 60, true⟩ 3 lim20x3 (4634095 / 8192)) = declared "spec-only-multicvrp-20x3" "observation_spec." ∧
    [("action_spec", actionSpec ⟨20, 60, true⟩ 3)] = declared "spec-only-multicvrp-20x3" "action_spec" ∧
    [("reward_spec", rewardSpec)] = declared "spec-only-multicvrp-20x3" "reward_spec" ∧
    [("discount_spec", discountSpec)] = declared "spec-only-multicvrp-20x3" "discount_spec" ∧
    prefixed "observation_spec." (obsSpec ⟨100, 300, true⟩ 3 lim100x3 (5792619 / 1024)) = declared "spec-only-multicvrp-100x3" "observation_spec." ∧
    [("action_spec", actionSpec ⟨100, 300, true⟩ 3)] = declared "spec-only-multicvrp-100x3" "action_spec" ∧
    [("reward_spec", rewardSpec)] = declared "spec-only-multicvrp-100x3" "reward_spec" ∧
    [("discount_spec", discountSpec)] = declared "spec-only-multicvrp-100x3" "discount_spec" := by
  refine ⟨by decide +kernel, by decide +kernel, by decide +kernel, by decide +kernel, by decide +kernel, by decide +kernel,
    by decide +kernel, by decide +kernel, by decide +kernel, by decide +kernel, by decide +kernel, by decide +kernel⟩

/-- the invariant behind the membership theorems — `BInv c L` (problem data in the generator's ranges, capacities in
`[0, max_capacity]`, local times at most `(step_count − 1)·dmax`) and the array shapes `ShapeInv` — is established by `reset`
for EVERY draw of the generator's ranges (`validDrawS`: `validDrawB` + the lengths of the window / coefficient arrays), for
every raw draw of the PRNG in exact arithmetic, and preserved by EVERY step with one action per vehicle (any naturals: in
range or not, legal or not, MID or LAST) under a rounding that is monotone and fixes 0 and the multiples of `dmax` (`RndOK`:
`id`; `Jx.roundF32` for a `dmax` with a short significand, `multicvrp_roundF32_rndOK`) and a distance matrix within `[0, dmax]` -/
theorem multicvrp_specInv_invariant (c : Cfg) (nV : Nat) (L : Lim) :
    (∀ d, validDrawS c L d → SpecInv c nV L (reset c nV L.demandMax L.windowLen d).1) ∧
    (∀ (rnd : Rat → Rat) (D : Dist) (s : State) (a : List Nat) (K : Nat), RndOK rnd L.dmax K → s.stepCount ≤ K →
      DistOK L D → SpecInv c nV L s → a.length = nV → SpecInv c nV L (step rnd c D s a).1) :=
  ⟨fun d h => MultiCVRP.reset_specInv c nV L d h,
   fun rnd D s a K hr hk hD h ha => MultiCVRP.step_specInv rnd c nV L D s a K hr hk hD h ha⟩

/-- the `reset` observation (any number ≥ 1 of vehicles, any draw of the generator's ranges) is accepted by
`observation_spec.validate`, provided the constructor's derived maxima are consistent (`DeclOK`: `customer_demand_max ≤
max_capacity`, `0 ≤ time_window_length`, `early_coef_rand[1] ≤ late_coef_rand[1]` — the spec declares the LATE maximum for both
coefficient leaves —, `2·N·dmax ≤ max_local_time`) -/
theorem multicvrp_reset_obs_valid (c : Cfg) (nV : Nat) (hV : 0 < nV) (L : Lim) (maxLocal : Rat)
    (hdecl : DeclOK c L maxLocal) (d : Draw) (h : validDrawS c L d) :
    (obsSpec c nV L maxLocal).valid (toNValue (reset c nV L.demandMax L.windowLen d).2.obs) = true :=
  MultiCVRP.reset_obs_valid c nV hV L maxLocal hdecl d h

/-- … in particular for every RAW draw of the PRNG (unit uniforms and `randint` values, `validRaw`) in exact arithmetic:
the generator's own arithmetic (`uniform(minval, maxval)`, the int16 demand scaling) keeps the arrays in their ranges -/
theorem multicvrp_reset_obs_valid_raw (c : Cfg) (nV : Nat) (hV : 0 < nV) (g : GenCfg) (dmax maxLocal : Rat)
    (hg : GenOK c nV g) (hdm : 0 ≤ dmax) (hdecl : DeclOK c (genLim g dmax) maxLocal) (r : RawDraw) (hr : validRaw c g r) :
    (obsSpec c nV (genLim g dmax) maxLocal).valid
      (toNValue (reset c nV g.demandMax g.windowLen (drawOfRaw id c nV g r)).2.obs) = true :=
  MultiCVRP.reset_obs_valid c nV hV (genLim g dmax) maxLocal hdecl _
    ⟨MultiCVRP.drawOfRaw_validDrawB c nV g r dmax hg hdm hr, by simp [drawOfRaw, hr.2.2.1],
     by simp [drawOfRaw, hr.2.2.2.1], by simp [drawOfRaw, hr.2.2.2.2.1]⟩

/-- the observation of EVERY `step` with one action per vehicle — any naturals (node indices or not, legal or not), MID or
LAST, either reward function — from every state with the invariant that has not timed out (`step_count ≤ 2·N`) -/
theorem multicvrp_step_obs_valid (rnd : Rat → Rat) (c : Cfg) (nV : Nat) (hV : 0 < nV) (L : Lim) (maxLocal : Rat)
    (hdecl : DeclOK c L maxLocal) (D : Dist) (s : State) (a : List Nat)
    (hr : RndOK rnd L.dmax (2 * c.numCustomers)) (hD : DistOK L D) (h : SpecInv c nV L s)
    (hk : s.stepCount ≤ 2 * c.numCustomers) (ha : a.length = nV) :
    (obsSpec c nV L maxLocal).valid (toNValue (step rnd c D s a).2.obs) = true :=
  MultiCVRP.step_obs_valid rnd c nV hV L maxLocal hdecl D s a hr hD h hk ha

/-- EVERY rounding function (float32 included), every distance matrix, every step count: all leaves but
`vehicles.local_times` are members unconditionally (from `SInv` — preserved by every step for every rounding,
`multicvrp_step_sInv` — and the shapes); the observation is a member as soon as the new local times lie in
`[0, max_local_time]` (which `multicvrp_step_obs_valid` derives from `RndOK`; without it the float32 accumulation can leave
the proved interval: `multicvrp_local_times_roundF32_counterexample` above) -/
theorem multicvrp_step_obs_valid_anyrnd (rnd : Rat → Rat) (c : Cfg) (nV : Nat) (hV : 0 < nV) (L : Lim) (maxLocal : Rat)
    (hdecl : L.demandMax ≤ c.maxCap ∧ 0 ≤ L.windowLen ∧ L.coefEarlyMax ≤ L.coefLateMax) (D : Dist) (s : State)
    (a : List Nat) (hS : SInv c L s) (hsh : ShapeInv c nV s) (ha : a.length = nV)
    (hl : ∀ l ∈ (step rnd c D s a).1.localTimes, 0 ≤ l ∧ l ≤ maxLocal) :
    (obsSpec c nV L maxLocal).valid (toNValue (step rnd c D s a).2.obs) = true :=
  MultiCVRP.step_obs_valid_anyrnd rnd c nV hV L maxLocal hdecl D s a hS hsh ha hl

/-- the float32 model (`rnd = Jx.roundF32`), `dmax = j · 2^sh` with a short significand (`2·N·j < 2^24`) -/
theorem multicvrp_step_obs_valid_roundF32 (c : Cfg) (nV : Nat) (hV : 0 < nV) (L : Lim) (maxLocal : Rat)
    (hdecl : DeclOK c L maxLocal) (D : Dist) (s : State) (a : List Nat) (j : Nat) (sh : Int)
    (hdm : L.dmax = (j : Rat) * Jx.pow2 sh) (hs : -149 ≤ sh) (hj : 2 * c.numCustomers * j < 16777216) (hD : DistOK L D)
    (h : SpecInv c nV L s) (hk : s.stepCount ≤ 2 * c.numCustomers) (ha : a.length = nV) :
    (obsSpec c nV L maxLocal).valid (toNValue (step Jx.roundF32 c D s a).2.obs) = true :=
  MultiCVRP.step_obs_valid Jx.roundF32 c nV hV L maxLocal hdecl D s a (hdm ▸ MultiCVRP.roundF32_rndOK j sh _ hs hj) hD h hk ha

/-- WHOLE EPISODES: along the rollout (`Ep.rollout` = the L1 step iterated) of ANY joint actions (one per vehicle) from
`reset`, every observation emitted by one of the first `2·N` steps is a member of the spec; the first LAST timestep is among
them (`step_count` starts at 1; step number `2·N` makes it `2·N + 1 > 2·N`, which is LAST: `multicvrp_last_at_limit`) -/
theorem multicvrp_rollout_obs_valid (rnd : Rat → Rat) (c : Cfg) (nV : Nat) (hV : 0 < nV) (L : Lim) (maxLocal : Rat)
    (hdecl : DeclOK c L maxLocal) (D : Dist) (hr : RndOK rnd L.dmax (2 * c.numCustomers)) (hD : DistOK L D)
    (d : Draw) (hd : validDrawS c L d) (as : List (List Nat)) (has : ∀ a ∈ as, a.length = nV) (j : Nat)
    (hj : j < 2 * c.numCustomers) (e : State × TimeStep Obs)
    (he : (Ep.rollout (fun s a => step rnd c D s a) (reset c nV L.demandMax L.windowLen d).1 as)[j]? = some e) :
    (obsSpec c nV L maxLocal).valid (toNValue e.2.obs) = true :=
  MultiCVRP.rollout_obs_valid rnd c nV hV L maxLocal hdecl D hr hD d hd as has j hj e he

/-- what membership means (so the theorems above are not hollow): `validate` accepts an observation ONLY IF the arrays have
the declared shapes and every value lies in its declared range  CAVEAT (audits r4 #7, r5 #5, r6 #5): for every field that is a nested list, `toNValue` reads the widths off the FIRST row of the
nested list, so the shape conjuncts here mean "row count, length of the first row, total number of cells" — a ragged value with the right total can be a
member, and nothing is concluded about the later rows.  Rectangularity is part of the invariant (`SpecInv` / `Shaped` / `Rect…`) under which the
forward theorems (`…_reset_obs_valid`, `…_step_obs_valid`, `…_along`) are proved, i.e. it holds of every EMITTED observation. -/
theorem multicvrp_obs_valid_only (c : Cfg) (nV : Nat) (L : Lim) (maxLocal : Rat) (o : Obs)
    (h : (obsSpec c nV L maxLocal).valid (toNValue o) = true) :
    shape2 o.coords = [c.numCustomers + 1, 2] ∧ (∀ x ∈ o.coords.flatten, 0 ≤ x ∧ x ≤ L.mapMax) ∧
    IVecIn o.demands (c.numCustomers + 1) c.maxCap ∧
    VecIn o.winStart (c.numCustomers + 1) (L.maxStart + L.windowLen) ∧
    VecIn o.winEnd (c.numCustomers + 1) (L.maxStart + L.windowLen) ∧
    VecIn o.coefEarly (c.numCustomers + 1) L.coefLateMax ∧ VecIn o.coefLate (c.numCustomers + 1) L.coefLateMax ∧
    shape2 o.vehCoords = [nV, 2] ∧ (∀ x ∈ o.vehCoords.flatten, 0 ≤ x ∧ x ≤ L.mapMax) ∧
    VecIn o.localTimes nV maxLocal ∧ IVecIn o.capacities nV c.maxCap ∧ shape2 o.mask = [nV, c.numCustomers + 1] :=
  MultiCVRP.obs_valid_only c nV L maxLocal o h

/-- the running example (3 customers, 2 vehicles, after one step) satisfies the invariant and `DeclOK` with
`max_local_time = 9 = 2·3·(3/2)`; its observation and the one after a further step are members; membership FAILS for a local
time beyond the maximum, a demand above the capacity, and under another number of vehicles -/
example : SpecInv MultiCVRP.exampleCfg 2 exampleLim MultiCVRP.exampleState ∧ DeclOK MultiCVRP.exampleCfg exampleLim 9 ∧
    DistOK exampleLim MultiCVRP.exampleDist ∧
    (obsSpec MultiCVRP.exampleCfg 2 exampleLim 9).valid (toNValue (stateToObs MultiCVRP.exampleState)) = true ∧
    (obsSpec MultiCVRP.exampleCfg 2 exampleLim 9).valid
      (toNValue (step id MultiCVRP.exampleCfg MultiCVRP.exampleDist MultiCVRP.exampleState [0, 3]).2.obs) = true ∧
    (obsSpec MultiCVRP.exampleCfg 2 exampleLim 9).valid
      (toNValue { stateToObs MultiCVRP.exampleState with localTimes := [19 / 2, 0] }) = false ∧
    (obsSpec MultiCVRP.exampleCfg 2 exampleLim 9).valid
      (toNValue { stateToObs MultiCVRP.exampleState with demands := [0, 6, 0, 3] }) = false ∧
    (obsSpec MultiCVRP.exampleCfg 3 exampleLim 9).valid (toNValue (stateToObs MultiCVRP.exampleState)) = false := by
  decide +kernel

/-- reward and discount of every `step` (ALL states, ALL joint actions, every rounding, both reward functions) and of `reset`
are accepted by `reward_spec` (Array((), float)) and `discount_spec` (BoundedArray((), float, 0, 1)) -/
theorem multicvrp_reward_discount_valid (rnd : Rat → Rat) (c : Cfg) (D : Dist) (s : State) (a : List Nat) (nV : Nat)
    (dm : Int) (wl : Rat) (d : Draw) :
    rewardSpec.valid (scalarArr (step rnd c D s a).2.reward) = true ∧
    discountSpec.valid (scalarArr (step rnd c D s a).2.discount) = true ∧
    rewardSpec.valid (scalarArr (reset c nV dm wl d).2.reward) = true ∧
    discountSpec.valid (scalarArr (reset c nV dm wl d).2.discount) = true :=
  ⟨(MultiCVRP.step_reward_discount_valid rnd c D s a).1, (MultiCVRP.step_reward_discount_valid rnd c D s a).2,
   (MultiCVRP.reset_reward_discount_valid c nV dm wl d).1, (MultiCVRP.reset_reward_discount_valid c nV dm wl d).2⟩

/-- `action_spec.generate_value()` = all zeros (every vehicle to the depot): the action spec is well-formed, the generated
value is a member, and `step` answers it with a protocol-conform timestep whose observation is a member of the observation
spec -/
theorem multicvrp_accepts_generate_value (rnd : Rat → Rat) (c : Cfg) (nV : Nat) (hV : 0 < nV)
    (hbig : c.numCustomers + 1 ≤ 32767) (L : Lim) (maxLocal : Rat) (hdecl : DeclOK c L maxLocal) (D : Dist) (s : State)
    (hr : RndOK rnd L.dmax (2 * c.numCustomers)) (hD : DistOK L D) (h : SpecInv c nV L s)
    (hk : s.stepCount ≤ 2 * c.numCustomers) :
    (actionSpec c nV).WF = true ∧ (actionSpec c nV).valid (actionSpec c nV).generate = true ∧
    (actionSpec c nV).generate = actionArr nV (List.replicate nV 0) ∧
    StepOK none false (step rnd c D s (List.replicate nV 0)).2 = true ∧
    (obsSpec c nV L maxLocal).valid (toNValue (step rnd c D s (List.replicate nV 0)).2.obs) = true :=
  MultiCVRP.accepts_generate_value rnd c nV hV hbig L maxLocal hdecl D s hr hD h hk

/-- membership in `action_spec` is "one value in `[0, num_customers + 1]` per vehicle" — the value `num_customers + 1` is a
member although it is not a node index (see `multicvrp_spec_max_witness`) -/
theorem multicvrp_action_spec_iff (c : Cfg) (nV : Nat) (a : List Nat) :
    (actionSpec c nV).valid (actionArr nV a) = true ↔ a.length = nV ∧ ∀ x ∈ a, x ≤ c.numCustomers + 1 :=
  MultiCVRP.actionSpec_valid_iff c nV a
end Props.C01

namespace Props.C04
/-- the mask bit of (vehicle `v`, node `a`) is set exactly when the rules allow `v` to go to `a` -/
theorem multicvrp_mask_iff_legal (s : State) (v a : Nat) :
    ((createActionMask s.demands s.capacities).getD v []).getD a false = true ↔ legal s v a :=
  MultiCVRP.mask_iff_legal s v a

/-- the mask cached in the state (and shown in the observation) after a step is the mask of the
successor state — not of the state before the step -/
theorem multicvrp_cached_mask (rnd : Rat → Rat) (c : Cfg) (D : Dist) (s : State) (a : List Nat) :
    (step rnd c D s a).1.mask =
      createActionMask (step rnd c D s a).1.demands (step rnd c D s a).1.capacities ∧
    (step rnd c D s a).2.obs.mask = (step rnd c D s a).1.mask :=
  ⟨MultiCVRP.update_mask rnd c D s a, by rw [MultiCVRP.step_obs]; rfl⟩

/-- the environment's own reaction agrees with the rules: the destinations computed by the two
zeroing stages of `_update_state` (capacity/demand test, then `jnp.unique` + scatter) are exactly
the destinations the rules prescribe — a vehicle reaches the customer it chose iff the choice is
legal and no vehicle with a smaller index legally chose the same customer; otherwise the depot.
PARTIAL: entries `≤ num_customers` only (`hr`); false for the in-spec value `num_customers + 1`, see
`multicvrp_spec_max_witness` -/
theorem multicvrp_step_agrees_partial (rnd : Rat → Rat) (c : Cfg) (D : Dist) (s : State) (a : List Nat)
    (hl : a.length = s.capacities.length) (hr : ∀ x ∈ a, x < s.demands.length) :
    (step rnd c D s a).1.positions = dests s a := by
  rw [MultiCVRP.step_state, MultiCVRP.update_positions]; exact MultiCVRP.nextNodes_eq_dests s a hl hr

/-- in particular a masked-in choice of a customer is honoured unless a smaller-index vehicle took it -/
theorem multicvrp_dest_of_honoured (s : State) (a : List Nat) (v : Nat) (hv : v < a.length) :
    (dests s a).getD v 0 = if honoured s a v then a.getD v 0 else DEPOT :=
  MultiCVRP.dests_getD s a v hv

example : legal MultiCVRP.exampleState 1 1 ∧ ¬ legal MultiCVRP.exampleState 0 1 ∧
    ¬ legal MultiCVRP.exampleState 1 2 ∧ legal MultiCVRP.exampleState 0 0 := by decide +kernel
example : dests MultiCVRP.exampleState [3, 3] = [0, 3] ∧ dests MultiCVRP.exampleState [1, 1] = [0, 1] ∧
    dests { MultiCVRP.exampleState with capacities := [5, 5] } [3, 3] = [3, 0] := by decide +kernel
end Props.C04

namespace Props.C05
/-- an illegal choice of one vehicle is treated exactly like the choice "depot": the whole step
(successor state and timestep) is the one obtained when that vehicle asks for the depot.
PARTIAL: the illegal choice is a node index `≤ num_customers` (`hr`); the in-spec value `num_customers + 1` is
illegal by the rules but is NOT treated like the depot (`multicvrp_spec_max_witness`) -/
theorem multicvrp_illegal_is_depot_partial (rnd : Rat → Rat) (c : Cfg) (D : Dist) (s : State) (a : List Nat)
    (hl : a.length = s.capacities.length) (v : Nat) (hv : v < a.length)
    (hr : a.getD v 0 < s.demands.length) (h0 : 0 < s.demands.length)
    (hill : ¬ legal s v (a.getD v 0)) :
    step rnd c D s a = step rnd c D s (a.set v DEPOT) :=
  MultiCVRP.illegal_is_depot rnd c D s a hl v hv hr h0 hill

/-- every vehicle whose choice is not honoured (illegal, or lost against a smaller index) ends at
the depot with a full vehicle, and exactly the customers of honoured choices are served.
`IllegalIgnored` is the predicate the driver evaluates on implementation transitions.
PARTIAL: entries `≤ num_customers` only (`hr`), see `multicvrp_spec_max_witness` -/
theorem multicvrp_illegal_ignored_partial (rnd : Rat → Rat) (c : Cfg) (D : Dist) (s : State) (a : List Nat)
    (hl : a.length = s.capacities.length) (hr : ∀ x ∈ a, x < s.demands.length)
    (hd0 : s.demands.getD DEPOT 0 = 0) : IllegalIgnored c s a (step rnd c D s a).1 :=
  MultiCVRP.step_illegalIgnored rnd c D s a hl hr hd0

/-- the hypothesis `hr` of the `_partial` theorems cannot be weakened to the DECLARED action range
(`action_spec.maximum = num_customers + 1`).  On `exampleState` (3 customers) the joint action `[0, 4]` is in-spec
and vehicle 1's choice `4` is illegal by the rules (no such node), yet `step` — like the real `_update_state`,
whose gathers clamp `demands[4]` to `demands[3]` and whose scatter `demands.at[4].set(0)` is dropped — sends
vehicle 1 to "node 4": position 4 instead of the depot (`multicvrp_step_agrees_partial`,
`multicvrp_illegal_is_depot_partial`, `multicvrp_illegal_ignored_partial` fail), its capacity drops by the demand of
customer 3 which stays unserved (`Feasible` fails: `multicvrp_step_feasible_partial`), and the observation shows
the vehicle at customer 3's coordinates whereas the documented `observe` has no coordinates for node 4
(`multicvrp_obs_faithful_partial` fails).  Real code: `MultiCVRP()`, `reset(PRNGKey(0))`, action `[21, 0]` passes
`action_spec.validate`; positions become `[21, 0]`, capacities `[52, 60]`, demand of customer 20 still 8. -/
theorem multicvrp_spec_max_witness :
    -- the hypotheses of the `_partial` theorems with `x < num_customers + 1` weakened to the declared `x ≤ num_customers + 1`
    [0, MultiCVRP.exampleCfg.numCustomers + 1].length = MultiCVRP.exampleState.capacities.length ∧
    (∀ x ∈ [0, MultiCVRP.exampleCfg.numCustomers + 1], x ≤ MultiCVRP.exampleCfg.numCustomers + 1) ∧
    Feasible MultiCVRP.exampleCfg [0, 2, 4, 3] MultiCVRP.exampleState ∧
    MultiCVRP.exampleState.coords.length = MultiCVRP.exampleState.demands.length ∧
    MultiCVRP.exampleState.demands.getD DEPOT 0 = 0 ∧
    ¬ legal MultiCVRP.exampleState 1 (MultiCVRP.exampleCfg.numCustomers + 1) ∧
    -- … and the conclusions fail:
    (step id MultiCVRP.exampleCfg MultiCVRP.exampleDist MultiCVRP.exampleState [0, 4]).1.positions = [0, 4] ∧
    dests MultiCVRP.exampleState [0, 4] = [0, 0] ∧
    (step id MultiCVRP.exampleCfg MultiCVRP.exampleDist MultiCVRP.exampleState [0, 4]).1.capacities = [5, 2] ∧
    (step id MultiCVRP.exampleCfg MultiCVRP.exampleDist MultiCVRP.exampleState [0, 4]).1.demands = [0, 2, 0, 3] ∧
    (step id MultiCVRP.exampleCfg MultiCVRP.exampleDist MultiCVRP.exampleState [0, 4]).1 ≠
      (step id MultiCVRP.exampleCfg MultiCVRP.exampleDist MultiCVRP.exampleState [0, DEPOT]).1 ∧
    ¬ IllegalIgnored MultiCVRP.exampleCfg MultiCVRP.exampleState [0, 4]
        (step id MultiCVRP.exampleCfg MultiCVRP.exampleDist MultiCVRP.exampleState [0, 4]).1 ∧
    ¬ Feasible MultiCVRP.exampleCfg [0, 2, 4, 3]
        (step id MultiCVRP.exampleCfg MultiCVRP.exampleDist MultiCVRP.exampleState [0, 4]).1 ∧
    (step id MultiCVRP.exampleCfg MultiCVRP.exampleDist MultiCVRP.exampleState [0, 4]).2.obs ≠
      observe (step id MultiCVRP.exampleCfg MultiCVRP.exampleDist MultiCVRP.exampleState [0, 4]).1 ∧
    (step id MultiCVRP.exampleCfg MultiCVRP.exampleDist MultiCVRP.exampleState [0, 4]).2.obs.vehCoords = [[0, 0], [1, 1]] ∧
    (observe (step id MultiCVRP.exampleCfg MultiCVRP.exampleDist MultiCVRP.exampleState [0, 4]).1).vehCoords = [[0, 0], []] := by
  decide +kernel
end Props.C05

namespace Props.C06
/-- every instance the generator can draw starts feasible -/
theorem multicvrp_reset_feasible (c : Cfg) (nV : Nat) (demandMax : Int) (mapMax windowLen : Rat)
    (d : Draw) (hm : 0 ≤ c.maxCap) (hpos : 0 ≤ demandMax) (hd : validDraw c mapMax d) :
    Feasible c (reset c nV demandMax windowLen d).1.demands (reset c nV demandMax windowLen d).1 :=
  MultiCVRP.generate_feasible c nV demandMax mapMax windowLen d hm hpos hd

/-- ANY joint action with in-range entries (legal or not) keeps the history-free hard constraints:
each demand untouched or zeroed, each vehicle's remaining capacity within `[0, maxCap]` (the load on
board never exceeds the capacity), no two vehicles at the same customer, cached mask consistent.
PARTIAL: entries `≤ num_customers` only (`hr`) -/
theorem multicvrp_step_basicFeasible_partial (rnd : Rat → Rat) (c : Cfg) (D : Dist) (d0 : List Int) (s : State)
    (a : List Nat) (hm : 0 ≤ c.maxCap) (hl : a.length = s.capacities.length)
    (hr : ∀ x ∈ a, x < s.demands.length) (hf : BasicFeasible c d0 s) :
    BasicFeasible c d0 (step rnd c D s a).1 :=
  MultiCVRP.step_basicFeasible rnd c D d0 s a hm hl hr hf

/-- ANY joint action with in-range entries keeps the full invariant `Feasible` — the history-free part
above and, while the recorded history is complete (`stepCount ≤ 2·num_customers`), the constraints
recomputed from the recorded routes: each route starts at the depot and ends where the vehicle
stands, no customer appears twice on all routes together and its demand is zero exactly when it
appears, on every route the load never exceeds the capacity and `capacity` is what is left of it.
This is the predicate the driver evaluates on implementation states.
PARTIAL: entries `≤ num_customers` only (`hr`); false for the in-spec value `num_customers + 1`
(`Props.C05.multicvrp_spec_max_witness`) -/
theorem multicvrp_step_feasible_partial (rnd : Rat → Rat) (c : Cfg) (D : Dist) (d0 : List Int) (s : State)
    (a : List Nat) (hm : 0 ≤ c.maxCap) (hl : a.length = s.capacities.length)
    (hr : ∀ x ∈ a, x < s.demands.length) (hf : Feasible c d0 s) :
    Feasible c d0 (step rnd c D s a).1 := MultiCVRP.step_feasible rnd c D d0 s a hm hl hr hf

/-- … in particular for a joint action whose entries are all masked-in -/
theorem multicvrp_masked_step_feasible (rnd : Rat → Rat) (c : Cfg) (D : Dist) (d0 : List Int) (s : State)
    (a : List Nat) (hm : 0 ≤ c.maxCap) (hl : a.length = s.capacities.length)
    (hmask : ∀ v, v < a.length →
      ((createActionMask s.demands s.capacities).getD v []).getD (a.getD v 0) false = true)
    (hf : Feasible c d0 s) : Feasible c d0 (step rnd c D s a).1 := by
  apply MultiCVRP.step_feasible rnd c D d0 s a hm hl _ hf
  intro x hx
  obtain ⟨v, hv, rfl⟩ := List.getElem_of_mem hx
  have := (MultiCVRP.mask_iff_legal s v a[v]).1 (by
    have := hmask v hv
    rwa [List.getD_eq_getElem?_getD (l := a), List.getElem?_eq_getElem hv] at this)
  exact this.2.1

/-- an episode that ends by completion (no demand left, all vehicles at the depot) holds a complete
feasible solution: every customer with demand appears exactly once on the recorded routes -/
theorem multicvrp_complete_is_solution (c : Cfg) (d0 : List Int) (s : State) (hf : Feasible c d0 s)
    (h : allServedAtDepot s = true) : IsSolution c d0 s := MultiCVRP.complete_is_solution c d0 s hf h

/-- no two vehicles are sent to the same customer in one step -/
theorem multicvrp_no_shared_customer (s : State) (a : List Nat) (u v : Nat) (hu : u < a.length)
    (hvu : v < u) (he : (dests s a).getD u 0 = (dests s a).getD v 0) : (dests s a).getD u 0 = DEPOT :=
  MultiCVRP.dests_no_shared_customer s a u v hu hvu he

/-- a customer is served at most once: a vehicle is only sent to a customer that still has demand,
the demand of a served customer becomes zero, and zero demand stays zero.
PARTIAL: entries `≤ num_customers` only (`hr`, needed for the second part) -/
theorem multicvrp_served_once_partial (rnd : Rat → Rat) (c : Cfg) (D : Dist) (s : State) (a : List Nat)
    (hl : a.length = s.capacities.length) (hr : ∀ x ∈ a, x < s.demands.length) (v : Nat)
    (hv : v < a.length) :
    ((dests s a).getD v 0 ≠ DEPOT → 0 < s.demands.getD ((dests s a).getD v 0) 0) ∧
    (∀ j, (step rnd c D s a).1.demands.getD j 0 =
      if j ∈ dests s a then 0 else s.demands.getD j 0) := by
  constructor
  · intro hq
    obtain ⟨_, he, hleg⟩ := MultiCVRP.dests_customer s a v hv hq
    rw [he]
    have hne : a.getD v 0 ≠ DEPOT := by rw [← he]; exact hq
    exact (hleg.2.2.resolve_left hne).1
  · intro j
    rw [MultiCVRP.step_state, MultiCVRP.update_demands, MultiCVRP.nextNodes_eq_dests s a hl hr]

example : Feasible MultiCVRP.exampleCfg [0, 2, 4, 3] MultiCVRP.exampleState := by decide +kernel

/-! #### whole episodes (Env/MultiCVRP/Episode.lean) -/

/-- WHOLE EPISODE: from a feasible state, after every prefix (`as.take k`, every `k`) of every play `as` of joint
actions with one entry per vehicle and entries `≤ num_customers` (`InRange`: legal or not, any number of steps —
also beyond the end of the episode), for every rounding function, the state reached (`runState`) is `Feasible`.
PARTIAL only in the sense of audit entry 3: the action range is the documented `[0, num_customers]`, not the
declared one. -/
theorem multicvrp_feasible_along (rnd : Rat → Rat) (c : Cfg) (D : Dist) (d0 : List Int) (s : State)
    (as : List (List Nat)) (hm : 0 ≤ c.maxCap) (hf : Feasible c d0 s)
    (hr : InRange s.demands.length s.capacities.length as) (k : Nat) :
    Feasible c d0 (runState rnd c D s (as.take k)) := MultiCVRP.feasible_along rnd c D d0 s as hm hf hr k

/-- … from `reset`: every instance the generator can draw, every such play, every prefix -/
theorem multicvrp_reset_feasible_along (rnd : Rat → Rat) (c : Cfg) (D : Dist) (nV : Nat) (demandMax : Int)
    (mapMax windowLen : Rat) (d : Draw) (as : List (List Nat)) (hm : 0 ≤ c.maxCap) (hpos : 0 ≤ demandMax)
    (hd : validDraw c mapMax d) (hr : InRange (c.numCustomers + 1) nV as) (k : Nat) :
    Feasible c (reset c nV demandMax windowLen d).1.demands
      (runState rnd c D (reset c nV demandMax windowLen d).1 (as.take k)) :=
  MultiCVRP.reset_feasible_along rnd c D nV demandMax mapMax windowLen d as hm hpos hd hr k

/-- … and a play that reaches "no demand left, all vehicles at the depot" holds a complete feasible solution -/
theorem multicvrp_run_complete_is_solution (rnd : Rat → Rat) (c : Cfg) (D : Dist) (d0 : List Int) (s : State)
    (as : List (List Nat)) (hm : 0 ≤ c.maxCap) (hf : Feasible c d0 s)
    (hr : InRange s.demands.length s.capacities.length as)
    (h : allServedAtDepot (runState rnd c D s as) = true) : IsSolution c d0 (runState rnd c D s as) :=
  MultiCVRP.run_complete_is_solution rnd c D d0 s as hm hf hr h

/-- the hypotheses are satisfiable: from `exampleState`, vehicle 1 serves customers 1 and 3 (vehicle 0 tries the
illegal customer 1 on the way) and everybody returns: the play is in range and ends with a complete solution -/
example : InRange MultiCVRP.exampleState.demands.length MultiCVRP.exampleState.capacities.length
      [[1, 1], [0, 3], [0, 0]] ∧
    allServedAtDepot (runState id MultiCVRP.exampleCfg MultiCVRP.exampleDist MultiCVRP.exampleState
      [[1, 1], [0, 3], [0, 0]]) = true := by decide +kernel
end Props.C06

namespace Props.C08
/-- dense reward telescopes (exact arithmetic): before the step limit, the reward of a step is the
change of the accumulated objective −(Σ distances + Σ time penalties).
PARTIAL: steps whose successor has not timed out (`ht`); the general form is `multicvrp_dense_reward` -/
theorem multicvrp_dense_telescopes_partial (c : Cfg) (D : Dist) (s : State) (a : List Nat) (hd : c.dense = true)
    (ht : timedOut c (step id c D s a).1 = false) :
    (step id c D s a).2.reward = [accumulated (step id c D s a).1 - accumulated s] :=
  MultiCVRP.dense_telescopes c D s a hd ht

/-- dense reward of EVERY step (exact arithmetic): at the step limit `worst_case_remaining_reward` of the
successor (which is NOT the change of the objective: `multicvrp_dense_ne_sparse_timeout_witness`), otherwise the
change of the accumulated objective -/
theorem multicvrp_dense_reward (c : Cfg) (D : Dist) (s : State) (a : List Nat) (hd : c.dense = true) :
    (step id c D s a).2.reward =
      [if timedOut c (step id c D s a).1 then worstCase D (step id c D s a).1
       else accumulated (step id c D s a).1 - accumulated s] := MultiCVRP.dense_reward c D s a hd

/-- sparse reward: zero before the end; at an end before the step limit the whole accumulated
objective; at the step limit `worst_case_remaining_reward` -/
theorem multicvrp_sparse_reward (c : Cfg) (D : Dist) (s : State) (a : List Nat) (hd : c.dense = false) :
    (step id c D s a).2.reward =
      [if (step id c D s a).2.stepType = .last then
         (if timedOut c (step id c D s a).1 then worstCase D (step id c D s a).1
          else accumulated (step id c D s a).1)
       else 0] := MultiCVRP.sparse_reward c D s a hd
/-! #### accumulators vs recorded routes, whole episodes (exact arithmetic) -/

/-- a 2-customer instance for the examples below: unit-ish triangle, 2 vehicles of capacity 5 -/
def exDraw : Draw :=
  { coords := [[0, 0], [1, 0], [0, 1]], scaled := [0, 2, 3], winStart := [0, 0, 0],
    coefEarly := [0, 1, 1], coefLate := [0, 1, 2] }
def exCfg : Cfg := { numCustomers := 2, maxCap := 5, dense := true }
def exD : Dist := [[0, 1, 1], [1, 0, 7/5], [1, 7/5, 0]]
/-- the reset state of that instance (customer demands 2 and 3, windows `[0, 1/2]`) -/
def exS0 : State := (reset exCfg 2 4 (1/2) exDraw).1

/-- `reset` establishes the accumulators-vs-routes invariant `AccInv` (every accumulator of the state is the
quantity recomputed from the recorded routes), for any number of vehicles and any draw whose window and
coefficient arrays have one entry per node -/
theorem multicvrp_reset_accInv (c : Cfg) (D : Dist) (nV : Nat) (demandMax : Int) (windowLen : Rat) (d : Draw)
    (hn : 1 ≤ c.numCustomers) (hw : d.winStart.length = d.scaled.length)
    (he : d.coefEarly.length = d.scaled.length) (hl : d.coefLate.length = d.scaled.length) :
    AccInv c D (reset c nV demandMax windowLen d).1 :=
  MultiCVRP.generate_accInv c D nV demandMax windowLen d hn hw he hl

/-- every step with an in-spec joint action (legal or not), either reward function, taken while the history is
still recorded (`stepCount < 2·num_customers`, i.e. the successor has not timed out) preserves `AccInv`.
PARTIAL: entries `≤ num_customers` only (`hr`) -/
theorem multicvrp_step_accInv_partial (c : Cfg) (D : Dist) (s : State) (a : List Nat) (h : AccInv c D s)
    (hl : a.length = s.capacities.length) (hr : ∀ x ∈ a, x < s.demands.length)
    (hrec : s.stepCount < 2 * c.numCustomers) : AccInv c D (step id c D s a).1 :=
  MultiCVRP.update_accInv c D s a h hl hr hrec

/-- what `AccInv` says: `distances[v] = local_times[v] = pathLen (route v)`, `time_penalties[v]` = the penalties
collected along `route v`, and the accumulated objective is the documented objective recomputed from the routes -/
theorem multicvrp_accumulators_are_routes (c : Cfg) (D : Dist) (s : State) (h : AccInv c D s) :
    s.distances = (routes s).map (pathLen D) ∧ s.localTimes = (routes s).map (pathLen D) ∧
    s.timePenalties = (routes s).map (routePenalty D s 0) ∧ accumulated s = objective D s := by
  refine ⟨MultiCVRP.accInv_distances h, ?_, MultiCVRP.accInv_penalties h, MultiCVRP.accInv_objective h⟩
  apply MultiCVRP.ext_getD _ _ 0 (by rw [List.length_map, MultiCVRP.routes_length h, h.nTimes])
  intro v hv
  rw [h.nTimes] at hv
  rw [h.times v hv, MultiCVRP.getD_map_lt _ _ _ _ [] (by rw [MultiCVRP.routes_length h]; exact hv)]

/-- `AccInv` holds at the end of every run of joint actions with entries `≤ num_customers` (`Episode` ⊇ `InSpec`)
from a state with `AccInv` that stays within the recorded history.
PARTIAL: documented action range only (audit entry 3) -/
theorem multicvrp_accInv_along_partial (c : Cfg) (D : Dist) (s : State) (as : List (List Nat)) (h : AccInv c D s)
    (he : Episode c D s as) (hlim : s.stepCount + as.length ≤ 2 * c.numCustomers) :
    AccInv c D (finalState c D s as) := MultiCVRP.finalState_accInv c D s as h he hlim

/-- whole episode: for a complete episode of in-spec joint actions from a reset state (`Episode`: the last step
and only the last step is LAST) that ends before the step limit, the sum of the dense rewards = the sum of the
sparse rewards = the documented objective (minus total distance, minus all time penalties) recomputed from the
routes recorded in the final state.  (The state evolution does not depend on the reward function.)
PARTIAL twice: (1) joint actions with entries `≤ num_customers` (`Episode` contains `InSpec`; audit entry 3);
(2) episodes that end BEFORE the step limit (`ht`) in exact arithmetic — for an episode ended by the step limit
the statement is false, see `multicvrp_dense_ne_sparse_timeout_witness`.  The matrix `D` is arbitrary here;
`multicvrp_dense_eq_sparse_eq_objective_euclid_partial` ties it to the coordinates. -/
theorem multicvrp_dense_eq_sparse_eq_objective_partial (c : Cfg) (D : Dist) (nV : Nat) (demandMax : Int)
    (windowLen : Rat) (d : Draw) (as : List (List Nat)) (hn : 1 ≤ c.numCustomers)
    (hw : d.winStart.length = d.scaled.length) (hce : d.coefEarly.length = d.scaled.length)
    (hcl : d.coefLate.length = d.scaled.length)
    (he : Episode c D (reset c nV demandMax windowLen d).1 as)
    (ht : timedOut c (finalState c D (reset c nV demandMax windowLen d).1 as) = false) :
    retOf { c with dense := true } D (reset c nV demandMax windowLen d).1 as =
      objective D (finalState c D (reset c nV demandMax windowLen d).1 as) ∧
    retOf { c with dense := false } D (reset c nV demandMax windowLen d).1 as =
      objective D (finalState c D (reset c nV demandMax windowLen d).1 as) :=
  MultiCVRP.episode_return c D nV demandMax windowLen d as hn hw hce hcl he ht

/-- the hypotheses are satisfiable: vehicle 0 serves customer 1, vehicle 1 customer 2, both return; the episode is
complete, ends at step count 3 ≤ 4, and both returns are −(2 + 2) − (1/2·1 + 1/2·2) = −11/2 -/
example : Episode exCfg exD exS0 [[1, 2], [0, 0]] ∧ timedOut exCfg (finalState exCfg exD exS0 [[1, 2], [0, 0]]) = false ∧
    retOf { exCfg with dense := true } exD exS0 [[1, 2], [0, 0]] = -11/2 ∧
    retOf { exCfg with dense := false } exD exS0 [[1, 2], [0, 0]] = -11/2 ∧
    objective exD (finalState exCfg exD exS0 [[1, 2], [0, 0]]) = -11/2 := by decide +kernel
example : AccInv exCfg exD exS0 :=
  multicvrp_reset_accInv exCfg exD 2 4 (1/2) exDraw (by decide) (by decide) (by decide) (by decide)

/-- the hypothesis `ht` (the episode ends before the step limit) cannot be dropped: on the instance above the
complete in-spec episode "vehicle 0 serves customer 1 and returns, then everybody idles" runs into the step limit
(4 steps, `2·num_customers = 4`) with customer 2 unserved; the dense return is −19/2 (the legs driven, −5/2, plus
`worst_case_remaining_reward` = −7), the sparse return is −7 (`worst_case_remaining_reward` only) and the
objective of the recorded routes is −5/2: all three differ.  Same on the real code (`DenseReward` /
`SparseReward` both replace the last reward by `worst_case_remaining_reward(new_state)`; the dense one has
already paid for the legs driven). -/
theorem multicvrp_dense_ne_sparse_timeout_witness :
    Episode exCfg exD exS0 [[1, 0], [0, 0], [0, 0], [0, 0]] ∧
    timedOut exCfg (finalState exCfg exD exS0 [[1, 0], [0, 0], [0, 0], [0, 0]]) = true ∧
    retOf { exCfg with dense := true } exD exS0 [[1, 0], [0, 0], [0, 0], [0, 0]] = -19/2 ∧
    retOf { exCfg with dense := false } exD exS0 [[1, 0], [0, 0], [0, 0], [0, 0]] = -7 ∧
    objective exD (finalState exCfg exD exS0 [[1, 0], [0, 0], [0, 0], [0, 0]]) = -5/2 := by decide +kernel

/-! #### the distance matrix tied to the coordinates (`distMatches`) -/

/-- what the executable test `distMatches` (evaluated by `multi_cvrp.instance` on every reset state, there with a
float32 tolerance) means at tolerance 0: `D` is the Euclidean distance matrix of the coordinates — every entry
between two nodes is non-negative and its square is the squared distance of the two points -/
theorem multicvrp_distMatches_euclid (coords : List (List Rat)) (D : Dist) (h : distMatches 0 coords D = true) :
    Euclid coords D := MultiCVRP.distMatches_euclid coords D h

/-- consequently `D` is determined by the coordinates on all node pairs, symmetric, with zero diagonal -/
theorem multicvrp_euclid_unique (coords : List (List Rat)) (D D' : Dist) (h : Euclid coords D) (h' : Euclid coords D')
    (i j : Nat) (hi : i < coords.length) (hj : j < coords.length) :
    dist D i j = dist D' i j ∧ dist D i j = dist D j i ∧ dist D i i = 0 :=
  ⟨MultiCVRP.euclid_unique coords D D' h h' i j hi hj, MultiCVRP.euclid_symm coords D h i j hi hj,
   MultiCVRP.euclid_self coords D h i hi⟩

/-- the objective of a state whose recorded node indices are nodes of the instance is a function of the coordinates
and the routes: any two Euclidean matrices give the same value -/
theorem multicvrp_objective_euclid_unique (D D' : Dist) (s : State) (h : OrderInRange s)
    (hc : s.coords.length = s.demands.length) (hD : Euclid s.coords D) (hD' : Euclid s.coords D') :
    objective D s = objective D' s := MultiCVRP.objective_euclid_unique D D' s h hc hD hD'

/-- whole episode with `D` TIED to the instance: if `D` passes `distMatches 0` against the drawn coordinates, then
for a complete episode (entries `≤ num_customers`) from the reset state that ends before the step limit, dense
return = sparse return = the documented objective of the recorded routes computed with ANY Euclidean matrix `D'`
of the coordinates — i.e. minus (Σ Euclidean leg lengths + Σ time penalties at Euclidean arrival times).
PARTIAL as `multicvrp_dense_eq_sparse_eq_objective_partial` (documented action range; episodes ending before the
step limit; exact arithmetic, hence instances whose node distances are rational) -/
theorem multicvrp_dense_eq_sparse_eq_objective_euclid_partial (c : Cfg) (D D' : Dist) (nV : Nat) (demandMax : Int)
    (windowLen : Rat) (d : Draw) (as : List (List Nat)) (hn : 1 ≤ c.numCustomers)
    (hw : d.winStart.length = d.scaled.length) (hce : d.coefEarly.length = d.scaled.length)
    (hcl : d.coefLate.length = d.scaled.length) (hco : d.coords.length = d.scaled.length)
    (h0 : 0 < d.scaled.length) (hD : distMatches 0 d.coords D = true) (hD' : distMatches 0 d.coords D' = true)
    (he : Episode c D (reset c nV demandMax windowLen d).1 as)
    (ht : timedOut c (finalState c D (reset c nV demandMax windowLen d).1 as) = false) :
    retOf { c with dense := true } D (reset c nV demandMax windowLen d).1 as =
      objective D' (finalState c D (reset c nV demandMax windowLen d).1 as) ∧
    retOf { c with dense := false } D (reset c nV demandMax windowLen d).1 as =
      objective D' (finalState c D (reset c nV demandMax windowLen d).1 as) :=
  MultiCVRP.episode_return_euclid c D D' nV demandMax windowLen d as hn hw hce hcl hco h0 hD hD' he ht

/-- a Pythagorean instance (depot (0,0), customers (3,0) and (0,4): distances 3, 4, 5) for the hypotheses -/
def pyDraw : Draw :=
  { coords := [[0, 0], [3, 0], [0, 4]], scaled := [0, 2, 3], winStart := [0, 0, 0],
    coefEarly := [0, 1, 1], coefLate := [0, 1, 2] }
def pyD : Dist := [[0, 3, 4], [3, 0, 5], [4, 5, 0]]
/-- the hypotheses are satisfiable: `pyD` passes `distMatches 0`; one vehicle serves both customers (depot, 1, 2,
depot: 3 + 5 + 4 = 12 driven, late by 5/2 at customer 1 and 15/2 at customer 2 with coefficients 1 and 2),
the episode ends at step count 4 ≤ 4 and both returns are −12 − (5/2 + 15) = −59/2 -/
example : distMatches 0 pyDraw.coords pyD = true ∧
    Episode exCfg pyD (reset exCfg 2 4 (1/2) pyDraw).1 [[1, 0], [2, 0], [0, 0]] ∧
    timedOut exCfg (finalState exCfg pyD (reset exCfg 2 4 (1/2) pyDraw).1 [[1, 0], [2, 0], [0, 0]]) = false ∧
    retOf { exCfg with dense := true } pyD (reset exCfg 2 4 (1/2) pyDraw).1 [[1, 0], [2, 0], [0, 0]] = -59/2 ∧
    retOf { exCfg with dense := false } pyD (reset exCfg 2 4 (1/2) pyDraw).1 [[1, 0], [2, 0], [0, 0]] = -59/2 := by
  decide +kernel
end Props.C08

namespace Props.C10
/-- (the ranges of the random arrays are ASSUMED here by `validDraw`; `multicvrp_raw_draw_valid` below derives them
from the raw random numbers.)  Whatever `UniformRandomGenerator` draws (coordinates in the box, non-negative scaled demands with
the depot's zero), given `customer_demand_max ≤ max_capacity` (true of every shipped scenario): the
depot has no demand, every demand is within `[0, min(customer_demand_max, max_capacity)]`, the
coordinates are in the declared box and the start state is the documented one -/
theorem multicvrp_generate_instance (c : Cfg) (nV : Nat) (demandMax : Int) (mapMax windowLen : Rat)
    (d : Draw) (hcon : demandMax ≤ c.maxCap) (hpos : 0 ≤ demandMax) (hd : validDraw c mapMax d) :
    demandsOK c demandMax (generate c nV demandMax windowLen d) ∧
    coordsInBox mapMax (generate c nV demandMax windowLen d) ∧
    IsInitial c nV (generate c nV demandMax windowLen d) :=
  MultiCVRP.generate_instance c nV demandMax mapMax windowLen d hcon hpos hd

example : validDraw MultiCVRP.exampleCfg 10
    { coords := [[0, 1/2], [10, 1], [1/3, 1/3], [5, 5]], scaled := [0, 7, 0, 3], winStart := [],
      coefEarly := [], coefLate := [] } := by decide +kernel

/-! #### the generator from the RAW random numbers (audit r1 entry 10; Env/MultiCVRP/Generator.lean)

The draw is what the PRNG delivers (`RawDraw`: unit uniforms `0 ≤ u < 1` and `randint` values
`0 ≤ x < customer_demand_max`, `validRaw`); `uniformMap` transliterates `jax.random.uniform(minval, maxval)`
(`max(minval, u·(maxval − minval) + minval)`), `scaleDemands` the int16 demand scaling, `generateRaw` the whole of
`UniformRandomGenerator.__call__`.  `multi_cvrp.instance` (request field `raw`, adapter hook `instance_extra`)
checks on every C10 run that the implementation's reset state EQUALS `generateRaw Jx.roundF32 … raw` for the raw
numbers recomputed from the reset key, and that they satisfy `validRaw`. -/

/-- `jax.random.uniform(minval = lo, maxval = hi)` in exact arithmetic maps a unit uniform into `[lo, hi]`, and into
`[lo, hi)` when `lo < hi` — the range is a conclusion -/
theorem multicvrp_uniform_range (lo hi u : Rat) (h : lo ≤ hi) (h0 : 0 ≤ u) (h1 : u < 1) :
    lo ≤ uniformMap id lo hi u ∧ uniformMap id lo hi u ≤ hi ∧ (lo < hi → uniformMap id lo hi u < hi) :=
  MultiCVRP.uniformMap_id_range lo hi u h h0 h1

/-- … in ROUNDED arithmetic: never below `minval` for any rounding function (the final `lax.max`); with `minval = 0`
and a monotone rounding that fixes 0 and `maxval`, never above `maxval`; with `minval = maxval` the constant -/
theorem multicvrp_uniform_range_rnd (rnd : Rat → Rat) (lo hi u : Rat) :
    lo ≤ uniformMap rnd lo hi u ∧
    (RndMono rnd → rnd hi = hi → 0 ≤ hi → 0 ≤ u → u < 1 → uniformMap rnd 0 hi u ≤ hi) ∧
    (rnd 0 = 0 → rnd lo = lo → uniformMap rnd lo lo u = lo) :=
  ⟨MultiCVRP.uniformMap_ge rnd lo hi u,
   fun hr hh h0 hu0 hu1 => (MultiCVRP.uniformMap_rnd_le rnd hr hi u hh h0 hu0 hu1).2,
   fun h0 hl => MultiCVRP.uniformMap_const rnd lo u h0 hl⟩

/-- … for float32 (`Jx.roundF32`) and a representable `maxval = k · 2^sh` (`k < 2^24`): e.g. every integer
`map_max < 2^24` -/
theorem multicvrp_uniform_range_roundF32 (k : Nat) (sh : Int) (hk : k < 16777216) (hs : -149 ≤ sh) (u : Rat)
    (hu0 : 0 ≤ u) (hu1 : u < 1) :
    0 ≤ uniformMap Jx.roundF32 0 ((k : Rat) * Jx.pow2 sh) u ∧
    uniformMap Jx.roundF32 0 ((k : Rat) * Jx.pow2 sh) u ≤ (k : Rat) * Jx.pow2 sh :=
  MultiCVRP.uniformMap_rnd_le Jx.roundF32 MultiCVRP.rndMono_roundF32 _ u (Jx.roundF32_fix k sh hk hs)
    (Rat.mul_nonneg (by exact_mod_cast Nat.zero_le k) (Rat.le_of_lt (Jx.pow2_pos sh))) hu0 hu1

/-- the int16 demand scaling `int16(demands · (total_capacity / Σ demands))` in exact arithmetic: from non-negative
`randint` values every scaled demand lies in `[0, total_capacity]`, so with `total_capacity ≤ 32767` the int16
conversion (`wrap16`, modelled) never wraps; and the depot's scaled demand is 0 for every rounding fixing 0 -/
theorem multicvrp_scaled_demands_range (total : Int) (raw : List Int) (ht0 : 0 ≤ total) (ht : total ≤ 32767)
    (hraw : ∀ x ∈ raw, 0 ≤ x) :
    (∀ y ∈ scaleDemands id total raw, 0 ≤ y ∧ y ≤ total) ∧
    (∀ rnd : Rat → Rat, rnd 0 = 0 → 0 < raw.length → (scaleDemands rnd total raw).getD DEPOT 1 = 0) :=
  ⟨MultiCVRP.scaleDemands_id_range total raw ht0 ht hraw,
   fun rnd h0 hl => MultiCVRP.scaleDemands_depot rnd h0 total raw hl⟩

/-- ENTRY 10: for every raw draw the PRNG can deliver (`validRaw`) and sane generator parameters (`GenOK`), the random
arrays computed by the transliterated arithmetic satisfy `validDrawB` (hence `validDraw`): coordinates in
`[0, map_max]`, scaled demands `≥ 0` with the depot's 0, window starts in `[0, max_start_window]`, coefficients in
`[0, coef_rand[1]]` — the ranges the other generator / reset theorems ASSUME are conclusions here -/
theorem multicvrp_raw_draw_valid (c : Cfg) (nV : Nat) (g : GenCfg) (r : RawDraw) (dmax : Rat) (hg : GenOK c nV g)
    (hdm : 0 ≤ dmax) (hr : validRaw c g r) : validDrawB c (genLim g dmax) (drawOfRaw id c nV g r) :=
  MultiCVRP.drawOfRaw_validDrawB c nV g r dmax hg hdm hr

/-- … so for EVERY valid raw draw the generated start state (`generateRaw id` = `reset`'s state) has the advertised
invariants: demands within `[0, min(customer_demand_max, max_capacity)]` with the depot's 0 (given
`customer_demand_max ≤ max_capacity`), coordinates in the box — strictly below `map_max` —, the documented initial
vehicle state, `Feasible`, the bounds invariant `BInv`, and every leaf of the reset observation in `obsBounds` -/
theorem multicvrp_generate_instance_raw (c : Cfg) (nV : Nat) (g : GenCfg) (r : RawDraw) (dmax : Rat)
    (hg : GenOK c nV g) (hdm : 0 ≤ dmax) (hcon : g.demandMax ≤ c.maxCap) (hmm : 0 < g.mapMax)
    (hr : validRaw c g r) :
    demandsOK c g.demandMax (generateRaw id c nV g r) ∧ coordsInBox g.mapMax (generateRaw id c nV g r) ∧
    (∀ p ∈ (generateRaw id c nV g r).coords, ∀ x ∈ p, 0 ≤ x ∧ x < g.mapMax) ∧
    IsInitial c nV (generateRaw id c nV g r) ∧
    Feasible c (generateRaw id c nV g r).demands (generateRaw id c nV g r) ∧
    BInv c (genLim g dmax) (generateRaw id c nV g r) ∧
    Jm.OB.InBounds (obsBounds c (genLim g dmax))
      (obsLeaves (reset c nV g.demandMax g.windowLen (drawOfRaw id c nV g r)).2.obs) := by
  have hv := MultiCVRP.drawOfRaw_validDrawB c nV g r dmax hg hdm hr
  have hi := MultiCVRP.generate_instance c nV g.demandMax g.mapMax g.windowLen _ hcon hg.2.2.1 hv.1
  rw [MultiCVRP.generateRaw_id]
  exact ⟨hi.1, hi.2.1, MultiCVRP.generateRaw_coords_lt c nV g r hmm hr, hi.2.2,
    MultiCVRP.generate_feasible c nV g.demandMax g.mapMax g.windowLen _ hg.1 hg.2.2.1 hv.1,
    MultiCVRP.reset_bInv c (genLim g dmax) nV _ hv, MultiCVRP.reset_obs_in_bounds c (genLim g dmax) nV _ hv⟩

/-- … and the instance never asks for more than the fleet can carry (the purpose of the scaling, "to ensure a
feasible solution"): Σ demands ≤ `max_capacity · num_vehicles`, for every valid raw draw (exact arithmetic; the
certificate `total_demand_le_fleet_capacity` of `multi_cvrp.instance` checks it on the float32 implementation) -/
theorem multicvrp_generate_total_demand_raw (c : Cfg) (nV : Nat) (g : GenCfg) (r : RawDraw) (hg : GenOK c nV g)
    (hr : validRaw c g r) : (generateRaw id c nV g r).demands.sum ≤ c.maxCap * (nV : Int) :=
  MultiCVRP.generateRaw_total_demand c nV g r hg hr

/-- float32: the coordinates of `generateRaw Jx.roundF32` (the term `multi_cvrp.instance` compares the real reset
state with) are in the box for every valid raw draw when `map_max = k · 2^sh` is representable -/
theorem multicvrp_generateRaw_coordsInBox_roundF32 (c : Cfg) (nV : Nat) (g : GenCfg) (r : RawDraw) (k : Nat)
    (sh : Int) (hmm : g.mapMax = (k : Rat) * Jx.pow2 sh) (hk : k < 16777216) (hs : -149 ≤ sh)
    (hr : validRaw c g r) : coordsInBox g.mapMax (generateRaw Jx.roundF32 c nV g r) :=
  MultiCVRP.generateRaw_coordsInBox_rnd Jx.roundF32 MultiCVRP.rndMono_roundF32 c nV g r
    (by rw [hmm]; exact Rat.mul_nonneg (by exact_mod_cast Nat.zero_le k) (Rat.le_of_lt (Jx.pow2_pos sh)))
    (by rw [hmm]; exact Jx.roundF32_fix k sh hk hs) hr

/-- the hypotheses are satisfiable: a raw draw for `exampleCfg` (3 customers), two vehicles, unit-box generator with
demands `< 4`; the scaled demands are `int16([0, 3, 1, 2] · 10/6) = [0, 5, 1, 3]`, clipped to 4 -/
def exGen : GenCfg :=
  { mapMax := 10, demandMax := 4, maxStart := 10, windowLen := 20, earlyLo := 0, earlyHi := 1/5, lateLo := 0, lateHi := 1 }
def exRaw : RawDraw :=
  { uCoords := [[0, 1/2], [3/4, 1/8], [1/3, 1/3], [1/5, 4/5]], rawDemands := [2, 3, 1, 2], uWin := [0, 1/2, 1/4, 3/4],
    uEarly := [1/2, 1/10, 0, 9/10], uLate := [1/2, 1/2, 1/3, 0] }
example : validRaw MultiCVRP.exampleCfg exGen exRaw ∧ GenOK MultiCVRP.exampleCfg 2 exGen ∧
    exGen.demandMax ≤ MultiCVRP.exampleCfg.maxCap ∧
    (generateRaw id MultiCVRP.exampleCfg 2 exGen exRaw).demands = [0, 4, 1, 3] ∧
    (generateRaw id MultiCVRP.exampleCfg 2 exGen exRaw).coords = [[0, 5], [15/2, 5/4], [10/3, 10/3], [2, 8]] := by
  decide +kernel
end Props.C10

namespace Props.C11
/-- a step that does not end the episode increments the counter and leaves it within
`2·num_customers`; the reset state has counter 1: so an episode lasts at most `2·num_customers`
steps (≤ the `2n + 1` of the property) -/
theorem multicvrp_progress (rnd : Rat → Rat) (c : Cfg) (D : Dist) (s : State) (a : List Nat)
    (h : (step rnd c D s a).2.stepType ≠ .last) :
    (step rnd c D s a).1.stepCount = s.stepCount + 1 ∧
    (step rnd c D s a).1.stepCount ≤ 2 * c.numCustomers := MultiCVRP.progress rnd c D s a h

/-- … and the step taken at counter `≥ 2·num_customers` is always LAST -/
theorem multicvrp_last_at_limit (rnd : Rat → Rat) (c : Cfg) (D : Dist) (s : State) (a : List Nat)
    (h : 2 * c.numCustomers ≤ s.stepCount) : (step rnd c D s a).2.stepType = .last :=
  MultiCVRP.last_at_limit rnd c D s a h
end Props.C11

namespace Props.C12
/-- the observation is the documented function of the successor state (problem data copied, vehicle
coordinates looked up from the positions, `action_mask` = table of legal (vehicle, node) pairs).
PARTIAL: entries `≤ num_customers` only (`hr`); false for the in-spec value `num_customers + 1`
(`Props.C05.multicvrp_spec_max_witness`) -/
theorem multicvrp_obs_faithful_partial (rnd : Rat → Rat) (c : Cfg) (D : Dist) (s : State) (a : List Nat)
    (hl : a.length = s.capacities.length) (hr : ∀ x ∈ a, x < s.demands.length)
    (hc : s.coords.length = s.demands.length) :
    (step rnd c D s a).2.obs = observe (step rnd c D s a).1 :=
  MultiCVRP.obs_faithful rnd c D s a hl hr hc
/-- the observation returned by `reset` is the documented function of the reset state, for every configuration,
number of vehicles and draw -/
theorem multicvrp_reset_obs_faithful (c : Cfg) (nV : Nat) (demandMax : Int) (windowLen : Rat) (d : Draw) :
    (reset c nV demandMax windowLen d).2.obs = observe (reset c nV demandMax windowLen d).1 :=
  MultiCVRP.reset_obs_faithful c nV demandMax windowLen d
end Props.C12
