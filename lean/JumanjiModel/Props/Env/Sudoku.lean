/-
Property theorems for Sudoku (helper lemmas and proofs: Env/Sudoku/Lemmas.lean).
`Grid.shaped b 9 9` says the board is a 9x9 array (any integer contents); `CachedOK s` says the mask
cached in the state is the table of legal moves of its board — established by `sudoku_cached_mask`
for every state produced by `step`, and checked on every generated instance (C10).
-/
import JumanjiModel.Env.Sudoku.Lemmas
import JumanjiModel.Env.Sudoku.Bounds
import JumanjiModel.Env.Sudoku.DBLemmas
import JumanjiModel.Gen.SudokuDB
import JumanjiModel.Env.Sudoku.RunLemmas
import JumanjiModel.Env.SpecTieSSM
import JumanjiModel.Env.Sudoku.SpecValid
open Jm Jx Sudoku

namespace Props.C04
/-- the transliterated `get_action_mask` (empty-cell mask, one-hot row / column / box masks, gather
and scatter through `BOX_IDX`) marks exactly the legal moves: cell empty, digit absent from the
cell's row, column and 3x3 box — for every 9x9 board -/
theorem sudoku_mask_iff_legal (b : Grid Int) (hs : Grid.shaped b 9 9 = true) (r c d : Nat) (hr : r < 9)
    (hc : c < 9) (hd : d < 9) :
    (((maskOf b).getD r []).getD c []).getD d false = true ↔ legal b r c d :=
  Sudoku.mask_entry_iff_legal b hs r c d hr hc hd

/-- as arrays: mask = table of legal moves -/
theorem sudoku_mask_eq_legalTable (b : Grid Int) (hs : Grid.shaped b 9 9 = true) : maskOf b = legalTable b :=
  Sudoku.maskOf_eq_legalTable b hs

/-- the mask cached in the successor state is the table of legal moves of the successor board -/
theorem sudoku_cached_mask (s : State) (hs : Grid.shaped s.board 9 9 = true) (r c d : Nat) (hr : r < 9)
    (hc : c < 9) : CachedOK (step s r c d).1 := Sudoku.step_cached s hs r c d hr hc

/-- `step` (which reads the cached mask) agrees with the rules about validity (audit r2 #6: stated about `step`): an
in-spec action the rules forbid ends the episode, and one they allow ends it iff no legal move is left on the new board -/
theorem sudoku_step_agrees (s : State) (hs : Grid.shaped s.board 9 9 = true) (hcache : CachedOK s) (r c d : Nat)
    (hr : r < 9) (hc : c < 9) (hd : d < 9) :
    (¬ legal s.board r c d → (step s r c d).2.stepType = .last) ∧
    (legal s.board r c d →
      ((step s r c d).2.stepType = .last ↔ ¬ ∃ r' c' d', legal (step s r c d).1.board r' c' d')) :=
  Sudoku.step_agrees_step s hs hcache r c d hr hc hd

-- on the sample puzzle: writing 1 at (0,0) is legal and the episode goes on; writing 7 there (7 is in row 0) ends it
example : (step ⟨sampleBoard, maskOf sampleBoard⟩ 0 0 1).2.stepType = .mid ∧
    (step ⟨sampleBoard, maskOf sampleBoard⟩ 0 0 7).2.stepType = .last := by decide +kernel

example : legal sampleBoard 0 0 1 ∧ ¬ legal sampleBoard 0 0 7 ∧ ¬ legal sampleBoard 0 3 1 := by decide +kernel
example : CachedOK ⟨sampleBoard, maskOf sampleBoard⟩ := by decide +kernel
end Props.C04

namespace Props.C05
/-- an illegal move ends the episode (the documents promise nothing about the board: the digit is
written anyway) -/
theorem sudoku_illegal_terminates (s : State) (hs : Grid.shaped s.board 9 9 = true) (hcache : CachedOK s)
    (r c d : Nat) (hr : r < 9) (hc : c < 9) (hd : d < 9) (h : ¬ legal s.board r c d) :
    (step s r c d).2.stepType = .last := Sudoku.illegal_last s hs hcache r c d hr hc hd h

/-- … and, while the episode is still running (some legal move exists), it carries reward 0: an
illegal move never completes the puzzle -/
theorem sudoku_illegal_reward_zero (s : State) (hs : Grid.shaped s.board 9 9 = true) (r c d : Nat)
    (hr : r < 9) (hc : c < 9) (hd : d < 9) (h : ¬ legal s.board r c d)
    (hmove : ∃ r0 c0 d0, legal s.board r0 c0 d0) : (step s r c d).2.reward = [0] :=
  Sudoku.illegal_reward s hs r c d hr hc hd h hmove
end Props.C05

namespace Props.C06
/-- a legal move keeps the board feasible: 9x9, entries in −1..8, no digit twice in a row, column or
box (`place` is the successor board of `step`, see `Props.C09.sudoku_step_state`) -/
theorem sudoku_place_feasible (b : Grid Int) (hf : Feasible b) (r c d : Nat) (hl : legal b r c d) :
    Feasible (place b r c d) := Sudoku.step_feasible b hf r c d hl

/-- the same about the step function itself -/
theorem sudoku_step_feasible (s : State) (hf : Feasible s.board) (r c d : Nat) (hl : legal s.board r c d) :
    Feasible (step s r c d).1.board := by
  rw [Sudoku.step_state s hf.1 r c d hl.1 hl.2.1]
  exact Sudoku.step_feasible s.board hf r c d hl

/-- completion through `step` (audit r2 #1): a legal move from a feasible board after which the board is full yields
a complete feasible solution, is rewarded 1 and ends the episode -/
theorem sudoku_complete_is_solution (s : State) (hf : Feasible s.board) (r c d : Nat) (hl : legal s.board r c d)
    (hfull : Full (step s r c d).1.board) :
    IsSolution (step s r c d).1.board ∧ (step s r c d).2.reward = [1] ∧ (step s r c d).2.stepType = .last :=
  Sudoku.complete_is_solution s hf r c d hl hfull

/-- the hypotheses are satisfiable: a solved grid with cell (0,0) emptied, the missing digit 0 written back -/
example :
    let b : Grid Int := [[-1,1,2,3,4,5,6,7,8],[3,4,5,6,7,8,0,1,2],[6,7,8,0,1,2,3,4,5],[1,2,3,4,5,6,7,8,0],
      [4,5,6,7,8,0,1,2,3],[7,8,0,1,2,3,4,5,6],[2,3,4,5,6,7,8,0,1],[5,6,7,8,0,1,2,3,4],[8,0,1,2,3,4,5,6,7]]
    Feasible b ∧ legal b 0 0 0 ∧ Full (step ⟨b, maskOf b⟩ 0 0 0).1.board := by decide +kernel

example : Feasible sampleBoard := by decide +kernel
end Props.C06

namespace Props.C09
/-- Sudoku placement: the successor board is the board with the digit written into the cell, and
the successor mask is the table of legal moves of that board -/
theorem sudoku_step_state (s : State) (hs : Grid.shaped s.board 9 9 = true) (r c d : Nat) (hr : r < 9)
    (hc : c < 9) :
    (step s r c d).1 = { board := place s.board r c d, mask := legalTable (place s.board r c d) } :=
  Sudoku.step_state s hs r c d hr hc

/-- the episode ends exactly on an illegal move or when no legal move is left on the new board -/
theorem sudoku_step_last_iff (s : State) (hs : Grid.shaped s.board 9 9 = true) (hcache : CachedOK s)
    (r c d : Nat) (hr : r < 9) (hc : c < 9) (hd : d < 9) :
    (step s r c d).2.stepType = .last ↔
      (¬ legal s.board r c d ∨ ¬ ∃ r' c' d', legal (place s.board r c d) r' c' d') :=
  Sudoku.step_last_iff s hs hcache r c d hr hc hd

/-- the reward is `1` exactly when the transliterated `is_puzzle_solved` (sort == arange on rows,
columns, boxes) accepts the new board … -/
theorem sudoku_step_reward (s : State) (r c d : Int) :
    (step s r c d).2.reward = [if isSolved (step s r c d).1.board then 1 else 0] :=
  Sudoku.step_reward s r c d

/-- … and it accepts exactly the complete feasible solutions (9x9, digits 0..8, no empty cell, no
digit twice in a row, column or box): the sparse reward is 1 iff the new board solves the puzzle -/
theorem sudoku_solved_iff_solution (b : Grid Int) (hs : Grid.shaped b 9 9 = true) :
    isSolved b = true ↔ IsSolution b := Sudoku.isSolved_iff_solution b hs
end Props.C09

namespace Props.C10
/-- a state built the way the generators build it (any 9x9 board, mask = `get_action_mask(board)`)
carries a correctly cached mask, so the hypotheses `CachedOK` of the C04/C05/C09/C11 theorems hold from
reset on; the remaining advertised invariant (conflict-free puzzle, `Feasible`) is evaluated by the
driver on the generated boards and proved for all 11 000 shipped boards below (`sudoku_db_all_ok`) -/
theorem sudoku_generated_mask (b : Grid Int) (hs : Grid.shaped b 9 9 = true) :
    CachedOK { board := b, mask := maskOf b } := by
  show maskOf b = legalTable b
  exact Sudoku.maskOf_eq_legalTable b hs

/-! The shipped puzzle databases (`data/1000_very_easy_puzzles.npy`, `data/10000_mixed_puzzles.npy`, the table
`data.DATABASES`).  `harness/translators.py: gen_sudoku_db` turns them into the literals of Gen/SudokuDB*.lean (one
`Nat` per board, layout in Env/Sudoku/DBCheck.lean); `Gen.SudokuDB.allBoards` is the list of the boards
`DatabaseGenerator.__call__` can put into a state (`jnp.asarray(board, dtype=jnp.int32) - 1` of every entry).  The
kernel runs the bit-parallel checker `Sudoku.DB.fastOK` on every entry (`decide +kernel`, one run per chunk of 250 boards,
in the generated files); `Sudoku.DB.fastOK_sound` (proved for every code, Env/Sudoku/DBLemmas.lean) turns each run into
the certificates below.  No hypotheses: these are statements about the shipped data. -/

/-- every board of every shipped database carries the board certificates of the `sudoku.instance` op (`boardOK` = the
same four expressions: `shape_9x9`, `digits_in_range`, `conflict_free`, `has_empty_cell`) -/
theorem sudoku_db_all_ok : ∀ b ∈ Gen.SudokuDB.allBoards, boardOK b = true :=
  Sudoku.DB.all_ok_of_chunks _ Gen.SudokuDB.chunks_ok

/-- the same with the L2 predicates: every shipped puzzle is feasible (9x9, cells in −1..8, no digit twice in a row,
column or box — the hypothesis of C06 / C01 at reset) and has an empty cell (the episode does not start finished) -/
theorem sudoku_db_feasible : ∀ b ∈ Gen.SudokuDB.allBoards, Feasible b ∧ emptyCells b > 0 :=
  fun b hb => (Sudoku.DB.boardOK_iff b).1 (sudoku_db_all_ok b hb)

/-- the state `DatabaseGenerator` builds from any entry (`State(board, get_action_mask(board))`) carries all five
certificates of the `sudoku.instance` op (the fifth, `mask_is_legal_table`, by `sudoku_generated_mask`) -/
theorem sudoku_db_states_ok : ∀ b ∈ Gen.SudokuDB.allBoards,
    instanceOK { board := b, mask := maskOf b } = true := by
  intro b hb
  have h := sudoku_db_all_ok b hb
  have hs : Grid.shaped b 9 9 = true := ((Sudoku.DB.boardOK_iff b).1 h).1.1
  unfold instanceOK
  rw [Bool.and_eq_true, decide_eq_true_eq]
  exact ⟨h, sudoku_generated_mask b hs⟩

/-- `allBoards` is all of both databases: the chunks are those listed per database, and the sizes are the documented
ones (1000 very-easy puzzles, 10000 mixed puzzles; 11000 boards) -/
theorem sudoku_db_complete :
    Gen.SudokuDB.chunks = Gen.SudokuDB.databases.flatMap (fun d => d.2.2.2) ∧
    Gen.SudokuDB.databases.map (fun d => (d.1, d.2.1, d.2.2.1, d.2.2.2.flatten.length)) =
      [("very-easy", "1000_very_easy_puzzles.npy", 1000, 1000), ("mixed", "10000_mixed_puzzles.npy", 10000, 10000)] ∧
    Gen.SudokuDB.allBoards.length = 11000 := by
  refine ⟨rfl, by decide +kernel, ?_⟩
  rw [Gen.SudokuDB.allBoards, List.length_map]
  decide +kernel

/-- the board of `DummyGenerator` (`constants.INITIAL_BOARD_SAMPLE`, translated with the databases) is the
`sampleBoard` of the examples, and it carries the same certificates -/
theorem sudoku_toy_ok : Sudoku.DB.decodeBoard Gen.SudokuDB.toy = sampleBoard ∧ boardOK sampleBoard = true := by
  have h : Sudoku.DB.decodeBoard Gen.SudokuDB.toy = sampleBoard := by decide +kernel
  exact ⟨h, h ▸ Sudoku.DB.fastOK_sound _ Gen.SudokuDB.toy_ok⟩

/-- the checker is not vacuous: it rejects a board with a digit twice in a row / column / box, a value 10, and a full
board (first row of the first very-easy puzzle `4 9 6 _ 3 5 8 7 1` with the 4 repeated, etc.) -/
example : Sudoku.DB.fastOK 0x040906040305080701_000000000000000000_000000000000000000_000000000000000000_000000000000000000_000000000000000000_000000000000000000_000000000000000000_000000000000000000 = false ∧
    Sudoku.DB.fastOK 0x040000000000000000_000000000000000000_000000000000000000_000000000000000000_000000000000000000_000000000000000000_040000000000000000_000000000000000000_000000000000000000 = false ∧
    Sudoku.DB.fastOK 0x040000000000000000_000000000000000000_000004000000000000_000000000000000000_000000000000000000_000000000000000000_000000000000000000_000000000000000000_000000000000000000 = false ∧
    Sudoku.DB.fastOK 0x0a0000000000000000_000000000000000000_000000000000000000_000000000000000000_000000000000000000_000000000000000000_000000000000000000_000000000000000000_000000000000000000 = false ∧
    Sudoku.DB.fastOK 0x010203040506070809_040506070809010203_070809010203040506_020304050607080901_050607080901020304_080901020304050607_030405060708090102_060708090102030405_090102030405060708 = false ∧
    Sudoku.DB.fastOK 0x000203040506070809_040506070809010203_070809010203040506_020304050607080901_050607080901020304_080901020304050607_030405060708090102_060708090102030405_090102030405060708 = true := by
  decide +kernel
end Props.C10

namespace Props.C06
/-- C06 ALONG A PLAY (audit r6 #10), from any feasible start state: if each of the first `k` actions is legal on the board it is
played on, the board after them is feasible (induction with `sudoku_step_feasible`) -/
theorem sudoku_feasible_along_from (s : State) (hf : Feasible s.board) (as : List Action) (k : Nat)
    (hk : k ≤ as.length)
    (hleg : ∀ j (hj : j < as.length), j < k →
      legal (EpRun.after stepA s (as.take j)).board as[j].1 as[j].2.1 as[j].2.2) :
    Feasible (EpRun.after stepA s (as.take k)).board := by
  induction k with
  | zero => simpa [EpRun.after] using hf
  | succ k ih =>
    have hk' : k < as.length := by omega
    have ihk := ih (by omega) (fun j hj hjk => hleg j hj (by omega))
    have hl := hleg k hk' (by omega)
    rw [Sudoku.after_take_succ stepA _ as k hk']
    exact Props.C06.sudoku_step_feasible _ ihk _ _ _ hl

/-- … composed with `reset` and the generator: from the reset state of EVERY board of the shipped databases (base case
`Props.C10.sudoku_db_feasible`), mask-respecting (= legal, `Props.C04.sudoku_mask_iff_legal`) play never leaves the feasible boards -/
theorem sudoku_feasible_along (b : Grid Int) (hb : b ∈ Gen.SudokuDB.allBoards) (as : List Action) (k : Nat)
    (hk : k ≤ as.length)
    (hleg : ∀ j (hj : j < as.length), j < k →
      legal (EpRun.after stepA (Sudoku.reset b).1 (as.take j)).board as[j].1 as[j].2.1 as[j].2.2) :
    Feasible (EpRun.after stepA (Sudoku.reset b).1 (as.take k)).board :=
  sudoku_feasible_along_from _ (by simpa [Sudoku.reset] using (Props.C10.sudoku_db_feasible b hb).1) as k hk hleg
end Props.C06

namespace Props.C11
/-- every step that does not end the episode fills one empty cell, so an episode lasts at most as
many steps as the puzzle has empty cells -/
theorem sudoku_progress (s : State) (hs : Grid.shaped s.board 9 9 = true) (hcache : CachedOK s)
    (r c d : Nat) (hr : r < 9) (hc : c < 9) (hd : d < 9) (hn : (step s r c d).2.stepType ≠ .last) :
    emptyCells (step s r c d).1.board + 1 = emptyCells s.board :=
  Sudoku.progress s hs hcache r c d hr hc hd hn

/-! #### episode level (audit r2 #11): `run s as` = the (successor state, timestep) pairs of playing the in-spec actions
`as` from `s` with the L1 `step`; `NoLastBefore … k` = none of the transitions 0..k-1 is LAST. -/

/-- structural horizon: from any state with a 9×9 board and a correctly cached mask (every reset state, C10/C12), if the
first `k` transitions of a play are not LAST then `k ≤ emptyCells` — an episode (`k` non-LAST steps, then one LAST) has at
most `emptyCells + 1` steps, and at most `emptyCells` steps as soon as it has more than one; exactly `k` cells were filled;
`CachedOK` and the shape are carried along -/
theorem sudoku_run_horizon (s : State) (hs : Grid.shaped s.board 9 9 = true) (hcache : CachedOK s) (as : List Action)
    (has : ∀ a ∈ as, InSpec a) (k : Nat) (hk : k ≤ as.length)
    (hno : EpRun.NoLastBefore stepA (·.stepType = .last) s as k) :
    k ≤ emptyCells s.board ∧ (1 ≤ k → k + 1 ≤ emptyCells s.board) ∧
    emptyCells (EpRun.after stepA s (as.take k)).board + k = emptyCells s.board ∧
    Grid.shaped (EpRun.after stepA s (as.take k)).board 9 9 = true ∧ CachedOK (EpRun.after stepA s (as.take k)) :=
  Sudoku.run_horizon s hs hcache as has k hk hno

/-- in the audit's words: an action list all of whose transitions but the final one are not LAST (one episode) has
`as.length ≤ emptyCells s.board + 1` -/
theorem sudoku_episode_length (s : State) (hs : Grid.shaped s.board 9 9 = true) (hcache : CachedOK s)
    (as : List Action) (has : ∀ a ∈ as, InSpec a)
    (hep : EpRun.NoLastBefore stepA (·.stepType = .last) s as (as.length - 1)) :
    as.length ≤ emptyCells s.board + 1 := by
  have := (Sudoku.run_horizon s hs hcache as has (as.length - 1) (by omega) hep).1
  omega

/-- there is a LAST at or before step `emptyCells + 1` of every longer play -/
theorem sudoku_run_exists_last (s : State) (hs : Grid.shaped s.board 9 9 = true) (hcache : CachedOK s)
    (as : List Action) (has : ∀ a ∈ as, InSpec a) (hlen : emptyCells s.board + 1 ≤ as.length) :
    ∃ (k : Nat) (p : State × TimeStep Obs), k ≤ emptyCells s.board ∧ (run s as)[k]? = some p ∧
      p.2.stepType = .last := Sudoku.run_exists_last s hs hcache as has hlen

-- sample puzzle: two legal moves are MID, the third (digit 7 into row 0, which has a 7) is LAST
example : ((run ⟨sampleBoard, maskOf sampleBoard⟩ [(0, 0, 1), (0, 1, 2), (0, 2, 7)]).map
    (fun p => decide (p.2.stepType = .last))) = [false, false, true] := by decide +kernel
end Props.C11

namespace Props.C12
/-- the observation shows the successor board and the table of its legal moves -/
theorem sudoku_obs_faithful (s : State) (hs : Grid.shaped s.board 9 9 = true) (r c d : Nat) (hr : r < 9)
    (hc : c < 9) : (step s r c d).2.obs = observe (step s r c d).1 := Sudoku.obs_faithful s hs r c d hr hc

/-- for any action whatsoever the observation fields are copies of the successor state's fields -/
theorem sudoku_obs_copied (s : State) (r c d : Int) :
    (step s r c d).2.obs = { board := (step s r c d).1.board, mask := (step s r c d).1.mask } :=
  Sudoku.obs_copied s r c d

/-- the observation returned by `reset` (any 9×9 generator board `b`, `get_action_mask(b)`, `restart`) shows the board
and the table of its legal moves; the timestep is FIRST and the cached mask is correct (`CachedOK`, the hypothesis of
the step theorems) -/
theorem sudoku_reset_obs_faithful (b : Grid Int) (hs : Grid.shaped b 9 9 = true) :
    (Sudoku.reset b).2.obs = observe (Sudoku.reset b).1 ∧ (Sudoku.reset b).2.stepType = .first ∧
      CachedOK (Sudoku.reset b).1 := Sudoku.reset_obs_faithful b hs

example : Grid.shaped sampleBoard 9 9 = true := by decide
end Props.C12

namespace Props.C01
open PzB
/-- the observation returned by `reset` on a generated board whose cells are −1 or digits 0..8 (`CellsInRange`; it follows
from `Feasible`, see below): `board` ∈ [-1, 8] — tighter than the declared [-1, 9] — and `action_mask` ∈ [0,1] -/
theorem sudoku_reset_obs_in_bounds (b : Grid Int) (h : CellsInRange b) :
    ObsInBounds obsBounds (obsLeaves (Sudoku.reset b).2.obs) := Sudoku.reset_obs_in_bounds b h

/-- the same for `step` with any cell indices and any digit of the action space (0..8), legal or not, terminal step
included -/
theorem sudoku_step_obs_in_bounds (s : State) (r c d : Int) (h : CellsInRange s.board) (hd : -1 ≤ d ∧ d ≤ 8) :
    ObsInBounds obsBounds (obsLeaves (step s r c d).2.obs) := Sudoku.step_obs_in_bounds s r c d h hd

/-- `CellsInRange` is implied by the hard constraint `Feasible` of C06 and preserved by every in-spec step -/
theorem sudoku_cellsInRange_invariant :
    (∀ b, Feasible b → CellsInRange b) ∧
    (∀ (s : State) (r c d : Int), CellsInRange s.board → (-1 ≤ d ∧ d ≤ 8) → CellsInRange (step s r c d).1.board) :=
  ⟨Sudoku.cellsInRange_of_feasible, Sudoku.step_cellsInRange⟩

/-- shapes (audit r2 #15): the reset observation of a 9×9 board has `board` 9×9 and `action_mask` 9×9×9 -/
theorem sudoku_reset_obs_shaped (b : Grid Int) (hs : Grid.shaped b 9 9 = true) :
    ObsShaped (Sudoku.reset b).2.obs := Sudoku.reset_obs_shaped b hs

/-- … and so has the observation of every step from a 9×9 board, for ANY integer action (legal or not, in range or
not); the successor board is 9×9 again, so this holds along every trajectory -/
theorem sudoku_step_obs_shaped (s : State) (hs : Grid.shaped s.board 9 9 = true) (r c d : Int) :
    ObsShaped (step s r c d).2.obs ∧ Grid.shaped (step s r c d).1.board 9 9 = true :=
  ⟨Sudoku.step_obs_shaped s hs r c d, Grid.l_shaped_setWD hs d r c⟩

/-- values and shapes together -/
theorem sudoku_step_obs_conforms (s : State) (r c d : Int) (hs : Grid.shaped s.board 9 9 = true)
    (h : CellsInRange s.board) (hd : -1 ≤ d ∧ d ≤ 8) :
    ObsInBounds obsBounds (obsLeaves (step s r c d).2.obs) ∧ ObsShaped (step s r c d).2.obs :=
  ⟨Sudoku.step_obs_in_bounds s r c d h hd, Sudoku.step_obs_shaped s hs r c d⟩

/-- the proved intervals and shapes of `board` AND `action_mask` lie inside the DECLARED spec literals generated from the real
`observation_spec` (`Gen/Specs.lean`, configuration `sudoku-default`: `BoundedArray((9,9), int32, -1, 9)` and
`BoundedArray((9,9,9), bool, False, True)` — the 729-entry `action_mask` leaf is part of the generated table since leaves are
cut by the size of their BOUNDS, not of the leaf), and likewise for the fixed-board configuration `sudoku-dummy` -/
theorem sudoku_bounds_within_declared_spec :
    SpecTieSSM.tie "sudoku-default" obsBounds obsShapes = true ∧
    (SpecTieSSM.obsLeavesOf "sudoku-default").map (·.1) = ["board", "action_mask"] ∧
    SpecTieSSM.tie "sudoku-dummy" obsBounds obsShapes = true ∧
    (SpecTieSSM.obsLeavesOf "sudoku-dummy").map (·.1) = ["board", "action_mask"] := by decide +kernel
example : SpecTieSSM.tie "sudoku-default" [("board", iv (-2) 8), ("action_mask", iv 0 1)] obsShapes = false ∧
    SpecTieSSM.tie "sudoku-default" obsBounds [("board", [9, 8])] = false ∧
    SpecTieSSM.tie "sudoku-default" obsBounds [("board", [9, 9]), ("action_mask", [9, 9, 8])] = false := by decide +kernel
/-! NOTE on what the membership theorems of this section do and do not cover (audits r4 #6, r5 #6, r6 #8): the dtype tag of every leaf
is written by `toNValue` (by construction) — a wrong dtype in the real code cannot falsify `….valid (toNValue …) = true`; dtypes and
field order of the real observations are compared by the `sudoku.spec` / `sudoku.state` ops (`nvalue`: field order, shape, dtype, data) and
`jax.eval_shape` in the sweeps.  Shapes are READ OFF the value by `toNValue` (widths off the first row): see `…_obs_valid_only`. -/

/-! #### (wave 4) membership in the DECLARED specs: structure, field order, shapes, dtypes and inclusive bounds -/
open Sp PzS PkS

/-- the model's `obsSpec` / `actionSpec` / reward and discount specs ARE the specs generated from the real spec objects
(Gen/Specs.lean) for ALL THREE catalogue configurations of Sudoku (database, caller-held database, `DummyGenerator`) and the
SPEC-ONLY `Sudoku(DummyGenerator())` (audit r6 #7).  The generated table holds every leaf whose BOUNDS are small, so the conjuncts
are about the WHOLE `obsSpec`: `board` and the 729-entry `action_mask` leaf — name, shape (9, 9, 9), dtype bool, bounds — (they
used to be `obsSpec.take 1`; the driver op `sudoku.spec` still compares both leaves at run time for every adapter configuration).
Sudoku's specs have no size parameter, so there is nothing a second configuration could exchange -/
theorem sudoku_obsSpec_generated :
    prefixed "observation_spec." (Sudoku.obsSpec) = declared "sudoku-default" "observation_spec." ∧
    [("action_spec", Sudoku.actionSpec)] = declared "sudoku-default" "action_spec" ∧
    [("reward_spec", rewardSpec)] = declared "sudoku-default" "reward_spec" ∧
    [("discount_spec", discountSpec)] = declared "sudoku-default" "discount_spec" ∧
    prefixed "observation_spec." (Sudoku.obsSpec) = declared "sudoku-shared-db" "observation_spec." ∧
    [("action_spec", Sudoku.actionSpec)] = declared "sudoku-shared-db" "action_spec" ∧
    [("reward_spec", rewardSpec)] = declared "sudoku-shared-db" "reward_spec" ∧
    [("discount_spec", discountSpec)] = declared "sudoku-shared-db" "discount_spec" ∧
    Sudoku.obsSpec.map (·.1) = ["board", "action_mask"] ∧
    prefixed "observation_spec." (Sudoku.obsSpec) = declared "sudoku-dummy" "observation_spec." ∧
    [("action_spec", Sudoku.actionSpec)] = declared "sudoku-dummy" "action_spec" ∧
    [("reward_spec", rewardSpec)] = declared "sudoku-dummy" "reward_spec" ∧
    [("discount_spec", discountSpec)] = declared "sudoku-dummy" "discount_spec" ∧
    prefixed "observation_spec." (Sudoku.obsSpec) = declared "spec-only-sudoku-dummy" "observation_spec." ∧
    [("action_spec", Sudoku.actionSpec)] = declared "spec-only-sudoku-dummy" "action_spec" ∧
    [("reward_spec", rewardSpec)] = declared "spec-only-sudoku-dummy" "reward_spec" ∧
    [("discount_spec", discountSpec)] = declared "spec-only-sudoku-dummy" "discount_spec" := by
  refine ⟨by decide +kernel, by decide +kernel, by decide +kernel, by decide +kernel, by decide +kernel, by decide +kernel,
    by decide +kernel, by decide +kernel, by decide +kernel, by decide +kernel, by decide +kernel, by decide +kernel,
    by decide +kernel, by decide +kernel, by decide +kernel, by decide +kernel, by decide +kernel⟩

/-- the `reset` observation on top of ANY 9×9 board whose cells are −1 or digits 0..8 is accepted by
`observation_spec.validate`: fields `board`, `action_mask`; shapes `(9, 9)`, `(9, 9, 9)`; dtypes int32, bool; bounds `[-1, 9]`,
`[0, 1]` -/
theorem sudoku_reset_obs_valid (b : Grid Int) (hs : Grid.shaped b 9 9 = true) (hc : CellsInRange b) :
    Sudoku.obsSpec.valid (toNValue (Sudoku.reset b).2.obs) = true := Sudoku.reset_obs_valid b hs hc

/-- … in particular on top of every feasible board (the generator certificate evaluated by `sudoku.instance`), where the reset
state also satisfies the invariant `SpecInv` -/
theorem sudoku_reset_obs_valid_of_feasible (b : Grid Int) (hf : Feasible b) :
    Sudoku.obsSpec.valid (toNValue (Sudoku.reset b).2.obs) = true ∧ SpecInv (Sudoku.reset b).1 :=
  Sudoku.reset_obs_valid_of_feasible b hf

/-- EVERY draw of `DatabaseGenerator` over the shipped databases (all 11 000 boards; the draw is the index) and the board of
`DummyGenerator`: the reset observation is a member of the spec and the reset state satisfies the invariant.  No hypotheses -/
theorem sudoku_db_reset_obs_valid :
    (∀ b ∈ Gen.SudokuDB.allBoards, Sudoku.obsSpec.valid (toNValue (Sudoku.reset b).2.obs) = true ∧
      SpecInv (Sudoku.reset b).1) ∧
    (Sudoku.obsSpec.valid (toNValue (Sudoku.reset sampleBoard).2.obs) = true ∧ SpecInv (Sudoku.reset sampleBoard).1) :=
  ⟨fun b hb => Sudoku.reset_obs_valid_of_feasible b (Props.C10.sudoku_db_feasible b hb).1,
   Sudoku.reset_obs_valid_of_feasible _ ((Sudoku.DB.boardOK_iff _).1 Props.C10.sudoku_toy_ok.2).1⟩

/-- the invariant `SpecInv` (a 9×9 board with cells in −1..8) holds after `reset` of such a board and is preserved by EVERY
step whose digit is in the action space (row and column may be ANY integers) — the cell may be filled already, the move may
be illegal, the step may be terminal -/
theorem sudoku_specInv_invariant :
    (∀ b : Grid Int, Grid.shaped b 9 9 = true → CellsInRange b → SpecInv (Sudoku.reset b).1) ∧
    (∀ (s : State) (r c d : Int), SpecInv s → (0 ≤ d ∧ d ≤ 8) → SpecInv (step s r c d).1) :=
  ⟨Sudoku.reset_specInv, fun s r c d h hd => Sudoku.step_specInv s h r c d hd⟩

/-- the observation of EVERY such step from a state satisfying the invariant is a member of the spec (terminal step
included; the CACHED mask of the state plays no role: the emitted mask is recomputed from the new board) -/
theorem sudoku_step_obs_valid (s : State) (h : SpecInv s) (r c d : Int) (hd : 0 ≤ d ∧ d ≤ 8) :
    Sudoku.obsSpec.valid (toNValue (step s r c d).2.obs) = true := Sudoku.step_obs_valid s h r c d hd

example : SpecInv (Sudoku.reset sampleBoard).1 := by decide

/-- WHOLE EPISODES (and beyond): along the rollout (`Ep.rollout` = the L1 step iterated, no stop at LAST) of ANY in-spec
actions from the reset of ANY board of the shipped databases, EVERY emitted observation is a member of the spec and every
state satisfies the invariant -/
theorem sudoku_obs_valid_along (b : Grid Int) (hb : b ∈ Gen.SudokuDB.allBoards) (as : List Action)
    (has : ∀ a ∈ as, InSpec a) (j : Nat) (e : State × TimeStep Obs)
    (he : (Ep.rollout stepA (Sudoku.reset b).1 as)[j]? = some e) :
    Sudoku.obsSpec.valid (toNValue e.2.obs) = true ∧ SpecInv e.1 :=
  Sudoku.rollout_obs_valid _ (sudoku_db_reset_obs_valid.1 b hb).2 as has j e he

/-- the same from any state satisfying the invariant -/
theorem sudoku_rollout_obs_valid (s : State) (h : SpecInv s) (as : List Action) (has : ∀ a ∈ as, InSpec a)
    (j : Nat) (e : State × TimeStep Obs) (he : (Ep.rollout stepA s as)[j]? = some e) :
    Sudoku.obsSpec.valid (toNValue e.2.obs) = true ∧ SpecInv e.1 := Sudoku.rollout_obs_valid s h as has j e he

/-- what membership means (so the theorems above are not hollow): `validate` accepts an observation ONLY IF `board` is 9×9
(81 cells) with every cell in `[-1, 9]` and the mask is 9×9×9 (729 entries).  The declared maximum 9 (`BOARD_WIDTH`) is looser
than what the environment emits (`CellsInRange`: −1..8, `sudoku_step_obs_in_bounds`)  CAVEAT (audits r4 #7, r5 #5, r6 #5): for every field that is a nested list, `toNValue` reads the widths off the FIRST row of the
nested list, so the shape conjuncts here mean "row count, length of the first row, total number of cells" — a ragged value with the right total can be a
member, and nothing is concluded about the later rows.  Rectangularity is part of the invariant (`SpecInv` / `Shaped` / `Rect…`) under which the
forward theorems (`…_reset_obs_valid`, `…_step_obs_valid`, `…_along`) are proved, i.e. it holds of every EMITTED observation. -/
theorem sudoku_obs_valid_only (o : Obs) (h : Sudoku.obsSpec.valid (toNValue o) = true) :
    shape2 o.board = [9, 9] ∧ (List.flatten o.board).length = 81 ∧ (∀ v ∈ List.flatten o.board, -1 ≤ v ∧ v ≤ 9) ∧
    shape3 o.mask = [9, 9, 9] ∧ (List.flatten (List.flatten o.mask)).length = 729 := Sudoku.obs_valid_only o h

/-- positive and negative instances: the reset observation of the sample board; a cell set to 9 is still accepted by the
(looser) declared bound, a cell set to 10 or −2 is not; a board with a row missing is not -/
example :
    Sudoku.obsSpec.valid (toNValue (Sudoku.reset sampleBoard).2.obs) = true ∧
    Sudoku.obsSpec.valid (toNValue { (Sudoku.reset sampleBoard).2.obs with board := Grid.set sampleBoard 0 0 9 }) = true ∧
    Sudoku.obsSpec.valid (toNValue { (Sudoku.reset sampleBoard).2.obs with board := Grid.set sampleBoard 0 0 10 }) = false ∧
    Sudoku.obsSpec.valid (toNValue { (Sudoku.reset sampleBoard).2.obs with board := Grid.set sampleBoard 3 4 (-2) }) = false ∧
    Sudoku.obsSpec.valid (toNValue { (Sudoku.reset sampleBoard).2.obs with board := sampleBoard.tail }) = false := by
  decide +kernel

/-- reward and discount of every `step` (ALL states, ALL integer actions) and of `reset` are accepted by `reward_spec`
(Array((), float)) and `discount_spec` (BoundedArray((), float, 0, 1)) -/
theorem sudoku_reward_discount_valid (s : State) (b : Grid Int) (r c d : Int) :
    rewardSpec.valid (scalarArr (step s r c d).2.reward) = true ∧
    discountSpec.valid (scalarArr (step s r c d).2.discount) = true ∧
    rewardSpec.valid (scalarArr (Sudoku.reset b).2.reward) = true ∧
    discountSpec.valid (scalarArr (Sudoku.reset b).2.discount) = true :=
  ⟨(Sudoku.step_reward_discount_valid s r c d).1, (Sudoku.step_reward_discount_valid s r c d).2,
   (Sudoku.reset_reward_discount_valid b).1, (Sudoku.reset_reward_discount_valid b).2⟩

/-- `action_spec.generate_value()` = (0, 0, 0): the action spec is well-formed, the generated value is a member, `step`
answers it in EVERY state with a protocol-conform timestep and — from a state satisfying the invariant — with an observation
in the spec; membership in `action_spec` is "row, column, digit < 9" -/
theorem sudoku_accepts_generate_value (s : State) :
    Sudoku.actionSpec.WF = true ∧ Sudoku.actionSpec.valid Sudoku.actionSpec.generate = true ∧
    Sudoku.actionSpec.generate = actionArr 0 0 0 ∧ StepOK none false (step s 0 0 0).2 = true ∧
    (SpecInv s → Sudoku.obsSpec.valid (toNValue (step s 0 0 0).2.obs) = true) := Sudoku.accepts_generate_value s

theorem sudoku_action_spec_iff (r c d : Nat) :
    Sudoku.actionSpec.valid (actionArr (r : Int) (c : Int) (d : Int)) = true ↔ InSpec (r, c, d) :=
  Sudoku.actionSpec_valid_iff r c d
end Props.C01
