/-
Property theorems for Sudoku (helper lemmas and proofs: Env/Sudoku/Lemmas.lean).
`Grid.shaped b 9 9` says the board is a 9x9 array (any integer contents); `CachedOK s` says the mask
cached in the state is the table of legal moves of its board — established by `sudoku_cached_mask`
for every state produced by `step`, and checked on every generated instance (C10).
-/
import JumanjiModel.Env.Sudoku.Lemmas
import JumanjiModel.Env.Sudoku.Bounds
open Jm Jx Sudoku

namespace Props.C04
/-- the transliterated `get_action_mask` (empty-cell mask, one-hot row / column / box masks, gather
and scatter through `BOX_IDX`) marks exactly the legal moves: cell empty, digit absent from the
cell's row, column and 3x3 box — for every 9x9 board -/
theorem sudoku_mask_iff_legal (b : Grid Int) (hs : Grid.shaped b 9 9 = true) (r c d : Nat) (hr : r < 9)
    (hc : c < 9) (hd : d < 9) :
    (((maskOf b).getD r []).getD c []).getD d false = true ↔ legal b r c d :=
  Sudoku.mask_entry_iff_legal b hs r c d hr hc hd

/-- as arrays: mask = table of legal moves -/
theorem sudoku_mask_eq_legalTable (b : Grid Int) (hs : Grid.shaped b 9 9 = true) : maskOf b = legalTable b :=
  Sudoku.maskOf_eq_legalTable b hs

/-- the mask cached in the successor state is the table of legal moves of the successor board -/
theorem sudoku_cached_mask (s : State) (hs : Grid.shaped s.board 9 9 = true) (r c d : Nat) (hr : r < 9)
    (hc : c < 9) : CachedOK (step s r c d).1 := Sudoku.step_cached s hs r c d hr hc

/-- `step` (which reads the cached mask) treats an action as invalid iff the rules forbid it -/
theorem sudoku_step_agrees (s : State) (hcache : CachedOK s) (r c d : Nat) (hr : r < 9) (hc : c < 9)
    (hd : d < 9) : (!(maskAt s.mask r c d)) = true ↔ ¬ legal s.board r c d :=
  Sudoku.invalid_iff s hcache r c d hr hc hd

example : legal sampleBoard 0 0 1 ∧ ¬ legal sampleBoard 0 0 7 ∧ ¬ legal sampleBoard 0 3 1 := by decide +kernel
example : CachedOK ⟨sampleBoard, maskOf sampleBoard⟩ := by decide +kernel
end Props.C04

namespace Props.C05
/-- an illegal move ends the episode (the documents promise nothing about the board: the digit is
written anyway) -/
theorem sudoku_illegal_terminates (s : State) (hs : Grid.shaped s.board 9 9 = true) (hcache : CachedOK s)
    (r c d : Nat) (hr : r < 9) (hc : c < 9) (hd : d < 9) (h : ¬ legal s.board r c d) :
    (step s r c d).2.stepType = .last := Sudoku.illegal_last s hs hcache r c d hr hc hd h

/-- … and, while the episode is still running (some legal move exists), it carries reward 0: an
illegal move never completes the puzzle -/
theorem sudoku_illegal_reward_zero (s : State) (hs : Grid.shaped s.board 9 9 = true) (r c d : Nat)
    (hr : r < 9) (hc : c < 9) (hd : d < 9) (h : ¬ legal s.board r c d)
    (hmove : ∃ r0 c0 d0, legal s.board r0 c0 d0) : (step s r c d).2.reward = [0] :=
  Sudoku.illegal_reward s hs r c d hr hc hd h hmove
end Props.C05

namespace Props.C06
/-- a legal move keeps the board feasible: 9x9, entries in −1..8, no digit twice in a row, column or
box (`place` is the successor board of `step`, see `Props.C09.sudoku_step_state`) -/
theorem sudoku_place_feasible (b : Grid Int) (hf : Feasible b) (r c d : Nat) (hl : legal b r c d) :
    Feasible (place b r c d) := Sudoku.step_feasible b hf r c d hl

/-- the same about the step function itself -/
theorem sudoku_step_feasible (s : State) (hf : Feasible s.board) (r c d : Nat) (hl : legal s.board r c d) :
    Feasible (step s r c d).1.board := by
  rw [Sudoku.step_state s hf.1 r c d hl.1 hl.2.1]
  exact Sudoku.step_feasible s.board hf r c d hl

/-- an episode that ends with a full board (completion) holds a complete feasible solution -/
theorem sudoku_complete_is_solution (b : Grid Int) (hf : Feasible b) (hfull : Full b) : IsSolution b :=
  ⟨hf, hfull⟩

example : Feasible sampleBoard := by decide +kernel
end Props.C06

namespace Props.C09
/-- Sudoku placement: the successor board is the board with the digit written into the cell, and
the successor mask is the table of legal moves of that board -/
theorem sudoku_step_state (s : State) (hs : Grid.shaped s.board 9 9 = true) (r c d : Nat) (hr : r < 9)
    (hc : c < 9) :
    (step s r c d).1 = { board := place s.board r c d, mask := legalTable (place s.board r c d) } :=
  Sudoku.step_state s hs r c d hr hc

/-- the episode ends exactly on an illegal move or when no legal move is left on the new board -/
theorem sudoku_step_last_iff (s : State) (hs : Grid.shaped s.board 9 9 = true) (hcache : CachedOK s)
    (r c d : Nat) (hr : r < 9) (hc : c < 9) (hd : d < 9) :
    (step s r c d).2.stepType = .last ↔
      (¬ legal s.board r c d ∨ ¬ ∃ r' c' d', legal (place s.board r c d) r' c' d') :=
  Sudoku.step_last_iff s hs hcache r c d hr hc hd

/-- the reward is `1` exactly when the transliterated `is_puzzle_solved` (sort == arange on rows,
columns, boxes) accepts the new board … -/
theorem sudoku_step_reward (s : State) (r c d : Int) :
    (step s r c d).2.reward = [if isSolved (step s r c d).1.board then 1 else 0] :=
  Sudoku.step_reward s r c d

/-- … and it accepts exactly the complete feasible solutions (9x9, digits 0..8, no empty cell, no
digit twice in a row, column or box): the sparse reward is 1 iff the new board solves the puzzle -/
theorem sudoku_solved_iff_solution (b : Grid Int) (hs : Grid.shaped b 9 9 = true) :
    isSolved b = true ↔ IsSolution b := Sudoku.isSolved_iff_solution b hs
end Props.C09

namespace Props.C10
/-- a state built the way the generators build it (any 9x9 board, mask = `get_action_mask(board)`)
carries a correctly cached mask, so the hypotheses `CachedOK` of the C04/C05/C09/C11 theorems hold from
reset on; the remaining advertised invariant (conflict-free puzzle, `Feasible`) is evaluated by the
driver on the generated boards (all 11 000 shipped boards: tools/sudoku_all_boards.py) -/
theorem sudoku_generated_mask (b : Grid Int) (hs : Grid.shaped b 9 9 = true) :
    CachedOK { board := b, mask := maskOf b } := by
  show maskOf b = legalTable b
  exact Sudoku.maskOf_eq_legalTable b hs
end Props.C10

namespace Props.C11
/-- every step that does not end the episode fills one empty cell, so an episode lasts at most as
many steps as the puzzle has empty cells -/
theorem sudoku_progress (s : State) (hs : Grid.shaped s.board 9 9 = true) (hcache : CachedOK s)
    (r c d : Nat) (hr : r < 9) (hc : c < 9) (hd : d < 9) (hn : (step s r c d).2.stepType ≠ .last) :
    emptyCells (step s r c d).1.board + 1 = emptyCells s.board :=
  Sudoku.progress s hs hcache r c d hr hc hd hn
end Props.C11

namespace Props.C12
/-- the observation shows the successor board and the table of its legal moves -/
theorem sudoku_obs_faithful (s : State) (hs : Grid.shaped s.board 9 9 = true) (r c d : Nat) (hr : r < 9)
    (hc : c < 9) : (step s r c d).2.obs = observe (step s r c d).1 := Sudoku.obs_faithful s hs r c d hr hc

/-- for any action whatsoever the observation fields are copies of the successor state's fields -/
theorem sudoku_obs_copied (s : State) (r c d : Int) :
    (step s r c d).2.obs = { board := (step s r c d).1.board, mask := (step s r c d).1.mask } :=
  Sudoku.obs_copied s r c d
end Props.C12

namespace Props.C01
open PzB
/-- the observation returned by `reset` on a generated board whose cells are −1 or digits 0..8 (`CellsInRange`; it follows
from `Feasible`, see below): `board` ∈ [-1, 8] — tighter than the declared [-1, 9] — and `action_mask` ∈ [0,1] -/
theorem sudoku_reset_obs_in_bounds (b : Grid Int) (h : CellsInRange b) :
    ObsInBounds obsBounds (obsLeaves (Sudoku.reset b).2.obs) := Sudoku.reset_obs_in_bounds b h

/-- the same for `step` with any cell indices and any digit of the action space (0..8), legal or not, terminal step
included -/
theorem sudoku_step_obs_in_bounds (s : State) (r c d : Int) (h : CellsInRange s.board) (hd : -1 ≤ d ∧ d ≤ 8) :
    ObsInBounds obsBounds (obsLeaves (step s r c d).2.obs) := Sudoku.step_obs_in_bounds s r c d h hd

/-- `CellsInRange` is implied by the hard constraint `Feasible` of C06 and preserved by every in-spec step -/
theorem sudoku_cellsInRange_invariant :
    (∀ b, Feasible b → CellsInRange b) ∧
    (∀ (s : State) (r c d : Int), CellsInRange s.board → (-1 ≤ d ∧ d ≤ 8) → CellsInRange (step s r c d).1.board) :=
  ⟨Sudoku.cellsInRange_of_feasible, Sudoku.step_cellsInRange⟩
end Props.C01
