/-
Property theorems for Cleaner.  Only statements; the proofs and helper lemmas live in
Env/Cleaner/Lemmas.lean.  Sections are named after the property they belong to.

In-spec joint actions are `action : List Nat` with every component `< 4`; they reach the L1 `step` as
`action.map Int.ofNat`.  The running example is a 2×3 grid with one wall and two agents.
-/
import JumanjiModel.Env.Cleaner.Lemmas
import JumanjiModel.Env.Cleaner.BoundsLemmas
import JumanjiModel.Env.Cleaner.EpisodeLemmas
import JumanjiModel.Env.Cleaner.GenLemmas
import JumanjiModel.Env.Cleaner.SpecLemmas
open Jm Cleaner

namespace Props.CleanerEx
/-- 2 rows × 3 columns (non-square), 2 agents -/
def cfg : Cfg := { numRows := 2, numCols := 3, numAgents := 2, timeLimit := 10, penalty := 1/2 }
/-- `C D W / D C D`, agents at `(0,0)` and `(1,1)`, cached mask as the environment would have computed it -/
def st : State :=
  { grid := [[1, 0, 2], [0, 1, 0]], agents := [(0, 0), (1, 1)],
    actionMask := [[false, true, true, false], [true, true, false, true]], stepCount := 3 }
end Props.CleanerEx

namespace Props.C04
/-- on a well-shaped grid (non-square included) the mask computed by the environment IS the mask of the
rules: every agent, every action -/
theorem cleaner_mask_iff_legal (cfg : Cfg) (g : Jx.Grid Int) (agents : List Pos)
    (h : Jx.Grid.shaped g cfg.numRows cfg.numCols = true) :
    computeMask cfg g agents = legalMask cfg g agents := Cleaner.computeMask_eq h agents

/-- bit `(i, a)` of the computed mask is set exactly when the rules allow agent `i` to play `a` -/
theorem cleaner_mask_bit_iff_legal (cfg : Cfg) (s : State)
    (h : Jx.Grid.shaped s.grid cfg.numRows cfg.numCols = true) (i a : Nat) :
    ((computeMask cfg s.grid s.agents).getD i []).getD a false = true ↔ legal cfg s i a :=
  Cleaner.mask_iff_legal h i a

/-- the environment's own validity test (read from the cached mask) agrees with the rules, agent by agent -/
theorem cleaner_step_agrees (cfg : Cfg) (s : State) (hI : Inv cfg s) (action : List Nat)
    (ha : ∀ a ∈ action, a < 4) :
    isActionValid (action.map Int.ofNat) s.actionMask = legalJoint cfg s action :=
  Cleaner.step_agrees hI action ha

/-- the same about the `step` function itself (wave 3; `cleaner_step_agrees` speaks about the helper `isActionValid`
only): for every in-spec joint action and every agent `i` standing at `loc` and playing `a`, `step` moves agent `i` to
`dest loc a` exactly when the rules allow the move, and leaves it at `loc` (the environment treated the component as
invalid) exactly when they do not -/
theorem cleaner_step_moves_iff_legal (cfg : Cfg) (s : State) (hI : Inv cfg s) (action : List Nat)
    (ha : ∀ a ∈ action, a < 4) (i : Nat) (loc : Pos) (a : Nat) (h1 : s.agents[i]? = some loc)
    (h2 : action[i]? = some a) :
    ((step cfg s (action.map Int.ofNat)).1.agents[i]? = some (dest loc a) ↔ legal cfg s i a) ∧
    ((step cfg s (action.map Int.ofNat)).1.agents[i]? = some loc ↔ ¬ legal cfg s i a) :=
  Cleaner.step_moves_iff_legal hI action ha i loc a h1 h2

/-- … and the episode is ended by `step` for the reason "invalid action" exactly when some component is illegal: on a
consistent state `step` answers LAST iff a component is illegal, or no dirty tile is left, or the limit is reached
(the rules' `endsSpec`) -/
theorem cleaner_last_iff_rules (cfg : Cfg) (s : State) (hC : Consistent cfg s) (action : List Nat)
    (ha : ∀ a ∈ action, a < 4) :
    (step cfg s (action.map Int.ofNat)).2.stepType = .last ↔
      endsSpec cfg s action (step cfg s (action.map Int.ofNat)).1 := by
  rw [Cleaner.step_refines hC action ha]
  unfold stepSpec condLast
  simp only
  split <;> simp_all [termination, transition]

example : Jx.Grid.shaped CleanerEx.st.grid CleanerEx.cfg.numRows CleanerEx.cfg.numCols = true := by decide
example : Inv CleanerEx.cfg CleanerEx.st := by decide +kernel
/-- agent 0 (at `(0,0)`, plays up: illegal) is frozen, agent 1 (at `(1,1)`, plays right: legal) is moved -/
example : (step CleanerEx.cfg CleanerEx.st [0, 1]).1.agents[0]? = some (0, 0) ∧
    (step CleanerEx.cfg CleanerEx.st [0, 1]).1.agents[1]? = some (dest (1, 1) 1) := by decide +kernel
example : legal CleanerEx.cfg CleanerEx.st 1 3 ∧ ¬ legal CleanerEx.cfg CleanerEx.st 0 0 := by decide +kernel
end Props.C04

namespace Props.C12
/-- the observation (grid, locations, step count, mask) is the documented function of the successor state;
in particular the mask shown is the mask of the moves possible now; any action list -/
theorem cleaner_obs_faithful (cfg : Cfg) (s : State) (h : Jx.Grid.shaped s.grid cfg.numRows cfg.numCols = true)
    (a : List Int) : (step cfg s a).2.obs = observe cfg (step cfg s a).1 := Cleaner.obs_faithful h a

/-- the same at `reset` (wave 3): `reset` computes the mask for `zeros((num_agents, 2))`, not for the generated
locations; for a generated state (well-shaped grid, all agents on the origin — `generate` of every maze accepted by the certificate `isRecursiveDivisionMaze`) the FIRST
timestep shows the documented function of the reset state -/
theorem cleaner_reset_obs_faithful (cfg : Cfg) (g : State)
    (hs : Jx.Grid.shaped g.grid cfg.numRows cfg.numCols = true)
    (hag : g.agents = List.replicate cfg.numAgents (0, 0)) :
    (Cleaner.reset cfg g).2.obs = observe cfg (Cleaner.reset cfg g).1 ∧ (Cleaner.reset cfg g).2.stepType = .first :=
  Cleaner.reset_obs_faithful cfg g hs hag

/-- the hypothesis on the agents is needed: with a generated state whose agent is elsewhere the reset mask is the
mask of the origin, not of the agent's cell -/
example : (Cleaner.reset CleanerEx.cfg { CleanerEx.st with agents := [(1, 1), (1, 1)] }).2.obs ≠
    observe CleanerEx.cfg (Cleaner.reset CleanerEx.cfg { CleanerEx.st with agents := [(1, 1), (1, 1)] }).1 := by
  decide +kernel
end Props.C12

namespace Props.C11
/-- every step advances the step counter by one -/
theorem cleaner_step_count (cfg : Cfg) (s : State) (a : List Int) :
    (step cfg s a).1.stepCount = s.stepCount + 1 := Cleaner.step_count cfg s a

/-- the episode ends at the latest when the time limit is reached -/
theorem cleaner_time_limit (cfg : Cfg) (s : State) (a : List Int) (h : s.stepCount + 1 ≥ cfg.timeLimit) :
    (step cfg s a).2.stepType = .last := Cleaner.time_limit cfg s a h

/-- the episode ends exactly when some agent's action is invalid, or no dirty tile is left, or the time limit
is reached — never earlier -/
theorem cleaner_last_iff (cfg : Cfg) (s : State) (a : List Int) :
    (step cfg s a).2.stepType = .last ↔
      ((isActionValid a s.actionMask).all id = false ∨ anyDirty (step cfg s a).1.grid = false ∨
        s.stepCount + 1 ≥ cfg.timeLimit) := Cleaner.step_last_iff cfg s a
end Props.C11

namespace Props.C05
/-- a joint action with an illegal component ends the episode with discount 0; the offending agents keep
their location, the others move -/
theorem cleaner_illegal_terminates (cfg : Cfg) (s : State) (hI : Inv cfg s) (action : List Nat)
    (ha : ∀ a ∈ action, a < 4) (hill : (legalJoint cfg s action).any (fun b => !b) = true) :
    (step cfg s (action.map Int.ofNat)).2.stepType = .last ∧
    (step cfg s (action.map Int.ofNat)).2.discount = [0] ∧
    (step cfg s (action.map Int.ofNat)).1.agents = moveSpec cfg s.grid s.agents action :=
  Cleaner.illegal_terminates hI action ha hill

/-- on a consistent state the decidable C05 predicate checked by the driver holds with exact reward: LAST,
discount 0, agents as the rules say, tiles under agents cleaned, ordinary reward -/
theorem cleaner_illegal_terminates_pred (cfg : Cfg) (s : State) (hC : Consistent cfg s) (action : List Nat)
    (ha : ∀ a ∈ action, a < 4) (hill : (legalJoint cfg s action).any (fun b => !b) = true)
    (tol : Rat) (htol : 0 ≤ tol) :
    illegalTerminates cfg tol s action (step cfg s (action.map Int.ofNat)).1
      (step cfg s (action.map Int.ofNat)).2 = true :=
  Cleaner.illegal_terminates_pred hC action ha hill tol htol

/-- if EVERY component is illegal (in particular: one agent, illegal action) the problem state is untouched:
nobody moves and, the tiles under the agents being clean already, the grid does not change -/
theorem cleaner_illegal_untouched (cfg : Cfg) (s : State) (hC : Consistent cfg s) (action : List Nat)
    (hl : action.length = s.agents.length) (ha : ∀ a ∈ action, a < 4)
    (hill : ∀ b ∈ legalJoint cfg s action, b = false) :
    (step cfg s (action.map Int.ofNat)).1.grid = s.grid ∧ (step cfg s (action.map Int.ofNat)).1.agents = s.agents :=
  Cleaner.illegal_untouched hC action hl ha hill

/-- agent 0 walks up out of the grid while agent 1 moves right: one illegal component -/
example : (legalJoint CleanerEx.cfg CleanerEx.st [0, 1]).any (fun b => !b) = true := by decide +kernel
/-- agent 0 up (out of the grid), agent 1 down (out of the grid): all components illegal -/
example : ∀ b ∈ legalJoint CleanerEx.cfg CleanerEx.st [0, 2], b = false := by decide +kernel
/-- agent 0 right into the wall from `(0,1)` would be illegal too: walls, not only borders -/
example : ¬ legalAt CleanerEx.cfg CleanerEx.st.grid (0, 1) 1 := by decide +kernel
/-- the implementation on `[0, 1]`: agent 0 stays, agent 1 moves right and cleans `(1,2)` -/
example : (step CleanerEx.cfg CleanerEx.st [0, 1]).1.agents = [(0, 0), (1, 2)] ∧
    (step CleanerEx.cfg CleanerEx.st [0, 1]).1.grid = [[1, 0, 2], [0, 1, 1]] := by decide +kernel
end Props.C05

namespace Props.C07
/-- any in-spec joint action, legal or not, leads from a consistent state to a consistent state: agents stay
inside the `numRows × numCols` grid, never on walls, the tiles under them are clean, tile values stay 0/1/2,
the grid keeps its shape and the stored mask is fresh -/
theorem cleaner_step_consistent (cfg : Cfg) (s : State) (hC : Consistent cfg s) (action : List Nat)
    (hl : action.length = s.agents.length) (ha : ∀ a ∈ action, a < 4) :
    Consistent cfg (step cfg s (action.map Int.ofNat)).1 := Cleaner.step_consistent hC action hl ha

/-- walls never change, clean tiles stay clean, the number of agents is constant -/
theorem cleaner_conserved (cfg : Cfg) (s : State) (hC : Consistent cfg s) (action : List Nat)
    (hl : action.length = s.agents.length) (ha : ∀ a ∈ action, a < 4) :
    conserved s (step cfg s (action.map Int.ofNat)).1 = true := Cleaner.conserved_step hC action hl ha

/-- clean tiles stay clean for ANY state and ANY action list (no hypotheses) -/
theorem cleaner_clean_stays_clean (cfg : Cfg) (s : State) (a : List Int) :
    Jx.Grid.all id (Jx.Grid.zipWith (fun v v' => v != CLEAN || v' == CLEAN) s.grid (step cfg s a).1.grid) = true :=
  Cleaner.clean_stays_clean cfg s a

example : Consistent CleanerEx.cfg CleanerEx.st := by decide +kernel

/-- whole runs (wave 3): between the first and the last state of ANY in-spec run from a consistent state the walls are
the same, every clean tile is still clean and the number of agents is the same -/
theorem cleaner_run_conserved (cfg : Cfg) (s : State) (hC : Consistent cfg s) (as : List (List Nat))
    (hA : InSpec cfg as) : conserved s (runState cfg s (toInt as)) = true := Cleaner.run_conserved hC as hA

/-- every state of every episode from `reset`: for every maze ACCEPTED BY THE CERTIFICATE `isRecursiveDivisionMaze` (audit r5 #11: the
shared `generate_maze` is not transliterated; the certificate is evaluated on real reset states by the harness) of the
configured size ≥ 1×1 and every in-spec sequence of joint actions (legal or not, of any length), the state reached is
consistent, conserves the reset state's walls / clean tiles / agents, and its walls are exactly the drawn maze -/
theorem cleaner_consistent_along (cfg : Cfg) (maze : Jx.Grid Bool) (hr : 0 < cfg.numRows) (hc : 0 < cfg.numCols)
    (hm : MazeGen.isRecursiveDivisionMaze maze cfg.numRows cfg.numCols = true) (as : List (List Nat))
    (hA : InSpec cfg as) :
    Consistent cfg (runState cfg (Cleaner.reset cfg (generate cfg maze)).1 (toInt as)) ∧
    conserved (Cleaner.reset cfg (generate cfg maze)).1
      (runState cfg (Cleaner.reset cfg (generate cfg maze)).1 (toInt as)) = true ∧
    wallMap (runState cfg (Cleaner.reset cfg (generate cfg maze)).1 (toInt as)).grid = maze :=
  Cleaner.consistent_along cfg maze hr hc hm as hA
end Props.C07

namespace Props.C08
/-- the reward telescopes: (clean tiles − penalty · steps) after a step = the same before + reward; any
state, any action list -/
theorem cleaner_reward_telescopes (cfg : Cfg) (s : State) (a : List Int) :
    potential cfg (step cfg s a).1 = potential cfg s + ((step cfg s a).2.reward).sum :=
  Cleaner.reward_telescopes cfg s a

/-- the same for the objective recomputed from the final state (clean tiles − 1 − penalty · steps) -/
theorem cleaner_objective_telescopes (cfg : Cfg) (s : State) (a : List Int) :
    objective cfg (step cfg s a).1 = objective cfg s + ((step cfg s a).2.reward).sum :=
  Cleaner.objective_telescopes cfg s a

/-- whole runs: the return (sum of the step rewards) of ANY list of joint actions played from ANY state is the
increase of the potential (clean tiles − penalty · steps); the step counter advances by the number of steps.
No hypotheses: out-of-spec actions, illegal moves and steps after LAST included. -/
theorem cleaner_episode_return (cfg : Cfg) (s : State) (as : List (List Int)) :
    runReturn cfg s as = potential cfg (runState cfg s as) - potential cfg s ∧
    (runState cfg s as).stepCount = s.stepCount + (as.length : Int) :=
  ⟨Cleaner.run_return_potential cfg s as, Cleaner.run_stepCount cfg s as⟩

/-- return = (tiles cleaned during the run) − penalty · (number of steps), the cleaned tiles being the
increase of the number of CLEAN tiles; any state, any list of joint actions -/
theorem cleaner_episode_return_explicit (cfg : Cfg) (s : State) (as : List (List Int)) :
    runReturn cfg s as
      = ((countTiles CLEAN (runState cfg s as).grid : Nat) : Rat) - ((countTiles CLEAN s.grid : Nat) : Rat)
          - cfg.penalty * (as.length : Rat) :=
  Cleaner.run_return_explicit cfg s as

/-- the difference above is a genuine count: clean tiles never decrease along a run, the increase is the
number of cells whose value differs between the first and the last grid (each of them was not CLEAN and is
CLEAN now), and the return is that number − penalty · steps; any state, any list of joint actions -/
theorem cleaner_episode_return_cleaned (cfg : Cfg) (s : State) (as : List (List Int)) :
    countTiles CLEAN s.grid ≤ countTiles CLEAN (runState cfg s as).grid ∧
    countTiles CLEAN (runState cfg s as).grid
      = countTiles CLEAN s.grid + countDiff s.grid (runState cfg s as).grid ∧
    runReturn cfg s as
      = ((countDiff s.grid (runState cfg s as).grid : Nat) : Rat) - cfg.penalty * (as.length : Rat) :=
  ⟨Cleaner.run_clean_le cfg s as, Cleaner.run_clean_count cfg s as, Cleaner.run_return_cleaned cfg s as⟩

/-- on a consistent state and in-spec joint actions (one component in `0..3` per agent, legal or not) the
cleaned tiles are the decrease of the number of DIRTY tiles (a genuine decrease), and every state of the run
is consistent -/
theorem cleaner_episode_return_dirty (cfg : Cfg) (s : State) (hC : Consistent cfg s) (as : List (List Nat))
    (hA : InSpec cfg as) :
    Consistent cfg (runState cfg s (toInt as)) ∧
    countTiles DIRTY (runState cfg s (toInt as)).grid ≤ countTiles DIRTY s.grid ∧
    runReturn cfg s (toInt as)
      = ((countTiles DIRTY s.grid - countTiles DIRTY (runState cfg s (toInt as)).grid : Nat) : Rat)
          - cfg.penalty * (as.length : Rat) :=
  ⟨Cleaner.run_consistent hC as hA, Cleaner.run_return_dirty hC as hA⟩

/-- from a freshly generated state (step counter 0, only the start tile clean) the return of any run is the
objective recomputed from its final state: clean tiles − 1 − penalty · steps -/
theorem cleaner_episode_return_from_reset (cfg : Cfg) (s : State) (as : List (List Int))
    (h0 : s.stepCount = 0) (h1 : countTiles CLEAN s.grid = 1) :
    runReturn cfg s as = objective cfg (runState cfg s as) :=
  Cleaner.run_return_from_reset cfg s as h0 h1

/-- the two hypotheses above are established by `reset` for every maze accepted by the certificate `isRecursiveDivisionMaze` (wave 3;
"of certificate", audit r5 #11), hence: for every
such maze of the configured size ≥ 1×1 and ANY list of joint actions played from the reset state, the
return is the objective recomputed from the final state: clean tiles − 1 − penalty · steps -/
theorem cleaner_episode_return_from_generated (cfg : Cfg) (maze : Jx.Grid Bool) (hr : 0 < cfg.numRows)
    (hc : 0 < cfg.numCols) (hm : MazeGen.isRecursiveDivisionMaze maze cfg.numRows cfg.numCols = true)
    (as : List (List Int)) :
    countTiles CLEAN (Cleaner.reset cfg (generate cfg maze)).1.grid = 1 ∧
    (Cleaner.reset cfg (generate cfg maze)).1.stepCount = 0 ∧
    runReturn cfg (Cleaner.reset cfg (generate cfg maze)).1 as
      = objective cfg (runState cfg (Cleaner.reset cfg (generate cfg maze)).1 as) :=
  ⟨(Cleaner.generate_one_clean cfg maze hr hc hm).1, (Cleaner.generate_one_clean cfg maze hr hc hm).2,
   Cleaner.return_from_generated cfg maze hr hc hm as⟩

/-- the 2×3 example grid as the generator would deliver it: only the start tile clean, agents on it -/
def cleanerExReset : State :=
  (Cleaner.reset CleanerEx.cfg { grid := [[1, 0, 2], [0, 0, 0]], agents := [(0, 0), (0, 0)],
                                 actionMask := [], stepCount := 0 }).1
/-- the hypotheses of `cleaner_episode_return_from_reset` (and of `cleaner_episode_return_dirty`) are
satisfiable -/
example : cleanerExReset.stepCount = 0 ∧ countTiles CLEAN cleanerExReset.grid = 1 ∧ Consistent CleanerEx.cfg cleanerExReset ∧
    InSpec CleanerEx.cfg [[1, 2], [2, 1], [0, 1]] := by decide +kernel
/-- a concrete run: agents go right/down, down/right, then agent 0 up again and agent 1 right: 4 tiles cleaned
in 3 steps with penalty 1/2: return 4 − 3/2 = 5/2 = objective of the final state -/
example : runReturn CleanerEx.cfg cleanerExReset (toInt [[1, 2], [2, 1], [0, 1]]) = 5/2 ∧
    (runState CleanerEx.cfg cleanerExReset (toInt [[1, 2], [2, 1], [0, 1]])).grid = [[1, 1, 2], [1, 1, 1]] ∧
    objective CleanerEx.cfg (runState CleanerEx.cfg cleanerExReset (toInt [[1, 2], [2, 1], [0, 1]])) = 5/2 := by
  decide +kernel
end Props.C08

namespace Props.C09
/-- L1 = L2 on consistent states and in-spec joint actions: successor state, reward, step type, discount and
observation of the implementation are the ones the rules prescribe -/
theorem cleaner_step_refines (cfg : Cfg) (s : State) (hC : Consistent cfg s) (action : List Nat)
    (ha : ∀ a ∈ action, a < 4) : step cfg s (action.map Int.ofNat) = stepSpec cfg s action :=
  Cleaner.step_refines hC action ha

/-- the successor state alone -/
theorem cleaner_next_refines (cfg : Cfg) (s : State) (hC : Consistent cfg s) (action : List Nat)
    (ha : ∀ a ∈ action, a < 4) : (step cfg s (action.map Int.ofNat)).1 = nextSpec cfg s action :=
  Cleaner.step_next_refines hC action ha

/-- the scatter `grid.at[rows, cols].set(CLEAN)` is the index-wise rule "clean iff an agent stands on it"
whenever no coordinate is negative (no shape hypothesis needed) -/
theorem cleaner_clean_refines (g : Jx.Grid Int) (locs : List Pos) (h : ∀ p ∈ locs, 0 ≤ p.1 ∧ 0 ≤ p.2) :
    cleanTiles g locs = cleanSpec g locs := Cleaner.cleanTiles_eq_cleanSpec g locs h

example : Consistent CleanerEx.cfg CleanerEx.st ∧ ∀ a ∈ [1, 3], a < 4 := by decide +kernel
end Props.C09

namespace Props.C10
/-!
The Cleaner generator draws a recursive-division maze with the generator it shares with Maze
(`maze_generation.generate_maze`, certificate `MazeGen.isRecursiveDivisionMaze`, theorems
`maze_connected_of_cert`, `maze_chamber_connected`), recodes it (`generate`), and `reset` adds the mask.
`resetCert cfg s` is the decidable certificate the driver evaluates on every reset state of the implementation
(`cleaner.instance`, key `reset_cert`; key `generate_matches` checks that the reset state IS
`reset cfg (generate cfg walls)` for its own wall map).
-/

/-- the documented reset state: a certified reset state has all agents on `(0, 0)`, that tile is CLEAN (hence
free), every other tile of the grid is DIRTY or a WALL (all other free tiles are dirty), the walls form a
recursive-division maze of the configured size, the step counter is 0, the stored mask is the mask of the
rules; the state is `Consistent` (so `cleaner_step_consistent` applies along every episode) -/
theorem cleaner_reset_cert (cfg : Cfg) (s : State) (h : resetCert cfg s = true) :
    s.agents = List.replicate cfg.numAgents (0, 0) ∧
    free cfg s.grid (0, 0) ∧ tile s.grid (0, 0) = CLEAN ∧
    (∀ p, inGrid cfg p → p ≠ (0, 0) → tile s.grid p = DIRTY ∨ tile s.grid p = WALL) ∧
    (∀ p, free cfg s.grid p → p ≠ (0, 0) → tile s.grid p = DIRTY) ∧
    MazeGen.isRecursiveDivisionMaze (wallMap s.grid) cfg.numRows cfg.numCols = true ∧
    s.stepCount = 0 ∧ s.actionMask = legalMask cfg s.grid s.agents ∧ Consistent cfg s := by
  obtain ⟨_, _, h3, h4, h5, h6, h7, h8⟩ := Cleaner.resetCert_parts h
  refine ⟨h4, Cleaner.origin_free_of_cert h, h5, fun p hp hne => Cleaner.othersDirty_spec h6 hp hne, ?_, h3, h7, h8,
    (Cleaner.cert_consistent h).1⟩
  intro p hp hne
  rcases Cleaner.othersDirty_spec h6 hp.1 hne with hd | hw
  · exact hd
  · exact absurd hw hp.2

/-- the transliterated generator passes the certificate for every maze accepted by the certificate `isRecursiveDivisionMaze`
(audit r5 #11: `generate_maze` itself is NOT transliterated — that its output passes `isRecursiveDivisionMaze` is checked on real reset
states by the harness, not proved): whatever such maze of
the configured size (at least 1×1) the shared maze generator delivers, `reset cfg (generate cfg maze)` is a
certified reset state whose walls are exactly the drawn maze (walls as generated) -/
theorem cleaner_generate_cert (cfg : Cfg) (maze : Jx.Grid Bool) (hr : 0 < cfg.numRows) (hc : 0 < cfg.numCols)
    (hm : MazeGen.isRecursiveDivisionMaze maze cfg.numRows cfg.numCols = true) :
    resetCert cfg (Cleaner.reset cfg (generate cfg maze)).1 = true ∧
    wallMap (Cleaner.reset cfg (generate cfg maze)).1.grid = maze :=
  Cleaner.generate_cert cfg maze hr hc hm

/-- certificate ⇒ every free tile — in particular every dirty tile — is 4-connected to the start tile `(0, 0)`
through free tiles of the grid (`Reach ok p q`: a chain of moves up/right/down/left, every intermediate
position satisfying `ok`); more generally any two free tiles are connected -/
theorem cleaner_connected_of_cert (cfg : Cfg) (s : State) (h : resetCert cfg s = true) :
    (∀ q, free cfg s.grid q → Cleaner.Reach (free cfg s.grid) (0, 0) q) ∧
    (∀ q, inGrid cfg q → tile s.grid q = DIRTY → Cleaner.Reach (free cfg s.grid) (0, 0) q) ∧
    (∀ p q, free cfg s.grid p → free cfg s.grid q → Cleaner.Reach (free cfg s.grid) p q) :=
  ⟨Cleaner.connected_of_cert h,
   fun q hq hd => Cleaner.connected_of_cert h q ⟨hq, by rw [hd]; decide⟩,
   Cleaner.conn_of_cert h⟩

/-- one edge of the free-cell graph is one L1 `step`: when all agents stand on `p` in a consistent state and
direction `a` leads to a free tile, the joint action "everybody plays `a`" is legal for every agent, moves
every agent to `dest p a`, cleans that tile and changes no other tile -/
theorem cleaner_step_along_edge (cfg : Cfg) (s : State) (p : Pos) (hC : Consistent cfg s)
    (hag : s.agents = List.replicate cfg.numAgents p) (a : Nat) (hl : legalAt cfg s.grid p a) :
    (∀ b ∈ legalJoint cfg s (List.replicate cfg.numAgents a), b = true) ∧
    (step cfg s ((List.replicate cfg.numAgents a).map Int.ofNat)).1.agents
      = List.replicate cfg.numAgents (dest p a) ∧
    Consistent cfg (step cfg s ((List.replicate cfg.numAgents a).map Int.ofNat)).1 ∧
    (∀ x, inGrid cfg x →
      tile (step cfg s ((List.replicate cfg.numAgents a).map Int.ofNat)).1.grid x = tile s.grid x ∨
      (tile s.grid x ≠ WALL ∧
        tile (step cfg s ((List.replicate cfg.numAgents a).map Int.ofNat)).1.grid x = CLEAN)) := by
  obtain ⟨k1, k2, k3⟩ := Cleaner.pack_step (p := p) ⟨hC, hag⟩ hl
  exact ⟨k1, k2.2, k2.1, k3⟩

/-- certificate ⇒ every tile can be cleaned: from a certified reset state with at least one agent there EXISTS
a sequence of joint actions for the L1 `step` (the agents move together; with one agent: a plain action
sequence) such that every component is in `0..3` (`InSpec`), every component is legal in the state in which
it is played (`AllLegal`: no step of the walk ends the episode by an invalid move), and after it no DIRTY tile
is left.  Existence by connectivity (no explicit walk is constructed). -/
theorem cleaner_all_cleanable (cfg : Cfg) (s : State) (h : resetCert cfg s = true) (hn : 0 < cfg.numAgents) :
    ∃ as : List (List Nat), InSpec cfg as ∧ AllLegal cfg s as ∧
      countTiles DIRTY (runState cfg s (toInt as)).grid = 0 :=
  Cleaner.all_cleanable h hn

/-- a 3×5 recursive-division maze, one agent: the generated reset state is certified -/
def cleanerGenCfg : Cfg := { numRows := 3, numCols := 5, numAgents := 1, timeLimit := 15, penalty := 1/2 }
def cleanerGenMaze : Jx.Grid Bool :=
  [[false, true, false, true, false],
   [false, true, false, true, false],
   [false, false, false, false, false]]
example : MazeGen.isRecursiveDivisionMaze cleanerGenMaze 3 5 = true := by decide
example : resetCert cleanerGenCfg (Cleaner.reset cleanerGenCfg (generate cleanerGenCfg cleanerGenMaze)).1 = true := by
  decide +kernel
example : (Cleaner.reset cleanerGenCfg (generate cleanerGenCfg cleanerGenMaze)).1.grid =
    [[1, 2, 0, 2, 0], [0, 2, 0, 2, 0], [0, 0, 0, 0, 0]] := by decide +kernel
/-- a concrete cleaning walk on it (down, down, right, right, up, up, down, down, right, right, up, up) -/
example : countTiles DIRTY (runState cleanerGenCfg
      (Cleaner.reset cleanerGenCfg (generate cleanerGenCfg cleanerGenMaze)).1
      (toInt [[2], [2], [1], [1], [0], [0], [2], [2], [1], [1], [0], [0]])).grid = 0 := by decide +kernel
/-- the certificate rejects a reset state whose second agent does not start on the origin, and one with a
pre-cleaned tile -/
def cleanerBadAgents : State :=
  { grid := [[1, 0, 2], [0, 0, 0]], agents := [(0, 0), (1, 1)],
    actionMask := [[false, true, true, false], [true, true, false, true]], stepCount := 0 }
def cleanerBadClean : State :=
  { grid := [[1, 0, 2], [0, 1, 0]], agents := [(0, 0), (0, 0)],
    actionMask := [[false, true, true, false], [false, true, true, false]], stepCount := 0 }
example : resetCert CleanerEx.cfg cleanerBadAgents = false := by decide +kernel
example : resetCert CleanerEx.cfg cleanerBadClean = false := by decide +kernel
end Props.C10

namespace Props.C01
/-- the reset observation (generator output `g`, mask recomputed, `restart`) has every leaf inside the interval
`obsBounds cfg` lists for it: tiles 0..2, locations in `[0, max(rows, cols) − 1]`, mask 0..1,
`step_count = 0 ≤ time_limit`.  Hypotheses: the generated grid holds tiles 0/1/2, the generated agents stand on
cells of the grid (`TilesAndAgentsOK`), the counter starts at 0. -/
theorem cleaner_reset_obs_in_bounds (cfg : Cfg) (g : State) (hk : TilesAndAgentsOK cfg g)
    (h0 : g.stepCount = 0) (htl : 0 ≤ cfg.timeLimit) : ObsInBounds cfg (Cleaner.reset cfg g).2.obs :=
  Cleaner.reset_obs_in_bounds cfg g hk h0 htl

/-- every step taken from a consistent state of a running episode (`0 ≤ step_count < time_limit`) with any
in-spec joint action (legal or not) emits an observation inside `obsBounds cfg` — including the terminal
step, where `step_count = time_limit` -/
theorem cleaner_step_obs_in_bounds (cfg : Cfg) (s : State) (hC : Consistent cfg s) (h0 : 0 ≤ s.stepCount)
    (h1 : s.stepCount < cfg.timeLimit) (action : List Nat) (hl : action.length = s.agents.length)
    (ha : ∀ a ∈ action, a < 4) : ObsInBounds cfg (step cfg s (action.map Int.ofNat)).2.obs :=
  Cleaner.step_obs_in_bounds cfg s hC h0 h1 action hl ha

/-- the reset state is consistent (so the step theorem applies along every episode, with
`cleaner_step_consistent`) when the generator delivers a well-shaped grid of tiles 0/1/2 and `num_agents`
agents on the clean origin -/
theorem cleaner_reset_consistent (cfg : Cfg) (g : State)
    (hs : Jx.Grid.shaped g.grid cfg.numRows cfg.numCols = true)
    (ht : Jx.Grid.all (fun v => v == DIRTY || v == CLEAN || v == WALL) g.grid = true)
    (hag : g.agents = List.replicate cfg.numAgents (0, 0))
    (hp : ∀ p ∈ g.agents, inGrid cfg p ∧ tile g.grid p = CLEAN) : Consistent cfg (Cleaner.reset cfg g).1 :=
  Cleaner.reset_consistent cfg g hs ht hag hp

example : Consistent Props.CleanerEx.cfg Props.CleanerEx.st ∧ 0 ≤ Props.CleanerEx.st.stepCount ∧
    Props.CleanerEx.st.stepCount < Props.CleanerEx.cfg.timeLimit := by decide +kernel
/-- the bound on `step_count` is attained on the step that reaches the limit -/
example : (step { Props.CleanerEx.cfg with timeLimit := 4 } Props.CleanerEx.st [1, 1]).2.obs.stepCount = 4 := by
  decide +kernel

/-! NOTE on what the membership theorems of this section do and do not cover (audits r4 #6, r5 #6, r6 #8): the dtype tag of every leaf
is written by `toNValue` (by construction) — a wrong dtype in the real code cannot falsify `….valid (toNValue …) = true`; dtypes and
field order of the real observations are compared by the `cleaner.spec` / `cleaner.state` ops (`nvalue`: field order, shape, dtype, data) and
`jax.eval_shape` in the sweeps.  Shapes are READ OFF the value by `toNValue` (widths off the first row): see `…_obs_valid_only`. -/

/-! #### membership in the DECLARED spec (wave 3): structure, shapes, dtypes and bounds -/
open Sp PzS

/-- the model's `obsSpec` / `actionSpec` ARE the specs generated from the real spec objects (Gen/Specs.lean) for the
three catalogue configurations of Cleaner (5×7 with 2 agents and limit 11; 4×5 and 3×6 with one agent and the default
limit rows·cols); for every other configuration the `cleaner.spec` op compares them with the real objects on every run
SPEC-ONLY fourth configuration `Cleaner(RandomGenerator(3, 8, 5), time_limit=13)`: rows 3, columns 8, 5 agents, 4 actions, 2
coordinates and the limit 13 pairwise distinct; action / reward / discount specs now for EVERY configuration (audit r5 #2) -/
theorem cleaner_obsSpec_generated :
    prefixed "observation_spec." (obsSpec ⟨5, 7, 2, 11, 1/2⟩) = declared "cleaner-5x7x2" "observation_spec." ∧
    prefixed "observation_spec." (obsSpec ⟨4, 5, 1, 20, 1/2⟩) = declared "cleaner-none" "observation_spec." ∧
    prefixed "observation_spec." (obsSpec ⟨3, 6, 1, 18, 1/2⟩) = declared "cleaner-none-3x6" "observation_spec." ∧
    [("action_spec", actionSpec ⟨5, 7, 2, 11, 1/2⟩)] = declared "cleaner-5x7x2" "action_spec" ∧
    [("action_spec", actionSpec ⟨4, 5, 1, 20, 1/2⟩)] = declared "cleaner-none" "action_spec" ∧
    [("reward_spec", PzS.rewardSpec)] = declared "cleaner-5x7x2" "reward_spec" ∧
    [("discount_spec", discountSpec)] = declared "cleaner-5x7x2" "discount_spec" ∧
    [("action_spec", actionSpec ⟨3, 6, 1, 18, 1/2⟩)] = declared "cleaner-none-3x6" "action_spec" ∧
    [("reward_spec", PzS.rewardSpec)] = declared "cleaner-none" "reward_spec" ∧
    [("discount_spec", discountSpec)] = declared "cleaner-none" "discount_spec" ∧
    [("reward_spec", PzS.rewardSpec)] = declared "cleaner-none-3x6" "reward_spec" ∧
    [("discount_spec", discountSpec)] = declared "cleaner-none-3x6" "discount_spec" ∧
    prefixed "observation_spec." (obsSpec ⟨3, 8, 5, 13, 1/2⟩) = declared "spec-only-cleaner-3x8x5" "observation_spec." ∧
    [("action_spec", actionSpec ⟨3, 8, 5, 13, 1/2⟩)] = declared "spec-only-cleaner-3x8x5" "action_spec" ∧
    [("reward_spec", PzS.rewardSpec)] = declared "spec-only-cleaner-3x8x5" "reward_spec" ∧
    [("discount_spec", discountSpec)] = declared "spec-only-cleaner-3x8x5" "discount_spec" := by
  refine ⟨by decide +kernel, by decide +kernel, by decide +kernel, by decide +kernel, by decide +kernel, by decide +kernel,
    by decide +kernel, by decide +kernel, by decide +kernel, by decide +kernel, by decide +kernel, by decide +kernel,
    by decide +kernel, by decide +kernel, by decide +kernel, by decide +kernel⟩

/-- the `reset` observation is accepted by `observation_spec.validate` for every maze accepted by the certificate
`isRecursiveDivisionMaze` ("of certificate", audit r5 #11) of the configured size ≥ 1×1 and every configuration with `time_limit ≥ 0`: fields `grid`,
`agents_locations`, `action_mask`, `step_count`; shapes `(rows, cols)`, `(agents, 2)`, `(agents, 4)`, `()`; dtypes int8,
int32, bool, int32; bounds [0, 2], [0, rows] × [0, cols], [0, 1], [0, T] -/
theorem cleaner_reset_obs_valid (cfg : Cfg) (maze : Jx.Grid Bool) (hr : 0 < cfg.numRows) (hc : 0 < cfg.numCols)
    (hm : MazeGen.isRecursiveDivisionMaze maze cfg.numRows cfg.numCols = true) (htl : 0 ≤ cfg.timeLimit) :
    (obsSpec cfg).valid (toNValue cfg (Cleaner.reset cfg (generate cfg maze)).2.obs) = true :=
  Cleaner.reset_obs_valid cfg maze hr hc hm htl

/-- the same for every `step` observation from a consistent state of a running episode, for every in-spec joint
action (legal or not), up to and including the terminal step (`Consistent` is established by `reset` for every maze accepted by the certificate `isRecursiveDivisionMaze` and
preserved by every step: `cleaner_consistent_along`) -/
theorem cleaner_step_obs_valid (cfg : Cfg) (s : State) (hC : Consistent cfg s) (h0 : 0 ≤ s.stepCount)
    (h1 : s.stepCount < cfg.timeLimit) (action : List Nat) (hl : action.length = s.agents.length)
    (ha : ∀ a ∈ action, a < 4) :
    (obsSpec cfg).valid (toNValue cfg (step cfg s (action.map Int.ofNat)).2.obs) = true :=
  Cleaner.step_obs_valid cfg s hC h0 h1 action hl ha

/-- composed: every observation of every episode from `reset` — any generator draw, any in-spec joint actions `as`
played so far (fewer than `time_limit`), any further in-spec joint action — is a member of the declared spec -/
theorem cleaner_obs_valid_along (cfg : Cfg) (maze : Jx.Grid Bool) (hr : 0 < cfg.numRows) (hc : 0 < cfg.numCols)
    (hm : MazeGen.isRecursiveDivisionMaze maze cfg.numRows cfg.numCols = true) (as : List (List Nat))
    (hA : InSpec cfg as) (hlen : (as.length : Int) < cfg.timeLimit) (action : List Nat)
    (hl : action.length = cfg.numAgents) (ha : ∀ a ∈ action, a < 4) :
    (obsSpec cfg).valid (toNValue cfg
      (step cfg (runState cfg (Cleaner.reset cfg (generate cfg maze)).1 (toInt as)) (action.map Int.ofNat)).2.obs) = true :=
  Cleaner.obs_valid_along cfg maze hr hc hm as hA hlen action hl ha

/-- what membership means (so the theorems above are not hollow): `validate` accepts an observation ONLY IF its grid has
`num_rows` rows and `num_rows · num_cols` tiles, all in [0, 2], there are `num_agents` agents and mask rows, and the
step count is in [0, T]  CAVEAT (audits r4 #7, r5 #5, r6 #5): for every field that is a nested list, `toNValue` reads the widths off the FIRST row of the
nested list, so the shape conjuncts here mean "row count, length of the first row, total number of cells" — a ragged value with the right total can be a
member, and nothing is concluded about the later rows.  Rectangularity is part of the invariant (`SpecInv` / `Shaped` / `Rect…`) under which the
forward theorems (`…_reset_obs_valid`, `…_step_obs_valid`, `…_along`) are proved, i.e. it holds of every EMITTED observation. -/
theorem cleaner_obs_valid_only (cfg : Cfg) (o : Obs) (h : (obsSpec cfg).valid (toNValue cfg o) = true) :
    List.length o.grid = cfg.numRows ∧ (List.flatten o.grid).length = cfg.numRows * cfg.numCols ∧
    (∀ v ∈ List.flatten o.grid, 0 ≤ v ∧ v ≤ 2) ∧ o.agents.length = cfg.numAgents ∧
    o.actionMask.length = cfg.numAgents ∧ 0 ≤ o.stepCount ∧ o.stepCount ≤ cfg.timeLimit :=
  Cleaner.obs_valid_only cfg o h

/-- rejected: a counter beyond the limit, a tile value 3, an agent in column `num_cols + 1`; accepted: the example
state's observation — and, the declared maxima of `agents_locations` being the EXTENTS, an agent "at" row `num_rows`
(outside the grid) would be accepted too: the declared spec is looser than what `step` emits
(`cleaner_step_obs_in_bounds`: locations ≤ extent − 1) -/
example :
    (obsSpec CleanerEx.cfg).valid (toNValue CleanerEx.cfg (obsOf { CleanerEx.st with stepCount := 11 })) = false ∧
    (obsSpec CleanerEx.cfg).valid (toNValue CleanerEx.cfg (obsOf { CleanerEx.st with grid := [[1, 0, 3], [0, 1, 0]] })) = false ∧
    (obsSpec CleanerEx.cfg).valid (toNValue CleanerEx.cfg (obsOf { CleanerEx.st with agents := [(0, 4), (1, 1)] })) = false ∧
    (obsSpec CleanerEx.cfg).valid (toNValue CleanerEx.cfg (obsOf CleanerEx.st)) = true ∧
    (obsSpec CleanerEx.cfg).valid (toNValue CleanerEx.cfg (obsOf { CleanerEx.st with agents := [(2, 3), (1, 1)] })) = true := by
  decide +kernel

/-- `action_spec.generate_value()` (every configuration): the action spec `MultiDiscreteArray(full(num_agents, 4))` is
well-formed, the generated value — the all-zero joint action, everybody "up" — is a member of it, and `step` answers it
in EVERY state with a protocol-conform timestep (on the reset state "up" leaves the grid: the episode ends at once) -/
theorem cleaner_accepts_generate_value (cfg : Cfg) (s : State) :
    (actionSpec cfg).WF = true ∧ (actionSpec cfg).valid (actionSpec cfg).generate = true ∧
    (actionSpec cfg).generate = ⟨[cfg.numAgents], .int32, List.replicate cfg.numAgents 0⟩ ∧
    StepOK none false (step cfg s (List.replicate cfg.numAgents 0)).2 = true := Cleaner.accepts_generate_value cfg s

/-- reward and discount of every `step` (ALL states, ALL action lists) are accepted by `reward_spec` (Array((), float))
and `discount_spec` (BoundedArray((), float, 0, 1)) -/
theorem cleaner_reward_discount_valid (cfg : Cfg) (s : State) (a : List Int) :
    PzS.rewardSpec.valid (scalarArr (step cfg s a).2.reward) = true ∧
    discountSpec.valid (scalarArr (step cfg s a).2.discount) = true := by
  refine stepOK_reward_discount_valid false _ ?_
  unfold step condLast
  simp only
  split <;> rfl
end Props.C01
