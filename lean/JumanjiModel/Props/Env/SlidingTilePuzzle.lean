/-
Property theorems for SlidingTilePuzzle (all grid sizes `n`, all boards).  Helper lemmas and proofs live in
Env/SlidingTilePuzzle/Lemmas.lean.  `Inv n b` = the board is `n × n`, the stored blank position is on the
board and holds the blank (0).  Actions are `a < 4` (the action spec).
Wave 2 (audit r3): Env/SlidingTilePuzzle/Episode.lean (declared specs as `Sp` values and membership, step / reset protocol,
existence of generator draws and size 1, full effect of an ignored move, sparse / dense episode returns, whole episodes `run`).
-/
import JumanjiModel.Env.SlidingTilePuzzle.Lemmas
import JumanjiModel.Env.SlidingTilePuzzle.Bounds
import JumanjiModel.Env.SlidingTilePuzzle.Episode
open Jm Jx SlidingTilePuzzle

namespace Props.C04
/-- the mask bit of direction `a` is set exactly when the neighbouring cell in that direction exists
(any blank position, any `a`, no hypothesis) -/
theorem sliding_mask_iff_legal (n : Nat) (s : State) (a : Nat) :
    (validActions n s.empty).getD a false = true ↔ legal n s a := mask_iff_legal n s.board a

/-- the environment's own test `is_valid_move` in `_move_empty_tile` agrees with the rules -/
theorem sliding_step_agrees (n : Nat) (s : State) (a : Nat) (ha : a < 4) :
    isValidMove n s.empty (a : Int) = true ↔ legal n s a := isValidMove_iff_legal n s.board ha

example : legal 3 ⟨[[1, 2, 3], [4, 0, 6], [7, 5, 8]], (1, 1), 0⟩ 0 ∧ ¬ legal 3 ⟨goal 3, (2, 2), 0⟩ 1 := by decide
end Props.C04

namespace Props.C05
/-- an illegal move is ignored — the FULL documented effect (audit r3 entry 13): on a well-formed board the successor state
is the old state with only the step counted; the observation shows the old board, the old blank position, the old (unchanged)
mask and the new step count; the reward is 0 under the dense reward function and, under the sparse one, 1 iff the (unchanged)
board is the goal; and the step is LAST exactly for another cause (the board is the goal already, or the time limit) -/
theorem sliding_illegal_ignored (cfg : Cfg) (s : State) (a : Nat) (ha : a < 4) (hi : Inv cfg.n s.board)
    (hl : ¬ legal cfg.n s a) :
    (step cfg s (a : Int)).1 = { s with stepCount := s.stepCount + 1 } ∧
    (step cfg s (a : Int)).2.obs =
      { puzzle := s.puzzle, empty := s.empty, mask := validActions cfg.n s.empty, stepCount := s.stepCount + 1 } ∧
    (step cfg s (a : Int)).2.reward = [if cfg.dense then 0 else if s.puzzle = goal cfg.n then 1 else 0] ∧
    ((step cfg s (a : Int)).2.stepType = .last ↔ (s.puzzle = goal cfg.n ∨ cfg.timeLimit ≤ s.stepCount + 1)) :=
  illegal_ignored_full cfg s ha hi hl

example : Inv 3 (⟨goal 3, (2, 2), 0⟩ : State).board ∧ ¬ legal 3 ⟨goal 3, (2, 2), 0⟩ 1 := by decide

/-- the state part holds on ANY board (well-formed or not): board and blank untouched, only the step is counted, and the
episode ends only for another cause -/
theorem sliding_illegal_ignored_any_board (cfg : Cfg) (s : State) (a : Nat) (ha : a < 4) (hl : ¬ legal cfg.n s a) :
    (step cfg s (a : Int)).1.puzzle = s.puzzle ∧ (step cfg s (a : Int)).1.empty = s.empty ∧
    (step cfg s (a : Int)).1.stepCount = s.stepCount + 1 ∧
    ((step cfg s (a : Int)).2.stepType = .last → s.puzzle = goal cfg.n ∨ cfg.timeLimit ≤ s.stepCount + 1) :=
  illegal_ignored cfg s ha hl
end Props.C05

namespace Props.C08
/-- `DenseRewardFn` on two `n × n` boards = (correct tiles after) − (correct tiles before) -/
theorem sliding_dense_reward (n : Nat) (cur next : Grid Int)
    (hc : Grid.shaped cur n n = true) (hn : Grid.shaped next n n = true) :
    denseReward n cur next = ((correct n next - correct n cur : Int) : Rat) := dense_eq hc hn

/-- telescoping: the dense return of ANY action sequence (legal or not, through LAST or not) from a
well-formed board is correct_final − correct_initial -/
theorem sliding_dense_return (cfg : Cfg) (hd : cfg.dense = true) (as : List Nat) (s : State)
    (hs : Inv cfg.n s.board) (ha : ∀ a ∈ as, a < 4) :
    (play cfg s as).2 = ((correct cfg.n (play cfg s as).1.puzzle - correct cfg.n s.puzzle : Int) : Rat) :=
  dense_return cfg hd as s hs ha

/-- `SparseRewardFn`: 1 exactly when the successor board is the goal, else 0 -/
theorem sliding_sparse_reward (n : Nat) (next : Grid Int) :
    sparseReward n next = if next = goal n then 1 else 0 := by
  simp [sparseReward, isSolved_iff]

example : Inv 3 (⟨[[1, 2, 3], [4, 0, 6], [7, 5, 8]], (1, 1), 0⟩ : State).board := by decide

/-- sparse reward function, EPISODE level: an episode (all steps before the last one are MID) from ANY state under ANY action
values returns 1 if it ends on the goal board and 0 otherwise (`returnOf` = sum of the rewards listed by `run`) -/
theorem sliding_sparse_return (cfg : Cfg) (hd : cfg.dense = false) (as : List Int) (a : Int) (s : State)
    (hmid : ∀ r ∈ run cfg s as, r.2.stepType = .mid) :
    returnOf (run cfg s (as ++ [a])) = if (finalState cfg s (as ++ [a])).puzzle = goal cfg.n then 1 else 0 :=
  sparse_return cfg hd as a s hmid

example : ∀ r ∈ run ⟨2, false, 9⟩ ⟨[[0, 1], [3, 2]], (0, 0), 0⟩ [1], r.2.stepType = .mid := by decide

/-- dense reward function: ANY play (legal or not) from a well-formed board that ends on the goal returns
`n² − (number of correct cells at the start)` — compare `sliding_sparse_return`: 1 -/
theorem sliding_dense_return_solved (cfg : Cfg) (hd : cfg.dense = true) (as : List Nat) (s : State)
    (hs : Inv cfg.n s.board) (ha : ∀ a ∈ as, a < 4) (hfin : (play cfg s as).1.puzzle = goal cfg.n) :
    (play cfg s as).2 = ((((cfg.n * cfg.n : Nat) : Int) - correct cfg.n s.puzzle : Int) : Rat) :=
  dense_return_solved cfg hd as s hs ha hfin

/-- dense and sparse returns DIFFER for this environment (and the documentation does not promise equality: dense = change in
the number of correctly placed tiles, sparse = 1 iff solved): on the 2×2 board one move from the goal the same legal action
ends both episodes (LAST) on the goal, with dense return 2 = n² − (correct tiles at the start) and sparse return 1 -/
theorem sliding_dense_ne_sparse_witness :
    let s : State := ⟨[[1, 2], [0, 3]], (1, 0), 0⟩
    Inv 2 s.board ∧ legal 2 s 1 ∧
    (step ⟨2, true, 5⟩ s 1).2.stepType = .last ∧ (step ⟨2, false, 5⟩ s 1).2.stepType = .last ∧
    (step ⟨2, true, 5⟩ s 1).1 = (step ⟨2, false, 5⟩ s 1).1 ∧ (step ⟨2, true, 5⟩ s 1).1.puzzle = goal 2 ∧
    (play ⟨2, true, 5⟩ s [1]).2 = 2 ∧ (play ⟨2, false, 5⟩ s [1]).2 = 1 ∧ correct 2 s.puzzle = 2 := by
  decide +kernel
end Props.C08

namespace Props.C09
/-- refinement: the transliterated step (scatter/gather with JAX index semantics, mask arithmetic, reward
functions, solved test against `make_solved_puzzle`) equals the rule-level step on every well-formed state:
successor state, step type, reward, discount and observation -/
theorem sliding_step_eq_rules (cfg : Cfg) (s : State) (a : Nat) (ha : a < 4) (h : Inv cfg.n s.board) :
    step cfg s (a : Int) = stepL2 cfg s a := step_eq_stepL2 cfg s ha h

/-- `_move_empty_tile` is the rule-level slide -/
theorem sliding_move_eq_slide (n : Nat) (b : Board) (a : Nat) (ha : a < 4) (h : Inv n b) :
    moveEmptyTile n b (a : Int) = slideB n b a := moveEmptyTile_eq_slideB h ha

/-- well-formedness is preserved by every action, so the refinement applies along whole episodes -/
theorem sliding_inv_preserved (cfg : Cfg) (s : State) (a : Nat) (ha : a < 4) (h : Inv cfg.n s.board) :
    Inv cfg.n (step cfg s (a : Int)).1.board := by
  rw [step_board cfg s ha h]; exact slideB_inv h a
end Props.C09

namespace Props.C11
/-- a step is LAST exactly when the new board is the goal or the step count reaches the time limit; the
step count grows by one per step (the time limit itself is the generic C11 argument) -/
theorem sliding_last_iff (cfg : Cfg) (s : State) (a : Int) :
    (step cfg s a).2.stepType = .last ↔
      ((step cfg s a).1.puzzle = goal cfg.n ∨ cfg.timeLimit ≤ (step cfg s a).1.stepCount) := last_iff cfg s a

theorem sliding_step_count (cfg : Cfg) (s : State) (a : Int) :
    (step cfg s a).1.stepCount = s.stepCount + 1 := step_count cfg s a

/-- EPISODE level (`run` = the L1 `step` iterated, no auto-reset): from any state with step count 0 (every reset state), for
ANY action values and any time limit `T > 0`, if at least `T` actions are played then the first LAST comes at a step `k` with
`0 < k ≤ T` — never later; all steps before it are MID on boards that are not the goal; and if none of the first `T − 1` boards
is the goal then `k = T` exactly — never earlier -/
theorem sliding_episode_ends_by_limit (cfg : Cfg) (T : Nat) (hT : cfg.timeLimit = (T : Int)) (hpos : 0 < T) (s0 : State)
    (h0 : s0.stepCount = 0) (as : List Int) (hlen : T ≤ as.length) :
    ∃ k, 0 < k ∧ k ≤ T ∧
      (∃ r, (run cfg s0 as)[k - 1]? = some r ∧ r.2.stepType = .last) ∧
      (∀ j, j < k - 1 → ∃ r, (run cfg s0 as)[j]? = some r ∧ r.2.stepType = .mid ∧ r.1.puzzle ≠ goal cfg.n) ∧
      ((∀ j r, j < T - 1 → (run cfg s0 as)[j]? = some r → r.1.puzzle ≠ goal cfg.n) → k = T) := by
  obtain ⟨k, h1, h2, ⟨e1, e2, _⟩, h4⟩ := episode_ends_by_limit cfg T hT hpos s0 h0 as hlen
  refine ⟨k, h1, h2, e1, ?_, ?_⟩
  · intro j hj
    obtain ⟨r, hr, hm, ho⟩ := e2 j hj
    exact ⟨r, hr, hm, by simpa using ho⟩
  · intro hno
    exact h4 (fun j r hj hr => by simpa using hno j r hj hr)

/-- `run` is nothing but the iteration of `step` -/
theorem sliding_run_unfold (cfg : Cfg) (s : State) (a : Int) (as : List Int) :
    run cfg s [] = [] ∧ run cfg s (a :: as) = step cfg s a :: run cfg (step cfg s a).1 as := ⟨rfl, rfl⟩

example : (reset ⟨3, true, 4⟩ [0, 3]).1.stepCount = 0 ∧ (4 : Nat) ≤ ([0, 1, 2, 3, 0] : List Int).length := ⟨rfl, by decide⟩
end Props.C11

namespace Props.C12
/-- the observation returned by `step` is the observation function of the successor state (any action) -/
theorem sliding_obs_faithful (cfg : Cfg) (s : State) (a : Int) :
    (step cfg s a).2.obs = observe cfg.n (step cfg s a).1 := obs_faithful cfg s a

/-- … and that function is the documented one: board, blank position, legality of the four directions,
step count -/
theorem sliding_observe_documented (n : Nat) (s : State) : observe n s = observeL2 n s := observe_eq n s

/-- the observation returned by `reset` is the same (documented) function of the reset state, with step count 0 -/
theorem sliding_reset_obs_faithful (cfg : Cfg) (draws : List Nat) :
    (reset cfg draws).2.obs = observe cfg.n (reset cfg draws).1 ∧
    (reset cfg draws).2.obs = observeL2 cfg.n (reset cfg draws).1 ∧
    (reset cfg draws).1 = genState cfg.n draws ∧ (reset cfg draws).2.obs.stepCount = 0 := reset_obs cfg draws
end Props.C12

namespace Props.C03
/-- `step` on ANY state (well-formed or not, before or after LAST) with ANY action value (in the action space or not) returns
a protocol-conform timestep: never FIRST, scalar reward and discount, discount in [0, 1], MID never with zero discount, LAST
with zero discount (`StepOK none false` is the predicate the driver evaluates on the implementation's timesteps) -/
theorem sliding_step_protocol (cfg : Cfg) (s : State) (a : Int) :
    StepOK none false (step cfg s a).2 = true ∧
    (step cfg s a).2.stepType ≠ .first ∧ (step cfg s a).2.reward.length = 1 ∧
    ((step cfg s a).2.discount = [0] ∨ (step cfg s a).2.discount = [1]) ∧
    ((step cfg s a).2.stepType = .mid → (step cfg s a).2.discount = [1]) ∧
    ((step cfg s a).2.stepType = .last → (step cfg s a).2.discount = [0]) :=
  ⟨step_protocol cfg s a, step_protocol_explicit cfg s a⟩

/-- `reset` (any draws) returns FIRST with reward 0 and discount 1 of the scalar shape -/
theorem sliding_reset_protocol (cfg : Cfg) (draws : List Nat) :
    ResetOK none (reset cfg draws).2 = true ∧ (reset cfg draws).2.stepType = .first ∧
    (reset cfg draws).2.reward = [0] ∧ (reset cfg draws).2.discount = [1] := reset_protocol cfg draws
end Props.C03

namespace Props.C17
/-- every legal move is the swap of the blank with the neighbour in that direction: the new board is the old
one with the two cells exchanged and the blank is at the neighbour -/
theorem sliding_move_is_swap (n : Nat) (b : Board) (a : Nat) (h : Inv n b) (hl : legalB n b a) :
    ∃ p, target b.2 a = some p ∧ onBoard n p ∧ moveEmptyTile n b (a : Int) = (swapCells n b.1 b.2 p, p) := by
  obtain ⟨p, ht, hp, _, _, h4⟩ := legal_target hl
  exact ⟨p, ht, hp, by rw [moveEmptyTile_eq_slideB h h4, slideB_legal ht hp]⟩

/-- cell-wise meaning of `swapCells`: cell `p` gets the content of `q`, `q` that of `p`, all others keep theirs -/
theorem sliding_swap_cells (n : Nat) (g : Grid Int) (p q : Pos) (i j : Nat) (hi : i < n) (hj : j < n) :
    Grid.get (swapCells n g p q) 0 i j =
      if ((i : Int), (j : Int)) = p then cell g q else if ((i : Int), (j : Int)) = q then cell g p
      else Grid.get g 0 i j := get_swapCells g p q hi hj

/-- opposite moves cancel: after a legal move the opposite move is legal and restores board and blank -/
theorem sliding_opposite_cancel (n : Nat) (b : Board) (a : Nat) (h : Inv n b) (hl : legalB n b a) :
    legalB n (moveEmptyTile n b (a : Int)) (opposite a) ∧
    moveEmptyTile n (moveEmptyTile n b (a : Int)) ((opposite a : Nat) : Int) = b := by
  obtain ⟨_, _, _, _, _, h4⟩ := legal_target hl
  have ho : opposite a < 4 := by unfold opposite; omega
  rw [moveEmptyTile_eq_slideB h h4, moveEmptyTile_eq_slideB (slideB_inv h a) ho]
  exact opposite_cancel h hl

/-- every action (legal or not) conserves the multiset of tiles -/
theorem sliding_conserves_multiset (n : Nat) (b : Board) (a : Nat) (ha : a < 4) (h : Inv n b) :
    (Grid.flatten (moveEmptyTile n b (a : Int)).1).Perm (Grid.flatten b.1) := by
  rw [moveEmptyTile_eq_slideB h ha]; exact slideB_perm h a

/-- so a board on which every tile `0 … n²-1` occurs once stays such a board -/
theorem sliding_permutation_preserved (n : Nat) (b : Board) (a : Nat) (ha : a < 4) (h : Inv n b)
    (hp : IsPermutation n b.1) : IsPermutation n (moveEmptyTile n b (a : Int)).1 := by
  rw [moveEmptyTile_eq_slideB h ha]; exact slideB_isPermutation h a hp

/-- `make_solved_puzzle` is the goal board (tile `r*n+c+1` at `(r,c)`, blank last) for every `n`, and the
solved test accepts exactly the goal -/
theorem sliding_solved_puzzle_eq_goal (n : Nat) : solvedPuzzle n = goal n := solved_eq_goal n
theorem sliding_solved_iff_goal (n : Nat) (p : Grid Int) : isSolved n p = true ↔ p = goal n := isSolved_iff n p

/-- the goal holds every tile `0 … n²-1` exactly once -/
theorem sliding_goal_is_permutation (n : Nat) : IsPermutation n (goal n) := goal_isPermutation n

/-- reachability by legal slides is symmetric: whatever can be reached from a well-formed board can be
played back -/
theorem sliding_reachable_symm (n : Nat) (a b : Board) (ha : Inv n a) (h : Reachable n a b) : Reachable n b a :=
  h.symm ha

/-- every state produced by reset (a random walk with possible draws) and then by ANY play is reachable
from the goal and solvable back to it -/
theorem sliding_reachable_of_reset_and_play (cfg : Cfg) (hn : 0 < cfg.n) (draws : List Nat)
    (hv : validDraws cfg.n (startBoard cfg.n) draws = true) (as : List Nat) (ha : ∀ a ∈ as, a < 4) :
    Reachable cfg.n (goalBoard cfg.n) (play cfg (genState cfg.n draws) as).1.board ∧
    Solvable cfg.n (play cfg (genState cfg.n draws) as).1.board := by
  obtain ⟨hr, _, hi⟩ := walk_solvable cfg.n draws hv
  have hi' : Inv cfg.n (genState cfg.n draws).board := hi hn
  obtain ⟨hp, _⟩ := play_reach cfg as (genState cfg.n draws) hi' ha
  have : Reachable cfg.n (goalBoard cfg.n) (play cfg (genState cfg.n draws) as).1.board := hr.trans hp
  exact ⟨this, this.symm (goal_inv hn)⟩

example : validDraws 3 (startBoard 3) [0, 3, 2, 3, 0, 1] = true := by decide
end Props.C17

namespace Props.C10
/-- the generator (fold of random moves from the solved board; each draw has non-zero weight in
`jax.random.choice`, i.e. its mask bit is set) yields, for every grid size and every tape, a board that is
reachable from the goal, solvable back to the goal, and (n > 0) well-formed with a consistent blank position -/
theorem sliding_walk_solvable (n : Nat) (draws : List Nat) (hv : validDraws n (startBoard n) draws = true) :
    Reachable n (goalBoard n) (walk n draws) ∧ Solvable n (walk n draws) ∧ (0 < n → Inv n (walk n draws)) :=
  walk_solvable n draws hv

/-- the reset board is a permutation of the tiles `0 … n²-1` (every tile exactly once) -/
theorem sliding_reset_is_permutation (n : Nat) (hn : 0 < n) (draws : List Nat)
    (hv : validDraws n (startBoard n) draws = true) : IsPermutation n (walk n draws).1 :=
  walk_isPermutation n hn draws hv

/-- each possible draw of `_make_random_move` (its `_swap_tiles`) is a legal slide -/
theorem sliding_random_move_is_slide (n : Nat) (b : Board) (d : Nat) (h : Inv n b)
    (hv : validDraw n b d = true) : randomMove b d = slideB n b d :=
  randomMove_eq_slideB h ((mask_iff_legal n b d).1 hv)

/-! #### the hypotheses `validDraws …` above are satisfiable (audit r3 entry 12) -/

/-- for `n ≥ 2` some direction always has non-zero weight in `jax.random.choice` (blank on the board) -/
theorem sliding_exists_validDraw (n : Nat) (hn : 2 ≤ n) (b : Board) (hb : Inv n b) :
    ∃ d, d < 4 ∧ validDraw n b d = true := exists_validDraw hn hb.2.1

/-- for `n ≥ 2` and every number of random moves there is a tape of possible draws (so `sliding_walk_solvable`,
`sliding_reset_is_permutation`, `sliding_reachable_of_reset_and_play`, `…_reset_obs_in_bounds` are not vacuous) -/
theorem sliding_exists_valid_tape (n : Nat) (hn : 2 ≤ n) (len : Nat) :
    ∃ ds : List Nat, ds.length = len ∧ (∀ d ∈ ds, d < 4) ∧ validDraws n (startBoard n) ds = true :=
  exists_valid_tape hn len

/-- `n = 1` (opt-in finding): NO draw is possible, the only valid tape is the empty one — for `num_random_moves > 0` the
generator theorems say nothing, and the implementation (`jax.random.choice` with an all-zero weight vector returns row 0 = UP)
walks off the board: `SlidingTilePuzzle(RandomWalkGenerator(grid_size=1, num_random_moves=1)).reset(PRNGKey(0))` has
`empty_tile_position = (-1, 0)`, which its own `observation_spec` rejects.  The model replayed on that draw agrees. -/
theorem sliding_n1_witness :
    (∀ ds, validDraws 1 (startBoard 1) ds = true ↔ ds = []) ∧
    (walk 1 [0]).2 = (-1, 0) ∧ ¬ Inv 1 (walk 1 [0]) ∧
    (obsSpec ⟨1, true, 5⟩).valid (toNValue (reset ⟨1, true, 5⟩ [0]).2.obs) = false ∧
    (obsSpec ⟨1, true, 5⟩).valid (toNValue (reset ⟨1, true, 5⟩ []).2.obs) = true :=
  ⟨validDraws_one, by decide, by decide, by decide, by decide⟩
end Props.C10

namespace Props.C01
open PzB
/-- the observation returned by `reset` for ANY tape of possible generator draws (grid size n ≥ 1, time limit ≥ 0): every
leaf listed in `obsBounds cfg` is present and within its interval: `puzzle` ∈ [0, n²-1], `empty_tile_position` ∈ [0, n-1],
`action_mask` ∈ [0,1], `step_count` ∈ [0, time_limit] -/
theorem sliding_tile_puzzle_reset_obs_in_bounds (cfg : Cfg) (hn : 0 < cfg.n) (hT : 0 ≤ cfg.timeLimit) (draws : List Nat)
    (hv : validDraws cfg.n (startBoard cfg.n) draws = true) :
    ObsInBounds (obsBounds cfg) (obsLeaves (resetTimeStep cfg.n (genState cfg.n draws)).obs) :=
  SlidingTilePuzzle.reset_obs_in_bounds cfg _
    (inRange_of_inv cfg.n _ ((walk_solvable cfg.n draws hv).2.2 hn) (walk_isPermutation cfg.n hn draws hv)) rfl hT

/-- the same for `step`, for every state whose tiles and blank position are in range (`InRange`, an invariant, see below),
ANY action value (legal or not, in the action space or not) and including the terminal step; the time limit has not been
reached before the step (`0 ≤ step_count < time_limit`), so that the emitted `step_count ≤ time_limit` -/
theorem sliding_tile_puzzle_step_obs_in_bounds (cfg : Cfg) (s : State) (a : Int) (h : InRange cfg.n s.board)
    (hs : 0 ≤ s.stepCount ∧ s.stepCount < cfg.timeLimit) :
    ObsInBounds (obsBounds cfg) (obsLeaves (step cfg s a).2.obs) :=
  SlidingTilePuzzle.step_obs_in_bounds cfg s a h hs

/-- `InRange` follows from the invariants of C09/C17 (`Inv` and `IsPermutation`, which hold from `reset` on) and is itself
preserved by every step -/
theorem sliding_inRange_invariant (cfg : Cfg) :
    (∀ b, Inv cfg.n b → IsPermutation cfg.n b.1 → InRange cfg.n b) ∧
    (∀ (s : State) (a : Int), InRange cfg.n s.board → InRange cfg.n (step cfg s a).1.board) :=
  ⟨inRange_of_inv cfg.n, step_board_inRange cfg⟩

example : InRange 3 (⟨[[1, 2, 3], [4, 0, 6], [7, 5, 8]], (1, 1), 0⟩ : State).board := by decide

/-! NOTE on what the membership theorems of this section do and do not cover (audits r4 #6, r5 #6, r6 #8): the dtype tag of every leaf
is written by `toNValue` (by construction) — a wrong dtype in the real code cannot falsify `….valid (toNValue …) = true`; dtypes and
field order of the real observations are compared by the `sliding_tile_puzzle.spec` / `sliding_tile_puzzle.state` ops (`nvalue`: field order, shape, dtype, data) and
`jax.eval_shape` in the sweeps.  Shapes are READ OFF the value by `toNValue` (widths off the first row): see `…_obs_valid_only`. -/

/-! #### membership in the DECLARED specs (structure, shapes, dtypes and bounds; audit r3 entry 9) -/
open Sp PzS

/-- the model's `obsSpec` / `actionSpec` / reward and discount specs ARE the specs generated from the real spec objects
(Gen/Specs.lean) for the catalogue configuration of SlidingTilePuzzle
SPEC-ONLY second configuration: grid size 5 (tiles up to 24, blank position up to 4 — not the mask length 4), time limit 13 -/
theorem sliding_obsSpec_generated :
    prefixed "observation_spec." (obsSpec ⟨3, true, 15⟩) = declared "slidingtile-3" "observation_spec." ∧
    [("action_spec", actionSpec)] = declared "slidingtile-3" "action_spec" ∧
    [("reward_spec", rewardSpec)] = declared "slidingtile-3" "reward_spec" ∧
    [("discount_spec", discountSpec)] = declared "slidingtile-3" "discount_spec" ∧
    prefixed "observation_spec." (obsSpec ⟨5, true, 13⟩) = declared "spec-only-slidingtile-5" "observation_spec." ∧
    [("action_spec", actionSpec)] = declared "spec-only-slidingtile-5" "action_spec" ∧
    [("reward_spec", rewardSpec)] = declared "spec-only-slidingtile-5" "reward_spec" ∧
    [("discount_spec", discountSpec)] = declared "spec-only-slidingtile-5" "discount_spec" := by
  refine ⟨by decide +kernel, by decide +kernel, by decide +kernel, by decide +kernel, by decide +kernel, by decide +kernel,
    by decide +kernel, by decide +kernel⟩

/-- the `reset` observation (ALL sizes n ≥ 1, any tape of possible draws, time limit ≥ 0) is accepted by
`observation_spec.validate`: fields `puzzle`, `empty_tile_position`, `action_mask`, `step_count`; shapes `(n, n)`, `(2,)`, `(4,)`,
`()`; dtypes int32, int32, bool, int32; bounds [0, n² − 1], [0, n − 1], [0, 1], [0, T] -/
theorem sliding_reset_obs_valid (cfg : Cfg) (hn : 0 < cfg.n) (hT : 0 ≤ cfg.timeLimit) (draws : List Nat)
    (hv : validDraws cfg.n (startBoard cfg.n) draws = true) :
    (obsSpec cfg).valid (toNValue (reset cfg draws).2.obs) = true := reset_obs_valid cfg hn hT draws hv

/-- the same for every `step` observation up to and including the terminal one, for every action of the action space (legal or
not); hypotheses = the invariants `Inv` (C09) and `InRange` (above), which hold from `reset` on and are preserved by every step;
the time limit has not been reached before the step -/
theorem sliding_step_obs_valid (cfg : Cfg) (s : State) (a : Nat) (ha : a < 4) (hi : Inv cfg.n s.board)
    (hr : InRange cfg.n s.board) (hs : 0 ≤ s.stepCount ∧ s.stepCount < cfg.timeLimit) :
    (obsSpec cfg).valid (toNValue (step cfg s (a : Int)).2.obs) = true := step_obs_valid cfg s a ha hi hr hs

example : (obsSpec ⟨2, true, 7⟩).valid (toNValue (observe 2 ⟨goal 2, (1, 1), 8⟩)) = false ∧
    (obsSpec ⟨2, true, 7⟩).valid (toNValue (observe 2 ⟨goal 3, (1, 1), 0⟩)) = false ∧
    (obsSpec ⟨2, true, 7⟩).valid (toNValue (observe 2 ⟨goal 2, (1, 2), 0⟩)) = false ∧
    (obsSpec ⟨2, true, 7⟩).valid (toNValue (observe 2 ⟨goal 2, (1, 1), 7⟩)) = true := by decide

/-- reward and discount of every `step` (ALL states, ALL action values, both reward functions) and of `reset` are accepted by
`reward_spec` (Array((), float)) and `discount_spec` (BoundedArray((), float, 0, 1)) -/
theorem sliding_reward_discount_valid (cfg : Cfg) (s : State) (a : Int) (draws : List Nat) :
    rewardSpec.valid (scalarArr (step cfg s a).2.reward) = true ∧
    discountSpec.valid (scalarArr (step cfg s a).2.discount) = true ∧
    rewardSpec.valid (scalarArr (reset cfg draws).2.reward) = true ∧
    discountSpec.valid (scalarArr (reset cfg draws).2.discount) = true :=
  ⟨(step_reward_discount_valid cfg s a).1, (step_reward_discount_valid cfg s a).2,
   (reset_reward_discount_valid cfg draws).1, (reset_reward_discount_valid cfg draws).2⟩

/-- `action_spec.generate_value()` = 0 (UP): the action spec is well-formed, the generated value is a member of it, and `step`
answers it in EVERY state (legal there or not) with a protocol-conform timestep; membership in `action_spec` is `0 ≤ a < 4` -/
theorem sliding_accepts_generate_value (cfg : Cfg) (s : State) :
    actionSpec.WF = true ∧ actionSpec.valid actionSpec.generate = true ∧ actionSpec.generate = actionArr 0 ∧
    StepOK none false (step cfg s 0).2 = true := accepts_generate_value cfg s

theorem sliding_action_spec_iff (a : Int) : actionSpec.valid (actionArr a) = true ↔ 0 ≤ a ∧ a < 4 := actionSpec_valid_iff a

/-- the step count of every observation of an episode up to and including the terminal one lies in [0, time_limit] -/
theorem sliding_episode_step_count_in_bounds (cfg : Cfg) (T : Nat) (hT : cfg.timeLimit = (T : Int)) (hpos : 0 < T)
    (s0 : State) (h0 : s0.stepCount = 0) (as : List Int) (hlen : T ≤ as.length) :
    ∃ k, 0 < k ∧ k ≤ T ∧ (∃ r, (run cfg s0 as)[k - 1]? = some r ∧ r.2.stepType = .last) ∧
      ∀ j, j < k → ∃ r, (run cfg s0 as)[j]? = some r ∧ 0 ≤ r.2.obs.stepCount ∧ r.2.obs.stepCount ≤ cfg.timeLimit := by
  obtain ⟨k, h1, h2, ⟨e1, _, e3⟩, _⟩ := episode_ends_by_limit cfg T hT hpos s0 h0 as hlen
  refine ⟨k, h1, h2, e1, fun j hj => ?_⟩
  obtain ⟨r, hr, hb⟩ := e3 j hj
  refine ⟨r, hr, ?_⟩
  rw [run_obs_count cfg s0 as r (List.mem_of_getElem? hr), hT]; exact hb
end Props.C01
