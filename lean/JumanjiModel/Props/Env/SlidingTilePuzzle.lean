/-
Property theorems for SlidingTilePuzzle (all grid sizes `n`, all boards).  Helper lemmas and proofs live in
Env/SlidingTilePuzzle/Lemmas.lean.  `Inv n b` = the board is `n × n`, the stored blank position is on the
board and holds the blank (0).  Actions are `a < 4` (the action spec).
-/
import JumanjiModel.Env.SlidingTilePuzzle.Lemmas
import JumanjiModel.Env.SlidingTilePuzzle.Bounds
open Jm Jx SlidingTilePuzzle

namespace Props.C04
/-- the mask bit of direction `a` is set exactly when the neighbouring cell in that direction exists
(any blank position, any `a`, no hypothesis) -/
theorem sliding_mask_iff_legal (n : Nat) (s : State) (a : Nat) :
    (validActions n s.empty).getD a false = true ↔ legal n s a := mask_iff_legal n s.board a

/-- the environment's own test `is_valid_move` in `_move_empty_tile` agrees with the rules -/
theorem sliding_step_agrees (n : Nat) (s : State) (a : Nat) (ha : a < 4) :
    isValidMove n s.empty (a : Int) = true ↔ legal n s a := isValidMove_iff_legal n s.board ha

example : legal 3 ⟨[[1, 2, 3], [4, 0, 6], [7, 5, 8]], (1, 1), 0⟩ 0 ∧ ¬ legal 3 ⟨goal 3, (2, 2), 0⟩ 1 := by decide
end Props.C04

namespace Props.C05
/-- an illegal move is ignored: board and blank untouched, only the step is counted, and the episode ends
only for another cause (the board is the goal already, or the time limit) -/
theorem sliding_illegal_ignored (cfg : Cfg) (s : State) (a : Nat) (ha : a < 4) (hl : ¬ legal cfg.n s a) :
    (step cfg s (a : Int)).1.puzzle = s.puzzle ∧ (step cfg s (a : Int)).1.empty = s.empty ∧
    (step cfg s (a : Int)).1.stepCount = s.stepCount + 1 ∧
    ((step cfg s (a : Int)).2.stepType = .last → s.puzzle = goal cfg.n ∨ cfg.timeLimit ≤ s.stepCount + 1) :=
  illegal_ignored cfg s ha hl
end Props.C05

namespace Props.C08
/-- `DenseRewardFn` on two `n × n` boards = (correct tiles after) − (correct tiles before) -/
theorem sliding_dense_reward (n : Nat) (cur next : Grid Int)
    (hc : Grid.shaped cur n n = true) (hn : Grid.shaped next n n = true) :
    denseReward n cur next = ((correct n next - correct n cur : Int) : Rat) := dense_eq hc hn

/-- telescoping: the dense return of ANY action sequence (legal or not, through LAST or not) from a
well-formed board is correct_final − correct_initial -/
theorem sliding_dense_return (cfg : Cfg) (hd : cfg.dense = true) (as : List Nat) (s : State)
    (hs : Inv cfg.n s.board) (ha : ∀ a ∈ as, a < 4) :
    (play cfg s as).2 = ((correct cfg.n (play cfg s as).1.puzzle - correct cfg.n s.puzzle : Int) : Rat) :=
  dense_return cfg hd as s hs ha

/-- `SparseRewardFn`: 1 exactly when the successor board is the goal, else 0 -/
theorem sliding_sparse_reward (n : Nat) (next : Grid Int) :
    sparseReward n next = if next = goal n then 1 else 0 := by
  simp [sparseReward, isSolved_iff]

example : Inv 3 (⟨[[1, 2, 3], [4, 0, 6], [7, 5, 8]], (1, 1), 0⟩ : State).board := by decide
end Props.C08

namespace Props.C09
/-- refinement: the transliterated step (scatter/gather with JAX index semantics, mask arithmetic, reward
functions, solved test against `make_solved_puzzle`) equals the rule-level step on every well-formed state:
successor state, step type, reward, discount and observation -/
theorem sliding_step_eq_rules (cfg : Cfg) (s : State) (a : Nat) (ha : a < 4) (h : Inv cfg.n s.board) :
    step cfg s (a : Int) = stepL2 cfg s a := step_eq_stepL2 cfg s ha h

/-- `_move_empty_tile` is the rule-level slide -/
theorem sliding_move_eq_slide (n : Nat) (b : Board) (a : Nat) (ha : a < 4) (h : Inv n b) :
    moveEmptyTile n b (a : Int) = slideB n b a := moveEmptyTile_eq_slideB h ha

/-- well-formedness is preserved by every action, so the refinement applies along whole episodes -/
theorem sliding_inv_preserved (cfg : Cfg) (s : State) (a : Nat) (ha : a < 4) (h : Inv cfg.n s.board) :
    Inv cfg.n (step cfg s (a : Int)).1.board := by
  rw [step_board cfg s ha h]; exact slideB_inv h a
end Props.C09

namespace Props.C11
/-- a step is LAST exactly when the new board is the goal or the step count reaches the time limit; the
step count grows by one per step (the time limit itself is the generic C11 argument) -/
theorem sliding_last_iff (cfg : Cfg) (s : State) (a : Int) :
    (step cfg s a).2.stepType = .last ↔
      ((step cfg s a).1.puzzle = goal cfg.n ∨ cfg.timeLimit ≤ (step cfg s a).1.stepCount) := last_iff cfg s a

theorem sliding_step_count (cfg : Cfg) (s : State) (a : Int) :
    (step cfg s a).1.stepCount = s.stepCount + 1 := step_count cfg s a
end Props.C11

namespace Props.C12
/-- the observation returned by `step` is the observation function of the successor state (any action) -/
theorem sliding_obs_faithful (cfg : Cfg) (s : State) (a : Int) :
    (step cfg s a).2.obs = observe cfg.n (step cfg s a).1 := obs_faithful cfg s a

/-- … and that function is the documented one: board, blank position, legality of the four directions,
step count -/
theorem sliding_observe_documented (n : Nat) (s : State) : observe n s = observeL2 n s := observe_eq n s
end Props.C12

namespace Props.C17
/-- every legal move is the swap of the blank with the neighbour in that direction: the new board is the old
one with the two cells exchanged and the blank is at the neighbour -/
theorem sliding_move_is_swap (n : Nat) (b : Board) (a : Nat) (h : Inv n b) (hl : legalB n b a) :
    ∃ p, target b.2 a = some p ∧ onBoard n p ∧ moveEmptyTile n b (a : Int) = (swapCells n b.1 b.2 p, p) := by
  obtain ⟨p, ht, hp, _, _, h4⟩ := legal_target hl
  exact ⟨p, ht, hp, by rw [moveEmptyTile_eq_slideB h h4, slideB_legal ht hp]⟩

/-- cell-wise meaning of `swapCells`: cell `p` gets the content of `q`, `q` that of `p`, all others keep theirs -/
theorem sliding_swap_cells (n : Nat) (g : Grid Int) (p q : Pos) (i j : Nat) (hi : i < n) (hj : j < n) :
    Grid.get (swapCells n g p q) 0 i j =
      if ((i : Int), (j : Int)) = p then cell g q else if ((i : Int), (j : Int)) = q then cell g p
      else Grid.get g 0 i j := get_swapCells g p q hi hj

/-- opposite moves cancel: after a legal move the opposite move is legal and restores board and blank -/
theorem sliding_opposite_cancel (n : Nat) (b : Board) (a : Nat) (h : Inv n b) (hl : legalB n b a) :
    legalB n (moveEmptyTile n b (a : Int)) (opposite a) ∧
    moveEmptyTile n (moveEmptyTile n b (a : Int)) ((opposite a : Nat) : Int) = b := by
  obtain ⟨_, _, _, _, _, h4⟩ := legal_target hl
  have ho : opposite a < 4 := by unfold opposite; omega
  rw [moveEmptyTile_eq_slideB h h4, moveEmptyTile_eq_slideB (slideB_inv h a) ho]
  exact opposite_cancel h hl

/-- every action (legal or not) conserves the multiset of tiles -/
theorem sliding_conserves_multiset (n : Nat) (b : Board) (a : Nat) (ha : a < 4) (h : Inv n b) :
    (Grid.flatten (moveEmptyTile n b (a : Int)).1).Perm (Grid.flatten b.1) := by
  rw [moveEmptyTile_eq_slideB h ha]; exact slideB_perm h a

/-- so a board on which every tile `0 … n²-1` occurs once stays such a board -/
theorem sliding_permutation_preserved (n : Nat) (b : Board) (a : Nat) (ha : a < 4) (h : Inv n b)
    (hp : IsPermutation n b.1) : IsPermutation n (moveEmptyTile n b (a : Int)).1 := by
  rw [moveEmptyTile_eq_slideB h ha]; exact slideB_isPermutation h a hp

/-- `make_solved_puzzle` is the goal board (tile `r*n+c+1` at `(r,c)`, blank last) for every `n`, and the
solved test accepts exactly the goal -/
theorem sliding_solved_puzzle_eq_goal (n : Nat) : solvedPuzzle n = goal n := solved_eq_goal n
theorem sliding_solved_iff_goal (n : Nat) (p : Grid Int) : isSolved n p = true ↔ p = goal n := isSolved_iff n p

/-- the goal holds every tile `0 … n²-1` exactly once -/
theorem sliding_goal_is_permutation (n : Nat) : IsPermutation n (goal n) := goal_isPermutation n

/-- reachability by legal slides is symmetric: whatever can be reached from a well-formed board can be
played back -/
theorem sliding_reachable_symm (n : Nat) (a b : Board) (ha : Inv n a) (h : Reachable n a b) : Reachable n b a :=
  h.symm ha

/-- every state produced by reset (a random walk with possible draws) and then by ANY play is reachable
from the goal and solvable back to it -/
theorem sliding_reachable_of_reset_and_play (cfg : Cfg) (hn : 0 < cfg.n) (draws : List Nat)
    (hv : validDraws cfg.n (startBoard cfg.n) draws = true) (as : List Nat) (ha : ∀ a ∈ as, a < 4) :
    Reachable cfg.n (goalBoard cfg.n) (play cfg (genState cfg.n draws) as).1.board ∧
    Solvable cfg.n (play cfg (genState cfg.n draws) as).1.board := by
  obtain ⟨hr, _, hi⟩ := walk_solvable cfg.n draws hv
  have hi' : Inv cfg.n (genState cfg.n draws).board := hi hn
  obtain ⟨hp, _⟩ := play_reach cfg as (genState cfg.n draws) hi' ha
  have : Reachable cfg.n (goalBoard cfg.n) (play cfg (genState cfg.n draws) as).1.board := hr.trans hp
  exact ⟨this, this.symm (goal_inv hn)⟩

example : validDraws 3 (startBoard 3) [0, 3, 2, 3, 0, 1] = true := by decide
end Props.C17

namespace Props.C10
/-- the generator (fold of random moves from the solved board; each draw has non-zero weight in
`jax.random.choice`, i.e. its mask bit is set) yields, for every grid size and every tape, a board that is
reachable from the goal, solvable back to the goal, and (n > 0) well-formed with a consistent blank position -/
theorem sliding_walk_solvable (n : Nat) (draws : List Nat) (hv : validDraws n (startBoard n) draws = true) :
    Reachable n (goalBoard n) (walk n draws) ∧ Solvable n (walk n draws) ∧ (0 < n → Inv n (walk n draws)) :=
  walk_solvable n draws hv

/-- the reset board is a permutation of the tiles `0 … n²-1` (every tile exactly once) -/
theorem sliding_reset_is_permutation (n : Nat) (hn : 0 < n) (draws : List Nat)
    (hv : validDraws n (startBoard n) draws = true) : IsPermutation n (walk n draws).1 :=
  walk_isPermutation n hn draws hv

/-- each possible draw of `_make_random_move` (its `_swap_tiles`) is a legal slide -/
theorem sliding_random_move_is_slide (n : Nat) (b : Board) (d : Nat) (h : Inv n b)
    (hv : validDraw n b d = true) : randomMove b d = slideB n b d :=
  randomMove_eq_slideB h ((mask_iff_legal n b d).1 hv)
end Props.C10

namespace Props.C01
open PzB
/-- the observation returned by `reset` for ANY tape of possible generator draws (grid size n ≥ 1, time limit ≥ 0): every
leaf listed in `obsBounds cfg` is present and within its interval: `puzzle` ∈ [0, n²-1], `empty_tile_position` ∈ [0, n-1],
`action_mask` ∈ [0,1], `step_count` ∈ [0, time_limit] -/
theorem sliding_tile_puzzle_reset_obs_in_bounds (cfg : Cfg) (hn : 0 < cfg.n) (hT : 0 ≤ cfg.timeLimit) (draws : List Nat)
    (hv : validDraws cfg.n (startBoard cfg.n) draws = true) :
    ObsInBounds (obsBounds cfg) (obsLeaves (resetTimeStep cfg.n (genState cfg.n draws)).obs) :=
  SlidingTilePuzzle.reset_obs_in_bounds cfg _
    (inRange_of_inv cfg.n _ ((walk_solvable cfg.n draws hv).2.2 hn) (walk_isPermutation cfg.n hn draws hv)) rfl hT

/-- the same for `step`, for every state whose tiles and blank position are in range (`InRange`, an invariant, see below),
ANY action value (legal or not, in the action space or not) and including the terminal step; the time limit has not been
reached before the step (`0 ≤ step_count < time_limit`), so that the emitted `step_count ≤ time_limit` -/
theorem sliding_tile_puzzle_step_obs_in_bounds (cfg : Cfg) (s : State) (a : Int) (h : InRange cfg.n s.board)
    (hs : 0 ≤ s.stepCount ∧ s.stepCount < cfg.timeLimit) :
    ObsInBounds (obsBounds cfg) (obsLeaves (step cfg s a).2.obs) :=
  SlidingTilePuzzle.step_obs_in_bounds cfg s a h hs

/-- `InRange` follows from the invariants of C09/C17 (`Inv` and `IsPermutation`, which hold from `reset` on) and is itself
preserved by every step -/
theorem sliding_inRange_invariant (cfg : Cfg) :
    (∀ b, Inv cfg.n b → IsPermutation cfg.n b.1 → InRange cfg.n b) ∧
    (∀ (s : State) (a : Int), InRange cfg.n s.board → InRange cfg.n (step cfg s a).1.board) :=
  ⟨inRange_of_inv cfg.n, step_board_inRange cfg⟩

example : InRange 3 (⟨[[1, 2, 3], [4, 0, 6], [7, 5, 8]], (1, 1), 0⟩ : State).board := by decide
end Props.C01
