/-
Property theorems for BinPack (relational model: the EMS update of a packing step is ANY draw `d`
in the relation `EmsRel`, see Env/BinPack/Model.lean).  Helper lemmas and proofs live in
Env/BinPack/Lemmas.lean.  `rnd` is the float32 rounding used by `Space.volume()`; every theorem holds
for an arbitrary `rnd`.

Hypotheses used below:  `WF s` array shapes consistent;  `Fresh cfg rnd s` the cached `action_mask` /
`sorted_ems_indexes` are the ones `_make_observation_and_extras` computes (true after every reset
and step: `binpack_step_fresh`);  `InSpec cfg s e i` the action lies in the action spec.
-/
import JumanjiModel.Env.BinPack.Lemmas
import JumanjiModel.Env.BinPack.Bounds
import JumanjiModel.Env.BinPack.CoverLemmas
import JumanjiModel.Env.BinPack.EpisodeLemmas
open Jm BinPack

namespace Props.C01
/-!
`obsBounds cfg dm` (`dm` = the generator's `container_dims`): per axis every EMS coordinate and every item side
length of the observation lies in `[0, container side]` (raw) resp. `[0, 1]` (`normalize_dimensions`); the four
bool leaves in `{0, 1}`.  `BoundsInv dm s`: the container is `[0,cx]×[0,cy]×[0,cz]`, EVERY slot of the EMS buffer
(active or not: the observation shows both) lies inside it, and no item (present or padding) is larger than it.
`validDrawAll s e i d`: every slot of the successor EMS buffer `d` is the old slot or a non-empty
`hyperplane(item, axis, dir) ∩ old slot` (what `_add_ems` writes).  `rnd` (float32 rounding of the volumes that
order the EMSs) is arbitrary; the normalised coordinates are exact quotients.
-/

/-- `reset` (any generator output: any `n` items none of which is larger than the container, any item mask, any
buffer size): every leaf of the observation lies in the interval `obsBounds` lists for it -/
theorem binpack_reset_obs_in_bounds (cfg : Cfg) (rnd : Rat → Rat) (dm : Dims) (maxEms n : Nat) (items : List Item)
    (itemsMask : List Bool) (h : validReset dm n items itemsMask) :
    Jm.OB.InBounds (obsBounds cfg dm) (obsLeaves (reset cfg rnd dm maxEms items itemsMask).2.obs) :=
  BinPack.reset_obs_in_bounds cfg rnd dm maxEms n items itemsMask h

/-- every step — ANY action `(e, i) : Int × Int` (inside or outside the action spec, valid or not), any rounding,
either reward function, the terminal step included — from a state with the invariant; when the step packs an item
(`stepValid`), the successor EMS buffer is any draw in `validDrawAll` -/
theorem binpack_step_obs_in_bounds (cfg : Cfg) (rnd : Rat → Rat) (dm : Dims) (s : State) (e i : Int) (d : EmsDraw)
    (h : BoundsInv dm s) (hd : stepValid s e i = true → validDrawAll s e i d) :
    Jm.OB.InBounds (obsBounds cfg dm) (obsLeaves (step cfg rnd s e i d).2.obs) :=
  BinPack.step_obs_in_bounds cfg rnd dm s e i d h hd

/-- the invariant `BoundsInv` is established by `reset` and preserved by every step -/
theorem binpack_reset_boundsInv (cfg : Cfg) (rnd : Rat → Rat) (dm : Dims) (maxEms n : Nat) (items : List Item)
    (itemsMask : List Bool) (h : validReset dm n items itemsMask) :
    BoundsInv dm (reset cfg rnd dm maxEms items itemsMask).1 := BinPack.reset_inv cfg rnd dm maxEms n items itemsMask h
theorem binpack_step_boundsInv (cfg : Cfg) (rnd : Rat → Rat) (dm : Dims) (s : State) (e i : Int) (d : EmsDraw)
    (h : BoundsInv dm s) (hd : stepValid s e i = true → validDrawAll s e i d) :
    BoundsInv dm (step cfg rnd s e i d).1 := BinPack.step_inv cfg rnd dm s e i d h hd

private def ex : State :=
  { container := ⟨0, 4, 0, 3, 0, 2⟩, ems := [⟨0, 4, 0, 3, 0, 2⟩, ⟨0, 0, 0, 0, 0, 0⟩], emsMask := [true, false]
    items := [⟨2, 2, 2⟩, ⟨4, 1, 1⟩], itemsMask := [true, true], itemsPlaced := [false, false]
    itemsLoc := [⟨0, 0, 0⟩, ⟨0, 0, 0⟩], actionMask := [[true, true], [false, false]], sortedIdx := [0, 1] }
example : validReset ⟨4, 3, 2⟩ 2 [⟨2, 2, 2⟩, ⟨4, 1, 1⟩] [true, true] := by decide +kernel
example : (reset ⟨2, false, true⟩ id ⟨4, 3, 2⟩ 2 [⟨2, 2, 2⟩, ⟨4, 1, 1⟩] [true, true]).1 = ex := by decide +kernel
/-- the hypotheses of the step theorem on a packing step: item 2×2×2 into the corner of the 4×3×2 container; the
cut above the item (z) is empty and not written, the x and y cuts are -/
example : BoundsInv ⟨4, 3, 2⟩ ex ∧ stepValid ex 0 0 = true ∧
    validDrawAll ex 0 0 ⟨[⟨2, 4, 0, 3, 0, 2⟩, ⟨0, 4, 2, 3, 0, 2⟩], [true, true]⟩ ∧
    validDraw ex 0 0 ⟨[⟨2, 4, 0, 3, 0, 2⟩, ⟨0, 4, 2, 3, 0, 2⟩], [true, true]⟩ := by decide +kernel
end Props.C01

namespace Props.C04
/-- entry `[e][i]` of the L1 mask is set exactly when the rules allow putting item `i` into the
`e`-th largest EMS (item unplaced ∧ present ∧ EMS active ∧ fits) -/
theorem binpack_mask_iff_legal (cfg : Cfg) (rnd : Rat → Rat) (s : State) (h : WF s) (e i : Nat) :
    ((maskOf cfg rnd s).getD e []).getD i false = true ↔ legal cfg rnd s e i :=
  BinPack.mask_iff_legal cfg rnd s h e i

/-- the validity test `step` applies (a lookup in the cached mask) agrees with the rules, so a
masked-in action is never treated as invalid and every legal action is accepted -/
theorem binpack_step_agrees (cfg : Cfg) (rnd : Rat → Rat) (s : State) (hw : WF s) (hf : Fresh cfg rnd s)
    (e i : Nat) (hs : InSpec cfg s e i) : stepValid s e i = true ↔ legal cfg rnd s e i :=
  BinPack.stepValid_iff_legal cfg rnd s hw hf e i hs

/-- the caches of every state produced by `step` are fresh (hypothesis `Fresh` of the other theorems) -/
theorem binpack_step_fresh (cfg : Cfg) (rnd : Rat → Rat) (s : State) (e i : Int) (d : EmsDraw) :
    Fresh cfg rnd (step cfg rnd s e i d).1 := BinPack.step_fresh cfg rnd s e i d

private def ex : State :=
  { container := ⟨0, 4, 0, 4, 0, 4⟩, ems := [⟨0, 4, 0, 4, 0, 4⟩, ⟨0, 0, 0, 0, 0, 0⟩], emsMask := [true, false]
    items := [⟨2, 2, 2⟩, ⟨5, 1, 1⟩], itemsMask := [true, true], itemsPlaced := [false, false]
    itemsLoc := [⟨0, 0, 0⟩, ⟨0, 0, 0⟩], actionMask := [[true, false], [false, false]], sortedIdx := [0, 1] }
example : WF ex ∧ Fresh ⟨2, true, true⟩ id ex ∧ legal ⟨2, true, true⟩ id ex 0 0 ∧ ¬ legal ⟨2, true, true⟩ id ex 0 1 := by
  decide +kernel
end Props.C04

namespace Props.C05
/-- an illegal action ends the episode (LAST, discount 0) with reward 0 (dense) / the current volume
utilisation (sparse, as documented) and leaves the WHOLE state untouched (the recomputed caches
coincide with the cached ones) -/
theorem binpack_illegal_terminates (cfg : Cfg) (rnd : Rat → Rat) (s : State) (hw : WF s)
    (hf : Fresh cfg rnd s) (e i : Nat) (hs : InSpec cfg s e i) (d : EmsDraw) (h : ¬ legal cfg rnd s e i) :
    (step cfg rnd s e i d).1 = s ∧ (step cfg rnd s e i d).2.stepType = .last ∧
    (step cfg rnd s e i d).2.reward = [if cfg.dense then 0 else utilisation s] ∧
    (step cfg rnd s e i d).2.discount = [0] := BinPack.illegal_step cfg rnd s hw hf e i hs d h
end Props.C05

namespace Props.C06
/-- a legal action keeps the state feasible (placed items inside the container and pairwise
non-overlapping, active EMSs inside the container and clear of every placed item) for EVERY EMS
update in the relation "new active EMS = old active EMS clear of the new item, or
hyperplane(item, axis, dir) ∩ old active EMS" — independent of the filtering heuristics of
`_update_ems`, including the `argmin(ems_mask)` overwrite when the buffer is full -/
theorem binpack_step_feasible (cfg : Cfg) (rnd : Rat → Rat) (s : State) (hF : Feasible s)
    (hf : Fresh cfg rnd s) (e i : Nat) (hs : InSpec cfg s e i) (d : EmsDraw) (hl : legal cfg rnd s e i)
    (hd : validDraw s e i d) : Feasible (step cfg rnd s e i d).1 :=
  BinPack.step_feasible cfg rnd s hF hf e i hs d hl hd

/-- the state-level core of it: packing an item that fits into the corner of an active EMS -/
theorem binpack_pack_feasible (s : State) (k i : Nat) (d : EmsDraw) (hf : Feasible s)
    (hk : k < s.ems.length) (hc : canPack s k i)
    (hr : EmsRel s.ems s.emsMask (cornerSpace s k i) d) : Feasible (packed s k i d) :=
  BinPack.pack_feasible s k i d hf hk hc hr

/-- the reset state of the generators (one active EMS = the container, nothing placed) is feasible -/
theorem binpack_reset_feasible (s : State) (h : ResetShape s) : Feasible s := BinPack.reset_feasible s h

/-- along a whole episode of legal play every state is feasible (in particular: items inside the
container and pairwise non-overlapping) -/
theorem binpack_feasible_along (cfg : Cfg) (rnd : Rat → Rat) (s₀ : State) (h0 : ResetShape s₀)
    (hf0 : Fresh cfg rnd s₀) (n : Nat) (s : State) (hr : Run cfg rnd s₀ n s) :
    Feasible s ∧ ItemsFeasible s :=
  have h := (BinPack.run_invariant cfg rnd s₀ h0 hf0 n s hr).1
  ⟨h, h.2.1, h.2.2.1⟩

/-- "nothing more can be packed" (how such an episode ends) is what the executable check of the
`solution` key of the driver decides -/
theorem binpack_complete_iff (cfg : Cfg) (rnd : Rat → Rat) (s : State) :
    completeB cfg rnd s = true ↔ Complete cfg rnd s := BinPack.completeB_iff cfg rnd s

example : Feasible Props.C04.ex ∧ ResetShape Props.C04.ex := by decide +kernel
/-- a non-trivial instance of the relation: item 2×2×2 in the corner of the 4×4×4 container, three
upper cuts kept -/
example : EmsRel Props.C04.ex.ems Props.C04.ex.emsMask (cornerSpace Props.C04.ex 0 0)
    ⟨[⟨2, 4, 0, 4, 0, 4⟩, ⟨0, 4, 2, 4, 0, 4⟩], [true, true]⟩ := by decide +kernel
end Props.C06

namespace Props.C08
/-- dense reward telescopes: utilisation after a legal step = utilisation before + reward -/
theorem binpack_dense_telescopes (cfg : Cfg) (rnd : Rat → Rat) (s : State) (hw : WF s)
    (hf : Fresh cfg rnd s) (e i : Nat) (hs : InSpec cfg s e i) (d : EmsDraw) (hl : legal cfg rnd s e i)
    (hd : cfg.dense = true) :
    utilisation (step cfg rnd s e i d).1 = utilisation s + (step cfg rnd s e i d).2.reward.sum :=
  BinPack.dense_telescopes cfg rnd s hw hf e i hs d hl hd

/-- sparse reward: zero before the end, the volume utilisation of the final state at the end (so
both reward functions return the utilisation of the final state over an episode of legal play
that starts from an empty container) -/
theorem binpack_sparse_reward (cfg : Cfg) (rnd : Rat → Rat) (s : State) (e i : Int) (d : EmsDraw)
    (hd : cfg.dense = false) :
    (step cfg rnd s e i d).2.reward =
      [if (step cfg rnd s e i d).2.stepType = .last then utilisation (step cfg rnd s e i d).1 else 0] :=
  BinPack.sparse_reward cfg rnd s e i d hd

/-! #### whole episodes
An episode is a list of actions `(e, i, d)` (`d` = the EMS buffer drawn from the relation) played with `play` from a
reset state; `withDense cfg b` is the same environment with the dense (`b = true`) / sparse reward function. -/

/-- dense return along ANY legal play (complete or not) = increase of the volume utilisation -/
theorem binpack_dense_return (cfg : Cfg) (rnd : Rat → Rat) (hd : cfg.dense = true) (as : List Act) (s : State)
    (hF : Feasible s) (hf : Fresh cfg rnd s) (hlp : LegalPlay cfg rnd s as) :
    utilisation (play cfg rnd s as).1 = utilisation s + (play cfg rnd s as).2 :=
  (BinPack.dense_return cfg rnd hd as s hF hf hlp).1

/-- sparse return of an episode whose last timestep is LAST and no earlier one = utilisation of the final state -/
theorem binpack_sparse_return (cfg : Cfg) (rnd : Rat → Rat) (hd : cfg.dense = false) (as : List Act) (s : State)
    (he : EndsAtLast cfg rnd s as) : (play cfg rnd s as).2 = utilisation (play cfg rnd s as).1 :=
  BinPack.sparse_return cfg rnd hd as s he

/-- THE COMBINED EPISODE THEOREM: the same legal action list played from a reset state under both reward functions,
ending with its first LAST timestep: both runs reach the same final state `s`, dense return = sparse return =
volume utilisation of `s`; `s` is reached by the `Run` relation of C06/C11, is feasible, and nothing more can be
packed there -/
theorem binpack_episode_returns (cfg : Cfg) (rnd : Rat → Rat) (s₀ : State) (h0 : ResetShape s₀)
    (hf0 : Fresh cfg rnd s₀) (as : List Act) (hlp : LegalPlay cfg rnd s₀ as) (he : EndsAtLast cfg rnd s₀ as) :
    (play (withDense cfg true) rnd s₀ as).1 = (play cfg rnd s₀ as).1 ∧
    (play (withDense cfg false) rnd s₀ as).1 = (play cfg rnd s₀ as).1 ∧
    (play (withDense cfg true) rnd s₀ as).2 = utilisation (play cfg rnd s₀ as).1 ∧
    (play (withDense cfg false) rnd s₀ as).2 = utilisation (play cfg rnd s₀ as).1 ∧
    Run cfg rnd s₀ as.length (play cfg rnd s₀ as).1 ∧ Feasible (play cfg rnd s₀ as).1 ∧
    Complete cfg rnd (play cfg rnd s₀ as).1 := BinPack.episode_returns cfg rnd s₀ h0 hf0 as hlp he

/-- `LegalPlay` lists and the `Run` relation describe the same episodes -/
theorem binpack_run_iff_play (cfg : Cfg) (rnd : Rat → Rat) (s₀ : State) (n : Nat) (s : State) :
    Run cfg rnd s₀ n s ↔ ∃ as : List Act, as.length = n ∧ LegalPlay cfg rnd s₀ as ∧ (play cfg rnd s₀ as).1 = s :=
  ⟨BinPack.run_legalPlay cfg rnd s₀ n s,
   fun ⟨as, hl, hp, hs⟩ => hl ▸ hs ▸ BinPack.legalPlay_run cfg rnd as s₀ hp⟩

/-- the hypotheses are satisfiable: two 2×2×1 items into a 2×2×2 container shown through 2 EMS slots; the episode
has two steps, the second is LAST, both returns are 1 -/
private def exS : State :=
  { container := ⟨0, 2, 0, 2, 0, 2⟩, ems := [⟨0, 2, 0, 2, 0, 2⟩, ⟨0, 0, 0, 0, 0, 0⟩], emsMask := [true, false]
    items := [⟨2, 2, 1⟩, ⟨2, 2, 1⟩], itemsMask := [true, true], itemsPlaced := [false, false]
    itemsLoc := [⟨0, 0, 0⟩, ⟨0, 0, 0⟩], actionMask := [[true, true], [false, false]], sortedIdx := [0, 1] }
private def exAs : List Act :=
  [(0, 0, ⟨[⟨0, 2, 0, 2, 1, 2⟩, ⟨0, 0, 0, 0, 0, 0⟩], [true, false]⟩),
   (0, 1, ⟨[⟨0, 2, 0, 2, 1, 2⟩, ⟨0, 0, 0, 0, 0, 0⟩], [false, false]⟩)]
example : ResetShape exS ∧ Fresh ⟨2, false, true⟩ id exS := by decide +kernel
example : LegalPlay ⟨2, false, true⟩ id exS exAs := by simp only [LegalPlay, exAs]; decide +kernel
example : EndsAtLast ⟨2, false, true⟩ id exS exAs := by simp only [EndsAtLast, exAs]; decide +kernel
example : (play (withDense ⟨2, false, true⟩ true) id exS exAs).2 = 1 ∧
    (play (withDense ⟨2, false, true⟩ false) id exS exAs).2 = 1 := by decide +kernel
end Props.C08

namespace Props.C11
/-- every non-terminal step packs exactly one more item -/
theorem binpack_progress (cfg : Cfg) (rnd : Rat → Rat) (s : State) (hw : WF s) (hf : Fresh cfg rnd s)
    (e i : Nat) (hs : InSpec cfg s e i) (d : EmsDraw) (h : (step cfg rnd s e i d).2.stepType ≠ .last) :
    Jx.countTrue (step cfg rnd s e i d).1.itemsPlaced = Jx.countTrue s.itemsPlaced + 1 :=
  BinPack.progress cfg rnd s hw hf e i hs d h

/-- an episode of legal play from a reset state has at most `number of items` steps -/
theorem binpack_horizon (cfg : Cfg) (rnd : Rat → Rat) (s₀ : State) (h0 : ResetShape s₀)
    (hf0 : Fresh cfg rnd s₀) (n : Nat) (s : State) (hr : Run cfg rnd s₀ n s) : n ≤ s₀.items.length :=
  BinPack.horizon cfg rnd s₀ h0 hf0 n s hr
end Props.C11

namespace Props.C12
/-- the observation returned by `step` is the documented function of the successor state (for
every EMS buffer whose mask and coordinate arrays have the same length) -/
theorem binpack_obs_faithful (cfg : Cfg) (rnd : Rat → Rat) (s : State) (hw : WF s) (e i : Int)
    (d : EmsDraw) (hd : d.mask.length = d.ems.length) :
    (step cfg rnd s e i d).2.obs = observe cfg rnd (step cfg rnd s e i d).1 :=
  BinPack.obs_faithful cfg rnd s hw e i d hd

/-- the order in which EMSs are shown enumerates every EMS slot exactly once, by decreasing
(float) volume with inactive slots counted as 0, equal volumes by increasing slot number (stable
`argsort`); the observation shows the first `obs_num_ems` of them -/
theorem binpack_obs_ems_largest (cfg : Cfg) (rnd : Rat → Rat) (s : State) (hw : WF s) :
    (sortedOf rnd s).Perm (List.range s.ems.length) ∧
    (sortedOf rnd s).Pairwise (before (fun k => (emsKeys rnd s).getD k 0)) ∧
    (∀ k, k < s.ems.length → (emsKeys rnd s).getD k 0 =
      Space.volumeF rnd (s.ems.getD k default) * (if s.emsMask.getD k false then 1 else 0)) ∧
    (observe cfg rnd s).emsMask = ((sortedOf rnd s).take cfg.obsNum).map (fun k => s.emsMask.getD k false) :=
  ⟨(BinPack.sortedOf_spec rnd s hw).1, (BinPack.sortedOf_spec rnd s hw).2,
   fun k hk => BinPack.emsKeys_getD rnd s hw k hk, BinPack.observe_emsMask cfg rnd s hw⟩

/-- slot `e` of the observation shows the `e`-th EMS of that order, every coordinate divided by the
container length on its axis when `normalize_dimensions`, the raw integers otherwise -/
theorem binpack_normalised_ems (cfg : Cfg) (rnd : Rat → Rat) (s : State) (e : Nat)
    (he : e < min cfg.obsNum s.ems.length) :
    (observe cfg rnd s).ems[e]? = some (
      let k := shownEms rnd s e
      let em := s.ems.getD k default
      let c := s.container
      if cfg.normalize then
        ⟨(em.x1 : Rat) / (c.x2 - c.x1 : Int), (em.x2 : Rat) / (c.x2 - c.x1 : Int),
         (em.y1 : Rat) / (c.y2 - c.y1 : Int), (em.y2 : Rat) / (c.y2 - c.y1 : Int),
         (em.z1 : Rat) / (c.z2 - c.z1 : Int), (em.z2 : Rat) / (c.z2 - c.z1 : Int)⟩
      else ⟨em.x1, em.x2, em.y1, em.y2, em.z1, em.z2⟩) := BinPack.observe_ems_getD cfg rnd s e he

/-- item sizes are shown divided by the container dimensions when `normalize_dimensions` -/
theorem binpack_normalised_items (cfg : Cfg) (rnd : Rat → Rat) (s : State) (i : Nat) (hi : i < s.items.length) :
    (observe cfg rnd s).items[i]? = some (
      let it := s.items.getD i default
      let c := s.container
      if cfg.normalize then
        ⟨(it.xl : Rat) / (c.x2 - c.x1 : Int), (it.yl : Rat) / (c.y2 - c.y1 : Int), (it.zl : Rat) / (c.z2 - c.z1 : Int)⟩
      else ⟨it.xl, it.yl, it.zl⟩) := BinPack.observe_items cfg rnd s i hi
end Props.C12

namespace Props.C10
/-! `RandomGenerator` builds its instance by repeatedly cutting one box of the current family in two
along an axis (`_split_item_once`; `_split_item_multiple_times` is a sequence of such cuts),
dropping boxes that became empty, and writing new boxes to arbitrary free slots.  Each of these
operations preserves "the boxes tile the container" (`Tiles`: proper boxes inside the container,
pairwise non-overlapping, volumes adding up to the container volume), for all sizes and cut
positions.  The certificate `PerfectPacking` (the same three facts, recomputed by the driver from
the state returned by `generate_solution`) ties the real generator to this on every instance. -/

theorem binpack_split_base (c : Space) (hc : c.Proper) : Tiles c [c] := BinPack.tiles_base c hc

theorem binpack_split_tiles (c : Space) (l₁ l₂ : List Space) (b : Space) (ax : Nat) (p : Int)
    (h : Tiles c (l₁ ++ b :: l₂)) (h1 : axLo ax b ≤ p) (h2 : p ≤ axHi ax b) :
    Tiles c (l₁ ++ cutLo ax b p :: cutHi ax b p :: l₂) := BinPack.tiles_cut c l₁ l₂ b ax p h h1 h2

theorem binpack_split_drop_empty (c : Space) (l₁ l₂ : List Space) (b : Space)
    (h : Tiles c (l₁ ++ b :: l₂)) (he : b.isEmpty = true) : Tiles c (l₁ ++ l₂) :=
  BinPack.tiles_drop_empty c l₁ l₂ b h he

theorem binpack_split_perm (c : Space) (l l' : List Space) (h : Tiles c l) (hp : l.Perm l') : Tiles c l' :=
  BinPack.tiles_perm c l l' h hp

/-- a generated reset state is a feasible starting point of an episode -/
theorem binpack_reset_feasible (s : State) (h : ResetShape s) : Feasible s := BinPack.reset_feasible s h

example : Tiles ⟨0, 4, 0, 4, 0, 4⟩ [⟨0, 1, 0, 4, 0, 4⟩, ⟨1, 4, 0, 4, 0, 4⟩] :=
  BinPack.tiles_cut ⟨0, 4, 0, 4, 0, 4⟩ [] [] ⟨0, 4, 0, 4, 0, 4⟩ 0 1
    (BinPack.tiles_base _ (by unfold Space.Proper; decide)) (by decide) (by decide)

/-! #### from the volume certificate to point-wise exact cover
`b.hasCell (x, y, z)`: the unit cell `[x,x+1)×[y,y+1)×[z,z+1)` lies in the box `b` (integer corners, as in the code);
`coverCount bs p` = number of boxes of `bs` containing the unit cell `p`;  `placedBoxes s` = the boxes occupied by the
placed items of `s`, in index order;  `PlacedNonneg s` = placed items have non-negative sides. -/

/-- EXACT COVER (counting argument over unit cells): in a tiling every unit cell of the container lies in exactly
one box, and a unit cell outside the container in none -/
theorem binpack_tiles_exact_cover (c : Space) (bs : List Space) (h : Tiles c bs) (p : Cell) :
    coverCount bs p = if c.hasCell p then 1 else 0 := by
  cases hp : c.hasCell p
  · exact BinPack.tiles_outside c bs h p hp
  · exact BinPack.tiles_exact_cover c bs h p hp

/-- the same with the covering box named by its (unique) position in the list -/
theorem binpack_tiles_exists_unique (c : Space) (bs : List Space) (h : Tiles c bs) (p : Cell)
    (hp : c.hasCell p = true) :
    ∃ k, (∃ hk : k < bs.length, bs[k].hasCell p = true) ∧
      ∀ k', (∃ hk : k' < bs.length, bs[k'].hasCell p = true) → k' = k :=
  BinPack.tiles_exists_unique c bs h p hp

/-- THE LINK: the index-level certificate `PerfectPacking` the driver evaluates on `generate_solution` (plus
non-negative sides) is exactly the list-level `Tiles` of the placed boxes that the splitting theorems preserve -/
theorem binpack_perfectPacking_iff_tiles (s : State) :
    (PerfectPacking s ∧ PlacedNonneg s) ↔
      (WF s ∧ s.itemsPlaced = s.itemsMask ∧ Tiles s.container (placedBoxes s)) :=
  BinPack.perfectPacking_iff_tiles s

/-- `PlacedNonneg` follows from the certificate `ItemsPositive` of the instance -/
theorem binpack_placedNonneg (s : State) (hp : ItemsPositive s) (hm : s.itemsPlaced = s.itemsMask) :
    PlacedNonneg s := BinPack.placedNonneg_of_positive s hp hm

/-- exact cover at index level: in a perfect packing every unit cell of the container lies in exactly one placed
item, and no unit cell outside the container lies in a placed item -/
theorem binpack_perfectPacking_exact_cover (s : State) (hp : PerfectPacking s) (hnn : PlacedNonneg s) (p : Cell)
    (hc : s.container.hasCell p = true) :
    ∃ i, (i < s.items.length ∧ s.itemsPlaced.getD i false = true ∧ (placedSpace s i).hasCell p = true) ∧
      ∀ j, (j < s.items.length ∧ s.itemsPlaced.getD j false = true ∧ (placedSpace s j).hasCell p = true) →
        j = i := BinPack.perfectPacking_exact_cover s hp hnn p hc
theorem binpack_perfectPacking_outside (s : State) (hp : PerfectPacking s) (p : Cell)
    (hc : s.container.hasCell p = false) (i : Nat) (hi : i < s.items.length)
    (hpi : s.itemsPlaced.getD i false = true) : (placedSpace s i).hasCell p = false :=
  BinPack.perfectPacking_outside s hp p hc i hi hpi

/-- the hypotheses are satisfiable: a 2×2×2 container packed with a 2×2×1 slab and two 1×2×1 bars -/
private def exP : State :=
  { container := ⟨0, 2, 0, 2, 0, 2⟩, ems := [⟨0, 0, 0, 0, 0, 0⟩], emsMask := [false]
    items := [⟨2, 2, 1⟩, ⟨1, 2, 1⟩, ⟨1, 2, 1⟩, ⟨0, 0, 0⟩], itemsMask := [true, true, true, false]
    itemsPlaced := [true, true, true, false], itemsLoc := [⟨0, 0, 0⟩, ⟨0, 0, 1⟩, ⟨1, 0, 1⟩, ⟨0, 0, 0⟩]
    actionMask := [[false, false, false, false]], sortedIdx := [0] }
example : PerfectPacking exP ∧ PlacedNonneg exP ∧ ItemsPositive exP := by decide +kernel
example : coverCount (placedBoxes exP) (1, 1, 1) = 1 ∧ coverCount (placedBoxes exP) (2, 1, 1) = 0 := by
  decide +kernel
end Props.C10
