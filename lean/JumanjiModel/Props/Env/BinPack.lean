/-
Property theorems for BinPack.  Two forms of the step exist (Env/BinPack/Model.lean):
* `step₁ cfg rnd s e i` — the deterministic L1 step: the EMS update is computed by `updateEms`, the transliteration
  of `_update_ems` / `_get_intersections_dict` / `_add_ems`.  Theorems with the suffix `₁` are about it and carry
  NO hypothesis on the EMS update.
* `step cfg rnd s e i d` — the relational step: the EMS update is ANY draw `d` in the relation `EmsRel`
  (`validDraw`).  The theorems about it are kept (they are strictly more general: they hold for every
  implementation of `_update_ems` that stays inside the relation) and `binpack_updateEms_validDraw` (C06) is the
  bridge: the transliterated `_update_ems` is inside the relation for every state and every action.  Helper lemmas and proofs live in
Env/BinPack/Lemmas.lean.  `rnd` is the float32 rounding used by `Space.volume()`; every theorem holds
for an arbitrary `rnd`.

Hypotheses used below:  `WF s` array shapes consistent;  `Fresh cfg rnd s` the cached `action_mask` /
`sorted_ems_indexes` are the ones `_make_observation_and_extras` computes (true after every reset
and step: `binpack_step_fresh`);  `InSpec cfg s e i` the action lies in the action spec.
-/
import JumanjiModel.Env.BinPack.Lemmas
import JumanjiModel.Env.BinPack.Bounds
import JumanjiModel.Env.BinPack.CoverLemmas
import JumanjiModel.Env.BinPack.EpisodeLemmas
import JumanjiModel.Env.BinPack.UpdateEms
import JumanjiModel.Env.BinPack.Step1
import JumanjiModel.Env.BinPack.ResetLemmas
import JumanjiModel.Env.BinPack.Covered
import JumanjiModel.Env.BinPack.SplitGen
import JumanjiModel.Env.BinPack.GenState
import JumanjiModel.Env.BinPack.Spec
open Jm BinPack

namespace Props.C01
/-!
`obsBounds cfg dm` (`dm` = the generator's `container_dims`): per axis every EMS coordinate and every item side
length of the observation lies in `[0, container side]` (raw) resp. `[0, 1]` (`normalize_dimensions`); the four
bool leaves in `{0, 1}`.  `BoundsInv dm s`: the container is `[0,cx]×[0,cy]×[0,cz]`, EVERY slot of the EMS buffer
(active or not: the observation shows both) lies inside it, and no item (present or padding) is larger than it.
`validDrawAll s e i d`: every slot of the successor EMS buffer `d` is the old slot or a non-empty
`hyperplane(item, axis, dir) ∩ old slot` (what `_add_ems` writes).  `rnd` (float32 rounding of the volumes that
order the EMSs) is arbitrary; the normalised coordinates are exact quotients.
-/

/-- `reset` (any generator output: any `n` items none of which is larger than the container, any item mask, any
buffer size): every leaf of the observation lies in the interval `obsBounds` lists for it -/
theorem binpack_reset_obs_in_bounds (cfg : Cfg) (rnd : Rat → Rat) (dm : Dims) (maxEms n : Nat) (items : List Item)
    (itemsMask : List Bool) (h : validReset dm n items itemsMask) :
    Jm.OB.InBounds (obsBounds cfg dm) (obsLeaves (reset cfg rnd dm maxEms items itemsMask).2.obs) :=
  BinPack.reset_obs_in_bounds cfg rnd dm maxEms n items itemsMask h

/-- every step — ANY action `(e, i) : Int × Int` (inside or outside the action spec, valid or not), any rounding,
either reward function, the terminal step included — from a state with the invariant; when the step packs an item
(`stepValid`), the successor EMS buffer is any draw in `validDrawAll` -/
theorem binpack_step_obs_in_bounds (cfg : Cfg) (rnd : Rat → Rat) (dm : Dims) (s : State) (e i : Int) (d : EmsDraw)
    (h : BoundsInv dm s) (hd : stepValid s e i = true → validDrawAll s e i d) :
    Jm.OB.InBounds (obsBounds cfg dm) (obsLeaves (step cfg rnd s e i d).2.obs) :=
  BinPack.step_obs_in_bounds cfg rnd dm s e i d h hd

/-- the invariant `BoundsInv` is established by `reset` and preserved by every step -/
theorem binpack_reset_boundsInv (cfg : Cfg) (rnd : Rat → Rat) (dm : Dims) (maxEms n : Nat) (items : List Item)
    (itemsMask : List Bool) (h : validReset dm n items itemsMask) :
    BoundsInv dm (reset cfg rnd dm maxEms items itemsMask).1 := BinPack.reset_inv cfg rnd dm maxEms n items itemsMask h
theorem binpack_step_boundsInv (cfg : Cfg) (rnd : Rat → Rat) (dm : Dims) (s : State) (e i : Int) (d : EmsDraw)
    (h : BoundsInv dm s) (hd : stepValid s e i = true → validDrawAll s e i d) :
    BoundsInv dm (step cfg rnd s e i d).1 := BinPack.step_inv cfg rnd dm s e i d h hd

/-- the same for the deterministic step `step₁` (EMS update = transliterated `_update_ems`): ANY action
`(e, i) : Int × Int`, no hypothesis on the EMS update -/
theorem binpack_step_obs_in_bounds₁ (cfg : Cfg) (rnd : Rat → Rat) (dm : Dims) (s : State) (e i : Int)
    (h : BoundsInv dm s) (hw : WF s) :
    Jm.OB.InBounds (obsBounds cfg dm) (obsLeaves (step₁ cfg rnd s e i).2.obs) :=
  BinPack.step₁_obs_in_bounds cfg rnd dm s e i h hw
/-- both hypotheses are invariants: established by `reset` (`binpack_reset_boundsInv`, `binpack_reset_WF`) and
preserved by every `step₁` -/
theorem binpack_step_boundsInv₁ (cfg : Cfg) (rnd : Rat → Rat) (dm : Dims) (s : State) (e i : Int)
    (h : BoundsInv dm s) (hw : WF s) : BoundsInv dm (step₁ cfg rnd s e i).1 ∧ WF (step₁ cfg rnd s e i).1 :=
  ⟨BinPack.step₁_inv cfg rnd dm s e i h hw, BinPack.step₁_WF cfg rnd s hw e i⟩
theorem binpack_reset_WF (cfg : Cfg) (rnd : Rat → Rat) (dm : Dims) (maxEms n : Nat) (items : List Item)
    (itemsMask : List Bool) (h : validReset dm n items itemsMask) : WF (reset cfg rnd dm maxEms items itemsMask).1 :=
  BinPack.reset_WF cfg rnd dm maxEms items itemsMask (by rw [h.2.2.2.2.1, h.2.2.2.1])

private def ex : State :=
  { container := ⟨0, 4, 0, 3, 0, 2⟩, ems := [⟨0, 4, 0, 3, 0, 2⟩, ⟨0, 0, 0, 0, 0, 0⟩], emsMask := [true, false]
    items := [⟨2, 2, 2⟩, ⟨4, 1, 1⟩], itemsMask := [true, true], itemsPlaced := [false, false]
    itemsLoc := [⟨0, 0, 0⟩, ⟨0, 0, 0⟩], actionMask := [[true, true], [false, false]], sortedIdx := [0, 1] }
example : validReset ⟨4, 3, 2⟩ 2 [⟨2, 2, 2⟩, ⟨4, 1, 1⟩] [true, true] := by decide +kernel
example : (reset ⟨2, false, true⟩ id ⟨4, 3, 2⟩ 2 [⟨2, 2, 2⟩, ⟨4, 1, 1⟩] [true, true]).1 = ex := by decide +kernel
/-- the hypotheses of the step theorem on a packing step: item 2×2×2 into the corner of the 4×3×2 container; the
cut above the item (z) is empty and not written, the x and y cuts are -/
example : BoundsInv ⟨4, 3, 2⟩ ex ∧ stepValid ex 0 0 = true ∧
    validDrawAll ex 0 0 ⟨[⟨2, 4, 0, 3, 0, 2⟩, ⟨0, 4, 2, 3, 0, 2⟩], [true, true]⟩ ∧
    validDraw ex 0 0 ⟨[⟨2, 4, 0, 3, 0, 2⟩, ⟨0, 4, 2, 3, 0, 2⟩], [true, true]⟩ := by decide +kernel
/-- … and that draw is exactly what the transliterated `_update_ems` computes -/
example : WF ex ∧ updateEms ex 0 0 = ⟨[⟨2, 4, 0, 3, 0, 2⟩, ⟨0, 4, 2, 3, 0, 2⟩], [true, true]⟩ := by decide +kernel
/-! NOTE on what the membership theorems of this section do and do not cover (audits r4 #6, r5 #6, r6 #8): the dtype tag of every leaf
is written by `toNValue` (by construction) — a wrong dtype in the real code cannot falsify `….valid (toNValue …) = true`; dtypes and
field order of the real observations are compared by the `bin_pack.spec` / `bin_pack.state` ops (`nvalue`: field order, shape, dtype, data) and
`jax.eval_shape` in the sweeps.  Shapes are READ OFF the value by `toNValue` (widths off the first row): see `…_obs_valid_only`. -/

/-! #### (wave 4) membership in the DECLARED specs: structure, shapes, dtypes and bounds -/
open Sp PzS PkS

/-- the model's `obsSpec` / `actionSpec` / reward and discount specs ARE the specs generated from the real spec objects
(Gen/Specs.lean) for the catalogue configurations `binpack-csv` (`BinPack(CSVGenerator(…, max_num_ems=15), obs_num_ems=8)`,
2 items; every leaf) and `binpack-toy` (`BinPack(ToyGenerator(), obs_num_ems=10)`, 20 items; every leaf — the raw (`int32`,
`[0, max_dim]`) form of the specs is compared at run time by the `bin_pack.spec` op for every adapter configuration): paths
`ems.{x1,x2,y1,y2,z1,z2}`, `ems_mask`, `items.{x_len,y_len,z_len}`, `items_mask`, `items_placed`, `action_mask` in this order;
shapes `(obs_num_ems,)` / `(max_num_items,)` / `(obs_num_ems, max_num_items)`; float32 in `[0, 1]`, bool.
The generated table now holds every leaf whose BOUNDS are small, so the `binpack-toy` conjunct is about the WHOLE `obsSpec` (its
`action_mask` leaf (10, 20) included; it used to be `.dropLast`).  SPEC-ONLY third configuration
`BinPack(RandomGenerator(max_num_items=6, max_num_ems=12), obs_num_ems=5)`: 6 items, 12 EMS kept, 5 EMS observed — pairwise distinct -/
theorem binpack_obsSpec_generated :
    prefixed "observation_spec." (obsSpec ⟨8, true, true⟩ 2 ⟨5870, 2330, 2200⟩) = declared "binpack-csv" "observation_spec." ∧
    [("action_spec", actionSpec ⟨8, true, true⟩ 2)] = declared "binpack-csv" "action_spec" ∧
    [("reward_spec", rewardSpec)] = declared "binpack-csv" "reward_spec" ∧
    [("discount_spec", discountSpec)] = declared "binpack-csv" "discount_spec" ∧
    prefixed "observation_spec." (obsSpec ⟨10, true, true⟩ 20 ⟨5870, 2330, 2200⟩) = declared "binpack-toy" "observation_spec." ∧
    [("action_spec", actionSpec ⟨10, true, true⟩ 20)] = declared "binpack-toy" "action_spec" ∧
    [("reward_spec", rewardSpec)] = declared "binpack-toy" "reward_spec" ∧
    [("discount_spec", discountSpec)] = declared "binpack-toy" "discount_spec" ∧
    prefixed "observation_spec." (obsSpec ⟨5, true, true⟩ 6 ⟨5870, 2330, 2200⟩) = declared "spec-only-binpack-random-6x12x5" "observation_spec." ∧
    [("action_spec", actionSpec ⟨5, true, true⟩ 6)] = declared "spec-only-binpack-random-6x12x5" "action_spec" ∧
    [("reward_spec", rewardSpec)] = declared "spec-only-binpack-random-6x12x5" "reward_spec" ∧
    [("discount_spec", discountSpec)] = declared "spec-only-binpack-random-6x12x5" "discount_spec" := by
  refine ⟨by decide +kernel, by decide +kernel, by decide +kernel, by decide +kernel, by decide +kernel, by decide +kernel,
    by decide +kernel, by decide +kernel, by decide +kernel, by decide +kernel, by decide +kernel, by decide +kernel⟩

/-- the invariant behind the membership theorems — `BoundsInv dm` (container `[0,cx]×[0,cy]×[0,cz]`, every EMS slot inside
it, no item larger than it), consistent array lengths, `n = max_num_items` items, a buffer of at least `obs_num_ems` EMS
slots, positive container sides — is established by `reset` (any generator output `validReset`, any buffer size
`max_num_ems ≥ obs_num_ems`) and preserved by EVERY step: any integers as action (inside the action spec or not, valid or
not), MID or LAST, with any admissible draw of the EMS update, and with NO hypothesis for the deterministic `step₁` -/
theorem binpack_specInv_invariant (cfg : Cfg) (rnd : Rat → Rat) (n : Nat) (dm : Dims) :
    (∀ (maxEms : Nat) (items : List Item) (itemsMask : List Bool), validReset dm n items itemsMask → cfg.obsNum ≤ maxEms →
      1 ≤ maxEms → SpecInv cfg n dm (reset cfg rnd dm maxEms items itemsMask).1) ∧
    (∀ (s : State) (e i : Int) (d : EmsDraw), SpecInv cfg n dm s →
      (stepValid s e i = true → validDraw s e i d ∧ validDrawAll s e i d) → SpecInv cfg n dm (step cfg rnd s e i d).1) ∧
    (∀ (s : State) (e i : Int), SpecInv cfg n dm s → SpecInv cfg n dm (step₁ cfg rnd s e i).1) :=
  ⟨fun maxEms items m h hE hE1 => BinPack.reset_specInv cfg rnd dm maxEms n items m h hE hE1,
   fun s e i d h hd => BinPack.step_specInv cfg rnd n dm s e i d h hd,
   fun s e i h => BinPack.step₁_specInv cfg rnd n dm s e i h⟩

/-- the `reset` observation — every generator output (any `n` items none of which is larger than the container, any item
mask, positive container sides), every buffer size `max_num_ems ≥ obs_num_ems ≥ 1`, either form of the observation
(normalised float32 / raw int32), any rounding of the volumes — is accepted by `observation_spec.validate` -/
theorem binpack_reset_obs_valid (cfg : Cfg) (rnd : Rat → Rat) (dm : Dims) (maxEms n : Nat) (hO : 0 < cfg.obsNum)
    (items : List Item) (itemsMask : List Bool) (h : validReset dm n items itemsMask) (hE : cfg.obsNum ≤ maxEms) :
    (obsSpec cfg n dm).valid (toNValue cfg.normalize (reset cfg rnd dm maxEms items itemsMask).2.obs) = true :=
  BinPack.reset_obs_valid cfg rnd dm maxEms n hO items itemsMask h hE

/-- FINDING (the constructor does not compare `obs_num_ems` with `generator.max_num_ems`): with a buffer SMALLER than
`obs_num_ems` the observation has only `max_num_ems` EMS rows and `observation_spec.validate` REJECTS it, already at `reset` —
for every instance.  Reproduction: `BinPack(generator=RandomGenerator(8, 20), obs_num_ems=30)`: the reset observation has
`ems.x1.shape == (20,)`, `action_mask.shape == (20, 8)`; `env.observation_spec.validate(ts.observation)` raises
"Expected shape (30, 8) but found (20, 8) for spec action_mask". -/
theorem binpack_reset_obs_not_valid (cfg : Cfg) (rnd : Rat → Rat) (dm : Dims) (maxEms n : Nat) (items : List Item)
    (itemsMask : List Bool) (hm : itemsMask.length = items.length) (hE1 : 1 ≤ maxEms) (hE : maxEms < cfg.obsNum) :
    (obsSpec cfg n dm).valid (toNValue cfg.normalize (reset cfg rnd dm maxEms items itemsMask).2.obs) = false :=
  BinPack.reset_obs_not_valid cfg rnd dm maxEms n items itemsMask hm hE1 hE

/-- the observation of EVERY `step` — any integers as action (in the action space or not, valid or not), MID or LAST, either
reward function — from every state with the invariant; when the step packs an item the successor EMS buffer is any draw in
the two relations -/
theorem binpack_step_obs_valid (cfg : Cfg) (rnd : Rat → Rat) (n : Nat) (dm : Dims) (hO : 0 < cfg.obsNum) (s : State)
    (e i : Int) (d : EmsDraw) (h : SpecInv cfg n dm s)
    (hd : stepValid s e i = true → validDraw s e i d ∧ validDrawAll s e i d) :
    (obsSpec cfg n dm).valid (toNValue cfg.normalize (step cfg rnd s e i d).2.obs) = true :=
  BinPack.step_obs_valid cfg rnd n dm hO s e i d h hd

/-- the same for the deterministic step (EMS update = transliterated `_update_ems`): no hypothesis on the EMS update -/
theorem binpack_step_obs_valid₁ (cfg : Cfg) (rnd : Rat → Rat) (n : Nat) (dm : Dims) (hO : 0 < cfg.obsNum) (s : State)
    (e i : Int) (h : SpecInv cfg n dm s) :
    (obsSpec cfg n dm).valid (toNValue cfg.normalize (step₁ cfg rnd s e i).2.obs) = true :=
  BinPack.step₁_obs_valid cfg rnd n dm hO s e i h

/-- WHOLE EPISODES: along the rollout (`Ep.rollout` = the deterministic L1 step iterated) of ANY actions (any integers) from
`reset`, EVERY emitted observation is a member of the spec (no time limit: every index, the terminal observation and
whatever follows it included) -/
theorem binpack_rollout_obs_valid (cfg : Cfg) (rnd : Rat → Rat) (dm : Dims) (maxEms n : Nat) (hO : 0 < cfg.obsNum)
    (items : List Item) (itemsMask : List Bool) (h : validReset dm n items itemsMask) (hE : cfg.obsNum ≤ maxEms)
    (as : List (Int × Int)) (j : Nat) (e : State × TimeStep Obs)
    (he : (Ep.rollout (fun s (a : Int × Int) => step₁ cfg rnd s a.1 a.2) (reset cfg rnd dm maxEms items itemsMask).1 as)[j]?
      = some e) :
    (obsSpec cfg n dm).valid (toNValue cfg.normalize e.2.obs) = true :=
  BinPack.rollout_obs_valid cfg rnd dm maxEms n hO items itemsMask h hE as j e he

/-- … and of the RELATIONAL step: any actions (any integers) with any EMS draws that are admissible when their turn comes
(`DrawsOK`: a step that packs an item gets a draw in `validDraw ∧ validDrawAll`; the draws of the other steps are ignored),
from any state with the invariant (e.g. the reset state, `binpack_specInv_invariant`): EVERY emitted observation is a member -/
theorem binpack_rollout_obs_valid_rel (cfg : Cfg) (rnd : Rat → Rat) (n : Nat) (dm : Dims) (hO : 0 < cfg.obsNum)
    (as : List (Int × Int × EmsDraw)) (s : State) (hs : SpecInv cfg n dm s) (hd : DrawsOK cfg rnd s as) (j : Nat)
    (e : State × TimeStep Obs)
    (he : (Ep.rollout (fun s (a : Int × Int × EmsDraw) => step cfg rnd s a.1 a.2.1 a.2.2) s as)[j]? = some e) :
    (obsSpec cfg n dm).valid (toNValue cfg.normalize e.2.obs) = true :=
  BinPack.rollout_obs_valid_rel cfg rnd n dm hO as s hs hd j e he

/-- the hypothesis is satisfiable on a packing step: the draw of the running example (item 2×2×2 into the corner) -/
example : DrawsOK ⟨2, false, true⟩ id ex [(0, 0, ⟨[⟨2, 4, 0, 3, 0, 2⟩, ⟨0, 4, 2, 3, 0, 2⟩], [true, true]⟩)] :=
  ⟨by decide +kernel, trivial⟩

/-- what membership means (so the theorems above are not hollow): `validate` accepts an observation ONLY IF it has
`obs_num_ems` EMS rows and `n` item rows, every coordinate / side length lies in `[0, 1]` (normalised) resp. `[0, max_dim]`
(raw), the masks have the declared lengths and the action mask is `obs_num_ems × n`  CAVEAT (audits r4 #7, r5 #5, r6 #5): for every field that is a nested list, `toNValue` reads the widths off the FIRST row of the
nested list, so the shape conjuncts here mean "row count, length of the first row, total number of cells" — a ragged value with the right total can be a
member, and nothing is concluded about the later rows.  Rectangularity is part of the invariant (`SpecInv` / `Shaped` / `Rect…`) under which the
forward theorems (`…_reset_obs_valid`, `…_step_obs_valid`, `…_along`) are proved, i.e. it holds of every EMITTED observation. -/
theorem binpack_obs_valid_only (cfg : Cfg) (n : Nat) (dm : Dims) (o : Obs)
    (h : (obsSpec cfg n dm).valid (toNValue cfg.normalize o) = true) :
    o.ems.length = cfg.obsNum ∧
    (∀ e ∈ o.ems, In (hiR cfg.normalize dm) e.x1 ∧ In (hiR cfg.normalize dm) e.x2 ∧ In (hiR cfg.normalize dm) e.y1 ∧
      In (hiR cfg.normalize dm) e.y2 ∧ In (hiR cfg.normalize dm) e.z1 ∧ In (hiR cfg.normalize dm) e.z2) ∧
    o.emsMask.length = cfg.obsNum ∧ o.items.length = n ∧
    (∀ it ∈ o.items, In (hiR cfg.normalize dm) it.xl ∧ In (hiR cfg.normalize dm) it.yl ∧ In (hiR cfg.normalize dm) it.zl) ∧
    o.itemsMask.length = n ∧ o.itemsPlaced.length = n ∧ shape2 o.actionMask = [cfg.obsNum, n] :=
  BinPack.obs_valid_only cfg n dm o h

/-- the running example (4 × 3 × 2 container, two items, two EMS slots, two shown): the invariant holds at reset and after
the packing step; the reset observation is a member in both forms; membership FAILS with `obs_num_ems = 3 > max_num_ems = 2`
(the finding), for an item side beyond `max_dim`, and for another item count -/
example : SpecInv ⟨2, false, true⟩ 2 ⟨4, 3, 2⟩ ex ∧ SpecInv ⟨2, false, true⟩ 2 ⟨4, 3, 2⟩ (step₁ ⟨2, false, true⟩ id ex 0 0).1 ∧
    (obsSpec ⟨2, false, true⟩ 2 ⟨4, 3, 2⟩).valid
      (toNValue false (reset ⟨2, false, true⟩ id ⟨4, 3, 2⟩ 2 [⟨2, 2, 2⟩, ⟨4, 1, 1⟩] [true, true]).2.obs) = true ∧
    (obsSpec ⟨2, true, true⟩ 2 ⟨4, 3, 2⟩).valid
      (toNValue true (reset ⟨2, true, true⟩ id ⟨4, 3, 2⟩ 2 [⟨2, 2, 2⟩, ⟨4, 1, 1⟩] [true, true]).2.obs) = true ∧
    (obsSpec ⟨3, false, true⟩ 2 ⟨4, 3, 2⟩).valid
      (toNValue false (reset ⟨3, false, true⟩ id ⟨4, 3, 2⟩ 2 [⟨2, 2, 2⟩, ⟨4, 1, 1⟩] [true, true]).2.obs) = false ∧
    (obsSpec ⟨2, false, true⟩ 2 ⟨4, 3, 2⟩).valid
      (toNValue false (reset ⟨2, false, true⟩ id ⟨4, 3, 2⟩ 2 [⟨2, 2, 2⟩, ⟨5, 1, 1⟩] [true, true]).2.obs) = false ∧
    (obsSpec ⟨2, false, true⟩ 3 ⟨4, 3, 2⟩).valid
      (toNValue false (reset ⟨2, false, true⟩ id ⟨4, 3, 2⟩ 2 [⟨2, 2, 2⟩, ⟨4, 1, 1⟩] [true, true]).2.obs) = false := by
  decide +kernel

/-- reward and discount of every `step` (ALL states, ALL action values, all draws, both reward functions) and of `reset` are
accepted by `reward_spec` (Array((), float)) and `discount_spec` (BoundedArray((), float, 0, 1)) -/
theorem binpack_reward_discount_valid (cfg : Cfg) (rnd : Rat → Rat) (s : State) (e i : Int) (d : EmsDraw) (dm : Dims)
    (maxEms : Nat) (items : List Item) (m : List Bool) :
    rewardSpec.valid (scalarArr (step cfg rnd s e i d).2.reward) = true ∧
    discountSpec.valid (scalarArr (step cfg rnd s e i d).2.discount) = true ∧
    rewardSpec.valid (scalarArr (reset cfg rnd dm maxEms items m).2.reward) = true ∧
    discountSpec.valid (scalarArr (reset cfg rnd dm maxEms items m).2.discount) = true :=
  ⟨(BinPack.step_reward_discount_valid cfg rnd s e i d).1, (BinPack.step_reward_discount_valid cfg rnd s e i d).2,
   (BinPack.reset_reward_discount_valid cfg rnd dm maxEms items m).1,
   (BinPack.reset_reward_discount_valid cfg rnd dm maxEms items m).2⟩

/-- `action_spec.generate_value()` = (0, 0): the action spec is well-formed, the generated value is a member, and the step
answers it from every state with the invariant with a protocol-conform timestep whose observation is a member of the
observation spec; membership in `action_spec` is "EMS slot < obs_num_ems, item < max_num_items" -/
theorem binpack_accepts_generate_value (cfg : Cfg) (rnd : Rat → Rat) (n : Nat) (dm : Dims) (hO : 0 < cfg.obsNum) (hn : 0 < n)
    (hb1 : cfg.obsNum ≤ 2147483648) (hb2 : n ≤ 2147483648) (s : State) (h : SpecInv cfg n dm s) :
    (actionSpec cfg n).WF = true ∧ (actionSpec cfg n).valid (actionSpec cfg n).generate = true ∧
    (actionSpec cfg n).generate = actionArr 0 0 ∧ StepOK none false (step₁ cfg rnd s 0 0).2 = true ∧
    (obsSpec cfg n dm).valid (toNValue cfg.normalize (step₁ cfg rnd s 0 0).2.obs) = true :=
  BinPack.accepts_generate_value cfg rnd n dm hO hn hb1 hb2 s h

theorem binpack_action_spec_iff (cfg : Cfg) (n e i : Nat) :
    (actionSpec cfg n).valid (actionArr (e : Int) (i : Int)) = true ↔ e < cfg.obsNum ∧ i < n :=
  BinPack.actionSpec_valid_iff cfg n e i
end Props.C01

namespace Props.C04
/-- entry `[e][i]` of the L1 mask is set exactly when the rules allow putting item `i` into the
`e`-th largest EMS (item unplaced ∧ present ∧ EMS active ∧ fits) -/
theorem binpack_mask_iff_legal (cfg : Cfg) (rnd : Rat → Rat) (s : State) (h : WF s) (e i : Nat) :
    ((maskOf cfg rnd s).getD e []).getD i false = true ↔ legal cfg rnd s e i :=
  BinPack.mask_iff_legal cfg rnd s h e i

/-- the validity test `step` applies (a lookup in the cached mask) agrees with the rules, so a
masked-in action is never treated as invalid and every legal action is accepted -/
theorem binpack_step_agrees (cfg : Cfg) (rnd : Rat → Rat) (s : State) (hw : WF s) (hf : Fresh cfg rnd s)
    (e i : Nat) (hs : InSpec cfg s e i) : stepValid s e i = true ↔ legal cfg rnd s e i :=
  BinPack.stepValid_iff_legal cfg rnd s hw hf e i hs

/-- the caches of every state produced by `step` are fresh (hypothesis `Fresh` of the other theorems) -/
theorem binpack_step_fresh (cfg : Cfg) (rnd : Rat → Rat) (s : State) (e i : Int) (d : EmsDraw) :
    Fresh cfg rnd (step cfg rnd s e i d).1 := BinPack.step_fresh cfg rnd s e i d

/-- … and so are the caches of every state produced by `reset` (audit r1 entry 6) -/
theorem binpack_reset_fresh (cfg : Cfg) (rnd : Rat → Rat) (dm : Dims) (maxEms : Nat) (items : List Item)
    (itemsMask : List Bool) : Fresh cfg rnd (reset cfg rnd dm maxEms items itemsMask).1 :=
  BinPack.reset_fresh cfg rnd dm maxEms items itemsMask

private def ex : State :=
  { container := ⟨0, 4, 0, 4, 0, 4⟩, ems := [⟨0, 4, 0, 4, 0, 4⟩, ⟨0, 0, 0, 0, 0, 0⟩], emsMask := [true, false]
    items := [⟨2, 2, 2⟩, ⟨5, 1, 1⟩], itemsMask := [true, true], itemsPlaced := [false, false]
    itemsLoc := [⟨0, 0, 0⟩, ⟨0, 0, 0⟩], actionMask := [[true, false], [false, false]], sortedIdx := [0, 1] }
example : WF ex ∧ Fresh ⟨2, true, true⟩ id ex ∧ legal ⟨2, true, true⟩ id ex 0 0 ∧ ¬ legal ⟨2, true, true⟩ id ex 0 1 := by
  decide +kernel
end Props.C04

namespace Props.C05
/-- an illegal action ends the episode (LAST, discount 0) with reward 0 (dense) / the current volume
utilisation (sparse, as documented) and leaves the WHOLE state untouched (the recomputed caches
coincide with the cached ones) -/
theorem binpack_illegal_terminates (cfg : Cfg) (rnd : Rat → Rat) (s : State) (hw : WF s)
    (hf : Fresh cfg rnd s) (e i : Nat) (hs : InSpec cfg s e i) (d : EmsDraw) (h : ¬ legal cfg rnd s e i) :
    (step cfg rnd s e i d).1 = s ∧ (step cfg rnd s e i d).2.stepType = .last ∧
    (step cfg rnd s e i d).2.reward = [if cfg.dense then 0 else utilisation s] ∧
    (step cfg rnd s e i d).2.discount = [0] := BinPack.illegal_step cfg rnd s hw hf e i hs d h
end Props.C05

namespace Props.C06
/-- a legal action keeps the state feasible (placed items inside the container and pairwise
non-overlapping, active EMSs inside the container and clear of every placed item) for EVERY EMS
update in the relation "new active EMS = old active EMS clear of the new item, or
hyperplane(item, axis, dir) ∩ old active EMS" — independent of the filtering heuristics of
`_update_ems`, including the `argmin(ems_mask)` overwrite when the buffer is full -/
theorem binpack_step_feasible (cfg : Cfg) (rnd : Rat → Rat) (s : State) (hF : Feasible s)
    (hf : Fresh cfg rnd s) (e i : Nat) (hs : InSpec cfg s e i) (d : EmsDraw) (hl : legal cfg rnd s e i)
    (hd : validDraw s e i d) : Feasible (step cfg rnd s e i d).1 :=
  BinPack.step_feasible cfg rnd s hF hf e i hs d hl hd

/-- AUDIT r1 ENTRY 2: the L1 transliteration `updateEms` of `_update_ems` / `_get_intersections_dict` / `_add_ems`
(deleting intersected EMSs, the six families of hyperplane cuts, the emptiness / inclusion filtering, the scan that
writes each surviving cut to `argmin(ems_mask)`, overwriting slot 0 when the buffer is full) stays inside both
relations of the R-model — for EVERY state with consistent array shapes and EVERY action `(e, i) : Int × Int`
(legal or not; feasibility of the state is not needed) -/
theorem binpack_updateEms_validDraw (s : State) (hw : WF s) (e i : Int) :
    validDraw s e i (updateEms s e i) ∧ validDrawAll s e i (updateEms s e i) :=
  BinPack.updateEms_validDraw s hw e i

/-- hypothesis-free form of `binpack_step_feasible`: a legal action of the deterministic step keeps the state
feasible -/
theorem binpack_step_feasible₁ (cfg : Cfg) (rnd : Rat → Rat) (s : State) (hF : Feasible s)
    (hf : Fresh cfg rnd s) (e i : Nat) (hs : InSpec cfg s e i) (hl : legal cfg rnd s e i) :
    Feasible (step₁ cfg rnd s e i).1 := BinPack.step₁_feasible cfg rnd s hF hf e i hs hl

/-- the state-level core of it: packing an item that fits into the corner of an active EMS -/
theorem binpack_pack_feasible (s : State) (k i : Nat) (d : EmsDraw) (hf : Feasible s)
    (hk : k < s.ems.length) (hc : canPack s k i)
    (hr : EmsRel s.ems s.emsMask (cornerSpace s k i) d) : Feasible (packed s k i d) :=
  BinPack.pack_feasible s k i d hf hk hc hr

/-- the reset state of the generators (one active EMS = the container, nothing placed) is feasible -/
theorem binpack_reset_feasible (s : State) (h : ResetShape s) : Feasible s := BinPack.reset_feasible s h

/-- along a whole episode of legal play every state is feasible (in particular: items inside the
container and pairwise non-overlapping) -/
theorem binpack_feasible_along (cfg : Cfg) (rnd : Rat → Rat) (s₀ : State) (h0 : ResetShape s₀)
    (hf0 : Fresh cfg rnd s₀) (n : Nat) (s : State) (hr : Run cfg rnd s₀ n s) :
    Feasible s ∧ ItemsFeasible s :=
  have h := (BinPack.run_invariant cfg rnd s₀ h0 hf0 n s hr).1
  ⟨h, h.2.1, h.2.2.1⟩

/-- `reset` (container with positive sides, item mask as long as the item arrays) produces a `ResetShape` state
(audit r1 entry 6; `Fresh` is `Props.C04.binpack_reset_fresh`) -/
theorem binpack_reset_shape (cfg : Cfg) (rnd : Rat → Rat) (dm : Dims) (maxEms : Nat) (items : List Item)
    (itemsMask : List Bool) (hx : 0 < dm.cx) (hy : 0 < dm.cy) (hz : 0 < dm.cz)
    (hm : itemsMask.length = items.length) : ResetShape (reset cfg rnd dm maxEms items itemsMask).1 :=
  BinPack.reset_shape cfg rnd dm maxEms items itemsMask hx hy hz hm

/-- hypothesis-free form of `binpack_feasible_along`: along a whole episode of legal play of the deterministic
step (`Run₁`: `n` legal in-spec actions of `step₁`) every state is feasible -/
theorem binpack_feasible_along₁ (cfg : Cfg) (rnd : Rat → Rat) (s₀ : State) (h0 : ResetShape s₀)
    (hf0 : Fresh cfg rnd s₀) (n : Nat) (s : State) (hr : Run₁ cfg rnd s₀ n s) :
    Feasible s ∧ ItemsFeasible s :=
  have h := (BinPack.run_invariant cfg rnd s₀ h0 hf0 n s (BinPack.run₁_run cfg rnd s₀ h0 hf0 n s hr)).1
  ⟨h, h.2.1, h.2.2.1⟩

/-- THE WHOLE CHAIN FROM `reset`: any generator output (container with positive sides, `n` item slots), any number
of legal in-spec actions of the deterministic step: items inside the container and pairwise non-overlapping -/
theorem binpack_feasible_from_reset (cfg : Cfg) (rnd : Rat → Rat) (dm : Dims) (maxEms n : Nat) (items : List Item)
    (itemsMask : List Bool) (h : validReset dm n items itemsMask) (k : Nat) (s : State)
    (hr : Run₁ cfg rnd (reset cfg rnd dm maxEms items itemsMask).1 k s) : Feasible s ∧ ItemsFeasible s :=
  binpack_feasible_along₁ cfg rnd _ (BinPack.reset_shape_of_valid cfg rnd dm maxEms n items itemsMask h)
    (BinPack.reset_fresh cfg rnd dm maxEms items itemsMask) k s hr

/-- "nothing more can be packed" (how such an episode ends) is what the executable check of the
`solution` key of the driver decides -/
theorem binpack_complete_iff (cfg : Cfg) (rnd : Rat → Rat) (s : State) :
    completeB cfg rnd s = true ↔ Complete cfg rnd s := BinPack.completeB_iff cfg rnd s

example : Feasible Props.C04.ex ∧ ResetShape Props.C04.ex := by decide +kernel
/-- a non-trivial instance of the relation: item 2×2×2 in the corner of the 4×4×4 container, three
upper cuts kept -/
example : EmsRel Props.C04.ex.ems Props.C04.ex.emsMask (cornerSpace Props.C04.ex 0 0)
    ⟨[⟨2, 4, 0, 4, 0, 4⟩, ⟨0, 4, 2, 4, 0, 4⟩], [true, true]⟩ := by decide +kernel
end Props.C06

namespace Props.C08
/-- dense reward telescopes: utilisation after a legal step = utilisation before + reward -/
theorem binpack_dense_telescopes (cfg : Cfg) (rnd : Rat → Rat) (s : State) (hw : WF s)
    (hf : Fresh cfg rnd s) (e i : Nat) (hs : InSpec cfg s e i) (d : EmsDraw) (hl : legal cfg rnd s e i)
    (hd : cfg.dense = true) :
    utilisation (step cfg rnd s e i d).1 = utilisation s + (step cfg rnd s e i d).2.reward.sum :=
  BinPack.dense_telescopes cfg rnd s hw hf e i hs d hl hd

/-- sparse reward: zero before the end, the volume utilisation of the final state at the end (so
both reward functions return the utilisation of the final state over an episode of legal play
that starts from an empty container) -/
theorem binpack_sparse_reward (cfg : Cfg) (rnd : Rat → Rat) (s : State) (e i : Int) (d : EmsDraw)
    (hd : cfg.dense = false) :
    (step cfg rnd s e i d).2.reward =
      [if (step cfg rnd s e i d).2.stepType = .last then utilisation (step cfg rnd s e i d).1 else 0] :=
  BinPack.sparse_reward cfg rnd s e i d hd

/-! #### whole episodes
An episode is a list of actions `(e, i, d)` (`d` = the EMS buffer drawn from the relation) played with `play` from a
reset state; `withDense cfg b` is the same environment with the dense (`b = true`) / sparse reward function. -/

/-- dense return along ANY legal play (complete or not) = increase of the volume utilisation -/
theorem binpack_dense_return (cfg : Cfg) (rnd : Rat → Rat) (hd : cfg.dense = true) (as : List Act) (s : State)
    (hF : Feasible s) (hf : Fresh cfg rnd s) (hlp : LegalPlay cfg rnd s as) :
    utilisation (play cfg rnd s as).1 = utilisation s + (play cfg rnd s as).2 :=
  (BinPack.dense_return cfg rnd hd as s hF hf hlp).1

/-- sparse return of an episode whose last timestep is LAST and no earlier one = utilisation of the final state -/
theorem binpack_sparse_return (cfg : Cfg) (rnd : Rat → Rat) (hd : cfg.dense = false) (as : List Act) (s : State)
    (he : EndsAtLast cfg rnd s as) : (play cfg rnd s as).2 = utilisation (play cfg rnd s as).1 :=
  BinPack.sparse_return cfg rnd hd as s he

/-- THE COMBINED EPISODE THEOREM: the same legal action list played from a reset state under both reward functions,
ending with its first LAST timestep: both runs reach the same final state `s`, dense return = sparse return =
volume utilisation of `s`; `s` is reached by the `Run` relation of C06/C11, is feasible, and nothing more can be
packed there -/
theorem binpack_episode_returns (cfg : Cfg) (rnd : Rat → Rat) (s₀ : State) (h0 : ResetShape s₀)
    (hf0 : Fresh cfg rnd s₀) (as : List Act) (hlp : LegalPlay cfg rnd s₀ as) (he : EndsAtLast cfg rnd s₀ as) :
    (play (withDense cfg true) rnd s₀ as).1 = (play cfg rnd s₀ as).1 ∧
    (play (withDense cfg false) rnd s₀ as).1 = (play cfg rnd s₀ as).1 ∧
    (play (withDense cfg true) rnd s₀ as).2 = utilisation (play cfg rnd s₀ as).1 ∧
    (play (withDense cfg false) rnd s₀ as).2 = utilisation (play cfg rnd s₀ as).1 ∧
    Run cfg rnd s₀ as.length (play cfg rnd s₀ as).1 ∧ Feasible (play cfg rnd s₀ as).1 ∧
    Complete cfg rnd (play cfg rnd s₀ as).1 := BinPack.episode_returns cfg rnd s₀ h0 hf0 as hlp he

/-- hypothesis-free form of `binpack_episode_returns`: the episode is a list of actions `(e, i)` played with the
deterministic step (`play₁`); `LegalPlay₁` = every action in the spec and legal when its turn comes; `EndsAtLast₁` =
the last timestep is LAST and no earlier one -/
theorem binpack_episode_returns₁ (cfg : Cfg) (rnd : Rat → Rat) (s₀ : State) (h0 : ResetShape s₀)
    (hf0 : Fresh cfg rnd s₀) (as : List Act₁) (hlp : LegalPlay₁ cfg rnd s₀ as) (he : EndsAtLast₁ cfg rnd s₀ as) :
    (play₁ (withDense cfg true) rnd s₀ as).1 = (play₁ cfg rnd s₀ as).1 ∧
    (play₁ (withDense cfg false) rnd s₀ as).1 = (play₁ cfg rnd s₀ as).1 ∧
    (play₁ (withDense cfg true) rnd s₀ as).2 = utilisation (play₁ cfg rnd s₀ as).1 ∧
    (play₁ (withDense cfg false) rnd s₀ as).2 = utilisation (play₁ cfg rnd s₀ as).1 ∧
    Run₁ cfg rnd s₀ as.length (play₁ cfg rnd s₀ as).1 ∧ Feasible (play₁ cfg rnd s₀ as).1 ∧
    Complete cfg rnd (play₁ cfg rnd s₀ as).1 := BinPack.episode_returns₁ cfg rnd s₀ h0 hf0 as hlp he

/-! #### an objective that does not share code with the reward (audit r1 entry 9)
`coveredFraction s` counts, unit cell by unit cell, the cells of the container that lie in a placed item and divides by
the number of cells of the container (`coveredCells`, `Space.cells`, `coverCount`); `utilisation` (what L1 `reward`
calls) is Σ placed item volumes / container volume. -/

/-- for a feasible packing whose placed items have non-negative sides in a proper container, the two agree -/
theorem binpack_utilisation_eq_covered (s : State) (hF : Feasible s) (hnn : PlacedNonneg s)
    (hc : s.container.Proper) : utilisation s = coveredFraction s :=
  BinPack.utilisation_eq_covered s ⟨hF.2.1, hF.2.2.1⟩ hnn hc

/-- whole episodes: legal play of the deterministic step from a reset state whose present items have positive
sides (certificate `items_positive` of C10): both returns are the covered fraction of the final state -/
theorem binpack_episode_returns_covered (cfg : Cfg) (rnd : Rat → Rat) (s₀ : State) (h0 : ResetShape s₀)
    (hf0 : Fresh cfg rnd s₀) (hpos : ItemsPositive s₀) (as : List Act₁) (hlp : LegalPlay₁ cfg rnd s₀ as)
    (he : EndsAtLast₁ cfg rnd s₀ as) :
    (play₁ (withDense cfg true) rnd s₀ as).2 = coveredFraction (play₁ cfg rnd s₀ as).1 ∧
    (play₁ (withDense cfg false) rnd s₀ as).2 = coveredFraction (play₁ cfg rnd s₀ as).1 := by
  obtain ⟨_, _, h3, h4, h5, _⟩ := BinPack.episode_returns₁ cfg rnd s₀ h0 hf0 as hlp he
  have := BinPack.run_utilisation_eq_covered cfg rnd s₀ h0 hf0 hpos _ _ (BinPack.run₁_run cfg rnd s₀ h0 hf0 _ _ h5)
  rw [h3, h4, this]; exact ⟨rfl, rfl⟩

/-- `LegalPlay` lists and the `Run` relation describe the same episodes -/
theorem binpack_run_iff_play (cfg : Cfg) (rnd : Rat → Rat) (s₀ : State) (n : Nat) (s : State) :
    Run cfg rnd s₀ n s ↔ ∃ as : List Act, as.length = n ∧ LegalPlay cfg rnd s₀ as ∧ (play cfg rnd s₀ as).1 = s :=
  ⟨BinPack.run_legalPlay cfg rnd s₀ n s,
   fun ⟨as, hl, hp, hs⟩ => hl ▸ hs ▸ BinPack.legalPlay_run cfg rnd as s₀ hp⟩

/-- the hypotheses are satisfiable: two 2×2×1 items into a 2×2×2 container shown through 2 EMS slots; the episode
has two steps, the second is LAST, both returns are 1 -/
private def exS : State :=
  { container := ⟨0, 2, 0, 2, 0, 2⟩, ems := [⟨0, 2, 0, 2, 0, 2⟩, ⟨0, 0, 0, 0, 0, 0⟩], emsMask := [true, false]
    items := [⟨2, 2, 1⟩, ⟨2, 2, 1⟩], itemsMask := [true, true], itemsPlaced := [false, false]
    itemsLoc := [⟨0, 0, 0⟩, ⟨0, 0, 0⟩], actionMask := [[true, true], [false, false]], sortedIdx := [0, 1] }
private def exAs : List Act :=
  [(0, 0, ⟨[⟨0, 2, 0, 2, 1, 2⟩, ⟨0, 0, 0, 0, 0, 0⟩], [true, false]⟩),
   (0, 1, ⟨[⟨0, 2, 0, 2, 1, 2⟩, ⟨0, 0, 0, 0, 0, 0⟩], [false, false]⟩)]
example : ResetShape exS ∧ Fresh ⟨2, false, true⟩ id exS := by decide +kernel
example : LegalPlay ⟨2, false, true⟩ id exS exAs := by simp only [LegalPlay, exAs]; decide +kernel
example : EndsAtLast ⟨2, false, true⟩ id exS exAs := by simp only [EndsAtLast, exAs]; decide +kernel
example : (play (withDense ⟨2, false, true⟩ true) id exS exAs).2 = 1 ∧
    (play (withDense ⟨2, false, true⟩ false) id exS exAs).2 = 1 := by decide +kernel
/-- the same episode under the deterministic step, started from `reset` itself -/
private def exR : State := (reset ⟨2, false, true⟩ id ⟨2, 2, 2⟩ 2 [⟨2, 2, 1⟩, ⟨2, 2, 1⟩] [true, true]).1
example : exR = exS := by decide +kernel
example : LegalPlay₁ ⟨2, false, true⟩ id exR [(0, 0), (0, 1)] := by simp only [LegalPlay₁]; decide +kernel
example : EndsAtLast₁ ⟨2, false, true⟩ id exR [(0, 0), (0, 1)] := by simp only [EndsAtLast₁]; decide +kernel
example : ItemsPositive exR ∧ coveredCells (play₁ ⟨2, false, true⟩ id exR [(0, 0)]).1 = 4 ∧
    coveredFraction (play₁ ⟨2, false, true⟩ id exR [(0, 0)]).1 = 1 / 2 := by decide +kernel
example : (play₁ (withDense ⟨2, false, true⟩ true) id exR [(0, 0), (0, 1)]).2 = 1 ∧
    (play₁ (withDense ⟨2, false, true⟩ false) id exR [(0, 0), (0, 1)]).2 = 1 := by decide +kernel
end Props.C08

namespace Props.C09
/-- the deterministic L1 step against the rules, legal case: the successor state is the state with item `i` placed
in the corner of the EMS shown in slot `e` (`packed`: only `items_location[i]`, `items_placed[i]` and the EMS buffer
change; the buffer becomes `updateEms s e i`), with the two caches recomputed (`makeObs`); the step is LAST exactly
when nothing more can be packed (`completeB`, `Props.C06.binpack_complete_iff`); the illegal case is
`Props.C05.binpack_illegal_terminates` (state unchanged, LAST).  The sweep of this property compares `step₁` with the
implementation on whole transitions, every state field slot by slot -/
theorem binpack_step_rules (cfg : Cfg) (rnd : Rat → Rat) (s : State) (hw : WF s) (hf : Fresh cfg rnd s)
    (e i : Nat) (hs : InSpec cfg s e i) (hl : legal cfg rnd s e i) :
    (step₁ cfg rnd s e i).1 = (makeObs cfg rnd (packed s (shownEms rnd s e) i (updateEms s e i))).1 ∧
    (step₁ cfg rnd s e i).2.obs = observe cfg rnd (step₁ cfg rnd s e i).1 ∧
    (step₁ cfg rnd s e i).2.stepType =
      (if completeB cfg rnd (step₁ cfg rnd s e i).1 = true then StepType.last else StepType.mid) := by
  refine ⟨BinPack.legal_step_fst cfg rnd s hw hf e i hs _ hl, BinPack.obs_faithful₁ cfg rnd s hw e i, ?_⟩
  have hv := (BinPack.stepValid_iff_legal cfg rnd s hw hf e i hs).mpr hl
  have hw' := BinPack.step₁_WF cfg rnd s hw e i
  have hf' := BinPack.step₁_fresh cfg rnd s e i
  unfold completeB
  rw [← BinPack.maskOf_eq_legalMask cfg rnd _ hw', ← hf'.1]
  unfold step₁
  rw [BinPack.step_stepType, hv]
  cases hany : ((step cfg rnd s e i (updateEms s e i)).1.actionMask.any fun r => r.any id) <;> simp
end Props.C09

namespace Props.C11
/-- every non-terminal step packs exactly one more item -/
theorem binpack_progress (cfg : Cfg) (rnd : Rat → Rat) (s : State) (hw : WF s) (hf : Fresh cfg rnd s)
    (e i : Nat) (hs : InSpec cfg s e i) (d : EmsDraw) (h : (step cfg rnd s e i d).2.stepType ≠ .last) :
    Jx.countTrue (step cfg rnd s e i d).1.itemsPlaced = Jx.countTrue s.itemsPlaced + 1 :=
  BinPack.progress cfg rnd s hw hf e i hs d h

/-- an episode of legal play from a reset state has at most `number of items` steps -/
theorem binpack_horizon (cfg : Cfg) (rnd : Rat → Rat) (s₀ : State) (h0 : ResetShape s₀)
    (hf0 : Fresh cfg rnd s₀) (n : Nat) (s : State) (hr : Run cfg rnd s₀ n s) : n ≤ s₀.items.length :=
  BinPack.horizon cfg rnd s₀ h0 hf0 n s hr

/-- hypothesis-free form: legal play of the deterministic step -/
theorem binpack_horizon₁ (cfg : Cfg) (rnd : Rat → Rat) (s₀ : State) (h0 : ResetShape s₀)
    (hf0 : Fresh cfg rnd s₀) (n : Nat) (s : State) (hr : Run₁ cfg rnd s₀ n s) : n ≤ s₀.items.length :=
  BinPack.horizon cfg rnd s₀ h0 hf0 n s (BinPack.run₁_run cfg rnd s₀ h0 hf0 n s hr)

/-- AUDIT r1 ENTRY 16: play ANY in-spec actions (legal or illegal) from a reset state with the deterministic step.
If the action list is at least `max 1 (number of item slots)` long, a LAST timestep IS emitted, and the first one
is timestep number `t` with `1 ≤ t ≤ max 1 (number of item slots)` (`firstLast₁` = number of the first LAST
timestep).  From `binpack_progress` (a non-LAST step packs one more item and leaves a legal action, hence an
unplaced item) and `binpack_illegal_terminates` -/
theorem binpack_first_last_le (cfg : Cfg) (rnd : Rat → Rat) (s₀ : State) (h0 : ResetShape s₀)
    (hf0 : Fresh cfg rnd s₀) (as : List Act₁) (hp : InSpecPlay₁ cfg rnd s₀ as)
    (hlen : max 1 s₀.items.length ≤ as.length) :
    ∃ t, firstLast₁ cfg rnd s₀ as = some t ∧ 1 ≤ t ∧ t ≤ max 1 s₀.items.length :=
  BinPack.first_last_le cfg rnd s₀ h0 hf0 as hp hlen

/-- sharp form: the bound counted in PRESENT items (`jnp.sum(items_mask)`), padding slots excluded -/
theorem binpack_first_last_le_present (cfg : Cfg) (rnd : Rat → Rat) (s₀ : State) (h0 : ResetShape s₀)
    (hf0 : Fresh cfg rnd s₀) (as : List Act₁) (hp : InSpecPlay₁ cfg rnd s₀ as)
    (hlen : max 1 (Jx.countTrue s₀.itemsMask) ≤ as.length) :
    ∃ t, firstLast₁ cfg rnd s₀ as = some t ∧ 1 ≤ t ∧ t ≤ max 1 (Jx.countTrue s₀.itemsMask) :=
  BinPack.first_last_le_present cfg rnd s₀ h0 hf0 as hp hlen

/-- two 2×2×1 items into a 2×2×2 container: the play `(0,0), (0,1)` is in the spec and its first LAST is timestep 2;
the play `(1,0), (0,0)` (slot 1 shows an inactive EMS: illegal) ends at timestep 1 -/
private def exR : State := (reset ⟨2, false, true⟩ id ⟨2, 2, 2⟩ 2 [⟨2, 2, 1⟩, ⟨2, 2, 1⟩] [true, true]).1
example : ResetShape exR ∧ Fresh ⟨2, false, true⟩ id exR := by decide +kernel
example : InSpecPlay₁ ⟨2, false, true⟩ id exR [(0, 0), (0, 1)] := by simp only [InSpecPlay₁]; decide +kernel
example : firstLast₁ ⟨2, false, true⟩ id exR [(0, 0), (0, 1)] = some 2 ∧
    firstLast₁ ⟨2, false, true⟩ id exR [(1, 0), (0, 0)] = some 1 := by decide +kernel
end Props.C11

namespace Props.C12
/-- the observation returned by `step` is the documented function of the successor state (for
every EMS buffer whose mask and coordinate arrays have the same length) -/
theorem binpack_obs_faithful (cfg : Cfg) (rnd : Rat → Rat) (s : State) (hw : WF s) (e i : Int)
    (d : EmsDraw) (hd : d.mask.length = d.ems.length) :
    (step cfg rnd s e i d).2.obs = observe cfg rnd (step cfg rnd s e i d).1 :=
  BinPack.obs_faithful cfg rnd s hw e i d hd

/-- hypothesis-free form for the deterministic step: ANY action `(e, i) : Int × Int` -/
theorem binpack_obs_faithful₁ (cfg : Cfg) (rnd : Rat → Rat) (s : State) (hw : WF s) (e i : Int) :
    (step₁ cfg rnd s e i).2.obs = observe cfg rnd (step₁ cfg rnd s e i).1 :=
  BinPack.obs_faithful₁ cfg rnd s hw e i

/-- reset form (audit r1, gaps): the first observation is the documented function of the reset state -/
theorem binpack_reset_obs_faithful (cfg : Cfg) (rnd : Rat → Rat) (dm : Dims) (maxEms : Nat) (items : List Item)
    (itemsMask : List Bool) (hm : itemsMask.length = items.length) :
    (reset cfg rnd dm maxEms items itemsMask).2.obs = observe cfg rnd (reset cfg rnd dm maxEms items itemsMask).1 :=
  BinPack.reset_obs_faithful cfg rnd dm maxEms items itemsMask hm

/-- the order in which EMSs are shown enumerates every EMS slot exactly once, by decreasing
(float) volume with inactive slots counted as 0, equal volumes by increasing slot number (stable
`argsort`); the observation shows the first `obs_num_ems` of them -/
theorem binpack_obs_ems_largest (cfg : Cfg) (rnd : Rat → Rat) (s : State) (hw : WF s) :
    (sortedOf rnd s).Perm (List.range s.ems.length) ∧
    (sortedOf rnd s).Pairwise (before (fun k => (emsKeys rnd s).getD k 0)) ∧
    (∀ k, k < s.ems.length → (emsKeys rnd s).getD k 0 =
      Space.volumeF rnd (s.ems.getD k default) * (if s.emsMask.getD k false then 1 else 0)) ∧
    (observe cfg rnd s).emsMask = ((sortedOf rnd s).take cfg.obsNum).map (fun k => s.emsMask.getD k false) :=
  ⟨(BinPack.sortedOf_spec rnd s hw).1, (BinPack.sortedOf_spec rnd s hw).2,
   fun k hk => BinPack.emsKeys_getD rnd s hw k hk, BinPack.observe_emsMask cfg rnd s hw⟩

/-- slot `e` of the observation shows the `e`-th EMS of that order, every coordinate divided by the
container length on its axis when `normalize_dimensions`, the raw integers otherwise -/
theorem binpack_normalised_ems (cfg : Cfg) (rnd : Rat → Rat) (s : State) (e : Nat)
    (he : e < min cfg.obsNum s.ems.length) :
    (observe cfg rnd s).ems[e]? = some (
      let k := shownEms rnd s e
      let em := s.ems.getD k default
      let c := s.container
      if cfg.normalize then
        ⟨(em.x1 : Rat) / (c.x2 - c.x1 : Int), (em.x2 : Rat) / (c.x2 - c.x1 : Int),
         (em.y1 : Rat) / (c.y2 - c.y1 : Int), (em.y2 : Rat) / (c.y2 - c.y1 : Int),
         (em.z1 : Rat) / (c.z2 - c.z1 : Int), (em.z2 : Rat) / (c.z2 - c.z1 : Int)⟩
      else ⟨em.x1, em.x2, em.y1, em.y2, em.z1, em.z2⟩) := BinPack.observe_ems_getD cfg rnd s e he

/-- item sizes are shown divided by the container dimensions when `normalize_dimensions` -/
theorem binpack_normalised_items (cfg : Cfg) (rnd : Rat → Rat) (s : State) (i : Nat) (hi : i < s.items.length) :
    (observe cfg rnd s).items[i]? = some (
      let it := s.items.getD i default
      let c := s.container
      if cfg.normalize then
        ⟨(it.xl : Rat) / (c.x2 - c.x1 : Int), (it.yl : Rat) / (c.y2 - c.y1 : Int), (it.zl : Rat) / (c.z2 - c.z1 : Int)⟩
      else ⟨it.xl, it.yl, it.zl⟩) := BinPack.observe_items cfg rnd s i hi
end Props.C12

namespace Props.C10
/-! `RandomGenerator` builds its instance by repeatedly cutting one box of the current family in two
along an axis (`_split_item_once`; `_split_item_multiple_times` is a sequence of such cuts),
dropping boxes that became empty, and writing new boxes to arbitrary free slots.  Each of these
operations preserves "the boxes tile the container" (`Tiles`: proper boxes inside the container,
pairwise non-overlapping, volumes adding up to the container volume), for all sizes and cut
positions.  The certificate `PerfectPacking` (the same three facts, recomputed by the driver from
the state returned by `generate_solution`) ties the real generator to this on every instance. -/

theorem binpack_split_base (c : Space) (hc : c.Proper) : Tiles c [c] := BinPack.tiles_base c hc

theorem binpack_split_tiles (c : Space) (l₁ l₂ : List Space) (b : Space) (ax : Nat) (p : Int)
    (h : Tiles c (l₁ ++ b :: l₂)) (h1 : axLo ax b ≤ p) (h2 : p ≤ axHi ax b) :
    Tiles c (l₁ ++ cutLo ax b p :: cutHi ax b p :: l₂) := BinPack.tiles_cut c l₁ l₂ b ax p h h1 h2

theorem binpack_split_drop_empty (c : Space) (l₁ l₂ : List Space) (b : Space)
    (h : Tiles c (l₁ ++ b :: l₂)) (he : b.isEmpty = true) : Tiles c (l₁ ++ l₂) :=
  BinPack.tiles_drop_empty c l₁ l₂ b h he

theorem binpack_split_perm (c : Space) (l l' : List Space) (h : Tiles c l) (hp : l.Perm l') : Tiles c l' :=
  BinPack.tiles_perm c l l' h hp

/-! #### the transliterated generator (audit r1 entry 11)
`splitGenerate g rnd c draws` (Model.lean) = `RandomGenerator._split_container_into_items_spaces`: the `while_loop`
with one `SplitDraw` (axis, space, mode, cut position / number of pieces) per iteration, the cut positions computed by
the code's float32 expressions in the code's order of evaluation (`rnd` = float32 rounding), empty pieces dropped.
The state is the list of active spaces (slot bookkeeping abstracted, `binpack_split_perm`).
`RndOK rnd B`: `rnd` is monotone and exact on the integers `0 … B`;  `GenBound g c B`: `1 ≤ B`,
`split_num_same_items ≤ B` and `max 1 split_num_same_items · side ≤ B` for the three sides of the container. -/

/-- for every container with non-negative sides, every `0 ≤ split_eps ≤ 1`, every list of admissible draws
(`ValidSplitDraws`: what `jax.random.choice / randint` can return) the generated item spaces tile the container -/
theorem binpack_splitGenerate_tiles (g : GenCfg) (rnd : Rat → Rat) (B : Int) (hr : RndOK rnd B) (c : Space)
    (hc : c.Proper) (hB : GenBound g c B) (he0 : 0 ≤ g.eps) (he1 : g.eps ≤ 1) (ds : List SplitDraw)
    (hv : ValidSplitDraws g rnd [c] ds) : Tiles c (splitGenerate g rnd c ds) :=
  BinPack.splitGenerate_tiles g rnd B hr c hc hB he0 he1 ds hv

/-- float32, the arithmetic of the real code: exact as long as `max 1 split_num_same_items · side < 2^24` -/
theorem binpack_splitGenerate_tiles_f32 (g : GenCfg) (c : Space) (hc : c.Proper) (hB : GenBound g c 16777215)
    (he0 : 0 ≤ g.eps) (he1 : g.eps ≤ 1) (ds : List SplitDraw) (hv : ValidSplitDraws g Jx.roundF32 [c] ds) :
    Tiles c (splitGenerate g Jx.roundF32 c ds) :=
  BinPack.splitGenerate_tiles g Jx.roundF32 16777215 BinPack.rndOK_f32 c hc hB he0 he1 ds hv

/-- exact arithmetic (`rnd = id`): no size restriction -/
theorem binpack_splitGenerate_tiles_exact (g : GenCfg) (c : Space) (hc : c.Proper) (he0 : 0 ≤ g.eps) (he1 : g.eps ≤ 1)
    (ds : List SplitDraw) (hv : ValidSplitDraws g id [c] ds) : Tiles c (splitGenerate g id c ds) := by
  let B : Int := 1 + g.splitNum + (max 1 g.splitNum : Nat) * ((c.x2 - c.x1) + (c.y2 - c.y1) + (c.z2 - c.z1))
  have hx : 0 ≤ c.x2 - c.x1 := by have := hc.1; omega
  have hy : 0 ≤ c.y2 - c.y1 := by have := hc.2.1; omega
  have hz : 0 ≤ c.z2 - c.z1 := by have := hc.2.2; omega
  have hm : (0 : Int) ≤ ((max 1 g.splitNum : Nat) : Int) := by omega
  have hmx := Int.mul_nonneg hm hx
  have hmy := Int.mul_nonneg hm hy
  have hmz := Int.mul_nonneg hm hz
  refine BinPack.splitGenerate_tiles g id B (BinPack.rndOK_id B) c hc ⟨?_, ?_, fun ax => ?_⟩ he0 he1 ds hv
  · show 1 ≤ 1 + (g.splitNum : Int) + _ * _
    rw [Int.mul_add, Int.mul_add]; omega
  · show (g.splitNum : Int) ≤ 1 + (g.splitNum : Int) + _ * _
    rw [Int.mul_add, Int.mul_add]; omega
  · show _ ≤ 1 + (g.splitNum : Int) + _ * _
    rw [Int.mul_add, Int.mul_add]
    rcases ax with _ | _ | _ <;> simp only [axHi, axLo] <;> omega

/-- every generated item space is non-empty (certificate `items_positive`) -/
theorem binpack_splitGenerate_nonempty (g : GenCfg) (rnd : Rat → Rat) (c : Space) (hc : c.isEmpty = false)
    (ds : List SplitDraw) : ∀ b ∈ splitGenerate g rnd c ds, b.isEmpty = false :=
  BinPack.splitLoop_nonempty g rnd ds [c] (by intro b hb; simp at hb; subst hb; exact hc)

/-- `generate_solution` TIED TO THE RESET INSTANCE (audit r1, gaps).  `solvedState c maxEms bs` is the state
`_generate_solved_instance` builds from the generated spaces (each an item placed at its own corner),
`unpackItems` is `Generator._unpack_items`, i.e. `generator(key) = unpackItems (generate_solution key)`.  For every
admissible draw list, in float32: the solution is a perfect packing (certificates `solution_perfect_packing`,
`solution_feasible` of the driver), feasible and complete; the reset state is the same instance (container, items, item
mask — certificate `solution_same_instance`), has `ResetShape` (hence is feasible, `binpack_reset_feasible`) and
positive items (`items_positive`) -/
theorem binpack_generated_solution (g : GenCfg) (c : Space) (maxEms : Nat) (cfg : Cfg) (rnd : Rat → Rat)
    (hc1 : c.x1 = 0 ∧ c.y1 = 0 ∧ c.z1 = 0) (hc2 : 0 < c.x2 ∧ 0 < c.y2 ∧ 0 < c.z2) (hB : GenBound g c 16777215)
    (he0 : 0 ≤ g.eps) (he1 : g.eps ≤ 1) (ds : List SplitDraw) (hv : ValidSplitDraws g Jx.roundF32 [c] ds) :
    let sol := solvedState c maxEms (splitGenerate g Jx.roundF32 c ds)
    let s₀ := unpackItems sol
    PerfectPacking sol ∧ PlacedNonneg sol ∧ Feasible sol ∧ Complete cfg rnd sol ∧
    s₀.container = sol.container ∧ s₀.items = sol.items ∧ s₀.itemsMask = sol.itemsMask ∧
    ResetShape s₀ ∧ ItemsPositive s₀ ∧ presentVolume s₀ = s₀.container.volume := by
  intro sol s₀
  have hcp : c.Proper := by unfold Space.Proper; omega
  have hce : c.isEmpty = false := by
    simp only [Space.isEmpty, Bool.or_eq_false_iff, decide_eq_false_iff_not]; omega
  have ht := binpack_splitGenerate_tiles_f32 g c hcp hB he0 he1 ds hv
  obtain ⟨h1, h2, h3, h4⟩ := BinPack.solved_perfect c maxEms _ ht cfg rnd
  obtain ⟨h5, h6, h7, h8⟩ := BinPack.unpack_reset c maxEms (splitGenerate g Jx.roundF32 c ds) hc1 hc2
  refine ⟨h1, h2, h3, h4, h5, h6, h7, h8,
    BinPack.unpack_itemsPositive c maxEms _ (binpack_splitGenerate_nonempty g Jx.roundF32 c hce ds), ?_⟩
  -- the volumes of the present items add up: same items and mask as the solution, where placed = mask
  have : presentVolume s₀ = placedVolume sol := by
    unfold presentVolume placedVolume
    rw [h6, h7]; rfl
  rw [this, h5]; exact h1.2.2.2

/-- the hypotheses are satisfiable, in float32: the 13×7×10 container of the sweep configuration, `max_num_items = 12`,
`split_num_same_items = 5`, `split_eps = 0.3`; a 3-way split of the x axis (13/3 in float32: pieces 4, 4, 5), then a
binary cut of the second piece along z, then a 5-way split of the last piece along y (7/5: pieces 1, 1, 2, 1, 2) -/
private def exG : GenCfg := ⟨12, 5, 3 / 10⟩
private def exD : List SplitDraw := [⟨0, 0, false, 0, 3⟩, ⟨2, 1, true, 4, 0⟩, ⟨1, 3, false, 0, 5⟩]
example : GenBound exG ⟨0, 13, 0, 7, 0, 10⟩ 16777215 := by
  refine ⟨by decide, by decide, fun ax => ?_⟩
  rcases ax with _ | _ | _ <;> simp [axHi, axLo, exG] <;> decide
example : ValidSplitDraws exG Jx.roundF32 [⟨0, 13, 0, 7, 0, 10⟩] exD := by
  simp only [ValidSplitDraws, exD]; decide +kernel
example : splitGenerate exG Jx.roundF32 ⟨0, 13, 0, 7, 0, 10⟩ exD =
    [⟨0, 4, 0, 7, 0, 10⟩, ⟨4, 8, 0, 7, 0, 4⟩, ⟨4, 8, 0, 7, 4, 10⟩, ⟨8, 13, 0, 1, 0, 10⟩, ⟨8, 13, 1, 2, 0, 10⟩,
     ⟨8, 13, 2, 4, 0, 10⟩, ⟨8, 13, 4, 5, 0, 10⟩, ⟨8, 13, 5, 7, 0, 10⟩] := by decide +kernel

/-- a generated reset state is a feasible starting point of an episode -/
theorem binpack_reset_feasible (s : State) (h : ResetShape s) : Feasible s := BinPack.reset_feasible s h

example : Tiles ⟨0, 4, 0, 4, 0, 4⟩ [⟨0, 1, 0, 4, 0, 4⟩, ⟨1, 4, 0, 4, 0, 4⟩] :=
  BinPack.tiles_cut ⟨0, 4, 0, 4, 0, 4⟩ [] [] ⟨0, 4, 0, 4, 0, 4⟩ 0 1
    (BinPack.tiles_base _ (by unfold Space.Proper; decide)) (by decide) (by decide)

/-! #### from the volume certificate to point-wise exact cover
`b.hasCell (x, y, z)`: the unit cell `[x,x+1)×[y,y+1)×[z,z+1)` lies in the box `b` (integer corners, as in the code);
`coverCount bs p` = number of boxes of `bs` containing the unit cell `p`;  `placedBoxes s` = the boxes occupied by the
placed items of `s`, in index order;  `PlacedNonneg s` = placed items have non-negative sides. -/

/-- EXACT COVER (counting argument over unit cells): in a tiling every unit cell of the container lies in exactly
one box, and a unit cell outside the container in none -/
theorem binpack_tiles_exact_cover (c : Space) (bs : List Space) (h : Tiles c bs) (p : Cell) :
    coverCount bs p = if c.hasCell p then 1 else 0 := by
  cases hp : c.hasCell p
  · exact BinPack.tiles_outside c bs h p hp
  · exact BinPack.tiles_exact_cover c bs h p hp

/-- the same with the covering box named by its (unique) position in the list -/
theorem binpack_tiles_exists_unique (c : Space) (bs : List Space) (h : Tiles c bs) (p : Cell)
    (hp : c.hasCell p = true) :
    ∃ k, (∃ hk : k < bs.length, bs[k].hasCell p = true) ∧
      ∀ k', (∃ hk : k' < bs.length, bs[k'].hasCell p = true) → k' = k :=
  BinPack.tiles_exists_unique c bs h p hp

/-- THE LINK: the index-level certificate `PerfectPacking` the driver evaluates on `generate_solution` (plus
non-negative sides) is exactly the list-level `Tiles` of the placed boxes that the splitting theorems preserve -/
theorem binpack_perfectPacking_iff_tiles (s : State) :
    (PerfectPacking s ∧ PlacedNonneg s) ↔
      (WF s ∧ s.itemsPlaced = s.itemsMask ∧ Tiles s.container (placedBoxes s)) :=
  BinPack.perfectPacking_iff_tiles s

/-- `PlacedNonneg` follows from the certificate `ItemsPositive` of the instance -/
theorem binpack_placedNonneg (s : State) (hp : ItemsPositive s) (hm : s.itemsPlaced = s.itemsMask) :
    PlacedNonneg s := BinPack.placedNonneg_of_positive s hp hm

/-- exact cover at index level: in a perfect packing every unit cell of the container lies in exactly one placed
item, and no unit cell outside the container lies in a placed item -/
theorem binpack_perfectPacking_exact_cover (s : State) (hp : PerfectPacking s) (hnn : PlacedNonneg s) (p : Cell)
    (hc : s.container.hasCell p = true) :
    ∃ i, (i < s.items.length ∧ s.itemsPlaced.getD i false = true ∧ (placedSpace s i).hasCell p = true) ∧
      ∀ j, (j < s.items.length ∧ s.itemsPlaced.getD j false = true ∧ (placedSpace s j).hasCell p = true) →
        j = i := BinPack.perfectPacking_exact_cover s hp hnn p hc
theorem binpack_perfectPacking_outside (s : State) (hp : PerfectPacking s) (p : Cell)
    (hc : s.container.hasCell p = false) (i : Nat) (hi : i < s.items.length)
    (hpi : s.itemsPlaced.getD i false = true) : (placedSpace s i).hasCell p = false :=
  BinPack.perfectPacking_outside s hp p hc i hi hpi

/-- the hypotheses are satisfiable: a 2×2×2 container packed with a 2×2×1 slab and two 1×2×1 bars -/
private def exP : State :=
  { container := ⟨0, 2, 0, 2, 0, 2⟩, ems := [⟨0, 0, 0, 0, 0, 0⟩], emsMask := [false]
    items := [⟨2, 2, 1⟩, ⟨1, 2, 1⟩, ⟨1, 2, 1⟩, ⟨0, 0, 0⟩], itemsMask := [true, true, true, false]
    itemsPlaced := [true, true, true, false], itemsLoc := [⟨0, 0, 0⟩, ⟨0, 0, 1⟩, ⟨1, 0, 1⟩, ⟨0, 0, 0⟩]
    actionMask := [[false, false, false, false]], sortedIdx := [0] }
example : PerfectPacking exP ∧ PlacedNonneg exP ∧ ItemsPositive exP := by decide +kernel
example : coverCount (placedBoxes exP) (1, 1, 1) = 1 ∧ coverCount (placedBoxes exP) (2, 1, 1) = 0 := by
  decide +kernel
end Props.C10
