/-
Property theorems for Maze.  Only statements (helper lemmas and proofs live in Env/Maze/Lemmas.lean).
All theorems hold for every grid size (square or not), every wall layout and every state satisfying the
stated hypotheses; `Inv` = well-shaped walls + fresh cached mask, `Consistent` = `Inv` + agent and target
on free cells.
-/
import JumanjiModel.Env.Maze.Lemmas
import JumanjiModel.Env.Maze.MazeGenLemmas
import JumanjiModel.Env.Maze.FloodLemmas
import JumanjiModel.Env.Maze.BoundsLemmas
import JumanjiModel.Env.Maze.RunLemmas
import JumanjiModel.Env.SpecTieSSM
import JumanjiModel.Env.Maze.SpecValid
open Jm Maze

/-- a 2×3 maze (non-square) with one wall, agent at (0,0), target at (1,2) -/
def Props.mazeEx : State :=
  { agent := (0, 0), target := (1, 2), walls := [[false, true, false], [false, false, false]],
    actionMask := [false, false, true, false], stepCount := 0 }
def Props.mazeCfg : Cfg := { numRows := 2, numCols := 3, timeLimit := 6 }

namespace Props.C04
/-- the mask computed by `_compute_action_mask` is exactly the list of legal moves (all four at once) -/
theorem maze_mask_eq_legal (cfg : Cfg) (s : State)
    (hs : Jx.Grid.shaped s.walls cfg.numRows cfg.numCols = true) :
    computeMask cfg s.walls s.agent = legalMask cfg s := Maze.computeMask_eq cfg s hs

/-- bit `a` of the mask is set exactly when the rules allow move `a` (also for `a ≥ 4`: never) -/
theorem maze_mask_iff_legal (cfg : Cfg) (s : State)
    (hs : Jx.Grid.shaped s.walls cfg.numRows cfg.numCols = true) (a : Nat) :
    (computeMask cfg s.walls s.agent).getD a false = true ↔ legal cfg s a := Maze.mask_iff_legal cfg s hs a

/-- `step` agrees with the rules about which actions are valid (audit r2 #6: a statement about `step`, not about
the mask lookup): from a state with a fresh cached mask, `step` moves the agent to the neighbouring cell in
direction `a` exactly when the rules allow that move, and leaves it where it is exactly when they do not -/
theorem maze_step_agrees (cfg : Cfg) (s : State) (hi : Inv cfg s) (a : Nat) (ha : a < 4) :
    ((step cfg s (a : Int)).1.agent = dest s.agent a ↔ legal cfg s a) ∧
    ((step cfg s (a : Int)).1.agent = s.agent ↔ ¬ legal cfg s a) := Maze.step_moves_iff cfg s hi a ha

example : (step Props.mazeCfg Props.mazeEx 2).1.agent = (1, 0) ∧ (step Props.mazeCfg Props.mazeEx 1).1.agent = (0, 0) := by
  decide

/-- the successor's cached mask is fresh, so the invariant used above is maintained by every step -/
theorem maze_cached_mask (cfg : Cfg) (s : State) (a : Int)
    (hs : Jx.Grid.shaped s.walls cfg.numRows cfg.numCols = true) :
    (step cfg s a).1.actionMask = legalMask cfg (step cfg s a).1 := Maze.step_mask_fresh cfg s a hs

example : Inv Props.mazeCfg Props.mazeEx := by decide
example : legal Props.mazeCfg Props.mazeEx 2 ∧ ¬ legal Props.mazeCfg Props.mazeEx 1 := by decide
end Props.C04

namespace Props.C05
/-- an illegal in-spec move is ignored: agent, walls and target unchanged, the step counter advances, and
the Lean predicate `illegalIgnored` (fresh mask, ordinary reward, LAST only for an ordinary cause) holds -/
theorem maze_illegal_ignored (cfg : Cfg) (s : State) (hi : Inv cfg s) (a : Nat) (ha : a < 4)
    (hl : ¬ legal cfg s a) :
    (step cfg s (a : Int)).1.agent = s.agent ∧ (step cfg s (a : Int)).1.walls = s.walls ∧
    (step cfg s (a : Int)).1.target = s.target ∧ (step cfg s (a : Int)).1.stepCount = s.stepCount + 1 ∧
    illegalIgnored cfg s (step cfg s (a : Int)).1 (step cfg s (a : Int)).2 = true :=
  Maze.illegal_ignored cfg s hi a ha hl
end Props.C05

namespace Props.C07
/-- ANY in-spec action keeps the configuration physically possible: agent inside the `numRows × numCols`
grid and not in a wall, target likewise, walls well-shaped, stored mask consistent with the walls -/
theorem maze_step_consistent (cfg : Cfg) (s : State) (hc : Consistent cfg s) (a : Nat) (ha : a < 4) :
    Consistent cfg (step cfg s (a : Int)).1 := Maze.step_consistent cfg s hc a ha

/-- walls and target never change -/
theorem maze_conserved (cfg : Cfg) (s : State) (a : Int) : conserved s (step cfg s a).1 = true :=
  Maze.step_conserved cfg s a

example : Consistent Props.mazeCfg Props.mazeEx := by decide
end Props.C07

namespace Props.C08
/-- the reward of a step is 1 exactly when the successor is at the target -/
theorem maze_reward (cfg : Cfg) (s : State) (a : Int)
    (hs : Jx.Grid.shaped s.walls cfg.numRows cfg.numCols = true) :
    (step cfg s a).2.reward = [objective (step cfg s a).1] := Maze.reward_eq cfg s a hs

/-- a step that does not end the episode has reward 0 -/
theorem maze_mid_reward_zero (cfg : Cfg) (s : State) (a : Int)
    (hs : Jx.Grid.shaped s.walls cfg.numRows cfg.numCols = true)
    (hm : (step cfg s a).2.stepType ≠ .last) : (step cfg s a).2.reward = [0] :=
  Maze.mid_reward_zero cfg s a hs hm

/-- the return of an episode (any actions) is 1 if its final state is at the target and 0 otherwise -/
theorem maze_episode_return (cfg : Cfg) (s : State) (as : List Int) (hne : as ≠ [])
    (hs : Jx.Grid.shaped s.walls cfg.numRows cfg.numCols = true) (he : isEpisode cfg s as) :
    runReturn cfg s as = objective (runState cfg s as) := Maze.episode_return cfg s as hne hs he
end Props.C08

namespace Props.C09
/-- L1 = L2: under the invariant the transliterated `step` is the rules' `stepSpec`
(successor state, reward, step type, discount, observation) -/
theorem maze_step_refines (cfg : Cfg) (s : State) (hi : Inv cfg s) (a : Nat) (ha : a < 4) :
    step cfg s (a : Int) = stepSpec cfg s a := Maze.step_refines cfg s hi a ha

/-- for ANY action value the timestep is the documented function of the successor state -/
theorem maze_timestep_spec (cfg : Cfg) (s : State) (a : Int)
    (hs : Jx.Grid.shaped s.walls cfg.numRows cfg.numCols = true) :
    (step cfg s a).2 = condLast (decide (endsSpec cfg (step cfg s a).1)) [rewardSpec (step cfg s a).1]
      (observe cfg (step cfg s a).1) := Maze.step_ts cfg s a hs
end Props.C09

namespace Props.C11
/-- every step advances the step counter by one -/
theorem maze_step_count (cfg : Cfg) (s : State) (a : Int) : (step cfg s a).1.stepCount = s.stepCount + 1 :=
  Maze.step_count cfg s a

/-- never later: the step that reaches the time limit is LAST -/
theorem maze_time_limit_last (cfg : Cfg) (s : State) (a : Int)
    (hs : Jx.Grid.shaped s.walls cfg.numRows cfg.numCols = true)
    (ht : s.stepCount + 1 ≥ cfg.timeLimit) : (step cfg s a).2.stepType = .last :=
  Maze.time_limit_last cfg s a hs ht

/-- never earlier without another cause: LAST iff target reached, time limit reached, or no move possible -/
theorem maze_last_iff (cfg : Cfg) (s : State) (a : Int)
    (hs : Jx.Grid.shaped s.walls cfg.numRows cfg.numCols = true) :
    (step cfg s a).2.stepType = .last ↔ endsSpec cfg (step cfg s a).1 := Maze.last_iff cfg s a hs

/-! #### episode level: `run cfg s as` = the list of (successor state, timestep) pairs of playing `as` from `s` with the
L1 `step`; transition `k` (0-based) is the `(k+1)`-th step, taken at counter value `s.stepCount + k`.  ALL states,
ALL action lists (any integers), all sizes. -/

/-- never later: every transition whose step number has reached the time limit is LAST — no hypotheses -/
theorem maze_run_last_at_limit (cfg : Cfg) (s : State) (as : List Int) (k : Nat) (p : State × TimeStep Obs)
    (h : (run cfg s as)[k]? = some p) (hk : s.stepCount + k + 1 ≥ cfg.timeLimit) : p.2.stepType = .last :=
  Maze.run_last_at_limit cfg s as k p h hk

/-- so every play that is long enough contains a LAST at or before step `time_limit` (counted from reset, where
`step_count = 0`: `k + 1 ≤ time_limit`) -/
theorem maze_run_exists_last (cfg : Cfg) (s : State) (as : List Int) (h0 : s.stepCount < cfg.timeLimit)
    (hlen : cfg.timeLimit - s.stepCount ≤ as.length) :
    ∃ (k : Nat) (p : State × TimeStep Obs), s.stepCount + k + 1 ≤ cfg.timeLimit ∧
      (run cfg s as)[k]? = some p ∧ p.2.stepType = .last := Maze.run_exists_last cfg s as h0 hlen

/-- never earlier: a transition of a play is LAST iff its successor is at the target, is stuck, or its step number
has reached the limit -/
theorem maze_run_last_iff (cfg : Cfg) (s : State) (hs : Jx.Grid.shaped s.walls cfg.numRows cfg.numCols = true)
    (as : List Int) (k : Nat) (p : State × TimeStep Obs) (h : (run cfg s as)[k]? = some p) :
    p.2.stepType = .last ↔ (atTarget p.1 ∨ stuck cfg p.1 ∨ s.stepCount + k + 1 ≥ cfg.timeLimit) :=
  Maze.run_last_iff cfg s hs as k p h

/-- if no other cause of termination occurs (target not reached, agent not stuck), the FIRST LAST of a play is exactly
at step `time_limit` -/
theorem maze_run_first_last_at_limit (cfg : Cfg) (s : State)
    (hs : Jx.Grid.shaped s.walls cfg.numRows cfg.numCols = true) (h0 : s.stepCount < cfg.timeLimit)
    (as : List Int) (k : Nat) (p : State × TimeStep Obs) (h : (run cfg s as)[k]? = some p)
    (hlast : p.2.stepType = .last)
    (hno : EpRun.NoLastBefore (step cfg) (·.stepType = .last) s as k)
    (hother : ¬ atTarget p.1 ∧ ¬ stuck cfg p.1) : s.stepCount + k + 1 = cfg.timeLimit :=
  Maze.run_first_last_eq cfg s hs h0 as k p h hlast hno hother

-- 2×3 maze, limit 6, pacing Down/Up from (0,0): transitions 0..4 are MID, transition 5 (step 6 = time_limit) is LAST
example : ((run Props.mazeCfg Props.mazeEx [2, 0, 2, 0, 2, 0, 2]).map (fun p => decide (p.2.stepType = .last))) =
    [false, false, false, false, false, true, true] := by decide
end Props.C11

namespace Props.C12
/-- the observation is the documented function of the successor state (mask recomputed from the walls
around the NEW position, not copied) -/
theorem maze_obs_faithful (cfg : Cfg) (s : State) (a : Int)
    (hs : Jx.Grid.shaped s.walls cfg.numRows cfg.numCols = true) :
    (step cfg s a).2.obs = observe cfg (step cfg s a).1 := Maze.obs_faithful cfg s a hs

/-- the observation returned by `reset` (generator output `g` of the configured shape, mask recomputed, `restart`)
is the documented function of the reset state, and the timestep is FIRST -/
theorem maze_reset_obs_faithful (cfg : Cfg) (g : State)
    (hs : Jx.Grid.shaped g.walls cfg.numRows cfg.numCols = true) :
    (Maze.reset cfg g).2.obs = observe cfg (Maze.reset cfg g).1 ∧ (Maze.reset cfg g).2.stepType = .first :=
  Maze.reset_obs_faithful cfg g hs

example : Jx.Grid.shaped Maze.toyState.walls 5 5 = true ∧
    (observe ⟨5, 5, 25⟩ (Maze.reset ⟨5, 5, 25⟩ Maze.toyState).1).actionMask = [false, false, true, false] := by decide
end Props.C12

namespace Props.C10
open MazeGen
/-- Appendix A.5: a wall map that passes the decidable certificate `isRecursiveDivisionMaze` (checked by the
driver on every generated instance) has all its free cells mutually reachable by 4-neighbour steps through
free cells, and all its (even, even) cells — in particular the origin, Cleaner's start — free.
`wall m x y` is `m[y][x]` (cells outside the grid count as walls). -/
theorem maze_connected_of_cert (m : Jx.Grid Bool) (nr nc : Nat)
    (hc : isRecursiveDivisionMaze m nr nc = true) :
    Conn m 0 0 nc nr ∧ (∀ x y, x < nc → y < nr → x % 2 = 0 → y % 2 = 0 → wall m x y = false) :=
  MazeGen.connected_of_cert m nr nc hc

/-- the same for one chamber, any fuel: Lemma 2 of A.5 -/
theorem maze_chamber_connected (fuel : Nat) (m : Jx.Grid Bool) (x y w h : Nat)
    (hv : valid fuel m x y w h = true) (hx : x % 2 = 0) (hy : y % 2 = 0) : Conn m x y w h :=
  MazeGen.conn_of_valid fuel m x y w h hv hx hy

/-- soundness of the executable flood-fill check (the `connected` flag of the `instance` ops, also used for
the hand-written `ToyGenerator` maze): if it answers `true`, the free cells are 4-connected -/
theorem maze_connected_sound (m : Jx.Grid Bool) (nr nc : Nat) (h : connected m nr nc = true) :
    Conn m 0 0 nc nr := MazeGen.conn_of_connected m nr nc h

example : isRecursiveDivisionMaze
    [[false, true, false, true, false],
     [false, true, false, true, false],
     [false, false, false, false, false]] 3 5 = true := by decide

/-! #### the generators themselves (audit r2, Maze gap "free start and target")
`Maze.generate cfg d` transliterates `RandomGenerator.__call__`: the draws `d` are the wall map returned by
`generate_maze` and the two flat indices returned by `jax.random.choice(…, (2,), replace=False, p=~walls.flatten())`;
`validGenDraw`: the wall map passes the recursive-division certificate, the two indices are DIFFERENT cells of non-zero
probability.  `Maze.reset cfg g` is the transliterated `reset`. -/

/-! NOTE (audit r6 #11): `validGenDraw` CONTAINS `isRecursiveDivisionMaze d.walls` — "for every admissible draw" below means "for every
maze accepted by the certificate `isRecursiveDivisionMaze`" (and two different free cells); C10 connectivity is proved OF THE CERTIFICATE.
The shared `generate_maze` is not transliterated: that its output passes the certificate is checked on real reset states by the harness
(`maze.instance`), not proved.  Read `maze_generated_wellformed`, `maze_generate_obs_valid`, `maze_obs_valid_along` as `…_of_cert`. -/

/-- for ALL admissible draws, all sizes: the reset state is `Consistent` (agent and target on free cells of the grid,
walls of the configured shape, fresh mask), agent and target are on different cells, the counter is 0, and the target
can be reached from the agent by 4-neighbour steps through free cells (so the instance is solvable) -/
theorem maze_generated_wellformed (cfg : Cfg) (d : GenDraw) (hv : validGenDraw cfg d) :
    Consistent cfg (Maze.reset cfg (generate cfg d)).1 ∧
    (Maze.reset cfg (generate cfg d)).1.agent ≠ (Maze.reset cfg (generate cfg d)).1.target ∧
    (Maze.reset cfg (generate cfg d)).1.stepCount = 0 ∧
    Reach (Ok d.walls 0 0 cfg.numCols cfg.numRows) (cellOf cfg d.i) (cellOf cfg d.j) :=
  Maze.generated_wellformed cfg d hv

/-- the certificate `generated_by_model` of the `maze.instance` op (the implementation's reset state equals the
model's `reset ∘ generate` of admissible draws read off that state) implies the advertised invariants -/
theorem maze_generatedBy_sound (cfg : Cfg) (s : State) (h : generatedBy cfg s = true) :
    Consistent cfg s ∧ s.agent ≠ s.target ∧ s.stepCount = 0 ∧ Conn s.walls 0 0 cfg.numCols cfg.numRows :=
  Maze.generatedBy_sound cfg s h

/-- the draws are satisfiable: the 3×5 maze above, agent at cell 0 = (0,0), target at cell 14 = (2,4) -/
example : validGenDraw ⟨3, 5, 15⟩ ⟨[[false, true, false, true, false], [false, true, false, true, false],
    [false, false, false, false, false]], 0, 14⟩ := by decide
/-- … and wall cells / equal cells are rejected -/
example : ¬ validGenDraw ⟨3, 5, 15⟩ ⟨[[false, true, false, true, false], [false, true, false, true, false],
    [false, false, false, false, false]], 1, 14⟩ ∧
    ¬ validGenDraw ⟨3, 5, 15⟩ ⟨[[false, true, false, true, false], [false, true, false, true, false],
    [false, false, false, false, false]], 14, 14⟩ := by decide

/-- `ToyGenerator` (`Maze.toyState`, certificate `toy_generated` of the instance op): consistent for every time limit,
agent ≠ target, free cells 4-connected -/
theorem maze_toy_wellformed (tl : Int) :
    Consistent ⟨5, 5, tl⟩ (Maze.reset ⟨5, 5, tl⟩ toyState).1 ∧ toyState.agent ≠ toyState.target ∧
    Conn toyState.walls 0 0 5 5 := by
  refine ⟨?_, by decide, MazeGen.conn_of_connected _ 5 5 (by decide)⟩
  show Consistent ⟨5, 5, 0⟩ (Maze.reset ⟨5, 5, 0⟩ toyState).1
  decide
end Props.C10

namespace Props.C01
/-- the reset observation (generator output `g` with the mask recomputed, `restart`) has every leaf inside the
interval `obsBounds cfg` lists for it: positions inside the grid, walls / mask 0..1, `step_count = 0 ≤ time_limit`.
Hypotheses: the generator puts agent and target on cells of the grid and starts the counter at 0. -/
theorem maze_reset_obs_in_bounds (cfg : Cfg) (g : State) (ha : inGrid cfg g.agent) (ht : inGrid cfg g.target)
    (h0 : g.stepCount = 0) (htl : 0 ≤ cfg.timeLimit) : ObsInBounds cfg (Maze.reset cfg g).2.obs :=
  Maze.reset_obs_in_bounds cfg g ha ht h0 htl

/-- shapes (audit r2 #15): the reset observation has the shapes `obsShapes cfg` lists — `walls` is
`num_rows × num_cols` (when the generator's wall map is), `action_mask` has 4 entries -/
theorem maze_reset_obs_shaped (cfg : Cfg) (g : State) (hs : Jx.Grid.shaped g.walls cfg.numRows cfg.numCols = true) :
    ObsShaped cfg (Maze.reset cfg g).2.obs := Maze.reset_obs_shaped cfg g hs

/-- the hypotheses of the reset theorems hold for every admissibly generated state (and the toy state) -/
theorem maze_generated_reset_hyps (cfg : Cfg) (d : GenDraw) (hv : validGenDraw cfg d) :
    Jx.Grid.shaped (generate cfg d).walls cfg.numRows cfg.numCols = true ∧
    free cfg (generate cfg d).walls (generate cfg d).agent ∧ free cfg (generate cfg d).walls (generate cfg d).target ∧
    (generate cfg d).stepCount = 0 := by
  have h := (Maze.generated_wellformed cfg d hv).1
  exact ⟨h.1.1, h.2.1, h.2.2, rfl⟩
example : inGrid ⟨5, 5, 25⟩ toyState.agent ∧ inGrid ⟨5, 5, 25⟩ toyState.target ∧ toyState.stepCount = 0 ∧
    free ⟨5, 5, 25⟩ toyState.walls toyState.agent ∧ free ⟨5, 5, 25⟩ toyState.walls toyState.target := by decide

/-- every step taken from a consistent state of a running episode (`0 ≤ step_count < time_limit`) with any
in-spec action emits an observation inside `obsBounds cfg` — including the terminal step, where
`step_count = time_limit` -/
theorem maze_step_obs_in_bounds (cfg : Cfg) (s : State) (hc : Consistent cfg s) (h0 : 0 ≤ s.stepCount)
    (h1 : s.stepCount < cfg.timeLimit) (a : Nat) (ha : a < 4) :
    ObsInBounds cfg (step cfg s (a : Int)).2.obs := Maze.step_obs_in_bounds cfg s hc h0 h1 a ha

/-- … and the shapes `obsShapes cfg` lists, for ANY action value -/
theorem maze_step_obs_shaped (cfg : Cfg) (s : State) (hs : Jx.Grid.shaped s.walls cfg.numRows cfg.numCols = true)
    (a : Int) : ObsShaped cfg (step cfg s a).2.obs := Maze.step_obs_shaped cfg s hs a

/-- values and shapes together, along a running episode -/
theorem maze_step_obs_conforms (cfg : Cfg) (s : State) (hc : Consistent cfg s) (h0 : 0 ≤ s.stepCount)
    (h1 : s.stepCount < cfg.timeLimit) (a : Nat) (ha : a < 4) :
    ObsInBounds cfg (step cfg s (a : Int)).2.obs ∧ ObsShaped cfg (step cfg s (a : Int)).2.obs :=
  ⟨Maze.step_obs_in_bounds cfg s hc h0 h1 a ha, Maze.step_obs_shaped cfg s hc.1.1 a⟩

/-- the proved intervals and shapes lie inside the DECLARED spec (the literals generated from the real
`observation_spec` objects, `Gen/Specs.lean`) for the catalogue configurations of Maze: every declared observation
leaf (7 of them) is covered, has the proved shape, and its `[minimum, maximum]` contains the proved interval -/
theorem maze_bounds_within_declared_spec :
    SpecTieSSM.tie "maze-5x7" (obsBounds ⟨5, 7, 9⟩) (obsShapes ⟨5, 7, 9⟩) = true ∧
    SpecTieSSM.tie "maze-none-3x5" (obsBounds ⟨3, 5, 15⟩) (obsShapes ⟨3, 5, 15⟩) = true ∧
    SpecTieSSM.tie "maze-none" (obsBounds ⟨4, 4, 16⟩) (obsShapes ⟨4, 4, 16⟩) = true ∧
    (SpecTieSSM.obsLeavesOf "maze-5x7").length = 7 := by decide +kernel
/-- the tie is not vacuous: one row too many, or a wrong mask length, is rejected -/
example : SpecTieSSM.tie "maze-5x7" (obsBounds ⟨6, 7, 9⟩) (obsShapes ⟨5, 7, 9⟩) = false ∧
    SpecTieSSM.tie "maze-5x7" (obsBounds ⟨5, 7, 9⟩) (obsShapes ⟨5, 8, 9⟩) = false := by decide +kernel

/-- the reset state is consistent, so the step theorem applies along every episode (with `maze_step_consistent`) -/
theorem maze_reset_consistent (cfg : Cfg) (g : State)
    (hs : Jx.Grid.shaped g.walls cfg.numRows cfg.numCols = true) (ha : free cfg g.walls g.agent)
    (ht : free cfg g.walls g.target) : Consistent cfg (Maze.reset cfg g).1 :=
  Maze.reset_consistent cfg g hs ha ht

example : Consistent Props.mazeCfg Props.mazeEx ∧ 0 ≤ Props.mazeEx.stepCount ∧
    Props.mazeEx.stepCount < Props.mazeCfg.timeLimit := by decide
/-- the bound on `step_count` is attained: the terminal step of a 1-step episode shows `time_limit` -/
example : (step { Props.mazeCfg with timeLimit := 1 } Props.mazeEx 2).2.obs.stepCount = 1 := by decide
/-! NOTE on what the membership theorems of this section do and do not cover (audits r4 #6, r5 #6, r6 #8): the dtype tag of every leaf
is written by `toNValue` (by construction) — a wrong dtype in the real code cannot falsify `….valid (toNValue …) = true`; dtypes and
field order of the real observations are compared by the `maze.spec` / `maze.state` ops (`nvalue`: field order, shape, dtype, data) and
`jax.eval_shape` in the sweeps.  Shapes are READ OFF the value by `toNValue` (widths off the first row): see `…_obs_valid_only`. -/

/-! #### (wave 4) membership in the DECLARED specs: structure, field order, shapes, dtypes and inclusive bounds -/
open Sp PzS PkS

/-- the model's `obsSpec` / `actionSpec` / reward and discount specs ARE the specs generated from the real spec objects
(Gen/Specs.lean) for the three catalogue configurations of Maze (5×7 with a time limit, 3×5 and 4×4 with the default one):
all seven observation leaves, in the order of the real `Spec`
SPEC-ONLY fourth configuration `Maze(RandomGenerator(6, 9), time_limit=11)` -/
theorem maze_obsSpec_generated :
    prefixed "observation_spec." (obsSpec ⟨5, 7, 9⟩) = declared "maze-5x7" "observation_spec." ∧
    prefixed "observation_spec." (obsSpec ⟨3, 5, 15⟩) = declared "maze-none-3x5" "observation_spec." ∧
    prefixed "observation_spec." (obsSpec ⟨4, 4, 16⟩) = declared "maze-none" "observation_spec." ∧
    [("action_spec", Maze.actionSpec)] = declared "maze-5x7" "action_spec" ∧
    [("action_spec", Maze.actionSpec)] = declared "maze-none-3x5" "action_spec" ∧
    [("reward_spec", PzS.rewardSpec)] = declared "maze-5x7" "reward_spec" ∧
    [("discount_spec", discountSpec)] = declared "maze-5x7" "discount_spec" ∧
    [("action_spec", Maze.actionSpec)] = declared "maze-none" "action_spec" ∧
    [("reward_spec", PzS.rewardSpec)] = declared "maze-none-3x5" "reward_spec" ∧
    [("discount_spec", discountSpec)] = declared "maze-none-3x5" "discount_spec" ∧
    [("reward_spec", PzS.rewardSpec)] = declared "maze-none" "reward_spec" ∧
    [("discount_spec", discountSpec)] = declared "maze-none" "discount_spec" ∧
    prefixed "observation_spec." (obsSpec ⟨6, 9, 11⟩) = declared "spec-only-maze-6x9" "observation_spec." ∧
    [("action_spec", Maze.actionSpec)] = declared "spec-only-maze-6x9" "action_spec" ∧
    [("reward_spec", PzS.rewardSpec)] = declared "spec-only-maze-6x9" "reward_spec" ∧
    [("discount_spec", discountSpec)] = declared "spec-only-maze-6x9" "discount_spec" := by
  refine ⟨by decide +kernel, by decide +kernel, by decide +kernel, by decide +kernel, by decide +kernel, by decide +kernel,
    by decide +kernel, by decide +kernel, by decide +kernel, by decide +kernel, by decide +kernel, by decide +kernel,
    by decide +kernel, by decide +kernel, by decide +kernel, by decide +kernel⟩

/-- the `reset` observation (ALL sizes) on top of ANY generated state whose walls have the configured shape and whose agent
and target stand on free cells is accepted by `observation_spec.validate`: fields `agent_position.{row,col}`,
`target_position.{row,col}`, `walls`, `step_count`, `action_mask`; shapes `()`, `()`, `()`, `()`, `(R, C)`, `()`, `(4,)`; dtypes
int32 ×4, bool, int32, bool; bounds `[0, R − 1]`, `[0, C − 1]`, `[0, R − 1]`, `[0, C − 1]`, `[0, 1]`, none, `[0, 1]` -/
theorem maze_reset_obs_valid (cfg : Cfg) (g : State) (hs : Jx.Grid.shaped g.walls cfg.numRows cfg.numCols = true)
    (ha : free cfg g.walls g.agent) (ht : free cfg g.walls g.target) :
    (obsSpec cfg).valid (toNValue (Maze.reset cfg g).2.obs) = true := Maze.reset_obs_valid cfg g hs ha ht

/-- … in particular for every maze accepted by the certificate `isRecursiveDivisionMaze` ("of certificate", audit r6 #11: not "every draw of
`RandomGenerator`" — `generate_maze` is not transliterated; a maze of the configured size, two
different free cells), where the reset state also satisfies the invariant `SpecInv` -/
theorem maze_generate_obs_valid (cfg : Cfg) (d : GenDraw) (hv : validGenDraw cfg d) :
    (obsSpec cfg).valid (toNValue (Maze.reset cfg (generate cfg d)).2.obs) = true ∧
    SpecInv cfg (Maze.reset cfg (generate cfg d)).1 := Maze.generate_obs_valid cfg d hv

/-- … and for the `ToyGenerator` state -/
theorem maze_toy_obs_valid :
    (obsSpec ⟨5, 5, 25⟩).valid (toNValue (Maze.reset ⟨5, 5, 25⟩ toyState).2.obs) = true ∧
    SpecInv ⟨5, 5, 25⟩ (Maze.reset ⟨5, 5, 25⟩ toyState).1 := by decide

/-- the invariant `SpecInv` (= `Consistent`: walls of the configured shape, fresh cached mask, agent and target on free cells)
holds after `reset` and is preserved by EVERY step with an in-spec action — legal or a no-op against a wall / the border,
MID or LAST -/
theorem maze_specInv_invariant (cfg : Cfg) :
    (∀ g : State, Jx.Grid.shaped g.walls cfg.numRows cfg.numCols = true → free cfg g.walls g.agent →
      free cfg g.walls g.target → SpecInv cfg (Maze.reset cfg g).1) ∧
    (∀ (s : State) (a : Nat), SpecInv cfg s → a < 4 → SpecInv cfg (step cfg s (a : Int)).1) :=
  ⟨Maze.reset_specInv cfg, fun s a h ha => Maze.step_specInv cfg s h a ha⟩

/-- the observation of EVERY step with an in-spec action from a state satisfying the invariant is a member of the spec —
whatever the counter (the declared `step_count` is an unbounded `Array`), terminal step included -/
theorem maze_step_obs_valid (cfg : Cfg) (s : State) (h : SpecInv cfg s) (a : Nat) (ha : a < 4) :
    (obsSpec cfg).valid (toNValue (step cfg s (a : Int)).2.obs) = true := Maze.step_obs_valid cfg s h a ha

example : SpecInv Props.mazeCfg Props.mazeEx := by decide

/-- WHOLE EPISODES (and beyond): along the rollout (`Ep.rollout` = the L1 step iterated, no stop at LAST) of ANY in-spec
actions from the reset of any maze accepted by the certificate `isRecursiveDivisionMaze` (with two different free cells), EVERY emitted observation is a member of the spec and every
state satisfies the invariant -/
theorem maze_obs_valid_along (cfg : Cfg) (d : GenDraw) (hv : validGenDraw cfg d) (as : List Nat) (has : ∀ a ∈ as, a < 4)
    (j : Nat) (e : State × TimeStep Obs)
    (he : (Ep.rollout (fun s (a : Nat) => step cfg s (a : Int)) (Maze.reset cfg (generate cfg d)).1 as)[j]? = some e) :
    (obsSpec cfg).valid (toNValue e.2.obs) = true ∧ SpecInv cfg e.1 :=
  Maze.rollout_obs_valid cfg _ (Maze.generate_obs_valid cfg d hv).2 as has j e he

/-- the same from any state satisfying the invariant -/
theorem maze_rollout_obs_valid (cfg : Cfg) (s : State) (h : SpecInv cfg s) (as : List Nat) (has : ∀ a ∈ as, a < 4)
    (j : Nat) (e : State × TimeStep Obs)
    (he : (Ep.rollout (fun s (a : Nat) => step cfg s (a : Int)) s as)[j]? = some e) :
    (obsSpec cfg).valid (toNValue e.2.obs) = true ∧ SpecInv cfg e.1 := Maze.rollout_obs_valid cfg s h as has j e he

/-- what membership means (so the theorems above are not hollow): `validate` accepts an observation ONLY IF agent and target
are on cells of the grid, `walls` has the declared shape and the mask has four entries  CAVEAT (audits r4 #7, r5 #5, r6 #5): for every field that is a nested list, `toNValue` reads the widths off the FIRST row of the
nested list, so the shape conjuncts here mean "row count, length of the first row, total number of cells" — a ragged value with the right total can be a
member, and nothing is concluded about the later rows.  Rectangularity is part of the invariant (`SpecInv` / `Shaped` / `Rect…`) under which the
forward theorems (`…_reset_obs_valid`, `…_step_obs_valid`, `…_along`) are proved, i.e. it holds of every EMITTED observation. -/
theorem maze_obs_valid_only (cfg : Cfg) (o : Obs) (h : (obsSpec cfg).valid (toNValue o) = true) :
    inGrid cfg o.agent ∧ inGrid cfg o.target ∧ shape2 o.walls = [cfg.numRows, cfg.numCols] ∧ o.actionMask.length = 4 :=
  Maze.obs_valid_only cfg o h

/-- positive and negative instances: the observation of the 2×3 example state; the agent one row below the grid; a spec for
a grid with one more column; the counter does not matter -/
example : (obsSpec Props.mazeCfg).valid (toNValue (obsOf Props.mazeEx)) = true ∧
    (obsSpec Props.mazeCfg).valid (toNValue (obsOf { Props.mazeEx with agent := (2, 0) })) = false ∧
    (obsSpec { Props.mazeCfg with numCols := 4 }).valid (toNValue (obsOf Props.mazeEx)) = false ∧
    (obsSpec Props.mazeCfg).valid (toNValue (obsOf { Props.mazeEx with stepCount := 1000 })) = true := by decide

/-- reward and discount of every `step` (ALL states, ALL action values) and of `reset` are accepted by `reward_spec`
(Array((), float)) and `discount_spec` (BoundedArray((), float, 0, 1)) -/
theorem maze_reward_discount_valid (cfg : Cfg) (s g : State) (a : Int) :
    PzS.rewardSpec.valid (scalarArr (step cfg s a).2.reward) = true ∧
    discountSpec.valid (scalarArr (step cfg s a).2.discount) = true ∧
    PzS.rewardSpec.valid (scalarArr (Maze.reset cfg g).2.reward) = true ∧
    discountSpec.valid (scalarArr (Maze.reset cfg g).2.discount) = true :=
  ⟨(Maze.step_reward_discount_valid cfg s a).1, (Maze.step_reward_discount_valid cfg s a).2,
   (Maze.reset_reward_discount_valid cfg g).1, (Maze.reset_reward_discount_valid cfg g).2⟩

/-- `action_spec.generate_value()` = 0 (Up): the action spec is well-formed, the generated value is a member, `step` answers
it in EVERY state with a protocol-conform timestep and — from a state satisfying the invariant — with an observation in the
spec; membership in `action_spec` is "0 ≤ a < 4" -/
theorem maze_accepts_generate_value (cfg : Cfg) (s : State) :
    Maze.actionSpec.WF = true ∧ Maze.actionSpec.valid Maze.actionSpec.generate = true ∧
    Maze.actionSpec.generate = actionArr 0 ∧ StepOK none false (step cfg s 0).2 = true ∧
    (SpecInv cfg s → (obsSpec cfg).valid (toNValue (step cfg s 0).2.obs) = true) := Maze.accepts_generate_value cfg s

theorem maze_action_spec_iff (a : Int) : Maze.actionSpec.valid (actionArr a) = true ↔ 0 ≤ a ∧ a < 4 :=
  Maze.actionSpec_valid_iff a
end Props.C01
