/-
Property theorems for LevelBasedForaging (all grid sizes, agent / food counts, fov, time limits).  Proofs live
in Env/LBF/Lemmas.lean.  `Consistent g s` = agents inside the `g × g` grid on pairwise distinct cells, none on
an uneaten food, foods inside the grid; `WF s` = agent `i` carries id `i`, all levels are ≥ 1.  Joint actions
are lists of per-agent actions `< 6` (the action spec), one per agent.
-/
import JumanjiModel.Env.LBF.Lemmas
import JumanjiModel.Env.LBF.Bounds
import JumanjiModel.Env.LBF.Gen
import JumanjiModel.Env.LBF.Episode
import JumanjiModel.Env.LBF.Reward
import JumanjiModel.Env.LBF.SpecValid
open Jm Jx LBF

namespace Props.C04
/-- per agent: bit `a` of the mask row computed by `compute_action_mask` is set exactly when the rules allow
action `a` to agent `i` (no-op always; a move iff the neighbouring cell is inside the grid and holds no other
agent and no uneaten food; load iff an uneaten food is next to the agent) -/
theorem lbf_mask_iff_legal (g : Nat) (s : State) (hc : Consistent g s) (hw : WF s) (i : Nat)
    (hi : i < s.agents.length) (a : Nat) :
    (maskOf g s (s.agents[i])).getD a false = true ↔ legal g s i a := mask_iff_legal g s hc hw i hi a

/-- the environment's own reaction (`simulate_agent_movement`): the cell it lets the agent aim at is the
neighbouring cell exactly when the move is legal by the rules, otherwise the agent's own cell -/
theorem lbf_step_agrees (g : Nat) (s : State) (hw : WF s) (i : Nat) (hi : i < s.agents.length) (a : Nat)
    (ha : a < 6) : simulateMove g s.agents s.foods s.agents[i] (a : Int) = target g s i s.agents[i] a :=
  simulateMove_eq_target g s hw i hi a ha

example : Consistent 5 ⟨[⟨0, (1, 1), 1, false⟩, ⟨1, (1, 2), 2, false⟩], [⟨0, (2, 2), 3, false⟩], 0⟩ ∧
    WF ⟨[⟨0, (1, 1), 1, false⟩, ⟨1, (1, 2), 2, false⟩], [⟨0, (2, 2), 3, false⟩], 0⟩ ∧
    legal 5 ⟨[⟨0, (1, 1), 1, false⟩, ⟨1, (1, 2), 2, false⟩], [⟨0, (2, 2), 3, false⟩], 0⟩ 1 5 ∧
    ¬ legal 5 ⟨[⟨0, (1, 1), 1, false⟩, ⟨1, (1, 2), 2, false⟩], [⟨0, (2, 2), 3, false⟩], 0⟩ 0 4 := by decide
end Props.C04

namespace Props.C05
/-- an agent whose action is illegal (move into a wall / agent / food, load with nothing to load) keeps its
cell, id and level, whatever the other agents do in the same step -/
theorem lbf_illegal_ignored (cfg : Cfg) (s : State) (hw : WF s) (as : List Nat)
    (hlen : as.length = s.agents.length) (has : ∀ a ∈ as, a < 6) (i : Nat) (hi : i < s.agents.length)
    (hl : ¬ legal cfg.gridSize s i (as[i]'(by omega))) :
    ∃ h : i < (step cfg s (as.map Int.ofNat)).1.agents.length,
      ((step cfg s (as.map Int.ofNat)).1.agents[i]).pos = s.agents[i].pos ∧
      ((step cfg s (as.map Int.ofNat)).1.agents[i]).id = s.agents[i].id ∧
      ((step cfg s (as.map Int.ofNat)).1.agents[i]).level = s.agents[i].level :=
  illegal_keeps_position cfg s hw as hlen has i hi hl

/-- … it takes part in collecting no food: its entry in the adjacent-loading levels of every food is 0, so
nothing is eaten on its behalf and it earns no share -/
theorem lbf_illegal_no_share (cfg : Cfg) (s : State) (hw : WF s) (as : List Nat)
    (hlen : as.length = s.agents.length) (has : ∀ a ∈ as, a < 6) (i : Nat) (hi : i < s.agents.length)
    (hl : ¬ legal cfg.gridSize s i (as[i]'(by omega))) (f : Food) (hf : f ∈ s.foods) :
    (adjLevels (updateAgents cfg.gridSize s.agents s.foods (as.map Int.ofNat)) f).getD i 0 = 0 :=
  illegal_no_share cfg s hw as hlen has i hi hl f hf

/-- HEADLINE (no penalty): the reward of an agent whose action is illegal is exactly 0, whatever the other agents
do in the same step -/
theorem lbf_illegal_no_reward (cfg : Cfg) (hp : cfg.penalty = 0) (s : State) (hw : WF s) (as : List Nat)
    (hlen : as.length = s.agents.length) (has : ∀ a ∈ as, a < 6) (i : Nat) (hi : i < s.agents.length)
    (hl : ¬ legal cfg.gridSize s i (as[i]'(by omega))) :
    ((step cfg s (as.map Int.ofNat)).2.reward).getD i 0 = 0 :=
  illegal_no_reward cfg hp s hw as hlen has i hi hl

/-- any penalty: the reward of an illegally acting agent is exactly minus the charges of this step — `charge` =
`penalty` for every food somebody tried to load without sufficient levels (a failed attempt by the rules, `failedAttempt`
on the agents after the move), divided by that food's normaliser `Σ loaders' levels · Σ food levels` when rewards are
normalised, and 0 for every other food.  It never contains a gain.  (The penalty is charged to EVERY agent, also
to one that did not load: see the witness below.) -/
theorem lbf_illegal_reward_eq (cfg : Cfg) (s : State) (hw : WF s) (as : List Nat)
    (hlen : as.length = s.agents.length) (has : ∀ a ∈ as, a < 6) (i : Nat) (hi : i < s.agents.length)
    (hl : ¬ legal cfg.gridSize s i (as[i]'(by omega))) :
    ((step cfg s (as.map Int.ofNat)).2.reward).getD i 0 =
      - ((s.foods.map (charge cfg (step cfg s (as.map Int.ofNat)).1.agents (totalLevel s.foods))).sum) :=
  illegal_reward_eq cfg s hw as hlen has i hi hl

/-- … hence with a non-negative penalty it is never positive -/
theorem lbf_illegal_reward_nonpos (cfg : Cfg) (hp : 0 ≤ cfg.penalty) (s : State) (hw : WF s) (as : List Nat)
    (hlen : as.length = s.agents.length) (has : ∀ a ∈ as, a < 6) (i : Nat) (hi : i < s.agents.length)
    (hl : ¬ legal cfg.gridSize s i (as[i]'(by omega))) :
    ((step cfg s (as.map Int.ofNat)).2.reward).getD i 0 ≤ 0 :=
  illegal_reward_nonpos cfg hp s hw as hlen has i hi hl

/-- the hypotheses are satisfiable; and with penalty ≠ 0 "no reward" is FALSE: agent 0 walks into the wall (illegal),
agent 1 (level 1) tries to load the level-3 food alone — BOTH are charged the penalty: reward −1 raw, −1/3 normalised
(the implementation gives `[-1, -1]` resp. `[-0.33333334, -0.33333334]` on this state) -/
theorem lbf_illegal_penalty_witness :
    WF ⟨[⟨0, (0, 0), 1, false⟩, ⟨1, (2, 1), 1, false⟩], [⟨0, (2, 2), 3, false⟩], 0⟩ ∧
    ¬ legal 5 ⟨[⟨0, (0, 0), 1, false⟩, ⟨1, (2, 1), 1, false⟩], [⟨0, (2, 2), 3, false⟩], 0⟩ 0 1 ∧
    ((step ⟨5, 5, 10, false, false, 1⟩ ⟨[⟨0, (0, 0), 1, false⟩, ⟨1, (2, 1), 1, false⟩], [⟨0, (2, 2), 3, false⟩], 0⟩
        [1, 5]).2.reward).getD 0 0 = -1 ∧
    ((step ⟨5, 5, 10, false, true, 1⟩ ⟨[⟨0, (0, 0), 1, false⟩, ⟨1, (2, 1), 1, false⟩], [⟨0, (2, 2), 3, false⟩], 0⟩
        [1, 5]).2.reward).getD 0 0 = -1 / 3 := by decide +kernel

/-- … and the episode goes on unless there is another cause: a step is LAST only when all food is collected
or the time limit is reached (for any joint action, legal or not) -/
theorem lbf_last_only_other_cause (cfg : Cfg) (s : State) (a : List Int)
    (h : (step cfg s a).2.stepType = .last) :
    (step cfg s a).1.foods.all (fun f => f.eaten) = true ∨ cfg.timeLimit ≤ (step cfg s a).1.stepCount :=
  (last_iff cfg s a).1 h
end Props.C05

namespace Props.C07
/-- ANY in-spec joint action keeps the state physically consistent (inside the grid, no two agents on one
cell — collision fixing cannot create overlaps —, no agent on uneaten food) and well-formed -/
theorem lbf_step_consistent (cfg : Cfg) (s : State) (hc : Consistent cfg.gridSize s) (hw : WF s) (as : List Nat)
    (hlen : as.length = s.agents.length) (has : ∀ a ∈ as, a < 6) :
    Consistent cfg.gridSize (step cfg s (as.map Int.ofNat)).1 ∧ WF (step cfg s (as.map Int.ofNat)).1 :=
  step_consistent cfg s hc hw as hlen has

/-- … hence along whole episodes: every state reached from a consistent well-formed state by in-spec joint
actions (legal or not) is consistent -/
theorem lbf_consistent_along (cfg : Cfg) (as : List (List Nat)) (s : State) (hc : Consistent cfg.gridSize s) (hw : WF s)
    (h : ∀ a ∈ as, a.length = s.agents.length ∧ ∀ x ∈ a, x < 6) :
    Consistent cfg.gridSize (finalState cfg s (as.map (fun a => a.map Int.ofNat))) ∧
      WF (finalState cfg s (as.map (fun a => a.map Int.ofNat))) := consistent_along cfg as s hc hw h

example : Consistent 5 ⟨[⟨0, (1, 1), 1, false⟩, ⟨1, (1, 2), 2, false⟩, ⟨2, (0, 4), 1, true⟩], [⟨0, (2, 2), 3, false⟩], 0⟩ ∧
    WF ⟨[⟨0, (1, 1), 1, false⟩, ⟨1, (1, 2), 2, false⟩, ⟨2, (0, 4), 1, true⟩], [⟨0, (2, 2), 3, false⟩], 0⟩ := by decide

/-- … and every state of the trace `run` (not only the final one) -/
theorem lbf_run_consistent (cfg : Cfg) (as : List (List Nat)) (s : State) (hc : Consistent cfg.gridSize s) (hw : WF s)
    (h : ∀ a ∈ as, a.length = s.agents.length ∧ ∀ x ∈ a, x < 6) :
    ∀ r ∈ run cfg s (as.map (fun a => a.map Int.ofNat)), Consistent cfg.gridSize r.1 ∧ WF r.1 :=
  run_invariant cfg as s hc hw h

/-- base case for generated instances: every state of every in-spec play from `generate gc d` (any configuration,
any draw in the samplers' support) is consistent and well-formed -/
theorem lbf_generated_play_consistent (cfg : Cfg) (gc : GenCfg) (hg : cfg.gridSize = gc.gridSize) (d : GenDraw)
    (hd : validDraw gc d = true) (as : List (List Nat))
    (h : ∀ a ∈ as, a.length = gc.numAgents ∧ ∀ x ∈ a, x < 6) :
    ∀ r ∈ run cfg (generate gc d) (as.map (fun a => a.map Int.ofNat)), Consistent cfg.gridSize r.1 ∧ WF r.1 :=
  gen_run_invariant cfg gc hg d hd as h

/-- the abstract core: reverting every agent whose moved cell is shared to its old cell yields pairwise
distinct cells, provided nobody's moved cell is another agent's old cell -/
theorem lbf_fix_collisions_distinct (p m : List Pos) (hl : m.length = p.length)
    (hp : ∀ i j (hi : i < p.length) (hj : j < p.length), i ≠ j → p[i] ≠ p[j])
    (hm : ∀ i j (hi : i < p.length) (hj : j < p.length), i ≠ j → p[j] ≠ m[i])
    (i j : Nat) (hi : i < p.length) (hj : j < p.length) (hij : i < j) :
    (if m.count (m[i]) != 1 then p[i] else m[i]) ≠ (if m.count (m[j]) != 1 then p[j] else m[j]) :=
  fix_distinct p m hl hp hm i j hi hj hij
end Props.C07

namespace Props.C08
/-- one step (normalised, no penalty): the rewards of all agents add up to the food level collected in this
step divided by the total food level — for ANY joint action -/
theorem lbf_step_team_reward (cfg : Cfg) (hn : cfg.normalize = true) (hp : cfg.penalty = 0) (s : State)
    (hlv : ∀ f ∈ s.foods, 1 ≤ f.level) (hT : totalLevel s.foods ≠ 0) (a : List Int)
    (hlen : a.length = s.agents.length) :
    ((step cfg s a).2.reward).sum =
      ((eatenLevel (step cfg s a).1.foods - eatenLevel s.foods : Int) : Rat) / ((totalLevel s.foods : Int) : Rat) :=
  step_team_reward cfg hn hp s hlv hT a hlen

/-- telescoping over a whole action sequence: team return = (collected level at the end − at the start) / total -/
theorem lbf_team_return (cfg : Cfg) (hn : cfg.normalize = true) (hp : cfg.penalty = 0)
    (as : List (List Int)) (s : State) (hlv : ∀ f ∈ s.foods, 1 ≤ f.level) (hT : totalLevel s.foods ≠ 0)
    (hlen : ∀ a ∈ as, a.length = s.agents.length) :
    teamReturn cfg s as =
      ((eatenLevel (finalState cfg s as).foods - eatenLevel s.foods : Int) : Rat) / ((totalLevel s.foods : Int) : Rat) :=
  team_return cfg hn hp as s hlv hT hlen

/-- the documented objective: starting with no food collected, when all food has been collected the rewards
handed out (all agents, all steps) add up to exactly one -/
theorem lbf_return_is_one (cfg : Cfg) (hn : cfg.normalize = true) (hp : cfg.penalty = 0) (s : State) (as : List (List Int))
    (hlv : ∀ f ∈ s.foods, 1 ≤ f.level) (hne : s.foods ≠ [])
    (hlen : ∀ a ∈ as, a.length = s.agents.length) (h0 : ∀ f ∈ s.foods, f.eaten = false)
    (hend : (finalState cfg s as).foods.all (fun f => f.eaten) = true) :
    teamReturn cfg s as = 1 := return_is_one cfg hn hp s as hlv hne hlen h0 hend

/-- `get_reward_per_food` against the rules, for EVERY normalisation / penalty setting: agent `i`'s entry for food `f`
is its `share` by the rules (L2: `loaders` = loading agents at distance 1, `collected` = uneaten and the loaders'
levels reach the food level, `failedAttempt` charged to everybody) -/
theorem lbf_food_share (cfg : Cfg) (T : Int) (A : List Agent) (hA : ∀ a ∈ A, 1 ≤ a.level) (f : Food)
    (hf : 1 ≤ f.level) (i : Nat) (hi : i < A.length) :
    (rewardPerFood cfg T (eatFood A f)).getD i 0 = share cfg A T f A[i] := reward_entry_eq cfg T A hA f hf i hi

/-- explicitly (normalised, no penalty): shares are proportional to the agents' levels — a loading neighbour of a
food collected in this step gets `level_i · level_f / (Σ loaders' levels · T)`, everybody else 0 -/
theorem lbf_food_share_formula (cfg : Cfg) (hn : cfg.normalize = true) (hp : cfg.penalty = 0) (T : Int)
    (A : List Agent) (hA : ∀ a ∈ A, 1 ≤ a.level) (f : Food) (hf : 1 ≤ f.level) (i : Nat) (hi : i < A.length) :
    (rewardPerFood cfg T (eatFood A f)).getD i 0 =
      if collected A f ∧ A[i].loading = true ∧ dist A[i].pos f.pos = 1 then
        ((A[i].level * f.level : Int) : Rat) / (((((loaders A f).map (·.level)).sum * T : Int)) : Rat)
      else 0 := food_share_formula cfg hn hp T A hA f hf i hi

/-- the same at L1 (in terms of `adjacent` / `adjLevels` of the transliteration) -/
theorem lbf_food_share_l1 (cfg : Cfg) (hn : cfg.normalize = true) (hp : cfg.penalty = 0) (T : Int)
    (agents : List Agent) (f : Food) (i : Nat) (hi : i < agents.length) :
    (rewardPerFood cfg T (eatFood agents f)).getD i 0 =
      (((if adjacent agents[i].pos f.pos && agents[i].loading && !f.eaten then agents[i].level else 0) *
          (if (eatFood agents f).2.1 then 1 else 0) * f.level : Int) : Rat) /
        (((adjLevels agents f).sum * T : Int) : Rat) := food_share cfg hn hp T agents f i hi

/-- agents of level 1 and 2 load a level-3 food (total food level 4): shares 1·3/(3·4) and 2·3/(3·4) -/
example : (∀ a ∈ [(⟨0, (1, 2), 1, true⟩ : Agent), ⟨1, (2, 1), 2, true⟩], 1 ≤ a.level) ∧
    collected [⟨0, (1, 2), 1, true⟩, ⟨1, (2, 1), 2, true⟩] ⟨0, (2, 2), 3, false⟩ ∧
    rewardPerFood ⟨5, 5, 10, false, true, 0⟩ 4 (eatFood [⟨0, (1, 2), 1, true⟩, ⟨1, (2, 1), 2, true⟩] ⟨0, (2, 2), 3, false⟩)
      = [1 / 4, 1 / 2] := by decide +kernel

example : teamReturn ⟨5, 5, 10, false, true, 0⟩
    ⟨[⟨0, (1, 2), 1, false⟩, ⟨1, (2, 1), 2, false⟩], [⟨0, (2, 2), 3, false⟩], 0⟩ [[5, 5]] = 1 := by decide +kernel
end Props.C08

namespace Props.C09
/-- refinement L1 = L2 for the whole step: on every well-formed state and for every in-spec joint action the
transliterated `step` (vmapped movement test, `flag_duplicates` / `fix_collisions`, `eat_food`, `get_reward`,
three-way switch) yields exactly the successor state, step type, per-agent reward and discount that the rules
(`stepL2`: enter a free neighbouring cell unless somebody else aims at it; a food is collected when the loading
neighbours' levels reach its level; they share it in proportion to their levels) prescribe -/
theorem lbf_step_eq_rules (cfg : Cfg) (s : State) (hw : WF s) (as : List Nat)
    (hlen : as.length = s.agents.length) (has : ∀ a ∈ as, a < 6) :
    (step cfg s (as.map Int.ofNat)).1 = (stepL2 cfg s as).1 ∧
    (step cfg s (as.map Int.ofNat)).2.stepType = (stepL2 cfg s as).2.1 ∧
    (step cfg s (as.map Int.ofNat)).2.reward = (stepL2 cfg s as).2.2.1 ∧
    (step cfg s (as.map Int.ofNat)).2.discount = (stepL2 cfg s as).2.2.2 := step_eq_stepL2 cfg s hw as hlen has

/-- movement + collision fixing + loading flag -/
theorem lbf_move_phase_eq_rules (g : Nat) (s : State) (hw : WF s) (as : List Nat)
    (hlen : as.length = s.agents.length) (has : ∀ a ∈ as, a < 6) :
    updateAgents g s.agents s.foods (as.map Int.ofNat) = movedL2 g s as := updateAgents_eq_movedL2 g s hw as hlen has

/-- `flag_duplicates` (occurrence count ≠ 1) = "somebody else has the same cell" -/
theorem lbf_flag_duplicates {α} [BEq α] [LawfulBEq α] (l : List α) (i : Nat) (hi : i < l.length) :
    (l.count l[i] != 1) = true ↔ ∃ u ∈ l.eraseIdx i, u = l[i] := count_ne_one_iff l i hi

/-- `eat_food`: the food becomes eaten exactly when it is collected by the rules -/
theorem lbf_eat_food_eq_rules (A : List Agent) (f : Food) (hf : 1 ≤ f.level) :
    (eatFood A f).1 = { f with eaten := f.eaten || decide (collected A f) } ∧
    ((eatFood A f).2.1 = true ↔ collected A f) := eatFood_eq A f hf

/-- `get_reward` = the rule-level shares, for every normalisation / penalty setting -/
theorem lbf_reward_eq_rules (cfg : Cfg) (A : List Agent) (hA : ∀ a ∈ A, 1 ≤ a.level) (fs : List Food)
    (hf : ∀ f ∈ fs, 1 ≤ f.level) :
    getReward cfg A.length (fs.map (eatFood A)) = rewardL2 cfg A fs := getReward_eq_rewardL2 cfg A hA fs hf
end Props.C09

namespace Props.C11
/-- LAST exactly when all food is collected or the step count reaches the time limit; one count per step -/
theorem lbf_last_iff (cfg : Cfg) (s : State) (a : List Int) :
    (step cfg s a).2.stepType = .last ↔
      ((step cfg s a).1.foods.all (fun f => f.eaten) = true ∨ cfg.timeLimit ≤ (step cfg s a).1.stepCount) :=
  last_iff cfg s a

theorem lbf_step_count (cfg : Cfg) (s : State) (a : List Int) :
    (step cfg s a).1.stepCount = s.stepCount + 1 := step_count cfg s a

/-! #### whole episodes: `run cfg s as` = the trace of `step` along ANY sequence of joint actions (any lengths, any
integers) from a state with step count 0 -/

/-- (i) step number `k + 1` has step count `k + 1`, and is LAST exactly when all food is collected by then or `k + 1` has
reached the time limit -/
theorem lbf_episode_steps (cfg : Cfg) (s : State) (h0 : s.stepCount = 0) (as : List (List Int)) (k : Nat)
    (h : k < as.length) :
    ((run cfg s as)[k]'(by rw [run_length]; exact h)).1.stepCount = (k : Int) + 1 ∧
    (((run cfg s as)[k]'(by rw [run_length]; exact h)).2.stepType = .last ↔
      (((run cfg s as)[k]'(by rw [run_length]; exact h)).1.foods.all (fun f => f.eaten) = true ∨
        cfg.timeLimit ≤ (k : Int) + 1)) := episode_steps cfg s h0 as k h

/-- (ii) in any case there is a LAST at or before step `time_limit`: step number `time_limit` (index `time_limit − 1`)
is LAST whatever the agents did -/
theorem lbf_episode_last_at_limit (cfg : Cfg) (hT : 0 < cfg.timeLimit) (s : State) (h0 : s.stepCount = 0)
    (as : List (List Int)) (hlen : cfg.timeLimit ≤ (as.length : Int)) :
    ∃ h : (cfg.timeLimit - 1).toNat < (run cfg s as).length,
      ((run cfg s as)[(cfg.timeLimit - 1).toNat]).2.stepType = .last :=
  episode_last_at_limit cfg hT s h0 as hlen

theorem lbf_episode_last_by_limit (cfg : Cfg) (hT : 0 < cfg.timeLimit) (s : State) (h0 : s.stepCount = 0)
    (as : List (List Int)) (hlen : cfg.timeLimit ≤ (as.length : Int)) :
    ∃ (k : Nat) (h : k < (run cfg s as).length), ((k : Int) + 1 ≤ cfg.timeLimit) ∧
      ((run cfg s as)[k]).2.stepType = .last := episode_last_by_limit cfg hT s h0 as hlen

/-- (iii) if no other cause of termination occurs (the food is never all collected), the LAST steps are exactly those
numbered `≥ time_limit`: every step before is MID, so the first LAST is exactly step `time_limit` -/
theorem lbf_episode_time_limit_only (cfg : Cfg) (s : State) (h0 : s.stepCount = 0) (as : List (List Int))
    (hfood : ∀ (k : Nat) (h : k < (run cfg s as).length), ((run cfg s as)[k]).1.foods.all (fun f => f.eaten) = false)
    (k : Nat) (h : k < (run cfg s as).length) :
    (((run cfg s as)[k]).2.stepType = .last ↔ cfg.timeLimit ≤ (k : Int) + 1) ∧
    ((k : Int) + 1 < cfg.timeLimit → ((run cfg s as)[k]).2.stepType = .mid) :=
  episode_time_limit_only cfg s h0 as hfood k h

/-- never earlier without another cause: a LAST before step `time_limit` means all food is collected -/
theorem lbf_episode_not_earlier (cfg : Cfg) (s : State) (h0 : s.stepCount = 0) (as : List (List Int))
    (k : Nat) (h : k < (run cfg s as).length) (hk : (k : Int) + 1 < cfg.timeLimit)
    (hl : ((run cfg s as)[k]).2.stepType = .last) : ((run cfg s as)[k]).1.foods.all (fun f => f.eaten) = true :=
  episode_not_earlier cfg s h0 as k h hk hl

/-- time limit 3, nobody loads: MID, MID, LAST (and LAST again if one keeps stepping) — first LAST at index 2 -/
example : (run ⟨5, 5, 3, false, true, 0⟩
      ⟨[⟨0, (1, 2), 1, false⟩, ⟨1, (2, 1), 2, false⟩], [⟨0, (2, 2), 3, false⟩], 0⟩
      [[0, 0], [1, 0], [0, 3], [0, 0]]).map (fun r => (r.2.stepType, r.1.foods.all (fun f => f.eaten))) =
    [(.mid, false), (.mid, false), (.last, false), (.last, false)] := by decide +kernel

/-- same instance, both agents load at once: all food collected, LAST at index 0 < time limit − 1 -/
example : (run ⟨5, 5, 3, false, true, 0⟩
      ⟨[⟨0, (1, 2), 1, false⟩, ⟨1, (2, 1), 2, false⟩], [⟨0, (2, 2), 3, false⟩], 0⟩
      [[5, 5]]).map (fun r => (r.2.stepType, r.1.foods.all (fun f => f.eaten))) = [(.last, true)] := by decide +kernel

/-- the documented exception of C03: the discount is zero exactly when all food is collected; a LAST step
caused by the time limit alone is a truncation with discount one -/
theorem lbf_discount (cfg : Cfg) (s : State) (a : List Int) :
    (step cfg s a).2.discount =
      if (step cfg s a).1.foods.all (fun f => f.eaten) = true then zerosR (some s.agents.length)
      else onesR (some s.agents.length) := discount_eq cfg s a
end Props.C11

namespace Props.C12
/-- HEADLINE: for every in-spec joint action from a consistent well-formed state, the observation returned by `step`
is the DOCUMENTED observation (`observeL2`: views as described in the observers' docstrings, mask = legality by the
rules, step count) of the successor state -/
theorem lbf_obs_faithful (cfg : Cfg) (h0 : 0 < cfg.fov) (s : State) (hc : Consistent cfg.gridSize s) (hw : WF s)
    (as : List Nat) (hlen : as.length = s.agents.length) (has : ∀ a ∈ as, a < 6) :
    (step cfg s (as.map Int.ofNat)).2.obs = observeL2 cfg (step cfg s (as.map Int.ofNat)).1 :=
  step_obs_documented cfg h0 s hc hw as hlen has

/-- reset: the first observation is the documented observation of the reset state … -/
theorem lbf_reset_obs_faithful (cfg : Cfg) (h0 : 0 < cfg.fov) (s : State) (hc : Consistent cfg.gridSize s) (hw : WF s) :
    (resetTs cfg s).obs = observeL2 cfg s := reset_obs_documented cfg h0 s hc hw

/-- … in particular for every generated instance (no hypothesis on the state left) -/
theorem lbf_generated_reset_obs_faithful (cfg : Cfg) (h0 : 0 < cfg.fov) (gc : GenCfg) (hg : cfg.gridSize = gc.gridSize)
    (d : GenDraw) (hd : validDraw gc d = true) :
    (resetTs cfg (generate gc d)).obs = observeL2 cfg (generate gc d) := gen_reset_obs_documented cfg h0 gc hg d hd

/-- … and along whole plays: every observation of the trace is the documented one of the state it comes with -/
theorem lbf_run_obs_faithful (cfg : Cfg) (h0 : 0 < cfg.fov) (as : List (List Nat)) (s : State)
    (hc : Consistent cfg.gridSize s) (hw : WF s) (h : ∀ a ∈ as, a.length = s.agents.length ∧ ∀ x ∈ a, x < 6) :
    ∀ r ∈ run cfg s (as.map (fun a => a.map Int.ofNat)), r.2.obs = observeL2 cfg r.1 :=
  run_obs_documented cfg h0 as s hc hw h

example : (0 < (⟨5, 1, 7, true, true, 0⟩ : Cfg).fov) ∧
    Consistent 5 ⟨[⟨0, (1, 1), 1, false⟩, ⟨1, (1, 2), 2, false⟩], [⟨0, (2, 2), 3, false⟩], 0⟩ ∧
    WF ⟨[⟨0, (1, 1), 1, false⟩, ⟨1, (1, 2), 2, false⟩], [⟨0, (2, 2), 3, false⟩], 0⟩ ∧
    ([4, 5] : List Nat).length = 2 ∧ (∀ a ∈ ([4, 5] : List Nat), a < 6) := by decide

/-- the L1 half: the observation returned by `step` is the observer's function of the successor state (never stale),
for ANY joint action and state -/
theorem lbf_obs_is_observer_of_successor (cfg : Cfg) (s : State) (a : List Int) :
    (step cfg s a).2.obs = observe cfg (step cfg s a).1 := obs_faithful cfg s a

/-- vector observer: agent `i` sees every food, then itself, then the other agents in order; an entity is
reported iff it lies within `fov` in both coordinates (a food: and is not yet collected), at its position relative
to the window clipped to the grid (`position − max(0, own − fov)`), otherwise as `(-1, -1, 0)` -/
theorem lbf_vector_view (fov : Nat) (s : State) (hw : WF s) (i : Nat) (hi : i < s.agents.length) :
    vectorView fov s s.agents[i] = vectorViewL2 fov s i s.agents[i] := vectorView_eq fov s hw i hi

/-- grid observer: window cell `(dr, dc)` of the agent at `me` shows world cell `me − fov + (dr, dc)`: the level of
the agent there, the level of the uneaten food there, and 1 iff that cell is inside the grid and empty; cells
outside the grid show 0 in all three layers.  (`fov ≥ 1` as the generator asserts.) -/
theorem lbf_grid_view (g fov : Nat) (h0 : 0 < fov) (s : State) (hc : Consistent g s) :
    gridView g fov s = s.agents.map (fun a => gridViewL2 g fov s a.pos) := gridView_eq g fov h0 s hc

/-- the whole observation (view of the configured observer, action mask, step count) is the documented one -/
theorem lbf_observe_documented (cfg : Cfg) (h0 : 0 < cfg.fov) (s : State) (hc : Consistent cfg.gridSize s) (hw : WF s) :
    observe cfg s = observeL2 cfg s := observe_eq_observeL2 cfg h0 s hc hw
end Props.C12

namespace Props.C10
/-!
`generate gc d` = the transliterated `RandomGenerator.__call__` (Model.lean): `gc` = its constructor arguments, `d` = what
it draws.  `validDraw gc d` = the draw lies in the support of the samplers (every food cell has the bit of the mask
current at its scan step set; agent cells pairwise distinct — `replace=False` — on set bits of the agent mask; levels
in `[1, max_agent_level]` resp. `[1, max_food_level]`).  The certificates hold for ALL `gc` and ALL valid draws; the
constructor's assertions (`GenCfg.Valid`) are not needed for them — they only make sure that the samplers' supports are
non-empty.  The driver op `lbf.instance` reads the draw off every implementation reset state and checks
`validDraw` (`draw_in_support`) and `generate gc draw = state` (`generator_matches`).
-/

theorem lbf_generate_fresh_start (gc : GenCfg) (d : GenDraw) : freshStart (generate gc d) := gen_fresh_start gc d

/-- "no food is placed on the grid's edge" -/
theorem lbf_generate_foods_interior (gc : GenCfg) (d : GenDraw) (h : validDraw gc d = true) :
    foodsInterior gc.gridSize (generate gc d) := gen_foods_interior gc d h

/-- "no two food items are adjacent" (nor equal) -/
theorem lbf_generate_foods_apart (gc : GenCfg) (d : GenDraw) (h : validDraw gc d = true) :
    foodsApart (generate gc d) := gen_foods_apart gc d h

/-- every food can be collected: its level is at most `max_food_level` = the sum of the three smallest agent levels,
which is at most the sum of the four largest (four agents fit around an interior food) -/
theorem lbf_generate_collectable (gc : GenCfg) (d : GenDraw) (h : validDraw gc d = true) :
    collectable (generate gc d) := gen_collectable gc d h

/-- agents inside the grid on pairwise distinct cells, none on a food; foods inside the grid -/
theorem lbf_generate_consistent (gc : GenCfg) (d : GenDraw) (h : validDraw gc d = true) :
    Consistent gc.gridSize (generate gc d) := gen_consistent gc d h

/-- agent `i` has id `i`, all levels ≥ 1 -/
theorem lbf_generate_wf (gc : GenCfg) (d : GenDraw) (h : validDraw gc d = true) : WF (generate gc d) := gen_wf gc d h

/-- everything at once: fresh start, foods interior and apart, collectable, consistent, well-formed, the counts, food
ids = indices, agent levels in `[1, max_agent_level]`, food levels in `[1, max_food_level]` and `= max_food_level`
under `force_coop` -/
theorem lbf_generate_certificates (gc : GenCfg) (d : GenDraw) (h : validDraw gc d = true) :
    freshStart (generate gc d) ∧ foodsInterior gc.gridSize (generate gc d) ∧ foodsApart (generate gc d) ∧
    collectable (generate gc d) ∧ Consistent gc.gridSize (generate gc d) ∧ WF (generate gc d) ∧
    ((generate gc d).agents.length = gc.numAgents ∧ (generate gc d).foods.length = gc.numFood) ∧
    (∀ k (hk : k < (generate gc d).foods.length), ((generate gc d).foods[k]).id = (k : Int)) ∧
    (∀ a ∈ (generate gc d).agents, 1 ≤ a.level ∧ a.level ≤ gc.maxAgentLevel) ∧
    (∀ f ∈ (generate gc d).foods, 1 ≤ f.level ∧ f.level ≤ maxFoodLevel ((generate gc d).agents.map (·.level)) ∧
      (gc.forceCoop = true → f.level = maxFoodLevel ((generate gc d).agents.map (·.level)))) :=
  gen_certificates gc d h

/-- the model's `jnp.sort` (an insertion sort, so that instances evaluate) is the sorted permutation -/
theorem lbf_sort_is_sort (l : List Int) : sortAsc l = l.mergeSort (fun a b => decide (a ≤ b)) := sortAsc_eq_mergeSort l

/-- a concrete configuration satisfying the constructor's assertions, a draw in the support, and the generated state
(foods at flat cells 8 = (1, 2) and 22 = (3, 4); agents at 0 = (0, 0) and 9 = (1, 3), next to the first food) -/
example : (⟨6, 2, 2, 2, false⟩ : GenCfg).Valid ∧
    validDraw ⟨6, 2, 2, 2, false⟩ ⟨[8, 22], [0, 9], [2, 1], [3, 1]⟩ = true ∧
    generate ⟨6, 2, 2, 2, false⟩ ⟨[8, 22], [0, 9], [2, 1], [3, 1]⟩ =
      ⟨[⟨0, (0, 0), 2, false⟩, ⟨1, (1, 3), 1, false⟩], [⟨0, (1, 2), 3, false⟩, ⟨1, (3, 4), 1, false⟩], 0⟩ ∧
    -- not in the support: second food next to the first / on the edge; an agent on a food; agents on one cell
    validDraw ⟨6, 2, 2, 2, false⟩ ⟨[8, 14], [0, 9], [2, 1], [3, 1]⟩ = false ∧
    validDraw ⟨6, 2, 2, 2, false⟩ ⟨[8, 23], [0, 9], [2, 1], [3, 1]⟩ = false ∧
    validDraw ⟨6, 2, 2, 2, false⟩ ⟨[8, 22], [0, 8], [2, 1], [3, 1]⟩ = false ∧
    validDraw ⟨6, 2, 2, 2, false⟩ ⟨[8, 22], [9, 9], [2, 1], [3, 1]⟩ = false ∧
    validDraw ⟨6, 2, 2, 2, false⟩ ⟨[8, 22], [0, 9], [2, 1], [4, 1]⟩ = false := by decide +kernel

/-- generated instances stay consistent under every in-spec play (the generator theorems composed with C07) -/
theorem lbf_generated_stays_consistent (cfg : Cfg) (gc : GenCfg) (hg : cfg.gridSize = gc.gridSize) (d : GenDraw)
    (hd : validDraw gc d = true) (as : List (List Nat))
    (h : ∀ a ∈ as, a.length = gc.numAgents ∧ ∀ x ∈ a, x < 6) :
    Consistent cfg.gridSize (finalState cfg (generate gc d) (as.map (fun a => a.map Int.ofNat))) ∧
      WF (finalState cfg (generate gc d) (as.map (fun a => a.map Int.ofNat))) :=
  gen_final_consistent cfg gc hg d hd as h

/-- … and all four neighbouring cells of every generated food are inside the grid -/
theorem lbf_generated_food_neighbours_in_grid (gc : GenCfg) (d : GenDraw) (h : validDraw gc d = true) (f : Food)
    (hf : f ∈ (generate gc d).foods) (a : Nat) (ha1 : 1 ≤ a) (ha4 : a ≤ 4) : inGrid gc.gridSize (addP f.pos (dir a)) :=
  food_neighbours_in_grid gc.gridSize _ (gen_foods_interior gc d h) f hf a ha1 ha4

/-! the "certificate ⇒ advertised invariant" half (for any state passing the certificates): -/

/-- certificate "food not on the border" ⇒ all four neighbouring cells of every food are inside the grid (so up
to four agents can stand around it) -/
theorem lbf_food_neighbours_in_grid (g : Nat) (s : State) (h : foodsInterior g s) (f : Food) (hf : f ∈ s.foods)
    (a : Nat) (ha1 : 1 ≤ a) (ha4 : a ≤ 4) : inGrid g (addP f.pos (dir a)) :=
  food_neighbours_in_grid g s h f hf a ha1 ha4

/-- certificate "food not adjacent" ⇒ foods lie on pairwise distinct, non-neighbouring cells -/
theorem lbf_foods_apart (s : State) (h : foodsApart s) :
    s.foods.Pairwise (fun a b => a.pos ≠ b.pos ∧ dist a.pos b.pos ≠ 1) := foods_apart s h

/-- a reset state that passes the certificates `Consistent` (entities on distinct free cells inside the grid) and
`WF` stays consistent under every in-spec play (C07 applied to generated instances) -/
theorem lbf_instance_stays_consistent (cfg : Cfg) (s : State) (hc : Consistent cfg.gridSize s) (hw : WF s)
    (as : List (List Nat)) (h : ∀ a ∈ as, a.length = s.agents.length ∧ ∀ x ∈ a, x < 6) :
    Consistent cfg.gridSize (finalState cfg s (as.map (fun a => a.map Int.ofNat))) :=
  (consistent_along cfg as s hc hw h).1
end Props.C10

namespace Props.C01
/-
`obsBounds cfg A L` (Env/LBF/Bounds.lean; `A` = num_agents, `L` = the generator's max_agent_level, which `Cfg` does
not carry): agents_view ∈ [-1, max (A·L) (max L (min (2·fov) (gridSize-1)))] (vector observer) resp.
[0, max (A·L) L] (grid observer); action_mask ∈ [0, 1]; step_count ∈ [0, timeLimit].
`BInv cfg A L s` = `Consistent cfg.gridSize s ∧ WF s` ∧ agent levels ≤ L ∧ food levels ≤ A·L ∧ foods on pairwise
distinct cells (what `RandomGenerator` produces; preserved by every in-spec step: `lbf_binv_step`).  No hypothesis on
`fov`, sizes or counts.
-/

/-- reset: the observation of any state satisfying the invariant with step count 0 lies within `obsBounds`
(`resetTs cfg s = restart (observe cfg s)`; `lbf_generate_binv` below: every generated state satisfies the invariant) -/
theorem lbf_reset_obs_in_bounds (cfg : Cfg) (A L : Nat) (s : State) (h : BInv cfg A L s)
    (h0 : s.stepCount = 0) (ht : 0 ≤ cfg.timeLimit) :
    ObsInBounds (obsBounds cfg A L) (resetTs cfg s).obs := reset_obs_in_bounds cfg A L s h h0 ht

/-- the generator establishes the invariant: `generate gc d` satisfies `BInv` with `A = num_agents`,
`L = max_agent_level` for every valid draw and EVERY number of agents (food level ≤ `min 3 A · L ≤ A · L`) -/
theorem lbf_generate_binv (cfg : Cfg) (gc : GenCfg) (L : Nat) (hg : cfg.gridSize = gc.gridSize)
    (hL : gc.maxAgentLevel = (L : Int)) (d : GenDraw) (h : validDraw gc d = true) :
    BInv cfg gc.numAgents L (generate gc d) := gen_binv cfg gc L hg hL d h

/-- … so the reset observation of every generated instance lies within `obsBounds` (no hypothesis on the state) -/
theorem lbf_generated_reset_obs_in_bounds (cfg : Cfg) (gc : GenCfg) (L : Nat) (hg : cfg.gridSize = gc.gridSize)
    (hL : gc.maxAgentLevel = (L : Int)) (d : GenDraw) (h : validDraw gc d = true) (ht : 0 ≤ cfg.timeLimit) :
    ObsInBounds (obsBounds cfg gc.numAgents L) (resetTs cfg (generate gc d)).obs :=
  reset_obs_in_bounds cfg gc.numAgents L _ (gen_binv cfg gc L hg hL d h) (gen_fresh_start gc d).1 ht

/-- the hypotheses of `lbf_reset_obs_in_bounds` instantiated by a generated state -/
example : BInv ⟨6, 2, 7, true, true, 0⟩ 2 2 (generate ⟨6, 2, 2, 2, false⟩ ⟨[8, 22], [0, 9], [2, 1], [3, 1]⟩) ∧
    (generate ⟨6, 2, 2, 2, false⟩ ⟨[8, 22], [0, 9], [2, 1], [3, 1]⟩).stepCount = 0 ∧
    (0 : Int) ≤ (⟨6, 2, 7, true, true, 0⟩ : Cfg).timeLimit := by decide +kernel

/-- every step before the time limit is reached — including the one that reaches it (`step_count = time_limit`)
and the one that collects the last food — emits an observation within `obsBounds`, for every in-spec joint action -/
theorem lbf_step_obs_in_bounds (cfg : Cfg) (A L : Nat) (s : State) (h : BInv cfg A L s) (as : List Nat)
    (hlen : as.length = s.agents.length) (has : ∀ a ∈ as, a < 6)
    (h0 : 0 ≤ s.stepCount) (h1 : s.stepCount < cfg.timeLimit) :
    ObsInBounds (obsBounds cfg A L) (step cfg s (as.map Int.ofNat)).2.obs :=
  step_obs_in_bounds cfg A L s h as hlen has h0 h1

/-- the invariant is kept by every in-spec joint action, hence holds along whole episodes -/
theorem lbf_binv_step (cfg : Cfg) (A L : Nat) (s : State) (h : BInv cfg A L s) (as : List Nat)
    (hlen : as.length = s.agents.length) (has : ∀ a ∈ as, a < 6) :
    BInv cfg A L (step cfg s (as.map Int.ofNat)).1 := step_binv cfg A L s h as hlen has

theorem lbf_binv_along (cfg : Cfg) (A L : Nat) (as : List (List Nat)) (s : State) (h : BInv cfg A L s)
    (has : ∀ a ∈ as, a.length = s.agents.length ∧ ∀ x ∈ a, x < 6) :
    BInv cfg A L (finalState cfg s (as.map (fun a => a.map Int.ofNat))) := binv_along cfg A L as s h has

/-- non-vacuity: `obsBounds` has an interval for every leaf of the observation -/
theorem lbf_obs_bounds_cover (cfg : Cfg) (A L : Nat) (o : Obs) :
    ∀ p ∈ obsLeaves o, ∃ b ∈ obsBounds cfg A L, b.1 = p.1 := obs_bounds_cover cfg A L o

/-- the hypotheses are satisfiable: two agents (levels 1, 2 ≤ L = 2), foods of level 3, 4 ≤ A·L = 4
(one already eaten), grid observer, a joint action [right, load] -/
example : BInv ⟨5, 1, 7, true, true, 0⟩ 2 2
      ⟨[⟨0, (1, 1), 1, false⟩, ⟨1, (1, 2), 2, false⟩], [⟨0, (2, 2), 3, false⟩, ⟨1, (3, 0), 4, true⟩], 0⟩ ∧
    ([4, 5] : List Nat).length = 2 ∧ (∀ a ∈ ([4, 5] : List Nat), a < 6) ∧ (0 : Int) ≤ 0 ∧ (0 : Int) < 7 := by decide
/-! NOTE on what the membership theorems of this section do and do not cover (audits r4 #6, r5 #6, r6 #8): the dtype tag of every leaf
is written by `toNValue` (by construction) — a wrong dtype in the real code cannot falsify `….valid (toNValue …) = true`; dtypes and
field order of the real observations are compared by the `lbf.spec` / `lbf.state` ops (`nvalue`: field order, shape, dtype, data) and
`jax.eval_shape` in the sweeps.  Shapes are READ OFF the value by `toNValue` (widths off the first row): see `…_obs_valid_only`. -/

/-! #### (wave 4) membership in the DECLARED specs: structure, shapes, dtypes and bounds -/
open Sp PzS PkS MaS

/-- the model's `obsSpec` / `actionSpec` / reward and discount specs ARE the specs generated from the real spec objects
(Gen/Specs.lean) for the two catalogue configurations: `LevelBasedForaging(RandomGenerator(grid_size=6, num_agents=2, num_food=2,
fov=2), time_limit=8)` (vector observer: `agents_view` (2, 12) int32 in `[−1, 6]`) and the grid-observer configuration (grid 7,
3 agents, 2 foods, fov 7, time_limit 6) — all leaves of both (the `lbf.spec` op also compares them with the real spec objects at
run time in every C09 / C12 sweep).
(audit r6 #3) The generated table now holds every leaf whose BOUNDS are small, so the `lbf-grid` conjunct is about the WHOLE
`obsSpec` (its `agents_view` leaf (3, 3, 15, 15) included; it used to be `.tail`).  In both catalogue configurations the maximum
`max(A·L, L, grid_size)` of `agents_view` is the grid size; the two SPEC-ONLY configurations have `A·L > grid_size`: vector observer
`RandomGenerator(grid_size=7, num_agents=3, num_food=2, fov=2, max_agent_level=3)`, limit 11 (`agents_view` (3, 15) in `[−1, 9]`), and
grid observer `RandomGenerator(grid_size=6, num_agents=2, num_food=1, fov=3, max_agent_level=4)`, limit 9 (`agents_view` (2, 3, 7, 7) in
`[0, 8]`) — a `specMax := gridSize` fails both -/
theorem lbf_obsSpec_generated :
    prefixed "observation_spec." (obsSpec ⟨6, 2, 8, false, true, 0⟩ 2 2 2) = declared "lbf-6x2" "observation_spec." ∧
    prefixed "observation_spec." (obsSpec ⟨7, 7, 6, true, true, 0⟩ 3 2 2) = declared "lbf-grid" "observation_spec." ∧
    [("action_spec", actionSpec 2)] = declared "lbf-6x2" "action_spec" ∧
    [("action_spec", actionSpec 3)] = declared "lbf-grid" "action_spec" ∧
    [("reward_spec", rewardSpecN 2)] = declared "lbf-6x2" "reward_spec" ∧
    [("reward_spec", rewardSpecN 3)] = declared "lbf-grid" "reward_spec" ∧
    [("discount_spec", discountSpecN 2)] = declared "lbf-6x2" "discount_spec" ∧
    [("discount_spec", discountSpecN 3)] = declared "lbf-grid" "discount_spec" ∧
    prefixed "observation_spec." (obsSpec ⟨7, 2, 11, false, true, 0⟩ 3 2 3) = declared "spec-only-lbf-7x3x2-l3" "observation_spec." ∧
    [("action_spec", actionSpec 3)] = declared "spec-only-lbf-7x3x2-l3" "action_spec" ∧
    [("reward_spec", rewardSpecN 3)] = declared "spec-only-lbf-7x3x2-l3" "reward_spec" ∧
    [("discount_spec", discountSpecN 3)] = declared "spec-only-lbf-7x3x2-l3" "discount_spec" ∧
    prefixed "observation_spec." (obsSpec ⟨6, 3, 9, true, true, 0⟩ 2 1 4) = declared "spec-only-lbf-grid-6x2x1-l4" "observation_spec." ∧
    [("action_spec", actionSpec 2)] = declared "spec-only-lbf-grid-6x2x1-l4" "action_spec" ∧
    [("reward_spec", rewardSpecN 2)] = declared "spec-only-lbf-grid-6x2x1-l4" "reward_spec" ∧
    [("discount_spec", discountSpecN 2)] = declared "spec-only-lbf-grid-6x2x1-l4" "discount_spec" := by
  refine ⟨by decide +kernel, by decide +kernel, by decide +kernel, by decide +kernel, by decide +kernel, by decide +kernel,
    by decide +kernel, by decide +kernel, by decide +kernel, by decide +kernel, by decide +kernel, by decide +kernel,
    by decide +kernel, by decide +kernel, by decide +kernel, by decide +kernel⟩

/-- the invariant behind the membership theorems (`BInv` plus the entity counts and a non-negative counter) is established
by the generator for EVERY valid draw and preserved by EVERY in-spec joint action (one entry `< 6` per agent; legal or not,
collisions or not, MID or LAST) -/
theorem lbf_specInv_invariant (cfg : Cfg) (A F L : Nat) :
    (∀ (gc : GenCfg) (d : GenDraw), cfg.gridSize = gc.gridSize → gc.maxAgentLevel = (L : Int) → gc.numAgents = A →
      gc.numFood = F → validDraw gc d = true → SpecInv cfg A F L (generate gc d)) ∧
    (∀ (s : State) (as : List Nat), SpecInv cfg A F L s → as.length = A → (∀ a ∈ as, a < 6) →
      SpecInv cfg A F L (step cfg s (as.map Int.ofNat)).1) :=
  ⟨fun gc d hg hL hA hF h => hA ▸ hF ▸ LBF.gen_specInv cfg gc L hg hL d h,
   fun s as h hl ha => LBF.step_specInv cfg A F L s h as hl ha⟩

/-- the shapes of what the observers emit, for EVERY state: `3·(A + F)` numbers per agent (vector observer, at least one
agent), an `(A, 3, 2·fov + 1, 2·fov + 1)` array (grid observer), an `(A, 6)` mask -/
theorem lbf_view_shapes (g fov : Nat) (s : State) :
    (0 < s.agents.length → Rect2 (s.agents.map (vectorView fov s)) s.agents.length (3 * (s.agents.length + s.foods.length))) ∧
    Rect4 (gridView g fov s) s.agents.length 3 (2 * fov + 1) (2 * fov + 1) ∧ Rect2 (masks g s) s.agents.length 6 :=
  ⟨LBF.vecView_rect fov s, LBF.gridView_rect g fov s, LBF.masks_rect g s⟩

/-- the `reset` observation is accepted by `observation_spec.validate` for EVERY valid draw of the generator — both
observers, every grid size, `fov`, number of agents (≥ 1) and foods, `time_limit ≥ 0` -/
theorem lbf_reset_obs_valid (cfg : Cfg) (gc : GenCfg) (L : Nat) (hg : cfg.gridSize = gc.gridSize)
    (hL : gc.maxAgentLevel = (L : Int)) (hA : 0 < gc.numAgents) (hT : 0 ≤ cfg.timeLimit) (d : GenDraw)
    (h : validDraw gc d = true) :
    (obsSpec cfg gc.numAgents gc.numFood L).valid (toNValue (resetTs cfg (generate gc d)).obs) = true :=
  LBF.reset_obs_valid cfg _ _ L hA hT _ (LBF.gen_specInv cfg gc L hg hL d h) (gen_fresh_start gc d).1

/-- … and on any state satisfying the invariant with counter 0 -/
theorem lbf_reset_obs_valid_of_inv (cfg : Cfg) (A F L : Nat) (hA : 0 < A) (hT : 0 ≤ cfg.timeLimit) (s : State)
    (h : SpecInv cfg A F L s) (h0 : s.stepCount = 0) :
    (obsSpec cfg A F L).valid (toNValue (resetTs cfg s).obs) = true := LBF.reset_obs_valid cfg A F L hA hT s h h0

/-- the observation of EVERY in-spec `step` (legal or not, MID or LAST — the step that collects the last food and the one
that reaches the time limit included) from every state with the invariant whose counter has not reached the limit -/
theorem lbf_step_obs_valid (cfg : Cfg) (A F L : Nat) (hA : 0 < A) (s : State) (h : SpecInv cfg A F L s)
    (hlim : s.stepCount < cfg.timeLimit) (as : List Nat) (hlen : as.length = A) (has : ∀ a ∈ as, a < 6) :
    (obsSpec cfg A F L).valid (toNValue (step cfg s (as.map Int.ofNat)).2.obs) = true :=
  LBF.step_obs_valid cfg A F L hA s h hlim as hlen has

example : SpecInv ⟨5, 1, 7, true, true, 0⟩ 2 2 2
      ⟨[⟨0, (1, 1), 1, false⟩, ⟨1, (1, 2), 2, false⟩], [⟨0, (2, 2), 3, false⟩, ⟨1, (3, 0), 4, true⟩], 0⟩ := by decide

/-- WHOLE EPISODES: along the rollout (`Ep.rollout` = the L1 step iterated) of ANY in-spec joint actions from the reset state
of ANY valid draw of the generator, every observation emitted by one of the first `time_limit` steps is a member of the spec;
step `time_limit` is LAST (`lbf_episode_last_by_limit`), so this covers every observation of every episode incl. the terminal one -/
theorem lbf_obs_valid_along (cfg : Cfg) (gc : GenCfg) (L : Nat) (hg : cfg.gridSize = gc.gridSize)
    (hL : gc.maxAgentLevel = (L : Int)) (hA : 0 < gc.numAgents) (d : GenDraw) (h : validDraw gc d = true)
    (as : List (List Nat)) (has : ∀ a ∈ as, a.length = gc.numAgents ∧ ∀ x ∈ a, x < 6) (j : Nat)
    (hj : (j : Int) < cfg.timeLimit) (e : State × TimeStep Obs)
    (he : (Ep.rollout (fun s (a : List Nat) => step cfg s (a.map Int.ofNat)) (generate gc d) as)[j]? = some e) :
    (obsSpec cfg gc.numAgents gc.numFood L).valid (toNValue e.2.obs) = true :=
  LBF.rollout_obs_valid cfg _ _ L hA _ (LBF.gen_specInv cfg gc L hg hL d h) (gen_fresh_start gc d).1 as has j hj e he

theorem lbf_rollout_obs_valid (cfg : Cfg) (A F L : Nat) (hA : 0 < A) (s0 : State) (h : SpecInv cfg A F L s0)
    (h0 : s0.stepCount = 0) (as : List (List Nat)) (has : ∀ a ∈ as, a.length = A ∧ ∀ x ∈ a, x < 6) (j : Nat)
    (hj : (j : Int) < cfg.timeLimit) (e : State × TimeStep Obs)
    (he : (Ep.rollout (fun s (a : List Nat) => step cfg s (a.map Int.ofNat)) s0 as)[j]? = some e) :
    (obsSpec cfg A F L).valid (toNValue e.2.obs) = true := LBF.rollout_obs_valid cfg A F L hA s0 h h0 as has j hj e he

/-- what membership means: `validate` accepts an observation ONLY IF the view has the declared shape of the configured
observer, every entry lies between the observer's minimum (−1 vector, 0 grid) and `max(A·L, L, grid_size)`, the mask is
`(A, 6)` and the counter lies in `[0, time_limit]`  CAVEAT (audits r4 #7, r5 #5, r6 #5): for every field that is a nested list, `toNValue` reads the widths off the FIRST row of the
nested list, so the shape conjuncts here mean "row count, length of the first row, total number of cells" — a ragged value with the right total can be a
member, and nothing is concluded about the later rows.  Rectangularity is part of the invariant (`SpecInv` / `Shaped` / `Rect…`) under which the
forward theorems (`…_reset_obs_valid`, `…_step_obs_valid`, `…_along`) are proved, i.e. it holds of every EMITTED observation. -/
theorem lbf_obs_valid_only (cfg : Cfg) (A F L : Nat) (o : Obs) (h : (obsSpec cfg A F L).valid (toNValue o) = true) :
    (viewArr o.view).shape = (if cfg.gridObs then [A, 3, 2 * cfg.fov + 1, 2 * cfg.fov + 1] else [A, 3 * (A + F)]) ∧
    (∀ x ∈ viewInts o.view, (if cfg.gridObs then 0 else -1) ≤ x ∧ x ≤ specMax cfg A L) ∧
    shape2 o.mask = [A, 6] ∧ o.mask.flatten.length = A * 6 ∧ 0 ≤ o.stepCount ∧ o.stepCount ≤ cfg.timeLimit :=
  LBF.obs_valid_only cfg A F L o h

/-- positive: reset observations under both observers and the observation after a step; negative: a counter beyond the limit,
the vector view offered to the grid spec, the spec of three agents, a view entry above the maximum -/
example :
    let s : State := ⟨[⟨0, (1, 1), 1, false⟩, ⟨1, (1, 2), 2, false⟩], [⟨0, (2, 2), 3, false⟩, ⟨1, (3, 0), 4, true⟩], 0⟩
    let cg : Cfg := ⟨5, 1, 7, true, true, 0⟩
    let cv : Cfg := ⟨5, 1, 7, false, true, 0⟩
    (obsSpec cg 2 2 2).valid (toNValue (resetTs cg s).obs) = true ∧
    (obsSpec cv 2 2 2).valid (toNValue (resetTs cv s).obs) = true ∧
    (obsSpec cv 2 2 2).valid (toNValue (step cv s [4, 5]).2.obs) = true ∧
    (obsSpec cv 2 2 2).valid (toNValue { (resetTs cv s).obs with stepCount := 8 }) = false ∧
    (obsSpec cg 2 2 2).valid (toNValue (resetTs cv s).obs) = false ∧
    (obsSpec cv 3 2 2).valid (toNValue (resetTs cv s).obs) = false ∧
    (obsSpec cv 2 2 2).valid (toNValue { (resetTs cv s).obs with
      view := .vec [[6, 0, 0, 0, 0, 0, 0, 0, 0, 0, 0, 0], [0, 0, 0, 0, 0, 0, 0, 0, 0, 0, 0, 0]] }) = false := by
  decide +kernel

/-- reward and discount of EVERY step from a state with `A` agents (any integers as joint action) and of `reset` are accepted
by `reward_spec` (Array((A,), float)) and `discount_spec` (BoundedArray((A,), float, 0, 1)) -/
theorem lbf_reward_discount_valid (cfg : Cfg) (A : Nat) (s : State) (hl : s.agents.length = A) (a : List Int) :
    (rewardSpecN A).valid (vecArr (step cfg s a).2.reward) = true ∧
    (discountSpecN A).valid (vecArr (step cfg s a).2.discount) = true ∧
    (rewardSpecN A).valid (vecArr (resetTs cfg s).reward) = true ∧
    (discountSpecN A).valid (vecArr (resetTs cfg s).discount) = true :=
  ⟨(LBF.step_reward_discount_valid cfg A s hl a).1, (LBF.step_reward_discount_valid cfg A s hl a).2,
   (LBF.reset_reward_discount_valid cfg A s hl).1, (LBF.reset_reward_discount_valid cfg A s hl).2⟩

/-- `action_spec.generate_value()` = the all-no-op joint action: the action spec is well-formed, the generated value is a
member, and `step` answers it from every state with the invariant (counter below the limit) with a non-FIRST timestep whose
observation, reward and discount are members of their specs -/
theorem lbf_accepts_generate_value (cfg : Cfg) (A F L : Nat) (hA : 0 < A) (s : State) (h : SpecInv cfg A F L s)
    (hlim : s.stepCount < cfg.timeLimit) :
    (actionSpec A).WF = true ∧ (actionSpec A).valid (actionSpec A).generate = true ∧
    (actionSpec A).generate = actionArr ((List.replicate A 0).map Int.ofNat) ∧
    (obsSpec cfg A F L).valid (toNValue (step cfg s ((List.replicate A 0).map Int.ofNat)).2.obs) = true ∧
    (rewardSpecN A).valid (vecArr (step cfg s ((List.replicate A 0).map Int.ofNat)).2.reward) = true ∧
    (discountSpecN A).valid (vecArr (step cfg s ((List.replicate A 0).map Int.ofNat)).2.discount) = true ∧
    (step cfg s ((List.replicate A 0).map Int.ofNat)).2.stepType ≠ .first :=
  LBF.accepts_generate_value cfg A F L hA s h hlim

/-- membership in `action_spec` is "one entry per agent, each one of 0 … 5" -/
theorem lbf_action_spec_iff (A : Nat) (as : List Int) :
    (actionSpec A).valid (actionArr as) = true ↔ as.length = A ∧ ∀ a ∈ as, 0 ≤ a ∧ a < 6 :=
  actionSpecN_valid_iff A 6 as
end Props.C01

namespace Props.C08
/-- C08 FROM THE GENERATOR (audit r6 #10): `lbf_return_is_one` with its hypotheses on the start state (food levels ≥ 1, some food,
nothing eaten yet) discharged by `RandomGenerator` — for every generator configuration with at least one food item, EVERY valid
draw, and every play of joint actions of the right length that ends with all food collected, the rewards handed out (all agents,
all steps; normalised, no penalty) add up to exactly one -/
theorem lbf_generated_return_is_one (cfg : Cfg) (hn : cfg.normalize = true) (hp : cfg.penalty = 0) (gc : GenCfg)
    (hF : 0 < gc.numFood) (d : GenDraw) (hd : validDraw gc d = true) (as : List (List Int))
    (hlen : ∀ a ∈ as, a.length = gc.numAgents)
    (hend : (finalState cfg (generate gc d) as).foods.all (fun f => f.eaten) = true) :
    teamReturn cfg (generate gc d) as = 1 := by
  refine Props.C08.lbf_return_is_one cfg hn hp _ as (gen_wf gc d hd).2.2 ?_ ?_ (gen_fresh_start gc d).2.2 hend
  · intro h
    have := gen_foods_length gc d
    rw [h] at this; simp at this; omega
  · intro a ha; rw [gen_agents_length]; exact hlen a ha
end Props.C08

namespace Props.C04
/-- the reaction of `step` ITSELF to a move action (audit r6 #6; `lbf_step_agrees` is about `simulate_agent_movement` BEFORE
`fix_collisions`, which reverts a legal move when two agents want the same cell): for every well-formed state, every in-spec joint
action and every agent `i` submitting a move (1..4), after the step the agent stands on the cell it asked for IF AND ONLY IF the
move is legal by the rules AND no other agent's target (`targets`: the cell each agent wants to enter, its own cell when it
stays or its move is illegal) is that cell -/
theorem lbf_step_moves_iff_legal (cfg : Cfg) (s : State) (hw : WF s) (as : List Nat)
    (hlen : as.length = s.agents.length) (has : ∀ a ∈ as, a < 6) (i : Nat) (hi : i < s.agents.length)
    (hm : 1 ≤ as[i]'(by omega) ∧ as[i]'(by omega) ≤ 4) :
    ∃ h : i < (step cfg s (as.map Int.ofNat)).1.agents.length,
      (((step cfg s (as.map Int.ofNat)).1.agents[i]).pos = addP s.agents[i].pos (dir (as[i]'(by omega))) ↔
        (legal cfg.gridSize s i (as[i]'(by omega)) ∧
         ¬ ∃ u ∈ (targets cfg.gridSize s as).eraseIdx i, u = addP s.agents[i].pos (dir (as[i]'(by omega))))) :=
  LBF.step_moves_iff_legal cfg s hw as hlen has i hi hm

/-- both outcomes occur for LEGAL moves: three agents on a 5 × 5 grid; agents 0 (right) and 1 (left) both want cell (1, 2) — both
moves are legal, neither happens; agent 2 (down, onto a free cell nobody else wants) moves -/
example :
    let s : State := ⟨[⟨0, (1, 1), 1, false⟩, ⟨1, (1, 3), 2, false⟩, ⟨2, (0, 2), 1, false⟩], [⟨0, (3, 3), 3, false⟩], 0⟩
    let cfg : Cfg := ⟨5, 1, 7, false, true, 0⟩
    WF s ∧ legal 5 s 0 4 ∧ legal 5 s 1 3 ∧
    ((step cfg s [4, 3, 0]).1.agents.map (·.pos)) = [(1, 1), (1, 3), (0, 2)] ∧
    ((step cfg s [4, 0, 0]).1.agents.map (·.pos)) = [(1, 2), (1, 3), (0, 2)] := by decide
end Props.C04

