/-
Property theorems for Game2048 (helper lemmas and proofs: Env/Game2048/Lemmas.lean).
Rows have ANY length; boards are square (`Square b`: every row as long as the board has rows), any size.
-/
import JumanjiModel.Env.Game2048.Lemmas
import JumanjiModel.Env.Game2048.Bounds
import JumanjiModel.Env.Game2048.BoardLemmas
import JumanjiModel.Env.Game2048.EpisodeLemmas
import JumanjiModel.Env.Game2048.ResetLemmas
import JumanjiModel.Env.Game2048.SpecLemmas
open Jm Game2048

namespace Props.C09
/-- for a row of any length the L1 `move_left_row` loop computes the L2 slide (compress, merge equal
neighbours once from the wall, pad) and the reward is the sum of the values of the tiles created -/
theorem game2048_moveLeftRow_eq_spec (r : List Nat) : moveLeftRow r = (slideSpec r, rowReward r) :=
  Game2048.moveLeftRow_eq_spec r

/-- board level: L1 `move` (transform, move left, transform back) = L2 slide of every line towards the wall -/
theorem game2048_move_eq_spec (b : Board) (a : Nat) (ha : a < 4) (hs : Square b) :
    move b (a : Int) = (slideBoard b (Dir.ofAction a), boardReward b (Dir.ofAction a)) :=
  Game2048.move_eq_spec b a ha hs

example : moveLeftRow [1, 1, 1, 1, 2, 0, 2] = ([2, 2, 3, 0, 0, 0, 0], 16) := by decide +kernel
example : Square [[1, 1, 0], [0, 2, 2], [3, 0, 3]] := by unfold Square; decide

/-- (wave 3) WHOLE-STEP refinement, all fields: on every square board whose cached mask is the legality of the four moves
(an invariant from `reset` on: `game2048_consistent_along`), for each of the four moves and EVERY draw, the transliterated
`Game2048.step` (transform, row loops, transform back, spawn decided by the CACHED mask bit, `_get_action_mask`, `lax.cond`)
equals the rules `stepL2` written directly: slide; a tile is spawned iff the move changed the board; reward = values of the
merged tiles; new mask = legality on the new board; LAST iff no move is legal there — successor state (board, step count,
mask, score), step type, reward, discount and observation -/
theorem game2048_step_eq_rules (s : State) (a : Nat) (d : Draw) (ha : a < 4) (hs : Square s.board)
    (hm : s.actionMask = legalMask s.board) : step s a d = stepL2 s a d := Game2048.step_eq_stepL2 s a d ha hs hm

/-- what `stepL2` says when no move is legal afterwards / some move is -/
theorem game2048_rules_last_iff (s : State) (a : Nat) (d : Draw) :
    (stepL2 s a d).2.stepType = .last ↔ ¬ ∃ a', legal (stepL2 s a d).1.board a' := by
  rw [Game2048.stepL2_last_iff, ← Game2048.canPlay_iff]; simp

/-- the same about `step` ITSELF (audit r4 #5): on a square board whose cached mask is the legality mask, for every action 0..3 and
every spawn draw, `step` answers LAST exactly when no move is legal on the successor board -/
theorem game2048_step_last_iff (s : State) (a : Nat) (d : Draw) (ha : a < 4) (hs : Square s.board)
    (hm : s.actionMask = legalMask s.board) :
    (step s a d).2.stepType = .last ↔ ¬ ∃ a', legal (step s a d).1.board a' := by
  rw [game2048_step_eq_rules s a d ha hs hm]
  exact game2048_rules_last_iff s a d

-- a 2×2 state where Left merges 2+2, spawns a 4 on cell 3 and leaves a playable board; and the refinement's hypotheses hold
example : Square (reset 2 ⟨0, 1⟩).1.board ∧ (reset 2 ⟨0, 1⟩).1.actionMask = legalMask (reset 2 ⟨0, 1⟩).1.board ∧
    (stepL2 (reset 2 ⟨0, 1⟩).1 1 ⟨0, 1⟩).1.board = [[1, 1], [0, 0]] ∧
    (stepL2 (stepL2 (reset 2 ⟨0, 1⟩).1 1 ⟨0, 1⟩).1 3 ⟨3, 2⟩).2.reward = [4] := by
  refine ⟨by unfold Square; decide +kernel, by decide +kernel, by decide +kernel, by decide +kernel⟩
end Props.C09

namespace Props.C04
/-- `can_move_left_row r` is false exactly when the slide leaves the row unchanged (rows of any length) -/
theorem game2048_canMoveLeftRow_false_iff (r : List Nat) : canMoveLeftRow r = false ↔ slideSpec r = r :=
  Game2048.canMoveLeftRow_false_iff r

/-- … and exactly when the L1 `move_left_row` loop leaves it unchanged -/
theorem game2048_canMoveLeftRow_false_iff_move (r : List Nat) :
    canMoveLeftRow r = false ↔ (moveLeftRow r).1 = r := Game2048.canMoveLeftRow_false_iff_move r

/-- the mask bit of move `a` is set exactly when the rules allow it (the move changes the board) -/
theorem game2048_mask_iff_legal (b : Board) (a : Nat) (ha : a < 4) (hs : Square b) :
    (actionMask b).getD a false = true ↔ legal b a := by
  rw [Game2048.actionMask_getD b a ha]; exact Game2048.canMove_iff_legal b a ha hs

theorem game2048_actionMask_eq_legalMask (b : Board) (hs : Square b) : actionMask b = legalMask b :=
  Game2048.actionMask_eq_legalMask b hs

/-- the mask cached in the state after any step is the mask of the successor board -/
theorem game2048_cached_mask (s : State) (a : Int) (d : Draw) :
    (step s a d).1.actionMask = actionMask (step s a d).1.board := Game2048.step_cached_mask s a d

/-- the environment's own reaction (a tile is spawned iff the cached mask bit is set) agrees with the rules -/
theorem game2048_step_agrees (s : State) (a : Nat) (ha : a < 4) (hs : Square s.board)
    (hm : s.actionMask = actionMask s.board) :
    Jx.getWC s.actionMask false (a : Int) = true ↔ legal s.board a := Game2048.step_agrees s a ha hs hm

example : legal [[1, 1], [0, 2]] 3 ∧ ¬ legal [[1, 2], [0, 0]] 0 := by decide +kernel

/-- (wave 3; the statement above only relates the cached mask bit to the rules) the reaction of `step` ITSELF: from every
consistent state (every state of every play from `reset`), for each of the four moves and every draw that is valid when a
tile is spawned, the rules allow the move IFF `step` put a new tile on the board (the tile sum changed — this is how the
harness reads "the environment treated the move as valid" off a transition) IFF `step` changed the board at all -/
theorem game2048_step_reaction (n : Nat) (s : State) (a : Nat) (d : Draw) (ha : a < 4) (hc : Consistent n s)
    (hd : legal s.board a → validDraw (slideBoard s.board (Dir.ofAction a)) d) :
    (legal s.board a ↔ boardSum (step s a d).1.board ≠ boardSum s.board) ∧
    (legal s.board a ↔ (step s a d).1.board ≠ s.board) := Game2048.step_reaction n s a d ha hc hd

/-- whenever the rules allow a move (it changes the board) the slid board has an empty cell -/
theorem game2048_legal_leaves_empty_cell (b : Board) (a : Nat) (hs : Square b) (hl : legal b a) :
    ∃ i j, i < b.length ∧ j < b.length ∧ get (slideBoard b (Dir.ofAction a)) i j = 0 :=
  Game2048.exists_empty_of_legal b a hs hl

/-- … so `_add_random_cell` always has a cell to choose: a valid spawn draw exists after every legal move,
with either tile value (all board sizes, all four directions) -/
theorem game2048_legal_spawn_exists (b : Board) (a : Nat) (hs : Square b) (hl : legal b a) (v : Nat)
    (hv : v = 1 ∨ v = 2) : ∃ d : Draw, d.val = v ∧ validDraw (slideBoard b (Dir.ofAction a)) d :=
  Game2048.exists_validDraw_of_legal b a hs hl v hv

/-- the same in terms of the L1 `move` -/
theorem game2048_legal_spawn_exists_L1 (b : Board) (a : Nat) (hs : Square b) (hl : legal b a) :
    ∃ d : Draw, validDraw (move b (a : Int)).1 d := by
  obtain ⟨d, _, hd⟩ := Game2048.exists_validDraw_of_legal b a hs hl 1 (Or.inl rfl)
  exact ⟨d, by rw [Game2048.move_eq_spec b a hl.1 hs]; exact hd⟩

/-- a slide that changes a line frees its far end (row level, any length) -/
theorem game2048_changed_row_frees_end (r : List Nat) (h : slideSpec r ≠ r) :
    (slideSpec r).getD (r.length - 1) 0 = 0 := Game2048.slideSpec_last_zero r h
end Props.C04

namespace Props.C05
/-- an illegal move is ignored: the board, mask and score are untouched (nothing moves, merges or spawns),
the reward is 0, only the step counter advances; the step is LAST only if no move at all was legal -/
theorem game2048_illegal_ignored (s : State) (a : Nat) (d : Draw) (ha : a < 4) (hs : Square s.board)
    (hm : s.actionMask = actionMask s.board) (h : ¬ legal s.board a) :
    (step s a d).1.board = s.board ∧ (step s a d).1.actionMask = s.actionMask ∧
    (step s a d).1.score = s.score ∧ (step s a d).1.stepCount = s.stepCount + 1 ∧
    (step s a d).2.reward = [0] ∧
    ((step s a d).2.stepType = .last ↔ ∀ a', ¬ legal s.board a') :=
  Game2048.illegal_ignored s a d ha hs hm h
end Props.C05

namespace Props.C07
/-- a slide conserves the sum of the tile values of the row (any length) -/
theorem game2048_row_tileSum_conserved (r : List Nat) : tileSum (slideSpec r) = tileSum r :=
  Game2048.tileSum_slideSpec r

theorem game2048_row_tileSum_conserved_L1 (r : List Nat) : tileSum (moveLeftRow r).1 = tileSum r := by
  rw [Game2048.moveLeftRow_eq_spec]; exact Game2048.tileSum_slideSpec r

/-- a slide keeps the length of the row -/
theorem game2048_row_length (r : List Nat) : (slideSpec r).length = r.length := Game2048.slideSpec_length r

/-- BOARD level: sliding the tiles of a square board (any size) in any of the four directions conserves the sum
of the tile values `Σ 2^e` -/
theorem game2048_boardSum_conserved (b : Board) (dir : Dir) (hs : Square b) :
    boardSum (slideBoard b dir) = boardSum b := Game2048.boardSum_slideBoard b dir hs

/-- the same for the L1 `move` (transform, move left, transform back) -/
theorem game2048_boardSum_conserved_L1 (b : Board) (a : Nat) (ha : a < 4) (hs : Square b) :
    boardSum (move b (a : Int)).1 = boardSum b := by
  rw [Game2048.move_eq_spec b a ha hs]; exact Game2048.boardSum_slideBoard b _ hs

/-- a valid spawn draw (empty cell, exponent 1 or 2) adds exactly the new tile: `+2` or `+4` -/
theorem game2048_spawn_adds (b : Board) (d : Draw) (hs : Square b) (hd : validDraw b d) :
    boardSum (addRandomCell b d) = boardSum b + 2 ^ d.val ∧
    (boardSum (addRandomCell b d) = boardSum b + 2 ∨ boardSum (addRandomCell b d) = boardSum b + 4) :=
  ⟨Game2048.boardSum_addRandomCell b d hs hd, Game2048.boardSum_addRandomCell' b d hs hd⟩

/-- shape preservation: `move` (EVERY action value, `lax.switch` clamps), `_add_random_cell` (EVERY draw, also
out of range: the scatter drops) and hence `step` keep the board `n × n` -/
theorem game2048_move_square (b : Board) (a : Int) (hs : Square b) :
    Square (move b a).1 ∧ (move b a).1.length = b.length :=
  ⟨Game2048.move_square b a hs, Game2048.move_length b a⟩

theorem game2048_addRandomCell_square (b : Board) (d : Draw) (hs : Square b) :
    Square (addRandomCell b d) ∧ (addRandomCell b d).length = b.length :=
  ⟨Game2048.addRandomCell_square b d hs, Game2048.addRandomCell_length b d⟩

theorem game2048_step_shaped (n : Nat) (s : State) (a : Int) (d : Draw) (hs : Shaped s.board n) :
    Shaped (step s a d).1.board n := Game2048.step_shaped n s a d hs

theorem game2048_reset_shaped (n : Nat) (d : Draw) : Shaped (reset n d).1.board n := Game2048.reset_shaped n d

/-- the reset state (any size `n`, any valid first draw: a cell of the empty `n × n` board, exponent 1 or 2) is
consistent: square board holding exactly one tile (a 2 or a 4), mask = legality, score 0 -/
theorem game2048_reset_consistent (n : Nat) (d : Draw) (hd : validDraw (tab n (fun _ _ => 0)) d) :
    Consistent n (reset n d).1 := Game2048.reset_consistent n d hd

/-- every step with an action 0..3 (legal or not, terminal or not) from a consistent state leads to a consistent
state; the draw has to be valid only when the move is legal (nothing is spawned otherwise) -/
theorem game2048_step_consistent (n : Nat) (s : State) (a : Nat) (d : Draw) (ha : a < 4) (hc : Consistent n s)
    (hd : legal s.board a → validDraw (slideBoard s.board (Dir.ofAction a)) d) :
    Consistent n (step s a d).1 := Game2048.step_consistent n s a d ha hc hd

/-- the `conserved` relation the driver evaluates on implementation transitions: tile sum `+2`/`+4` across a
legal step (unchanged by the slide, plus the new tile), board untouched by an illegal one -/
theorem game2048_conserved (n : Nat) (s : State) (a : Nat) (d : Draw) (ha : a < 4) (hc : Consistent n s)
    (hd : legal s.board a → validDraw (slideBoard s.board (Dir.ofAction a)) d) :
    conservedStep s.board a (step s a d).1.board = true := Game2048.step_conserved n s a d ha hc hd

/-- … hence `Consistent` holds along every admissible play (actions 0..3, valid draws) from a consistent state -/
theorem game2048_run_consistent (n : Nat) (s : State) (ads : List (Nat × Draw)) (hc : Consistent n s)
    (hv : ValidPlay s ads) : Consistent n (runState s ads) := Game2048.run_consistent n s ads hc hv

/-- every spawned tile, cell by cell: for a valid draw (the support of `_add_random_cell`) the chosen cell WAS empty
on the board the tile is added to, afterwards it holds the drawn exponent (1 or 2), and no other cell changes -/
theorem game2048_spawn_cellwise (b : Board) (d : Draw) (hs : Square b) (hd : validDraw b d) :
    get b (d.idx / b.length) (d.idx % b.length) = 0 ∧ (d.val = 1 ∨ d.val = 2) ∧
    ∀ i j, get (addRandomCell b d) i j =
      if i = d.idx / b.length ∧ j = d.idx % b.length then d.val else get b i j :=
  ⟨hd.2.1, hd.2.2, Game2048.addRandomCell_get b d hs hd.1⟩

/-- … along play: after a legal move from a consistent state the successor board is the slid board plus exactly the
drawn tile, which lands on a cell that was empty AFTER the move and has exponent 1 or 2 -/
theorem game2048_step_spawn (n : Nat) (s : State) (a : Nat) (d : Draw) (ha : a < 4) (hc : Consistent n s)
    (hl : legal s.board a) (hd : validDraw (slideBoard s.board (Dir.ofAction a)) d) :
    get (slideBoard s.board (Dir.ofAction a)) (d.idx / n) (d.idx % n) = 0 ∧ (d.val = 1 ∨ d.val = 2) ∧
    ∀ i j, get (step s a d).1.board i j =
      if i = d.idx / n ∧ j = d.idx % n then d.val else get (slideBoard s.board (Dir.ofAction a)) i j := by
  have hs := Game2048.consistent_square hc
  have hlen : (slideBoard s.board (Dir.ofAction a)).length = n := by
    rw [Game2048.slideBoard_length]; exact hc.1.1
  have h := game2048_spawn_cellwise _ d (Game2048.slideBoard_square _ _) hd
  rw [hlen] at h
  rw [Game2048.step_board_legal s a d ha hs (Game2048.consistent_mask hc) hl]
  exact h

/-- (wave 3) ALONG WHOLE EPISODES FROM `reset`: for every board size, every valid first tile and every admissible play
(actions 0..3, legal or not, valid draws where a tile is spawned; the play may run on after LAST), EVERY state met is
`Consistent` (square board with at least one tile, cached mask = legality, fresh board = one tile) and the tile sum of its
board is exactly the sum of all tiles spawned so far, the first included (each slide conserves the sum) -/
theorem game2048_consistent_along (n : Nat) (d0 : Draw) (ads : List (Nat × Draw))
    (hd0 : validDraw (tab n (fun _ _ => 0)) d0) (hv : ValidPlay (reset n d0).1 ads) (k : Nat) :
    Consistent n (runState (reset n d0).1 (ads.take k)) ∧
    boardSum (runState (reset n d0).1 (ads.take k)).board = 2 ^ d0.val + spawnSum (reset n d0).1 (ads.take k) :=
  Game2048.consistent_along n d0 ads hd0 hv k

-- the hypotheses are satisfiable: 3×3 reset with a 4-tile in the middle, then Up with a 2 spawned at cell 8
example : validDraw (tab 3 (fun _ _ => 0)) ⟨4, 2⟩ ∧ Consistent 3 (reset 3 ⟨4, 2⟩).1 ∧
    legal (reset 3 ⟨4, 2⟩).1.board 0 ∧
    validDraw (slideBoard (reset 3 ⟨4, 2⟩).1.board (Dir.ofAction 0)) ⟨8, 1⟩ ∧
    (step (reset 3 ⟨4, 2⟩).1 0 ⟨8, 1⟩).1.board = [[0, 2, 0], [0, 0, 0], [0, 0, 1]] := by decide +kernel
end Props.C07

namespace Props.C08
/-- the reward of a step is the sum of the values of the tiles created by its merges, and the score grows by it -/
theorem game2048_step_reward (s : State) (a : Nat) (d : Draw) (ha : a < 4) (hs : Square s.board) :
    (step s a d).2.reward = [(boardReward s.board (Dir.ofAction a) : Rat)] ∧
    (step s a d).1.score = s.score + (boardReward s.board (Dir.ofAction a) : Rat) :=
  Game2048.step_reward s a d ha hs

/-- telescoping at row level: the reward equals the increase of the potential Σ (e-1)·2^e, so the return of an
episode is determined by the final board and the number of 4-tiles that were spawned -/
theorem game2048_row_potential (r : List Nat) : tilePot (slideSpec r) = tilePot r + rowReward r :=
  Game2048.tilePot_slideSpec r

/-- a slide that changes nothing earns nothing -/
theorem game2048_fixed_no_reward (r : List Nat) (h : slideSpec r = r) : rowReward r = 0 :=
  Game2048.rowReward_of_fixed r h

/-- BOARD level telescoping: the score potential `Φ = Σ (e−1)·2^e` of a square board grows by exactly the reward
of the slide (all sizes, all four directions) -/
theorem game2048_board_potential (b : Board) (dir : Dir) (hs : Square b) :
    boardPot (slideBoard b dir) = boardPot b + boardReward b dir := Game2048.boardPot_slideBoard b dir hs

/-- a valid spawn adds the potential of the new tile: 0 for a 2-tile, 4 for a 4-tile -/
theorem game2048_spawn_potential (b : Board) (d : Draw) (hs : Square b) (hd : validDraw b d) :
    boardPot (addRandomCell b d) = boardPot b + drawPot d := Game2048.boardPot_addRandomCell b d hs hd

/-- whole play, NO hypotheses (any state, any action values, any draws): the score is the running sum of the
step rewards -/
theorem game2048_score_is_return (s : State) (ads : List (Nat × Draw)) :
    (runState s ads).score = s.score + runReturn s ads := Game2048.run_score s ads

/-- whole play from a square board with actions 0..3 (draws arbitrary): the return is the sum, over all merges
of the play, of the value of the tile created -/
theorem game2048_return_is_merged_values (s : State) (ads : List (Nat × Draw)) (hs : Square s.board)
    (ha : ∀ p ∈ ads, p.1 < 4) : runReturn s ads = ((mergedValues s ads : Nat) : Rat) :=
  Game2048.run_return_merged s ads hs ha

/-- whole admissible play from any consistent state: score gain = return = Σ merged values, and the potential
identity Φ(final) − Φ(initial) − Σ Φ(spawned tiles) = return -/
theorem game2048_play_return (n : Nat) (s : State) (ads : List (Nat × Draw)) (hc : Consistent n s)
    (hv : ValidPlay s ads) :
    (runState s ads).score = s.score + runReturn s ads ∧
    runReturn s ads = ((mergedValues s ads : Nat) : Rat) ∧
    ((boardPot (runState s ads).board : Nat) : Rat) - ((boardPot s.board : Nat) : Rat) -
      ((spawnPot s ads : Nat) : Rat) = runReturn s ads := Game2048.run_return n s ads hc hv

/-- whole episode from `reset` (any size, any valid first tile, any admissible play — it may also run on after a
LAST step): final score = return = Σ merged values = Φ(final board) − Σ Φ(all spawned tiles, the first included);
and the tile sum of the final board is the sum of all spawned tiles -/
theorem game2048_episode_return (n : Nat) (d0 : Draw) (ads : List (Nat × Draw))
    (hd0 : validDraw (tab n (fun _ _ => 0)) d0) (hv : ValidPlay (reset n d0).1 ads) :
    (runState (reset n d0).1 ads).score = runReturn (reset n d0).1 ads ∧
    runReturn (reset n d0).1 ads = ((mergedValues (reset n d0).1 ads : Nat) : Rat) ∧
    runReturn (reset n d0).1 ads = ((boardPot (runState (reset n d0).1 ads).board : Nat) : Rat) -
      ((drawPot d0 + spawnPot (reset n d0).1 ads : Nat) : Rat) ∧
    boardSum (runState (reset n d0).1 ads).board = 2 ^ d0.val + spawnSum (reset n d0).1 ads :=
  Game2048.episode_return n d0 ads hd0 hv

-- a concrete admissible play on the 2×2 board: Right, Left (merge 2+2), Up, Left (merge 4+4): return 12,
-- Φ(final) = 16, potentials of the spawned tiles 4 (one 4-tile)
example :
    let ads : List (Nat × Draw) := [(1, ⟨0, 1⟩), (3, ⟨3, 2⟩), (0, ⟨2, 1⟩), (3, ⟨1, 1⟩)]
    validDraw (tab 2 (fun _ _ => 0)) ⟨0, 1⟩ ∧ ValidPlay (reset 2 ⟨0, 1⟩).1 ads ∧
    (runState (reset 2 ⟨0, 1⟩).1 ads).board = [[3, 1], [1, 0]] ∧
    runReturn (reset 2 ⟨0, 1⟩).1 ads = 12 ∧ mergedValues (reset 2 ⟨0, 1⟩).1 ads = 12 ∧
    boardPot (runState (reset 2 ⟨0, 1⟩).1 ads).board = 16 ∧ spawnPot (reset 2 ⟨0, 1⟩).1 ads = 4 := by
  decide +kernel
end Props.C08

namespace Props.C10
/-- the TRANSLITERATED reset (`_generate_board`: zeros, then `_add_random_cell`; the draw is the pair (flat cell index,
exponent)): for EVERY board size and EVERY valid draw (a cell of the board, exponent 1 or 2) the initial board is
`board_size × board_size`, holds exactly one non-empty cell — the drawn one, with the drawn exponent 1 or 2 —, score
and step count are 0, and the action mask stored in the reset state (and shown in the reset observation) equals the L2
legality of the four moves.  `game2048.instance` replays `reset` on the draw read off every real reset state. -/
theorem game2048_reset_cert (n : Nat) (d : Draw) (hd : validDraw (tab n (fun _ _ => 0)) d) :
    Shaped (reset n d).1.board n ∧ tileCount (reset n d).1.board = 1 ∧
    (∀ i j, i < n → j < n →
      get (reset n d).1.board i j = if i = d.idx / n ∧ j = d.idx % n then d.val else 0) ∧
    (d.val = 1 ∨ d.val = 2) ∧ (reset n d).1.score = 0 ∧ (reset n d).1.stepCount = 0 ∧
    (reset n d).1.actionMask = legalMask (reset n d).1.board ∧
    (reset n d).2.obs.actionMask = legalMask (reset n d).1.board ∧
    (reset n d).2.stepType = .first ∧ InstanceOK n (reset n d).1 := by
  have h := Game2048.reset_instanceOK n d hd
  exact ⟨h.1, h.2.1, fun i j hi hj => Game2048.reset_cells n d hd i j hi hj, hd.2.2, rfl, rfl, h.2.2.2.2.2,
    h.2.2.2.2.2, rfl, h⟩

/-- the certificate the driver evaluates on every real reset state gives what is advertised and makes the state a
consistent start state for C07 -/
theorem game2048_instance_cert (n : Nat) (s : State) (h : InstanceOK n s) :
    Shaped s.board n ∧ tileCount s.board = 1 ∧ (boardSum s.board = 2 ∨ boardSum s.board = 4) ∧ s.score = 0 ∧
    s.actionMask = legalMask s.board ∧ Consistent n s := by
  obtain ⟨h1, h2, h3, h4, h5, h6⟩ := h
  refine ⟨h1, h2, h3, h4, h6, h1, ?_, h6, ?_, fun _ => ⟨h3, h4⟩⟩
  · rcases h3 with e | e <;> rw [e] <;> omega
  · rw [h4]; exact Rat.le_refl

/-- conversely the certificate is exactly the range of the transliterated `reset`: a state passes it iff it is
`reset n d` for a valid draw `d` (the one read off its board: position and exponent of its one tile) -/
theorem game2048_instance_iff_reset (n : Nat) (s : State) :
    InstanceOK n s ↔ ∃ d, validDraw (tab n (fun _ _ => 0)) d ∧ (reset n d).1 = s :=
  ⟨fun h => ⟨drawOf s.board, Game2048.instance_is_reset n s h⟩,
   fun ⟨d, hd, e⟩ => e ▸ Game2048.reset_instanceOK n d hd⟩

example : validDraw (tab 3 (fun _ _ => 0)) ⟨5, 2⟩ ∧ (reset 3 ⟨5, 2⟩).1.board = [[0, 0, 0], [0, 0, 2], [0, 0, 0]] ∧
    drawOf (reset 3 ⟨5, 2⟩).1.board = ⟨5, 2⟩ ∧ InstanceOK 3 (reset 3 ⟨5, 2⟩).1 ∧
    ¬ validDraw (tab 3 (fun _ _ => 0)) ⟨9, 1⟩ ∧ ¬ validDraw (tab 3 (fun _ _ => 0)) ⟨0, 3⟩ := by decide +kernel
end Props.C10

namespace Props.C12
/-- the observation of a step is the documented view (board, legality of the four moves) of the successor -/
theorem game2048_obs_faithful (s : State) (a : Int) (d : Draw) (hs : Square (step s a d).1.board) :
    (step s a d).2.obs = observe (step s a d).1 := Game2048.obs_faithful s a d hs

/-- the same WITHOUT a hypothesis on the successor: squareness is preserved by `step` (every action value, every
draw), so from a square board the observation is always the documented view of the successor -/
theorem game2048_obs_faithful_step (s : State) (a : Int) (d : Draw) (hs : Square s.board) :
    (step s a d).2.obs = observe (step s a d).1 := Game2048.obs_faithful_of_square s a d hs

/-- the reset observation (any size, any draw), no hypothesis -/
theorem game2048_reset_obs_faithful (n : Nat) (d : Draw) : (reset n d).2.obs = observe (reset n d).1 :=
  Game2048.reset_obs_faithful n d
end Props.C12

namespace Props.C01
open PzB
/-- the observation returned by `reset` (any size, any first tile): every leaf listed in `obsBounds` is present and
all its values lie in the listed interval — `board ≥ 0` (the real spec is an unbounded `Array`), `action_mask ∈ [0,1]`.
No hypothesis is needed. -/
theorem game2048_reset_obs_in_bounds (n : Nat) (d : Draw) :
    ObsInBounds (obsBounds n) (obsLeaves (reset n d).2.obs) := Game2048.obs_in_bounds n _

/-- the same for the observation returned by `step`, for every state, action and draw, terminal step included -/
theorem game2048_step_obs_in_bounds (n : Nat) (s : State) (a : Int) (d : Draw) :
    ObsInBounds (obsBounds n) (obsLeaves (step s a d).2.obs) := Game2048.obs_in_bounds n _

/-! NOTE on what the membership theorems of this section do and do not cover (audits r4 #6, r5 #6, r6 #8): the dtype tag of every leaf
is written by `toNValue` (by construction) — a wrong dtype in the real code cannot falsify `….valid (toNValue …) = true`; dtypes and
field order of the real observations are compared by the `game2048.spec` / `game2048.state` ops (`nvalue`: field order, shape, dtype, data) and
`jax.eval_shape` in the sweeps.  Shapes are READ OFF the value by `toNValue` (widths off the first row): see `…_obs_valid_only`. -/

/-! #### (wave 3) membership in the DECLARED specs: structure, shapes, dtypes and bounds -/
open Sp PzS PzS3

/-- the model's `obsSpec` / `actionSpec` / reward and discount specs ARE the specs generated from the real spec objects
(Gen/Specs.lean) for the catalogue configurations of Game2048 (board sizes 4 and 3) and the spec-only configuration
`Game2048(board_size=5)` (three sizes: the board shape follows `n`, the mask does not) -/
theorem game2048_obsSpec_generated :
    prefixed "observation_spec." (obsSpec 4) = declared "game2048-4" "observation_spec." ∧
    prefixed "observation_spec." (obsSpec 3) = declared "game2048-3" "observation_spec." ∧
    [("action_spec", actionSpec)] = declared "game2048-4" "action_spec" ∧
    [("action_spec", actionSpec)] = declared "game2048-3" "action_spec" ∧
    [("reward_spec", rewardSpec)] = declared "game2048-4" "reward_spec" ∧
    [("discount_spec", discountSpec)] = declared "game2048-4" "discount_spec" ∧
    [("reward_spec", rewardSpec)] = declared "game2048-3" "reward_spec" ∧
    [("discount_spec", discountSpec)] = declared "game2048-3" "discount_spec" ∧
    prefixed "observation_spec." (obsSpec 5) = declared "spec-only-game2048-5" "observation_spec." ∧
    [("action_spec", actionSpec)] = declared "spec-only-game2048-5" "action_spec" ∧
    [("reward_spec", rewardSpec)] = declared "spec-only-game2048-5" "reward_spec" ∧
    [("discount_spec", discountSpec)] = declared "spec-only-game2048-5" "discount_spec" := by
  refine ⟨by decide +kernel, by decide +kernel, by decide +kernel, by decide +kernel, by decide +kernel, by decide +kernel,
    by decide +kernel, by decide +kernel, by decide +kernel, by decide +kernel, by decide +kernel, by decide +kernel⟩

/-- the `reset` observation — EVERY board size, EVERY first-tile draw (in the support or not) — is accepted by
`observation_spec.validate`: fields `board`, `action_mask`; shapes `(n, n)`, `(4,)`; dtypes int32, bool; mask in [0, 1] -/
theorem game2048_reset_obs_valid (n : Nat) (d : Draw) : (obsSpec n).valid (toNValue (reset n d).2.obs) = true :=
  Game2048.reset_obs_valid n d

/-- the same for every `step` observation from an `n × n` board (an invariant of `step`: `game2048_step_shaped`), for EVERY
action value, EVERY draw, the terminal step included -/
theorem game2048_step_obs_valid (n : Nat) (s : State) (a : Int) (d : Draw) (hs : Shaped s.board n) :
    (obsSpec n).valid (toNValue (step s a d).2.obs) = true := Game2048.step_obs_valid n s a d hs

/-- … hence for EVERY observation of EVERY play from `reset` (any actions, any draws) -/
theorem game2048_run_obs_valid (n : Nat) (d0 : Draw) (ads : List (Nat × Draw)) (a : Int) (d : Draw) :
    (obsSpec n).valid (toNValue (step (runState (reset n d0).1 ads) a d).2.obs) = true := by
  apply Game2048.step_obs_valid
  have hl := Game2048.run_board_length (reset n d0).1 ads
  have hsq := Game2048.run_square (reset n d0).1 ads (Game2048.square_of_shaped (Game2048.reset_shaped n d0))
  exact (Game2048.shaped_iff _ _).2 ⟨by rw [hl]; exact (Game2048.reset_shaped n d0).1, hsq⟩

/-- what membership means (so the theorems above are not hollow): `validate` accepts ONLY observations whose board has shape
`(n, n)` with `n·n` entries and whose mask has 4 entries  CAVEAT (audits r4 #7, r5 #5, r6 #5): for every field that is a nested list, `toNValue` reads the widths off the FIRST row of the
nested list, so the shape conjuncts here mean "row count, length of the first row, total number of cells" — a ragged value with the right total can be a
member, and nothing is concluded about the later rows.  Rectangularity is part of the invariant (`SpecInv` / `Shaped` / `Rect…`) under which the
forward theorems (`…_reset_obs_valid`, `…_step_obs_valid`, `…_along`) are proved, i.e. it holds of every EMITTED observation. -/
theorem game2048_obs_valid_only (n : Nat) (o : Obs) (h : (obsSpec n).valid (toNValue o) = true) :
    gridShape o.board = [n, n] ∧ o.board.flatten.length = n * n ∧ o.actionMask.length = 4 :=
  Game2048.obs_valid_only n o h

example : (obsSpec 2).valid (toNValue ⟨[[0, 1], [2, 0]], [true, false, true, true]⟩) = true ∧
    (obsSpec 2).valid (toNValue ⟨[[0, 1, 0], [2, 0, 0]], [true, false, true, true]⟩) = false ∧
    (obsSpec 2).valid (toNValue ⟨[[0, 1], [2, 0]], [true, false, true]⟩) = false := by decide

/-- reward and discount of every `step` (ALL states, ALL action values, ALL draws) and of `reset` are accepted by
`reward_spec` (Array((), float)) and `discount_spec` (BoundedArray((), float, 0, 1)) -/
theorem game2048_reward_discount_valid (n : Nat) (s : State) (a : Int) (d d0 : Draw) :
    rewardSpec.valid (scalarArr (step s a d).2.reward) = true ∧
    discountSpec.valid (scalarArr (step s a d).2.discount) = true ∧
    rewardSpec.valid (scalarArr (reset n d0).2.reward) = true ∧
    discountSpec.valid (scalarArr (reset n d0).2.discount) = true :=
  ⟨(Game2048.step_reward_discount_valid s a d).1, (Game2048.step_reward_discount_valid s a d).2,
   (Game2048.reset_reward_discount_valid n d0).1, (Game2048.reset_reward_discount_valid n d0).2⟩

/-- `action_spec.generate_value()` = 0 (Up): the action spec is well-formed, the generated value is a member of it, and
`step` answers it in every `n × n` state (whatever the draw) with a protocol-conform timestep whose observation is a member
of `observation_spec`; membership in `action_spec` is exactly "one of the four moves" -/
theorem game2048_accepts_generate_value (n : Nat) (s : State) (d : Draw) (hs : Shaped s.board n) :
    actionSpec.WF = true ∧ actionSpec.valid actionSpec.generate = true ∧ actionSpec.generate = actionArr 0 ∧
    StepOK none false (step s 0 d).2 = true ∧ (obsSpec n).valid (toNValue (step s 0 d).2.obs) = true :=
  Game2048.accepts_generate_value n s d hs

theorem game2048_action_spec_iff (a : Int) : actionSpec.valid (actionArr a) = true ↔ 0 ≤ a ∧ a < 4 :=
  Game2048.actionSpec_valid_iff a
end Props.C01
