/-
Property theorems for Game2048 (helper lemmas and proofs: Env/Game2048/Lemmas.lean).
Rows have ANY length; boards are square (`Square b`: every row as long as the board has rows), any size.
-/
import JumanjiModel.Env.Game2048.Lemmas
import JumanjiModel.Env.Game2048.Bounds
open Jm Game2048

namespace Props.C09
/-- for a row of any length the L1 `move_left_row` loop computes the L2 slide (compress, merge equal
neighbours once from the wall, pad) and the reward is the sum of the values of the tiles created -/
theorem game2048_moveLeftRow_eq_spec (r : List Nat) : moveLeftRow r = (slideSpec r, rowReward r) :=
  Game2048.moveLeftRow_eq_spec r

/-- board level: L1 `move` (transform, move left, transform back) = L2 slide of every line towards the wall -/
theorem game2048_move_eq_spec (b : Board) (a : Nat) (ha : a < 4) (hs : Square b) :
    move b (a : Int) = (slideBoard b (Dir.ofAction a), boardReward b (Dir.ofAction a)) :=
  Game2048.move_eq_spec b a ha hs

example : moveLeftRow [1, 1, 1, 1, 2, 0, 2] = ([2, 2, 3, 0, 0, 0, 0], 16) := by decide +kernel
example : Square [[1, 1, 0], [0, 2, 2], [3, 0, 3]] := by unfold Square; decide
end Props.C09

namespace Props.C04
/-- `can_move_left_row r` is false exactly when the slide leaves the row unchanged (rows of any length) -/
theorem game2048_canMoveLeftRow_false_iff (r : List Nat) : canMoveLeftRow r = false ↔ slideSpec r = r :=
  Game2048.canMoveLeftRow_false_iff r

/-- … and exactly when the L1 `move_left_row` loop leaves it unchanged -/
theorem game2048_canMoveLeftRow_false_iff_move (r : List Nat) :
    canMoveLeftRow r = false ↔ (moveLeftRow r).1 = r := Game2048.canMoveLeftRow_false_iff_move r

/-- the mask bit of move `a` is set exactly when the rules allow it (the move changes the board) -/
theorem game2048_mask_iff_legal (b : Board) (a : Nat) (ha : a < 4) (hs : Square b) :
    (actionMask b).getD a false = true ↔ legal b a := by
  rw [Game2048.actionMask_getD b a ha]; exact Game2048.canMove_iff_legal b a ha hs

theorem game2048_actionMask_eq_legalMask (b : Board) (hs : Square b) : actionMask b = legalMask b :=
  Game2048.actionMask_eq_legalMask b hs

/-- the mask cached in the state after any step is the mask of the successor board -/
theorem game2048_cached_mask (s : State) (a : Int) (d : Draw) :
    (step s a d).1.actionMask = actionMask (step s a d).1.board := Game2048.step_cached_mask s a d

/-- the environment's own reaction (a tile is spawned iff the cached mask bit is set) agrees with the rules -/
theorem game2048_step_agrees (s : State) (a : Nat) (ha : a < 4) (hs : Square s.board)
    (hm : s.actionMask = actionMask s.board) :
    Jx.getWC s.actionMask false (a : Int) = true ↔ legal s.board a := Game2048.step_agrees s a ha hs hm

example : legal [[1, 1], [0, 2]] 3 ∧ ¬ legal [[1, 2], [0, 0]] 0 := by decide +kernel
end Props.C04

namespace Props.C05
/-- an illegal move is ignored: the board, mask and score are untouched (nothing moves, merges or spawns),
the reward is 0, only the step counter advances; the step is LAST only if no move at all was legal -/
theorem game2048_illegal_ignored (s : State) (a : Nat) (d : Draw) (ha : a < 4) (hs : Square s.board)
    (hm : s.actionMask = actionMask s.board) (h : ¬ legal s.board a) :
    (step s a d).1.board = s.board ∧ (step s a d).1.actionMask = s.actionMask ∧
    (step s a d).1.score = s.score ∧ (step s a d).1.stepCount = s.stepCount + 1 ∧
    (step s a d).2.reward = [0] ∧
    ((step s a d).2.stepType = .last ↔ ∀ a', ¬ legal s.board a') :=
  Game2048.illegal_ignored s a d ha hs hm h
end Props.C05

namespace Props.C07
/-- a slide conserves the sum of the tile values of the row (any length) -/
theorem game2048_row_tileSum_conserved (r : List Nat) : tileSum (slideSpec r) = tileSum r :=
  Game2048.tileSum_slideSpec r

theorem game2048_row_tileSum_conserved_L1 (r : List Nat) : tileSum (moveLeftRow r).1 = tileSum r := by
  rw [Game2048.moveLeftRow_eq_spec]; exact Game2048.tileSum_slideSpec r

/-- a slide keeps the length of the row -/
theorem game2048_row_length (r : List Nat) : (slideSpec r).length = r.length := Game2048.slideSpec_length r
end Props.C07

namespace Props.C08
/-- the reward of a step is the sum of the values of the tiles created by its merges, and the score grows by it -/
theorem game2048_step_reward (s : State) (a : Nat) (d : Draw) (ha : a < 4) (hs : Square s.board) :
    (step s a d).2.reward = [(boardReward s.board (Dir.ofAction a) : Rat)] ∧
    (step s a d).1.score = s.score + (boardReward s.board (Dir.ofAction a) : Rat) :=
  Game2048.step_reward s a d ha hs

/-- telescoping at row level: the reward equals the increase of the potential Σ (e-1)·2^e, so the return of an
episode is determined by the final board and the number of 4-tiles that were spawned -/
theorem game2048_row_potential (r : List Nat) : tilePot (slideSpec r) = tilePot r + rowReward r :=
  Game2048.tilePot_slideSpec r

/-- a slide that changes nothing earns nothing -/
theorem game2048_fixed_no_reward (r : List Nat) (h : slideSpec r = r) : rowReward r = 0 :=
  Game2048.rowReward_of_fixed r h
end Props.C08

namespace Props.C12
/-- the observation of a step is the documented view (board, legality of the four moves) of the successor -/
theorem game2048_obs_faithful (s : State) (a : Int) (d : Draw) (hs : Square (step s a d).1.board) :
    (step s a d).2.obs = observe (step s a d).1 := Game2048.obs_faithful s a d hs
end Props.C12

namespace Props.C01
open PzB
/-- the observation returned by `reset` (any size, any first tile): every leaf listed in `obsBounds` is present and
all its values lie in the listed interval — `board ≥ 0` (the real spec is an unbounded `Array`), `action_mask ∈ [0,1]`.
No hypothesis is needed. -/
theorem game2048_reset_obs_in_bounds (n : Nat) (d : Draw) :
    ObsInBounds (obsBounds n) (obsLeaves (reset n d).2.obs) := Game2048.obs_in_bounds n _

/-- the same for the observation returned by `step`, for every state, action and draw, terminal step included -/
theorem game2048_step_obs_in_bounds (n : Nat) (s : State) (a : Int) (d : Draw) :
    ObsInBounds (obsBounds n) (obsLeaves (step s a d).2.obs) := Game2048.obs_in_bounds n _
end Props.C01
