/-
Property theorems for Snake (helper lemmas and proofs in Env/Snake/Lemmas.lean).  All theorems hold for
every board size `cfg.rows × cfg.cols` (square or not), every state satisfying the stated hypotheses,
every action and every fruit draw `d`; `rnd` is the float32 rounding of the `norm_body_state` division.
-/
import JumanjiModel.Env.Snake.Lemmas
import JumanjiModel.Env.Snake.BoundsLemmas
import JumanjiModel.Env.Snake.EpisodeLemmas
import JumanjiModel.Prim.Float
import JumanjiModel.Prim.FloatLemmas
import JumanjiModel.Env.Snake.RunLemmas
import JumanjiModel.Env.SpecTieSSM
import JumanjiModel.Env.Snake.SpecValid
open Jm Jx Snake

namespace Props.C04
/-- `_get_action_mask` marks a direction exactly when the rules allow the move: the target cell is on
the board and is empty or the current tail cell -/
theorem snake_mask_iff_legal (cfg : Cfg) (s : State) (a : Nat) (ha : a < 4)
    (hs : Grid.shaped s.bodyState cfg.rows cfg.cols = true) :
    (getActionMask cfg s.head s.bodyState).getD a false = true ↔ legal cfg s a :=
  Snake.mask_iff_legal cfg s a ha hs

/-- the mask cached in the successor state (and shown in the observation) is the set of legal moves of
the successor state — it is never stale -/
theorem snake_cached_mask (rnd : Rat → Rat) (cfg : Cfg) (s : State) (a : Int) (d : Nat)
    (hs : Grid.shaped s.bodyState cfg.rows cfg.cols = true) :
    (step rnd cfg s a d).1.actionMask = legalMask cfg (step rnd cfg s a d).1 :=
  Snake.step_mask_legal rnd cfg s a d hs

/-- `step` agrees with the rules about validity (audit r2 #6: stated about `step`): with a correct cached mask, a step
that neither fills the board nor reaches the time limit ends the episode exactly when the rules forbid the move -/
theorem snake_step_agrees (rnd : Rat → Rat) (cfg : Cfg) (s : State) (a : Nat) (d : Nat) (ha : a < 4)
    (hm : s.actionMask = legalMask cfg s) (hnc : Grid.all id (step rnd cfg s a d).1.body = false)
    (hbl : s.stepCount + 1 < cfg.timeLimit) :
    (step rnd cfg s a d).2.stepType = .last ↔ ¬ legal cfg s a :=
  Snake.step_agrees_step rnd cfg s a d ha hm hnc hbl

-- 2×3 board after reset at (0,0), fruit at (1,2): Right is legal and MID, Up (off the board) is LAST
example : (step id ⟨2, 3, 10⟩ (reset id ⟨2, 3, 10⟩ 0 0 5).1 1 0).2.stepType = .mid ∧
    (step id ⟨2, 3, 10⟩ (reset id ⟨2, 3, 10⟩ 0 0 5).1 0 0).2.stepType = .last ∧
    (reset id ⟨2, 3, 10⟩ 0 0 5).1.actionMask = legalMask ⟨2, 3, 10⟩ (reset id ⟨2, 3, 10⟩ 0 0 5).1 := by decide +kernel

-- 2×3 board, snake of length 3 bent around: moving Left onto the tail cell is legal, Up is not (off the board)
example : legal ⟨2, 3, 10⟩ ⟨[], [[1, 0, 0], [2, 3, 0]], ⟨1, 1⟩, [], ⟨0, 2⟩, 3, 0, []⟩ 0 ∧
          ¬ legal ⟨2, 3, 10⟩ ⟨[], [[0, 1, 0], [3, 2, 0]], ⟨1, 0⟩, [], ⟨0, 2⟩, 3, 0, []⟩ 3 := by decide
end Props.C04

namespace Props.C05
/-- an illegal move ends the episode (LAST, discount 0); with the fruit on a free cell of the board the
reward of that step is 0.  (The documents do not promise an untouched state: the head is still moved.) -/
theorem snake_illegal_terminates (rnd : Rat → Rat) (cfg : Cfg) (s : State) (a : Nat) (d : Nat) (ha : a < 4)
    (hm : s.actionMask = legalMask cfg s) (h : ¬ legal cfg s a) :
    (step rnd cfg s a d).2.stepType = .last ∧ (step rnd cfg s a d).2.discount = [0] ∧
    (inGrid cfg s.fruit.row s.fruit.col → cell s.bodyState s.fruit.row s.fruit.col = 0 →
      (step rnd cfg s a d).2.reward = [0]) := Snake.illegal_terminates rnd cfg s a d ha hm h
end Props.C05

namespace Props.C07
/-- the reset state (any head cell of the board, any admissible fruit draw) is consistent, has length 1
and step count 0 -/
theorem snake_reset_consistent (rnd : Rat → Rat) (cfg : Cfg) (hr hc : Nat) (d : Nat)
    (h1 : hr < cfg.rows) (h2 : hc < cfg.cols) (hd : validDraw cfg (reset rnd cfg hr hc d).1.body d) :
    Consistent cfg (reset rnd cfg hr hc d).1 ∧ (reset rnd cfg hr hc d).1.length = 1 ∧
      (reset rnd cfg hr hc d).1.stepCount = 0 := Snake.reset_consistent rnd cfg hr hc d h1 h2 hd

/-- a legal move from a consistent state (body_state numbers a chain of 4-adjacent cells 1..length with
the head at `length`, derived fields agree, fruit on a free cell, cached mask correct) whose board is not
full leads to a consistent state, for every admissible fruit draw -/
theorem snake_step_consistent (rnd : Rat → Rat) (cfg : Cfg) (s : State) (a : Nat) (d : Nat)
    (hc : Consistent cfg s) (hl : legal cfg s a) (hnf : Grid.all id s.body = false)
    (hd : validDraw cfg (step rnd cfg s a d).1.body d) :
    Consistent cfg (step rnd cfg s a d).1 := Snake.step_consistent rnd cfg s a d hc hl hnf hd

/-- inductive form: "consistent and board not full" is preserved by every step that does not end the
episode, whatever action 0..3 is played -/
theorem snake_step_consistent_mid (rnd : Rat → Rat) (cfg : Cfg) (s : State) (a : Nat) (d : Nat) (ha : a < 4)
    (hc : Consistent cfg s) (hnf : Grid.all id s.body = false)
    (hd : validDraw cfg (step rnd cfg s a d).1.body d)
    (hmid : (step rnd cfg s a d).2.stepType ≠ .last) :
    Consistent cfg (step rnd cfg s a d).1 ∧ Grid.all id (step rnd cfg s a d).1.body = false :=
  Snake.step_consistent_mid rnd cfg s a d ha hc hnf hd hmid

/-- conserved structure: the chain of the successor is the chain of the state with the new head cell
appended and the tail cell dropped unless the fruit is eaten (so the length grows by the fruit eaten) -/
theorem snake_chain_grows (rnd : Rat → Rat) (cfg : Cfg) (s : State) (a : Nat) (d : Nat) (cs : List (Nat × Nat))
    (hc : Chain cfg s cs) (hl : legal cfg s a)
    (hfree : eats s a = true → cell s.bodyState s.fruit.row s.fruit.col = 0) :
    Chain cfg (step rnd cfg s a d).1 (grow cs (eats s a) ((target s a).1.toNat, (target s a).2.toNat)) :=
  Snake.step_chain rnd cfg s a d cs hc hl hfree

/-- the `conserved` relation the driver evaluates on implementation transitions (successor chain = grown
chain, length grows by the fruit eaten) holds for every legal move from a consistent, not full state -/
theorem snake_conserved (rnd : Rat → Rat) (cfg : Cfg) (s : State) (a : Nat) (d : Nat)
    (hc : Consistent cfg s) (hnf : Grid.all id s.body = false) (hl : legal cfg s a) :
    growsFrom cfg s (step rnd cfg s a d).1 = true := Snake.growsFrom_step rnd cfg s a d hc hnf hl

/-- the predicate the driver evaluates on implementation states is exactly `Consistent` (the chain
encoded by `body_state` is unique, and it is the one the check reads off) -/
theorem snake_consistentB_iff (cfg : Cfg) (s : State) : consistentB cfg s = true ↔ Consistent cfg s :=
  Snake.consistentB_iff cfg s

example : consistentB ⟨2, 3, 10⟩
    ⟨[[true, false, false], [true, true, false]], [[1, 0, 0], [2, 3, 0]], ⟨1, 1⟩,
     [[true, false, false], [false, false, false]], ⟨0, 2⟩, 3, 4, [true, true, false, false]⟩ = true := by decide

/-- pigeonhole over the chain: a consistent snake with fewer cells than the board does not fill the board
(the chain has `length` cells, the board `rows * cols` distinct cells, a cell outside the chain carries 0) -/
theorem snake_not_full_of_length (cfg : Cfg) (s : State) (hc : Consistent cfg s)
    (hlen : s.length < ((cfg.rows * cfg.cols : Nat) : Int)) : Grid.all id s.body = false :=
  Snake.not_full_of_length cfg s hc hlen

/-- and conversely (the chain cells are pairwise distinct cells of the board): for consistent states
"board not full" (`jnp.all(body)` false, the implementation's completion test) ⇔ `length < rows * cols` -/
theorem snake_not_full_iff_length (cfg : Cfg) (s : State) (hc : Consistent cfg s) :
    Grid.all id s.body = false ↔ s.length < ((cfg.rows * cfg.cols : Nat) : Int) :=
  Snake.not_full_iff_length cfg s hc

/-- `snake_step_consistent` with the hypothesis "board not full" replaced by `length < rows * cols`:
a legal move from a consistent state shorter than the board leads to a consistent state, for every
admissible fruit draw -/
theorem snake_step_consistent_of_length (rnd : Rat → Rat) (cfg : Cfg) (s : State) (a : Nat) (d : Nat)
    (hc : Consistent cfg s) (hl : legal cfg s a) (hlen : s.length < ((cfg.rows * cfg.cols : Nat) : Int))
    (hd : validDraw cfg (step rnd cfg s a d).1.body d) :
    Consistent cfg (step rnd cfg s a d).1 := Snake.step_consistent_of_length rnd cfg s a d hc hl hlen hd

/-- inductive form: "consistent and shorter than the board" is preserved by every step that does not end
the episode, whatever action 0..3 is played (it holds after reset on every board with more than one cell) -/
theorem snake_step_consistent_mid_of_length (rnd : Rat → Rat) (cfg : Cfg) (s : State) (a : Nat) (d : Nat)
    (ha : a < 4) (hc : Consistent cfg s) (hlen : s.length < ((cfg.rows * cfg.cols : Nat) : Int))
    (hd : validDraw cfg (step rnd cfg s a d).1.body d)
    (hmid : (step rnd cfg s a d).2.stepType ≠ .last) :
    Consistent cfg (step rnd cfg s a d).1 ∧
      (step rnd cfg s a d).1.length < ((cfg.rows * cfg.cols : Nat) : Int) :=
  Snake.step_consistent_mid_of_length rnd cfg s a d ha hc hlen hd hmid

/-- base case of that invariant: after reset the length is 1, below the board size on every board with
more than one cell -/
theorem snake_reset_length_lt (rnd : Rat → Rat) (cfg : Cfg) (hr hc d : Nat) (h : 1 < cfg.rows * cfg.cols) :
    (reset rnd cfg hr hc d).1.length < ((cfg.rows * cfg.cols : Nat) : Int) := by
  rw [Snake.reset_length]; omega

-- the hypotheses are satisfiable: 2×3 board, snake of length 3, Right (onto an empty cell) is legal, draw 0 admissible
example :
    let cfg : Cfg := ⟨2, 3, 10⟩
    let s : State := ⟨[[true, false, false], [true, true, false]], [[1, 0, 0], [2, 3, 0]], ⟨1, 1⟩,
      [[true, false, false], [false, false, false]], ⟨0, 2⟩, 3, 4, [true, true, false, false]⟩
    Consistent cfg s ∧ legal cfg s 1 ∧ s.length < ((cfg.rows * cfg.cols : Nat) : Int) ∧
      validDraw cfg (step id cfg s 1 0).1.body 0 ∧ (step id cfg s 1 0).2.stepType ≠ .last :=
  ⟨(snake_consistentB_iff _ _).1 (by decide), by decide, by decide, by decide +kernel, by decide +kernel⟩

-- the length hypothesis cannot simply be dropped: on a FULL 1×2 board (fruit on the tail cell, which
-- `Consistent` allows there) moving Left onto the tail cell is legal, the fruit is "eaten", the tail does not
-- move and the successor numbers its cells 3, 2 — not a chain.  (The implementation ends the episode as soon as
-- the board is full, so such a state is never stepped from.)
example :
    let cfg : Cfg := ⟨1, 2, 10⟩
    let s : State := ⟨[[true, true]], [[1, 2]], ⟨0, 1⟩, [[true, false]], ⟨0, 0⟩, 2, 1, [false, false, false, true]⟩
    consistentB cfg s = true ∧ legal cfg s 3 ∧ ¬ (s.length < ((cfg.rows * cfg.cols : Nat) : Int)) ∧
      validDraw cfg (step id cfg s 3 0).1.body 0 ∧ consistentB cfg (step id cfg s 3 0).1 = false := by
  decide +kernel

/-! #### packaged (audit r2, Snake gap): all non-terminal states of any play are consistent.
`run rnd cfg s ads` = the (successor state, timestep) pairs of playing the (action, fruit draw) pairs `ads` with the L1
`step`; `okStep` = action in 0..3 and, on the steps that eat the fruit (the only ones that draw), a draw admissible for
the successor body (`validDraw`: a cell of the board that is not a body cell). -/

/-- from ANY consistent state shorter than the board: if the transitions 0..k of a play are not LAST, the state
transition `k` leads to is consistent -/
theorem snake_run_states_consistent (rnd : Rat → Rat) (cfg : Cfg) (s : State) (hc : Consistent cfg s)
    (hlen : s.length < ((cfg.rows * cfg.cols : Nat) : Int)) (ads : List ActDraw) (k : Nat)
    (p : State × TimeStep Obs) (h : (run rnd cfg s ads)[k]? = some p)
    (hok : ∀ j (hj : j < ads.length), j ≤ k → okStep rnd cfg (EpRun.after (stepA rnd cfg) s (ads.take j)) ads[j])
    (hno : EpRun.NoLastBefore (stepA rnd cfg) (·.stepType = .last) s ads (k + 1)) :
    Consistent cfg p.1 := Snake.run_states_consistent rnd cfg s hc hlen ads k p h hok hno

/-- from RESET (any head cell of the board, any admissible fruit draw, any board with more than one cell): the reset
state and all non-terminal states of any play are consistent -/
theorem snake_run_consistent (rnd : Rat → Rat) (cfg : Cfg) (hr hc d0 : Nat) (h1 : hr < cfg.rows) (h2 : hc < cfg.cols)
    (hd0 : validDraw cfg (reset rnd cfg hr hc d0).1.body d0) (hbig : 1 < cfg.rows * cfg.cols)
    (ads : List ActDraw) :
    Consistent cfg (reset rnd cfg hr hc d0).1 ∧
    ∀ (k : Nat) (p : State × TimeStep Obs), (run rnd cfg (reset rnd cfg hr hc d0).1 ads)[k]? = some p →
      (∀ j (hj : j < ads.length), j ≤ k →
        okStep rnd cfg (EpRun.after (stepA rnd cfg) (reset rnd cfg hr hc d0).1 (ads.take j)) ads[j]) →
      EpRun.NoLastBefore (stepA rnd cfg) (·.stepType = .last) (reset rnd cfg hr hc d0).1 ads (k + 1) →
      Consistent cfg p.1 := by
  have hC := (Snake.reset_consistent rnd cfg hr hc d0 h1 h2 hd0).1
  refine ⟨hC, fun k p h hok hno => ?_⟩
  exact Snake.run_states_consistent rnd cfg _ hC (by rw [Snake.reset_length]; omega) ads k p h hok hno

-- a play of three non-LAST steps from reset on the 2×3 board: the hypotheses hold and every state is consistent
example :
    let cfg : Cfg := ⟨2, 3, 10⟩
    let ads : List ActDraw := [(1, 5), (2, 0), (1, 0)]
    ((run id cfg (reset id cfg 0 0 1).1 ads).map (fun p => decide (p.2.stepType = .last) || !consistentB cfg p.1)) =
      [false, false, false] ∧
    okStep id cfg (reset id cfg 0 0 1).1 (1, 5) := by
  refine ⟨by decide +kernel, by decide, ?_⟩
  decide +kernel
end Props.C07

namespace Props.C08
/-- the length grows by exactly the reward of the step, so the return of an episode is
`length_final − 1` = the number of fruits eaten -/
theorem snake_length_telescopes (rnd : Rat → Rat) (cfg : Cfg) (s : State) (a : Int) (d : Nat) :
    (((step rnd cfg s a d).1.length : Int) : Rat) = (s.length : Rat) + (step rnd cfg s a d).2.reward.sum :=
  Snake.length_telescopes rnd cfg s a d

/-- whole-episode fold of the identity above (no hypotheses: ANY start state, ANY list of (action, fruit draw)
pairs — legal or not, also past a LAST step): the sum of the step rewards is the growth of the length -/
theorem snake_episode_return (rnd : Rat → Rat) (cfg : Cfg) (s : State) (ads : List (Int × Nat)) :
    runReturn rnd cfg s ads = ((runState rnd cfg s ads).length : Rat) - (s.length : Rat) :=
  Snake.episode_return rnd cfg s ads

/-- from reset (length 1; no hypotheses on the board size, head cell, draws or actions): the return of the
play-out is `length_final − 1`, the objective (number of fruits eaten) of the final state -/
theorem snake_episode_return_from_reset (rnd : Rat → Rat) (cfg : Cfg) (hr hc d0 : Nat) (ads : List (Int × Nat)) :
    runReturn rnd cfg (reset rnd cfg hr hc d0).1 ads =
      ((objective (runState rnd cfg (reset rnd cfg hr hc d0).1 ads) : Int) : Rat) :=
  Snake.episode_return_from_reset rnd cfg hr hc d0 ads

-- 2×3 board, head (0,0), fruit at cell 1 = (0,1): Right eats it (new fruit at cell 5 = (1,2)), Down, Right eats
-- again (new fruit at cell 0); return 2 = 3 − 1
example : runReturn id ⟨2, 3, 10⟩ (reset id ⟨2, 3, 10⟩ 0 0 1).1 [(1, 5), (2, 0), (1, 0)] = 2 ∧
    (runState id ⟨2, 3, 10⟩ (reset id ⟨2, 3, 10⟩ 0 0 1).1 [(1, 5), (2, 0), (1, 0)]).length = 3 ∧
    consistentB ⟨2, 3, 10⟩ (runState id ⟨2, 3, 10⟩ (reset id ⟨2, 3, 10⟩ 0 0 1).1 [(1, 5), (2, 0), (1, 0)]) = true := by
  decide +kernel
end Props.C08

namespace Props.C09
/-- L1 = L2 (Snake growth): on a chain-encoded state and for a legal move the transliterated `step`
returns exactly the successor prescribed by the rule "append the new head cell, drop the tail cell
unless the fruit is eaten, renumber 1..length" -/
theorem snake_step_eq_spec (rnd : Rat → Rat) (cfg : Cfg) (s : State) (a : Nat) (d : Nat)
    (hc : Chain cfg s (chainOf cfg s)) (hl : legal cfg s a)
    (hfree : eats s a = true → cell s.bodyState s.fruit.row s.fruit.col = 0) :
    stepSpec cfg s a d = some (step rnd cfg s a d).1 := Snake.stepSpec_eq rnd cfg s a d hc hl hfree

/-- the same for every consistent state whose board is not full -/
theorem snake_step_eq_spec_consistent (rnd : Rat → Rat) (cfg : Cfg) (s : State) (a : Nat) (d : Nat)
    (hc : Consistent cfg s) (hnf : Grid.all id s.body = false) (hl : legal cfg s a) :
    stepSpec cfg s a d = some (step rnd cfg s a d).1 := Snake.stepSpec_eq_consistent rnd cfg s a d hc hnf hl

/-- L1 unfolding, for ALL states and action values (audit r2 #5: the right-hand sides are the L1 expressions — cached
mask, `eatenB`; the statement in terms of the rules is `snake_step_ts_rules` below): reward 1 iff the new head is on the
fruit; LAST iff the cached mask rejects the action, the new body fills the board, or the time limit is reached -/
theorem snake_step_ts_l1 (rnd : Rat → Rat) (cfg : Cfg) (s : State) (a : Int) (d : Nat) :
    (step rnd cfg s a d).2.reward = [if eatenB s a then 1 else 0] ∧
    (step rnd cfg s a d).2.stepType =
      (if (!(getWC s.actionMask false a) || Grid.all id (step rnd cfg s a d).1.body ||
          decide (s.stepCount + 1 ≥ cfg.timeLimit)) then .last else .mid) :=
  ⟨Snake.step_reward rnd cfg s a d, Snake.step_type rnd cfg s a d⟩

/-- reward and step type in terms of the RULES: from a consistent state shorter than the board (every non-terminal
state of every play, `Props.C07.snake_run_consistent`), for every in-spec action and every draw, the step is LAST iff
the move is illegal, or the snake now fills the board (`length' = rows * cols`), or the time limit is reached; and the
reward is 1 iff the move eats the fruit, 0 otherwise -/
theorem snake_step_ts_rules (rnd : Rat → Rat) (cfg : Cfg) (s : State) (a : Nat) (d : Nat) (ha : a < 4)
    (hc : Consistent cfg s) (hlen : s.length < ((cfg.rows * cfg.cols : Nat) : Int)) :
    ((step rnd cfg s a d).2.stepType = .last ↔
      (¬ legal cfg s a ∨ (step rnd cfg s a d).1.length = ((cfg.rows * cfg.cols : Nat) : Int) ∨
        s.stepCount + 1 ≥ cfg.timeLimit)) ∧
    (step rnd cfg s a d).2.reward = [if eats s a then 1 else 0] :=
  Snake.step_ts_rules rnd cfg s a d ha hc hlen

-- the hypotheses are satisfiable (the 2×3 example state of C07), and all three causes occur:
-- 1×2 board: Right from (0,0) eats the fruit at (0,1) and fills the board: LAST with reward 1
example : Consistent ⟨1, 2, 10⟩ (reset id ⟨1, 2, 10⟩ 0 0 1).1 ∧
    (step id ⟨1, 2, 10⟩ (reset id ⟨1, 2, 10⟩ 0 0 1).1 1 0).2.stepType = .last ∧
    (step id ⟨1, 2, 10⟩ (reset id ⟨1, 2, 10⟩ 0 0 1).1 1 0).2.reward = [1] ∧
    legal ⟨1, 2, 10⟩ (reset id ⟨1, 2, 10⟩ 0 0 1).1 1 ∧
    (step id ⟨1, 2, 10⟩ (reset id ⟨1, 2, 10⟩ 0 0 1).1 1 0).1.length = 2 :=
  ⟨(Props.C07.snake_consistentB_iff _ _).1 (by decide +kernel), by decide +kernel, by decide +kernel, by decide,
    by decide +kernel⟩
end Props.C09

namespace Props.C10
/-- every generated instance is well-formed — a statement about the draws of the transliterated `reset` (audit r2 #7:
no longer a copy of `snake_reset_consistent`): for every head draw inside `[0, board_shape)` and every admissible fruit
draw, head and fruit are cells of the board, they are DIFFERENT cells on every board with more than one cell, the snake
is exactly the head cell (the chain `[(hr, hc)]`), length 1, step count 0 -/
theorem snake_reset_wellformed (rnd : Rat → Rat) (cfg : Cfg) (hr hc : Nat) (d : Nat)
    (h1 : hr < cfg.rows) (h2 : hc < cfg.cols) (hd : validDraw cfg (reset rnd cfg hr hc d).1.body d) :
    inGrid cfg (reset rnd cfg hr hc d).1.head.row (reset rnd cfg hr hc d).1.head.col ∧
    inGrid cfg (reset rnd cfg hr hc d).1.fruit.row (reset rnd cfg hr hc d).1.fruit.col ∧
    (1 < cfg.rows * cfg.cols → (reset rnd cfg hr hc d).1.fruit ≠ (reset rnd cfg hr hc d).1.head) ∧
    Chain cfg (reset rnd cfg hr hc d).1 [(hr, hc)] ∧
    (reset rnd cfg hr hc d).1.length = 1 ∧ (reset rnd cfg hr hc d).1.stepCount = 0 :=
  Snake.reset_wellformed rnd cfg hr hc d h1 h2 hd

-- admissible and inadmissible draws on the 2×3 board with the head at (0,0): cell 5 is free, cell 0 is the head
example : validDraw ⟨2, 3, 10⟩ (reset id ⟨2, 3, 10⟩ 0 0 5).1.body 5 ∧
    ¬ validDraw ⟨2, 3, 10⟩ (reset id ⟨2, 3, 10⟩ 0 0 0).1.body 0 := by decide

/-- an admissible fruit draw puts the fruit on a cell of the board -/
theorem snake_fruit_in_grid (cfg : Cfg) (d : Nat) (hd : d < cfg.rows * cfg.cols) :
    inGrid cfg (fruitOfDraw cfg d).row (fruitOfDraw cfg d).col := Snake.fruitOfDraw_inGrid cfg d hd
end Props.C10

namespace Props.C11
/-- the step counter advances by one on every step; a step that reaches the limit is LAST -/
theorem snake_step_count (rnd : Rat → Rat) (cfg : Cfg) (s : State) (a : Int) (d : Nat) :
    (step rnd cfg s a d).1.stepCount = s.stepCount + 1 ∧
    (s.stepCount + 1 ≥ cfg.timeLimit → (step rnd cfg s a d).2.stepType = .last) :=
  Snake.step_count rnd cfg s a d

/-- never earlier without another cause (audit r2 #5, the LAST ↔ of `snake_step_ts_rules`): from a consistent state
shorter than the board a step is LAST iff the move is illegal, the snake fills the board, or the limit is reached -/
theorem snake_last_iff (rnd : Rat → Rat) (cfg : Cfg) (s : State) (a : Nat) (d : Nat) (ha : a < 4)
    (hc : Consistent cfg s) (hlen : s.length < ((cfg.rows * cfg.cols : Nat) : Int)) :
    (step rnd cfg s a d).2.stepType = .last ↔
      (¬ legal cfg s a ∨ (step rnd cfg s a d).1.length = ((cfg.rows * cfg.cols : Nat) : Int) ∨
        s.stepCount + 1 ≥ cfg.timeLimit) := (Snake.step_ts_rules rnd cfg s a d ha hc hlen).1

/-! #### episode level: `run rnd cfg s ads`, transition `k` (0-based) is the `(k+1)`-th step -/

/-- never later: every transition whose step number has reached the time limit is LAST — ANY state, ANY actions and
draws, no hypotheses -/
theorem snake_run_last_at_limit (rnd : Rat → Rat) (cfg : Cfg) (s : State) (ads : List ActDraw) (k : Nat)
    (p : State × TimeStep Obs) (h : (run rnd cfg s ads)[k]? = some p)
    (hk : s.stepCount + k + 1 ≥ cfg.timeLimit) : p.2.stepType = .last :=
  Snake.run_last_at_limit rnd cfg s ads k p h hk

/-- so every play that is long enough contains a LAST at or before step `time_limit` -/
theorem snake_run_exists_last (rnd : Rat → Rat) (cfg : Cfg) (s : State) (ads : List ActDraw)
    (h0 : s.stepCount < cfg.timeLimit) (hlen : cfg.timeLimit - s.stepCount ≤ ads.length) :
    ∃ (k : Nat) (p : State × TimeStep Obs), s.stepCount + k + 1 ≤ cfg.timeLimit ∧
      (run rnd cfg s ads)[k]? = some p ∧ p.2.stepType = .last := Snake.run_exists_last rnd cfg s ads h0 hlen

/-- never earlier: up to and including the first LAST of a play from a consistent state shorter than the board (e.g.
reset), a transition is LAST iff another cause holds (`otherCause`: the move is illegal or the snake now fills the
board) or its step number has reached the limit -/
theorem snake_run_last_iff (rnd : Rat → Rat) (cfg : Cfg) (s : State) (hc : Consistent cfg s)
    (hlen : s.length < ((cfg.rows * cfg.cols : Nat) : Int)) (ads : List ActDraw) (k : Nat)
    (p : State × TimeStep Obs)
    (hok : ∀ j (hj : j < ads.length), j ≤ k → okStep rnd cfg (EpRun.after (stepA rnd cfg) s (ads.take j)) ads[j])
    (hno : EpRun.NoLastBefore (stepA rnd cfg) (·.stepType = .last) s ads k)
    (h : (run rnd cfg s ads)[k]? = some p) :
    ∃ hk : k < ads.length,
      (p.2.stepType = .last ↔
        (otherCause rnd cfg (EpRun.after (stepA rnd cfg) s (ads.take k)) ads[k] ∨
          s.stepCount + k + 1 ≥ cfg.timeLimit)) := Snake.run_last_iff rnd cfg s hc hlen ads k p hok hno h

/-- if no other cause of termination occurs, the FIRST LAST of a play is exactly at step `time_limit` -/
theorem snake_run_first_last_at_limit (rnd : Rat → Rat) (cfg : Cfg) (s : State) (hc : Consistent cfg s)
    (hlen : s.length < ((cfg.rows * cfg.cols : Nat) : Int)) (h0 : s.stepCount < cfg.timeLimit)
    (ads : List ActDraw) (k : Nat) (p : State × TimeStep Obs)
    (hok : ∀ j (hj : j < ads.length), j ≤ k → okStep rnd cfg (EpRun.after (stepA rnd cfg) s (ads.take j)) ads[j])
    (hno : EpRun.NoLastBefore (stepA rnd cfg) (·.stepType = .last) s ads k)
    (h : (run rnd cfg s ads)[k]? = some p) (hlast : p.2.stepType = .last)
    (hother : ∀ hk : k < ads.length, ¬ otherCause rnd cfg (EpRun.after (stepA rnd cfg) s (ads.take k)) ads[k]) :
    s.stepCount + k + 1 = cfg.timeLimit :=
  Snake.run_first_last_eq rnd cfg s hc hlen h0 ads k p hok hno h hlast hother

-- 3×3 board, limit 3, going Right, Right, Down from (0,0) without meeting the fruit at (2,0): MID, MID, LAST at step 3
example : ((run id ⟨3, 3, 3⟩ (reset id ⟨3, 3, 3⟩ 0 0 6).1 [(1, 8), (1, 8), (2, 7), (2, 7)]).map
    (fun p => decide (p.2.stepType = .last))) = [false, false, true, true] := by decide +kernel
end Props.C11

namespace Props.C12
/-- the five feature planes (body, head, tail, fruit, normalised order), the step count and the mask
returned by `step` are the documented functions of the successor state, whenever the new head is on the
board (in particular on every step that does not end the episode) -/
theorem snake_obs_faithful (rnd : Rat → Rat) (cfg : Cfg) (s : State) (a : Int) (d : Nat)
    (hs : Grid.shaped s.bodyState cfg.rows cfg.cols = true)
    (hh : inGrid cfg (headAfter s a).row (headAfter s a).col)
    (hfr : inGrid cfg s.fruit.row s.fruit.col) (hd : d < cfg.rows * cfg.cols) :
    (step rnd cfg s a d).2.obs = observe rnd cfg (step rnd cfg s a d).1 :=
  Snake.obs_faithful rnd cfg s a d hs hh hfr hd

/-- the same for any state whose derived fields agree with `body_state` (e.g. the reset state) -/
theorem snake_obs_planes (rnd : Rat → Rat) (cfg : Cfg) (t : State)
    (hs : Grid.shaped t.bodyState cfg.rows cfg.cols = true)
    (hbody : t.body = Grid.map (fun x => decide (x > 0)) t.bodyState)
    (htail : t.tail = Grid.map (fun x => decide (x = 1)) t.bodyState)
    (hh : inGrid cfg t.head.row t.head.col) (hfr : inGrid cfg t.fruit.row t.fruit.col)
    (hm : t.actionMask = legalMask cfg t) :
    stateToObs rnd t = observe rnd cfg t := Snake.obs_eq rnd cfg t hs hbody htail hh hfr hm

/-- in particular in EVERY consistent state `_state_to_observation` returns the documented observation -/
theorem snake_obs_consistent (rnd : Rat → Rat) (cfg : Cfg) (t : State) (hc : Consistent cfg t) :
    stateToObs rnd t = observe rnd cfg t := Snake.obs_of_consistent rnd cfg t hc

/-- the observation returned by `reset` (any head cell of the board, any admissible fruit draw) is the documented
function of the reset state, and the timestep is FIRST (audit r2 #12) -/
theorem snake_reset_obs_faithful (rnd : Rat → Rat) (cfg : Cfg) (hr hc : Nat) (d : Nat)
    (h1 : hr < cfg.rows) (h2 : hc < cfg.cols) (hd : validDraw cfg (reset rnd cfg hr hc d).1.body d) :
    (reset rnd cfg hr hc d).2.obs = observe rnd cfg (reset rnd cfg hr hc d).1 ∧
    (reset rnd cfg hr hc d).2.stepType = .first := Snake.reset_obs_faithful rnd cfg hr hc d h1 h2 hd

/-- the hypotheses of `snake_obs_faithful` / `snake_obs_planes` are satisfiable: 2×3 board, snake of length 3, moving
Right keeps the head on the board; the state's derived fields agree with `body_state` -/
example :
    let cfg : Cfg := ⟨2, 3, 10⟩
    let s : State := ⟨[[true, false, false], [true, true, false]], [[1, 0, 0], [2, 3, 0]], ⟨1, 1⟩,
      [[true, false, false], [false, false, false]], ⟨0, 2⟩, 3, 4, [true, true, false, false]⟩
    Grid.shaped s.bodyState cfg.rows cfg.cols = true ∧ inGrid cfg (headAfter s 1).row (headAfter s 1).col ∧
    inGrid cfg s.fruit.row s.fruit.col ∧ s.body = Grid.map (fun x => decide (x > 0)) s.bodyState ∧
    s.tail = Grid.map (fun x => decide (x = 1)) s.bodyState ∧ inGrid cfg s.head.row s.head.col ∧
    s.actionMask = legalMask cfg s := by decide

/-- KNOWN FINDING (opt-in check `VERIF_SNAKE_STRICT_HEAD`), the hypothesis "new head on the board" of
`snake_obs_faithful` cannot be dropped: after the invalid move Up from row 0 the new head is at row −1; the scatter
`zeros.at[(-1, 0)].set(True)` WRAPS and marks cell (1,0) of the head plane of the (terminal) observation, while the
documented plane "1 at the head position" has no cell at row −1 and is all zero.  Same in the real code (negative
indices wrap in `.at[].set`). -/
theorem snake_offboard_head_obs_witness :
    let cfg : Cfg := ⟨2, 3, 10⟩
    let s := (reset id cfg 0 0 5).1
    (step id cfg s 0 0).2.stepType = .last ∧ (step id cfg s 0 0).1.head = ⟨-1, 0⟩ ∧
    (step id cfg s 0 0).2.obs.head = [[0, 0, 0], [1, 0, 0]] ∧
    (observe id cfg (step id cfg s 0 0).1).head = [[0, 0, 0], [0, 0, 0]] ∧
    (step id cfg s 0 0).2.obs ≠ observe id cfg (step id cfg s 0 0).1 := by
  decide +kernel
end Props.C12

namespace Props.C01
/-- the reset observation (any head draw, any fruit draw, even inadmissible ones) has every leaf inside the
interval `obsBounds cfg` lists for it: the five planes in `[0, 1]`, `step_count = 0 ≤ time_limit`, mask 0..1.
`RndKeeps01 rnd`: the float32 rounding of `body_state / max(1, max)` maps `[0, 1]` into `[0, 1]`. -/
theorem snake_reset_obs_in_bounds (rnd : Rat → Rat) (hrnd : RndKeeps01 rnd) (cfg : Cfg) (hr hc : Nat) (d : Nat)
    (htl : 0 ≤ cfg.timeLimit) : ObsInBounds cfg (reset rnd cfg hr hc d).2.obs :=
  Snake.reset_obs_in_bounds rnd hrnd cfg hr hc d htl

/-- every step taken from a consistent state of a running episode (`step_count < time_limit`; `0 ≤ step_count`
is part of `Consistent`) emits an observation inside `obsBounds cfg` — for EVERY action value (legal, illegal,
out of range) and every fruit draw, including the terminal step, where `step_count = time_limit`
(the point the declared `DiscreteArray(time_limit)` of the original tree excluded) -/
theorem snake_step_obs_in_bounds (rnd : Rat → Rat) (hrnd : RndKeeps01 rnd) (cfg : Cfg) (s : State) (a : Int)
    (d : Nat) (hC : Consistent cfg s) (h1 : s.stepCount < cfg.timeLimit) :
    ObsInBounds cfg (step rnd cfg s a d).2.obs := Snake.step_obs_in_bounds rnd hrnd cfg s a d hC h1

/-- the same from the weaker invariant `NonNeg` (board numbers, length, counter non-negative), which — unlike
`Consistent` — EVERY step preserves, so the bounds hold along all trajectories, also after an invalid move -/
theorem snake_step_obs_in_bounds_nonNeg (rnd : Rat → Rat) (hrnd : RndKeeps01 rnd) (cfg : Cfg) (s : State)
    (a : Int) (d : Nat) (hn : NonNeg s) (h1 : s.stepCount < cfg.timeLimit) :
    ObsInBounds cfg (step rnd cfg s a d).2.obs ∧ NonNeg (step rnd cfg s a d).1 :=
  ⟨Snake.step_obs_in_bounds_nonNeg rnd hrnd cfg s a d hn h1, Snake.step_nonNeg rnd cfg s a d hn⟩

/-- `NonNeg` holds after reset and in every consistent state -/
theorem snake_nonNeg (rnd : Rat → Rat) (cfg : Cfg) (hr hc : Nat) (d : Nat) (s : State) :
    NonNeg (reset rnd cfg hr hc d).1 ∧ (Consistent cfg s → NonNeg s) :=
  ⟨Snake.reset_nonNeg rnd cfg hr hc d, Snake.nonNeg_of_consistent⟩

/-- any monotone rounding that fixes 0 and 1 satisfies the rounding hypothesis -/
theorem snake_rndKeeps01_of_mono (rnd : Rat → Rat) (hm : ∀ x y, x ≤ y → rnd x ≤ rnd y) (h0 : rnd 0 = 0)
    (h1 : rnd 1 = 1) : RndKeeps01 rnd := fun x hx0 hx1 => ⟨h0 ▸ hm 0 x hx0, h1 ▸ hm x 1 hx1⟩

example : RndKeeps01 id := fun _ h0 h1 => ⟨h0, h1⟩
example : Jx.roundF32 0 = 0 ∧ Jx.roundF32 1 = 1 := by decide +kernel
/-- the bound on `step_count` is attained: 2×3 board, limit 1, one step -/
example : (step id ⟨2, 3, 1⟩ (reset id ⟨2, 3, 1⟩ 0 0 5).1 1 0).2.obs.stepCount = 1 := by decide +kernel

/-! #### the rounding hypothesis discharged for the float32 model (`Jx.roundF32`, Prim/FloatLemmas.lean) -/

/-- `Jx.roundF32` (nearest binary32, ties to even) is monotone on all of `Rat` and fixes 0 and 1 -/
theorem snake_roundF32_mono_fix :
    (∀ x y : Rat, x ≤ y → Jx.roundF32 x ≤ Jx.roundF32 y) ∧ Jx.roundF32 0 = 0 ∧ Jx.roundF32 1 = 1 :=
  ⟨fun _ _ h => Jx.roundF32_mono h, Jx.roundF32_zero, Jx.roundF32_one⟩

/-- hence it keeps the unit interval: the hypothesis `RndKeeps01` of the bounds theorems holds for the
rounding the bridge uses -/
theorem snake_rndKeeps01_roundF32 : RndKeeps01 Jx.roundF32 :=
  snake_rndKeeps01_of_mono Jx.roundF32 snake_roundF32_mono_fix.1 Jx.roundF32_zero Jx.roundF32_one

/-- hypothesis-free (no assumption on the rounding) versions for the float32 model: reset -/
theorem snake_reset_obs_in_bounds_roundF32 (cfg : Cfg) (hr hc : Nat) (d : Nat) (htl : 0 ≤ cfg.timeLimit) :
    ObsInBounds cfg (reset Jx.roundF32 cfg hr hc d).2.obs :=
  snake_reset_obs_in_bounds Jx.roundF32 snake_rndKeeps01_roundF32 cfg hr hc d htl

/-- float32 model: every step from a consistent state of a running episode, every action value, every draw -/
theorem snake_step_obs_in_bounds_roundF32 (cfg : Cfg) (s : State) (a : Int) (d : Nat) (hC : Consistent cfg s)
    (h1 : s.stepCount < cfg.timeLimit) : ObsInBounds cfg (step Jx.roundF32 cfg s a d).2.obs :=
  snake_step_obs_in_bounds Jx.roundF32 snake_rndKeeps01_roundF32 cfg s a d hC h1

/-- float32 model: the same from the invariant `NonNeg`, which every step preserves -/
theorem snake_step_obs_in_bounds_nonNeg_roundF32 (cfg : Cfg) (s : State) (a : Int) (d : Nat) (hn : NonNeg s)
    (h1 : s.stepCount < cfg.timeLimit) :
    ObsInBounds cfg (step Jx.roundF32 cfg s a d).2.obs ∧ NonNeg (step Jx.roundF32 cfg s a d).1 :=
  snake_step_obs_in_bounds_nonNeg Jx.roundF32 snake_rndKeeps01_roundF32 cfg s a d hn h1

/-- the hypotheses are satisfiable: the reset state of a 2×3 board with limit 1 is `NonNeg` and running -/
example : NonNeg (reset Jx.roundF32 ⟨2, 3, 1⟩ 0 0 5).1 ∧ (reset Jx.roundF32 ⟨2, 3, 1⟩ 0 0 5).1.stepCount < 1 :=
  ⟨Snake.reset_nonNeg _ _ _ _ _, by decide +kernel⟩

/-! #### shapes (audit r2 #15) and the tie to the declared spec -/

/-- the reset observation (ANY draws) has the shapes `obsShapes cfg` lists: five `rows × cols` planes (the `grid` leaf
of shape `(rows, cols, 5)`), a 4-entry mask -/
theorem snake_reset_obs_shaped (rnd : Rat → Rat) (cfg : Cfg) (hr hc : Nat) (d : Nat) :
    ObsShaped cfg (reset rnd cfg hr hc d).2.obs ∧
    Grid.shaped (reset rnd cfg hr hc d).1.bodyState cfg.rows cfg.cols = true :=
  Snake.reset_obs_shaped rnd cfg hr hc d

/-- every step from a state whose `body_state` has the configured shape — ANY action value, any draw, terminal steps
included — emits an observation of those shapes, and the successor's `body_state` has that shape again (so the shapes
hold along every trajectory from reset) -/
theorem snake_step_obs_shaped (rnd : Rat → Rat) (cfg : Cfg) (s : State) (a : Int) (d : Nat)
    (hs : Grid.shaped s.bodyState cfg.rows cfg.cols = true) :
    ObsShaped cfg (step rnd cfg s a d).2.obs ∧
    Grid.shaped (step rnd cfg s a d).1.bodyState cfg.rows cfg.cols = true :=
  Snake.step_obs_shaped rnd cfg s a d hs

/-- values and shapes together, from a consistent state of a running episode -/
theorem snake_step_obs_conforms (rnd : Rat → Rat) (hrnd : RndKeeps01 rnd) (cfg : Cfg) (s : State) (a : Int)
    (d : Nat) (hC : Consistent cfg s) (h1 : s.stepCount < cfg.timeLimit) :
    ObsInBounds cfg (step rnd cfg s a d).2.obs ∧ ObsShaped cfg (step rnd cfg s a d).2.obs := by
  obtain ⟨⟨cs, hch⟩, _⟩ := hC
  exact ⟨Snake.step_obs_in_bounds rnd hrnd cfg s a d ⟨⟨cs, hch⟩, by assumption⟩ h1,
    (Snake.step_obs_shaped rnd cfg s a d hch.1).1⟩

/-- the proved intervals and shapes lie inside the DECLARED spec (the literals generated from the real
`observation_spec`, `Gen/Specs.lean`) for the catalogue configuration of Snake (5×6, time limit 10): all three declared
leaves are covered, `grid` is `(5, 6, 5)` within `[0, 1]`, `step_count ∈ [0, 10]` is inside `DiscreteArray(11)` -/
theorem snake_bounds_within_declared_spec :
    SpecTieSSM.tie "snake-5x6" (obsBounds ⟨5, 6, 10⟩) (obsShapes ⟨5, 6, 10⟩) = true ∧
    (SpecTieSSM.obsLeavesOf "snake-5x6").length = 3 := by decide +kernel
/-- not vacuous: with time limit 11 the proved bound `step_count ≤ 11` is NOT inside `DiscreteArray(11)` (this is the
defect of the original tree, `DiscreteArray(time_limit)`), and a wrong plane count is rejected -/
example : SpecTieSSM.tie "snake-5x6" (obsBounds ⟨5, 6, 11⟩) (obsShapes ⟨5, 6, 10⟩) = false ∧
    SpecTieSSM.tie "snake-5x6" (obsBounds ⟨5, 6, 10⟩) [("grid", [5, 6, 4]), ("step_count", []), ("action_mask", [4])] = false := by
  decide +kernel
/-! NOTE on what the membership theorems of this section do and do not cover (audits r4 #6, r5 #6, r6 #8): the dtype tag of every leaf
is written by `toNValue` (by construction) — a wrong dtype in the real code cannot falsify `….valid (toNValue …) = true`; dtypes and
field order of the real observations are compared by the `snake.spec` / `snake.state` ops (`nvalue`: field order, shape, dtype, data) and
`jax.eval_shape` in the sweeps.  Shapes are READ OFF the value by `toNValue` (widths off the first row): see `…_obs_valid_only`. -/

/-! #### (wave 4) membership in the DECLARED specs: structure, field order, shapes, dtypes and inclusive bounds -/
open Sp PzS PkS

/-- the model's `obsSpec` / `actionSpec` / reward and discount specs ARE the specs generated from the real spec objects
(Gen/Specs.lean) for the catalogue configuration `Snake(num_rows=5, num_cols=6, time_limit=10)`: `grid` BoundedArray((5, 6, 5),
float32, 0, 1), `step_count` DiscreteArray(11), `action_mask` BoundedArray((4,), bool)
SPEC-ONLY second configuration `Snake(num_rows=3, num_cols=7, time_limit=13)` (rows, columns, planes 5, actions 4 and the limit
pairwise distinct) -/
theorem snake_obsSpec_generated :
    prefixed "observation_spec." (obsSpec ⟨5, 6, 10⟩) = declared "snake-5x6" "observation_spec." ∧
    [("action_spec", Snake.actionSpec)] = declared "snake-5x6" "action_spec" ∧
    [("reward_spec", rewardSpec)] = declared "snake-5x6" "reward_spec" ∧
    [("discount_spec", discountSpec)] = declared "snake-5x6" "discount_spec" ∧
    prefixed "observation_spec." (obsSpec ⟨3, 7, 13⟩) = declared "spec-only-snake-3x7" "observation_spec." ∧
    [("action_spec", Snake.actionSpec)] = declared "spec-only-snake-3x7" "action_spec" ∧
    [("reward_spec", rewardSpec)] = declared "spec-only-snake-3x7" "reward_spec" ∧
    [("discount_spec", discountSpec)] = declared "spec-only-snake-3x7" "discount_spec" := by
  refine ⟨by decide +kernel, by decide +kernel, by decide +kernel, by decide +kernel, by decide +kernel, by decide +kernel,
    by decide +kernel, by decide +kernel⟩

/-- the `reset` observation (ALL board sizes with at least one row, ANY head and fruit draws — admissible or not) is accepted
by `observation_spec.validate`: fields `grid`, `step_count`, `action_mask`; shapes `(R, C, 5)`, `()`, `(4,)`; dtypes float32,
int32, bool; bounds `[0, 1]`, `{0 … time_limit}`, `[0, 1]`.  `RndKeeps01 rnd`: the float32 rounding of
`body_state / max(1, max)` maps `[0, 1]` into `[0, 1]` (as in `snake_reset_obs_in_bounds`).
NOTE (audit r6 #2): `0 ≤ time_limit` suffices for the RESET observation only; every step theorem below needs
`step_count < time_limit`, i.e. `0 < time_limit`.  `Snake.__init__` accepts `time_limit = 0`, and there the first step's
observation is NOT a member: `snake_time_limit_zero_witness`, `snake_time_limit_zero_step_obs_not_valid`.
The dtype tag of every leaf is written by `toNValue` (by construction); dtypes and field order of the real observations are
compared by the `snake.spec` / `state` ops and `jax.eval_shape` in the sweeps. -/
theorem snake_reset_obs_valid (rnd : Rat → Rat) (hrnd : RndKeeps01 rnd) (cfg : Cfg) (hR : 0 < cfg.rows)
    (htl : 0 ≤ cfg.timeLimit) (hr hc d : Nat) :
    (obsSpec cfg).valid (toNValue (reset rnd cfg hr hc d).2.obs) = true :=
  Snake.reset_obs_valid rnd hrnd cfg hR htl hr hc d

/-- the invariant `SpecInv` (`body_state` of the configured shape; board numbers, length and counter non-negative) holds
after `reset` (ANY draws), in every consistent state, and is preserved by EVERY step: any integer as action (legal, illegal,
outside the action space), any fruit draw, MID or LAST -/
theorem snake_specInv_invariant (rnd : Rat → Rat) (cfg : Cfg) :
    (∀ hr hc d : Nat, SpecInv cfg (reset rnd cfg hr hc d).1) ∧
    (∀ s : State, Consistent cfg s → SpecInv cfg s) ∧
    (∀ (s : State) (a : Int) (d : Nat), SpecInv cfg s → SpecInv cfg (step rnd cfg s a d).1) :=
  ⟨Snake.reset_specInv rnd cfg, Snake.specInv_of_consistent cfg, fun s a d h => Snake.step_specInv rnd cfg s h a d⟩

/-- the observation of EVERY step — any integer as action, any draw, terminal step included (where `step_count = time_limit`,
the value `DiscreteArray(time_limit)` of the original tree excluded) — from a state satisfying the invariant whose counter
has not reached the limit is a member of the spec -/
theorem snake_step_obs_valid (rnd : Rat → Rat) (hrnd : RndKeeps01 rnd) (cfg : Cfg) (hR : 0 < cfg.rows) (s : State)
    (h : SpecInv cfg s) (hlim : s.stepCount < cfg.timeLimit) (a : Int) (d : Nat) :
    (obsSpec cfg).valid (toNValue (step rnd cfg s a d).2.obs) = true :=
  Snake.step_obs_valid rnd hrnd cfg hR s h hlim a d

/-- the hypotheses are satisfiable: the reset state of a 2×3 board with limit 1 -/
example : SpecInv ⟨2, 3, 1⟩ (reset Jx.roundF32 ⟨2, 3, 1⟩ 0 0 5).1 ∧ (reset Jx.roundF32 ⟨2, 3, 1⟩ 0 0 5).1.stepCount < 1 :=
  ⟨Snake.reset_specInv _ _ _ _ _, by decide +kernel⟩

/-- WHOLE EPISODES: along the rollout (`Ep.rollout` = the L1 step iterated) of ANY integers as actions and ANY fruit draws
from `reset` (any draws), every observation emitted by one of the first `time_limit` steps is a member of the spec and every
state satisfies the invariant; the first LAST timestep is among them (`snake_run_last_at_limit`: the step that brings the
counter to `time_limit` is LAST), so this covers every observation of every episode up to and including the terminal one -/
theorem snake_obs_valid_along (rnd : Rat → Rat) (hrnd : RndKeeps01 rnd) (cfg : Cfg) (hR : 0 < cfg.rows) (hr hc d0 : Nat)
    (as : List (Int × Nat)) (j : Nat) (hj : (j : Int) < cfg.timeLimit) (e : State × TimeStep Obs)
    (he : (Ep.rollout (fun s (a : Int × Nat) => step rnd cfg s a.1 a.2) (reset rnd cfg hr hc d0).1 as)[j]? = some e) :
    (obsSpec cfg).valid (toNValue e.2.obs) = true ∧ SpecInv cfg e.1 :=
  Snake.rollout_obs_valid rnd hrnd cfg hR hr hc d0 as j hj e he

/-- float32 model (the rounding the bridge uses): hypothesis-free versions of the three membership theorems -/
theorem snake_obs_valid_roundF32 (cfg : Cfg) (hR : 0 < cfg.rows) :
    (∀ hr hc d : Nat, 0 ≤ cfg.timeLimit → (obsSpec cfg).valid (toNValue (reset Jx.roundF32 cfg hr hc d).2.obs) = true) ∧
    (∀ (s : State) (a : Int) (d : Nat), SpecInv cfg s → s.stepCount < cfg.timeLimit →
      (obsSpec cfg).valid (toNValue (step Jx.roundF32 cfg s a d).2.obs) = true) ∧
    (∀ (hr hc d0 : Nat) (as : List (Int × Nat)) (j : Nat) (e : State × TimeStep Obs), (j : Int) < cfg.timeLimit →
      (Ep.rollout (fun s (a : Int × Nat) => step Jx.roundF32 cfg s a.1 a.2) (reset Jx.roundF32 cfg hr hc d0).1 as)[j]? = some e →
      (obsSpec cfg).valid (toNValue e.2.obs) = true) :=
  ⟨fun hr hc d htl => Snake.reset_obs_valid _ snake_rndKeeps01_roundF32 cfg hR htl hr hc d,
   fun s a d h hl => Snake.step_obs_valid _ snake_rndKeeps01_roundF32 cfg hR s h hl a d,
   fun hr hc d0 as j e hj he => (Snake.rollout_obs_valid _ snake_rndKeeps01_roundF32 cfg hR hr hc d0 as j hj e he).1⟩

/-- what membership means (so the theorems above are not hollow): `validate` accepts an observation ONLY IF the board has the
configured shape, all five plane values of every cell lie in `[0, 1]`, the counter lies in `[0, time_limit]` and the mask
has four entries.  CAVEAT (audit r6 #5): `toNValue` reads the `grid` shape off `body` alone (row count, and the column count
off its FIRST row), so this theorem says nothing about the shape of the other four planes or of the later rows of `body` —
a ragged value can be a member.  Rectangularity of all five planes is the `ObsShaped` conjunct of `snake_step_obs_conforms` /
`snake_reset_obs_shaped` / `snake_step_obs_shaped` and of `snake_step_obs_valid_shaped` below, proved for every emitted observation. -/
theorem snake_obs_valid_only (cfg : Cfg) (o : Obs) (h : (obsSpec cfg).valid (toNValue o) = true) :
    o.body.length = cfg.rows ∧ (o.body.headD []).length = cfg.cols ∧
    (∀ r c, r < cfg.rows → c < cfg.cols →
      ∀ x ∈ [Grid.get o.body 0 r c, Grid.get o.head 0 r c, Grid.get o.tail 0 r c, Grid.get o.fruit 0 r c,
             Grid.get o.norm 0 r c], (0 : Rat) ≤ x ∧ x ≤ 1) ∧
    0 ≤ o.stepCount ∧ o.stepCount ≤ cfg.timeLimit ∧ o.actionMask.length = 4 := Snake.obs_valid_only cfg o h

/-- positive and negative instances (2×3 board, limit 4, exact arithmetic): the reset observation and the observation after
one step are members; a counter beyond the limit (what the original `DiscreteArray(time_limit)` did to the terminal step), a
plane value 2, a spec for a board with one more column, and a spec with the original off-by-one (`time_limit − 1` as the
limit, terminal observation) are rejected -/
example :
    (obsSpec ⟨2, 3, 4⟩).valid (toNValue (reset id ⟨2, 3, 4⟩ 0 0 5).2.obs) = true ∧
    (obsSpec ⟨2, 3, 4⟩).valid (toNValue (step id ⟨2, 3, 4⟩ (reset id ⟨2, 3, 4⟩ 0 0 5).1 1 0).2.obs) = true ∧
    (obsSpec ⟨2, 3, 4⟩).valid (toNValue { (reset id ⟨2, 3, 4⟩ 0 0 5).2.obs with stepCount := 5 }) = false ∧
    (obsSpec ⟨2, 3, 4⟩).valid (toNValue { (reset id ⟨2, 3, 4⟩ 0 0 5).2.obs with norm := [[2, 0, 0], [0, 0, 0]] }) = false ∧
    (obsSpec ⟨2, 4, 4⟩).valid (toNValue (reset id ⟨2, 3, 4⟩ 0 0 5).2.obs) = false ∧
    (obsSpec ⟨2, 3, 0⟩).valid (toNValue (step id ⟨2, 3, 1⟩ (reset id ⟨2, 3, 1⟩ 0 0 5).1 1 0).2.obs) = false := by
  decide +kernel

/-! #### audit r6 #2: `time_limit = 0` is accepted by the constructor and is a real C01 violation -/

/-- WITNESS: `Snake(num_rows=2, num_cols=3, time_limit=0)`: the reset observation is a member of the declared spec, the first
step is LAST and its observation (`step_count = 1`, declared `DiscreteArray(1)` = {0}) is NOT.  Real code: `validate` raises
"Values were not all within bounds 0 <= 1 <= 0 for spec step_count" (reproduction in the report). -/
theorem snake_time_limit_zero_witness :
    (obsSpec ⟨2, 3, 0⟩).valid (toNValue (reset id ⟨2, 3, 0⟩ 0 0 5).2.obs) = true ∧
    (step id ⟨2, 3, 0⟩ (reset id ⟨2, 3, 0⟩ 0 0 5).1 1 0).2.stepType = .last ∧
    (obsSpec ⟨2, 3, 0⟩).valid (toNValue (step id ⟨2, 3, 0⟩ (reset id ⟨2, 3, 0⟩ 0 0 5).1 1 0).2.obs) = false := by
  decide +kernel

/-- … for ALL board sizes, roundings, draws, states with a non-negative counter (e.g. every reset state) and ANY action: with
`time_limit ≤ 0` the observation of the step is rejected by the declared spec — so `0 < time_limit` in the step theorems is
necessary, not a convenience -/
theorem snake_time_limit_zero_step_obs_not_valid (rnd : Rat → Rat) (cfg : Cfg) (h0 : cfg.timeLimit ≤ 0) (s : State)
    (hs : 0 ≤ s.stepCount) (a : Int) (d : Nat) :
    (obsSpec cfg).valid (toNValue (step rnd cfg s a d).2.obs) = false :=
  Snake.time_limit_zero_step_obs_not_valid rnd cfg h0 s hs a d

/-- membership TOGETHER with the rectangular shapes `valid ∘ toNValue` does not imply (audit r6 #5): every step observation
from a state with the invariant is a member AND all five planes are `rows × cols`, the mask has 4 entries -/
theorem snake_step_obs_valid_shaped (rnd : Rat → Rat) (hrnd : RndKeeps01 rnd) (cfg : Cfg) (hR : 0 < cfg.rows) (s : State)
    (h : SpecInv cfg s) (hlim : s.stepCount < cfg.timeLimit) (a : Int) (d : Nat) :
    (obsSpec cfg).valid (toNValue (step rnd cfg s a d).2.obs) = true ∧ ObsShaped cfg (step rnd cfg s a d).2.obs :=
  ⟨Snake.step_obs_valid rnd hrnd cfg hR s h hlim a d, (Snake.step_obs_shaped rnd cfg s a d h.1).1⟩

/-- reward and discount of every `step` (ALL states, ALL integer actions, all draws) and of `reset` are accepted by
`reward_spec` (Array((), float)) and `discount_spec` (BoundedArray((), float, 0, 1)) -/
theorem snake_reward_discount_valid (rnd : Rat → Rat) (cfg : Cfg) (s : State) (a : Int) (d hr hc d0 : Nat) :
    rewardSpec.valid (scalarArr (step rnd cfg s a d).2.reward) = true ∧
    discountSpec.valid (scalarArr (step rnd cfg s a d).2.discount) = true ∧
    rewardSpec.valid (scalarArr (reset rnd cfg hr hc d0).2.reward) = true ∧
    discountSpec.valid (scalarArr (reset rnd cfg hr hc d0).2.discount) = true :=
  ⟨(Snake.step_reward_discount_valid rnd cfg s a d).1, (Snake.step_reward_discount_valid rnd cfg s a d).2,
   (Snake.reset_reward_discount_valid rnd cfg hr hc d0).1, (Snake.reset_reward_discount_valid rnd cfg hr hc d0).2⟩

/-- `action_spec.generate_value()` = 0 (Up): the action spec is well-formed, the generated value is a member, `step` answers
it in EVERY state with a protocol-conform timestep and — from a state satisfying the invariant whose counter has not reached
the limit — with an observation in the spec; membership in `action_spec` is "0 ≤ a < 4" -/
theorem snake_accepts_generate_value (rnd : Rat → Rat) (hrnd : RndKeeps01 rnd) (cfg : Cfg) (hR : 0 < cfg.rows) (s : State)
    (d : Nat) :
    Snake.actionSpec.WF = true ∧ Snake.actionSpec.valid Snake.actionSpec.generate = true ∧
    Snake.actionSpec.generate = actionArr 0 ∧ StepOK none false (step rnd cfg s 0 d).2 = true ∧
    (SpecInv cfg s → s.stepCount < cfg.timeLimit →
      (obsSpec cfg).valid (toNValue (step rnd cfg s 0 d).2.obs) = true) :=
  Snake.accepts_generate_value rnd hrnd cfg hR s d

theorem snake_action_spec_iff (a : Int) : Snake.actionSpec.valid (actionArr a) = true ↔ 0 ≤ a ∧ a < 4 :=
  Snake.actionSpec_valid_iff a
end Props.C01
