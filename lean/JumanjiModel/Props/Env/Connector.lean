/-
Property theorems for Connector (all grid sizes `n`, all agent counts `k`, all states).  Helper lemmas and
proofs live in Env/Connector/{Lemmas,GridLemmas,ConsLemmas,RefineLemmas,StepLemmas,CountLemmas,RouteLemmas,
FeasLemmas,SolvableLemmas,SolveLemmas,EpisodeLemmas,TraceLemmas,ConservedLemmas,GenLemmas,WalkDefs,WalkLoopLemmas,
WalkInitLemmas,WalkLemmas,WalkSolvedLemmas}.lean.  Auxiliary facts that used to be listed here as properties (the telescoping identity
`Connector.episodeReturn_closed`, the unfolding `Connector.objectiveOf_eq`, `Connector.fresh_consistent`,
`Connector.fresh_feasible`, `Connector.complete_is_solution`) are lemmas in those files, not property theorems.
Whole-episode theorems are stated over `traceL1` / `finalL1`, the trace of the implementation model `step`;
`connector_trace_eq` says it is the trace of the rules.  The first group of theorems only needs the grid to be `n × n`
(`Grid.shaped s.grid n n`) and, where an agent's own cells are rewritten, its stored position inside the grid;
joint actions are in-spec (`0 ≤ a ≤ 4` for every agent).  The second group (appended sections at the end of the
file) works from `Consistent n k s` and an in-spec joint action of length `k > 0`: the full refinement
`stepAgents = stepAgentsL2` / `step = stepL2` (max-join + correction mask = "highest id wins"), the preservation
of `Consistent` and `Feasible` by `step`, and the meaning of the `walk_board_solvable` certificate.  The same
predicates are also evaluated by the driver on every implementation transition (`l2_agrees`, `consistent`,
`feasible`, `walk_board_solvable`).
-/
import JumanjiModel.Env.Connector.Lemmas
import JumanjiModel.Env.Connector.Bounds
import JumanjiModel.Env.Connector.SolvableLemmas
import JumanjiModel.Env.Connector.EpisodeLemmas
import JumanjiModel.Env.Connector.TraceLemmas
import JumanjiModel.Env.Connector.WalkSolvedLemmas
import JumanjiModel.Env.Connector.SpecValid
open Jm Jx Connector

namespace Props.C04
/-- per agent: the mask bit of action `a` of agent `i` is set exactly when the rules allow the action (no-op
always; a move iff the neighbouring cell is inside the grid and empty or the agent's own target, and the
agent is not connected) -/
theorem connector_mask_iff_legal (n : Nat) (s : State) (h : Grid.shaped s.grid n n = true) (i a : Nat)
    (hi : i < s.agents.length) (ha : a < 5) :
    ((actionMask s.grid s.agents).getD i []).getD a false = true ↔ legal n s i a :=
  Connector.mask_iff_legal s h i a hi ha

/-- the environment's own reaction (`_step_agent`): the agent's tentative move is made exactly when the action
is a legal move; otherwise agent and grid are returned untouched -/
theorem connector_step_agrees (n : Nat) (g : Grid Int) (h : Grid.shaped g n n = true) (ag : Agent) (a : Nat)
    (ha : a < 5) :
    stepAgent g ag (a : Int) =
      if a ≠ 0 ∧ ∃ d, dir a = some d ∧ canEnter n g ag (ag.position.1 + d.1, ag.position.2 + d.2)
      then moveAgent ag g (movePosition ag.position (a : Int)) else (ag, g) := Connector.stepAgent_eq h ag a ha

example : legal 3 ⟨[[2, 0, 3], [0, 0, 0], [5, 0, 6]], 0, [⟨0, (0, 0), (0, 2), (0, 0)⟩, ⟨1, (2, 0), (2, 2), (2, 0)⟩]⟩ 0 2 ∧
    ¬ legal 3 ⟨[[2, 0, 3], [0, 0, 0], [5, 0, 6]], 0, [⟨0, (0, 0), (0, 2), (0, 0)⟩, ⟨1, (2, 0), (2, 2), (2, 0)⟩]⟩ 0 1 := by
  decide
end Props.C04

namespace Props.C04
/-- REACTION OF THE JOINT STEP, agent by agent (consistent state, in-spec joint action): agent `i` with action `a`
ends on the cell it asked for, `movePosition position a`, if `a` is a move (`a ≠ 0`) that is legal by the rules AND
no agent with a higher index asks for the same cell with a legal move (`outranked`); in every other case its record
is exactly what it was (illegal move, no-op, or outranked: it stays) -/
theorem connector_step_reaction (cfg : Cfg) (s : State) (acts : List Int) (hc : Consistent cfg.n cfg.k s)
    (hk : 0 < cfg.k) (hlen : acts.length = cfg.k) (hspec : ∀ a ∈ acts, 0 ≤ a ∧ a ≤ 4) {i : Nat} {ag : Agent} {a : Int}
    (hag : s.agents[i]? = some ag) (ha : acts[i]? = some a) :
    ((a ≠ 0 ∧ legalInt cfg.n s i a = true ∧ ¬ Connector.outranked cfg.n s acts i (movePosition ag.position a)) →
      (step cfg s acts).1.agents[i]? = some { ag with position := movePosition ag.position a }) ∧
    (¬ (a ≠ 0 ∧ legalInt cfg.n s i a = true ∧ ¬ Connector.outranked cfg.n s acts i (movePosition ag.position a)) →
      (step cfg s acts).1.agents[i]? = some ag) :=
  Connector.step_reaction cfg s acts hc hk hlen hspec hag ha

/-- … as an equivalence: an agent asking for a move ends on the requested cell iff the move is legal and it is not
outranked -/
theorem connector_step_reaction_iff (cfg : Cfg) (s : State) (acts : List Int) (hc : Consistent cfg.n cfg.k s)
    (hk : 0 < cfg.k) (hlen : acts.length = cfg.k) (hspec : ∀ a ∈ acts, 0 ≤ a ∧ a ≤ 4) {i : Nat} {ag : Agent} {a : Int}
    (hag : s.agents[i]? = some ag) (ha : acts[i]? = some a) (hne : a ≠ 0) :
    (step cfg s acts).1.agents[i]? = some { ag with position := movePosition ag.position a } ↔
      (legalInt cfg.n s i a = true ∧ ¬ Connector.outranked cfg.n s acts i (movePosition ag.position a)) :=
  Connector.step_reaction_iff cfg s acts hc hk hlen hspec hag ha hne

/-- what `outranked` says -/
theorem connector_outranked_iff (n : Nat) (s : State) (acts : List Int) (i : Nat) (p : Pos) :
    Connector.outranked n s acts i p ↔
      ∃ (j : Nat) (agj : Agent) (aj : Int), i < j ∧ s.agents[j]? = some agj ∧ acts[j]? = some aj ∧ aj ≠ 0 ∧
        legalInt n s j aj = true ∧ movePosition agj.position aj = p := Iff.rfl

/-- the three-way contest for (1,1) (consistent, see C09): all three moves are legal, agent 2 gets the cell, agents
0 and 1 are outranked and stay -/
example :
    let s : State := ⟨[[0, 2, 0, 0], [5, 0, 8, 0], [0, 0, 0, 0], [3, 6, 9, 0]], 0,
      [⟨0, (0, 1), (3, 0), (0, 1)⟩, ⟨1, (1, 0), (3, 1), (1, 0)⟩, ⟨2, (1, 2), (3, 2), (1, 2)⟩]⟩
    legalInt 4 s 0 3 = true ∧ legalInt 4 s 1 2 = true ∧ legalInt 4 s 2 4 = true ∧
    ((step ⟨4, 3, 50, 1, -3/100⟩ s [3, 2, 4]).1.agents.map (·.position)) = [(0, 1), (1, 0), (1, 1)] := by decide
end Props.C04

namespace Props.C05
/-- an illegal move is ignored: the whole step (successor state, reward, discount, step type, observation) is
the step in which every offending agent plays the no-op instead — nothing is moved or marked on its behalf
and the other agents are not affected -/
theorem connector_illegal_ignored (cfg : Cfg) (s : State) (h : Grid.shaped s.grid cfg.n cfg.n = true)
    (acts : List Int) (hspec : ∀ a ∈ acts, 0 ≤ a ∧ a ≤ 4) :
    step cfg s acts = step cfg s (sanitize cfg.n s acts) := Connector.step_sanitize cfg s h acts hspec

/-- only the offending agent is frozen: its record (id, start, target, position) is unchanged -/
theorem connector_illegal_frozen (cfg : Cfg) (s : State) (h : Grid.shaped s.grid cfg.n cfg.n = true)
    (acts : List Int) {i : Nat} {ag : Agent} {a : Int} (hi : i < cfg.k) (hag : s.agents[i]? = some ag)
    (ha : acts[i]? = some a) (h0 : 0 ≤ a) (h4 : a ≤ 4) (hl : legalInt cfg.n s i a = false) :
    (step cfg s acts).1.agents[i]? = some ag := Connector.illegal_frozen cfg s h acts hi hag ha h0 h4 hl
end Props.C05

namespace Props.C06
/-- the executable feasibility test used by the driver is sound: if it accepts, the agent's path cells really
are a route (chain of 4-adjacent, pairwise different cells inside the grid, all inner cells holding the agent's
path value, using every path cell) from its start to its head -/
theorem connector_route_sound (n : Nat) (g : Grid Int) (ag : Agent) (h : agentRouteB n g ag = true) :
    (ag.start = ag.position ∧ countVal g (pathVal ag.id) = 0) ∨
    ∃ r, isRoute n g (pathVal ag.id) ag.start ag.position (countVal g (pathVal ag.id) - 1) r = true :=
  Connector.agentRoute_sound n g ag h

example : feasibleB 3 2 ⟨[[1, 1, 3], [0, 2, 0], [5, 0, 6]], 2,
    [⟨0, (0, 0), (0, 2), (1, 1)⟩, ⟨1, (2, 0), (2, 2), (2, 0)⟩]⟩ = true := by decide
end Props.C06

namespace Props.C07
/-- whatever the joint action, an agent either stays exactly as it is or makes the move it asked for — only
its position changes, by one cell, and only if the environment's own test accepted the destination
(inside the grid, empty or own target, agent not connected) -/
theorem connector_stay_or_move (cfg : Cfg) (s : State) (acts : List Int) {i : Nat} {ag : Agent} {a : Int}
    (hi : i < cfg.k) (hag : s.agents[i]? = some ag) (ha : acts[i]? = some a) :
    (step cfg s acts).1.agents[i]? = some ag ∨
    ((step cfg s acts).1.agents[i]? = some { ag with position := movePosition ag.position a } ∧
      isValidPosition s.grid ag (movePosition ag.position a) = true ∧ a ≠ 0) :=
  Connector.stay_or_move cfg s acts hi hag ha
end Props.C07

namespace Props.C08
/-- the reward of a step is the documented dense reward, per agent: `connected_reward` if it connects in this
step plus `timestep_reward` if it started the step unconnected -/
theorem connector_step_reward (cfg : Cfg) (s : State) (acts : List Int) :
    (step cfg s acts).2.reward = List.zipWith (rewardL2 cfg) s.agents (step cfg s acts).1.agents :=
  Connector.step_reward cfg s acts

/-- "connected" is monotone: a connected agent never moves again -/
theorem connector_connected_frozen (cfg : Cfg) (s : State) (acts : List Int) {i : Nat} {ag : Agent} {a : Int}
    (hi : i < cfg.k) (hag : s.agents[i]? = some ag) (ha : acts[i]? = some a) (hc : isConnected ag) :
    (step cfg s acts).1.agents[i]? = some ag := Connector.connected_frozen cfg s acts hi hag ha hc

end Props.C08

namespace Props.C09
/-- refinement, per agent: the tentative step of one agent (`_step_agent`, scatter with JAX index semantics) is
the rule-level single move: a legal move puts the head on the destination and turns the old head cell into
path, anything else changes nothing -/
theorem connector_step_agent_eq_rules (n : Nat) (g : Grid Int) (h : Grid.shaped g n n = true) (ag : Agent)
    (a : Nat) (ha : a < 5) (hp : inGrid n ag.position) :
    stepAgent g ag (a : Int) =
      match proposal n g ag (a : Int) with
      | none => (ag, g)
      | some p => (moved ag (some p), setCell (setCell g p (posVal ag.id)) ag.position (pathVal ag.id)) :=
  Connector.stepAgent_eq_rules h ag a ha hp

/-- the collision rule of the reference model: lower id yields … -/
theorem connector_lower_id_yields (props : List (Option Pos)) {i j : Nat} {p : Pos} (hij : i < j)
    (hj : props[j]? = some (some p)) (hi : props[i]? = some (some p)) : wins props i = none :=
  Connector.wins_yields props hij hj hi

/-- … and the highest id asking for a cell gets it -/
theorem connector_highest_id_wins (props : List (Option Pos)) {i : Nat} {p : Pos}
    (hi : props[i]? = some (some p)) (hno : ∀ j, i < j → props[j]? ≠ some (some p)) : wins props i = some p :=
  Connector.wins_highest props hi hno

/-- a three-way contest for the cell (1,1): L1 (max-join + correction mask) and the rules agree, agent 2 wins -/
example :
    let s : State := ⟨[[0, 2, 0, 0], [5, 0, 8, 0], [0, 0, 0, 0], [3, 6, 9, 0]], 0,
      [⟨0, (0, 1), (3, 0), (0, 1)⟩, ⟨1, (1, 0), (3, 1), (1, 0)⟩, ⟨2, (1, 2), (3, 2), (1, 2)⟩]⟩
    stepAgents 3 s [3, 2, 4] = stepAgentsL2 4 s [3, 2, 4] ∧
    (stepAgents 3 s [3, 2, 4]).2 = [[0, 2, 0, 0], [5, 8, 7, 0], [0, 0, 0, 0], [3, 6, 9, 0]] := by decide
end Props.C09

namespace Props.C11
theorem connector_step_count (cfg : Cfg) (s : State) (acts : List Int) :
    (step cfg s acts).1.stepCount = s.stepCount + 1 := Connector.step_count cfg s acts

/-- a step is LAST exactly when every agent is connected or blocked in the successor state, or the step count
reaches the time limit -/
theorem connector_last_iff (cfg : Cfg) (s : State) (acts : List Int) :
    (step cfg s acts).2.stepType = .last ↔
      ((List.zipWith connectedOrBlocked (step cfg s acts).1.agents
          (actionMask (step cfg s acts).1.grid (step cfg s acts).1.agents)).all id = true ∨
       cfg.timeLimit ≤ (step cfg s acts).1.stepCount) := Connector.last_iff cfg s acts

/-- the discount vector: all zero on LAST; on MID per agent, 0 for a connected or blocked agent, else 1 -/
theorem connector_discount (cfg : Cfg) (s : State) (acts : List Int) :
    (step cfg s acts).2.discount =
      if (step cfg s acts).2.stepType = .last then List.replicate cfg.k 0
      else (List.zipWith connectedOrBlocked (step cfg s acts).1.agents
          (actionMask (step cfg s acts).1.grid (step cfg s acts).1.agents)).map (fun d => 1 - b2r d) :=
  Connector.discount_eq cfg s acts
end Props.C11

namespace Props.C12
/-- the observation returned by `step` is the observation function of the successor state -/
theorem connector_obs_faithful (cfg : Cfg) (s : State) (acts : List Int) :
    (step cfg s acts).2.obs = observeL1 (step cfg s acts).1 := Connector.obs_faithful cfg s acts

/-- … and that function is the documented one: the grid, per agent the legality of the five actions, the
step count -/
theorem connector_observe_documented (n : Nat) (s : State) (h : Grid.shaped s.grid n n = true) :
    observeL1 s = observe n s := Connector.observeL1_eq_observe s h
end Props.C12

namespace Props.C01
/-- reset: on a consistent fresh board (`Consistent n k s`: every cell value in `0..3k`, …; step count 0) the
observation handed out by `reset` has every leaf inside the interval `obsBounds cfg` lists for it:
`grid ∈ [0, 3k]` (`3k` = target value of the last agent), `action_mask ∈ [0, 1]`, `step_count ∈ [0, time_limit]`
(all inside the declared spec, whose grid maximum is `3k+2`) -/
theorem connector_reset_obs_in_bounds (cfg : Cfg) (s : State) (hc : Consistent cfg.n cfg.k s)
    (hs : s.stepCount = 0) (hT : 0 ≤ cfg.timeLimit) :
    ObsInBounds (obsBounds cfg) (resetTs cfg s).obs := Connector.reset_obs_in_bounds cfg s hc hs hT

/-- step: for EVERY state (no invariant on grid or agents is needed) whose step count lies in `[0, time_limit)`
— the episode has not reached the limit; the terminal step that makes `step_count = time_limit` is included —
and for every joint action, every leaf of the observation is inside its interval of `obsBounds cfg` -/
theorem connector_step_obs_in_bounds (cfg : Cfg) (s : State) (acts : List Int) (h0 : 0 ≤ s.stepCount)
    (hT : s.stepCount < cfg.timeLimit) :
    ObsInBounds (obsBounds cfg) (step cfg s acts).2.obs := Connector.step_obs_in_bounds cfg s acts h0 hT

/-- the bounds list covers every leaf of the observation (the two theorems above are not vacuous) -/
theorem connector_obs_bounds_cover (cfg : Cfg) (o : Obs) :
    (obsLeaves o).map (·.1) = (obsBounds cfg).map (·.1) := Connector.obsBounds_cover cfg o

/-- the grid bound is attained (`6 = 3k` on the board below); the step-count bound is attained on the terminal step: with `time_limit = 1` the first step emits
`step_count = 1 = time_limit` -/
example : (step ⟨3, 2, 1, 1, -3/100⟩ ⟨[[2, 0, 3], [0, 0, 0], [5, 0, 6]], 0,
    [⟨0, (0, 0), (0, 2), (0, 0)⟩, ⟨1, (2, 0), (2, 2), (2, 0)⟩]⟩ [2, 0]).2.obs.stepCount = 1 := by decide
example : Consistent 3 2 ⟨[[2, 0, 3], [0, 0, 0], [5, 0, 6]], 0,
    [⟨0, (0, 0), (0, 2), (0, 0)⟩, ⟨1, (2, 0), (2, 2), (2, 0)⟩]⟩ := by decide
/-! NOTE on what the membership theorems of this section do and do not cover (audits r4 #6, r5 #6, r6 #8): the dtype tag of every leaf
is written by `toNValue` (by construction) — a wrong dtype in the real code cannot falsify `….valid (toNValue …) = true`; dtypes and
field order of the real observations are compared by the `connector.spec` / `connector.state` ops (`nvalue`: field order, shape, dtype, data) and
`jax.eval_shape` in the sweeps.  Shapes are READ OFF the value by `toNValue` (widths off the first row): see `…_obs_valid_only`. -/

/-! #### (wave 4) membership in the DECLARED specs: structure, shapes, dtypes and bounds -/
open Sp PzS PkS MaS

/-- the model's `obsSpec` / `actionSpec` / `rewardSpec` / `discountSpec` ARE the specs generated from the real spec objects
(Gen/Specs.lean) for the two catalogue configurations `Connector(RandomWalkGenerator(6, 3), time_limit=9)` and
`Connector(UniformRandomGenerator(5, 2), time_limit=5)`: fields `grid`, `action_mask`, `step_count`; shapes `(n, n)`, `(k, 5)`,
`()`; dtypes int32, bool, int32; bounds `[0, 3k + 1]`, `[0, 1]`, `[0, time_limit]`
SPEC-ONLY third configuration `Connector(RandomWalkGenerator(9, 2), time_limit=11)`: grid size 9, `n − 1 = 8`, cell maximum `3k + 1 = 7`,
5 actions, limit 11 pairwise distinct (audit r6 #7) -/
theorem connector_obsSpec_generated :
    prefixed "observation_spec." (obsSpec ⟨6, 3, 9, 1, -3/100⟩) = declared "connector-6x3" "observation_spec." ∧
    prefixed "observation_spec." (obsSpec ⟨5, 2, 5, 1, -3/100⟩) = declared "connector-uniform" "observation_spec." ∧
    [("action_spec", actionSpec ⟨6, 3, 9, 1, -3/100⟩)] = declared "connector-6x3" "action_spec" ∧
    [("action_spec", actionSpec ⟨5, 2, 5, 1, -3/100⟩)] = declared "connector-uniform" "action_spec" ∧
    [("reward_spec", rewardSpec ⟨6, 3, 9, 1, -3/100⟩)] = declared "connector-6x3" "reward_spec" ∧
    [("reward_spec", rewardSpec ⟨5, 2, 5, 1, -3/100⟩)] = declared "connector-uniform" "reward_spec" ∧
    [("discount_spec", discountSpec ⟨6, 3, 9, 1, -3/100⟩)] = declared "connector-6x3" "discount_spec" ∧
    [("discount_spec", discountSpec ⟨5, 2, 5, 1, -3/100⟩)] = declared "connector-uniform" "discount_spec" ∧
    prefixed "observation_spec." (obsSpec ⟨9, 2, 11, 1, -3/100⟩) = declared "spec-only-connector-9x2" "observation_spec." ∧
    [("action_spec", actionSpec ⟨9, 2, 11, 1, -3/100⟩)] = declared "spec-only-connector-9x2" "action_spec" ∧
    [("reward_spec", rewardSpec ⟨9, 2, 11, 1, -3/100⟩)] = declared "spec-only-connector-9x2" "reward_spec" ∧
    [("discount_spec", discountSpec ⟨9, 2, 11, 1, -3/100⟩)] = declared "spec-only-connector-9x2" "discount_spec" := by
  refine ⟨by decide +kernel, by decide +kernel, by decide +kernel, by decide +kernel, by decide +kernel, by decide +kernel,
    by decide +kernel, by decide +kernel, by decide +kernel, by decide +kernel, by decide +kernel, by decide +kernel⟩

/-- the invariant behind the membership theorems (grid `n × n`, cells in `0 … 3k`, `k` agents, counter ≥ 0) is established by
BOTH generators for EVERY draw — no hypothesis on the drawn cells, so also for a boxed-in random walk (known finding CN1),
whose board is not fresh — and preserved by EVERY step: any joint action with one entry per agent, whatever the entries (in
the action space or not, legal or not), MID or LAST.  Every `Consistent` state satisfies it. -/
theorem connector_specInv_invariant (cfg : Cfg) (hk : 0 < cfg.k) :
    (∀ cells, SpecInv cfg (uniformGenerate cfg.n cfg.k cells)) ∧
    (∀ init tape, SpecInv cfg (walkGenerate cfg.n cfg.k init tape).2) ∧
    (∀ s, Consistent cfg.n cfg.k s → SpecInv cfg s) ∧
    (∀ (s : State) (acts : List Int), SpecInv cfg s → acts.length = cfg.k → SpecInv cfg (step cfg s acts).1) :=
  ⟨Connector.uniform_specInv cfg, Connector.walk_specInv cfg, Connector.specInv_of_consistent cfg,
   fun s acts h ha => Connector.step_specInv cfg hk s h acts ha⟩

/-- the `reset` observation is accepted by `observation_spec.validate` for EVERY draw of either generator (all sizes `n ≥ 1`,
`k ≥ 1`, `time_limit ≥ 0`).  NOTE (audit r6 #2): `0 ≤ time_limit` suffices for the RESET observation only; the step theorems
below need `step_count < time_limit`, i.e. `0 < time_limit`.  `Connector.__init__` accepts `time_limit = 0`, and there the
first step's observation is NOT a member: `connector_time_limit_zero_witness`, `connector_time_limit_zero_step_obs_not_valid`.
The dtype tag of every leaf is written by `toNValue` (by construction); dtypes and field order of the real observations are
compared by the `connector.spec` / `state` ops and `jax.eval_shape` in the sweeps. -/
theorem connector_reset_obs_valid (cfg : Cfg) (hn : 0 < cfg.n) (hk : 0 < cfg.k) (hT : 0 ≤ cfg.timeLimit) :
    (∀ cells, (obsSpec cfg).valid (toNValue (resetTs cfg (uniformGenerate cfg.n cfg.k cells)).obs) = true) ∧
    (∀ init tape, (obsSpec cfg).valid (toNValue (resetTs cfg (walkGenerate cfg.n cfg.k init tape).2).obs) = true) :=
  ⟨fun cells => Connector.reset_obs_valid cfg hn hk hT _ (Connector.uniform_specInv cfg cells) rfl,
   fun init tape => Connector.reset_obs_valid cfg hn hk hT _ (Connector.walk_specInv cfg init tape) rfl⟩

/-- … and on any state satisfying the invariant with counter 0 -/
theorem connector_reset_obs_valid_of_inv (cfg : Cfg) (hn : 0 < cfg.n) (hk : 0 < cfg.k) (hT : 0 ≤ cfg.timeLimit) (s : State)
    (h : SpecInv cfg s) (h0 : s.stepCount = 0) : (obsSpec cfg).valid (toNValue (resetTs cfg s).obs) = true :=
  Connector.reset_obs_valid cfg hn hk hT s h h0

/-- the observation of EVERY `step` — any joint action with one entry per agent (legal or not, in the action space or not),
MID or LAST — from every state with the invariant whose counter has not reached the limit -/
theorem connector_step_obs_valid (cfg : Cfg) (hn : 0 < cfg.n) (hk : 0 < cfg.k) (s : State) (h : SpecInv cfg s)
    (hlim : s.stepCount < cfg.timeLimit) (acts : List Int) (ha : acts.length = cfg.k) :
    (obsSpec cfg).valid (toNValue (step cfg s acts).2.obs) = true :=
  Connector.step_obs_valid cfg hn hk s h hlim acts ha

example : SpecInv ⟨3, 2, 6, 1, -3/100⟩ ⟨[[2, 0, 3], [0, 0, 0], [5, 0, 6]], 0,
    [⟨0, (0, 0), (0, 2), (0, 0)⟩, ⟨1, (2, 0), (2, 2), (2, 0)⟩]⟩ := by decide

/-- WHOLE EPISODES: along the rollout (`Ep.rollout` = the L1 step iterated) of ANY joint actions from the reset state of ANY
draw of either generator (more generally: any state with the invariant and counter 0), every observation emitted by one of the
first `time_limit` steps is a member of the spec; the episode is over by then (`Props.C11.connector_rollout_ends_by_limit`
in Props/EpisodeInstances.lean: there is a first LAST timestep at or before step `time_limit`; the composed statement —
reset observation, then every observation up to and including the first LAST — is `Props.C01.connector_episode_obs_valid`
in the same file), so this covers every observation of every episode up to and including the terminal one -/
theorem connector_rollout_obs_valid (cfg : Cfg) (hn : 0 < cfg.n) (hk : 0 < cfg.k) (s0 : State) (h : SpecInv cfg s0)
    (h0 : s0.stepCount = 0) (as : List (List Int)) (has : ∀ a ∈ as, a.length = cfg.k) (j : Nat)
    (hj : (j : Int) < cfg.timeLimit) (e : State × TimeStep Obs) (he : (Ep.rollout (step cfg) s0 as)[j]? = some e) :
    (obsSpec cfg).valid (toNValue e.2.obs) = true :=
  Connector.rollout_obs_valid cfg hn hk s0 h h0 as has j hj e he

theorem connector_obs_valid_along (cfg : Cfg) (hn : 0 < cfg.n) (hk : 0 < cfg.k) (init : List (Int × Int))
    (tape : List (List Int)) (cells : List Nat) (as : List (List Int)) (has : ∀ a ∈ as, a.length = cfg.k) (j : Nat)
    (hj : (j : Int) < cfg.timeLimit) (e : State × TimeStep Obs) :
    ((Ep.rollout (step cfg) (walkGenerate cfg.n cfg.k init tape).2 as)[j]? = some e →
      (obsSpec cfg).valid (toNValue e.2.obs) = true) ∧
    ((Ep.rollout (step cfg) (uniformGenerate cfg.n cfg.k cells) as)[j]? = some e →
      (obsSpec cfg).valid (toNValue e.2.obs) = true) :=
  ⟨Connector.rollout_obs_valid cfg hn hk _ (Connector.walk_specInv cfg init tape) rfl as has j hj e,
   Connector.rollout_obs_valid cfg hn hk _ (Connector.uniform_specInv cfg cells) rfl as has j hj e⟩

/-- what membership means (so the theorems above are not hollow): `validate` accepts an observation ONLY IF the grid is
`(n, n)` with `n²` cells in `0 … 3k + 1`, the mask `(k, 5)` and the counter in `[0, time_limit]`.  CAVEAT (audit r6 #5):
`shape2` reads the width off the FIRST row, so `(n, n)` here means "n rows, first row of length n, n² cells in total" — a ragged
value with the right total is a member.  Rectangularity (`Rect2 grid n n`, `Rect2 mask k 5`) is part of `SpecInv` / proved of
every emitted observation: `connector_step_obs_rect` below. -/
theorem connector_obs_valid_only (cfg : Cfg) (o : Obs) (h : (obsSpec cfg).valid (toNValue o) = true) :
    shape2 o.grid = [cfg.n, cfg.n] ∧ (List.flatten o.grid).length = cfg.n * cfg.n ∧
    (∀ v ∈ List.flatten o.grid, 0 ≤ v ∧ v ≤ 3 * (cfg.k : Int) + 1) ∧
    shape2 o.actionMask = [cfg.k, 5] ∧ o.actionMask.flatten.length = cfg.k * 5 ∧
    0 ≤ o.stepCount ∧ o.stepCount ≤ cfg.timeLimit := Connector.obs_valid_only cfg o h

/-- the rectangular facts `valid ∘ toNValue` does not imply (audit r6 #5), for every step observation: the grid is `n × n`
(every row of length `n`), cells in `0 … 3k + 1`, the mask `k × 5`, the counter in `[0, time_limit]` -/
theorem connector_step_obs_rect (cfg : Cfg) (hk : 0 < cfg.k) (s : State) (h : SpecInv cfg s)
    (hlim : s.stepCount < cfg.timeLimit) (acts : List Int) (ha : acts.length = cfg.k) :
    Rect2 (step cfg s acts).2.obs.grid cfg.n cfg.n ∧
    (∀ r ∈ (step cfg s acts).2.obs.grid, ∀ v ∈ r, 0 ≤ v ∧ v ≤ 3 * (cfg.k : Int) + 1) ∧
    Rect2 (step cfg s acts).2.obs.actionMask cfg.k 5 ∧
    0 ≤ (step cfg s acts).2.obs.stepCount ∧ (step cfg s acts).2.obs.stepCount ≤ cfg.timeLimit := by
  rw [Connector.obs_faithful]
  exact Connector.observeL1_ok cfg _ (Connector.step_specInv cfg hk s h acts ha)
    (by rw [Connector.step_count]; omega)

/-- positive: the reset observation of a board; negative: a counter beyond the limit, a cell value `3k + 2`, the observation of
a board of another size, a mask with a missing row -/
example :
    let cfg : Cfg := ⟨3, 2, 6, 1, -3/100⟩
    let s : State := ⟨[[2, 0, 3], [0, 0, 0], [5, 0, 6]], 0, [⟨0, (0, 0), (0, 2), (0, 0)⟩, ⟨1, (2, 0), (2, 2), (2, 0)⟩]⟩
    (obsSpec cfg).valid (toNValue (resetTs cfg s).obs) = true ∧
    (obsSpec cfg).valid (toNValue { (resetTs cfg s).obs with stepCount := 7 }) = false ∧
    (obsSpec cfg).valid (toNValue { (resetTs cfg s).obs with grid := [[2, 0, 3], [0, 8, 0], [5, 0, 6]] }) = false ∧
    (obsSpec ⟨4, 2, 6, 1, -3/100⟩).valid (toNValue (resetTs cfg s).obs) = false ∧
    (obsSpec cfg).valid (toNValue { (resetTs cfg s).obs with actionMask := [[true, true, true, true, true]] }) = false := by
  decide +kernel

/-! #### audit r6 #2: `time_limit = 0` is accepted by the constructor and is a real C01 violation -/

/-- WITNESS: `Connector(time_limit=0)` (model: 3×3 board, 2 agents): the reset observation is a member of the declared spec, the
first step (all no-ops) is LAST and its observation (`step_count = 1`, declared bounds `[0, 0]`) is NOT a member.  Real code:
`validate` raises "Values were not all within bounds 0 <= 1 <= 0 for spec step_count" (reproduction in the report). -/
theorem connector_time_limit_zero_witness :
    let cfg : Cfg := ⟨3, 2, 0, 1, -3/100⟩
    let s : State := uniformGenerate 3 2 [0, 6, 2, 8]
    (obsSpec cfg).valid (toNValue (resetTs cfg s).obs) = true ∧
    (step cfg s [0, 0]).2.stepType = .last ∧
    (obsSpec cfg).valid (toNValue (step cfg s [0, 0]).2.obs) = false := by decide +kernel

/-- … for ALL sizes, ALL states with a non-negative counter (every reset state) and ANY joint action: with `time_limit ≤ 0`
the observation of the step is rejected by the declared spec — `0 < time_limit` in the step theorems is necessary -/
theorem connector_time_limit_zero_step_obs_not_valid (cfg : Cfg) (h0 : cfg.timeLimit ≤ 0) (s : State)
    (hs : 0 ≤ s.stepCount) (acts : List Int) :
    (obsSpec cfg).valid (toNValue (step cfg s acts).2.obs) = false :=
  Connector.time_limit_zero_step_obs_not_valid cfg h0 s hs acts

/-- reward and discount of EVERY step from a state with `k` agents (any joint action of length `k`) and of `reset` are accepted
by `reward_spec` (Array((k,), float)) and `discount_spec` (BoundedArray((k,), float, 0, 1)) -/
theorem connector_reward_discount_valid (cfg : Cfg) (s : State) (hl : s.agents.length = cfg.k) (acts : List Int)
    (ha : acts.length = cfg.k) (s0 : State) :
    (rewardSpec cfg).valid (vecArr (step cfg s acts).2.reward) = true ∧
    (discountSpec cfg).valid (vecArr (step cfg s acts).2.discount) = true ∧
    (rewardSpec cfg).valid (vecArr (resetTs cfg s0).reward) = true ∧
    (discountSpec cfg).valid (vecArr (resetTs cfg s0).discount) = true :=
  ⟨(Connector.step_reward_discount_valid cfg s hl acts ha).1, (Connector.step_reward_discount_valid cfg s hl acts ha).2,
   (Connector.reset_reward_discount_valid cfg s0).1, (Connector.reset_reward_discount_valid cfg s0).2⟩

/-- `action_spec.generate_value()` = the all-no-op joint action: the action spec is well-formed, the generated value is a
member, and `step` answers it from every state with the invariant (counter below the limit) with a non-FIRST timestep whose
observation, reward and discount are members of their specs -/
theorem connector_accepts_generate_value (cfg : Cfg) (hn : 0 < cfg.n) (hk : 0 < cfg.k) (s : State) (h : SpecInv cfg s)
    (hlim : s.stepCount < cfg.timeLimit) :
    (actionSpec cfg).WF = true ∧ (actionSpec cfg).valid (actionSpec cfg).generate = true ∧
    (actionSpec cfg).generate = actionArr (List.replicate cfg.k 0) ∧
    (obsSpec cfg).valid (toNValue (step cfg s (List.replicate cfg.k 0)).2.obs) = true ∧
    (rewardSpec cfg).valid (vecArr (step cfg s (List.replicate cfg.k 0)).2.reward) = true ∧
    (discountSpec cfg).valid (vecArr (step cfg s (List.replicate cfg.k 0)).2.discount) = true ∧
    (step cfg s (List.replicate cfg.k 0)).2.stepType ≠ .first :=
  Connector.accepts_generate_value cfg hn hk s h hlim

/-- membership in `action_spec` is "one entry per agent, each one of 0 … 4" -/
theorem connector_action_spec_iff (cfg : Cfg) (as : List Int) :
    (actionSpec cfg).valid (actionArr as) = true ↔ as.length = cfg.k ∧ ∀ a ∈ as, 0 ≤ a ∧ a < 5 :=
  actionSpecN_valid_iff cfg.k 5 as
end Props.C01

/-! ## Theorems from `Consistent` (proof completion) -/

namespace Props.C09
/-- FULL REFINEMENT, agents and grid: on a consistent state (grid `n × n`, `k > 0` agents numbered `0..k-1`, each
with exactly one head cell at `agents.position`, …) and an in-spec joint action (one action `0..4` per agent) the
simultaneous step of the implementation — every agent steps on its own copy of the grid, the copies are joined
with `max`, agents whose head disappeared are reset by the correction mask — equals the rule-level step: every
agent proposes the cell of a legal move, the highest id asking for a cell gets it, the winners' moves are applied
one after the other -/
theorem connector_step_agents_eq_rules (n k : Nat) (s : State) (acts : List Int) (hc : Consistent n k s)
    (hk : 0 < k) (hlen : acts.length = k) (hspec : ∀ a ∈ acts, 0 ≤ a ∧ a ≤ 4) :
    stepAgents k s acts = stepAgentsL2 n s acts :=
  Connector.stepAgents_eq_L2 ⟨(Connector.consistent_iff n k s).1 hc, hk, hlen, hspec⟩

/-- FULL REFINEMENT, the whole step: successor state, reward, discount, step type and observation of `step`
(L1, the transliteration) are those of `stepL2` (the rules) -/
theorem connector_step_eq_rules (cfg : Cfg) (s : State) (acts : List Int) (hc : Consistent cfg.n cfg.k s)
    (hk : 0 < cfg.k) (hlen : acts.length = cfg.k) (hspec : ∀ a ∈ acts, 0 ≤ a ∧ a ≤ 4) :
    step cfg s acts = stepL2 cfg s acts := Connector.step_eq_stepL2 cfg s acts hc hk hlen hspec

/-- FULL REFINEMENT, whole episodes: the states an episode of the implementation model passes through (`traceL1`,
the iterated `step`) are the states the rules produce (`traceL2`, the iterated `stepL2`), for every episode of
in-spec joint actions from a consistent state -/
theorem connector_trace_eq (cfg : Cfg) (hk : 0 < cfg.k) (actss : List (List Int))
    (hspec : ∀ acts ∈ actss, acts.length = cfg.k ∧ ∀ a ∈ acts, 0 ≤ a ∧ a ≤ 4) (s0 : State)
    (hc : Consistent cfg.n cfg.k s0) : traceL1 cfg s0 actss = traceL2 cfg s0 actss :=
  Connector.trace_eq cfg hk actss hspec s0 hc

/-- the hypotheses are satisfiable (the three-way contest above) … -/
example : Consistent 4 3 ⟨[[0, 2, 0, 0], [5, 0, 8, 0], [0, 0, 0, 0], [3, 6, 9, 0]], 0,
    [⟨0, (0, 1), (3, 0), (0, 1)⟩, ⟨1, (1, 0), (3, 1), (1, 0)⟩, ⟨2, (1, 2), (3, 2), (1, 2)⟩]⟩ := by decide

/-- … and `0 < k` is needed: with no agents `jnp.max` over an empty stack has no `n × n` result in the model
(`joinGrids [] = []`) while the rules leave the grid alone (the driver rejects `num_agents = 0`) -/
example : Consistent 1 0 ⟨[[0]], 0, []⟩ ∧ stepAgents 0 ⟨[[0]], 0, []⟩ [] ≠ stepAgentsL2 1 ⟨[[0]], 0, []⟩ [] := by
  decide
end Props.C09

namespace Props.C07
/-- what `Consistent` (the Boolean recomputed from the raw arrays by the driver) says, cell by cell: the grid is
`n × n`, there are `k` agents, agent number `i` has id `i`, its position / target / start lie inside the grid, its
head value `2+3i` is at `agents.position` and nowhere else, its target value `3+3i` is at `agents.target` and
nowhere else unless it is connected (then nowhere), its path value `1+3i` occurs nowhere while it has not moved
and is at its start cell otherwise; every cell holds a value in `0..3k`; the step count is not negative.  Since
each cell holds one value, cells of different agents are disjoint. -/
theorem connector_consistent_iff (n k : Nat) (s : State) : Consistent n k s ↔ Connector.Cons n k s :=
  Connector.consistent_iff n k s

/-- ANY in-spec joint action — legal or not, LAST step or not — leads from a consistent state to a consistent
state (the hypothesis "the step is not LAST" of the plan is not needed) -/
theorem connector_step_consistent (cfg : Cfg) (s : State) (acts : List Int) (hc : Consistent cfg.n cfg.k s)
    (hk : 0 < cfg.k) (hlen : acts.length = cfg.k) (hspec : ∀ a ∈ acts, 0 ≤ a ∧ a ≤ 4) :
    Consistent cfg.n cfg.k (step cfg s acts).1 := Connector.step_consistent cfg s acts hc hk hlen hspec

/-- C07 occupancy conservation: ANY in-spec joint action from a consistent state satisfies the occupancy bookkeeping
the driver evaluates on every implementation transition (`conservedB`): no occupied cell is freed or changes owner,
every agent keeps its identity and stays or moves to a 4-neighbour, and the number of occupied cells grows by
exactly one for every agent that moved onto an empty cell -/
theorem connector_step_conserved (cfg : Cfg) (s : State) (acts : List Int) (hc : Consistent cfg.n cfg.k s)
    (hk : 0 < cfg.k) (hlen : acts.length = cfg.k) (hspec : ∀ a ∈ acts, 0 ≤ a ∧ a ≤ 4) :
    conservedB s (step cfg s acts).1 = true := Connector.step_conserved cfg s acts hc hk hlen hspec

/-- reset, `UniformRandomGenerator`: for EVERY possible draw of `choice(replace=False)` (2k pairwise different cells
`< n²`) the generated state is consistent -/
theorem connector_uniform_reset_consistent (n k : Nat) (cells : List Nat) (h : validUniformDraw n k cells = true) :
    Consistent n k (uniformGenerate n k cells) :=
  Connector.fresh_consistent n k _ (Connector.uniform_reset_fresh n k cells h)

example : validUniformDraw 3 2 [0, 6, 2, 8] = true ∧
    uniformGenerate 3 2 [0, 6, 2, 8] = ⟨[[2, 0, 3], [0, 0, 0], [5, 0, 6]], 0,
      [⟨0, (0, 0), (0, 2), (0, 0)⟩, ⟨1, (2, 0), (2, 2), (2, 0)⟩]⟩ := by decide
end Props.C07

namespace Props.C06
/-- ANY in-spec joint action (in particular every mask-respecting one; an illegal move is a no-op by C05) leads
from a feasible state to a feasible state: the state stays consistent and every agent's path cells still form a
route from its start to its head that uses every path cell -/
theorem connector_step_feasible (cfg : Cfg) (s : State) (acts : List Int) (hf : Feasible cfg.n cfg.k s)
    (hk : 0 < cfg.k) (hlen : acts.length = cfg.k) (hspec : ∀ a ∈ acts, 0 ≤ a ∧ a ≤ 4) :
    Feasible cfg.n cfg.k (step cfg s acts).1 := Connector.step_feasible cfg s acts hf hk hlen hspec

/-- whole episodes: every state an episode of the implementation model passes through (`traceL1`, the iterated
`step`) from a feasible state under in-spec joint actions is feasible -/
theorem connector_feasible_along (cfg : Cfg) (hk : 0 < cfg.k) (actss : List (List Int))
    (hspec : ∀ acts ∈ actss, acts.length = cfg.k ∧ ∀ a ∈ acts, 0 ≤ a ∧ a ≤ 4) (s0 : State)
    (hf : Feasible cfg.n cfg.k s0) : ∀ s ∈ traceL1 cfg s0 actss, Feasible cfg.n cfg.k s :=
  Connector.feasible_along_L1 cfg hk actss hspec s0 hf

/-- reset, `UniformRandomGenerator`: for EVERY possible draw the generated state is feasible (no path cells yet) -/
theorem connector_uniform_reset_feasible (n k : Nat) (cells : List Nat) (h : validUniformDraw n k cells = true) :
    Feasible n k (uniformGenerate n k cells) :=
  Connector.fresh_feasible n k _ (Connector.uniform_reset_fresh n k cells h)

/-- what `Feasible` means: agent number `i` owns a chain of 4-adjacent, pairwise different cells inside the grid
from its start to its head, every cell of which holds a value of agent `i` … -/
theorem connector_feasible_routes (n k : Nat) (s : State) (hf : Feasible n k s) (i : Nat) (ag : Agent)
    (hag : s.agents[i]? = some ag) : ∃ r, Connector.GoodRoute n s.grid i ag.start ag.position r :=
  Connector.feasible_routes hf hag

/-- … and such chains of different agents never share a cell -/
theorem connector_routes_disjoint (n : Nat) (g : Grid Int) (i j : Nat) (hij : i ≠ j) (a b a' b' : Pos)
    (r r' : List Pos) (h : Connector.GoodRoute n g i a b r) (h' : Connector.GoodRoute n g j a' b' r') :
    ∀ c, c ∈ r → c ∉ r' := Connector.goodRoute_disjoint hij h h'

/-- completion: if a step from a feasible state is LAST before the time limit is reached and no unconnected agent
is blocked in the successor state (every unconnected agent still has a legal move), then the successor is a
complete solution: `solutionB` holds (feasible, every agent connected) and every agent owns a chain of its own
cells from its start to its target.  (LAST before the limit means every agent is connected or blocked,
`connector_last_iff`; a blocked unconnected agent ends the episode WITHOUT a solution — see the example.) -/
theorem connector_step_complete_is_solution (cfg : Cfg) (s : State) (acts : List Int)
    (hf : Feasible cfg.n cfg.k s) (hk : 0 < cfg.k) (hlen : acts.length = cfg.k)
    (hspec : ∀ a ∈ acts, 0 ≤ a ∧ a ≤ 4) (hlast : (step cfg s acts).2.stepType = .last)
    (hlim : (step cfg s acts).1.stepCount < cfg.timeLimit)
    (hnb : ∀ (i : Nat) ag, (step cfg s acts).1.agents[i]? = some ag → ¬ isConnected ag →
      ∃ a, 1 ≤ a ∧ a ≤ 4 ∧ legal cfg.n (step cfg s acts).1 i a) :
    solutionB cfg.n cfg.k (step cfg s acts).1 = true ∧
      ∀ (i : Nat) ag, (step cfg s acts).1.agents[i]? = some ag →
        ∃ r, Connector.GoodRoute cfg.n (step cfg s acts).1.grid i ag.start ag.target r :=
  Connector.step_complete_is_solution cfg s acts hf hk hlen hspec hlast hlim hnb

/-- the hypotheses are satisfiable: the last move of a 3 × 3 episode (agent 1 steps onto its target; agent 0 is
already connected) is LAST at step count 4 < 50 and nobody is blocked … -/
example :
    let cfg : Cfg := ⟨3, 2, 50, 1, -3/100⟩
    let s : State := ⟨[[1, 1, 2], [0, 0, 0], [4, 5, 6]], 3, [⟨0, (0, 0), (0, 2), (0, 2)⟩, ⟨1, (2, 0), (2, 2), (2, 1)⟩]⟩
    feasibleB 3 2 s = true ∧ (step cfg s [0, 2]).2.stepType = .last ∧ (step cfg s [0, 2]).1.stepCount < cfg.timeLimit ∧
    solutionB 3 2 (step cfg s [0, 2]).1 = true := by decide

/-- … and the hypothesis "no blocked unconnected agent" is needed: agent 1 connects by walling agent 0 in; the step
is LAST before the limit (agent 0 blocked, agent 1 connected) and the final state is not a solution -/
example :
    let cfg : Cfg := ⟨3, 2, 50, 1, -3/100⟩
    let s : State := ⟨[[2, 4, 0], [5, 4, 0], [6, 0, 3]], 2, [⟨0, (0, 0), (2, 2), (0, 0)⟩, ⟨1, (0, 1), (2, 0), (1, 0)⟩]⟩
    feasibleB 3 2 s = true ∧ (step cfg s [0, 3]).2.stepType = .last ∧ (step cfg s [0, 3]).1.stepCount < cfg.timeLimit ∧
    solutionB 3 2 (step cfg s [0, 3]).1 = false := by decide

/-- the executable route test is also complete: it accepts exactly when there are no path cells (agent has not
moved) or a valid search output exists, i.e. the depth-first search never misses a route -/
theorem connector_route_test_iff (n : Nat) (g : Grid Int) (ag : Agent) (hs : inGrid n ag.start)
    (hp : inGrid n ag.position) :
    agentRouteB n g ag = true ↔
      (ag.start = ag.position ∧ countVal g (pathVal ag.id) = 0) ∨
      (ag.start ≠ ag.position ∧ ∃ r, Connector.validR n g (pathVal ag.id) ag.position
        (countVal g (pathVal ag.id) - 1) ag.start [ag.start] r) := Connector.agentRouteB_iff n g ag hs hp

example : solutionB 3 2 ⟨[[1, 1, 2], [0, 0, 0], [4, 4, 5]], 2,
    [⟨0, (0, 0), (0, 2), (0, 2)⟩, ⟨1, (2, 0), (2, 2), (2, 2)⟩]⟩ = true := by decide
end Props.C06

namespace Props.C10
/-- if the `walk_board_solvable` certificate accepts a generated board `s` together with the solved board
recorded by `RandomWalkGenerator`, then every agent has a chain of 4-adjacent, pairwise different cells inside
the grid from its head (= start) to its target whose cells belong to it on the recorded board and are free on the
generated board (empty, or already holding the value of the recorded board); chains of different agents never
share a cell.  So the agents can be routed independently: the board admits a complete solution. -/
theorem connector_walk_board_solvable (n k : Nat) (s : State) (solved : Grid Int) (hc : Consistent n k s)
    (h : solvedBoardB n k s solved = true) :
    (∀ (i : Nat) ag, s.agents[i]? = some ag → ∃ r, Connector.GoodRoute n solved i ag.start ag.target r ∧
        ∀ c ∈ r, cell s.grid c = 0 ∨ cell s.grid c = cell solved c) ∧
    (∀ (i j : Nat) (a b a' b' : Pos) (r r' : List Pos), i ≠ j → Connector.GoodRoute n solved i a b r →
        Connector.GoodRoute n solved j a' b' r' → ∀ c, c ∈ r → c ∉ r') :=
  Connector.walk_board_solvable hc h

example : solvedBoardB 3 2 ⟨[[2, 0, 3], [0, 0, 0], [5, 0, 6]], 0,
    [⟨0, (0, 0), (0, 2), (0, 0)⟩, ⟨1, (2, 0), (2, 2), (2, 0)⟩]⟩ [[2, 1, 3], [0, 0, 0], [5, 4, 6]] = true := by decide
end Props.C10

/-! ## The generators (transliterations `uniformGenerate`, `walkGenerate`; tied to the code by `connector.instance`:
`uniform_draw_valid`, `uniform_transliteration`, `walk_draw_valid`, `walk_transliteration`) -/

namespace Props.C10
/-- `UniformRandomGenerator`: for EVERY possible result of `jax.random.choice(arange(n²), (2, k), replace=False)` — `2k`
pairwise different cells `< n²`, any `n`, `k` — the generated board satisfies the generator post-condition `freshB`:
consistent, step count 0, every agent on its start, starts and targets `2k` pairwise different cells, no other cell
occupied -/
theorem connector_uniform_reset_fresh (n k : Nat) (cells : List Nat) (h : validUniformDraw n k cells = true) :
    freshB n k (uniformGenerate n k cells) = true := Connector.uniform_reset_fresh n k cells h

/-- the board both generators emit (empty grid, head values scattered at `starts`, target values at `targets`) is
fresh whenever starts and targets are `2k` pairwise different cells inside the grid -/
theorem connector_emit_fresh (n k : Nat) (starts targets : List Pos) (hs : starts.length = k)
    (ht : targets.length = k) (hnd : (starts ++ targets).Nodup) (hin : ∀ p ∈ starts ++ targets, inGrid n p) :
    freshB n k (emitBoard n k starts targets) = true := Connector.emit_fresh n k starts targets hs ht hnd hin

/-- `RandomWalkGenerator`: for ALL possible draws — the start / first-move cells of `_initialize_agents` and the
whole tape of cells drawn by `_select_action` (any length; `validWalkDraw`: every draw is a possible result of
`jax.random.choice` on the transliterated `_available_cells`, and the tape ends exactly when `_continue_stepping`
fails) — in which no agent is boxed in at its start (no first-move draw is the `-1` padding; otherwise see the
witness below, known finding CN1), the emitted board is fresh -/
theorem connector_walk_reset_fresh (n k : Nat) (hn : 0 < n) (hk : 0 < k) (init : List (Int × Int))
    (tape : List (List Int)) (hv : validWalkDraw n k init tape = true) (hnb : ∀ d ∈ init, d.2 ≠ -1) :
    freshB n k (walkGenerate n k init tape).2 = true := Connector.walk_reset_fresh n k hn hk init tape hv hnb

/-- `RandomWalkGenerator`, the walk's own solution: under the same hypotheses (all possible draws, no boxed-in start)
the solved board `generate_board` records is accepted by the `walk_board_solvable` certificate for the emitted
board (`solvedBoardB`: every agent's recorded path cells form a route from its head to its target, all inside the
grid, and every cell the recording uses is free on the emitted board).  With `connector_walk_reset_fresh` this feeds
`connector_walk_board_operationally_solvable`: every such generated board is solved by an explicit legal episode. -/
theorem connector_walk_solved_board (n k : Nat) (hn : 0 < n) (hk : 0 < k) (init : List (Int × Int))
    (tape : List (List Int)) (hv : validWalkDraw n k init tape = true) (hnb : ∀ d ∈ init, d.2 ≠ -1) :
    solvedBoardB n k (walkGenerate n k init tape).2 (walkGenerate n k init tape).1 = true :=
  Connector.walk_solved_board n k hn hk init tape hv hnb

/-- the hypotheses are satisfiable: a 3 × 3 walk of two agents (agent 0 starts at cell 0 and first moves to cell 1,
agent 1 starts at cell 8 and first moves to cell 7; in the first iteration both draw cell 4 and agent 1 gets it;
three iterations) -/
example : validWalkDraw 3 2 [(0, 1), (8, 7)] [[4, 4], [2, 3], [5, -1]] = true ∧
    (walkGenerate 3 2 [(0, 1), (8, 7)] [[4, 4], [2, 3], [5, -1]]).1 = [[2, 1, 1], [6, 4, 3], [0, 4, 5]] ∧
    (walkGenerate 3 2 [(0, 1), (8, 7)] [[4, 4], [2, 3], [5, -1]]).2.grid = [[2, 0, 0], [6, 0, 3], [0, 0, 5]] := by
  decide

/-- KNOWN FINDING CN1 (boxed-in start ⇒ off-grid first move): on a 3 × 3 grid agent 0 starts at (0,1), agent 1 at
(1,0), and agent 2 draws the start (0,0), whose two neighbours are now occupied: `_available_cells` is all `-1`,
`jax.random.choice` with an all-zero probability vector returns that padding `-1` as the first move, the head value
is scattered at flat index `-1` (= cell (2,2)) and the walk continues from the off-grid position (-1, 2).  All draws
are possible; the emitted board puts agent 2's head at (0,0) between the heads of agents 0 and 1: it has no legal
move, the recorded "solution" is rejected by the certificate, and the board cannot be solved although the generator
documents solvability.  (Real code: `Connector().reset(jax.random.PRNGKey(890466656))`, agent 4 walled in at (9,9).) -/
theorem connector_walk_boxed_in_witness :
    let init : List (Int × Int) := [(1, 4), (3, 6), (0, -1)]
    let tape : List (List Int) := [[7, 7, 2], [5, -1, -1]]
    let r := walkGenerate 3 3 init tape
    validWalkDraw 3 3 init tape = true ∧
    r.2.grid = [[8, 2, 9], [5, 0, 3], [0, 6, 0]] ∧ r.1 = [[8, 2, 9], [5, 1, 3], [4, 6, 7]] ∧
    solvedBoardB 3 3 r.2 r.1 = false ∧
    (([1, 2, 3, 4] : List Nat).all (fun a => !decide (legal 3 r.2 2 a))) = true := by decide
end Props.C10

/-! ## Operational solvability and the return of the solving episode (proof completion 2) -/

namespace Props.C10
/-- what a route plan is (`Connector.Plan n k s routes`, a `Prop` structure): the state is consistent, there is
one route per agent, the route of agent number `i` is a chain of pairwise different 4-adjacent cells inside the
grid from the agent's head to its target whose cells after the head are free for it (empty or its own target
value), and routes of different agents never share a cell -/
theorem connector_plan_iff (n k : Nat) (s : State) (routes : List (List Pos)) :
    Connector.Plan n k s routes ↔
      (Connector.Cons n k s ∧ routes.length = k ∧
        (∀ (i : Nat) (ag : Agent) (r : List Pos), s.agents[i]? = some ag → routes[i]? = some r →
          r.head? = some ag.position ∧ r.getLast? = some ag.target ∧ isChain r = true ∧ r.Nodup ∧
            (∀ c ∈ r, inGrid n c) ∧ ∀ c ∈ r.tail, cell s.grid c = 0 ∨ cell s.grid c = tgtVal (i : Int)) ∧
        (∀ (i j : Nat) (r r' : List Pos), i ≠ j → routes[i]? = some r → routes[j]? = some r' → ∀ c ∈ r, c ∉ r')) := by
  constructor
  · intro P
    exact ⟨P.cons, P.len, fun i ag r hag hr => by
      have R := P.route i ag r hag hr
      exact ⟨R.head, R.last, R.chain, R.nodup, R.inG, R.free⟩, P.disj⟩
  · rintro ⟨c, l, r, d⟩
    exact ⟨c, l, fun i ag r' hag hr => by
      obtain ⟨h1, h2, h3, h4, h5, h6⟩ := r i ag r' hag hr
      exact ⟨h1, h2, h3, h4, h5, h6⟩, d⟩

/-- the accepted `walk_board_solvable` certificate yields a route plan: on a generated board (`freshB`: consistent,
step count 0, nobody has moved, `2k` distinct start / target cells) whose recorded solution the certificate
`solvedBoardB` accepts, the routes read off the recorded solution (`routesOf`, the search the certificate itself
runs) form a route plan — for every grid size `n` and agent count `k` -/
theorem connector_cert_gives_plan (n k : Nat) (s : State) (solved : Grid Int) (hfresh : freshB n k s = true)
    (hcert : solvedBoardB n k s solved = true) : Connector.Plan n k s (routesOf n solved s.agents) :=
  Connector.cert_plan (Connector.fresh_consistent n k s hfresh) (Connector.fresh_start hfresh) hcert

/-- OPERATIONAL SOLVABILITY, step by step.  From ANY state with a route plan (every `n`, every `k`) play the
explicit joint-action sequence `planActs k routes`: agent 0 walks along its route one cell per step while all
others play the no-op, then agent 1, and so on.  At every step `t` of that episode (state `s` before the step,
joint action `a`; `traceL1` is the sequence of states under the implementation model `step`):
* `a` is in-spec (one action `0..4` per agent);
* every agent's action is allowed by the mask the implementation hands out (L1 `actionMask`) and legal by the rules;
* the implementation step is the rule-level step (`step = stepL2`: state, reward, discount, step type, observation);
* every agent ends exactly where its action sends it: nobody collides, nobody is refused;
* the successor state is the next state of the trace;
* the step is LAST exactly when it is the final step of the plan (completion) or the time limit is reached. -/
theorem connector_plan_playable (cfg : Cfg) (s0 : State) (routes : List (List Pos))
    (P : Connector.Plan cfg.n cfg.k s0 routes) (t : Nat) (s : State) (a : List Int)
    (hs : (traceL1 cfg s0 (planActs cfg.k routes))[t]? = some s) (ha : (planActs cfg.k routes)[t]? = some a) :
    (a.length = cfg.k ∧ ∀ x ∈ a, 0 ≤ x ∧ x ≤ 4) ∧
    (∀ j, j < cfg.k → ((actionMask s.grid s.agents).getD j []).getD (a.getD j 0).toNat false = true ∧
        legal cfg.n s j (a.getD j 0).toNat) ∧
    step cfg s a = stepL2 cfg s a ∧
    (step cfg s a).1.agents =
      List.zipWith (fun (ag : Agent) (x : Int) => { ag with position := movePosition ag.position x }) s.agents a ∧
    (traceL1 cfg s0 (planActs cfg.k routes))[t + 1]? = some (step cfg s a).1 ∧
    ((step cfg s a).2.stepType = .last ↔
      (t + 1 = (planActs cfg.k routes).length ∨ cfg.timeLimit ≤ s.stepCount + 1)) := by
  rw [(Connector.plan_trace_eq cfg s0 routes P).1] at hs ⊢
  exact Connector.plan_episode cfg s0 routes P t s a hs ha

/-- (DISREGARDING `time_limit`, audit r6 #4.)  … and the episode ends with every agent connected; if the start state is feasible (as every generated reset state is,
`connector_uniform_reset_feasible`, `connector_walk_reset_fresh`) the final state is a complete solution -/
theorem connector_plan_solves (cfg : Cfg) (s0 : State) (routes : List (List Pos))
    (P : Connector.Plan cfg.n cfg.k s0 routes) :
    (traceL1 cfg s0 (planActs cfg.k routes)).getLast? = some (finalL1 cfg s0 (planActs cfg.k routes)) ∧
    (∀ ag ∈ (finalL1 cfg s0 (planActs cfg.k routes)).agents, isConnected ag) ∧
    (Feasible cfg.n cfg.k s0 → solutionB cfg.n cfg.k (finalL1 cfg s0 (planActs cfg.k routes)) = true) := by
  refine ⟨Connector.traceL1_getLast cfg s0 _, ?_, ?_⟩
  · rw [(Connector.plan_trace_eq cfg s0 routes P).2]; exact (Connector.plan_solves cfg s0 routes P).2
  · rw [(Connector.plan_trace_eq cfg s0 routes P).2]; exact Connector.plan_final_solution cfg s0 routes P

/-- (DISREGARDING `time_limit`, audit r6 #4: the conclusion is about `finalL1`, the state after ALL plan steps whether
or not a LAST timestep occurred on the way.)  The headline, from the certificate: every generated board accepted by
`walk_board_solvable` is solved by the
explicit episode `solveActs` (read off the recorded solution): all its joint actions are in-spec, and it ends in
a complete solution — feasible with every agent connected.  (Step-by-step legality, mask, absence of collisions,
L1 = L2 and LAST-by-completion are `connector_plan_playable` with the plan of `connector_cert_gives_plan`.) -/
theorem connector_walk_board_operationally_solvable (cfg : Cfg) (s : State) (solved : Grid Int)
    (hfresh : freshB cfg.n cfg.k s = true) (hcert : solvedBoardB cfg.n cfg.k s solved = true) :
    (∀ acts ∈ solveActs cfg.n cfg.k s solved, acts.length = cfg.k ∧ ∀ a ∈ acts, 0 ≤ a ∧ a ≤ 4) ∧
    solutionB cfg.n cfg.k (finalL1 cfg s (solveActs cfg.n cfg.k s solved)) = true := by
  have P := connector_cert_gives_plan cfg.n cfg.k s solved hfresh hcert
  refine ⟨Connector.plan_spec cfg s _ P, ?_⟩
  unfold solveActs
  rw [(Connector.plan_trace_eq cfg s _ P).2]
  exact Connector.plan_final_solution cfg s _ P (Connector.fresh_feasible cfg.n cfg.k s hfresh)

/-- (audit r6 #4: DISREGARDING `time_limit` — `finalL1` keeps stepping past a LAST timestep; when the plan is longer than
`time_limit` the real episode ends unsolved, see `connector_plan_ignores_time_limit_witness`; the episode-level form under
`length ≤ time_limit` is `Props.C10.connector_plan_first_last` / `connector_walk_generated_board_solved_within_limit` in
Props/EpisodeInstances.lean.)
THE GENERATOR'S PROMISE, end to end: for every grid size, every agent count and ALL possible draws of
`RandomWalkGenerator` in which no agent is boxed in at its start (CN1 otherwise), the emitted board is solved by the
explicit in-spec episode read off the generator's own recorded solution: played on the implementation model `step`
from the emitted reset state it ends in a complete solution -/
theorem connector_walk_generated_board_solvable (cfg : Cfg) (hn : 0 < cfg.n) (hk : 0 < cfg.k)
    (init : List (Int × Int)) (tape : List (List Int)) (hv : validWalkDraw cfg.n cfg.k init tape = true)
    (hnb : ∀ d ∈ init, d.2 ≠ -1) :
    (∀ acts ∈ solveActs cfg.n cfg.k (walkGenerate cfg.n cfg.k init tape).2 (walkGenerate cfg.n cfg.k init tape).1,
      acts.length = cfg.k ∧ ∀ a ∈ acts, 0 ≤ a ∧ a ≤ 4) ∧
    solutionB cfg.n cfg.k (finalL1 cfg (walkGenerate cfg.n cfg.k init tape).2
      (solveActs cfg.n cfg.k (walkGenerate cfg.n cfg.k init tape).2 (walkGenerate cfg.n cfg.k init tape).1)) = true :=
  connector_walk_board_operationally_solvable cfg _ _
    (connector_walk_reset_fresh cfg.n cfg.k hn hk init tape hv hnb)
    (connector_walk_solved_board cfg.n cfg.k hn hk init tape hv hnb)

/-- the hypotheses are satisfiable: the certified 3 × 3 board above; its solving episode has four steps (agent 0
goes right twice while agent 1 waits, then agent 1 goes right twice) and ends on the recorded solution with the
heads on the targets -/
example :
    let s : State := ⟨[[2, 0, 3], [0, 0, 0], [5, 0, 6]], 0, [⟨0, (0, 0), (0, 2), (0, 0)⟩, ⟨1, (2, 0), (2, 2), (2, 0)⟩]⟩
    let solved : Grid Int := [[2, 1, 3], [0, 0, 0], [5, 4, 6]]
    let cfg : Cfg := ⟨3, 2, 50, 1, -3/100⟩
    freshB 3 2 s = true ∧ solvedBoardB 3 2 s solved = true ∧
    solveActs 3 2 s solved = [[2, 0], [2, 0], [0, 2], [0, 2]] ∧
    (finalL1 cfg s (solveActs 3 2 s solved)).grid = [[1, 1, 2], [0, 0, 0], [4, 4, 5]] := by decide

/-- … so the hypothesis `Plan` of `connector_plan_playable` / `connector_plan_solves` is satisfiable: the routes
`[(0,0),(0,1),(0,2)]` and `[(2,0),(2,1),(2,2)]` read off the recorded solution are a route plan of that board -/
example : Connector.Plan 3 2 ⟨[[2, 0, 3], [0, 0, 0], [5, 0, 6]], 0,
      [⟨0, (0, 0), (0, 2), (0, 0)⟩, ⟨1, (2, 0), (2, 2), (2, 0)⟩]⟩ [[(0, 0), (0, 1), (0, 2)], [(2, 0), (2, 1), (2, 2)]] :=
  connector_cert_gives_plan 3 2 _ [[2, 1, 3], [0, 0, 0], [5, 4, 6]] (by decide) (by decide)
end Props.C10

namespace Props.C08
/-- whole episodes, ANY in-spec joint actions from a consistent state (every `n`, `k`, every length): the rewards
agent `i` receives from the implementation model `step` add up (`returnL1`) to the documented objective —
`connected_reward` if it got connected during the episode plus `timestep_reward` for every step it started
unconnected -/
theorem connector_episode_return (cfg : Cfg) (hk : 0 < cfg.k) (actss : List (List Int))
    (hspec : ∀ acts ∈ actss, acts.length = cfg.k ∧ ∀ a ∈ acts, 0 ≤ a ∧ a ≤ 4) (s0 : State)
    (hc : Consistent cfg.n cfg.k s0) (i : Nat) (hi : i < cfg.k) :
    returnL1 cfg s0 actss i = objectiveOf cfg (traceL1 cfg s0 actss) i :=
  Connector.episode_return_L1 cfg hk actss hspec s0 hc hi

/-- corollary for the solving episode of a route plan: every agent's return is the documented objective, which
here is the connection reward (every agent ends connected; an agent connected from the start gets none) plus the
per-step time penalty for every step it started unconnected -/
theorem connector_solving_episode_return (cfg : Cfg) (s0 : State) (routes : List (List Pos))
    (P : Connector.Plan cfg.n cfg.k s0 routes) (i : Nat) (hi : i < cfg.k) :
    returnL1 cfg s0 (planActs cfg.k routes) i = objectiveOf cfg (traceL1 cfg s0 (planActs cfg.k routes)) i ∧
    objectiveOf cfg (traceL1 cfg s0 (planActs cfg.k routes)) i =
      (if connectedAt s0 i then 0 else cfg.connectedReward) +
        cfg.timestepReward *
          ((((traceL1 cfg s0 (planActs cfg.k routes)).dropLast).filter (fun s => !connectedAt s i)).length : Nat) := by
  rw [(Connector.plan_trace_eq cfg s0 routes P).1]
  exact Connector.plan_return cfg s0 routes P hi

/-- explicit value: in the solving episode agent `i` (unconnected at the start) pays the time penalty for the
steps of agents `0 … i` — agent `j` takes `|r_j| − 1` steps, one per edge of its route — and collects the connection
reward once: `return_i = connected_reward + timestep_reward · Σ_{j ≤ i} (|r_j| − 1)` -/
theorem connector_solving_episode_return_explicit (cfg : Cfg) (s0 : State) (routes : List (List Pos))
    (P : Connector.Plan cfg.n cfg.k s0 routes) (i : Nat) (hi : i < cfg.k) :
    returnL1 cfg s0 (planActs cfg.k routes) i =
      if connectedAt s0 i then 0
      else cfg.connectedReward + cfg.timestepReward *
        ((((List.range (i + 1)).map (fun j => (routes.getD j []).length - 1)).sum : Nat) : Rat) :=
  Connector.plan_return_explicit cfg s0 routes P hi

/-- on the 3 × 3 board: agent 0 connects after 2 steps (`1 − 2·0.03`), agent 1 after 4 (`1 − 4·0.03`) -/
example :
    let s : State := ⟨[[2, 0, 3], [0, 0, 0], [5, 0, 6]], 0, [⟨0, (0, 0), (0, 2), (0, 0)⟩, ⟨1, (2, 0), (2, 2), (2, 0)⟩]⟩
    let cfg : Cfg := ⟨3, 2, 50, 1, -3/100⟩
    returnL1 cfg s (solveActs 3 2 s [[2, 1, 3], [0, 0, 0], [5, 4, 6]]) 0 = 94/100 ∧
    returnL1 cfg s (solveActs 3 2 s [[2, 1, 3], [0, 0, 0], [5, 4, 6]]) 1 = 88/100 := by decide +kernel
end Props.C08

namespace Props.C10
/-- audit r6 #4, WITNESS that the plan theorems above disregard `time_limit`: on the certified 3×3 board with `time_limit = 2`
the 4-step solving episode meets its first LAST timestep at step 2 with the board UNSOLVED, while `finalL1` (which steps on)
reports a solution -/
theorem connector_plan_ignores_time_limit_witness :
    let s : State := ⟨[[2, 0, 3], [0, 0, 0], [5, 0, 6]], 0, [⟨0, (0, 0), (0, 2), (0, 0)⟩, ⟨1, (2, 0), (2, 2), (2, 0)⟩]⟩
    let solved : Grid Int := [[2, 1, 3], [0, 0, 0], [5, 4, 6]]
    let cfg : Cfg := ⟨3, 2, 2, 1, -3/100⟩
    Ep.firstLastTS ((Ep.rollout (step cfg) s (solveActs 3 2 s solved)).map (·.2)) = some 2 ∧
    solutionB 3 2 (finalL1 cfg s ((solveActs 3 2 s solved).take 2)) = false ∧
    solutionB 3 2 (finalL1 cfg s (solveActs 3 2 s solved)) = true := by decide +kernel
end Props.C10

namespace Props.C06
/-- audit r6 #10: feasibility along every episode from EVERY draw of the RANDOM-WALK generator in which no agent is boxed in
(the default generator of `Connector-v2`; `connector_feasible_along` composed with `connector_walk_reset_fresh`): every state
reached by ANY in-spec joint actions (legal or not) is feasible -/
theorem connector_feasible_along_walk (cfg : Cfg) (hn : 0 < cfg.n) (hk : 0 < cfg.k) (init : List (Int × Int))
    (tape : List (List Int)) (hv : validWalkDraw cfg.n cfg.k init tape = true) (hnb : ∀ d ∈ init, d.2 ≠ -1)
    (actss : List (List Int)) (hspec : ∀ acts ∈ actss, acts.length = cfg.k ∧ ∀ a ∈ acts, 0 ≤ a ∧ a ≤ 4) :
    ∀ s ∈ traceL1 cfg (walkGenerate cfg.n cfg.k init tape).2 actss, Feasible cfg.n cfg.k s :=
  Props.C06.connector_feasible_along cfg hk actss hspec _
    (Connector.fresh_feasible cfg.n cfg.k _ (Props.C10.connector_walk_reset_fresh cfg.n cfg.k hn hk init tape hv hnb))
end Props.C06
