/-
Property theorems for Sokoban (helper lemmas and proofs in Env/Sokoban/Lemmas.lean).
`cfg.n` is GRID_SIZE (10 in the source); every theorem holds for all grid sizes, all boards and all
actions 0..3.  Sokoban has no action mask (no C04).
-/
import JumanjiModel.Env.Sokoban.Lemmas
import JumanjiModel.Env.Sokoban.BoundsLemmas
open Jm Jx Sokoban

namespace Props.C05
/-- an illegal move (into a wall, off the grid, or pushing a box that cannot move) is ignored: the
successor differs from the state only in the step counter, and the episode ends only for a documented
cause (time limit reached, or the level was already complete) -/
theorem sokoban_illegal_ignored (rnd : Rat → Rat) (cfg : Cfg) (s : State) (a : Nat) (ha : a < 4)
    (hf : Grid.shaped s.fgrid cfg.n cfg.n = true) (hv : Grid.shaped s.vgrid cfg.n cfg.n = true)
    (h : ¬ legal cfg.n s a) :
    (step rnd cfg s a).1 = { s with stepCount := s.stepCount + 1 } ∧
    ((step rnd cfg s a).2.stepType = .last → levelComplete s = true ∨ s.stepCount + 1 ≥ cfg.timeLimit) :=
  Sokoban.illegal_ignored rnd cfg s a ha hf hv h

-- a push against another box is illegal (2×… board: agent, box, box in a row)
example : ¬ legal 3 ⟨[[0,0,0],[0,0,0],[0,0,0]], [[3,4,4],[0,0,0],[0,0,0]], (0, 0), 0⟩ 1 := by decide
end Props.C05

namespace Props.C07
/-- whatever action 0..3 is played, a consistent board (well-shaped grids, exactly one AGENT cell which
is `agent_location`, exactly 4 boxes, only legal encodings, nothing movable inside a wall) stays consistent -/
theorem sokoban_step_consistent (rnd : Rat → Rat) (cfg : Cfg) (s : State) (a : Nat) (ha : a < 4)
    (hc : Consistent cfg.n s) : Consistent cfg.n (step rnd cfg s a).1 :=
  Sokoban.step_consistent rnd cfg s a ha hc

/-- conserved quantities: the fixed grid never changes and the number of boxes stays 4 -/
theorem sokoban_conserved (rnd : Rat → Rat) (cfg : Cfg) (s : State) (a : Nat) (ha : a < 4)
    (hc : Consistent cfg.n s) :
    (step rnd cfg s a).1.fgrid = s.fgrid ∧
    countCells cfg.n (step rnd cfg s a).1.vgrid BOX = countCells cfg.n s.vgrid BOX := by
  have h := Sokoban.step_consistent rnd cfg s a ha hc
  refine ⟨?_, by rw [h.2.2.2.2.1, hc.2.2.2.2.1]⟩
  rw [Sokoban.step_eq rnd cfg s a ha hc.1 hc.2.1 hc.2.2.1]
  exact (Sokoban.spec_shaped cfg.n s a hc.2.1).2

example : Consistent 3 ⟨[[1,2,2],[0,2,2],[0,0,0]], [[0,4,4],[3,4,4],[0,0,0]], (1, 0), 0⟩ := by decide
end Props.C07

namespace Props.C09
/-- L1 = L2: the transliterated `step` yields exactly the successor prescribed by the rules — stay when
the move is illegal, walk, or push (a box moves iff the agent walks into it and the cell behind it is
inside the grid, not a wall and not a box) -/
theorem sokoban_step_eq (rnd : Rat → Rat) (cfg : Cfg) (s : State) (a : Nat) (ha : a < 4)
    (hf : Grid.shaped s.fgrid cfg.n cfg.n = true) (hv : Grid.shaped s.vgrid cfg.n cfg.n = true)
    (hag : inside cfg.n s.agent) :
    (step rnd cfg s a).1 = stepSpec cfg.n s a := Sokoban.step_eq rnd cfg s a ha hf hv hag

/-- reward and termination flag are the documented ones (±1 per box onto/off a target, +10 when solved,
−0.1 per step; or 10 on completion only; LAST iff solved or time limit), on the prescribed successor -/
theorem sokoban_step_ts_eq (rnd : Rat → Rat) (cfg : Cfg) (s : State) (a : Nat) (ha : a < 4)
    (hf : Grid.shaped s.fgrid cfg.n cfg.n = true) (hv : Grid.shaped s.vgrid cfg.n cfg.n = true)
    (hag : inside cfg.n s.agent) :
    (step rnd cfg s a).2.reward = [rewardSpec rnd cfg s (stepSpec cfg.n s a)] ∧
    ((step rnd cfg s a).2.stepType = .last ↔ doneSpec cfg (stepSpec cfg.n s a) = true) ∧
    ((step rnd cfg s a).2.stepType ≠ .last → (step rnd cfg s a).2.stepType = .mid) :=
  Sokoban.step_ts_eq rnd cfg s a ha hf hv hag

/-- `detect_noop_action` keeps the action exactly when the rules allow the move -/
theorem sokoban_noop_iff_illegal (n : Nat) (s : State) (a : Nat) (ha : a < 4)
    (hf : Grid.shaped s.fgrid n n = true) (hv : Grid.shaped s.vgrid n n = true) :
    detectNoop n s.vgrid s.fgrid a s.agent = if legal n s a then (a : Int) else NOOP :=
  Sokoban.detectNoop_eq n s a ha hf hv

-- a push: agent at (1,0) moves right into the box at (1,1); the cell behind, (1,2), is free
example : pushes 3 ⟨[[1,2,2],[0,2,2],[0,0,0]], [[0,4,4],[3,4,0],[0,4,0]], (1, 0), 0⟩ 1 := by decide
end Props.C09

namespace Props.C11
/-- the step counter advances by one on every step; a step that reaches the limit is LAST -/
theorem sokoban_step_count (rnd : Rat → Rat) (cfg : Cfg) (s : State) (a : Int) :
    (step rnd cfg s a).1.stepCount = s.stepCount + 1 ∧
    (s.stepCount + 1 ≥ cfg.timeLimit → (step rnd cfg s a).2.stepType = .last) :=
  Sokoban.step_count rnd cfg s a
end Props.C11

namespace Props.C12
/-- the observation shows the variable and fixed grid and the step count of the successor state -/
theorem sokoban_obs_faithful (rnd : Rat → Rat) (cfg : Cfg) (s : State) (a : Int) :
    (step rnd cfg s a).2.obs = observe (step rnd cfg s a).1 := Sokoban.obs_faithful rnd cfg s a
end Props.C12

namespace Props.C01
/-- the reset observation (the generator's state `g`, `restart`) has every leaf inside the interval
`obsBounds cfg` lists for it: both planes of `grid` in `[0, 4]`, `step_count = 0 ≤ time_limit`.
Hypotheses: the generated board is consistent and its counter starts at 0. -/
theorem sokoban_reset_obs_in_bounds (cfg : Cfg) (g : State) (hc : Consistent cfg.n g) (h0 : g.stepCount = 0)
    (htl : 0 ≤ cfg.timeLimit) : ObsInBounds cfg (Sokoban.reset g).2.obs :=
  Sokoban.reset_obs_in_bounds cfg g hc h0 htl

/-- every step taken from a consistent state of a running episode (`step_count < time_limit`; `0 ≤ step_count`
is part of `Consistent`) with any action 0..3 (legal or not) emits an observation inside `obsBounds cfg` —
including the terminal step, where `step_count = time_limit` -/
theorem sokoban_step_obs_in_bounds (rnd : Rat → Rat) (cfg : Cfg) (s : State) (a : Nat) (ha : a < 4)
    (hc : Consistent cfg.n s) (h1 : s.stepCount < cfg.timeLimit) :
    ObsInBounds cfg (step rnd cfg s a).2.obs := Sokoban.step_obs_in_bounds rnd cfg s a ha hc h1

example : Consistent 3 ⟨[[1,2,2],[0,2,2],[0,0,0]], [[0,4,4],[3,4,4],[0,0,0]], (1, 0), 0⟩ := by decide
/-- the bound on `step_count` is attained on the step that reaches the limit, and the bound 4 on `grid` by a box -/
example : (step id ⟨3, 1, false⟩ ⟨[[1,2,2],[0,2,2],[0,0,0]], [[0,4,4],[3,4,0],[0,4,0]], (1, 0), 0⟩ 1).2.obs.stepCount = 1 := by
  decide +kernel
end Props.C01
