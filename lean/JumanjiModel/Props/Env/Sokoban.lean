/-
Property theorems for Sokoban (helper lemmas and proofs in Env/Sokoban/Lemmas.lean).
`cfg.n` is GRID_SIZE (10 in the source); every theorem holds for all grid sizes, all boards and all
actions 0..3.  Sokoban has no action mask (no C04).
-/
import JumanjiModel.Env.Sokoban.Lemmas
import JumanjiModel.Env.Sokoban.BoundsLemmas
import JumanjiModel.Env.Sokoban.GeneratorLemmas
import JumanjiModel.Env.Sokoban.RewardLemmas
import JumanjiModel.Gen.SokobanLevels
import JumanjiModel.Env.Sokoban.SpecLemmas
open Jm Jx Sokoban

namespace Props.C05
/-- an illegal move (into a wall, off the grid, or pushing a box that cannot move) is ignored: the
successor differs from the state only in the step counter, and the episode ends only for a documented
cause (time limit reached, or the level was already complete) -/
theorem sokoban_illegal_ignored (rnd : Rat → Rat) (cfg : Cfg) (s : State) (a : Nat) (ha : a < 4)
    (hf : Grid.shaped s.fgrid cfg.n cfg.n = true) (hv : Grid.shaped s.vgrid cfg.n cfg.n = true)
    (h : ¬ legal cfg.n s a) :
    (step rnd cfg s a).1 = { s with stepCount := s.stepCount + 1 } ∧
    ((step rnd cfg s a).2.stepType = .last → levelComplete s = true ∨ s.stepCount + 1 ≥ cfg.timeLimit) :=
  Sokoban.illegal_ignored rnd cfg s a ha hf hv h

-- a push against another box is illegal (2×… board: agent, box, box in a row)
example : ¬ legal 3 ⟨[[0,0,0],[0,0,0],[0,0,0]], [[3,4,4],[0,0,0],[0,0,0]], (0, 0), 0⟩ 1 := by decide

/-- the reaction of the `step` function itself (wave 3; Sokoban has no mask, `step` decides): for every action 0..3 on
a well-shaped board `step` moves the agent one cell in direction `a` exactly when the rules allow the move, and leaves
it where it stands (the environment treated the action as a no-op) exactly when they do not -/
theorem sokoban_step_moves_iff_legal (rnd : Rat → Rat) (cfg : Cfg) (s : State) (a : Nat) (ha : a < 4)
    (hf : Grid.shaped s.fgrid cfg.n cfg.n = true) (hv : Grid.shaped s.vgrid cfg.n cfg.n = true)
    (hag : inside cfg.n s.agent) :
    ((step rnd cfg s a).1.agent = add s.agent (dirOf a) ↔ legal cfg.n s a) ∧
    ((step rnd cfg s a).1.agent = s.agent ↔ ¬ legal cfg.n s a) :=
  Sokoban.step_moves_iff_legal rnd cfg s a ha hf hv hag

-- the agent at (1,0) pushes right (legal: it moves to (1,1)); up into the wall at (0,0) is illegal: it stays
example : (step id ⟨3, 9, true⟩ ⟨[[1,2,2],[0,2,2],[0,0,0]], [[0,4,4],[3,4,0],[0,4,0]], (1, 0), 0⟩ 1).1.agent = (1, 1) ∧
    (step id ⟨3, 9, true⟩ ⟨[[1,2,2],[0,2,2],[0,0,0]], [[0,4,4],[3,4,0],[0,4,0]], (1, 0), 0⟩ 0).1.agent = (1, 0) := by
  decide +kernel
end Props.C05

namespace Props.C06
/-- completion THROUGH `step` is a solution (wave 3): a LAST timestep emitted by `step` before the time limit, from a
consistent board with an action 0..3, certifies that the successor is a consistent board on which EVERY one of the 4
boxes stands on a target cell (`IsSolution`, recomputed cell by cell from the raw grids — not the L1 counter
`count_targets`); the sparse reward of that step is 10 -/
theorem sokoban_step_complete_is_solution (rnd : Rat → Rat) (cfg : Cfg) (s : State) (a : Nat) (ha : a < 4)
    (hc : Consistent cfg.n s) (hl : (step rnd cfg s a).2.stepType = .last) (ht : s.stepCount + 1 < cfg.timeLimit) :
    IsSolution cfg.n (step rnd cfg s a).1 ∧ levelComplete (step rnd cfg s a).1 = true ∧
    (cfg.dense = false → (step rnd cfg s a).2.reward = [10]) :=
  Sokoban.step_complete_is_solution rnd cfg s a ha hc hl ht

/-- conversely a consistent board counts as complete only if every box stands on a target -/
theorem sokoban_count_is_all (n : Nat) (s : State) (hc : Consistent n s) (h : boxesOnTarget n s = nBoxes) :
    ∀ p ∈ Grid.coords n n, Grid.get s.vgrid 0 p.1 p.2 = BOX → Grid.get s.fgrid 0 p.1 p.2 = TARGET :=
  Sokoban.all_boxes_on_targets hc h

/-- both directions (audit r5 #4): on a consistent board the L1 count equals the number of boxes IFF every box stands on a target;
and the L1 flag `levelComplete` (`count_targets == 4`) IS the documented notion `IsSolution` -/
theorem sokoban_count_iff_all (n : Nat) (s : State) (hc : Consistent n s) :
    (boxesOnTarget n s = nBoxes ↔
      ∀ p ∈ Grid.coords n n, Grid.get s.vgrid 0 p.1 p.2 = BOX → Grid.get s.fgrid 0 p.1 p.2 = TARGET) ∧
    (levelComplete s = true ↔ IsSolution n s) :=
  ⟨Sokoban.count_iff_all hc, Sokoban.levelComplete_iff_solution hc⟩

-- the hypotheses are satisfiable: the last push of the 4×4 example (Left from (0,3): box onto the fourth target)
example :
    let cfg : Cfg := ⟨4, 100, false⟩
    let s : State := ⟨[[2,2,0,0],[2,2,0,0],[0,0,0,0],[0,0,0,0]], [[4,0,4,3],[4,4,0,0],[0,0,0,0],[0,0,0,0]], (0, 3), 2⟩
    Consistent cfg.n s ∧ (step id cfg s 3).2.stepType = .last ∧ s.stepCount + 1 < cfg.timeLimit ∧
      (step id cfg s 3).2.reward = [10] := by
  decide +kernel
end Props.C06

namespace Props.C07
/-- whatever action 0..3 is played, a consistent board (well-shaped grids, exactly one AGENT cell which
is `agent_location`, exactly 4 boxes, only legal encodings, nothing movable inside a wall) stays consistent -/
theorem sokoban_step_consistent (rnd : Rat → Rat) (cfg : Cfg) (s : State) (a : Nat) (ha : a < 4)
    (hc : Consistent cfg.n s) : Consistent cfg.n (step rnd cfg s a).1 :=
  Sokoban.step_consistent rnd cfg s a ha hc

/-- conserved quantities: the fixed grid never changes and the number of boxes stays 4 -/
theorem sokoban_conserved (rnd : Rat → Rat) (cfg : Cfg) (s : State) (a : Nat) (ha : a < 4)
    (hc : Consistent cfg.n s) :
    (step rnd cfg s a).1.fgrid = s.fgrid ∧
    countCells cfg.n (step rnd cfg s a).1.vgrid BOX = countCells cfg.n s.vgrid BOX := by
  have h := Sokoban.step_consistent rnd cfg s a ha hc
  refine ⟨?_, by rw [h.2.2.2.2.1, hc.2.2.2.2.1]⟩
  rw [Sokoban.step_eq rnd cfg s a ha hc.1 hc.2.1 hc.2.2.1]
  exact (Sokoban.spec_shaped cfg.n s a hc.2.1).2

example : Consistent 3 ⟨[[1,2,2],[0,2,2],[0,0,0]], [[0,4,4],[3,4,4],[0,0,0]], (1, 0), 0⟩ := by decide

/-- whole episode, by induction from `sokoban_step_consistent`: every state reached from a consistent board by ANY
sequence of actions 0..3 (`runState` applies the L1 `step` repeatedly) is consistent -/
theorem sokoban_run_consistent (rnd : Rat → Rat) (cfg : Cfg) (s : State) (as : List Int) (ha : ValidActions as)
    (hc : Consistent cfg.n s) : Consistent cfg.n (runState rnd cfg s as) :=
  Sokoban.run_consistent rnd cfg s as ha hc

/-- whole episode: walls and targets never change (so the number of targets stays what it was), there are exactly 4
boxes and exactly one AGENT cell in every state of the episode, and that cell is `agent_location` -/
theorem sokoban_run_conserved (rnd : Rat → Rat) (cfg : Cfg) (s : State) (as : List Int) (ha : ValidActions as)
    (hc : Consistent cfg.n s) :
    (runState rnd cfg s as).fgrid = s.fgrid ∧
    countCells cfg.n (runState rnd cfg s as).vgrid BOX = nBoxes ∧
    countCells cfg.n (runState rnd cfg s as).vgrid AGENT = 1 ∧
    at' (runState rnd cfg s as).vgrid (runState rnd cfg s as).agent = AGENT ∧
    countCells cfg.n (runState rnd cfg s as).fgrid TARGET = countCells cfg.n s.fgrid TARGET :=
  Sokoban.run_conserved rnd cfg s as ha hc

/-- the step counter of the state after `as` is the number of steps played -/
theorem sokoban_run_step_count (rnd : Rat → Rat) (cfg : Cfg) (s : State) (as : List Int) :
    (runState rnd cfg s as).stepCount = s.stepCount + as.length := Sokoban.runState_stepCount rnd cfg s as

-- a non-trivial play: a push, a blocked push and a walk on a consistent 3×3 board
example : ValidActions [1, 1, 2, 3] ∧
    Consistent 3 ⟨[[1,2,2],[0,2,2],[0,0,0]], [[0,4,4],[3,4,0],[0,4,0]], (1, 0), 0⟩ ∧
    (runState id ⟨3, 9, true⟩ ⟨[[1,2,2],[0,2,2],[0,0,0]], [[0,4,4],[3,4,0],[0,4,0]], (1, 0), 0⟩ [1, 1, 2, 3]).vgrid
      = [[0,4,4],[3,0,4],[0,4,0]] := by decide +kernel
end Props.C07

namespace Props.C10
/-- certificate ⇒ advertised invariants of a generated level: the board is `Consistent` (one agent at
`agent_location`, 4 boxes, legal encodings, nothing inside a wall), it has 4 targets, exactly one AGENT cell, no box
stands on a target (so the level is not already solved), and the step counter is 0 -/
theorem sokoban_cert_consistent (n : Nat) (s : State) (h : LevelCert n s) :
    Consistent n s ∧ countCells n s.fgrid TARGET = nBoxes ∧ countCells n s.vgrid BOX = nBoxes ∧
    countCells n s.vgrid AGENT = 1 ∧ boxesOnTarget n s = 0 ∧ s.stepCount = 0 :=
  ⟨Sokoban.cert_consistent h, h.2.2.2.2.1, h.2.2.2.1, h.2.2.1, Sokoban.cert_boxesOnTarget h, h.2.2.2.2.2.2.2.2⟩

/-- `ToyGenerator` (transliterated: `convert_level_to_array` on its two ASCII levels, `get_agent_coordinates`, the draw
is the game index): for EVERY valid draw it produces a level, and the level satisfies the certificate for
GRID_SIZE = 10 (kernel evaluation of the decidable certificate on both levels) -/
theorem sokoban_toy_cert (idx : Nat) (h : toyValidDraw idx) : ∃ s, toyGenerate idx = some s ∧ LevelCert 10 s :=
  Sokoban.toy_cert idx h

/-- `SimpleSolveGenerator` (no randomness) produces a level that satisfies the certificate -/
theorem sokoban_simple_cert : ∃ s, simpleGenerate = some s ∧ LevelCert 10 s := Sokoban.simple_cert

/-- the two toy levels are different states (the generator depends on its draw) -/
theorem sokoban_toy_levels_differ : toyGenerate 0 ≠ toyGenerate 1 := Sokoban.toy_levels_differ

/-- every state of every episode on a shipped toy level — any draw, any actions 0..3, any length — is consistent,
keeps the level's walls and targets, exactly 4 boxes and exactly one agent -/
theorem sokoban_toy_run_consistent (rnd : Rat → Rat) (cfg : Cfg) (hn : cfg.n = 10) (idx : Nat) (s : State)
    (hg : toyGenerate idx = some s) (as : List Int) (ha : ValidActions as) :
    Consistent cfg.n (runState rnd cfg s as) ∧ (runState rnd cfg s as).fgrid = s.fgrid ∧
    countCells cfg.n (runState rnd cfg s as).vgrid BOX = nBoxes ∧
    countCells cfg.n (runState rnd cfg s as).vgrid AGENT = 1 := by
  have hc : Consistent cfg.n s := by rw [hn]; exact Sokoban.cert_consistent (Sokoban.toy_cert_of_eq hg)
  have h := Sokoban.run_conserved rnd cfg s as ha hc
  exact ⟨Sokoban.run_consistent rnd cfg s as ha hc, h.1, h.2.1, h.2.2.1⟩

/-- the same for the level of `SimpleSolveGenerator` -/
theorem sokoban_simple_run_consistent (rnd : Rat → Rat) (cfg : Cfg) (hn : cfg.n = 10) (s : State)
    (hg : simpleGenerate = some s) (as : List Int) (ha : ValidActions as) :
    Consistent cfg.n (runState rnd cfg s as) ∧ (runState rnd cfg s as).fgrid = s.fgrid ∧
    countCells cfg.n (runState rnd cfg s as).vgrid BOX = nBoxes ∧
    countCells cfg.n (runState rnd cfg s as).vgrid AGENT = 1 := by
  have hc : Consistent cfg.n s := by rw [hn]; exact Sokoban.cert_consistent (Sokoban.simple_cert_of_eq hg)
  have h := Sokoban.run_conserved rnd cfg s as ha hc
  exact ⟨Sokoban.run_consistent rnd cfg s as ha hc, h.1, h.2.1, h.2.2.1⟩

/-- the level table GENERATED from the repository (Gen/SokobanLevels.lean, by harness/translators_sokoban.py: the
ASCII rows read from generator.py and the numeric states the real `convert_level_to_array` /
`get_agent_coordinates` build from them) coincides with the hand transliteration: same ASCII levels in the same order,
and `toyGenerate` / `simpleGenerate` compute exactly the states the real functions computed -/
theorem sokoban_level_table_eq :
    Gen.toyAscii = toyLevels ∧ Gen.toyStates.map some = [toyGenerate 0, toyGenerate 1] ∧
    Gen.simpleAscii = [simpleLevel] ∧ Gen.simpleStates.map some = [simpleGenerate] := by decide +kernel

/-- every state of the generated table satisfies the certificate -/
theorem sokoban_level_table_cert : ∀ s ∈ Gen.toyStates ++ Gen.simpleStates, LevelCert 10 s := by decide +kernel

-- the certificate on a small hand-made level, and a level it rejects (the agent stands on a target)
example : LevelCert 4 ⟨[[1,2,2,0],[0,2,2,0],[0,0,0,0],[0,0,0,1]], [[0,0,0,0],[3,0,0,4],[4,4,4,0],[0,0,0,0]], (1, 0), 0⟩ := by
  decide
example : ¬ LevelCert 4 ⟨[[1,2,2,0],[2,0,2,0],[0,0,0,0],[0,0,0,1]], [[0,0,0,0],[3,0,0,4],[4,4,4,0],[0,0,0,0]], (1, 0), 0⟩ := by
  decide
-- the SimpleSolve level is solved by Up, (Down, Right, Up)×3: the model's episode on the transliterated level
example : (simpleGenerate.map (fun s => levelComplete (runState id ⟨10, 120, true⟩ s [0, 2, 1, 0, 2, 1, 0, 2, 1, 0]))) = some true := by
  decide +kernel
end Props.C10

namespace Props.C09
/-- L1 = L2: the transliterated `step` yields exactly the successor prescribed by the rules — stay when
the move is illegal, walk, or push (a box moves iff the agent walks into it and the cell behind it is
inside the grid, not a wall and not a box) -/
theorem sokoban_step_eq (rnd : Rat → Rat) (cfg : Cfg) (s : State) (a : Nat) (ha : a < 4)
    (hf : Grid.shaped s.fgrid cfg.n cfg.n = true) (hv : Grid.shaped s.vgrid cfg.n cfg.n = true)
    (hag : inside cfg.n s.agent) :
    (step rnd cfg s a).1 = stepSpec cfg.n s a := Sokoban.step_eq rnd cfg s a ha hf hv hag

/-- reward and termination flag are the documented ones (±1 per box onto/off a target, +10 when solved,
−0.1 per step; or 10 on completion only; LAST iff solved or time limit), on the prescribed successor -/
theorem sokoban_step_ts_eq (rnd : Rat → Rat) (cfg : Cfg) (s : State) (a : Nat) (ha : a < 4)
    (hf : Grid.shaped s.fgrid cfg.n cfg.n = true) (hv : Grid.shaped s.vgrid cfg.n cfg.n = true)
    (hag : inside cfg.n s.agent) :
    (step rnd cfg s a).2.reward = [rewardSpec rnd cfg s (stepSpec cfg.n s a)] ∧
    ((step rnd cfg s a).2.stepType = .last ↔ doneSpec cfg (stepSpec cfg.n s a) = true) ∧
    ((step rnd cfg s a).2.stepType ≠ .last → (step rnd cfg s a).2.stepType = .mid) :=
  Sokoban.step_ts_eq rnd cfg s a ha hf hv hag

/-- L1 = L2 as ONE equation (wave 3: successor state AND the whole timestep — step type, reward, DISCOUNT, observation):
on a well-shaped board with the agent inside it, for every action 0..3, `step` is the step prescribed by the rules
(`stepL2`: `stepSpec` successor; LAST with discount 0 iff all boxes on targets or limit reached, else MID with discount
1; documented reward; observation of the successor) -/
theorem sokoban_step_refines (rnd : Rat → Rat) (cfg : Cfg) (s : State) (a : Nat) (ha : a < 4)
    (hf : Grid.shaped s.fgrid cfg.n cfg.n = true) (hv : Grid.shaped s.vgrid cfg.n cfg.n = true)
    (hag : inside cfg.n s.agent) : step rnd cfg s a = stepL2 rnd cfg s a :=
  Sokoban.step_refines rnd cfg s a ha hf hv hag

/-- the DISCOUNT spelled out (audit r5 #13; `stepL2` hides it inside `condLast`): on a well-shaped board with the agent inside, for
every action 0..3, the discount of `step` is 0 iff the successor prescribed by the rules has all boxes on targets or has reached the
time limit, else 1 -/
theorem sokoban_step_discount_rules (rnd : Rat → Rat) (cfg : Cfg) (s : State) (a : Nat) (ha : a < 4)
    (hf : Grid.shaped s.fgrid cfg.n cfg.n = true) (hv : Grid.shaped s.vgrid cfg.n cfg.n = true)
    (hag : inside cfg.n s.agent) :
    (step rnd cfg s a).2.discount =
      [if boxesOnTarget cfg.n (stepSpec cfg.n s a) = nBoxes ∨ cfg.timeLimit ≤ (stepSpec cfg.n s a).stepCount then 0 else 1] := by
  rw [Sokoban.step_refines rnd cfg s a ha hf hv hag, Sokoban.stepL2_discount]
  simp [doneSpec]

/-- `detect_noop_action` keeps the action exactly when the rules allow the move -/
theorem sokoban_noop_iff_illegal (n : Nat) (s : State) (a : Nat) (ha : a < 4)
    (hf : Grid.shaped s.fgrid n n = true) (hv : Grid.shaped s.vgrid n n = true) :
    detectNoop n s.vgrid s.fgrid a s.agent = if legal n s a then (a : Int) else NOOP :=
  Sokoban.detectNoop_eq n s a ha hf hv

-- a push: agent at (1,0) moves right into the box at (1,1); the cell behind, (1,2), is free
example : pushes 3 ⟨[[1,2,2],[0,2,2],[0,0,0]], [[0,4,4],[3,4,0],[0,4,0]], (1, 0), 0⟩ 1 := by decide

/-- reward of ONE step, any state, any action (transliteration of `reward.py`, `count_targets` = L1 count): the
dense reward is `rnd (k + rnd (−0.1))` with the integer
`k = (boxes on target after − before)·SINGLE_BOX_BONUS + 10·[successor solved]`; the sparse reward is `10·[successor solved]` -/
theorem sokoban_step_reward (rnd : Rat → Rat) (cfg : Cfg) (s : State) (a : Int) :
    (step rnd cfg s a).2.reward =
      [if cfg.dense then
         rnd ((((countTargets (step rnd cfg s a).1 : Int) - (countTargets s : Int) +
                10 * (if levelComplete (step rnd cfg s a).1 then 1 else 0) : Int) : Rat) + rnd (-1 / 10))
       else ((10 * (if levelComplete (step rnd cfg s a).1 then 1 else 0) : Int) : Rat)] := by
  rw [Sokoban.step_reward]
  cases hd : cfg.dense
  · rw [Sokoban.reward_sparse]; simp
  · rw [Sokoban.reward_dense]; simp [Sokoban.gain]

/-- the same in the documented terms, from a consistent board with an action 0..3: the box term is `pushGain`
(+1 iff the move pushes a box ONTO a target, −1 iff it pushes a box OFF a target, 0 otherwise: walk, blocked move,
push target→target or floor→floor), the bonus 10 is paid iff all boxes are on targets in the successor prescribed by
the rules, the step penalty is −0.1 -/
theorem sokoban_step_reward_rules (rnd : Rat → Rat) (cfg : Cfg) (hd : cfg.dense = true) (s : State) (a : Nat)
    (ha : a < 4) (hc : Consistent cfg.n s) :
    (step rnd cfg s a).2.reward =
      [rnd (((pushGain cfg.n s a + (if boxesOnTarget cfg.n (stepSpec cfg.n s a) = nBoxes then 10 else 0) : Int) : Rat)
        + rnd (-1 / 10))] := Sokoban.step_reward_rules rnd cfg hd s a ha hc

/-- a step changes the number of boxes on targets by exactly `pushGain` ∈ {−1, 0, 1} -/
theorem sokoban_step_box_change (n : Nat) (s : State) (a : Nat) (ha : a < 4) (hc : Consistent n s) :
    (boxesOnTarget n (stepSpec n s a) : Int) - (boxesOnTarget n s : Int) = pushGain n s a ∧
    -1 ≤ pushGain n s a ∧ pushGain n s a ≤ 1 :=
  ⟨Sokoban.spec_boxes_change n s a ha hc, Sokoban.pushGain_range n s a⟩

-- a push onto a target (+1) and a push off a target (−1) on a consistent 3×3 board
example : Consistent 3 ⟨[[1,2,0],[0,2,2],[2,0,0]], [[0,0,0],[3,4,0],[4,4,4]], (1, 0), 0⟩ ∧
    pushGain 3 ⟨[[1,2,0],[0,2,2],[2,0,0]], [[0,0,0],[3,4,0],[4,4,4]], (1, 0), 0⟩ 1 = 0 ∧
    pushGain 3 ⟨[[1,2,0],[0,0,2],[2,0,0]], [[0,0,0],[3,4,0],[4,4,4]], (1, 0), 0⟩ 1 = 1 ∧
    pushGain 3 ⟨[[1,2,0],[0,2,0],[2,0,0]], [[0,0,0],[3,4,0],[4,4,4]], (1, 0), 0⟩ 1 = -1 := by decide

/-- telescoped DENSE return in exact arithmetic (`rnd = id`), for EVERY start state and EVERY action sequence
(no hypothesis at all): return = −0.1·steps + (boxes on target at the end − at the start) + 10·(number of steps whose
successor state is solved).  `step` is not absorbing (neither in the model nor in `env.py`): a step taken from a
solved state whose successor is still solved is paid the bonus again, hence the count instead of `[solved]`. -/
theorem sokoban_episode_return (cfg : Cfg) (hd : cfg.dense = true) (s : State) (as : List Int) :
    runReturn id cfg s as =
      (-1 / 10 : Rat) * (as.length : Rat) +
      (((countTargets (runState id cfg s as) : Int) - (countTargets s : Int) : Int) : Rat) +
      10 * ((solvedSteps id cfg s as : Nat) : Rat) := Sokoban.run_return_dense cfg hd s as

/-- in an episode in the sense of the API (`ProperEpisode`: no `step` after a LAST timestep; LAST ⇐ solved or time
limit) the bonus is paid at most once, on the last step: the number of solved successors is `[final state solved]` -/
theorem sokoban_solved_steps_proper (rnd : Rat → Rat) (cfg : Cfg) (s : State) (as : List Int)
    (hp : ProperEpisode rnd cfg s as) :
    solvedSteps rnd cfg s as = if as ≠ [] ∧ levelComplete (runState rnd cfg s as) = true then 1 else 0 :=
  Sokoban.solvedSteps_proper rnd cfg s as hp

/-- the literal documented form for a proper, non-empty episode (exact arithmetic, dense reward):
return = −0.1·steps + (boxes on target at end − at start) + 10·[solved] -/
theorem sokoban_episode_return_proper (cfg : Cfg) (hd : cfg.dense = true) (s : State) (as : List Int)
    (hne : as ≠ []) (hp : ProperEpisode id cfg s as) :
    runReturn id cfg s as =
      (-1 / 10 : Rat) * (as.length : Rat) +
      (((countTargets (runState id cfg s as) : Int) - (countTargets s : Int) : Int) : Rat) +
      10 * (if levelComplete (runState id cfg s as) then 1 else 0) := by
  rw [Sokoban.run_return_dense cfg hd s as, Sokoban.solvedSteps_proper id cfg s as hp]
  cases h : levelComplete (runState id cfg s as) <;> simp [hne]

/-- the same with the rule-level count `boxesOnTarget` for a consistent start and actions 0..3 -/
theorem sokoban_episode_return_rules (cfg : Cfg) (hd : cfg.dense = true) (s : State) (as : List Int)
    (hc : Consistent cfg.n s) (ha : ValidActions as) :
    runReturn id cfg s as =
      (-1 / 10 : Rat) * (as.length : Rat) +
      (((boxesOnTarget cfg.n (runState id cfg s as) : Int) - (boxesOnTarget cfg.n s : Int) : Int) : Rat) +
      10 * ((solvedSteps id cfg s as : Nat) : Rat) := by
  have h := Sokoban.run_consistent id cfg s as ha hc
  rw [Sokoban.run_return_dense cfg hd s as, Sokoban.countTargets_eq cfg.n s hc.1 hc.2.1,
    Sokoban.countTargets_eq cfg.n _ h.1 h.2.1]

/-- with float32 rounding the return is not the exact telescoped number, but every step reward is
`rnd (k_t + rnd (−0.1))` for integers `k_t` (`runGains`) whose sum telescopes exactly — any `rnd`, state, actions -/
theorem sokoban_episode_return_rounded (rnd : Rat → Rat) (cfg : Cfg) (hd : cfg.dense = true) (s : State) (as : List Int) :
    runRewards rnd cfg s as = (runGains rnd cfg s as).map (fun k => rnd (((k : Int) : Rat) + rnd (-1 / 10))) ∧
    (runGains rnd cfg s as).sum =
      (countTargets (runState rnd cfg s as) : Int) - (countTargets s : Int) + 10 * (solvedSteps rnd cfg s as : Int) :=
  ⟨Sokoban.runRewards_dense rnd cfg hd s as, Sokoban.runGains_sum rnd cfg s as⟩

/-- SPARSE return: 10 per step whose successor is solved — any rounding, state, action sequence -/
theorem sokoban_episode_return_sparse (rnd : Rat → Rat) (cfg : Cfg) (hd : cfg.dense = false) (s : State) (as : List Int) :
    runReturn rnd cfg s as = 10 * ((solvedSteps rnd cfg s as : Nat) : Rat) := Sokoban.run_return_sparse rnd cfg hd s as

/-- the form "10·[solved]" is FALSE for arbitrary action sequences: `step` accepts a solved state and pays the bonus on
every step whose successor is solved.  3×3 board with the 4 boxes on the 4 targets, two blocked moves (Up):
return = −0.2 + 0 + 20, not −0.2 + 0 + 10.  (`env.py` behaves the same; calling `step` after LAST is outside the
API protocol, so this is a limitation of the literal statement, not a defect.) -/
theorem sokoban_episode_return_literal_witness :
    ∃ (cfg : Cfg) (s : State) (as : List Int), cfg.dense = true ∧ Consistent cfg.n s ∧ ValidActions as ∧
      runReturn id cfg s as ≠
        (-1 / 10 : Rat) * (as.length : Rat) +
        (((countTargets (runState id cfg s as) : Int) - (countTargets s : Int) : Int) : Rat) +
        10 * (if levelComplete (runState id cfg s as) then 1 else 0) :=
  ⟨⟨3, 100, true⟩, ⟨[[1,2,2],[0,2,2],[0,0,0]], [[0,4,4],[3,4,4],[0,0,0]], (1, 0), 0⟩, [0, 0], by decide +kernel⟩

-- a proper episode whose last step pushes the fourth box onto its target (4×4; Down, Up, Left): it is solved and
-- the return is −0.3 + 1 + 10
example :
    let cfg : Cfg := ⟨4, 100, true⟩
    let s : State := ⟨[[2,2,0,0],[2,2,0,0],[0,0,0,0],[0,0,0,0]], [[4,4,0,0],[4,0,4,3],[0,0,0,0],[0,0,0,0]], (1, 3), 0⟩
    Consistent cfg.n s ∧ ProperEpisode id cfg s [2, 0, 3] ∧ levelComplete (runState id cfg s [2, 0, 3]) = true ∧
      runReturn id cfg s [2, 0, 3] = 107 / 10 := by
  decide +kernel
end Props.C09

namespace Props.C11
/-- the step counter advances by one on every step; a step that reaches the limit is LAST -/
theorem sokoban_step_count (rnd : Rat → Rat) (cfg : Cfg) (s : State) (a : Int) :
    (step rnd cfg s a).1.stepCount = s.stepCount + 1 ∧
    (s.stepCount + 1 ≥ cfg.timeLimit → (step rnd cfg s a).2.stepType = .last) :=
  Sokoban.step_count rnd cfg s a

/-- both directions (wave 3): `step` answers LAST exactly when the successor is solved or the limit is reached — never
earlier; any state, any action value -/
theorem sokoban_last_iff (rnd : Rat → Rat) (cfg : Cfg) (s : State) (a : Int) :
    (step rnd cfg s a).2.stepType = .last ↔
      (levelComplete (step rnd cfg s a).1 = true ∨ cfg.timeLimit ≤ s.stepCount + 1) :=
  Sokoban.step_last_iff rnd cfg s a

/-- Sokoban as an abstract step system (Core/Episode.lean) with the two-sided single-step law -/
theorem sokoban_exact (rnd : Rat → Rat) (cfg : Cfg) :
    Ep.Exact (Ep.ofStep (step rnd cfg) (·.stepCount)) (fun _ => True)
      (fun s a => levelComplete (step rnd cfg s a).1 = true) .ge cfg.timeLimit :=
  Ep.Exact.of_step (fun _ _ h => h) (fun s a _ => (Sokoban.step_count rnd cfg s a).1)
    (fun s a _ => Sokoban.step_last_iff rnd cfg s a)

/-- whole episodes: from any state with counter 0, along ANY action list of length ≥ time_limit on which no step
before the limit produces a solved board, the first LAST timestep is emitted exactly at step number `time_limit` -/
theorem sokoban_episode_ends_exactly_at_limit (rnd : Rat → Rat) (cfg : Cfg) (hT : 0 < cfg.timeLimit) (s : State)
    (h0 : s.stepCount = 0) (as : List Int) (hlen : cfg.timeLimit ≤ as.length)
    (hno : ∀ (j : Nat) (a : Int), (j : Int) + 1 < cfg.timeLimit → as[j]? = some a →
      ¬ levelComplete (step rnd cfg ((Ep.ofStep (step rnd cfg) (·.stepCount)).stateAt s as j) a).1 = true) :
    Ep.firstLastTS ((Ep.rollout (step rnd cfg) s as).map (·.2)) = some cfg.timeLimit.toNat :=
  Ep.rollout_ends_exactly_at_limit (sokoban_exact rnd cfg) hT s trivial h0 as hlen hno

/-- … and never later, whatever happens: some step number `k ≤ time_limit` emits the first LAST -/
theorem sokoban_episode_ends_by_limit (rnd : Rat → Rat) (cfg : Cfg) (hT : 0 < cfg.timeLimit) (s : State)
    (h0 : s.stepCount = 0) (as : List Int) (hlen : cfg.timeLimit ≤ as.length) :
    ∃ k, Ep.firstLastTS ((Ep.rollout (step rnd cfg) s as).map (·.2)) = some k ∧ 0 < k ∧ (k : Int) ≤ cfg.timeLimit :=
  Ep.rollout_ends_by_limit (sokoban_exact rnd cfg).toLimited hT s trivial h0 as hlen

/-- LAST at the level of the RULES (audit r5 #4): from a consistent board, for every action 0..3, `step` answers LAST exactly when
the successor is a solved level — `IsSolution`: consistent and every box on a target, recomputed from the raw grids, not the L1
flag `levelComplete` — or the time limit is reached -/
theorem sokoban_last_iff_rules (rnd : Rat → Rat) (cfg : Cfg) (s : State) (a : Nat) (ha : a < 4)
    (hc : Consistent cfg.n s) :
    (step rnd cfg s a).2.stepType = .last ↔
      (IsSolution cfg.n (step rnd cfg s a).1 ∨ cfg.timeLimit ≤ s.stepCount + 1) :=
  Sokoban.last_iff_rules rnd cfg s a ha hc

/-- the two episode iterators coincide (audit r5 #13): the C11 theorems are stated on `Ep.rollout` / `Ep.ofStep … .run`, the C07 / C09 /
C01 theorems on `runState`; both iterate the same `step` -/
theorem sokoban_run_eq (rnd : Rat → Rat) (cfg : Cfg) (s : State) (as : List Int) :
    (Ep.ofStep (step rnd cfg) (·.stepCount)).run s as = runState rnd cfg s as := by
  induction as generalizing s with
  | nil => rfl
  | cons a t ih => exact ih _

-- three blocked moves with limit 3 on an unsolved board: MID, MID, LAST
example : Ep.firstLastTS ((Ep.rollout (step id ⟨3, 3, true⟩)
    ⟨[[1,2,2],[0,2,2],[0,0,0]], [[0,4,4],[3,4,0],[0,4,0]], (1, 0), 0⟩ [0, 0, 0]).map (·.2)) = some 3 := by decide +kernel
end Props.C11

namespace Props.C12
/-- the observation shows the variable and fixed grid and the step count of the successor state -/
theorem sokoban_obs_faithful (rnd : Rat → Rat) (cfg : Cfg) (s : State) (a : Int) :
    (step rnd cfg s a).2.obs = observe (step rnd cfg s a).1 := Sokoban.obs_faithful rnd cfg s a

/-- the same at `reset` (wave 3): the FIRST timestep shows both grids and the counter of the generated state, and the
reset state IS the generated state -/
theorem sokoban_reset_obs_faithful (g : State) :
    (Sokoban.reset g).2.obs = observe (Sokoban.reset g).1 ∧ (Sokoban.reset g).2.stepType = .first ∧
    (Sokoban.reset g).1 = g := Sokoban.reset_obs_faithful g
end Props.C12

namespace Props.C01
/-- the reset observation (the generator's state `g`, `restart`) has every leaf inside the interval
`obsBounds cfg` lists for it: both planes of `grid` in `[0, 4]`, `step_count = 0 ≤ time_limit`.
Hypotheses: the generated board is consistent and its counter starts at 0. -/
theorem sokoban_reset_obs_in_bounds (cfg : Cfg) (g : State) (hc : Consistent cfg.n g) (h0 : g.stepCount = 0)
    (htl : 0 ≤ cfg.timeLimit) : ObsInBounds cfg (Sokoban.reset g).2.obs :=
  Sokoban.reset_obs_in_bounds cfg g hc h0 htl

/-- every step taken from a consistent state of a running episode (`step_count < time_limit`; `0 ≤ step_count`
is part of `Consistent`) with any action 0..3 (legal or not) emits an observation inside `obsBounds cfg` —
including the terminal step, where `step_count = time_limit` -/
theorem sokoban_step_obs_in_bounds (rnd : Rat → Rat) (cfg : Cfg) (s : State) (a : Nat) (ha : a < 4)
    (hc : Consistent cfg.n s) (h1 : s.stepCount < cfg.timeLimit) :
    ObsInBounds cfg (step rnd cfg s a).2.obs := Sokoban.step_obs_in_bounds rnd cfg s a ha hc h1

example : Consistent 3 ⟨[[1,2,2],[0,2,2],[0,0,0]], [[0,4,4],[3,4,4],[0,0,0]], (1, 0), 0⟩ := by decide
/-- the bound on `step_count` is attained on the step that reaches the limit, and the bound 4 on `grid` by a box -/
example : (step id ⟨3, 1, false⟩ ⟨[[1,2,2],[0,2,2],[0,0,0]], [[0,4,4],[3,4,0],[0,4,0]], (1, 0), 0⟩ 1).2.obs.stepCount = 1 := by
  decide +kernel

/-! NOTE on what the membership theorems of this section do and do not cover (audits r4 #6, r5 #6, r6 #8): the dtype tag of every leaf
is written by `toNValue` (by construction) — a wrong dtype in the real code cannot falsify `….valid (toNValue …) = true`; dtypes and
field order of the real observations are compared by the `sokoban.spec` / `sokoban.state` ops (`nvalue`: field order, shape, dtype, data) and
`jax.eval_shape` in the sweeps.  Shapes are READ OFF the value by `toNValue` (widths off the first row): see `…_obs_valid_only`. -/

/-! #### membership in the DECLARED spec (wave 3): structure, shapes, dtypes and bounds -/
open Sp PzS

/-- the model's specs against the table generated from the real spec objects (Gen/Specs.lean) for the two catalogue
configurations: every leaf of the real spec is the model's, in the same order (the `sokoban.spec` op also compares them with the
real objects on every run, for every configuration of the adapter).
(audit r5 #2) The generated table now holds every leaf whose BOUNDS are small, so the observation conjuncts are about the WHOLE
`obsSpec` — the `grid` leaf (10, 10, 2) uint8 in `[0, 4]` included; they used to be filtered to the leaves of at most 160 elements —,
action / reward / discount specs are compared for both catalogue configurations, and for the SPEC-ONLY
`Sokoban(ToyGenerator(), time_limit=7)` (the specs do not depend on the time limit: `step_count` is an unbounded `specs.Array`) -/
theorem sokoban_obsSpec_generated :
    prefixed "observation_spec." (obsSpec ⟨10, 120, true⟩) = declared "sokoban-toy" "observation_spec." ∧
    [("action_spec", actionSpec)] = declared "sokoban-toy" "action_spec" ∧
    [("reward_spec", PzS.rewardSpec)] = declared "sokoban-toy" "reward_spec" ∧
    [("discount_spec", discountSpec)] = declared "sokoban-toy" "discount_spec" ∧
    prefixed "observation_spec." (obsSpec ⟨10, 120, true⟩) = declared "sokoban-simple" "observation_spec." ∧
    [("action_spec", actionSpec)] = declared "sokoban-simple" "action_spec" ∧
    [("reward_spec", PzS.rewardSpec)] = declared "sokoban-simple" "reward_spec" ∧
    [("discount_spec", discountSpec)] = declared "sokoban-simple" "discount_spec" ∧
    prefixed "observation_spec." (obsSpec ⟨10, 7, true⟩) = declared "spec-only-sokoban-toy" "observation_spec." ∧
    [("action_spec", actionSpec)] = declared "spec-only-sokoban-toy" "action_spec" ∧
    [("reward_spec", PzS.rewardSpec)] = declared "spec-only-sokoban-toy" "reward_spec" ∧
    [("discount_spec", discountSpec)] = declared "spec-only-sokoban-toy" "discount_spec" := by
  refine ⟨by decide +kernel, by decide +kernel, by decide +kernel, by decide +kernel, by decide +kernel, by decide +kernel,
    by decide +kernel, by decide +kernel, by decide +kernel, by decide +kernel, by decide +kernel, by decide +kernel⟩

/-- the `reset` observation of every consistent generated level is accepted by `observation_spec.validate`: fields
`grid`, `step_count`; shapes `(n, n, 2)`, `()`; dtypes uint8, int32; cells in [0, 4] -/
theorem sokoban_reset_obs_valid (cfg : Cfg) (g : State) (hc : Consistent cfg.n g) :
    (obsSpec cfg).valid (toNValue cfg (Sokoban.reset g).2.obs) = true := Sokoban.reset_obs_valid cfg g hc

/-- for EVERY valid draw of `ToyGenerator` and for `SimpleSolveGenerator` (GRID_SIZE = 10) -/
theorem sokoban_generated_reset_obs_valid (cfg : Cfg) (hn : cfg.n = 10) :
    (∀ idx s, toyGenerate idx = some s → (obsSpec cfg).valid (toNValue cfg (Sokoban.reset s).2.obs) = true) ∧
    (∀ s, simpleGenerate = some s → (obsSpec cfg).valid (toNValue cfg (Sokoban.reset s).2.obs) = true) :=
  ⟨fun _ s hg => Sokoban.reset_obs_valid cfg s (by rw [hn]; exact Sokoban.cert_consistent (Sokoban.toy_cert_of_eq hg)),
   fun s hg => Sokoban.reset_obs_valid cfg s (by rw [hn]; exact Sokoban.cert_consistent (Sokoban.simple_cert_of_eq hg))⟩

/-- every `step` observation from a consistent board, any action 0..3 (legal or not), any rounding, up to and including
the terminal step — and beyond (the declared `step_count` is an unbounded Array, so no hypothesis on the counter) -/
theorem sokoban_step_obs_valid (rnd : Rat → Rat) (cfg : Cfg) (s : State) (a : Nat) (ha : a < 4)
    (hc : Consistent cfg.n s) : (obsSpec cfg).valid (toNValue cfg (step rnd cfg s a).2.obs) = true :=
  Sokoban.step_obs_valid rnd cfg s a ha hc

/-- composed: every observation of every episode on a shipped toy level — any draw, any actions 0..3 played so far, any
further action 0..3 -/
theorem sokoban_toy_obs_valid_along (rnd : Rat → Rat) (cfg : Cfg) (hn : cfg.n = 10) (idx : Nat) (s : State)
    (hg : toyGenerate idx = some s) (as : List Int) (ha : ValidActions as) (a : Nat) (ha4 : a < 4) :
    (obsSpec cfg).valid (toNValue cfg (step rnd cfg (runState rnd cfg s as) a).2.obs) = true :=
  Sokoban.obs_valid_along rnd cfg s (by rw [hn]; exact Sokoban.cert_consistent (Sokoban.toy_cert_of_eq hg)) as ha a ha4

/-- what membership means: `validate` accepts an observation ONLY IF its planes have `n` rows, `n·n·2` cells in all,
every one in [0, 4]  CAVEAT (audits r4 #7, r5 #5, r6 #5): for every field that is a nested list, `toNValue` reads the widths off the FIRST row of the
nested list, so the shape conjuncts here mean "row count, length of the first row, total number of cells" — a ragged value with the right total can be a
member, and nothing is concluded about the later rows.  Rectangularity is part of the invariant (`SpecInv` / `Shaped` / `Rect…`) under which the
forward theorems (`…_reset_obs_valid`, `…_step_obs_valid`, `…_along`) are proved, i.e. it holds of every EMITTED observation. -/
theorem sokoban_obs_valid_only (cfg : Cfg) (o : Obs) (h : (obsSpec cfg).valid (toNValue cfg o) = true) :
    List.length o.vgrid = cfg.n ∧ (stackLast o.vgrid o.fgrid).length = cfg.n * cfg.n * 2 ∧
    ∀ v ∈ stackLast o.vgrid o.fgrid, 0 ≤ v ∧ v ≤ 4 := Sokoban.obs_valid_only cfg o h

-- accepted: the 3×3 example; rejected: an encoding 5, a board of the wrong size
example :
    (obsSpec ⟨3, 9, true⟩).valid (toNValue ⟨3, 9, true⟩ ⟨[[0,4,4],[3,4,4],[0,0,0]], [[1,2,2],[0,2,2],[0,0,0]], 99⟩) = true ∧
    (obsSpec ⟨3, 9, true⟩).valid (toNValue ⟨3, 9, true⟩ ⟨[[0,5,4],[3,4,4],[0,0,0]], [[1,2,2],[0,2,2],[0,0,0]], 0⟩) = false ∧
    (obsSpec ⟨4, 9, true⟩).valid (toNValue ⟨4, 9, true⟩ ⟨[[0,4,4],[3,4,4],[0,0,0]], [[1,2,2],[0,2,2],[0,0,0]], 0⟩) = false := by
  decide +kernel

/-- `action_spec.generate_value()` = 0 ("up") is a member of the well-formed `DiscreteArray(4)`, and `step` answers it
in EVERY state with a protocol-conform timestep -/
theorem sokoban_accepts_generate_value (rnd : Rat → Rat) (cfg : Cfg) (s : State) :
    actionSpec.WF = true ∧ actionSpec.valid actionSpec.generate = true ∧
    actionSpec.generate = ⟨[], .int32, [0]⟩ ∧ StepOK none false (step rnd cfg s 0).2 = true :=
  Sokoban.accepts_generate_value rnd cfg s

/-- reward and discount of every `step` (ALL states, actions, roundings) are accepted by `reward_spec` / `discount_spec` -/
theorem sokoban_reward_discount_valid (rnd : Rat → Rat) (cfg : Cfg) (s : State) (a : Int) :
    PzS.rewardSpec.valid (scalarArr (step rnd cfg s a).2.reward) = true ∧
    discountSpec.valid (scalarArr (step rnd cfg s a).2.discount) = true := by
  refine stepOK_reward_discount_valid false _ ?_
  unfold step condLast
  simp only []
  split <;> split <;> rfl
end Props.C01
