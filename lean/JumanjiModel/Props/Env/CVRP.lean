/-
Property theorems for CVRP.  Only statements (the proofs are in Env/CVRP/Lemmas.lean).
`Feasible maxCap s` is the invariant of DESIGN Appendix A.2, recomputed from the raw state arrays;
it holds for every reset state (`cvrp_reset_feasible`) and is preserved by every step
(`cvrp_step_feasible`, `cvrp_illegal_terminates`), and the driver evaluates the same definition on
implementation states.  `D` is the distance matrix of the instance.
-/
import JumanjiModel.Env.CVRP.Lemmas
import JumanjiModel.Env.CVRP.GenLemmas
import JumanjiModel.Env.CVRP.Bounds
import JumanjiModel.Env.CVRP.Spec
open Jm CVRP

/-- a non-trivial feasible state (3 customers, capacity 5): depot → 2 → depot → 1, customer 3 open -/
def CVRP.exampleState : State :=
  { coords := [[0, 0], [1, 0], [0, 1], [1, 1]], demands := [0, 2, 4, 3], position := 1, capacity := 3,
    visited := [false, true, true, false], trajectory := [0, 2, 0, 1, 0, 0], numVisits := 4 }

namespace Props.C01
/-- `reset` for every draw of `UniformGenerator` (`n + 1` points of the unit square, demands in [1, max_demand])
when `max_demand ≤ max_capacity` (checked by the constructor): coordinates, demands/max_capacity,
capacity/max_capacity ∈ [0,1]; position, trajectory ∈ [0, n]; the two masks ∈ {0,1} -/
theorem cvrp_reset_obs_in_bounds (c : Cfg) (n : Nat) (maxDemand : Int) (cd : List (List Rat)) (dd : List Int)
    (hd : validDraw n maxDemand cd dd) (hm : maxDemand ≤ c.maxCap) :
    Jm.OB.InBounds (obsBounds n) (obsLeaves (reset c n cd dd).2.obs) :=
  CVRP.reset_obs_in_bounds c n maxDemand cd dd hd hm

/-- every step with an action of the action spec (`a ≤ n`; valid or not, terminal step included), any distance
matrix and reward function, from a state satisfying `ObsInv c n` -/
theorem cvrp_step_obs_in_bounds (c : Cfg) (D : Dist) (n : Nat) (s : State) (a : Nat) (ha : a ≤ n)
    (h : ObsInv c n s) : Jm.OB.InBounds (obsBounds n) (obsLeaves (step c D s a).2.obs) :=
  CVRP.step_obs_in_bounds c D n s a ha h

/-- `ObsInv c n` is established by `reset` and preserved by every step -/
theorem cvrp_reset_obsInv (c : Cfg) (n : Nat) (maxDemand : Int) (cd : List (List Rat)) (dd : List Int)
    (hd : validDraw n maxDemand cd dd) (hm : maxDemand ≤ c.maxCap) : ObsInv c n (reset c n cd dd).1 :=
  CVRP.reset_obsInv c n maxDemand cd dd hd hm
theorem cvrp_step_obsInv (c : Cfg) (D : Dist) (n : Nat) (s : State) (a : Nat) (ha : a ≤ n)
    (h : ObsInv c n s) : ObsInv c n (step c D s a).1 := CVRP.step_obsInv c D n s a ha h

example : ObsInv ⟨5, true, 1⟩ 3 CVRP.exampleState := by decide +kernel
example : validDraw 2 3 [[0, 0], [1, 1/2], [1/3, 1]] [1, 3, 2] := by decide +kernel

/-! NOTE on what the membership theorems of this section do and do not cover (audits r4 #6, r5 #6, r6 #8): the dtype tag of every leaf
is written by `toNValue` (by construction) — a wrong dtype in the real code cannot falsify `….valid (toNValue …) = true`; dtypes and
field order of the real observations are compared by the `cvrp.state` op (`nvalue`: field order, shape, dtype, data; harness/spec_wave3.py,
wave3_routing.py) and `jax.eval_shape` in the sweeps.  Shapes are READ OFF the value by `toNValue` (widths off the first row): see
`…_obs_valid_only`. -/

/-! #### full spec membership (structure, shapes, dtypes, bounds) — Env/CVRP/Spec.lean

`obsSpec n` / `actionSpec n` are the declared `observation_spec` / `action_spec` of a `num_nodes = n` environment as values
of the spec algebra (Spec/Spec.lean); `toNValue o` is the model observation as the seven arrays the implementation emits,
every shape read off the value; `Nested.valid` is the transliteration of `validate`.  (`demands` and `capacity` are the
exact quotients `x / max_capacity`, as in the interval theorems above.) -/

open Sp PzS in
/-- the symbolic specs ARE the specs generated from the real spec objects (Gen/Specs.lean) for the catalogue
configuration `cvrp-6` and the spec-only configuration with 3 nodes (two sizes: `trajectory` has `2 * n` entries — 12 and 6 —
bounded by `n + 1`), reward and discount specs included -/
theorem cvrp_obsSpec_generated :
    prefixed "observation_spec." (obsSpec 6) = declared "cvrp-6" "observation_spec." ∧
    [("action_spec", actionSpec 6)] = declared "cvrp-6" "action_spec" ∧
    [("reward_spec", rewardSpec)] = declared "cvrp-6" "reward_spec" ∧
    [("discount_spec", discountSpec)] = declared "cvrp-6" "discount_spec" ∧
    prefixed "observation_spec." (obsSpec 3) = declared "spec-only-cvrp-3" "observation_spec." ∧
    [("action_spec", actionSpec 3)] = declared "spec-only-cvrp-3" "action_spec" ∧
    [("reward_spec", rewardSpec)] = declared "spec-only-cvrp-3" "reward_spec" ∧
    [("discount_spec", discountSpec)] = declared "spec-only-cvrp-3" "discount_spec" := by
  refine ⟨by decide +kernel, by decide +kernel, by decide +kernel, by decide +kernel,
    by decide +kernel, by decide +kernel, by decide +kernel, by decide +kernel⟩

/-- the `reset` observation — every size, every valid draw of `UniformGenerator`, `max_demand ≤ max_capacity` (checked by
the constructor) — is accepted by `observation_spec.validate`: coordinates `(n+1, 2)` float32 in [0, 1]; demands `(n+1,)`
float32 in [0, 1]; unvisited_nodes, action_mask `(n+1,)` bool; position `()` int32 in [0, n]; trajectory `(2n,)` int32
in [0, n+1]; capacity `()` float32 in [0, 1].  `validDraw` is the documented range and forces `1 ≤ max_demand`
(`Props.C10.cvrp_validUniform_pos`); for `max_demand ≤ 0` — accepted by the constructor — the real observation holds
`nan`/`inf` and is rejected: `Props.C10.cvrp_max_demand_zero_witness` (audit r4 #1).  The dtype tag of every leaf is written
by `toNValue` (by construction); dtypes and field order of the real observations are compared by the `cvrp.state` op (`nvalue`)
and `jax.eval_shape` in the sweeps. -/
theorem cvrp_reset_obs_valid (c : Cfg) (n : Nat) (maxDemand : Int) (cd : List (List Rat)) (dd : List Int)
    (hd : validDraw n maxDemand cd dd) (hm : maxDemand ≤ c.maxCap) :
    (obsSpec n).valid (toNValue (reset c n cd dd).2.obs) = true :=
  CVRP.reset_obs_valid c n maxDemand cd dd hd hm

/-- the same for the observation of every `step` with an action of the action spec (`a ≤ n`; legal or not, the terminal
step included; any distance matrix, either reward function) from a state satisfying `SpecInv c n` … -/
theorem cvrp_step_obs_valid (c : Cfg) (D : Dist) (n : Nat) (s : State) (a : Nat) (ha : a ≤ n) (h : SpecInv c n s) :
    (obsSpec n).valid (toNValue (step c D s a).2.obs) = true := CVRP.step_obs_valid c D n s a ha h

/-- … an invariant (`ObsInv c n` and the shapes of a `num_nodes = n` instance) that `reset` establishes for every valid
draw, every in-spec step preserves, and which therefore holds in every state of every in-spec play from `reset` -/
theorem cvrp_reset_specInv (c : Cfg) (n : Nat) (maxDemand : Int) (cd : List (List Rat)) (dd : List Int)
    (hd : validDraw n maxDemand cd dd) (hm : maxDemand ≤ c.maxCap) : SpecInv c n (reset c n cd dd).1 :=
  CVRP.reset_specInv c n maxDemand cd dd hd hm
theorem cvrp_step_specInv (c : Cfg) (D : Dist) (n : Nat) (s : State) (a : Nat) (ha : a ≤ n) (h : SpecInv c n s) :
    SpecInv c n (step c D s a).1 := CVRP.step_specInv c D n s a ha h
theorem cvrp_obs_valid_along (c : Cfg) (D : Dist) (n : Nat) (maxDemand : Int) (cd : List (List Rat)) (dd : List Int)
    (hd : validDraw n maxDemand cd dd) (hm : maxDemand ≤ c.maxCap) (as : List Nat) (hok : ∀ a ∈ as, a ≤ n)
    (a : Nat) (ha : a ≤ n) :
    (obsSpec n).valid (toNValue
      (step c D ((Ep.ofStep (step c D) (fun s => (s.numVisits : Int))).run (reset c n cd dd).1 as) a).2.obs) = true :=
  CVRP.step_obs_valid c D n _ a ha
    (CVRP.specInv_along c D n _ as hok (CVRP.reset_specInv c n maxDemand cd dd hd hm))

/-- what membership means (so the theorems above are not hollow)  CAVEAT (audits r4 #7, r5 #5, r6 #5): for every field that is a nested list, `toNValue` reads the widths off the FIRST row of the
nested list, so the shape conjuncts here mean "row count, length of the first row, total number of cells" — a ragged value with the right total can be a
member, and nothing is concluded about the later rows.  Rectangularity is part of the invariant (`SpecInv` / `Shaped` / `Rect…`) under which the
forward theorems (`…_reset_obs_valid`, `…_step_obs_valid`, `…_along`) are proved, i.e. it holds of every EMITTED observation. -/
theorem cvrp_obs_valid_only (n : Nat) (o : Obs) (h : (obsSpec n).valid (toNValue o) = true) :
    o.coords.length = n + 1 ∧ (∀ x ∈ o.coords.flatten, 0 ≤ x ∧ x ≤ 1) ∧
    o.demands.length = n + 1 ∧ (∀ x ∈ o.demands, 0 ≤ x ∧ x ≤ 1) ∧ o.unvisited.length = n + 1 ∧
    o.position ≤ n ∧ o.trajectory.length = 2 * n ∧ (∀ v ∈ o.trajectory, v ≤ n + 1) ∧
    (0 ≤ o.capacity ∧ o.capacity ≤ 1) ∧ o.mask.length = n + 1 := CVRP.obs_valid_only n o h

/-- `action_spec.generate_value()` (= the depot) is a member of `action_spec` and is accepted by `step` in every state of
the invariant: the answer is a MID or LAST timestep whose observation is a member of `observation_spec` (reward and
discount: `cvrp_step_reward_discount_in_spec`, Props/C01.lean) -/
theorem cvrp_step_accepts_generate (c : Cfg) (D : Dist) (n : Nat) (s : State) (h : SpecInv c n s) :
    (actionSpec n).generate = ⟨[], .int32, [0]⟩ ∧ (actionSpec n).valid (actionSpec n).generate = true ∧
    (obsSpec n).valid (toNValue (step c D s 0).2.obs) = true ∧
    ((step c D s 0).2.stepType = .mid ∨ (step c D s 0).2.stepType = .last) :=
  CVRP.step_accepts_generate c D n s h

example : SpecInv ⟨5, true, 1⟩ 3 CVRP.exampleState := by decide +kernel
example : (obsSpec 3).valid (toNValue (stateToObs ⟨5, true, 1⟩ CVRP.exampleState)) = true ∧
    (obsSpec 3).valid (toNValue (stateToObs ⟨2, true, 1⟩ CVRP.exampleState)) = false ∧
    (obsSpec 3).valid (toNValue { stateToObs ⟨5, true, 1⟩ CVRP.exampleState with position := 4 }) = false ∧
    (obsSpec 3).valid (toNValue { stateToObs ⟨5, true, 1⟩ CVRP.exampleState with mask := [true] }) = false := by
  decide +kernel
end Props.C01

namespace Props.C04
/-- the mask bit of node `a` is set exactly when the rules allow visiting it -/
theorem cvrp_mask_iff_legal (s : State) (a : Nat) (hl : s.demands.length = s.visited.length) :
    (maskOf s).getD a false = true ↔ legal s a := CVRP.mask_iff_legal s a hl

/-- in a feasible state the validity test applied by `step` agrees with the rules: a masked-in
action is never treated as invalid, and every legal action is accepted -/
theorem cvrp_step_agrees (maxCap : Int) (s : State) (a : Nat) (hf : Feasible maxCap s)
    (ha : a < s.visited.length) : isValid s a = true ↔ legal s a :=
  CVRP.isValid_iff_legal maxCap s a hf ha

/-- the same stated about `step` itself (audit: `cvrp_step_agrees` speaks of the auxiliary `isValid` only): on a feasible
state and an in-range node, a legal action is carried out (the successor is `visitL2 c s a`: position, capacity, visited
flags, route, counter), an illegal one changes nothing and ends the episode (with the penalty: `cvrp_illegal_terminates`,
C05); hence the visit is counted iff the action was legal — a masked-in node (`cvrp_mask_iff_legal`) is never treated as
invalid and no legal node is refused -/
theorem cvrp_step_agrees_step (c : Cfg) (D : Dist) (s : State) (a : Nat) (hf : Feasible c.maxCap s)
    (ha : a < s.visited.length) :
    (legal s a → (step c D s a).1 = visitL2 c s a) ∧
    (¬ legal s a → (step c D s a).1 = s ∧ (step c D s a).2.stepType = .last) ∧
    (legal s a ↔ (step c D s a).1.numVisits = s.numVisits + 1) := CVRP.step_agrees_step c D s a hf ha

example : Feasible 5 CVRP.exampleState := by decide +kernel
example : legal CVRP.exampleState 0 ∧ ¬ legal CVRP.exampleState 1 ∧ ¬ legal CVRP.exampleState 2 ∧
    legal CVRP.exampleState 3 := by decide +kernel
end Props.C04

namespace Props.C05
/-- an illegal action ends the episode with the penalty `-len(trajectory)·√2`, zero discount, and
leaves the state untouched -/
theorem cvrp_illegal_terminates (c : Cfg) (D : Dist) (s : State) (a : Nat)
    (hf : Feasible c.maxCap s) (hD : dist D DEPOT DEPOT = 0) (ha : a < s.visited.length)
    (h : ¬ legal s a) :
    (step c D s a).1 = s ∧ (step c D s a).2.stepType = .last ∧
    (step c D s a).2.reward = [penalty c s] ∧ (step c D s a).2.discount = [0] :=
  CVRP.illegal_step c D s a hf hD ha h

/-- … and that penalty is the documented `-2 · num_nodes · √2` -/
theorem cvrp_penalty_documented (c : Cfg) (s : State) (hf : Feasible c.maxCap s) :
    penalty c s = -((2 * numNodes s : Nat) : Rat) * c.sqrt2 := CVRP.penalty_eq c s hf
end Props.C05

namespace Props.C06
/-- every instance the generator can draw starts feasible -/
theorem cvrp_reset_feasible (c : Cfg) (n : Nat) (cd : List (List Rat)) (dd : List Int)
    (hm : 0 ≤ c.maxCap) (hd : dd.length = n + 1) : Feasible c.maxCap (reset c n cd dd).1 :=
  CVRP.generate_feasible n c.maxCap cd dd hm hd

/-- a legal step keeps the state feasible: load within capacity on every route, no customer twice,
`capacity` = what is left on the current route, bookkeeping consistent -/
theorem cvrp_step_feasible (c : Cfg) (D : Dist) (s : State) (a : Nat) (hm : 0 ≤ c.maxCap)
    (hf : Feasible c.maxCap s) (hl : legal s a) : Feasible c.maxCap (step c D s a).1 :=
  CVRP.step_feasible c D s a hm hf hl

/-- the same for a masked-in action -/
theorem cvrp_masked_step_feasible (c : Cfg) (D : Dist) (s : State) (a : Nat) (hm : 0 ≤ c.maxCap)
    (hf : Feasible c.maxCap s) (hl : (maskOf s).getD a false = true) :
    Feasible c.maxCap (step c D s a).1 :=
  CVRP.step_feasible c D s a hm hf ((CVRP.mask_iff_legal s a hf.1).1 hl)

/-- an episode that ends by completion holds a complete feasible solution: every customer on the
trajectory exactly once, every route within capacity, vehicle back at the depot -/
theorem cvrp_complete_is_solution (maxCap : Int) (s : State) (hf : Feasible maxCap s)
    (h : allVisited s = true) : IsSolution maxCap s := CVRP.complete_is_solution maxCap s hf h
/-- the same about a state PRODUCED BY `step` (audit: `cvrp_complete_is_solution` has `allVisited s` as hypothesis and no
`step`): a legal action from a feasible state whose timestep is LAST leaves a complete feasible solution -/
theorem cvrp_step_complete_is_solution (c : Cfg) (D : Dist) (s : State) (a : Nat) (hm : 0 ≤ c.maxCap)
    (hf : Feasible c.maxCap s) (hl : legal s a) (hlast : (step c D s a).2.stepType = .last) :
    IsSolution c.maxCap (step c D s a).1 := CVRP.step_complete_is_solution c D s a hm hf hl hlast

/-- whole episodes: every complete episode of legal actions (`LegalEpisode`: each action legal at its turn, LAST exactly
at the last one) from ANY generated instance ends in a complete feasible solution: every customer on the route exactly
once, every route within the capacity, vehicle back at the depot -/
theorem cvrp_episode_complete_is_solution (c : Cfg) (D : Dist) (n : Nat) (cd : List (List Rat)) (dd : List Int)
    (hm : 0 ≤ c.maxCap) (hd : dd.length = n + 1) (as : List Nat)
    (hep : LegalEpisode c D (generate n c.maxCap cd dd) as) :
    IsSolution c.maxCap (endState c D (generate n c.maxCap cd dd) as) :=
  CVRP.episode_complete_is_solution c D hm _ as (CVRP.generate_feasible n c.maxCap cd dd hm hd) hep

example : LegalEpisode ⟨1, true, 3/2⟩ [[0, 1, 1], [1, 0, 1], [1, 1, 0]]
    (generate 2 1 [[0, 0], [1, 0], [0, 1]] [1, 1, 1]) [1, 0, 2, 0] := by decide +kernel

/-- whole episodes: from ANY feasible state along ANY sequence of nodes each legal at its turn, the state after
every prefix is feasible: load within capacity on every route, no customer served twice -/
theorem cvrp_feasible_along_from (c : Cfg) (D : Dist) (hm : 0 ≤ c.maxCap) (s : State) (as : List Nat)
    (hf : Feasible c.maxCap s) (hal : AllLegal c D s as) (k : Nat) :
    Feasible c.maxCap (playS c D s (as.take k)) := CVRP.feasible_along c D hm s as hf hal k

/-- whole episodes from ANY generated instance (any size, any draws of the right length) along ANY
mask-respecting sequence (`AllMasked`: each node has its bit set in the action mask of the observation current at
its turn): after every prefix the state is feasible; spelled out: every route's load is within the capacity and no
customer is on the trajectory twice -/
theorem cvrp_feasible_along (c : Cfg) (D : Dist) (n : Nat) (cd : List (List Rat)) (dd : List Int)
    (hm : 0 ≤ c.maxCap) (hd : dd.length = n + 1) (as : List Nat)
    (hmask : AllMasked c D (generate n c.maxCap cd dd) as) (k : Nat) :
    Feasible c.maxCap (playS c D (generate n c.maxCap cd dd) (as.take k)) ∧
    loadsOK (playS c D (generate n c.maxCap cd dd) (as.take k)).demands c.maxCap 0
      (visits (playS c D (generate n c.maxCap cd dd) (as.take k))) = true ∧
    ((visits (playS c D (generate n c.maxCap cd dd) (as.take k))).filter (· ≠ DEPOT)).Nodup := by
  have hf0 := CVRP.generate_feasible n c.maxCap cd dd hm hd
  have hf := CVRP.feasible_along c D hm _ as hf0 (CVRP.allMasked_allLegal c D hm as _ hf0 hmask) k
  exact ⟨hf, hf.2.2.2.2.2.2.2.2.2.2.2.2.1, hf.2.2.2.2.2.2.2.2.2.1⟩

-- a mask-respecting complete episode on a generated 2-customer instance (capacity 3: customer 2, refill, customer 1)
example : AllMasked ⟨3, true, 1⟩ [[0, 1, 1], [1, 0, 1], [1, 1, 0]]
    (generate 2 3 [[0, 0], [1/2, 0], [0, 1/2]] [7, 2, 3]) [2, 0, 1, 0] := by
  simp only [AllMasked]; decide +kernel
end Props.C06

namespace Props.C08
/-- dense reward telescopes: route length after a legal step = route length before − reward -/
theorem cvrp_dense_telescopes (c : Cfg) (D : Dist) (s : State) (a : Nat) (hm : 0 ≤ c.maxCap)
    (hdense : c.dense = true) (hD : dist D DEPOT DEPOT = 0)
    (hf : Feasible c.maxCap s) (hl : legal s a) :
    pathLen D (visits (step c D s a).1) = pathLen D (visits s) - (step c D s a).2.reward.sum :=
  CVRP.dense_telescopes c D s a hm hdense hD hf hl

/-- when all nodes are visited the vehicle is at the depot, so the documented objective (tour
through all visits and back to the depot) is the route length the dense rewards add up to -/
theorem cvrp_tourLength_final (maxCap : Int) (D : Dist) (s : State) (hD : dist D DEPOT DEPOT = 0)
    (hf : Feasible maxCap s) (h : allVisited s = true) : tourLength D s = pathLen D (visits s) :=
  CVRP.tourLength_final maxCap D s hD hf h

/-- the sparse objective of the code (cyclic sum of distances over the zero-padded trajectory
array, `compute_tour_length`) is the documented objective: the tour through all visits made so
far, depot returns included, and back to the depot — in every feasible state, also when the last
trajectory write (index `2·num_nodes`) was dropped -/
theorem cvrp_sparse_objective (maxCap : Int) (D : Dist) (s : State) (hD : dist D DEPOT DEPOT = 0)
    (hf : Feasible maxCap s) : computeTourLength D s.trajectory = tourLength D s :=
  CVRP.computeTourLength_eq maxCap D s hD hf

/-- sparse reward of a legal step: zero before the end, minus the tour length at the end -/
theorem cvrp_sparse_reward (c : Cfg) (D : Dist) (s : State) (a : Nat) (hm : 0 ≤ c.maxCap)
    (hsparse : c.dense = false) (hD : dist D DEPOT DEPOT = 0) (hf : Feasible c.maxCap s)
    (hl : legal s a) :
    (step c D s a).2.reward =
      [if (step c D s a).2.stepType = .last then -(tourLength D (step c D s a).1) else 0] :=
  CVRP.sparse_reward_objective c D s a hm hsparse hD hf hl

/-- whole episodes (`returnOf`, `endState`, `LegalEpisode` are defined in Env/CVRP/Lemmas.lean:
play a list of actions until LAST; every action legal and LAST exactly at the last one):
dense return = route length already recorded − tour length of the final state -/
theorem cvrp_dense_return (c : Cfg) (D : Dist) (s : State) (as : List Nat) (hm : 0 ≤ c.maxCap)
    (hdense : c.dense = true) (hD : dist D DEPOT DEPOT = 0) (hf : Feasible c.maxCap s)
    (hep : LegalEpisode c D s as) :
    returnOf c D s as = pathLen D (visits s) - tourLength D (endState c D s as) :=
  CVRP.dense_return c D s as hm hdense hD hf hep

/-- sparse return = − tour length of the final state -/
theorem cvrp_sparse_return (c : Cfg) (D : Dist) (s : State) (as : List Nat) (hm : 0 ≤ c.maxCap)
    (hsparse : c.dense = false) (hD : dist D DEPOT DEPOT = 0) (hf : Feasible c.maxCap s)
    (hep : LegalEpisode c D s as) :
    returnOf c D s as = - tourLength D (endState c D s as) :=
  CVRP.sparse_return c D s as hm hsparse hD hf hep

/-- from any reset state, on the same complete episode of legal actions, both reward functions
return minus the tour length (depot returns included) of the final state -/
theorem cvrp_dense_eq_sparse (c : Cfg) (D : Dist) (n : Nat) (cd : List (List Rat)) (dd : List Int)
    (as : List Nat) (hm : 0 ≤ c.maxCap) (hD : dist D DEPOT DEPOT = 0) (hd : dd.length = n + 1)
    (hep : LegalEpisode c D (generate n c.maxCap cd dd) as) :
    returnOf { c with dense := true } D (generate n c.maxCap cd dd) as =
      - tourLength D (endState c D (generate n c.maxCap cd dd) as) ∧
    returnOf { c with dense := false } D (generate n c.maxCap cd dd) as =
      - tourLength D (endState c D (generate n c.maxCap cd dd) as) :=
  CVRP.dense_eq_sparse c D n cd dd as hm hD hd hep

/-- a complete legal episode exists on a concrete instance (2 customers that each fill the vehicle) -/
example : LegalEpisode ⟨1, true, 3/2⟩ [[0, 1, 1], [1, 0, 1], [1, 1, 0]]
    (generate 2 1 [[0, 0], [1, 0], [0, 1]] [1, 1, 1]) [1, 0, 2, 0] := by decide +kernel
end Props.C08

namespace Props.C09
/-- L1 ⊑ L2: on a legal action the transliterated `step` does exactly what the rules prescribe -/
theorem cvrp_step_legal_spec (c : Cfg) (D : Dist) (s : State) (a : Nat) (hf : Feasible c.maxCap s)
    (hl : legal s a) :
    let s' := (step c D s a).1
    s'.position = a ∧ visits s' = visits s ++ [a] ∧
    s'.capacity = (if a = DEPOT then c.maxCap else s.capacity - s.demands.getD a 0) ∧
    (∀ x, 0 < x → x < s.visited.length → s'.visited.getD x false = (s.visited.getD x false || x == a)) ∧
    s'.demands = s.demands ∧ s'.coords = s.coords ∧
    ((step c D s a).2.stepType = .last ↔ allVisited s' = true) ∧
    ((step c D s a).2.stepType = .last ∨ (step c D s a).2.stepType = .mid) :=
  CVRP.step_legal_spec c D s a hf hl

/-- the JAX index corner cases of `_update_state` never bite on an in-range action -/
theorem cvrp_update_eq (c : Cfg) (s : State) (a : Nat) (hl : s.demands.length = s.visited.length)
    (ha : a < s.visited.length) :
    update c s a =
      { s with position := a
               capacity := if a = DEPOT then c.maxCap else s.capacity - s.demands.getD a 0
               visited := (s.visited.set 0 false).set a true
               trajectory := if s.numVisits < s.trajectory.length then s.trajectory.set s.numVisits a
                             else s.trajectory
               numVisits := s.numVisits + 1 } := CVRP.update_eq c s a hl ha

/-- L1 = L2 (audit: `cvrp_step_legal_spec` covers legal actions and some fields only): on EVERY feasible state and EVERY
in-range action — legal or not — the transliterated `step` (gathers with clamping, scatters with dropping, the stale-state
reads of the reward functions, `compute_tour_length` over the zero-padded trajectory, `visited_mask.all()`) returns exactly
what the documented rules `stepL2` (Env/CVRP/Model.lean) prescribe: successor state in ALL fields, reward, step type,
discount and observation, for both reward functions.  `hD`: the depot is at distance 0 from itself. -/
theorem cvrp_step_eq_spec (c : Cfg) (D : Dist) (s : State) (a : Nat) (hm : 0 ≤ c.maxCap)
    (hD : dist D DEPOT DEPOT = 0) (hf : Feasible c.maxCap s) (ha : a < s.visited.length) :
    step c D s a = stepL2 c D s a := CVRP.step_eq_stepL2 c D s a hm hD hf ha

/-- the termination test of the rules ("all nodes have been visited": every customer on the route, vehicle at the depot,
read off the route) is the code's `visited_mask.all()` in every feasible state -/
theorem cvrp_complete_eq_allVisited (m : Int) (s : State) (hf : Feasible m s) : complete s = allVisited s :=
  CVRP.complete_eq_allVisited m s hf

-- the rules on the example state: node 3 (demand 3, capacity 3) is served, node 2 (visited) ends the episode with the penalty
example : (stepL2 ⟨5, true, 3/2⟩ [[0, 1, 1, 1], [1, 0, 1, 1], [1, 1, 0, 1], [1, 1, 1, 0]] CVRP.exampleState 3).1.capacity = 0 ∧
    (stepL2 ⟨5, true, 3/2⟩ [[0, 1, 1, 1], [1, 0, 1, 1], [1, 1, 0, 1], [1, 1, 1, 0]] CVRP.exampleState 3).2.reward = [-1] ∧
    (stepL2 ⟨5, true, 3/2⟩ [[0, 1, 1, 1], [1, 0, 1, 1], [1, 1, 0, 1], [1, 1, 1, 0]] CVRP.exampleState 2).2.reward = [-9] := by
  decide +kernel
end Props.C09

namespace Props.C10
/-- whatever `UniformGenerator` draws (coordinates in the unit square, demands in `[1, max_demand]`),
and given the constructor's check `max_demand ≤ max_capacity`: depot demand 0, customer demands in
range and never above the capacity, coordinates in the box, and the start state is the documented one -/
theorem cvrp_generate_instance (n : Nat) (maxCap maxDemand : Int) (cd : List (List Rat)) (dd : List Int)
    (hcon : maxDemand ≤ maxCap) (hd : validDraw n maxDemand cd dd) :
    demandsOK maxCap maxDemand (generate n maxCap cd dd) ∧ coordsInBox (generate n maxCap cd dd) ∧
    IsInitial n maxCap (generate n maxCap cd dd) :=
  CVRP.generate_instance n maxCap maxDemand cd dd hcon hd

example : validDraw 2 3 [[0, 1/2], [1/4, 1], [1/3, 1/3]] [2, 3, 1] := by decide +kernel
/-- `UniformGenerator`, transliterated with its draws as parameters: for EVERY size and EVERY valid draw
(`validUniform`: coordinates with `0 ≤ x < 1`, demand draws in `[1, max_demand]`), given the constructor's check
`max_demand ≤ max_capacity`, the generated state satisfies the certificate `GenCert`: depot demand 0, customer
demands integers in `[1, max_demand]` and each `≤ max_capacity`, capacity = `max_capacity`, position = depot, only
the depot visited, trajectory all depot, coordinates in `[0, 1)`.  `cvrp.instance` evaluates `GenCert` on the
implementation's reset states (key `generate_cert`). -/
theorem cvrp_generate_cert (n : Nat) (maxCap maxDemand : Int) (cd : List (List Rat)) (dd : List Int)
    (hcon : maxDemand ≤ maxCap) (hd : validUniform n maxDemand cd dd) :
    GenCert n maxCap maxDemand (generate n maxCap cd dd) :=
  CVRP.generate_cert n maxCap maxDemand cd dd hcon hd

/-- certificate ⇒ advertised invariants: the state IS `generate` of the draws read off it, demands never exceed
the capacity, coordinates lie in the declared box, the start state is the documented one and it is feasible -/
theorem cvrp_cert_sound (n : Nat) (maxCap maxDemand : Int) (s : State) (hm : 0 ≤ maxCap)
    (h : GenCert n maxCap maxDemand s) :
    s = generate n maxCap s.coords s.demands ∧ demandsOK maxCap maxDemand s ∧ coordsInBox s ∧
    IsInitial n maxCap s ∧ Feasible maxCap s :=
  ⟨CVRP.cert_eq_generate n maxCap maxDemand s h, CVRP.cert_sound n maxCap maxDemand s hm h⟩

example : validUniform 2 3 [[0, 1/2], [1/4, 999/1000], [1/3, 1/3]] [2, 3, 1] := by decide +kernel

/-! #### audit r4 #1: the support the CODE draws from, and `max_demand ≤ 0`

`validDraw` / `validUniform` are the DOCUMENTED range "demands in `[1, max_demand]`".  The code draws
`randint(minval=1, maxval=max_demand)`: upper bound exclusive, and `1` when `max_demand ≤ 1` — `validUniformCode`.  For
`max_demand ≥ 1` the documented support is a superset (all theorems above apply, but never see that `max_demand` itself is
unreachable: `Props.C10.cvrp_max_demand_never_drawn` in Props/Draws.lean); for `max_demand ≤ 0` the documented support is
EMPTY (`cvrp_validUniform_pos`) — every theorem above with `validDraw`/`validUniform` is vacuous there — while
`CVRP.__init__` ACCEPTS such configurations (`max_capacity ≥ max_demand` is its only check, Props/Guards.lean). -/

/-- the documented supports are empty unless `1 ≤ max_demand` -/
theorem cvrp_validUniform_pos (n : Nat) (m : Int) (cd : List (List Rat)) (dd : List Int) :
    (validUniform n m cd dd → 1 ≤ m) ∧ (validDraw n m cd dd → 1 ≤ m) :=
  ⟨CVRP.validUniform_pos n m cd dd, CVRP.validDraw_pos n m cd dd⟩

/-- the code's support is inhabited for EVERY `max_demand` (also `≤ 0`), and for `1 ≤ max_demand` it lies inside the
documented one -/
theorem cvrp_validUniformCode_facts (n : Nat) (m : Int) :
    validUniformCode n m (List.replicate (n + 1) [0, 0]) (List.replicate (n + 1) 1) ∧
    (∀ cd dd, 1 ≤ m → validUniformCode n m cd dd → validUniform n m cd dd) :=
  ⟨CVRP.validUniformCode_inhabited n m, fun cd dd h1 h => CVRP.validUniformCode_sub n m cd dd h1 h⟩

/-- the REPAIRED generator theorem: for every size, `1 ≤ max_demand ≤ max_capacity` and everything the CODE can draw, the
generated state satisfies the certificate, and moreover no customer demand exceeds `max(1, max_demand − 1)` -/
theorem cvrp_generate_cert_code (n : Nat) (maxCap maxDemand : Int) (cd : List (List Rat)) (dd : List Int)
    (h1 : 1 ≤ maxDemand) (hcon : maxDemand ≤ maxCap) (hd : validUniformCode n maxDemand cd dd) :
    GenCert n maxCap maxDemand (generate n maxCap cd dd) ∧
    (∀ d ∈ (generate n maxCap cd dd).demands.drop 1, d ≤ max 1 (maxDemand - 1)) :=
  CVRP.generate_cert_code n maxCap maxDemand cd dd h1 hcon hd

/-- WITNESS (candidate finding, C10/C01): `CVRP(UniformGenerator(num_nodes=3, max_capacity=0, max_demand=0))` is accepted by
the constructor; the code draws demands `[1, 1, 1, 1]` (in `validUniformCode 3 0`), the instance is NOT well-formed: customer
demands 1 exceed both `max_demand = 0` and the capacity 0 (`GenCert`, `demandsOK` fail), and no customer can ever be served.
Real code: demands `[0 1 1 1]`, capacity 0, observation demands `[nan inf inf inf]` (division by `max_capacity = 0`),
`observation_spec.validate` raises (reproduction in the report).  The model's `stateToObs` divides in ℚ (`x / 0 = 0`), so the
C01 theorems cannot see the `nan`/`inf`; they all assume `validDraw`, hence `1 ≤ max_demand ≤ max_capacity`. -/
theorem cvrp_max_demand_zero_witness :
    validUniformCode 3 0 [[0,0],[0,0],[0,0],[0,0]] [1,1,1,1] ∧
    ¬ validUniform 3 0 [[0,0],[0,0],[0,0],[0,0]] [1,1,1,1] ∧
    (generate 3 0 [[0,0],[0,0],[0,0],[0,0]] [1,1,1,1]).demands = [0, 1, 1, 1] ∧
    (generate 3 0 [[0,0],[0,0],[0,0],[0,0]] [1,1,1,1]).capacity = 0 ∧
    ¬ GenCert 3 0 0 (generate 3 0 [[0,0],[0,0],[0,0],[0,0]] [1,1,1,1]) ∧
    ¬ demandsOK 0 0 (generate 3 0 [[0,0],[0,0],[0,0],[0,0]] [1,1,1,1]) ∧
    (∀ a, a ≤ 3 → legal (generate 3 0 [[0,0],[0,0],[0,0],[0,0]] [1,1,1,1]) a → a = 0) := by
  refine ⟨by decide +kernel, by decide +kernel, by decide +kernel, by decide +kernel, by decide +kernel, by decide +kernel, ?_⟩
  intro a ha hl
  have : a = 0 ∨ a = 1 ∨ a = 2 ∨ a = 3 := by omega
  rcases this with rfl | rfl | rfl | rfl
  · rfl
  all_goals (exfalso; revert hl; decide +kernel)
end Props.C10

namespace Props.C11
/-- every non-terminal step records one more visit, and a non-terminal state has at most
`2·num_nodes` visits; the reset state has 1: so an episode lasts at most `2·num_nodes` steps -/
theorem cvrp_progress (c : Cfg) (D : Dist) (s : State) (a : Nat) (hm : 0 ≤ c.maxCap)
    (hf : Feasible c.maxCap s) (ha : a < s.visited.length)
    (h : (step c D s a).2.stepType ≠ .last) :
    (step c D s a).1.numVisits = s.numVisits + 1 ∧ (step c D s a).1.numVisits ≤ 2 * numNodes s :=
  CVRP.progress c D s a hm hf ha h

/-- in any feasible state at most `2·num_nodes + 1` visits are recorded -/
theorem cvrp_visits_bound (maxCap : Int) (s : State) (hf : Feasible maxCap s) :
    s.numVisits ≤ 2 * numNodes s + 1 := CVRP.visits_bound maxCap s hf

/-- feasibility (the hypothesis above) survives any in-range action, legal or not -/
theorem cvrp_step_feasible_any (c : Cfg) (D : Dist) (s : State) (a : Nat) (hm : 0 ≤ c.maxCap)
    (hf : Feasible c.maxCap s) (ha : a < s.visited.length) : Feasible c.maxCap (step c D s a).1 :=
  CVRP.step_feasible_any c D s a hm hf ha

/-- whole episodes (audit: `cvrp_progress` is a single step): from EVERY reset state (any `n ≥ 1`, any draws of the right
length), EVERY list of at least `2n` actions of the action spec (`a ≤ n`) — legal or not — contains a LAST timestep, and the
first one has (1-based) index ≤ `2n`: no episode outlasts the structural horizon `2·num_nodes`.  `Ep.rollout` iterates
the L1 `step`, `Ep.firstLastTS` is what harness/props/c11.py measures (Core/Episode.lean). -/
theorem cvrp_ends_within_horizon (c : Cfg) (D : Dist) (hm : 0 ≤ c.maxCap) (n : Nat) (hn : 0 < n)
    (cd : List (List Rat)) (dd : List Int) (hd : dd.length = n + 1) (as : List Nat) (hok : ∀ a ∈ as, a ≤ n)
    (hlen : 2 * n ≤ as.length) :
    ∃ k, Ep.firstLastTS ((Ep.rollout (step c D) (reset c n cd dd).1 as).map (·.2)) = some k ∧ 0 < k ∧ k ≤ 2 * n :=
  CVRP.ends_within_horizon c D hm n hn cd dd hd as hok hlen

/-- the horizon `2n` is attained: two customers that each fill the vehicle need 4 steps -/
example : Ep.firstLastTS ((Ep.rollout (step ⟨1, true, 3/2⟩ [[0, 1, 1], [1, 0, 1], [1, 1, 0]])
    (reset ⟨1, true, 3/2⟩ 2 [[0, 0], [1, 0], [0, 1]] [1, 1, 1]).1 [1, 0, 2, 0]).map (·.2)) = some 4 := by decide +kernel
end Props.C11

namespace Props.C12
/-- the observation is the documented function of the successor state (mask = legal actions) -/
theorem cvrp_obs_faithful (c : Cfg) (D : Dist) (s : State) (a : Nat)
    (hl : s.demands.length = s.visited.length) :
    (step c D s a).2.obs = observe c (step c D s a).1 := CVRP.obs_faithful c D s a hl

/-- … and so is the observation returned by `reset` -/
theorem cvrp_reset_obs_faithful (c : Cfg) (n : Nat) (cd : List (List Rat)) (dd : List Int)
    (hd : dd.length = n + 1) :
    (reset c n cd dd).2.obs = observe c (reset c n cd dd).1 ∧ (reset c n cd dd).2.stepType = .first :=
  CVRP.reset_obs_faithful c n cd dd hd
end Props.C12
