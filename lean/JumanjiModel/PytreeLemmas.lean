import JumanjiModel.Pytree
import JumanjiModel.Prim.Lemmas
namespace Pytree
variable {τ β : Type} [DecidableEq τ]

theorem mapM_option_eq_some {α γ} (f : α → Option γ) (l : List α) (r : List γ)
    (hlen : r.length = l.length) (h : ∀ k (hk : k < l.length) (hr : k < r.length), f l[k] = some r[k]) :
    l.mapM f = some r := by
  induction l generalizing r with
  | nil => cases r <;> simp_all
  | cons a l ih =>
    cases r with
    | nil => simp at hlen
    | cons b r =>
      have ha := h 0 (by simp) (by simp)
      simp at ha
      have hl := ih r (by simpa using hlen) (fun k hk hr => by
        have := h (k+1) (by simp; omega) (by simp; omega)
        simpa using this)
      simp [List.mapM_cons, ha, hl]

theorem column_getElem? (ts : List (PTree τ β)) (j : Nat) (h : ∀ t ∈ ts, j < t.leaves.length) (i : Nat) :
    (column ts j)[i]? = (ts[i]?).bind (fun t => t.leaves[j]?) := by
  induction ts generalizing i with
  | nil => simp [column]
  | cons t ts ih =>
    have ht : j < t.leaves.length := h t (by simp)
    have ih' := ih (fun x hx => h x (by simp [hx]))
    unfold column at ih' ⊢
    simp only [List.filterMap_cons, List.getElem?_eq_getElem ht]
    cases i with
    | zero => simp [List.getElem?_eq_getElem ht]
    | succ i => simpa using ih' i

theorem column_length (ts : List (PTree τ β)) (j : Nat) (h : ∀ t ∈ ts, j < t.leaves.length) :
    (column ts j).length = ts.length := by
  induction ts with
  | nil => simp [column]
  | cons t ts ih =>
    have ht : j < t.leaves.length := h t (by simp)
    have ih' := ih (fun x hx => h x (by simp [hx]))
    unfold column at ih' ⊢
    simp [List.filterMap_cons, List.getElem?_eq_getElem ht, ih']

theorem staticIdx_nat {n i : Nat} (h : i < n) : staticIdx n (i : Int) = some i := by
  unfold staticIdx Jx.wrapIdx
  simp only []
  have h1 : ¬ ((i : Int) < 0) := by omega
  have h2 : ¬ ((i : Int) ≥ (n : Int)) := by omega
  simp [h1, h2]

/-- slicing the stacked trees at `i` returns the `i`-th tree -/
theorem slice_transpose (td : τ) (n : Nat) (ts : List (PTree τ β)) (hs : SameStructure td n ts)
    (i : Nat) (hi : i < ts.length) : slice (transpose td n ts) (i : Int) = some ts[i] := by
  have hti := hs ts[i] (List.getElem_mem hi)
  have hall : ∀ j, j < n → ∀ t ∈ ts, j < t.leaves.length := fun j hj t ht => by
    have := (hs t ht).2; omega
  unfold slice transpose
  simp only []
  rw [mapM_option_eq_some _ _ ts[i].leaves]
  · simp only [Option.map_some]
    congr 1
    cases h : ts[i] with
    | mk td' ls => simp [h] at hti; simp [hti.1]
  · simp [hti.2]
  · intro k hk hr
    simp at hk
    simp only [List.getElem_map, List.getElem_range]
    rw [column_length ts k (hall k hk), staticIdx_nat hi]
    simp only [Option.bind_some]
    rw [column_getElem? ts k (hall k hk) i, List.getElem?_eq_getElem hi]
    simp only [Option.bind_some]
    exact List.getElem?_eq_getElem hr

theorem addElement_structure (t : PTree τ (List β)) (i : Int) (e : PTree τ β) (t' : PTree τ (List β))
    (h : addElement t i e = some t') :
    t'.td = t.td ∧ t'.leaves.length = t.leaves.length ∧
    ∀ k (hk : k < t'.leaves.length) (hk' : k < t.leaves.length), t'.leaves[k].length = t.leaves[k].length := by
  unfold addElement at h
  split at h
  · rename_i hc
    injection h with h; subst h
    refine ⟨rfl, by simp [hc.2], ?_⟩
    intro k hk hk'
    simp [Jx.setWD_length]
  · simp at h

/-- after `tree_add_element tree i e`, slicing at `i` gives `e` (when `i` is a valid index of every leaf) -/
theorem slice_addElement_same (t : PTree τ (List β)) (i : Nat) (e : PTree τ β)
    (hst : t.td = e.td ∧ t.leaves.length = e.leaves.length)
    (hi : ∀ x ∈ t.leaves, i < x.length) :
    (addElement t i e).bind (fun t' => slice t' i) = some e := by
  unfold addElement
  simp only [hst, and_self, if_true, Option.bind_some]
  unfold slice
  simp only []
  rw [mapM_option_eq_some _ _ e.leaves]
  · cases e with
    | mk tde ls => simp [hst.1]
  · simp [hst.2]
  · intro k hk hr
    simp only [List.getElem_zipWith]
    have hk' : k < t.leaves.length := by simp at hk; omega
    have hx := hi t.leaves[k] (List.getElem_mem hk')
    rw [Jx.setWD_length, staticIdx_nat hx, Jx.setWD_nat _ _ hx]
    simp [hx]

theorem mapM_zipWith_congr {α γ δ} (f : α → Option δ) (g : α → γ → α) (as : List α) (bs : List γ)
    (hlen : as.length = bs.length) (h : ∀ a ∈ as, ∀ v, f (g a v) = f a) :
    (List.zipWith g as bs).mapM f = as.mapM f := by
  induction as generalizing bs with
  | nil => simp
  | cons a as ih =>
    cases bs with
    | nil => simp at hlen
    | cons b bs =>
      have := ih bs (by simpa using hlen) (fun x hx v => h x (by simp [hx]) v)
      simp [List.mapM_cons, h a (by simp) b, this]

/-- … and slicing at any other valid index `j ≠ i` gives what was there before -/
theorem slice_addElement_other (t : PTree τ (List β)) (i j : Nat) (e : PTree τ β)
    (hst : t.td = e.td ∧ t.leaves.length = e.leaves.length) (hij : j ≠ i)
    (hi : ∀ x ∈ t.leaves, i < x.length) :
    (addElement t i e).bind (fun t' => slice t' j) = slice t j := by
  unfold addElement
  simp only [hst, and_self, if_true, Option.bind_some]
  unfold slice
  simp only []
  rw [mapM_zipWith_congr _ _ _ _ hst.2, hst.1]
  · intro a ha v
    have hx := hi a ha
    rw [Jx.setWD_length, Jx.setWD_nat _ _ hx]
    cases hs : staticIdx a.length (j : Int) with
    | none => rfl
    | some k =>
      have hk : k = j := by
        unfold staticIdx Jx.wrapIdx at hs
        simp only [] at hs
        repeat' split at hs
        all_goals (try simp at hs)
        all_goals omega
      subst hk
      simp [List.getElem?_set, Ne.symm hij]

end Pytree

namespace Pytree
variable {τ ε : Type} [DecidableEq τ] [DecidableEq ε]

theorem arrayEqual_iff (a b : Leaf ε) : arrayEqual a b = true ↔ a.shape = b.shape ∧ a.data = b.data := by
  unfold arrayEqual; simp

theorem isEqual_refl (t : PTree τ (Leaf ε)) : isEqual t t = some true := by
  unfold isEqual
  simp only [and_self, if_true]
  congr 1
  rw [List.all_eq_true]
  intro b hb
  rw [List.mem_iff_getElem] at hb
  obtain ⟨k, hk, rfl⟩ := hb
  simp [arrayEqual]

theorem arrayEqual_symm (a b : Leaf ε) : arrayEqual a b = arrayEqual b a := by
  unfold arrayEqual
  rw [Bool.eq_iff_iff]; simp
  constructor <;> (rintro ⟨h1, h2⟩; exact ⟨h1.symm, h2.symm⟩)

theorem zipWith_arrayEqual_symm (l1 l2 : List (Leaf ε)) :
    List.zipWith arrayEqual l1 l2 = List.zipWith arrayEqual l2 l1 := by
  induction l1 generalizing l2 with
  | nil => simp
  | cons a l1 ih =>
    cases l2 with
    | nil => simp
    | cons b l2 => simp [arrayEqual_symm a b, ih l2]

theorem isEqual_symm (t1 t2 : PTree τ (Leaf ε)) : isEqual t1 t2 = isEqual t2 t1 := by
  unfold isEqual
  by_cases h : t1.td = t2.td ∧ t1.leaves.length = t2.leaves.length
  · have h' : t2.td = t1.td ∧ t2.leaves.length = t1.leaves.length := ⟨h.1.symm, h.2.symm⟩
    rw [if_pos h, if_pos h', zipWith_arrayEqual_symm]
  · have h' : ¬ (t2.td = t1.td ∧ t2.leaves.length = t1.leaves.length) := fun hh => h ⟨hh.1.symm, hh.2.symm⟩
    rw [if_neg h, if_neg h']

/-- for two trees of the same structure the helper is true exactly when every pair of leaves has
equal shape and equal elements -/
theorem isEqual_iff (t1 t2 : PTree τ (Leaf ε)) (h : t1.td = t2.td ∧ t1.leaves.length = t2.leaves.length) :
    isEqual t1 t2 = some true ↔
      ∀ k (h1 : k < t1.leaves.length) (h2 : k < t2.leaves.length),
        t1.leaves[k].shape = t2.leaves[k].shape ∧ t1.leaves[k].data = t2.leaves[k].data := by
  unfold isEqual
  rw [if_pos h]
  simp only [Option.some.injEq]
  rw [List.all_eq_true]
  constructor
  · intro hall k h1 h2
    have := hall (arrayEqual t1.leaves[k] t2.leaves[k]) (by
      rw [List.mem_iff_getElem]
      exact ⟨k, by simp; omega, by simp⟩)
    exact (arrayEqual_iff _ _).1 this
  · intro hk b hb
    rw [List.mem_iff_getElem] at hb
    obtain ⟨k, hk', rfl⟩ := hb
    have hk1 : k < t1.leaves.length := by simp at hk'; omega
    have hk2 : k < t2.leaves.length := by simp at hk'; omega
    simp only [List.getElem_zipWith, id]
    exact (arrayEqual_iff _ _).2 (hk k hk1 hk2)

end Pytree
